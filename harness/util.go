package main

import (
	"encoding/hex"
	"fmt"
	"math/big"
	"strings"
)

// SplitMix64: every random choice of the harness derives from one of these, seeded by VERIF_SEED.
type rng struct{ s uint64 }

func (r *rng) next() uint64 {
	r.s += 0x9e3779b97f4a7c15
	z := r.s
	z = (z ^ (z >> 30)) * 0xbf58476d1ce4e5b9
	z = (z ^ (z >> 27)) * 0x94d049bb133111eb
	return z ^ (z >> 31)
}
func (r *rng) intn(n int) int {
	if n <= 0 {
		return 0
	}
	return int(r.next() % uint64(n))
}
func (r *rng) bytes(n int) []byte {
	b := make([]byte, n)
	for i := range b {
		b[i] = byte(r.next())
	}
	return b
}
func (r *rng) coin(num, den int) bool   { return r.intn(den) < num }
func (r *rng) pick(xs ...string) string { return xs[r.intn(len(xs))] }
func (r *rng) fork() *rng               { return &rng{s: r.next()} }

func hx(b []byte) string {
	if len(b) == 0 {
		return "-"
	}
	return hex.EncodeToString(b)
}
func unhex(s string) ([]byte, bool) {
	if s == "-" {
		return []byte{}, true
	}
	b, err := hex.DecodeString(s)
	return b, err == nil
}
func nhx(n *big.Int) string {
	if n.Sign() < 0 {
		return "-" + new(big.Int).Neg(n).Text(16)
	}
	return n.Text(16)
}
func unnat(s string) (*big.Int, bool) {
	neg := false
	if strings.HasPrefix(s, "-") && s != "-" {
		neg = true
		s = s[1:]
	}
	if s == "-" {
		return new(big.Int), true
	}
	n, ok := new(big.Int).SetString(s, 16)
	if !ok {
		return nil, false
	}
	if neg {
		n.Neg(n)
	}
	return n, true
}
func b2s(b bool) string {
	if b {
		return "1"
	}
	return "0"
}
func sprintf(f string, a ...interface{}) string { return fmt.Sprintf(f, a...) }
