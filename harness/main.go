// gobkharness: correspondence harness for the Lean model of libsv/go-bk.
//
//	harness gen -prop C13 -tier quick -seed 1 -ops ops.txt -classes classes.txt
//	harness run < ops.txt > impl.txt           (one result line per op line; real code, in-process)
//	harness mem|conc ...                       (C16 / C17 direct observation, see mem.go / conc.go)
package main

import (
	"bufio"
	"flag"
	"fmt"
	"os"
	"runtime/debug"
	"strconv"
	"strings"
)

type emitter struct {
	ops      *bufio.Writer
	classes  *bufio.Writer
	n        int
	twinImpl bool
	win      []string // the last eligible lines, for `seq`
	groups   int
}

// Ops whose lines may be glued into a `seq` line (pure, stateless in the model, no random tape, no known finding attached).
var seqOps = map[string]bool{"b58.dec": true, "b58.cdec": true, "b58.enc": true, "b58.cenc": true, "der.parse": true, "der.lax": true,
	"der.ser": true, "wif.dec": true, "wif.enc": true, "addr": true, "hash.sha256": true, "hash.sha256d": true, "hash.ripemd160": true,
	"hash.hash160": true, "parsepub": true, "serpub": true, "privbytes": true, "curve.add": true, "curve.double": true, "curve.smul": true,
	"curve.sbmul": true, "curve.oncurve": true, "verify": true, "compact.recover": true, "compact.sign": true, "ecdh": true,
	"bip39.seed": true, "bip39.mn": true, "dpath.fwd": true, "dpath.back": true, "env.valid": true, "json.quote": true, "json.unquote": true,
	"json.roundtrip": true}

func (e *emitter) emit(class, line string) {
	fmt.Fprintln(e.ops, line)
	fmt.Fprintln(e.classes, class)
	e.n++
	// Neighbouring lines of a generator are relatives (the honest input, its twin, its one-field variants).  The shards deal
	// lines round-robin, so neighbours never meet in one process; every so often three neighbours are therefore ALSO emitted as
	// one `seq` line — l1 | l2 | l3 | l1, executed back to back — which is what a memo of the last call or the last result
	// keyed by part of the input gets wrong.
	if op := line; len(op) > 0 {
		if i := strings.IndexByte(op, ' '); i > 0 && seqOps[op[:i]] && len(line) < 20000 {
			e.win = append(e.win, line)
			if len(e.win) == 3 {
				if e.groups < 40 || e.groups%8 == 0 {
					fmt.Fprintln(e.ops, "seq "+e.win[0]+" | "+e.win[1]+" | "+e.win[2]+" | "+e.win[0])
					fmt.Fprintln(e.classes, "seq."+op[:i])
					e.n++
				}
				e.groups++
				e.win = e.win[:0]
			}
		}
	}
	// every API-level curve op is also run against the code-shaped model (impl.*)
	if e.twinImpl && strings.HasPrefix(line, "curve.") {
		fmt.Fprintln(e.ops, "impl."+line[len("curve."):])
		fmt.Fprintln(e.classes, "impl."+class)
		e.n++
	}
}

type genFunc func(e *emitter, r *rng, thorough bool)

var generators = map[string]genFunc{}

func main() {
	if len(os.Args) < 2 {
		fmt.Fprintln(os.Stderr, "usage: harness gen|run|mem|conc ...")
		os.Exit(2)
	}
	initNets()
	if os.Args[1] != "conc" {
		initCurveVars()
	}
	switch os.Args[1] {
	case "gen":
		fs := flag.NewFlagSet("gen", flag.ExitOnError)
		prop := fs.String("prop", "", "property id")
		tier := fs.String("tier", "quick", "quick|thorough")
		seed := fs.Uint64("seed", 1, "seed")
		opsF := fs.String("ops", "", "ops output file")
		clsF := fs.String("classes", "", "classes output file")
		_ = fs.Parse(os.Args[2:])
		g, ok := generators[*prop]
		if !ok {
			fmt.Fprintf(os.Stderr, "no generator for %s\n", *prop)
			os.Exit(2)
		}
		of, err := os.Create(*opsF)
		if err != nil {
			panic(err)
		}
		cf, err := os.Create(*clsF)
		if err != nil {
			panic(err)
		}
		e := &emitter{ops: bufio.NewWriterSize(of, 1<<20), classes: bufio.NewWriterSize(cf, 1<<20), twinImpl: *prop == "C01"}
		func() {
			// generators call the library to build inputs (encode a payload, sign, derive ...): a panic there IS a
			// panic of the real code on a generated input, reported as such (exit 3) with the stack
			defer func() {
				if p := recover(); p != nil {
					e.ops.Flush()
					e.classes.Flush()
					fmt.Fprintf(os.Stderr, "LIBRARY-PANIC while generating inputs for %s (seed %d, tier %s): %v\n%s\n", *prop, *seed, *tier, p, debug.Stack())
					os.Exit(3)
				}
			}()
			g(e, &rng{s: *seed*0x9e3779b97f4a7c15 + 0x1234567}, *tier == "thorough")
		}()
		e.ops.Flush()
		e.classes.Flush()
		of.Close()
		cf.Close()
		fmt.Fprintf(os.Stderr, "generated %d ops\n", e.n)
	case "run":
		sc := bufio.NewScanner(os.Stdin)
		sc.Buffer(make([]byte, 1<<20), 1<<26)
		w := bufio.NewWriterSize(os.Stdout, 1<<20)
		flushEach := os.Getenv("HARNESS_FLUSH") == "1" // set by the check when a shard timed out: names the op that hangs
		// HARNESS_PRELUDE=n: the first n lines are the cross-talk history; the shared state of the library is
		// digested when the property's own ops begin and again at the end (exit status 9 + a line on stderr if it changed)
		prelude, _ := strconv.Atoi(os.Getenv("HARNESS_PRELUDE"))
		var before map[string]string
		line := 0
		for sc.Scan() {
			if line == prelude {
				before = globalsDigest()
			}
			line++
			fmt.Fprintln(w, execOp(sc.Text()))
			if flushEach {
				w.Flush()
			}
		}
		w.Flush()
		if before != nil {
			after := globalsDigest()
			changed := ""
			for k, v := range before {
				if after[k] != v {
					changed += " " + k
				}
			}
			if changed != "" {
				fmt.Fprintln(os.Stderr, "GLOBALS-CHANGED:"+changed)
				os.Exit(9)
			}
		}
	case "nets":
		fmt.Println(netsString())
	case "mem":
		os.Exit(runMem(os.Args[2:]))
	case "conc":
		os.Exit(runConc(os.Args[2:]))
	default:
		fmt.Fprintln(os.Stderr, "unknown subcommand")
		os.Exit(2)
	}
}
