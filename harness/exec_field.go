//go:build verif

package main

// Ops on the real code through the build-tag hooks of /repo/bec/verif_hooks.go.  The compiled
// Lean driver (lean/Driver/FieldOps.lean) implements the same ops on the REGENERATED code.
//
// A field value F is its 10 raw uint32 words n[0..9] in hex, joined by ',' (no leading zeros).
//
//	field.zero | field.set F | field.setint k               -> ok F
//	field.normalise F                                        -> ok F
//	field.add F G        (f.Add(g))      field.addself F   (f.Add(f))
//	field.add2 F G       (junk-filled receiver r.Add2(f,g)); .r1: f.Add2(f,g)  .r2: g.Add2(f,g)
//	field.add2.r12 F     (f.Add2(f,f))
//	field.addint F k | field.mulint F k   (k decimal)        -> ok F
//	field.neg F m        (f.Negate(m))   field.negval F m  (r.NegateVal(f,m))
//	field.mul F G        (f.Mul(g))      field.mulself F   (f.Mul(f))
//	field.mul2 F G  / .r1 / .r2 / field.mul2.r12 F           as for add2
//	field.sq F           (f.Square())    field.sqval F     (r.SquareVal(f))
//	field.inv F | field.sqrt F           (f.Inverse(), r.SqrtVal(f))
//	field.setbytes HEX   (SetByteSlice, any length, '-' = empty)   field.setbytes32 HEX (SetBytes)
//	field.putbytes F | field.bytes F                         -> ok HEX(32 bytes)
//	field.iszero F | field.isodd F | field.eq F G | field.eqself F   -> ok 0|1
//	jac.<fn> <alias> P0 P1 …                                 -> ok P0' P1' …   (all parameters after the call)
//	    fn: add double addv1 addv2 addv3 addv4 dblv1 dblv2 toaffine (toaffine appends the two big.Int results in hex)
//	    alias: comma list, alias[i] = j makes parameter i the same pointer as parameter j (j = i: its own)
//	jac.consts                                               -> ok fieldOne fieldB beta
//	jac.oncurve X Y      (curve.IsOnCurve on big.Ints, hex)  -> ok 0|1
//	jac.decompress X b   (decompressPoint, b = 0|1)          -> ok Y | err 1 (no square root) | err 2 (parity)
//	table.get i b        (bytePoints[i][b])                  -> ok X Y Z

import (
	"encoding/hex"
	"math/big"
	"strconv"
	"strings"

	"github.com/libsv/go-bk/bec"
)

type fv = bec.VerifFV

func fvStr(f fv) string {
	var sb strings.Builder
	for i, w := range f {
		if i > 0 {
			sb.WriteByte(',')
		}
		sb.WriteString(strconv.FormatUint(uint64(w), 16))
	}
	return sb.String()
}

func parseFV(s string) (f fv, ok bool) {
	parts := strings.Split(s, ",")
	if len(parts) != 10 {
		return f, false
	}
	for i, p := range parts {
		if p == "" || strings.HasPrefix(p, "+") || strings.HasPrefix(p, "-") {
			return f, false
		}
		v, err := strconv.ParseUint(p, 16, 32)
		if err != nil {
			return f, false
		}
		f[i] = uint32(v)
	}
	return f, true
}

func parseDec(s string) (uint64, bool) {
	if s == "" || strings.HasPrefix(s, "+") || strings.HasPrefix(s, "-") {
		return 0, false
	}
	v, err := strconv.ParseUint(s, 10, 64)
	return v, err == nil
}

func parseHexNat(s string) (*big.Int, bool) {
	if s == "" {
		return nil, false
	}
	for _, c := range s {
		if !(c >= '0' && c <= '9' || c >= 'a' && c <= 'f' || c >= 'A' && c <= 'F') {
			return nil, false
		}
	}
	return new(big.Int).SetString(s, 16)
}

var jacNames = map[string]string{
	"add": "addJacobian", "double": "doubleJacobian",
	"addv1": "addZ1AndZ2EqualsOne", "addv2": "addZ1EqualsZ2", "addv3": "addZ2EqualsOne", "addv4": "addGeneric",
	"dblv1": "doubleZ1EqualsOne", "dblv2": "doubleGeneric", "toaffine": "fieldJacobianToBigAffine",
}

const badOp = "bad-op"

// hook op name, number of field operands, whether an integer operand follows
type fieldOpSpec struct {
	hook string
	nfv  int
	hasK bool
}

var fieldOps = map[string]fieldOpSpec{
	"field.zero": {"zero", 0, false}, "field.set": {"set", 1, false}, "field.setint": {"setint", 0, true},
	"field.normalise": {"normalise", 1, false},
	"field.add":       {"add", 2, false}, "field.addself": {"add.r1", 1, false},
	"field.add2": {"add2", 2, false}, "field.add2.r1": {"add2.r1", 2, false}, "field.add2.r2": {"add2.r2", 2, false},
	"field.add2.r12": {"add2.r12", 1, false},
	"field.addint":   {"addint", 1, true}, "field.neg": {"negate", 1, true}, "field.negval": {"negateval", 1, true},
	"field.mulint": {"mulint", 1, true},
	"field.mul":    {"mul", 2, false}, "field.mulself": {"mul.r1", 1, false},
	"field.mul2": {"mul2", 2, false}, "field.mul2.r1": {"mul2.r1", 2, false}, "field.mul2.r2": {"mul2.r2", 2, false},
	"field.mul2.r12": {"mul2.r12", 1, false},
	"field.sq":       {"square", 1, false}, "field.sqval": {"squareval", 1, false},
	"field.inv": {"inverse", 1, false}, "field.sqrt": {"sqrtval", 1, false},
}

var fieldPreds = map[string]fieldOpSpec{
	"field.iszero": {"iszero", 1, false}, "field.isodd": {"isodd", 1, false},
	"field.eq": {"equals", 2, false}, "field.eqself": {"equals.r1", 1, false},
}

func init() {
	for name, sp := range fieldOps {
		sp := sp
		extraOps[name] = func(a []string) string {
			want := sp.nfv
			if sp.hasK {
				want++
			}
			if len(a) != want {
				return badOp
			}
			var v [2]fv
			for i := 0; i < sp.nfv; i++ {
				f, ok := parseFV(a[i])
				if !ok {
					return badOp
				}
				v[i] = f
			}
			var k uint64
			if sp.hasK {
				var ok bool
				if k, ok = parseDec(a[sp.nfv]); !ok {
					return badOp
				}
			}
			res, ok := bec.VerifFieldOp(sp.hook, v[0], v[1], uint(k))
			if !ok {
				return badOp
			}
			return "ok " + fvStr(res)
		}
	}
	for name, sp := range fieldPreds {
		sp := sp
		extraOps[name] = func(a []string) string {
			if len(a) != sp.nfv {
				return badOp
			}
			var v [2]fv
			for i := 0; i < sp.nfv; i++ {
				f, ok := parseFV(a[i])
				if !ok {
					return badOp
				}
				v[i] = f
			}
			res, ok := bec.VerifFieldPred(sp.hook, v[0], v[1])
			if !ok {
				return badOp
			}
			return "ok " + b2s(res)
		}
	}
	extraOps["field.setbytes"] = func(a []string) string {
		if len(a) != 1 {
			return badOp
		}
		b, ok := unhex(a[0])
		if !ok {
			return badOp
		}
		return "ok " + fvStr(bec.VerifFieldSetByteSlice(b))
	}
	extraOps["field.setbytes32"] = func(a []string) string {
		if len(a) != 1 {
			return badOp
		}
		b, ok := unhex(a[0])
		if !ok || len(b) != 32 {
			return badOp
		}
		var b32 [32]byte
		copy(b32[:], b)
		return "ok " + fvStr(bec.VerifFieldSetBytes(&b32))
	}
	extraOps["field.putbytes"] = func(a []string) string {
		if len(a) != 1 {
			return badOp
		}
		f, ok := parseFV(a[0])
		if !ok {
			return badOp
		}
		b := bec.VerifFieldPutBytes(f)
		return "ok " + hex.EncodeToString(b[:])
	}
	extraOps["field.bytes"] = func(a []string) string {
		if len(a) != 1 {
			return badOp
		}
		f, ok := parseFV(a[0])
		if !ok {
			return badOp
		}
		b := bec.VerifFieldBytes(f)
		return "ok " + hex.EncodeToString(b[:])
	}
	for short, long := range jacNames {
		short, long := short, long
		extraOps["jac."+short] = func(a []string) string {
			n := bec.VerifJacArity[long]
			if len(a) != n+1 {
				return badOp
			}
			as := strings.Split(a[0], ",")
			if len(as) != n {
				return badOp
			}
			alias := make([]int, n)
			for i, s := range as {
				v, ok := parseDec(s)
				if !ok || v > uint64(i) {
					return badOp
				}
				alias[i] = int(v)
			}
			in := make([]fv, n)
			for i := range in {
				f, ok := parseFV(a[i+1])
				if !ok {
					return badOp
				}
				in[i] = f
			}
			out, extra, err := bec.VerifJac(long, in, alias)
			if err != nil {
				return badOp
			}
			parts := make([]string, 0, n+2)
			for _, f := range out {
				parts = append(parts, fvStr(f))
			}
			for _, x := range extra {
				parts = append(parts, x.Text(16))
			}
			if short != "toaffine" {
				// the model side appends the verdict of its group-law oracle on this input/output pair;
				// the property's claim is that it always holds
				parts = append(parts, "S=1")
			}
			return "ok " + strings.Join(parts, " ")
		}
	}
	extraOps["jac.consts"] = func(a []string) string {
		if len(a) != 0 {
			return badOp
		}
		one, b, beta := bec.VerifConsts()
		return "ok " + fvStr(one) + " " + fvStr(b) + " " + fvStr(beta)
	}
	extraOps["jac.oncurve"] = func(a []string) string {
		if len(a) != 2 {
			return badOp
		}
		x, ok1 := parseHexNat(a[0])
		y, ok2 := parseHexNat(a[1])
		if !ok1 || !ok2 {
			return badOp
		}
		return "ok " + b2s(bec.S256().IsOnCurve(x, y)) + " S=1"
	}
	extraOps["jac.decompress"] = func(a []string) string {
		if len(a) != 2 || (a[1] != "0" && a[1] != "1") {
			return badOp
		}
		x, ok := parseHexNat(a[0])
		if !ok {
			return badOp
		}
		y, err := bec.VerifDecompressPoint(x, a[1] == "1")
		if err != nil {
			switch err.Error() {
			case "invalid square root":
				return "err 1 S=1"
			case "ybit doesn't match oddness":
				return "err 2 S=1"
			}
			return "err ?"
		}
		return "ok " + y.Text(16) + " S=1"
	}
	extraOps["table.get"] = func(a []string) string {
		if len(a) != 2 {
			return badOp
		}
		i, ok1 := parseDec(a[0])
		b, ok2 := parseDec(a[1])
		if !ok1 || !ok2 || i >= 32 || b >= 256 {
			return badOp
		}
		p := bec.VerifBytePoint(int(i), int(b))
		return "ok " + fvStr(p[0]) + " " + fvStr(p[1]) + " " + fvStr(p[2])
	}
}
