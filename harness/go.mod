module gobkharness

go 1.17

require github.com/libsv/go-bk v0.0.0

require golang.org/x/crypto v0.0.0-20210421170649-83a5a9bb288b // indirect

replace github.com/libsv/go-bk => /repo
