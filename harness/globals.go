package main

// A digest of the library's long-lived shared state that is reachable from its exported API: the secp256k1 curve
// object (parameters, half order, endomorphism constants, the 8192-entry table — unexported fields are read through
// reflection), the registered network parameters and the BIP39 word list.  `harness run` takes it when it starts
// working on the property's own ops and again at the end: nothing in the library is entitled to change it.

import (
	"crypto/sha256"
	"encoding/binary"
	"encoding/hex"
	"math/big"
	"reflect"
	"unsafe"

	"github.com/libsv/go-bk/bec"
	"github.com/libsv/go-bk/bip39"
	"github.com/libsv/go-bk/chaincfg"
)

var bigIntType = reflect.TypeOf(big.Int{})

func digestValue(h interface{ Write([]byte) (int, error) }, v reflect.Value, depth int) {
	if depth > 12 {
		return
	}
	if v.Kind() != reflect.Invalid && !v.CanInterface() && v.CanAddr() {
		v = reflect.NewAt(v.Type(), unsafe.Pointer(v.UnsafeAddr())).Elem()
	}
	switch v.Kind() {
	case reflect.Ptr:
		if v.IsNil() {
			h.Write([]byte{0})
			return
		}
		h.Write([]byte{1})
		digestValue(h, v.Elem(), depth+1)
	case reflect.Struct:
		if v.Type() == bigIntType && v.CanAddr() {
			b := v.Addr().Interface().(*big.Int)
			h.Write([]byte{byte(b.Sign() + 1)})
			h.Write(b.Bytes())
			h.Write([]byte{0xff})
			return
		}
		if pk := v.Type().PkgPath(); pk == "sync" || pk == "sync/atomic" {
			return
		}
		for i := 0; i < v.NumField(); i++ {
			digestValue(h, v.Field(i), depth+1)
		}
	case reflect.Array, reflect.Slice:
		var lb [8]byte
		binary.LittleEndian.PutUint64(lb[:], uint64(v.Len()))
		h.Write(lb[:])
		for i := 0; i < v.Len(); i++ {
			digestValue(h, v.Index(i), depth+1)
		}
	case reflect.String:
		h.Write([]byte(v.String()))
		h.Write([]byte{0})
	case reflect.Bool:
		if v.Bool() {
			h.Write([]byte{1})
		} else {
			h.Write([]byte{0})
		}
	case reflect.Int, reflect.Int8, reflect.Int16, reflect.Int32, reflect.Int64:
		var b [8]byte
		binary.LittleEndian.PutUint64(b[:], uint64(v.Int()))
		h.Write(b[:])
	case reflect.Uint, reflect.Uint8, reflect.Uint16, reflect.Uint32, reflect.Uint64, reflect.Uintptr:
		var b [8]byte
		binary.LittleEndian.PutUint64(b[:], v.Uint())
		h.Write(b[:])
	}
}

// globalsDigest: one hex digest per component, so that a change names what changed.
func globalsDigest() map[string]string {
	out := map[string]string{}
	one := func(name string, x interface{}) {
		h := sha256.New()
		digestValue(h, reflect.ValueOf(x), 0)
		out[name] = hex.EncodeToString(h.Sum(nil)[:8])
	}
	one("bec.S256()", bec.S256())
	one("chaincfg.MainNet", &chaincfg.MainNet)
	one("chaincfg.TestNet", &chaincfg.TestNet)
	for i := range nets {
		one("harness net "+string(rune('0'+i)), nets[i].params)
	}
	one("bip39.English", &bip39.English)
	return out
}
