package main

// C16: "calls never modify their arguments; deterministic calls are repeatable".
// `harness mem -tier quick|thorough -seed S` drives EVERY exported function and method of the eight
// packages (table `memAPI`, checked for completeness against the source by `harness mem -list` vs
// `gobkgen -api`), passing each byte slice as a window into a larger canary-filled array (spare
// capacity 0..64 behind it, a canary prefix in front of it), each *big.Int / key / signature /
// extended key as a tracked object, calling twice on the same objects, and comparing all argument
// memory before and after.

import (
	"bytes"
	"crypto/aes"
	"encoding/json"
	"flag"
	"fmt"
	"math/big"
	"os"
	"reflect"
	"sort"

	"github.com/libsv/go-bk/base58"
	"github.com/libsv/go-bk/bec"
	"github.com/libsv/go-bk/bip32"
	"github.com/libsv/go-bk/bip39"
	"github.com/libsv/go-bk/chaincfg"
	"github.com/libsv/go-bk/crypto"
	"github.com/libsv/go-bk/envelope"
	"github.com/libsv/go-bk/wif"
)

const canaryPrefix = 8

type trackedSlice struct {
	name    string
	backing []byte
	before  []byte
	lentLen int // > 0: the window itself (lentLen bytes) is lent to the callee, which may overwrite it; only the memory around it is guarded
}
type trackedBig struct {
	name   string
	v      *big.Int
	before *big.Int
	bits   []big.Word
}
type trackedStr struct {
	name   string
	get    func() string
	before string
}

type memCtx struct {
	r       *rng
	spare   int
	slices  []*trackedSlice
	bigs    []*trackedBig
	strs    []*trackedStr
	problem []string
	fn      string
}

// bytes returns data as a window [prefix : prefix+len : prefix+len+spare] of a canary-filled array.
func (c *memCtx) bytes(name string, data []byte) []byte {
	backing := make([]byte, canaryPrefix+len(data)+c.spare)
	for i := range backing {
		backing[i] = byte(0xA5 ^ i)
	}
	copy(backing[canaryPrefix:], data)
	t := &trackedSlice{name: name, backing: backing, before: append([]byte{}, backing...)}
	c.slices = append(c.slices, t)
	return backing[canaryPrefix : canaryPrefix+len(data) : canaryPrefix+len(data)+c.spare]
}

// lent: like bytes, but the window is handed over to an object that is entitled to wipe it later (NewExtendedKey keeps the
// slices it is given, Zero clears them): the bytes before the window and the spare capacity behind it stay the caller's.
func (c *memCtx) lent(name string, data []byte) []byte {
	w := c.bytes(name, data)
	c.slices[len(c.slices)-1].lentLen = len(data)
	if len(data) == 0 {
		c.slices[len(c.slices)-1].lentLen = -1
	}
	return w
}
func (c *memCtx) big(name string, v *big.Int) *big.Int {
	x := new(big.Int).Set(v)
	t := &trackedBig{name: name, v: x, before: new(big.Int).Set(v), bits: append([]big.Word{}, x.Bits()...)}
	c.bigs = append(c.bigs, t)
	return x
}
func (c *memCtx) str(name string, get func() string) {
	c.strs = append(c.strs, &trackedStr{name: name, get: get, before: get()})
}
func (c *memCtx) priv(d *big.Int) *bec.PrivateKey {
	p := privOf(d)
	c.bigs = append(c.bigs, &trackedBig{name: "priv.D", v: p.D, before: new(big.Int).Set(p.D), bits: append([]big.Word{}, p.D.Bits()...)},
		&trackedBig{name: "priv.X", v: p.X, before: new(big.Int).Set(p.X), bits: append([]big.Word{}, p.X.Bits()...)},
		&trackedBig{name: "priv.Y", v: p.Y, before: new(big.Int).Set(p.Y), bits: append([]big.Word{}, p.Y.Bits()...)})
	return p
}
func (c *memCtx) pub(p pt) *bec.PublicKey {
	return &bec.PublicKey{Curve: bec.S256(), X: c.big("pub.X", p.x), Y: c.big("pub.Y", p.y)}
}
func (c *memCtx) sig(r, s *big.Int) *bec.Signature {
	return &bec.Signature{R: c.big("sig.R", r), S: c.big("sig.S", s)}
}
func (c *memCtx) xkey(k *bip32.ExtendedKey) *bip32.ExtendedKey {
	c.str("xkey", func() string {
		return k.String() + "|" + k.Address(&chaincfg.TestNet) + fmt.Sprint(k.Depth(), k.IsPrivate(), k.ParentFingerprint())
	})
	return k
}

// results of EARLIER calls (of any function) that the sweep keeps holding: a result must be the caller's — later calls,
// with other arguments or of other functions, must not change it (a slice into a recycled buffer or pool would)
type heldResult struct {
	fn    string
	vals  []interface{}
	canon string
}

var held []heldResult

func (c *memCtx) checkHeld() {
	for i := range held {
		if now := canon(held[i].vals); now != held[i].canon {
			c.problem = append(c.problem, fmt.Sprintf("%s: a result returned earlier by %s changed after this call: %.100s -> %.100s", c.fn, held[i].fn, held[i].canon, now))
			held[i].canon = now
		}
	}
}

// call runs f twice on the same argument objects; deterministic functions must repeat.
func (c *memCtx) call(deterministic bool, f func() []interface{}) {
	v1 := f()
	r1 := canon(v1)
	c.verify("after 1st call")
	c.checkHeld()
	r2 := canon(f())
	c.verify("after 2nd call")
	if deterministic && r1 != r2 {
		c.problem = append(c.problem, fmt.Sprintf("%s: not repeatable: %.120s vs %.120s", c.fn, r1, r2))
	}
	if now := canon(v1); now != r1 {
		c.problem = append(c.problem, fmt.Sprintf("%s: the first call's result changed during the second call: %.100s -> %.100s", c.fn, r1, now))
	}
	c.checkHeld()
	if len(held) >= 48 {
		held = held[1:]
	}
	held = append(held, heldResult{c.fn, v1, canon(v1)})
}

func canon(vs []interface{}) string {
	var sb bytes.Buffer
	for _, v := range vs {
		switch x := v.(type) {
		case nil:
			sb.WriteString("nil;")
		case error:
			sb.WriteString("err;")
		case []byte:
			sb.WriteString(hx(x) + ";")
		case *big.Int:
			if x == nil {
				sb.WriteString("nilbig;")
			} else {
				sb.WriteString(nhx(x) + ";")
			}
		case *bec.PublicKey:
			if x == nil {
				sb.WriteString("nilpub;")
			} else {
				sb.WriteString(nhx(x.X) + "," + nhx(x.Y) + ";")
			}
		case *bec.PrivateKey:
			if x == nil {
				sb.WriteString("nilpriv;")
			} else {
				sb.WriteString(nhx(x.D) + ";")
			}
		case *bec.Signature:
			if x == nil {
				sb.WriteString("nilsig;")
			} else {
				sb.WriteString(nhx(x.R) + "," + nhx(x.S) + ";")
			}
		case *bip32.ExtendedKey:
			if x == nil {
				sb.WriteString("nilxkey;")
			} else {
				sb.WriteString(x.String() + ";")
			}
		case *wif.WIF:
			if x == nil {
				sb.WriteString("nilwif;")
			} else {
				sb.WriteString(x.String() + ";")
			}
		default:
			rv := reflect.ValueOf(v)
			if rv.Kind() == reflect.Ptr && rv.IsNil() {
				sb.WriteString("nilptr;")
			} else {
				sb.WriteString(fmt.Sprintf("%v;", v))
			}
		}
	}
	return sb.String()
}

func (c *memCtx) verify(when string) {
	for _, t := range c.slices {
		if t.lentLen != 0 { // the window may have been overwritten by its new owner: not the memory around it
			n := t.lentLen
			if n < 0 {
				n = 0
			}
			copy(t.before[canaryPrefix:canaryPrefix+n], t.backing[canaryPrefix:canaryPrefix+n])
		}
		if !bytes.Equal(t.backing, t.before) {
			pos := 0
			for pos < len(t.backing) && t.backing[pos] == t.before[pos] {
				pos++
			}
			c.problem = append(c.problem, fmt.Sprintf("%s: slice arg %q modified %s at backing offset %d (len window starts at %d, spare %d)", c.fn, t.name, when, pos, canaryPrefix, c.spare))
			copy(t.backing, t.before)
		}
	}
	for _, t := range c.bigs {
		if t.v.Cmp(t.before) != 0 || !reflect.DeepEqual(append([]big.Word{}, t.v.Bits()...), t.bits) {
			c.problem = append(c.problem, fmt.Sprintf("%s: big.Int arg %q modified %s", c.fn, t.name, when))
			t.v.Set(t.before)
		}
	}
	for _, t := range c.strs {
		if now := t.get(); now != t.before {
			c.problem = append(c.problem, fmt.Sprintf("%s: object %q changed %s", c.fn, t.name, when))
		}
	}
}

type memEntry struct {
	name string // Package.Func or Package.Type.Method as printed by `gobkgen -api`
	run  func(c *memCtx)
}

func somePoint(r *rng) pt { return mulG(new(big.Int).SetBytes(r.bytes(16))) }
func someScalar(r *rng) *big.Int {
	k := modN(new(big.Int).SetBytes(r.bytes(32)))
	if k.Sign() == 0 {
		k.SetInt64(9)
	}
	return k
}
func someXKey(r *rng, private bool) *bip32.ExtendedKey {
	m, err := bip32.NewMaster(r.bytes(32), &chaincfg.MainNet)
	for err != nil {
		m, err = bip32.NewMaster(r.bytes(32), &chaincfg.MainNet)
	}
	c, _ := m.Child(uint32(r.intn(5)))
	if private {
		return c
	}
	n, _ := c.Neuter()
	return n
}

// sizeOf: mostly a small size below n, one time in four a size around a power of two up to a few thousand (tables, pooled
// buffers and chunked loops have their edges there)
func sizeOf(r *rng, n int) int {
	if r.coin(3, 4) {
		return r.intn(n)
	}
	ladder := []int{63, 64, 65, 111, 127, 128, 129, 130, 200, 255, 256, 257, 511, 513, 1000, 1024, 1025, 4100}
	return ladder[r.intn(len(ladder))]
}

var memAPI []memEntry

func init() {
	add := func(name string, run func(c *memCtx)) { memAPI = append(memAPI, memEntry{name, run}) }
	S := bec.S256
	// ---- base58
	add("base58.Encode", func(c *memCtx) {
		b := c.bytes("b", append(make([]byte, c.r.intn(3)), c.r.bytes(sizeOf(c.r, 40))...))
		c.call(true, func() []interface{} { return []interface{}{base58.Encode(b)} })
	})
	add("base58.Decode", func(c *memCtx) {
		s := string(randB58(c.r, sizeOf(c.r, 40)))
		c.call(true, func() []interface{} { return []interface{}{base58.Decode(s)} })
	})
	add("base58.CheckEncode", func(c *memCtx) {
		b := c.bytes("input", c.r.bytes(sizeOf(c.r, 40)))
		c.call(true, func() []interface{} { return []interface{}{base58.CheckEncode(b, 7)} })
	})
	add("base58.CheckDecode", func(c *memCtx) {
		s := base58.CheckEncode(c.r.bytes(20), 0)
		c.call(true, func() []interface{} { p, v, e := base58.CheckDecode(s); return []interface{}{p, v, e} })
	})
	// ---- bec: curve
	add("bec.S256", func(c *memCtx) { c.call(true, func() []interface{} { return []interface{}{S().N} }) })
	add("bec.KoblitzCurve.Params", func(c *memCtx) { c.call(true, func() []interface{} { return []interface{}{S().Params().N} }) })
	add("bec.KoblitzCurve.QPlus1Div4", func(c *memCtx) { c.call(true, func() []interface{} { return []interface{}{S().QPlus1Div4()} }) })
	add("bec.KoblitzCurve.Q", func(c *memCtx) { c.call(true, func() []interface{} { return []interface{}{S().Q()} }) })
	add("bec.KoblitzCurve.IsOnCurve", func(c *memCtx) {
		p := somePoint(c.r)
		x, y := c.big("x", p.x), c.big("y", p.y)
		c.call(true, func() []interface{} { return []interface{}{S().IsOnCurve(x, y)} })
	})
	// coordinates wider than the field (hand-built big.Ints / keys): whatever the answer, the caller's integers stay as they are
	add("bec.KoblitzCurve.IsOnCurve", func(c *memCtx) {
		p := somePoint(c.r)
		wide := func(v *big.Int) *big.Int {
			return new(big.Int).Add(v, new(big.Int).Lsh(curveP, uint(8*(1+c.r.intn(3)))))
		}
		x, y := c.big("x", wide(p.x)), c.big("y", wide(p.y))
		k := c.bytes("k", c.r.bytes(32))
		h := c.bytes("hash", c.r.bytes(32))
		sg := c.sig(new(big.Int).SetBytes(c.r.bytes(31)), new(big.Int).SetBytes(c.r.bytes(31)))
		pk := &bec.PublicKey{Curve: S(), X: x, Y: y}
		c.call(true, func() []interface{} {
			ax, ay := S().Add(x, y, x, y)
			dx, dy := S().Double(x, y)
			mx, my := S().ScalarMult(x, y, k)
			return []interface{}{S().IsOnCurve(x, y), ax, ay, dx, dy, mx, my, sg.Verify(h, pk)}
		})
	})
	add("bec.KoblitzCurve.Add", func(c *memCtx) {
		p, q := somePoint(c.r), somePoint(c.r)
		if c.r.coin(1, 4) {
			q = p
		}
		if c.r.coin(1, 6) {
			p = pt{new(big.Int), new(big.Int)}
		}
		x1, y1, x2, y2 := c.big("x1", p.x), c.big("y1", p.y), c.big("x2", q.x), c.big("y2", q.y)
		c.call(true, func() []interface{} { x, y := S().Add(x1, y1, x2, y2); return []interface{}{x, y} })
	})
	add("bec.KoblitzCurve.Double", func(c *memCtx) {
		p := somePoint(c.r)
		x1, y1 := c.big("x1", p.x), c.big("y1", p.y)
		c.call(true, func() []interface{} { x, y := S().Double(x1, y1); return []interface{}{x, y} })
	})
	add("bec.KoblitzCurve.ScalarMult", func(c *memCtx) {
		p := somePoint(c.r)
		x1, y1 := c.big("Bx", p.x), c.big("By", p.y)
		k := c.bytes("k", c.r.bytes([]int{0, 1, 31, 32, 33, 40}[c.r.intn(6)]))
		c.call(true, func() []interface{} { x, y := S().ScalarMult(x1, y1, k); return []interface{}{x, y} })
	})
	add("bec.KoblitzCurve.ScalarBaseMult", func(c *memCtx) {
		k := c.bytes("k", c.r.bytes([]int{0, 1, 31, 32, 33, 40}[c.r.intn(6)]))
		c.call(true, func() []interface{} { x, y := S().ScalarBaseMult(k); return []interface{}{x, y} })
	})
	add("bec.NAF", func(c *memCtx) {
		k := c.bytes("k", c.r.bytes(c.r.intn(34)))
		c.call(true, func() []interface{} { a, b := bec.NAF(k); return []interface{}{a, b} })
	})
	// ---- bec: ciphering
	add("bec.GenerateSharedSecret", func(c *memCtx) {
		priv, pub := c.priv(someScalar(c.r)), c.pub(somePoint(c.r))
		c.call(true, func() []interface{} { return []interface{}{bec.GenerateSharedSecret(priv, pub)} })
	})
	add("bec.Encrypt", func(c *memCtx) {
		pub := c.pub(somePoint(c.r))
		in := c.bytes("in", c.r.bytes(sizeOf(c.r, 40)))
		c.call(false, func() []interface{} { out, e := bec.Encrypt(pub, in); return []interface{}{out, e} })
	})
	add("bec.Decrypt", func(c *memCtx) {
		d := someScalar(c.r)
		ct, _ := bec.Encrypt(pubOf(mulG(d).x, mulG(d).y), c.r.bytes(sizeOf(c.r, 40)))
		if c.r.coin(1, 4) {
			ct[len(ct)-1] ^= 1
		}
		priv := c.priv(d)
		in := c.bytes("in", ct)
		c.call(true, func() []interface{} { out, e := bec.Decrypt(priv, in); return []interface{}{out, e} })
	})
	// ---- bec: keys
	add("bec.PrivKeyFromBytes", func(c *memCtx) {
		pk := c.bytes("pk", c.r.bytes(c.r.intn(33)))
		c.call(true, func() []interface{} { a, b := bec.PrivKeyFromBytes(S(), pk); return []interface{}{a, b} })
	})
	add("bec.NewPrivateKey", func(c *memCtx) {
		c.call(false, func() []interface{} { k, e := bec.NewPrivateKey(S()); return []interface{}{k, e} })
	})
	add("bec.PrivateKey.PubKey", func(c *memCtx) {
		p := c.priv(someScalar(c.r))
		c.call(true, func() []interface{} { return []interface{}{p.PubKey()} })
	})
	add("bec.PrivateKey.ToECDSA", func(c *memCtx) {
		p := c.priv(someScalar(c.r))
		c.call(true, func() []interface{} { return []interface{}{p.ToECDSA().D} })
	})
	add("bec.PrivateKey.Sign", func(c *memCtx) {
		p := c.priv(someScalar(c.r))
		h := c.bytes("hash", c.r.bytes([]int{0, 20, 32, 33, 64}[c.r.intn(5)]))
		c.call(true, func() []interface{} { s, e := p.Sign(h); return []interface{}{s, e} })
	})
	add("bec.PrivateKey.Serialise", func(c *memCtx) {
		p := c.priv(someScalar(c.r))
		c.call(true, func() []interface{} { return []interface{}{p.Serialise()} })
	})
	add("bec.IsCompressedPubKey", func(c *memCtx) {
		b := c.bytes("pubKey", c.r.bytes(33))
		c.call(true, func() []interface{} { return []interface{}{bec.IsCompressedPubKey(b)} })
	})
	add("bec.ParsePubKey", func(c *memCtx) {
		p := somePoint(c.r)
		k := pubOf(p.x, p.y)
		enc := [][]byte{k.SerialiseCompressed(), k.SerialiseUncompressed(), k.SerialiseHybrid(), c.r.bytes(33)}[c.r.intn(4)]
		b := c.bytes("pubKeyStr", enc)
		c.call(true, func() []interface{} { k, e := bec.ParsePubKey(b, S()); return []interface{}{k, e} })
	})
	for _, m := range []string{"ToECDSA", "SerialiseUncompressed", "SerialiseCompressed", "SerialiseHybrid", "IsEqual"} {
		m := m
		add("bec.PublicKey."+m, func(c *memCtx) {
			p := c.pub(somePoint(c.r))
			q := c.pub(somePoint(c.r))
			c.call(true, func() []interface{} {
				switch m {
				case "ToECDSA":
					return []interface{}{p.ToECDSA().X}
				case "SerialiseUncompressed":
					return []interface{}{p.SerialiseUncompressed()}
				case "SerialiseCompressed":
					return []interface{}{p.SerialiseCompressed()}
				case "SerialiseHybrid":
					return []interface{}{p.SerialiseHybrid()}
				}
				return []interface{}{p.IsEqual(q), p.IsEqual(p)}
			})
		})
	}
	// ---- bec: signatures
	add("bec.Signature.Serialise", func(c *memCtx) {
		s := c.sig(someScalar(c.r), someScalar(c.r))
		c.call(true, func() []interface{} { return []interface{}{s.Serialise()} })
	})
	add("bec.Signature.Verify", func(c *memCtx) {
		d := someScalar(c.r)
		h0 := c.r.bytes(32)
		sg, _ := privOf(d).Sign(h0)
		s := c.sig(sg.R, sg.S)
		h := c.bytes("hash", h0)
		pub := c.pub(mulG(d))
		c.call(true, func() []interface{} { return []interface{}{s.Verify(h, pub)} })
	})
	add("bec.Signature.Verify", func(c *memCtx) {
		// u1 = 0, u2 = 1: hash = 0 and r = s = x(Q) mod N is a valid signature for any key — the sum u1*G + u2*Q is
		// then Q's own coordinates or a copy of them; with an ordinary key and with a key whose X is in [N, P)
		var q pt
		if c.spare%2 == 0 {
			q = somePoint(c.r)
		} else {
			for t := int64(1 + c.r.intn(40)); ; t++ {
				k, err := bec.ParsePubKey(append([]byte{2}, pad32(new(big.Int).Add(curveN, big.NewInt(t)).Bytes())...), S())
				if err == nil {
					q = pt{k.X, k.Y}
					break
				}
			}
		}
		rr := modN(q.x)
		s := c.sig(rr, rr)
		h := c.bytes("hash", make([]byte, 32))
		pub := c.pub(q)
		c.call(true, func() []interface{} { return []interface{}{s.Verify(h, pub)} })
	})
	add("bec.Signature.IsEqual", func(c *memCtx) {
		s, t := c.sig(someScalar(c.r), someScalar(c.r)), c.sig(someScalar(c.r), someScalar(c.r))
		c.call(true, func() []interface{} { return []interface{}{s.IsEqual(t), s.IsEqual(s)} })
	})
	for _, nm := range []string{"ParseSignature", "ParseDERSignature"} {
		nm := nm
		add("bec."+nm, func(c *memCtx) {
			enc := derOf(derInt(someScalar(c.r)), derInt(someScalar(c.r)))
			if c.r.coin(1, 4) {
				enc = append(enc, c.r.bytes(3)...)
			}
			b := c.bytes("sigStr", enc)
			c.call(true, func() []interface{} {
				if nm == "ParseSignature" {
					s, e := bec.ParseSignature(b, S())
					return []interface{}{s, e}
				}
				s, e := bec.ParseDERSignature(b, S())
				return []interface{}{s, e}
			})
		})
	}
	add("bec.SignCompact", func(c *memCtx) {
		p := c.priv(someScalar(c.r))
		h := c.bytes("hash", c.r.bytes(32))
		c.call(true, func() []interface{} { s, e := bec.SignCompact(S(), p, h, c.spare%2 == 0); return []interface{}{s, e} })
	})
	add("bec.RecoverCompact", func(c *memCtx) {
		h0 := c.r.bytes(32)
		sg, _ := bec.SignCompact(S(), privOf(someScalar(c.r)), h0, true)
		s, h := c.bytes("signature", sg), c.bytes("hash", h0)
		c.call(true, func() []interface{} { k, f, e := bec.RecoverCompact(S(), s, h); return []interface{}{k, f, e} })
	})
	// ---- bip32
	add("bip32.DerivePath", func(c *memCtx) {
		i := c.r.next()
		c.call(true, func() []interface{} { return []interface{}{bip32.DerivePath(i)} })
	})
	add("bip32.DeriveNumber", func(c *memCtx) {
		p := bip32.DerivePath(c.r.next())
		c.call(true, func() []interface{} { v, e := bip32.DeriveNumber(p); return []interface{}{v, e} })
	})
	add("bip32.NewExtendedKey", func(c *memCtx) {
		v, k, cc, fp := c.bytes("version", []byte{4, 0x88, 0xad, 0xe4}), c.bytes("key", c.r.bytes(32)), c.bytes("chainCode", c.r.bytes(32)), c.bytes("parentFP", c.r.bytes(4))
		c.call(true, func() []interface{} {
			x := bip32.NewExtendedKey(v, k, cc, fp, 1, 2, true)
			return []interface{}{x.String(), x.Address(&chaincfg.MainNet)}
		})
	})
	for _, m := range []string{"IsPrivate", "Depth", "ParentFingerprint", "Child", "Neuter", "ECPubKey", "ECPrivKey", "Address", "String", "IsForNet", "DeriveChildFromPath", "DerivePublicKeyFromPath"} {
		m := m
		add("bip32.ExtendedKey."+m, func(c *memCtx) {
			k := c.xkey(someXKey(c.r, c.r.coin(2, 3)))
			idx := randIdx(c.r)
			pth := c.r.pick("0/1/2", "", "0", "3/4", "0'/1", "2147483648/1", "x/y") // incl. the empty path (returns the receiver) and failing ones
			c.call(true, func() []interface{} {
				switch m {
				case "IsPrivate":
					return []interface{}{k.IsPrivate()}
				case "Depth":
					return []interface{}{k.Depth()}
				case "ParentFingerprint":
					return []interface{}{k.ParentFingerprint()}
				case "Child":
					x, e := k.Child(idx)
					return []interface{}{x, e}
				case "Neuter":
					x, e := k.Neuter()
					return []interface{}{x, e}
				case "ECPubKey":
					x, e := k.ECPubKey()
					return []interface{}{x, e}
				case "ECPrivKey":
					x, e := k.ECPrivKey()
					return []interface{}{x, e}
				case "Address":
					return []interface{}{k.Address(&chaincfg.TestNet), k.Address(nets[2].params)}
				case "String":
					return []interface{}{k.String()}
				case "IsForNet":
					return []interface{}{k.IsForNet(&chaincfg.MainNet), k.IsForNet(&chaincfg.TestNet)}
				case "DeriveChildFromPath":
					x, e := k.DeriveChildFromPath(pth)
					return []interface{}{x, e}
				}
				x, e := k.DerivePublicKeyFromPath(pth)
				return []interface{}{x, e}
			})
		})
	}
	// documented mutators: they change the receiver by design; what must stay untouched is every OTHER key
	add("bip32.ExtendedKey.SetNet", func(c *memCtx) {
		k := someXKey(c.r, true)
		sib := c.xkey(someXKey(c.r, true))
		par := c.xkey(someXKey(c.r, true))
		ch, _ := par.Child(1)
		_ = sib
		c.call(true, func() []interface{} {
			ch.SetNet(&chaincfg.TestNet)
			k.SetNet(&chaincfg.TestNet)
			return []interface{}{k.String()}
		})
	})
	add("bip32.ExtendedKey.Zero", func(c *memCtx) {
		par := c.xkey(someXKey(c.r, true))
		n, _ := par.Neuter()
		c.xkey(n)
		ch, _ := par.Child(1)
		chn, _ := ch.Neuter()
		c.xkey(chn)
		c.call(true, func() []interface{} { ch.Zero(); return []interface{}{ch.String()} })
	})
	add("bip32.ExtendedKey.Zero", func(c *memCtx) { // a family: zeroing one child must leave parent and siblings alone
		par := c.xkey(someXKey(c.r, true))
		c1, _ := par.Child(1)
		c2, _ := par.Child(2)
		c3, _ := par.Child(bip32.HardenedKeyStart + 1)
		c1b, _ := par.Child(1)
		c.xkey(c2)
		c.xkey(c3)
		c.xkey(c1b)
		c.call(true, func() []interface{} { c1.Zero(); again, _ := par.Child(1); return []interface{}{c1.String(), again} })
	})
	add("bip32.ExtendedKey.Zero", func(c *memCtx) { // a key made from the caller's own slices: Zero may wipe what it was lent, nothing around it
		v, k, cc, fp := c.lent("version", []byte{4, 0x88, 0xad, 0xe4}), c.lent("key", c.r.bytes(32)), c.lent("chainCode", c.r.bytes(32)), c.lent("parentFP", c.r.bytes(4))
		priv := c.r.coin(1, 2)
		if !priv {
			k = c.lent("pubkey", pubOf(somePoint(c.r).x, somePoint(c.r).y).SerialiseCompressed())
		}
		x := bip32.NewExtendedKey(v, k, cc, fp, 1, 2, priv)
		c.call(true, func() []interface{} { x.Zero(); return []interface{}{x.String()} })
	})
	add("bip32.NewMaster", func(c *memCtx) {
		seed := c.bytes("seed", c.r.bytes(16+c.r.intn(49)))
		c.call(true, func() []interface{} { k, e := bip32.NewMaster(seed, &chaincfg.MainNet); return []interface{}{k, e} })
	})
	add("bip32.NewKeyFromString", func(c *memCtx) {
		s := someXKey(c.r, c.r.coin(1, 2)).String()
		c.call(true, func() []interface{} { k, e := bip32.NewKeyFromString(s); return []interface{}{k, e} })
	})
	add("bip32.GenerateSeed", func(c *memCtx) {
		c.call(false, func() []interface{} { b, e := bip32.GenerateSeed(uint8(16 + c.r.intn(49))); return []interface{}{b, e} })
	})
	// ---- bip39
	add("bip39.GenerateEntropy", func(c *memCtx) {
		c.call(false, func() []interface{} {
			b, e := bip39.GenerateEntropy(bip39.Entropy(128 + 32*c.r.intn(5)))
			return []interface{}{b, e}
		})
	})
	add("bip39.Mnemonic", func(c *memCtx) {
		ent := c.bytes("entropy", c.r.bytes([]int{16, 20, 24, 28, 32, 17}[c.r.intn(6)]))
		c.call(true, func() []interface{} { m, s, e := bip39.Mnemonic(ent, "p"); return []interface{}{m, s, e} })
	})
	add("bip39.MnemonicToSeed", func(c *memCtx) {
		m, _, _ := bip39.Mnemonic(c.r.bytes(16), "")
		c.call(true, func() []interface{} { s, e := bip39.MnemonicToSeed(m, "p"); return []interface{}{s, e} })
	})
	// ---- wif
	add("wif.NewWIF", func(c *memCtx) {
		p := c.priv(someScalar(c.r))
		c.call(true, func() []interface{} { w, e := wif.NewWIF(p, &chaincfg.MainNet, true); return []interface{}{w, e} })
	})
	add("wif.DecodeWIF", func(c *memCtx) {
		w, _ := wif.NewWIF(privOf(someScalar(c.r)), &chaincfg.MainNet, c.r.coin(1, 2))
		s := w.String()
		c.call(true, func() []interface{} { w, e := wif.DecodeWIF(s); return []interface{}{w, e} })
	})
	for _, m := range []string{"IsForNet", "String", "SerialisePubKey"} {
		m := m
		add("wif.WIF."+m, func(c *memCtx) {
			p := c.priv(someScalar(c.r))
			w, _ := wif.NewWIF(p, &chaincfg.MainNet, c.r.coin(1, 2))
			c.call(true, func() []interface{} {
				switch m {
				case "IsForNet":
					return []interface{}{w.IsForNet(&chaincfg.MainNet)}
				case "String":
					return []interface{}{w.String()}
				}
				return []interface{}{w.SerialisePubKey()}
			})
		})
	}
	// ---- envelope
	add("envelope.NewJSONEnvelope", func(c *memCtx) {
		raw := c.bytes("payload", []byte(`{"a":"x\"y","b":[1,2,3]}`))
		c.call(false, func() []interface{} {
			e, err := envelope.NewJSONEnvelope(json.RawMessage(raw))
			if e == nil || e.Signature == nil || e.PublicKey == nil {
				return []interface{}{e != nil, err}
			}
			return []interface{}{e.Payload, *e.Signature, *e.PublicKey, err}
		})
	})
	add("envelope.JSONEnvelope.IsValid", func(c *memCtx) {
		e, _ := envelope.NewJSONEnvelope(map[string]string{"k": `v"`})
		c.str("envelope", func() string { return e.Payload + *e.Signature + *e.PublicKey + e.MimeType + e.Encoding })
		c.call(true, func() []interface{} { v, err := e.IsValid(); return []interface{}{v, err} })
	})
	// ---- chaincfg
	add("chaincfg.HDPrivateKeyToPublicKeyID", func(c *memCtx) {
		id := c.bytes("id", chaincfg.MainNet.HDPrivateKeyID[:])
		c.call(true, func() []interface{} { b, e := chaincfg.HDPrivateKeyToPublicKeyID(id); return []interface{}{b, e} })
	})
	add("chaincfg.Register", func(c *memCtx) { // a network that shares an already registered private id but has its own public id
		p := chaincfg.MainNet
		p.Name = "mainnet-variant"
		p.HDPublicKeyID = [4]byte{0x04, 0xb2, 0x47, 0x46}
		c.str("MainNet", func() string { return fmt.Sprint(chaincfg.MainNet) })
		c.str("TestNet", func() string { return fmt.Sprint(chaincfg.TestNet) })
		c.str("params", func() string { return fmt.Sprint(p) })
		xp, _ := someXKey(c.r, true).Neuter()
		c.xkey(xp)
		c.call(true, func() []interface{} {
			err := chaincfg.Register(&p)
			_ = chaincfg.Register(&chaincfg.MainNet) // put the registry back for everything that runs later
			return []interface{}{err, xp.IsForNet(&chaincfg.MainNet)}
		})
	})
	add("chaincfg.Register", func(c *memCtx) {
		p := *nets[2].params
		c.str("params", func() string { return fmt.Sprint(p) })
		c.call(true, func() []interface{} { return []interface{}{chaincfg.Register(&p)} })
	})
	// ---- crypto
	add("crypto.Encrypt", func(c *memCtx) {
		blk, _ := aes.NewCipher(c.r.bytes(32))
		txt := c.bytes("text", c.r.bytes(sizeOf(c.r, 40)))
		c.call(false, func() []interface{} { out, e := crypto.Encrypt(blk, txt); return []interface{}{out, e} })
	})
	add("crypto.Decrypt", func(c *memCtx) {
		blk, _ := aes.NewCipher(c.r.bytes(16))
		ct0, _ := crypto.Encrypt(blk, c.r.bytes(sizeOf(c.r, 40)))
		ct := c.bytes("ciphertext", ct0)
		c.call(true, func() []interface{} { out, e := crypto.Decrypt(blk, ct); return []interface{}{out, e} })
	})
	for _, m := range []string{"Sha256", "Sha256d", "Ripemd160", "Hash160"} {
		m := m
		add("crypto."+m, func(c *memCtx) {
			b := c.bytes("b", c.r.bytes(sizeOf(c.r, 100)))
			c.call(true, func() []interface{} {
				switch m {
				case "Sha256":
					return []interface{}{crypto.Sha256(b)}
				case "Sha256d":
					return []interface{}{crypto.Sha256d(b)}
				case "Ripemd160":
					return []interface{}{crypto.Ripemd160(b)}
				}
				return []interface{}{crypto.Hash160(b)}
			})
		})
	}
}

func runMem(args []string) int {
	fs := flag.NewFlagSet("mem", flag.ExitOnError)
	tier := fs.String("tier", "quick", "quick|thorough")
	seed := fs.Uint64("seed", 1, "seed")
	list := fs.Bool("list", false, "print the covered API names and exit")
	_ = fs.Parse(args)
	if *list {
		names := make([]string, len(memAPI))
		for i, e := range memAPI {
			names[i] = e.name
		}
		sort.Strings(names)
		for _, n := range names {
			fmt.Println(n)
		}
		return 0
	}
	spares := []int{0, 1, 3, 16, 64}
	reps := 2
	if *tier == "thorough" {
		spares = nil
		for s := 0; s <= 64; s++ {
			spares = append(spares, s)
		}
		reps = 3
	}
	r := &rng{s: *seed*7919 + 11}
	type out struct {
		Functions int            `json:"functions"`
		Calls     int            `json:"calls"`
		Problems  []string       `json:"problems"`
		PerFn     map[string]int `json:"per_function_calls"`
	}
	res := out{PerFn: map[string]int{}}
	for _, e := range memAPI {
		res.Functions++
		for _, sp := range spares {
			for k := 0; k < reps; k++ {
				c := &memCtx{r: r.fork(), spare: sp, fn: e.name}
				func() {
					defer func() {
						if p := recover(); p != nil {
							c.problem = append(c.problem, fmt.Sprintf("%s: panic %v", e.name, p))
						}
					}()
					e.run(c)
				}()
				res.Calls += 2
				res.PerFn[e.name] += 2
				res.Problems = append(res.Problems, c.problem...)
			}
		}
	}
	js, _ := json.Marshal(res)
	fmt.Println(string(js))
	if len(res.Problems) > 0 {
		return 1
	}
	_ = os.Stdout.Sync()
	return 0
}
