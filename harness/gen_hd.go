package main

import (
	"crypto/sha256"
	"fmt"
	"math/big"
	"sort"
	"strings"

	"github.com/libsv/go-bk/base58"
	"github.com/libsv/go-bk/bec"
	"github.com/libsv/go-bk/bip32"
	"github.com/libsv/go-bk/bip39"
	"github.com/libsv/go-bk/crypto"
)

func init() {
	generators["C04"] = genC04
	generators["C08"] = genC08
	generators["C18"] = genC18
	generators["C07"] = genC07
}

func xkLine(root string, ops []string) string {
	o := "-"
	if len(ops) > 0 {
		o = strings.Join(ops, ";")
	}
	return "xk " + netsString() + " " + root + " " + o
}

var idxPool = []uint32{0, 1, 2, 1<<31 - 1, 1 << 31, 1<<31 + 1, 1<<32 - 1}

func randIdx(r *rng) uint32 {
	if r.coin(1, 2) {
		return idxPool[r.intn(len(idxPool))]
	}
	return uint32(r.next())
}

// findShortKey scans normal children of a master key until one has a private scalar with
// at least z leading zero bytes; returns the seed and the index.
func findShortKey(r *rng, z int) ([]byte, uint32, bool) {
	for attempt := 0; attempt < 4; attempt++ {
		seed := r.bytes(32)
		m, err := bip32.NewMaster(seed, nets[0].params)
		if err != nil {
			continue
		}
		for i := uint32(0); i < 3000; i++ {
			c, err := m.Child(i)
			if err != nil {
				continue
			}
			sk, _ := c.ECPrivKey()
			if len(sk.D.Bytes()) <= 32-z {
				return seed, i, true
			}
		}
	}
	return nil, 0, false
}

func genC04(e *emitter, r *rng, thorough bool) {
	// seeds of every length 0..80
	for l := 0; l <= 80; l++ {
		if !thorough && l > 20 && l < 60 && l%5 != 0 {
			continue
		}
		seed := r.bytes(l)
		ops := []string{fmt.Sprintf("c0:%d", randIdx(r)), "n0", "n1"}
		e.emit(fmt.Sprintf("master.len%d", l), xkLine("seed:"+hx(seed)+":"+fmt.Sprint(r.intn(len(nets))), ops))
	}
	// lengths that alias a valid length modulo 2^8 / 2^16 (a length check done in a narrower type)
	for _, l := range []int{255, 256, 257, 256 + 15, 256 + 16, 256 + 32, 256 + 64, 256 + 65, 512 + 32, 768 + 16, 65536 + 32} {
		e.emit(fmt.Sprintf("master.aliaslen%d", l), xkLine("seed:"+hx(r.bytes(l))+":0", []string{"c0:0"}))
	}
	// sweeps over hundreds of normal children on both derivation routes (1 public key in 256 has an X with a
	// leading zero byte, 1 scalar in 256 is short); nets 0/1 only (the sweep op knows MainNet and TestNet)
	nsw := 3
	if thorough {
		nsw = 30
	}
	e.emit("sweep.vector1", "xk.sweep 000102030405060708090a0b0c0d0e0f 0 0 400")
	for i := 0; i < nsw; i++ {
		e.emit("sweep", fmt.Sprintf("xk.sweep %s %d %d 300", hx(r.bytes(16+r.intn(49))), r.intn(2), r.intn(1<<30)))
	}
	// BIP32 test vector seeds
	tv := []string{"000102030405060708090a0b0c0d0e0f",
		"fffcf9f6f3f0edeae7e4e1dedbd8d5d2cfccc9c6c3c0bdbab7b4b1aeaba8a5a29f9c999693908d8a8784817e7b7875726f6c696663605d5a5754514e4b484542",
		"4b381541583be4423346c643850da4b320e46a87ae3d2a4e6da11eba819cd4acba45d239319ac14f863b8d5ab5a0d0c64d2e8a1e7d1457df2e5a3c51c73235be",
		"3ddd5602285899a946114506157c7997e5444528f3003f6134712147db19b678"}
	tvPaths := [][]string{{"c0:2147483648", "c1:1", "c2:2147483650", "c3:2", "c4:1000000000", "n5", "n3"},
		{"c0:0", "c1:4294967295", "c2:1", "c3:4294967294", "c4:2", "n5"},
		{"c0:2147483648", "n1"},
		{"c0:2147483648", "c1:2147483649", "n2"}}
	for i, s := range tv {
		e.emit("bip32.vector", xkLine("seed:"+s+":0", tvPaths[i]))
	}
	// the D1 witness: seed 000102..0f, child 121 is a 31-byte scalar; hardened below it
	e.emit("shortkey.witness", xkLine("seed:000102030405060708090a0b0c0d0e0f:0", []string{"c0:121", "c1:2147483648", "c1:0", "t1", "c4:2147483648", "n1", "c6:0"}))
	// directed search for short keys, then derive hardened and normal below them, and commute with neuter
	nShort := 2
	if thorough {
		nShort = 12
	}
	for z := 1; z <= 2; z++ {
		for k := 0; k < nShort; k++ {
			if z == 2 && k > 0 && !thorough {
				break
			}
			seed, idx, ok := findShortKey(r, z)
			if !ok {
				continue
			}
			ops := []string{fmt.Sprintf("c0:%d", idx), "c1:2147483648", "c1:2147483649", "c1:0", "n1", "c5:0", "n4", "c2:7", "c2:2147483655"}
			e.emit(fmt.Sprintf("shortkey.z%d", z), xkLine("seed:"+hx(seed)+":0", ops))
		}
	}
	// random paths with neuter/child commutation at each level
	n := 25
	if thorough {
		n = 300
	}
	for i := 0; i < n; i++ {
		seed := r.bytes(16 + r.intn(49))
		net := r.intn(len(nets))
		depth := 1 + r.intn(5)
		var ops []string
		cur := 0
		nregs := 1
		for d := 0; d < depth; d++ {
			idx := randIdx(r)
			ops = append(ops, fmt.Sprintf("c%d:%d", cur, idx)) // reg nregs
			child := nregs
			nregs++
			ops = append(ops, fmt.Sprintf("n%d", cur)) // neutered parent: nregs
			np := nregs
			nregs++
			ops = append(ops, fmt.Sprintf("c%d:%d", np, idx)) // child of neutered (error if hardened)
			nregs++
			ops = append(ops, fmt.Sprintf("n%d", child)) // neutered child, must equal previous for normal idx
			nregs++
			cur = child
		}
		e.emit("path.commute", xkLine(fmt.Sprintf("seed:%s:%d", hx(seed), net), ops))
	}
	// siblings and zeroing: children of one parent must not share anything that Zero() on one of them wipes
	for i := 0; i < 3; i++ {
		root := "seed:" + hx(r.bytes(32)) + ":0"
		e.emit("siblings.zero", xkLine(root, []string{"c0:2147483655", "c0:5", "z2", "c0:2147483648", "n1", "c0:5", "z5", "n0", "c6:1", "c6:2", "z8"}))
		e.emit("siblings.zero.quiet", "xkq"+xkLine(root, []string{"c0:2147483655", "c0:5", "z2", "c0:2147483648", "n0", "c4:1", "c4:2", "z5"})[2:])
	}
	// revisit: one public parent, then several hundred OTHER public parents, then the first one again (same object and a
	// re-parsed copy) — what a bounded memo of decoded parents keyed by the serialised key sees when it turns over
	{
		k := 300
		if thorough {
			k = 1100
		}
		ops := []string{"n0", "c1:3"}
		for j := 1; j <= k; j++ {
			a := 3 + 3*(j-1)
			ops = append(ops, fmt.Sprintf("c0:%d", j), fmt.Sprintf("n%d", a), fmt.Sprintf("c%d:0", a+1))
		}
		ops = append(ops, "c1:3", "c1:4", "t1", fmt.Sprintf("c%d:3", 3+3*k+2))
		e.emit("revisit.public-parents", "xkq"+xkLine("seed:"+hx(r.bytes(32))+":0", ops)[2:])
	}
	// a derived / neutered / re-parsed key is moved to another network: its relatives, and masters made afterwards, keep theirs
	for i := 0; i < 4; i++ {
		root := "seed:" + hx(r.bytes(32)) + ":" + fmt.Sprint(i%2)
		e.emit("setnet.relatives", xkLine(root, []string{"c0:2147483648", fmt.Sprintf("s1:%d", 1-i%2), "n0", "c0:1", "n1", "t0", fmt.Sprintf("s3:%d", 2+i), "n0", "c0:2", "t1", fmt.Sprintf("s6:%d", 1-i%2), "n0"}))
		e.emit("setnet.then-new-master", xkLine(root, []string{"s0:1", "n0"}))
		// ... and to a network that shares its private version bytes with another one: Neuter of OTHER keys keeps following the registry
		tw := len(nets) - 1
		e.emit("setnet.twin-network", xkLine("seed:"+hx(r.bytes(32))+":2", []string{"n0", "c0:1", fmt.Sprintf("s2:%d", tw), "n0", "n2", fmt.Sprintf("s1:%d", tw), "n0", "c0:2", "n6", "t0", "n8"}))
		e.emit("setnet.then-new-master", xkLine(root, []string{"n0", "c0:0"}))
	}
	// depth-255 chain
	{
		var ops []string
		for d := 0; d < 256; d++ {
			ops = append(ops, fmt.Sprintf("c%d:%d", d, d%3))
		}
		if thorough {
			// the whole chain, then the key at depth 255 neutered and both asked for one more level
			ops = append(ops, "n255", "c257:0", "c255:1", "p257:"+hx([]byte("0")))
			e.emit("depth255", xkLine("seed:"+hx(r.bytes(32))+":0", ops))
		}
		{
			// quick: start from a depth-253 key made by re-serialising with the depth byte patched
			m, _ := bip32.NewMaster(r.bytes(32), nets[0].params)
			raw := base58.Decode(m.String())
			raw[4] = 253
			copy(raw[78:], crypto.Sha256d(raw[:78])[:4])
			e.emit("depth255", xkLine("str:"+hx([]byte(base58.Encode(raw))), []string{"c0:1", "c1:2", "c2:3", "n2", "c4:0",
				"p0:" + hx([]byte("1/2")), "d0:" + hx([]byte("0/1")), "p1:" + hx([]byte("7")), // paths that END exactly at depth 255
				"p0:" + hx([]byte("1/2/3")), "p4:" + hx([]byte("0")), "d4:" + hx([]byte("0/1")), "p2:" + hx([]byte("5'")), "d1:" + hx([]byte("1/1"))}))
		}
	}
}

func serXKey(version []byte, depth byte, fp []byte, childNum uint32, chain, keyData []byte) string {
	raw := append([]byte{}, version...)
	raw = append(raw, depth)
	raw = append(raw, fp...)
	raw = append(raw, byte(childNum>>24), byte(childNum>>16), byte(childNum>>8), byte(childNum))
	raw = append(raw, chain...)
	raw = append(raw, keyData...)
	raw = append(raw, crypto.Sha256d(raw)[:4]...)
	return base58.Encode(raw)
}

func genC08(e *emitter, r *rng, thorough bool) {
	for i := 0; i < 3; i++ {
		if mk, err := bip32.NewMaster(r.bytes(32), nets[i%len(nets)].params); err == nil {
			ks := mk.String()
			if i == 2 {
				if nk, err := mk.Neuter(); err == nil {
					ks = nk.String()
				}
			}
			for _, sp := range []string{" ", "\t", "\n", "\r\n", "\v", "\f", "\u00a0", "\u2028", "\x00"} {
				e.emit("fromstring.whitespace-wrapped", xkLine("str:"+hx([]byte(sp+ks)), nil))
				e.emit("fromstring.whitespace-wrapped", xkLine("str:"+hx([]byte(ks+sp)), nil))
			}
		}
	}
	n := 20
	if thorough {
		n = 250
	}
	// derive -> serialise -> re-parse -> derive again
	for i := 0; i < n; i++ {
		seed := r.bytes(16 + r.intn(49))
		idx := randIdx(r)
		ops := []string{fmt.Sprintf("c0:%d", idx), "t1", fmt.Sprintf("c1:%d", randIdx(r))}
		ops = append(ops, strings.Replace(ops[2], "c1:", "c2:", 1), "n1", "t5", "c5:3", "c6:3")
		e.emit("roundtrip", xkLine(fmt.Sprintf("seed:%s:%d", hx(seed), r.intn(len(nets))), ops))
	}
	for z := 1; z <= 2; z++ {
		seed, idx, ok := findShortKey(r, z)
		if !ok {
			continue
		}
		ops := []string{fmt.Sprintf("c0:%d", idx), "t1", "c1:2147483648", "c2:2147483648", "c1:5", "c2:5", "n1", "n2"}
		e.emit(fmt.Sprintf("roundtrip.shortkey%d", z), xkLine("seed:"+hx(seed)+":0", ops))
	}
	// corrupted payloads with recomputed checksum
	ver := nets[0].priv[:]
	verPub := nets[0].pub[:]
	one := big.NewInt(1)
	chain := r.bytes(32)
	fp := r.bytes(4)
	for _, v := range []*big.Int{new(big.Int), one, new(big.Int).Sub(curveN, one), curveN, new(big.Int).Add(curveN, one),
		new(big.Int).Sub(new(big.Int).Lsh(one, 256), one)} {
		kd := append([]byte{0}, pad32(v.Bytes())...)
		e.emit("parse.scalar", xkLine("str:"+hx([]byte(serXKey(ver, 1, fp, 5, chain, kd))), []string{"c0:1"}))
	}
	g := mulG(big.NewInt(12345))
	gpk := pubOf(g.x, g.y).SerialiseCompressed()
	for _, b0 := range []byte{0, 1, 2, 3, 4, 5, 6, 7, 0xff} {
		kd := append([]byte{b0}, gpk[1:]...)
		e.emit("parse.keybyte", xkLine("str:"+hx([]byte(serXKey(verPub, 1, fp, 5, chain, kd))), []string{"c0:1"}))
	}
	for x := int64(1); x < 12; x++ {
		for _, addP := range []bool{false, true} {
			xv := big.NewInt(x)
			if addP {
				xv = new(big.Int).Add(xv, curveP)
			}
			kd := append([]byte{2}, pad32(xv.Bytes())...)
			e.emit("parse.pubx", xkLine("str:"+hx([]byte(serXKey(verPub, 1, fp, 5, chain, kd))), []string{"c0:1", "n0"}))
		}
	}
	// non-canonical X = x + P for every on-curve x below 2^32 + 977 - 1 that the rare-point classes provide (a range check
	// done on machine words can let part of the window [P, 2^256) through): import must fail
	for _, p := range rarePoints(r, 2) {
		if p.x.BitLen() <= 33 {
			xa := new(big.Int).Add(p.x, curveP)
			if xa.BitLen() <= 256 {
				for _, pre := range []byte{2, 3} {
					kd := append([]byte{pre}, pad32(xa.Bytes())...)
					e.emit("parse.pubx-alias", xkLine("str:"+hx([]byte(serXKey(verPub, 1, fp, 5, chain, kd))), []string{"c0:1", "n0"}))
				}
			}
		}
	}
	for _, off := range []int64{977, 978, 980, 1 << 20, 1<<32 - 60, 1<<32 + 976} {
		for d := int64(0); d < 40; d++ { // the next on-curve x at or after the offset
			x := big.NewInt(off + d)
			if _, err := bec.ParsePubKey(append([]byte{2}, pad32(x.Bytes())...), bec.S256()); err == nil {
				xa := new(big.Int).Add(x, curveP)
				if xa.BitLen() <= 256 {
					kd := append([]byte{2}, pad32(xa.Bytes())...)
					e.emit("parse.pubx-alias", xkLine("str:"+hx([]byte(serXKey(verPub, 1, fp, 5, chain, kd))), []string{"c0:1"}))
					e.emit("parse.pubx-alias.raw", "parsepub "+hx(kd))
				}
				break
			}
		}
	}
	// public keys whose X puts the field code into rare representations (see rarePoints): import, derive, neuter
	for _, p := range rarePoints(r, 2) {
		kd := pubOf(p.x, p.y).SerialiseCompressed()
		e.emit("parse.rarepub", xkLine("str:"+hx([]byte(serXKey(verPub, 1, fp, 5, chain, kd))), []string{"c0:1", "t0", "c2:1"}))
	}
	// wrong lengths, wrong checksums, unknown versions
	m, _ := bip32.NewMaster(r.bytes(32), nets[0].params)
	raw := base58.Decode(m.String())
	for _, l := range []int{0, 1, 4, 77, 78, 81, 83, 100} {
		x := append([]byte{}, raw...)
		if l <= len(x) {
			x = x[:l]
		} else {
			x = append(x, r.bytes(l-len(x))...)
		}
		e.emit("parse.len", xkLine("str:"+hx([]byte(base58.Encode(x))), nil))
	}
	// wrong payload lengths WITH a checksum that is correct for that payload
	for _, l := range []int{0, 1, 33, 74, 77, 79, 80, 82, 110, 78 + 33, 78 * 2, 300} {
		var x []byte
		if l <= 78 {
			x = append([]byte{}, raw[:l]...)
		} else {
			x = append(append([]byte{}, raw[:78]...), r.bytes(l-78)...)
		}
		x = append(x, crypto.Sha256d(x)[:4]...)
		e.emit("parse.len-goodck", xkLine("str:"+hx([]byte(base58.Encode(x))), []string{"c0:1"}))
	}
	for bit := 0; bit < 32; bit += 3 {
		x := append([]byte{}, raw...)
		x[78+bit/8] ^= 1 << uint(bit%8)
		e.emit("parse.badck", xkLine("str:"+hx([]byte(base58.Encode(x))), nil))
	}
	{
		x := append([]byte{}, raw[:78]...)
		copy(x, []byte{9, 9, 9, 9})
		x = append(x, crypto.Sha256d(x)[:4]...)
		e.emit("parse.unknownver", xkLine("str:"+hx([]byte(base58.Encode(x))), []string{"n0", "c0:1"}))
		e.emit("parse.notb58", xkLine("str:"+hx([]byte("xprv0OIl")), nil))
	}
	// path grammar
	comps := []string{"0", "1", "7", "00", "007", "2147483647", "2147483648", "2147483649", "4294967295", "4294967296",
		"99999999999999999999", "0'", "1'", "2147483647'", "2147483648'", "2147483649'", "4294967295'", "4294967296'",
		"", "'", "''", "1''", "+1", "-1", "1 ", " 1", "1\n", "0x1", "1e3", "08", "09", "010", "0100'", "017", "0000000019", "0x10", "0X1f", "0b11", "0o17", "1_0", "1_000", "0_1", "١", "m", "1'/", "٣'"}
	seedS := "seed:" + hx(r.bytes(32)) + ":0"
	for _, c := range comps {
		e.emit("path.comp", xkLine(seedS, []string{"p0:" + hx([]byte(c))}))
		e.emit("path.comp2", xkLine(seedS, []string{"p0:" + hx([]byte("1/"+c))}))
		e.emit("path.comp3", xkLine(seedS, []string{"p0:" + hx([]byte(c+"/2"))}))
	}
	for _, p := range []string{"", "/", "//", "0/", "/0", "m/0", "0/1/2/3/4/5/6/7/8/9", "0'/1'/2'", "0/2147483648'/1"} {
		e.emit("path.full", xkLine(seedS, []string{"p0:" + hx([]byte(p)), "n0", "p2:" + hx([]byte(p))}))
	}
	np := 60
	if thorough {
		np = 3000
	}
	alphabet := []string{"0", "1", "2", "9", "'", "/", "/", "21474", "83648", "4294967295", "+", " ", "a"}
	for i := 0; i < np; i++ {
		var sb strings.Builder
		for j := 0; j < 1+r.intn(8); j++ {
			sb.WriteString(alphabet[r.intn(len(alphabet))])
		}
		e.emit("path.fuzz", xkLine(seedS, []string{"p0:" + hx([]byte(sb.String()))}))
	}
	// path = fold of Child: compare p with explicit c ops (model checks both the same way, impl must agree)
	for i := 0; i < n; i++ {
		var parts []string
		var ops []string
		cur := 0
		for d := 0; d < 1+r.intn(4); d++ {
			idx := randIdx(r)
			if idx >= 1<<31 && r.coin(1, 2) {
				parts = append(parts, fmt.Sprintf("%d'", idx-1<<31))
			} else {
				parts = append(parts, fmt.Sprint(idx))
			}
			ops = append(ops, fmt.Sprintf("c%d:%d", cur, idx))
			cur++
		}
		ops = append(ops, "p0:"+hx([]byte(strings.Join(parts, "/"))))
		e.emit("path.fold", xkLine("seed:"+hx(r.bytes(32))+":0", ops))
	}
	// DerivePublicKeyFromPath on imported keys (private and public, valid and malformed paths, hardened from public)
	{
		m, _ := bip32.NewMaster(r.bytes(32), nets[r.intn(2)].params)
		pm, _ := m.Neuter()
		for _, ks := range []string{m.String(), pm.String(), "xprv0OIl", m.String()[:len(m.String())-1] + "1"} {
			for _, pth := range []string{"0", "0/1", "0'/1", "2147483648", "1/2147483647'", "", "/", "0/", "4294967296", "1/2/3/4/5", "007"} {
				e.emit("dpub", "xk.dpub "+hx([]byte(ks))+" "+hx([]byte(pth)))
			}
			for i := 0; i < n/4; i++ {
				var sb strings.Builder
				for j := 0; j < 1+r.intn(6); j++ {
					sb.WriteString(alphabet[r.intn(len(alphabet))])
				}
				e.emit("dpub.fuzz", "xk.dpub "+hx([]byte(ks))+" "+hx([]byte(sb.String())))
			}
		}
	}
	// DerivePath / DeriveNumber
	u64s := []uint64{0, 1, 2, 3, 4, 1<<31 - 1, 1 << 31, 1<<31 + 1, 1<<33 - 1, 1 << 33, 1<<33 + 1, 1 << 62, 1<<63 - 1, 1 << 63, 1<<64 - 1, 172732732}
	nu := 100
	if thorough {
		nu = 5000
	}
	for i := 0; i < nu; i++ {
		u64s = append(u64s, r.next()>>uint(r.intn(64)))
	}
	for _, v := range u64s {
		e.emit("dpath.fwd", fmt.Sprintf("dpath.fwd %d", v))
		e.emit("dpath.back", "dpath.back "+hx([]byte(bip32.DerivePath(v))))
	}
	for _, p := range []string{"", "0", "0/0", "0/0/0", "0/0/0/0", "2147483648/2147483648/2147483648", "4294967295/4294967295/4294967295",
		"4294967296/0/0", "0/4294967296/0", "0/0/4294967296", "-1/0/0", "+1/0/0", "1'/0/0", " 1/0/0", "1/0/0 ", "a/b/c", "//", "1//2", "01/02/03",
		"2147483647/0/0", "0/2147483647/1"} {
		e.emit("dpath.back.syntax", "dpath.back "+hx([]byte(p)))
	}
}

func genC18(e *emitter, r *rng, thorough bool) {
	// SetNet to a parameter set that shares its private version bytes with a registered network (and is registered itself,
	// earlier): whatever SetNet does, Neuter of the OTHER keys keeps following the registry as it stood
	for i := 0; i < 4; i++ {
		tw := len(nets) - 1
		root := "seed:" + hx(r.bytes(32)) + ":2"
		e.emit("setnet.twin-network", xkLine(root, []string{"n0", "c0:1", fmt.Sprintf("s2:%d", tw), "n0", "n2", fmt.Sprintf("s1:%d", tw), "n0", "c0:2", "n6", "t0", "n8"}))
		e.emit("setnet.twin-network.quiet", "xkq"+xkLine(root, []string{"c0:1", fmt.Sprintf("s1:%d", tw), "n0", "c0:2", "n3"})[2:])
	}
	maxLen := 3
	if thorough {
		maxLen = 4
	}
	seed := r.bytes(32)
	privRoot := "seed:" + hx(seed) + ":0"
	m, _ := bip32.NewMaster(seed, nets[0].params)
	pubM, _ := m.Neuter()
	pubRoot := "str:" + hx([]byte(pubM.String()))
	// alphabet applied to every live register
	type tmpl struct {
		f      func(reg int) string
		newReg bool
	}
	alpha := []tmpl{
		{func(g int) string { return fmt.Sprintf("c%d:1", g) }, true},
		{func(g int) string { return fmt.Sprintf("c%d:2147483649", g) }, true},
		{func(g int) string { return fmt.Sprintf("n%d", g) }, true},
		{func(g int) string { return fmt.Sprintf("p%d:%s", g, hx([]byte("0/1"))) }, true},
		{func(g int) string { return fmt.Sprintf("p%d:-", g) }, true},
		{func(g int) string { return fmt.Sprintf("s%d:1", g) }, false},
		{func(g int) string { return fmt.Sprintf("z%d", g) }, false},
		{func(g int) string { return fmt.Sprintf("t%d", g) }, true},
	}
	for _, root := range []string{privRoot, pubRoot} {
		var rec func(ops []string, nregs int)
		rec = func(ops []string, nregs int) {
			if len(ops) > 0 {
				e.emit(fmt.Sprintf("exh.len%d", len(ops)), xkLine(root, ops))
				// the same history with no observation until the end (observing a key makes the real code compute
				// and memoise its public key, so sharing that happens only on a FIRST computation is otherwise hidden)
				e.emit(fmt.Sprintf("exh.quiet.len%d", len(ops)), "xkq"+xkLine(root, ops)[2:])
			}
			if len(ops) == maxLen {
				return
			}
			for _, t := range alpha {
				for g := 0; g < nregs; g++ {
					nr := nregs
					if t.newReg {
						nr++
					}
					rec(append(append([]string{}, ops...), t.f(g)), nr)
				}
			}
		}
		rec(nil, 1)
	}
	// derived private keys stored with fewer than 32 bytes (leading zero byte): hardened children after normal ones
	// (a recycled scratch buffer keeps the previous derivation's bytes in the padding), neuter / zero around them
	for z := 1; z <= 2; z++ {
		if sd, idx, ok := findShortKey(r, z); ok {
			root := "seed:" + hx(sd) + ":0"
			short := fmt.Sprintf("c0:%d", idx)
			e.emit("shortkey", xkLine(root, []string{short, "c0:1", "c1:2147483648", "c1:7", "c1:2147483649", "n1", "c1:2147483648"}))
			e.emit("shortkey", xkLine(root, []string{short, "n0", "c2:3", "c1:2147483651", "p1:" + hx([]byte("0'/1")), "z2", "c1:2147483651"}))
			e.emit("shortkey.quiet", "xkq"+xkLine(root, []string{short, "c0:5", "c1:2147483648", "c1:2147483648"})[2:])
		}
	}
	// DerivePublicKeyFromPath inside histories (a read: nothing may change), every path shape incl. the empty one
	for _, root := range []string{privRoot, pubRoot} {
		for _, pth := range []string{"", "0", "0'", "1/2", "x"} {
			h := hx([]byte(pth))
			if h == "" {
				h = "-"
			}
			e.emit("dpub.history", xkLine(root, []string{"d0:" + h, "c0:1", "d0:" + h, "n0"}))
			e.emit("dpub.history.quiet", "xkq"+xkLine(root, []string{"c0:1", "d1:" + h, "d0:" + h})[2:])
		}
	}
	// random longer histories
	n := 40
	if thorough {
		n = 1500
	}
	for i := 0; i < n; i++ {
		root := privRoot
		if i%3 == 2 {
			root = pubRoot
		}
		if i%3 == 1 {
			root = fmt.Sprintf("seed:%s:%d", hx(r.bytes(16+r.intn(48))), r.intn(len(nets)))
		}
		var ops []string
		nregs := 1
		for j := 0; j < 30; j++ {
			g := r.intn(nregs)
			switch r.intn(10) {
			case 0, 1:
				ops = append(ops, fmt.Sprintf("c%d:%d", g, randIdx(r)))
				nregs++
			case 2:
				ops = append(ops, fmt.Sprintf("c%d:%d", g, r.intn(3)))
				nregs++
			case 3, 4:
				ops = append(ops, fmt.Sprintf("n%d", g))
				nregs++
			case 5:
				ops = append(ops, fmt.Sprintf("%s%d:%s", r.pick("p", "d"), g, hx([]byte(r.pick("", "0", "1/2", "0'/1", "5'")))))
				nregs++
			case 6:
				ops = append(ops, fmt.Sprintf("s%d:%d", g, r.intn(len(nets))))
			case 7:
				ops = append(ops, fmt.Sprintf("z%d", g))
			case 8:
				ops = append(ops, fmt.Sprintf("t%d", g))
				nregs++
			default:
				ops = append(ops, fmt.Sprintf("n%d", g), fmt.Sprintf("z%d", g))
				nregs++
			}
			if nregs > 12 {
				break
			}
		}
		e.emit("random30", xkLine(root, ops))
		e.emit("random30.quiet", "xkq"+xkLine(root, ops)[2:])
	}
}

func genC07(e *emitter, r *rng, thorough bool) {
	passes := [][]byte{{}, []byte("TREZOR"), []byte("smørrebrød"), []byte("ĐŁøß ﬁ Å ½ ①"), []byte("e\u0301"), []byte("\u00a0x\u3000"), []byte("pass word"), []byte("éà 가"), []byte(strings.Repeat("long passphrase ", 64))}
	for l := 0; l <= 40; l++ {
		for t := 0; t < 3; t++ {
			ent := r.bytes(l)
			if t == 1 {
				ent = make([]byte, l)
			}
			if t == 2 {
				for i := range ent {
					ent[i] = 0xff
				}
			}
			valid := l == 16 || l == 20 || l == 24 || l == 28 || l == 32
			if !valid && t > 0 {
				continue
			}
			if !thorough && valid && t == 2 && l != 16 && l != 32 {
				continue
			}
			p := passes[r.intn(len(passes))]
			e.emit(fmt.Sprintf("mn.len%d", l), "bip39.mn "+hx(ent)+" "+hx(p))
			if valid {
				m, _, err := bip39.Mnemonic(ent, "")
				if err == nil {
					e.emit("seed.own", "bip39.seed "+hx([]byte(m))+" "+hx(p))
				}
			}
		}
	}
	n := 10
	if thorough {
		n = 200
	}
	for i := 0; i < n; i++ {
		ent := r.bytes([]int{16, 20, 24, 28, 32}[r.intn(5)])
		p := passes[r.intn(len(passes))]
		e.emit("mn.rand", "bip39.mn "+hx(ent)+" "+hx(p))
	}
	// sentences whose BYTE LENGTH sits on the HMAC-SHA512 key boundary (block size 128: a longer key is hashed
	// first) and around 64/256: (a) word sequences of exactly that length through MnemonicToSeed, (b) entropies
	// whose own sentence has that length (found with the generator's own bit slicer) through Mnemonic
	for _, target := range []int{63, 64, 65, 126, 127, 128, 129, 130, 191, 192, 193, 255, 256, 257} {
		var ws []string
		l := -1
		for l < target-9 {
			w := bip39.English[r.intn(2048)]
			ws = append(ws, w)
			l += 1 + len(w)
		}
		// finish with one word of exactly the missing length (3..8 letters are all available)
		need := target - l - 1
		for tries := 0; tries < 100000 && need >= 3 && need <= 8; tries++ {
			w := bip39.English[r.intn(2048)]
			if len(w) == need {
				ws = append(ws, w)
				l += 1 + need
				break
			}
		}
		if l == target {
			sent := strings.Join(ws, " ")
			e.emit(fmt.Sprintf("seed.bytelen%d", target), "bip39.seed "+hx([]byte(sent))+" "+hx(passes[r.intn(len(passes))]))
			e.emit(fmt.Sprintf("seed.bytelen%d", target), "bip39.seed "+hx([]byte(sent))+" -")
		}
	}
	for _, target := range []int{127, 128, 129} {
		for _, el := range []int{24, 28, 32} {
			found := 0
			for tries := 0; tries < 60000 && found < 2; tries++ {
				ent := r.bytes(el)
				if ownSentenceLen(ent) == target {
					found++
					e.emit(fmt.Sprintf("mn.bytelen%d", target), "bip39.mn "+hx(ent)+" "+hx(passes[r.intn(len(passes))]))
				}
			}
		}
	}
	// entropies BUILT from word indices: the longest sentences (all 8-letter words: > 200 bytes for 24 words) and the
	// shortest (all 3-letter words) of every size; random entropy stays within ~6 sigma of the mean length
	{
		var long8, short3 []int
		for i, w := range bip39.English {
			if len(w) == 8 {
				long8 = append(long8, i)
			}
			if len(w) == 3 {
				short3 = append(short3, i)
			}
		}
		for _, el := range []int{16, 20, 24, 28, 32} {
			for _, idxs := range [][]int{long8, short3} {
				bits := new(big.Int)
				nw := (el*8 + el/4) / 11
				for k := 0; k < nw; k++ {
					bits.Lsh(bits, 11)
					bits.Or(bits, big.NewInt(int64(idxs[r.intn(len(idxs))])))
				}
				bits.Rsh(bits, uint(el/4)) // drop the checksum bits of the last word: it is what the entropy makes it
				ent := pad32(bits.Bytes())[32-el:]
				e.emit("mn.extreme-length", "bip39.mn "+hx(ent)+" "+hx(passes[r.intn(len(passes))]))
			}
		}
		// passphrases with white space / control characters at the edges (a trimmed salt would show)
		ent := r.bytes(16)
		for _, p := range []string{" ", "TREZOR ", " TREZOR", "\tx", "x\n", "\u00a0x", " a b ", "\x00", "x\x00"} {
			e.emit("mn.passphrase-edges", "bip39.mn "+hx(ent)+" "+hx([]byte(p)))
			m, _, err := bip39.Mnemonic(ent, "")
			if err == nil {
				e.emit("seed.passphrase-edges", "bip39.seed "+hx([]byte(m))+" "+hx([]byte(p)))
			}
		}
	}
	// the same sentence with different passphrases in consecutive calls, through both entry points
	for i := 0; i < 4; i++ {
		ent := r.bytes([]int{16, 24, 32, 20}[i])
		e.emit("seq.passphrases", "bip39.seq "+hx(ent)+" "+strings.Join([]string{hx([]byte("alpha")), hx([]byte("beta")), "-", hx([]byte("alpha")), hx([]byte("TREZOR"))}, ","))
	}
	// every list word in some sentence: 2048 words / 12 per sentence
	words := bip39.English
	perm := make([]int, len(words))
	for i := range perm {
		perm[i] = i
	}
	for i := len(perm) - 1; i > 0; i-- {
		j := r.intn(i + 1)
		perm[i], perm[j] = perm[j], perm[i]
	}
	cnts := []int{12, 15, 18, 21, 24}
	pos := 0
	for pos < len(perm) {
		c := cnts[r.intn(len(cnts))]
		var ws []string
		for k := 0; k < c; k++ {
			ws = append(ws, words[perm[(pos+k)%len(perm)]])
		}
		pos += c
		e.emit("seed.allwords", "bip39.seed "+hx([]byte(strings.Join(ws, " ")))+" -")
	}
	// non-words: before the first, between neighbours, after the last, prefixes / extensions
	base := strings.Fields("abandon abandon abandon abandon abandon abandon abandon abandon abandon abandon abandon about")
	nonwords := []string{"aaa", "a", "abandom", "abandonn", "abando", "abandon\x00", "Abandon", "zoo0", "zop", "zzz", "zzzzzzzzzzzz", "zoo\xff", "\xff", "~", "{", "zon", "zoom",
		"ability!", "ab", "abl", "ablee", "é", "zoo ", "é", "zoó"}
	for _, w := range nonwords {
		for _, p := range []int{0, 5, 11} {
			s := append([]string{}, base...)
			s[p] = w
			e.emit("seed.nonword", "bip39.seed "+hx([]byte(strings.Join(s, " ")))+" -")
		}
	}
	// a non-word for every possible first byte (letters that start no list word — x —, bytes before 'a' and after 'z',
	// upper case, digits, bytes ≥ 0x80): a lookup that buckets by the first letter meets an empty or missing bucket
	for c := 1; c < 256; c++ {
		if c == ' ' || (c >= 9 && c <= 13) || c == 0x85 || c == 0xa0 {
			continue // separators
		}
		forms := []string{string([]byte{byte(c)}), string([]byte{byte(c)}) + "ray"}
		if !(c >= 'a' && c <= 'z') && c%8 != 0 {
			forms = forms[:1]
		}
		for _, w := range forms {
			if sort.SearchStrings(words, w) < len(words) && words[sort.SearchStrings(words, w)] == w {
				continue
			}
			s := append([]string{}, base...)
			s[(c*5)%12] = w
			e.emit("seed.nonword.firstbyte", "bip39.seed "+hx([]byte(strings.Join(s, " ")))+" -")
		}
	}
	// neighbours: a string strictly between two adjacent list words
	for i := 0; i < 40; i++ {
		k := r.intn(len(words) - 1)
		w := words[k] + "a"
		if w >= words[k+1] {
			w = words[k] + "\x01"
		}
		s := append([]string{}, base...)
		s[r.intn(12)] = w
		e.emit("seed.between", "bip39.seed "+hx([]byte(strings.Join(s, " ")))+" -")
	}
	// separators and word counts
	seps := []string{" ", "  ", "\t", "\n", "\v", "\f", "\r", "\u00a0", "\u0085", "\u1680", "\u2000", "\u2005", "\u200a", "\u2028", "\u2029", "\u202f", "\u205f", "\u3000",
		"\u200b", "\u180e", "\ufeff", "\u2060", "\xc2", "\xe2\x80", "\xa0", "\x1f", "\x1c", ",", "\xe2\x80\x8b", "\xe1\x9a", "\xc2\x84", "\xc2\x86", "\xe2\x81\x9e"}
	for _, sp := range seps {
		e.emit("seed.sep", "bip39.seed "+hx([]byte(strings.Join(base, sp)))+" -")
		e.emit("seed.sep-lead", "bip39.seed "+hx([]byte(sp+strings.Join(base, " ")+sp))+" "+hx([]byte("p")))
	}
	for _, c := range []int{30, 33, 36, 48, 60, 63, 64, 66, 75, 76, 79, 82, 85, 88, 96, 127, 128, 129, 140, 143, 146, 149, 152, 192, 204, 207, 210, 213, 216, 255, 256, 258, 268, 271, 274, 277, 280} {
		// counts far above 24, in particular 12..24 + 64k / 128k / 256k (a count test through a narrow type or a bit mask)
		ws := make([]string, c)
		for k := range ws {
			ws[k] = words[r.intn(len(words))]
		}
		e.emit("seed.count-large", "bip39.seed "+hx([]byte(strings.Join(ws, " ")))+" -")
	}
	for c := 0; c <= 27; c++ {
		var ws []string
		for k := 0; k < c; k++ {
			ws = append(ws, words[r.intn(len(words))])
		}
		e.emit(fmt.Sprintf("seed.count%d", c), "bip39.seed "+hx([]byte(strings.Join(ws, " ")))+" -")
	}
	// invalid UTF-8 sentences
	for i := 0; i < 20; i++ {
		b := []byte(strings.Join(base, " "))
		b[r.intn(len(b))] = byte(0x80 + r.intn(128))
		e.emit("seed.badutf8", "bip39.seed "+hx(b)+" -")
	}
}

// ownSentenceLen is the byte length of the BIP39 sentence of ent, computed with the generator's own bit slicer
// (entropy bits followed by len/32 checksum bits of SHA-256, 11 bits per word) and the library's word list.
func ownSentenceLen(ent []byte) int {
	h := sha256.Sum256(ent)
	bits := new(big.Int).SetBytes(ent)
	cs := uint(len(ent) / 4)
	bits.Lsh(bits, cs)
	bits.Or(bits, big.NewInt(int64(h[0]>>(8-cs))))
	nw := (len(ent)*8 + int(cs)) / 11
	total := nw - 1
	mask := big.NewInt(2047)
	for i := 0; i < nw; i++ {
		idx := new(big.Int).And(bits, mask).Int64()
		bits.Rsh(bits, 11)
		total += len(bip39.English[idx])
	}
	return total
}
