package main

import (
	"fmt"
	"strconv"
	"strings"

	"github.com/libsv/go-bk/bip32"
	"github.com/libsv/go-bk/chaincfg"
)

// The fixed network table of this harness process (every xk line carries it verbatim).
type netDef struct {
	addrID byte
	priv   [4]byte
	pub    [4]byte
	params *chaincfg.Params
}

var nets []netDef

func initNets() {
	mk := func(name string, addr byte, wifID byte, priv, pub [4]byte) netDef {
		p := &chaincfg.Params{Name: name, LegacyPubKeyHashAddrID: addr, PrivateKeyID: wifID, HDPrivateKeyID: priv, HDPublicKeyID: pub}
		return netDef{addr, priv, pub, p}
	}
	nets = []netDef{
		{chaincfg.MainNet.LegacyPubKeyHashAddrID, chaincfg.MainNet.HDPrivateKeyID, chaincfg.MainNet.HDPublicKeyID, &chaincfg.MainNet},
		{chaincfg.TestNet.LegacyPubKeyHashAddrID, chaincfg.TestNet.HDPrivateKeyID, chaincfg.TestNet.HDPublicKeyID, &chaincfg.TestNet},
		mk("customA", 0x1e, 0x9e, [4]byte{0x02, 0xfa, 0xc3, 0x98}, [4]byte{0x02, 0xfa, 0xca, 0xfd}),
		mk("mainnet", 0x30, 0xb0, [4]byte{0x01, 0x9d, 0x9c, 0xfe}, [4]byte{0x01, 0x9d, 0xa4, 0x62}), // a custom network that is *named* mainnet
		mk("customC", 0xff, 0x01, [4]byte{0xde, 0xad, 0xbe, 0xef}, [4]byte{0xfe, 0xed, 0xfa, 0xce}),
		// networks that SHARE an address prefix / WIF byte with an already registered one but have their own HD version bytes
		mk("signet-like", 0x6f, 0xef, [4]byte{0x04, 0x5f, 0x18, 0xbc}, [4]byte{0x04, 0x5f, 0x1c, 0xf6}),
		mk("hd-only", 0x00, 0x80, [4]byte{0x0a, 0x0b, 0x0c, 0x0d}, [4]byte{0x1a, 0x1b, 0x1c, 0x1d}),
		// zero is a value like any other: a public version of four zero bytes, a private version of four zero bytes, WIF byte 0
		mk("zero-pub", 0x21, 0x00, [4]byte{0x0b, 0x0c, 0x0d, 0x0e}, [4]byte{0, 0, 0, 0}),
		mk("zero-priv", 0x22, 0xff, [4]byte{0, 0, 0, 0}, [4]byte{0x0c, 0x0d, 0x0e, 0x0f}),
		// a second parameter set with customA's PRIVATE version bytes and its own public ones.  Registration below runs from
		// the end of this table to its beginning, so customA is registered after it and the registry maps 02fac398 to customA's
		// public version (the model looks the table up front to back).  Moving a key to this network with SetNet must not
		// change what Neuter does to other keys.
		mk("customA-twin", 0x23, 0x9d, [4]byte{0x02, 0xfa, 0xc3, 0x98}, [4]byte{0x02, 0xfa, 0xd0, 0x01}),
	}
	// a first lookup and a first Neuter happen BEFORE the custom networks are registered: registration must work at any
	// time, not only before the registry is first consulted
	_, _ = chaincfg.HDPrivateKeyToPublicKeyID(chaincfg.MainNet.HDPrivateKeyID[:])
	if m0, err := bip32.NewMaster(make([]byte, 32), &chaincfg.MainNet); err == nil {
		_, _ = m0.Neuter()
	}
	for i := len(nets) - 1; i >= 2; i-- {
		_ = chaincfg.Register(nets[i].params)
	}
}

func netsString() string {
	parts := make([]string, len(nets))
	for i, n := range nets {
		parts[i] = fmt.Sprintf("%02x:%s:%s", n.addrID, hx(n.priv[:]), hx(n.pub[:]))
	}
	return strings.Join(parts, ";")
}

func obsKey(k *bip32.ExtendedKey) string {
	pub := "e"
	if pk, err := k.ECPubKey(); err == nil {
		pub = hx(pk.SerialiseCompressed())
		pk.X.SetInt64(0x5a5a)
		pk.Y.SetInt64(0x5a5a)
	}
	prv := "e"
	if sk, err := k.ECPrivKey(); err == nil {
		prv = hx(sk.Serialise())
		sk.D.SetInt64(0x5a5a) // the returned key object is the caller's: scribbling over it must not reach the extended key
		sk.X.SetInt64(1)
	}
	return "S=" + hx([]byte(k.String())) + "|P=" + b2s(k.IsPrivate()) + "|D=" + strconv.Itoa(int(k.Depth())) +
		"|F=" + strconv.FormatUint(uint64(k.ParentFingerprint()), 16) + "|A=" + hx([]byte(k.Address(nets[0].params))) +
		"|K=" + pub + "|V=" + prv
}

func obsAll(regs []*bip32.ExtendedKey) string {
	if len(regs) > 16 { // all live registers, or the 16 most recent when there are more
		regs = regs[len(regs)-16:]
	}
	parts := make([]string, len(regs))
	for i, k := range regs {
		if k == nil {
			parts[i] = "e"
		} else {
			parts[i] = obsKey(k)
		}
	}
	return strings.Join(parts, ",")
}

func execXk(netsS, rootS, opsS string, quiet bool) string {
	if netsS != netsString() {
		return "bad-op" // the table is fixed per harness build
	}
	var regs []*bip32.ExtendedKey
	push := func(k *bip32.ExtendedKey, err error) {
		if err != nil {
			k = nil
		}
		regs = append(regs, k)
	}
	rp := strings.Split(rootS, ":")
	switch {
	case len(rp) == 3 && rp[0] == "seed":
		seed, ok := unhex(rp[1])
		n, err := strconv.Atoi(rp[2])
		if !ok || err != nil || n < 0 || n >= len(nets) {
			return "bad-op"
		}
		// the seed is the caller's: it must come back unchanged, a second master from the same buffer must be the same
		// key, and wiping the buffer afterwards must not reach into the key that is kept
		seedCopy := append([]byte{}, seed...)
		first, err1 := bip32.NewMaster(seed, nets[n].params)
		if string(seed) != string(seedCopy) {
			return "seed-modified"
		}
		second, err2 := bip32.NewMaster(seed, nets[n].params)
		if (err1 == nil) != (err2 == nil) || (err1 == nil && first.String() != second.String()) {
			return "second-master-differs"
		}
		for i := range seed {
			seed[i] = 0
		}
		push(second, err2)
	case len(rp) == 2 && rp[0] == "str":
		s, ok := unhex(rp[1])
		if !ok {
			return "bad-op"
		}
		push(bip32.NewKeyFromString(string(s)))
	default:
		return "bad-op"
	}
	out := ""
	if !quiet {
		out = obsAll(regs)
	}
	if opsS != "-" {
		for _, op := range strings.Split(opsS, ";") {
			if op == "" {
				return "bad-op"
			}
			parts := strings.Split(op[1:], ":")
			r, err := strconv.Atoi(parts[0])
			if err != nil || r < 0 || r >= len(regs) {
				return "bad-op"
			}
			k := regs[r]
			switch op[0] {
			case 'c':
				if len(parts) != 2 {
					return "bad-op"
				}
				i, err := strconv.ParseUint(parts[1], 10, 32)
				if err != nil {
					return "bad-op"
				}
				if k == nil {
					regs = append(regs, nil)
				} else {
					push(k.Child(uint32(i)))
				}
			case 'n':
				if k == nil {
					regs = append(regs, nil)
				} else {
					push(k.Neuter())
				}
			case 'p', 'd':
				if len(parts) != 2 {
					return "bad-op"
				}
				p, ok := unhex(parts[1])
				if !ok {
					return "bad-op"
				}
				if k == nil {
					regs = append(regs, nil)
				} else {
					if op[0] == 'd' {
						// DerivePublicKeyFromPath first (its value is compared by xk.dpub): for the history it must be
						// a pure read, so the model treats `d` exactly like `p`
						_, _ = k.DerivePublicKeyFromPath(string(p))
					}
					push(k.DeriveChildFromPath(string(p)))
				}
			case 't':
				if k == nil {
					regs = append(regs, nil)
				} else {
					push(bip32.NewKeyFromString(k.String()))
				}
			case 's':
				if len(parts) != 2 {
					return "bad-op"
				}
				n, err := strconv.Atoi(parts[1])
				if err != nil || n < 0 || n >= len(nets) {
					return "bad-op"
				}
				if k != nil {
					k.SetNet(nets[n].params)
				}
			case 'z':
				if k != nil {
					k.Zero()
				}
			default:
				return "bad-op"
			}
			if !quiet {
				out += "/" + obsAll(regs)
			}
		}
	}
	if quiet { // nothing was looked at while the history ran
		out = obsAll(regs)
	}
	return "ok " + out
}

// xk.sweep <seedhex> <net> <from> <count>: for each normal index i the compressed public key of
// Neuter(Child_i(m)) and of Child_i(Neuter(m)) — a compact way to visit hundreds of derived keys (public
// keys whose X has leading zero bytes, short scalars, ...) on both derivation routes.
func execXkSweep(a []string) string {
	if len(a) != 4 {
		return "bad-op"
	}
	seed, ok := unhex(a[0])
	n, e1 := strconv.Atoi(a[1])
	from, e2 := strconv.ParseUint(a[2], 10, 32)
	count, e3 := strconv.Atoi(a[3])
	if !ok || e1 != nil || e2 != nil || e3 != nil || n < 0 || n >= len(nets) || count < 0 || count > 5000 {
		return "bad-op"
	}
	m, err := bip32.NewMaster(seed, nets[n].params)
	if err != nil {
		return "err"
	}
	pm, err := m.Neuter()
	if err != nil {
		return "err"
	}
	var sb strings.Builder
	sb.WriteString("ok")
	keyOf := func(k *bip32.ExtendedKey, err error) string {
		if err != nil {
			return "e"
		}
		pk, err := k.ECPubKey()
		if err != nil {
			return "x" + hx([]byte(k.String()))
		}
		return hx(pk.SerialiseCompressed()) + "." + strconv.FormatUint(uint64(k.ParentFingerprint()), 16)
	}
	for i := uint32(from); i < uint32(from)+uint32(count); i++ {
		c, err := m.Child(i)
		var a1 string
		if err != nil {
			a1 = "e"
		} else {
			a1 = keyOf(c.Neuter())
		}
		sb.WriteString(" " + a1 + ":" + keyOf(pm.Child(i)))
	}
	return sb.String()
}

func init() { extraOps["xk.sweep"] = execXkSweep }
