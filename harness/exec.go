package main

import (
	"bytes"
	"crypto/aes"
	"encoding/json"
	"math/big"
	"strconv"
	"strings"
	"sync"

	"github.com/libsv/go-bk/base58"
	"github.com/libsv/go-bk/bec"
	"github.com/libsv/go-bk/bip32"
	"github.com/libsv/go-bk/bip39"
	"github.com/libsv/go-bk/chaincfg"
	"github.com/libsv/go-bk/crypto"
	"github.com/libsv/go-bk/envelope"
	"github.com/libsv/go-bk/wif"
)

func pad32(b []byte) []byte {
	if len(b) >= 32 {
		return b
	}
	out := make([]byte, 32)
	copy(out[32-len(b):], b)
	return out
}

// privOf: the private key object for the number d, made by PrivKeyFromBytes from one of its big-endian encodings — the
// minimal one, the 32-byte one, or one with a zero byte in front of the 32 (chosen by the text of the op line): the key is
// the number, not its spelling.
func privOf(d *big.Int) *bec.PrivateKey {
	b := d.Bytes()
	switch (tapeFailSalt / 4) % 3 {
	case 1:
		if len(b) < 32 {
			b = append(make([]byte, 32-len(b)), b...)
		}
	case 2:
		if len(b) <= 32 {
			b = append(make([]byte, 33-len(b)), b...)
		}
	}
	priv, _ := bec.PrivKeyFromBytes(bec.S256(), b)
	return priv
}

// pubOf: a public key object as a caller would build it.  For one op line in four (chosen by the text of the line) its Curve
// is a second KoblitzCurve object with the same parameters (a copy of the singleton): what is asked about a key must not
// depend on the identity of its curve object.
func pubOf(x, y *big.Int) *bec.PublicKey {
	if tapeFailSalt%4 == 1 {
		curveCopyOnce.Do(func() { c := *bec.S256(); curveCopy = &c }) // not at init time: the first use of S256() belongs to the ops
		return &bec.PublicKey{Curve: curveCopy, X: x, Y: y}
	}
	return &bec.PublicKey{Curve: bec.S256(), X: x, Y: y}
}

var (
	curveCopy     *bec.KoblitzCurve
	curveCopyOnce sync.Once
)

func ptStr(x, y *big.Int) string { return nhx(x) + " " + nhx(y) }

// execOp runs the real code for one op line and returns the canonical result string.
func execOp(line string) (res string) {
	// byte-slice arguments belong to the caller: once the call has returned (and its answer has been rendered) the
	// harness overwrites them, as a caller recycling its buffers would.  A library that kept the slice instead of a copy
	// shows in a later answer.
	var argBufs [][]byte
	// byte slices RETURNED by the library belong to the caller as well: once rendered they are overwritten too, as a caller
	// that decodes into a result and then edits it in place would.  A library that handed out a slice it also keeps (a cache
	// entry, a memo, a pooled buffer) shows in a later answer (second pass, sequence ops, cross-talk history).
	var resBufs [][]byte
	hx := func(b []byte) string {
		resBufs = append(resBufs, b)
		return hx(b)
	}
	// ... and so do the integers inside returned keys, points and signatures
	var resInts []*big.Int
	nhx := func(v *big.Int) string {
		resInts = append(resInts, v)
		return nhx(v)
	}
	ptStr := func(x, y *big.Int) string { return nhx(x) + " " + nhx(y) }
	defer func() {
		if r := recover(); r != nil {
			res = "panic"
		}
		for _, v := range resInts {
			if v != nil {
				v.SetInt64(0x5a5a5a)
			}
		}
		for _, b := range argBufs {
			for i := range b {
				b[i] = 0x5a
			}
		}
		for _, b := range resBufs {
			for i := range b {
				b[i] = 0xa5
			}
		}
	}()
	toks := strings.Fields(line)
	if len(toks) == 0 {
		return "bad-op"
	}
	tapeFailSalt = 0
	for i := 0; i < len(line); i++ {
		tapeFailSalt = tapeFailSalt*31 + uint32(line[i])
	}
	op, a := toks[0], toks[1:]
	argc := func(n int) bool { return len(a) == n }
	B := func(i int) []byte {
		b, ok := unhex(a[i])
		if !ok {
			panic("bad hex")
		}
		argBufs = append(argBufs, b)
		return b
	}
	// the message hash is handed to the library in ONE buffer that the harness re-uses for every call, as callers that
	// hash into a fixed array do (a library that keeps the slice instead of its contents sees it change)
	Hb := func(i int) []byte {
		b := B(i)
		if len(b) > len(hashArena) {
			return b
		}
		copy(hashArena[:], b)
		return hashArena[:len(b):len(b)]
	}
	_ = Hb
	Nn := func(i int) *big.Int {
		n, ok := unnat(a[i])
		if !ok {
			panic("bad nat")
		}
		return n
	}
	I := func(i int) int {
		n, err := strconv.Atoi(a[i])
		if err != nil {
			panic("bad int")
		}
		return n
	}
	bad := "bad-op"
	curve := bec.S256()
	switch op {
	case "seq":
		// sub-ops separated by " | ", executed back to back in this process; answers joined the same way
		var outs []string
		for _, sub := range strings.Split(strings.Join(a, " "), " | ") {
			if f := strings.Fields(sub); len(f) == 0 || !seqOps[f[0]] {
				return bad
			}
			outs = append(outs, execOp(sub))
		}
		return strings.Join(outs, " | ")
	case "b58.enc":
		if !argc(1) {
			return bad
		}
		return "ok " + hx([]byte(base58.Encode(B(0))))
	case "b58.dec":
		if !argc(1) {
			return bad
		}
		return "ok " + hx(base58.Decode(string(B(0))))
	case "b58.cenc":
		if !argc(2) {
			return bad
		}
		return "ok " + hx([]byte(base58.CheckEncode(B(0), byte(I(1)))))
	case "b58.cdec":
		if !argc(1) {
			return bad
		}
		p, v, err := base58.CheckDecode(string(B(0)))
		if err != nil {
			return "err"
		}
		return "ok " + hx(p) + " " + strconv.Itoa(int(v))
	case "der.ser":
		if !argc(2) {
			return bad
		}
		sig := &bec.Signature{R: Nn(0), S: Nn(1)}
		if sig.R.Cmp(sig.S) == 0 {
			sig.S = sig.R // one big.Int object in both fields: an in-place update of S would also change R
		}
		r0, s0 := new(big.Int).Set(sig.R), new(big.Int).Set(sig.S)
		out := hx(sig.Serialise())
		if sig.R.Cmp(r0) != 0 || sig.S.Cmp(s0) != 0 {
			return "ok " + out + " signature-object-modified"
		}
		// the caller changes the number behind S IN PLACE (same *big.Int) and serialises the same object again: the output
		// must be the encoding of the new pair (a memo keyed by the pointers would return the old bytes)
		if sig.S != sig.R {
			sig.S.Add(sig.S, big.NewInt(1))
			out += " " + hx(sig.Serialise())
		}
		return "ok " + out
	case "der.parse", "der.lax":
		if !argc(1) {
			return bad
		}
		var sig *bec.Signature
		var err error
		if op == "der.parse" {
			sig, err = bec.ParseDERSignature(B(0), curve)
		} else {
			sig, err = bec.ParseSignature(B(0), curve)
		}
		if err != nil {
			return "err"
		}
		return "ok " + nhx(sig.R) + " " + nhx(sig.S)
	case "wif.enc":
		if !argc(3) {
			return bad
		}
		w, err := wif.NewWIF(privOf(Nn(0)), &chaincfg.Params{PrivateKeyID: byte(I(2))}, a[1] == "1")
		if err != nil {
			return "err"
		}
		return "ok " + hx([]byte(w.String()))
	case "wif.dec":
		if !argc(1) {
			return bad
		}
		w, err := wif.DecodeWIF(string(B(0)))
		if err != nil {
			return "err"
		}
		net := -1
		for i := 0; i < 256; i++ {
			if w.IsForNet(&chaincfg.Params{PrivateKeyID: byte(i)}) {
				net = i
				break
			}
		}
		return "ok " + nhx(w.PrivKey.D) + " " + b2s(w.CompressPubKey) + " " + strconv.Itoa(net) + " " + hx(w.SerialisePubKey())
	case "addr":
		if !argc(2) {
			return bad
		}
		k := bip32.NewExtendedKey([]byte{1, 2, 3, 4}, B(0), make([]byte, 32), make([]byte, 4), 0, 0, false)
		return "ok " + hx([]byte(k.Address(&chaincfg.Params{Name: "n" + a[1], LegacyPubKeyHashAddrID: byte(I(1))})))
	case "addr.seq":
		// the SAME key object and the SAME *Params, whose version byte is changed between calls
		if !argc(2) {
			return bad
		}
		k := bip32.NewExtendedKey([]byte{1, 2, 3, 4}, B(0), make([]byte, 32), make([]byte, 4), 0, 0, false)
		params := &chaincfg.Params{Name: "seq"}
		out := "ok"
		for _, ids := range strings.Split(a[1], ",") {
			id, err := strconv.Atoi(ids)
			if err != nil {
				return bad
			}
			params.LegacyPubKeyHashAddrID = byte(id)
			out += " " + hx([]byte(k.Address(params)))
		}
		return out
	case "hash.sha256":
		return "ok " + hx(crypto.Sha256(B(0)))
	case "hash.sha256d":
		return "ok " + hx(crypto.Sha256d(B(0)))
	case "hash.ripemd160":
		return "ok " + hx(crypto.Ripemd160(B(0)))
	case "hash.hash160":
		return "ok " + hx(crypto.Hash160(B(0)))
	case "parsepub":
		if !argc(1) {
			return bad
		}
		ic := " C=" + b2s(bec.IsCompressedPubKey(B(0)))
		k, err := bec.ParsePubKey(B(0), curve)
		if err != nil {
			return "err" + ic
		}
		return "ok " + ptStr(k.X, k.Y) + ic
	case "parsepub.seq":
		// several encodings parsed back to back in one process (a point and its negation, the same point in another
		// format); each result is edited by the caller as soon as it has been read
		if !argc(1) {
			return bad
		}
		out := "ok"
		for _, h := range strings.Split(a[0], ",") {
			b, ok := unhex(h)
			if !ok {
				return bad
			}
			k, err := bec.ParsePubKey(b, curve)
			if err != nil {
				out += " err"
				continue
			}
			out += " " + nhx(k.X) + ":" + nhx(k.Y)
			k.X.SetInt64(0x5a5a5a)
			k.Y.SetInt64(0x5a5a5a)
		}
		return out
	case "serpub":
		if !argc(2) {
			return bad
		}
		k := pubOf(Nn(0), Nn(1))
		return "ok " + hx(k.SerialiseUncompressed()) + " " + hx(k.SerialiseCompressed()) + " " + hx(k.SerialiseHybrid())
	case "xk.dpub":
		if !argc(2) {
			return bad
		}
		k, err := bip32.NewKeyFromString(string(B(0)))
		if err != nil {
			return "err-import"
		}
		pk, err := k.DerivePublicKeyFromPath(string(B(1)))
		if err != nil {
			return "err"
		}
		return "ok " + hx(pk)
	case "privbytes":
		if !argc(1) {
			return bad
		}
		priv, pub := bec.PrivKeyFromBytes(curve, B(0))
		pp := priv.PubKey() // the same key seen through PrivateKey.PubKey()
		return "ok " + hx(priv.Serialise()) + " " + ptStr(pub.X, pub.Y) + " " + ptStr(pp.X, pp.Y)
	case "impl.add":
		return execOp("curve.add " + strings.Join(a, " "))
	case "impl.double":
		return execOp("curve.double " + strings.Join(a, " "))
	case "impl.smul":
		return execOp("curve.smul " + strings.Join(a, " "))
	case "impl.sbmul":
		return execOp("curve.sbmul " + strings.Join(a, " "))
	case "impl.oncurve":
		return execOp("curve.oncurve " + strings.Join(a, " "))
	case "impl.splitk":
		if !argc(1) {
			return bad
		}
		k1, k2, s1, s2 := bec.VerifSplitK(B(0))
		return "ok " + hx(k1) + " " + hx(k2) + " " + strconv.Itoa(s1) + " " + strconv.Itoa(s2)
	case "impl.naf":
		if !argc(1) {
			return bad
		}
		p, n := bec.VerifNAF(B(0))
		return "ok " + hx(p) + " " + hx(n)
	case "curve.add":
		if !argc(4) {
			return bad
		}
		x, y := curve.Add(Nn(0), Nn(1), Nn(2), Nn(3))
		return "ok " + ptStr(x, y)
	case "curve.double":
		if !argc(2) {
			return bad
		}
		x, y := curve.Double(Nn(0), Nn(1))
		return "ok " + ptStr(x, y)
	case "curve.smul":
		if !argc(3) {
			return bad
		}
		x, y := curve.ScalarMult(Nn(0), Nn(1), B(2))
		return "ok " + ptStr(x, y)
	case "curve.sbmul":
		if !argc(1) {
			return bad
		}
		x, y := curve.ScalarBaseMult(B(0))
		return "ok " + ptStr(x, y)
	case "curve.oncurve":
		if !argc(2) {
			return bad
		}
		return "ok " + b2s(curve.IsOnCurve(Nn(0), Nn(1)))
	case "sign":
		if !argc(2) {
			return bad
		}
		sig, err := privOf(Nn(0)).Sign(Hb(1))
		if err != nil {
			return "err"
		}
		// determinism: a second call must give the same pair
		sig2, err2 := privOf(Nn(0)).Sign(Hb(1))
		if err2 != nil || !sig.IsEqual(sig2) {
			return "nondeterministic"
		}
		// "that signature verifies under the public key d*G for the same hash" — asked of the library's own Verify
		if !sig.Verify(Hb(1), privOf(Nn(0)).PubKey()) {
			return "ok " + nhx(sig.R) + " " + nhx(sig.S) + " own-signature-does-not-verify"
		}
		return "ok " + nhx(sig.R) + " " + nhx(sig.S)
	case "sign.seq":
		// ONE key object, several messages in a row, each written into the same caller-owned buffer; the signatures are
		// kept and printed after the last call, each also checked against the hash it was made for
		if !argc(2) {
			return bad
		}
		priv := privOf(Nn(0))
		var buf [64]byte
		out := "ok"
		type kept struct {
			sig *bec.Signature
			h   []byte
		}
		var ks []kept
		for _, hh := range strings.Split(a[1], ",") {
			h, ok := unhex(hh)
			if !ok || len(h) > len(buf) {
				return bad
			}
			n := copy(buf[:], h)
			sig, err := priv.Sign(buf[:n])
			if err != nil {
				ks = append(ks, kept{nil, h})
				continue
			}
			ks = append(ks, kept{sig, append([]byte{}, h...)})
		}
		for _, k := range ks {
			if k.sig == nil {
				out += " e"
			} else {
				out += " " + nhx(k.sig.R) + ":" + nhx(k.sig.S)
			}
		}
		return out
	case "verify":
		if !argc(5) {
			return bad
		}
		sig := &bec.Signature{R: Nn(3), S: Nn(4)}
		return "ok " + b2s(sig.Verify(B(2), pubOf(Nn(0), Nn(1))))
	case "compact.sign":
		if !argc(3) {
			return bad
		}
		out, err := bec.SignCompact(curve, privOf(Nn(0)), B(1), a[2] == "1")
		if err != nil {
			return "err"
		}
		return "ok " + hx(out)
	case "compact.recover":
		if !argc(2) {
			return bad
		}
		k, c, err := bec.RecoverCompact(curve, B(0), B(1))
		if err != nil {
			return "err"
		}
		return "ok " + ptStr(k.X, k.Y) + " " + b2s(c)
	case "ecdh":
		if !argc(3) {
			return bad
		}
		priv := &bec.PrivateKey{D: Nn(0)}
		priv.Curve = curve
		return "ok " + hx(bec.GenerateSharedSecret(priv, pubOf(Nn(1), Nn(2))))
	case "ecdh.seq":
		// several shared secrets in a row, all HELD and printed only after the last call (a result that aliases memory
		// the library re-uses would change under the caller)
		if !argc(1) {
			return bad
		}
		var held [][]byte
		for _, it := range strings.Split(a[0], ";") {
			f := strings.Split(it, ":")
			if len(f) != 3 {
				return bad
			}
			d, ok1 := unnat(f[0])
			x, ok2 := unnat(f[1])
			y, ok3 := unnat(f[2])
			if !ok1 || !ok2 || !ok3 {
				return bad
			}
			priv := &bec.PrivateKey{D: d}
			priv.Curve = curve
			held = append(held, bec.GenerateSharedSecret(priv, pubOf(x, y)))
		}
		out := "ok"
		for _, h := range held {
			out += " " + hx(h)
		}
		return out
	case "ecies.enc":
		if !argc(4) {
			return bad
		}
		t, ok := replayTape(a[3])
		if !ok {
			return bad
		}
		var out []byte
		var err error
		withTape(t, func() { out, err = bec.Encrypt(pubOf(Nn(0), Nn(1)), B(2)) })
		if t.mismatch {
			return "tape-mismatch"
		}
		if err != nil {
			return "err"
		}
		return "ok " + hx(out)
	case "ecies.seq":
		// several encryptions to the SAME recipient in a row on one tape, all ciphertexts held to the end (ephemeral
		// keys or derived keys remembered between calls would repeat)
		if !argc(4) {
			return bad
		}
		t, ok := replayTape(a[3])
		if !ok {
			return bad
		}
		pub := pubOf(Nn(0), Nn(1))
		var outs [][]byte
		failed := false
		withTape(t, func() {
			for _, mh := range strings.Split(a[2], ",") {
				m, ok := unhex(mh)
				if !ok {
					failed = true
					return
				}
				o, err := bec.Encrypt(pub, m)
				if err != nil {
					outs = append(outs, nil)
					return
				}
				outs = append(outs, o)
			}
		})
		if failed {
			return bad
		}
		if t.mismatch {
			return "tape-mismatch"
		}
		res := "ok"
		for _, o := range outs {
			if o == nil {
				res += " e"
			} else {
				res += " " + hx(o)
			}
		}
		return res
	case "ecies.dec":
		if !argc(2) {
			return bad
		}
		priv := &bec.PrivateKey{D: Nn(0)}
		priv.Curve = curve
		ctBuf := B(1)
		out, err := bec.Decrypt(priv, ctBuf)
		// a second call on the SAME buffer must give the same answer
		out2, err2 := bec.Decrypt(priv, ctBuf)
		if (err == nil) != (err2 == nil) || !bytes.Equal(out, out2) {
			return "unstable"
		}
		if err != nil {
			return "err"
		}
		return "ok " + hx(out)
	case "cfb.enc":
		if !argc(3) {
			return bad
		}
		blk, err := aes.NewCipher(B(0))
		if err != nil {
			return bad
		}
		t, ok := replayTape(a[2])
		if !ok {
			return bad
		}
		var out []byte
		withTape(t, func() { out, err = crypto.Encrypt(blk, B(1)) })
		if t.mismatch {
			return "tape-mismatch"
		}
		if err != nil {
			return "err"
		}
		return "ok " + hx(out)
	case "cfb.dec":
		if !argc(2) {
			return bad
		}
		blk, err := aes.NewCipher(B(0))
		if err != nil {
			return bad
		}
		ctBuf := B(1)
		out, err := crypto.Decrypt(blk, ctBuf)
		out2, err2 := crypto.Decrypt(blk, ctBuf)
		if (err == nil) != (err2 == nil) || !bytes.Equal(out, out2) {
			return "unstable"
		}
		if err != nil {
			return "err"
		}
		return "ok " + hx(out)
	case "bip39.mn":
		if !argc(2) {
			return bad
		}
		m, seed, err := bip39.Mnemonic(B(0), string(B(1)))
		if err != nil {
			return "err"
		}
		return "ok " + hx([]byte(m)) + " " + hx(seed)
	case "bip39.seed":
		if !argc(2) {
			return bad
		}
		seed, err := bip39.MnemonicToSeed(string(B(0)), string(B(1)))
		if err != nil {
			return "err"
		}
		return "ok " + hx(seed)
	case "bip39.seq":
		// one entropy, several passphrases in a row through both entry points (state kept between calls would show)
		if !argc(2) {
			return bad
		}
		ent := B(0)
		out := "ok"
		var sentence string
		for i, ph := range strings.Split(a[1], ",") {
			pb, ok := unhex(ph)
			if !ok {
				return bad
			}
			if i%2 == 0 || sentence == "" {
				m, seed, err := bip39.Mnemonic(ent, string(pb))
				if err != nil {
					return "err"
				}
				sentence = m
				out += " " + hx(seed)
			} else {
				seed, err := bip39.MnemonicToSeed(sentence, string(pb))
				if err != nil {
					return "err"
				}
				out += " " + hx(seed)
			}
		}
		return out
	case "dpath.fwd":
		if !argc(1) {
			return bad
		}
		i, err := strconv.ParseUint(a[0], 10, 64)
		if err != nil {
			return bad
		}
		return "ok " + hx([]byte(bip32.DerivePath(i)))
	case "dpath.back":
		if !argc(1) {
			return bad
		}
		v, err := bip32.DeriveNumber(string(B(0)))
		if err != nil {
			return "err"
		}
		return "ok " + strconv.FormatUint(v, 10)
	case "env.valid":
		if !argc(4) && !argc(5) {
			return bad
		}
		e := &envelope.JSONEnvelope{Payload: string(B(0)), MimeType: string(B(3))}
		if len(a) == 5 { // the Encoding field: informational, never part of the decision
			e.Encoding = string(B(4))
		}
		if a[1] != "nil" {
			s := string(B(1))
			e.Signature = &s
		}
		if a[2] != "nil" {
			s := string(B(2))
			e.PublicKey = &s
		}
		v, err := e.IsValid()
		if err != nil {
			return "err"
		}
		return "ok " + b2s(v)
	case "env.seq":
		// env.seq PAYLOAD SIG PK MIME steps : one JSONEnvelope object; steps: v = IsValid, p:/s:/k:/m:<hex> = set a field
		if !argc(5) {
			return bad
		}
		sg, pk := string(B(1)), string(B(2))
		env := &envelope.JSONEnvelope{Payload: string(B(0)), Signature: &sg, PublicKey: &pk, MimeType: string(B(3))}
		out := "ok"
		for _, st := range strings.Split(a[4], ",") {
			if st == "v" {
				v, err := env.IsValid()
				if err != nil {
					out += " e"
				} else {
					out += " " + b2s(v)
				}
				continue
			}
			if len(st) < 3 || st[1] != ':' {
				return bad
			}
			val, ok := unhex(st[2:])
			if !ok {
				return bad
			}
			switch st[0] {
			case 'p':
				env.Payload = string(val)
			case 's':
				x := string(val)
				env.Signature = &x
			case 'k':
				x := string(val)
				env.PublicKey = &x
			case 'm':
				env.MimeType = string(val)
			default:
				return bad
			}
		}
		return out
	case "env.new.bad":
		// a payload json.Marshal refuses: an error, and nothing may be left behind for later envelopes
		if !argc(2) {
			return bad
		}
		t, ok := replayTape(a[1])
		if !ok {
			return bad
		}
		var e *envelope.JSONEnvelope
		var err error
		pl := B(0)
		withTape(t, func() { e, err = envelope.NewJSONEnvelope(json.RawMessage(pl)) })
		if t.mismatch {
			return "tape-mismatch"
		}
		if err == nil || e != nil {
			return "ok unexpectedly"
		}
		return "err"
	case "env.new":
		if !argc(2) {
			return bad
		}
		t, ok := replayTape(a[1])
		if !ok {
			return bad
		}
		var e *envelope.JSONEnvelope
		var err error
		pl := B(0)
		withTape(t, func() { e, err = envelope.NewJSONEnvelope(json.RawMessage(pl)) })
		if t.mismatch {
			return "tape-mismatch"
		}
		if err != nil {
			return "err"
		}
		if e.Signature == nil || e.PublicKey == nil {
			return "missing-fields"
		}
		vs := func(e *envelope.JSONEnvelope) string {
			v, err := e.IsValid()
			if err != nil {
				return "e"
			}
			return b2s(v)
		}
		v1 := vs(e)
		v2 := "e"
		if js, err := json.Marshal(e); err == nil {
			var e2 envelope.JSONEnvelope
			if json.Unmarshal(js, &e2) == nil {
				v2 = vs(&e2)
			}
		}
		// P= the payload as stored in the envelope (the marshalled bytes, made valid UTF-8 by the library), and as it
		// comes back from the envelope's own JSON round trip
		p2 := "e"
		if js, err := json.Marshal(e); err == nil {
			var e2 envelope.JSONEnvelope
			if json.Unmarshal(js, &e2) == nil {
				p2 = hx([]byte(e2.Payload))
			}
		}
		return "ok " + hx([]byte(*e.Signature)) + " " + hx([]byte(*e.PublicKey)) + " " + v1 + " " + v2 + " P=" + hx([]byte(e.Payload)) + " P2=" + p2
	case "json.quote":
		if !argc(1) {
			return bad
		}
		js, err := json.Marshal(string(B(0)))
		if err != nil {
			return "err"
		}
		return "ok " + hx(js)
	case "json.unquote":
		if !argc(1) {
			return bad
		}
		lit := B(0)
		if len(lit) == 0 || lit[0] != '"' || lit[len(lit)-1] != '"' {
			return bad // the model covers string literals only (no surrounding white space, no other JSON values)
		}
		var str string
		if err := json.Unmarshal(lit, &str); err != nil {
			return "err"
		}
		return "ok " + hx([]byte(str))
	case "json.roundtrip":
		if !argc(1) {
			return bad
		}
		// through a struct field, as the envelope does
		type box struct {
			P string `json:"payload"`
		}
		js, err := json.Marshal(&box{P: string(B(0))})
		if err != nil {
			return "err"
		}
		var back box
		if err := json.Unmarshal(js, &back); err != nil {
			return "err"
		}
		return "ok " + hx([]byte(back.P))
	case "rng.key":
		if !argc(1) {
			return bad
		}
		t, ok := replayTape(a[0])
		if !ok {
			return bad
		}
		var k *bec.PrivateKey
		var err error
		withTape(t, func() { k, err = bec.NewPrivateKey(curve) })
		if t.mismatch {
			return "tape-mismatch"
		}
		if err != nil {
			return "err"
		}
		return "ok " + nhx(k.D) + " " + ptStr(k.X, k.Y)
	case "rng.seq":
		// several randomised calls in a row on one tape; every result is HELD and only printed after the last call
		// (a generator that hands out a shared buffer, or re-uses earlier randomness, shows here); stops at the first error
		if !argc(2) {
			return bad
		}
		t, ok := replayTape(a[1])
		if !ok {
			return bad
		}
		items := strings.Split(a[0], ",")
		type held struct {
			b   []byte
			k   *bec.PrivateKey
			err bool
		}
		var hs []held
		badItem := false
		withTape(t, func() {
			for _, it := range items {
				if len(it) < 1 {
					badItem = true
					return
				}
				n, err := strconv.Atoi(it[1:])
				if it[0] != 'k' && (err != nil || n < 0 || n > 100000) {
					badItem = true
					return
				}
				var h held
				switch it[0] {
				case 's':
					if n > 255 {
						badItem = true
						return
					}
					b, err := bip32.GenerateSeed(uint8(n))
					h = held{b: b, err: err != nil}
				case 'e':
					b, err := bip39.GenerateEntropy(bip39.Entropy(n))
					h = held{b: b, err: err != nil}
				case 'k':
					if len(it) != 1 {
						badItem = true
						return
					}
					k, err := bec.NewPrivateKey(curve)
					h = held{k: k, err: err != nil}
				default:
					badItem = true
					return
				}
				hs = append(hs, h)
				if h.err {
					return
				}
			}
		})
		if badItem {
			return bad
		}
		if t.mismatch {
			return "tape-mismatch"
		}
		out := "ok"
		for _, h := range hs {
			switch {
			case h.err:
				out += " e"
			case h.k != nil:
				out += " " + nhx(h.k.D) + ":" + ptStr(h.k.X, h.k.Y)
			default:
				out += " " + hx(h.b)
			}
		}
		return out
	case "rng.seed", "rng.entropy":
		if !argc(2) {
			return bad
		}
		t, ok := replayTape(a[1])
		if !ok {
			return bad
		}
		var out []byte
		var err error
		n := I(0)
		withTape(t, func() {
			if op == "rng.seed" {
				if n < 0 || n > 255 {
					err = errTape
					return
				}
				out, err = bip32.GenerateSeed(uint8(n))
			} else {
				out, err = bip39.GenerateEntropy(bip39.Entropy(n))
			}
		})
		if t.mismatch {
			return "tape-mismatch"
		}
		if err != nil {
			return "err"
		}
		return "ok " + hx(out)
	case "xk":
		if !argc(3) {
			return bad
		}
		return execXk(a[0], a[1], a[2], false)
	case "xkq":
		if !argc(3) {
			return bad
		}
		return execXk(a[0], a[1], a[2], true)
	}
	if f, ok := extraOps[op]; ok {
		res := f(a)
		// the model side appends the verdict of its independent word-level oracle to every field.* answer;
		// the property's claim is that it always holds
		if strings.HasPrefix(op, "field.") && op != "field.exact" && op != "field.contract" && strings.HasPrefix(res, "ok") {
			res += " S=1"
		}
		return res
	}
	return bad
}

var hashArena [96]byte

// extraOps: ops registered by other files of the harness (field.*, jac.*, mem.* ...)
var extraOps = map[string]func(a []string) string{}
