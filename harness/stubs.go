package main

func runMem(args []string) int  { return 0 }
func runConc(args []string) int { return 0 }
