package main

import (
	"bytes"
	"crypto/aes"
	"crypto/cipher"
	"crypto/hmac"
	"crypto/sha256"
	"crypto/sha512"
	"encoding/hex"
	"encoding/json"
	"fmt"
	"math/big"
	"strconv"
	"strings"

	"github.com/libsv/go-bk/base58"
	"github.com/libsv/go-bk/bec"
	"github.com/libsv/go-bk/bip32"
	"github.com/libsv/go-bk/bip39"
	"github.com/libsv/go-bk/crypto"
	"github.com/libsv/go-bk/envelope"
)

func init() {
	generators["C11"] = genC11
	generators["C15"] = genC15
	generators["C19"] = genC19
	generators["C20"] = genC20
}

// runWithGenTape runs f with a generating tape and returns the log.
func runWithGenTape(r *rng, failAt int, f func()) string {
	t := &tapeReader{gen: r.fork(), failAt: failAt}
	withTape(t, f)
	return tapeString(t.log)
}

// runWithChunkedTape: the reader returns at most `chunk` bytes per Read call (short reads, nil error)
func runWithChunkedTape(r *rng, chunk int, f func()) string {
	t := &tapeReader{gen: r.fork(), failAt: -1, chunk: chunk}
	withTape(t, f)
	return tapeStringC(t.log, chunk)
}

func eciesEncLine(r *rng, pub pt, msg []byte, failAt int) (string, []byte) {
	var out []byte
	tape := runWithGenTape(r, failAt, func() { out, _ = bec.Encrypt(pubOf(pub.x, pub.y), msg) })
	return fmt.Sprintf("ecies.enc %s %s %s %s", nhx(pub.x), nhx(pub.y), hx(msg), tape), out
}

// forgeECIES builds a ciphertext for `recipient` with a VALID MAC around an arbitrary body: any sender can do
// this, so everything behind the MAC check (block alignment, PKCS#7 handling) faces attacker-chosen input.
// plain != nil: the body is the CBC encryption of `plain` (len multiple of 16); else `rawBody` is used as is.
func forgeECIES(r *rng, recipient pt, plain, rawBody []byte) []byte {
	e := modN(new(big.Int).SetBytes(r.bytes(32)))
	if e.Sign() == 0 {
		e.SetInt64(11)
	}
	E := mulG(e)
	sx, _ := bec.S256().ScalarMult(recipient.x, recipient.y, e.Bytes())
	dk := sha512.Sum512(pad32(sx.Bytes()))
	keyE, keyM := dk[:32], dk[32:]
	iv := r.bytes(16)
	out := append([]byte{}, iv...)
	out = append(out, 0x02, 0xca, 0x00, 0x20)
	out = append(out, pad32(E.x.Bytes())...)
	out = append(out, 0x00, 0x20)
	out = append(out, pad32(E.y.Bytes())...)
	body := rawBody
	if plain != nil {
		blk, _ := aes.NewCipher(keyE)
		body = make([]byte, len(plain))
		cipher.NewCBCEncrypter(blk, iv).CryptBlocks(body, plain)
	}
	out = append(out, body...)
	hm := hmac.New(sha256.New, keyM)
	hm.Write(out)
	return hm.Sum(out)
}

// forgeECIESFrom: a well-formed message from an independent sender whose ephemeral PUBLIC key is the given point
// (the recipient's private key d is known to the generator, so the shared secret is d*E)
func forgeECIESFrom(r *rng, d *big.Int, E pt, msg []byte) []byte {
	sx, _ := bec.S256().ScalarMult(E.x, E.y, d.Bytes())
	dk := sha512.Sum512(pad32(sx.Bytes()))
	keyE, keyM := dk[:32], dk[32:]
	iv := r.bytes(16)
	out := append([]byte{}, iv...)
	out = append(out, 0x02, 0xca, 0x00, 0x20)
	out = append(out, pad32(E.x.Bytes())...)
	out = append(out, 0x00, 0x20)
	out = append(out, pad32(E.y.Bytes())...)
	pad := 16 - len(msg)%16
	plain := append(append([]byte{}, msg...), bytes.Repeat([]byte{byte(pad)}, pad)...)
	blk, _ := aes.NewCipher(keyE)
	body := make([]byte, len(plain))
	cipher.NewCBCEncrypter(blk, iv).CryptBlocks(body, plain)
	out = append(out, body...)
	hm := hmac.New(sha256.New, keyM)
	hm.Write(out)
	return hm.Sum(out)
}

// forged ciphertexts with a valid MAC: empty body, bodies of any length, every interesting last padding byte
func emitForgedECIES(e *emitter, r *rng, d *big.Int) {
	pub := mulG(d)
	dec := func(class string, ct []byte) { e.emit(class, "ecies.dec "+nhx(d)+" "+hx(ct)) }
	// senders whose ephemeral key is a point with rare coordinates (see rarePoints): valid messages, must decrypt
	for _, E := range rarePoints(r, 1) {
		dec("dec.rare-ephemeral", forgeECIESFrom(r, d, E, r.bytes(1+r.intn(40))))
	}
	dec("dec.forged-empty-body", forgeECIES(r, pub, nil, []byte{}))
	for _, l := range []int{1, 15, 16, 17, 31, 32, 33} {
		dec("dec.forged-rawbody", forgeECIES(r, pub, nil, r.bytes(l)))
	}
	for _, last := range []byte{0, 1, 2, 15, 16, 17, 32, 0x7f, 0x80, 0xff} {
		for _, nb := range []int{1, 2} {
			p := r.bytes(16 * nb)
			p[len(p)-1] = last
			dec("dec.forged-padding", forgeECIES(r, pub, p, nil))
		}
	}
}

func genC11(e *emitter, r *rng, thorough bool) {
	nk := 4
	if thorough {
		nk = 30
	}
	keys := keyPool(r, nk)
	// several secrets held across calls (different peers, the same peer twice, both directions)
	for i := 0; i+2 < len(keys); i++ {
		var items []string
		for j := 0; j < 5; j++ {
			d := keys[(i+j)%len(keys)]
			q := mulG(keys[(i+2*j+1)%len(keys)])
			items = append(items, nhx(d)+":"+nhx(q.x)+":"+nhx(q.y))
		}
		items = append(items, items[0])
		e.emit("ecdh.seq", "ecdh.seq "+strings.Join(items, ";"))
	}
	// pairs (d1, B), (d2, C) with bytes(d1)||bytes(x(B)) = bytes(d2)||bytes(x(C)) (d2 = d1*256 + first byte of x(B),
	// x(C) = the rest of x(B)): a cache keyed by a concatenation without separators confuses them
	for tries, found := 0, 0; tries < 400 && found < 3; tries++ {
		B := mulG(modN(new(big.Int).SetBytes(r.bytes(32))))
		xb := pad32(B.x.Bytes())
		if xb[0] == 0 {
			continue
		}
		xc := new(big.Int).SetBytes(xb[1:])
		ck, err := bec.ParsePubKey(append([]byte{2}, pad32(xc.Bytes())...), bec.S256())
		if err != nil {
			continue
		}
		found++
		d1 := new(big.Int).SetBytes(r.bytes(31))
		d1.SetBit(d1, 247, 1)
		d2 := new(big.Int).Add(new(big.Int).Lsh(d1, 8), big.NewInt(int64(xb[0])))
		d2 = modN(d2)
		if new(big.Int).Add(new(big.Int).Lsh(d1, 8), big.NewInt(int64(xb[0]))).Cmp(curveN) >= 0 {
			found--
			continue
		}
		e.emit("ecdh.seq.concat", "ecdh.seq "+nhx(d1)+":"+nhx(B.x)+":"+nhx(B.y)+";"+nhx(d2)+":"+nhx(ck.X)+":"+nhx(ck.Y)+";"+nhx(d1)+":"+nhx(B.x)+":"+nhx(B.y))
	}
	// ECDH agreement both ways
	for i := 0; i+1 < len(keys); i++ {
		a, b := keys[i], keys[i+1]
		pa, pb := mulG(a), mulG(b)
		e.emit("ecdh", fmt.Sprintf("ecdh %s %s %s", nhx(a), nhx(pb.x), nhx(pb.y)))
		e.emit("ecdh", fmt.Sprintf("ecdh %s %s %s", nhx(b), nhx(pa.x), nhx(pa.y)))
	}
	// searched pairs whose shared x has a leading zero byte
	found := 0
	want := 2
	if thorough {
		want = 10
	}
	b := keys[len(keys)-1]
	pb := mulG(b)
	var zeroPair *big.Int
	for a := int64(2); a < 4000 && found < want; a++ {
		x, _ := bec.S256().ScalarMult(pb.x, pb.y, big.NewInt(a).Bytes())
		if len(x.Bytes()) < 32 {
			found++
			zeroPair = big.NewInt(a)
			pa := mulG(big.NewInt(a))
			e.emit("ecdh.leadingzero", fmt.Sprintf("ecdh %s %s %s", nhx(big.NewInt(a)), nhx(pb.x), nhx(pb.y)))
			e.emit("ecdh.leadingzero", fmt.Sprintf("ecdh %s %s %s", nhx(b), nhx(pa.x), nhx(pa.y)))
		}
	}
	// ECIES: Go encrypts with forced tape, Lean must produce the same bytes; then decrypt
	lens := []int{0, 1, 15, 16, 17, 31, 32, 33, 100}
	for i, d := range keys {
		pub := mulG(d)
		for j, l := range lens {
			if !thorough && (i+j)%3 != 0 {
				continue
			}
			msg := r.bytes(l)
			line, ct := eciesEncLine(r, pub, msg, -1)
			e.emit(fmt.Sprintf("enc.len%d", l), line)
			if ct != nil {
				e.emit("dec.own", "ecies.dec "+nhx(d)+" "+hx(ct))
			}
		}
	}
	// receiver = the low-order-x pair: the ephemeral shared secret is random, but the recipient key is tiny
	if zeroPair != nil {
		line, ct := eciesEncLine(r, mulG(zeroPair), []byte("leading zero"), -1)
		e.emit("enc.smallkey", line)
		e.emit("dec.smallkey", "ecies.dec "+nhx(zeroPair)+" "+hx(ct))
	}
	// failing reads
	for fa := 0; fa < 3; fa++ {
		line, _ := eciesEncLine(r, mulG(keys[0]), []byte("x"), fa)
		e.emit("enc.failread", line)
	}
	// tampering: every byte position x 3 bit patterns of a ~150-byte ciphertext
	d := keys[len(keys)-2]
	pub := mulG(d)
	_, ct := eciesEncLine(r, pub, r.bytes(20), -1)
	pats := []byte{0x01, 0x80, 0xff}
	for pos := 0; pos < len(ct); pos++ {
		for pi, pat := range pats {
			if !thorough && (pos+pi)%2 != 0 && pos > 90 && pos < len(ct)-34 {
				continue
			}
			x := append([]byte{}, ct...)
			x[pos] ^= pat
			e.emit("dec.tamper", "ecies.dec "+nhx(d)+" "+hx(x))
		}
	}
	// negated ephemeral Y (same shared x!), truncation / extension, wrong keys
	{
		x := append([]byte{}, ct...)
		y := new(big.Int).SetBytes(x[54:86])
		copy(x[54:86], pad32(new(big.Int).Sub(curveP, y).Bytes()))
		e.emit("dec.negY", "ecies.dec "+nhx(d)+" "+hx(x))
	}
	for _, k := range []int{1, 15, 16, 32, 33} {
		if len(ct) > k {
			e.emit("dec.trunc", "ecies.dec "+nhx(d)+" "+hx(ct[:len(ct)-k]))
			e.emit("dec.trunc-front", "ecies.dec "+nhx(d)+" "+hx(ct[k:]))
		}
		e.emit("dec.extend", "ecies.dec "+nhx(d)+" "+hx(append(append([]byte{}, ct...), r.bytes(k)...)))
	}
	// bytes INSERTED (1..17, 32, 33 of them) at every structural boundary of a valid message — after the IV, after the
	// header fields, after the key, between cipher blocks, between the last block and the tag — and removed there
	for _, pos := range []int{0, 16, 18, 20, 52, 54, 86, 102, len(ct) - 48, len(ct) - 32, len(ct) - 31, len(ct) - 16} {
		if pos < 0 || pos > len(ct) {
			continue
		}
		for _, k := range []int{1, 2, 8, 15, 16, 17, 32, 33} {
			x := append(append(append([]byte{}, ct[:pos]...), r.bytes(k)...), ct[pos:]...)
			e.emit("dec.insert", "ecies.dec "+nhx(d)+" "+hx(x))
			z := append(append(append([]byte{}, ct[:pos]...), make([]byte, k)...), ct[pos:]...)
			e.emit("dec.insert-zeros", "ecies.dec "+nhx(d)+" "+hx(z))
			if pos+k <= len(ct) {
				e.emit("dec.remove", "ecies.dec "+nhx(d)+" "+hx(append(append([]byte{}, ct[:pos]...), ct[pos+k:]...)))
			}
		}
	}
	for l := 0; l <= 140; l += 7 {
		e.emit("dec.short", "ecies.dec "+nhx(d)+" "+hx(r.bytes(l)))
	}
	for _, l := range []int{133, 134, 135, 149, 150, 151} {
		x := r.bytes(l)
		if l >= 86 {
			copy(x[16:], []byte{0x02, 0xca, 0x00, 0x20})
			copy(x[20:], pad32(pub.x.Bytes()))
			copy(x[52:], []byte{0x00, 0x20})
			copy(x[54:], pad32(pub.y.Bytes()))
		}
		e.emit("dec.forged-header", "ecies.dec "+nhx(d)+" "+hx(x))
	}
	emitForgedECIES(e, r, d)
	e.emit("dec.wrongkey", "ecies.dec "+nhx(new(big.Int).Add(d, big.NewInt(1)))+" "+hx(ct))
	e.emit("dec.wrongkey", "ecies.dec "+nhx(keys[0])+" "+hx(ct))
	// K1: the negated key decrypts (x-only ECDH) — the property says a different key must fail
	e.emit("expect-err:negated-key", "ecies.dec "+nhx(new(big.Int).Sub(curveN, d))+" "+hx(ct))
	// bad PKCS#7 padding under a valid MAC cannot be produced without the key material; produce it with it:
	// (covered by the model's removePKCSPadding on tampered-but-reMACed ciphertexts in thorough tier)
	// AES-CFB helper: all key sizes, lengths 0..50
	for _, kl := range []int{16, 24, 32} {
		key := r.bytes(kl)
		blk, _ := aes.NewCipher(key)
		for l := 0; l <= 50; l++ {
			if !thorough && l > 18 && l%7 != 0 {
				continue
			}
			txt := r.bytes(l)
			var out []byte
			tape := runWithGenTape(r, -1, func() { out, _ = crypto.Encrypt(blk, txt) })
			e.emit(fmt.Sprintf("cfb.enc.k%d", kl), fmt.Sprintf("cfb.enc %s %s %s", hx(key), hx(txt), tape))
			if out != nil {
				e.emit("cfb.dec.own", "cfb.dec "+hx(key)+" "+hx(out))
				if l > 0 {
					x := append([]byte{}, out...)
					x[r.intn(len(x))] ^= 1 << uint(r.intn(8))
					e.emit("cfb.dec.tamper", "cfb.dec "+hx(key)+" "+hx(x))
				}
			}
		}
		for l := 0; l <= 20; l++ {
			e.emit("cfb.dec.short", "cfb.dec "+hx(key)+" "+hx(r.bytes(l)))
		}
		// ciphertexts whose CFB plaintext is a CHOSEN text that is not (quite) base64: stray and misplaced '=', lengths that
		// are not a multiple of four, line breaks, characters outside the alphabet (built with the standard library's CFB)
		for _, txt := range []string{"AAAA=", "QUJDREVG=", "QUJDREVG\n=", "QUJDREVG==", "A", "AA", "AAA", "=", "==", "===", "====", "A===", "AA=A", "AAA=A",
			"QUJD\nREVG", "QUJD REVG", "QUJD\r\nREVG", "QUJD-REV", "QUJD_REV", "QUJDREV", "QUJDRE", "QUJDR", "QQ==", "QR==", "QUI=", "QUJ=", "\xff\xff\xff\xff", ""} {
			iv := r.bytes(16)
			ct := make([]byte, len(txt))
			cipher.NewCFBEncrypter(blk, iv).XORKeyStream(ct, []byte(txt))
			e.emit("cfb.dec.chosen-text", "cfb.dec "+hx(key)+" "+hx(append(append([]byte{}, iv...), ct...)))
		}
		tape := runWithGenTape(r, 0, func() { _, _ = crypto.Encrypt(blk, []byte("abc")) })
		e.emit("cfb.enc.failread", fmt.Sprintf("cfb.enc %s %s %s", hx(key), hx([]byte("abc")), tape))
	}
}

func genC19(e *emitter, r *rng, thorough bool) {
	n := 60
	if thorough {
		n = 1000
	}
	// several encryptions to one recipient in a row (the ephemeral key must be fresh EVERY time)
	for i := 0; i < 4; i++ {
		pub := mulG(big.NewInt(int64(1000 + i)))
		var msgs [][]byte
		var mh []string
		for j := 0; j < 3+r.intn(3); j++ {
			m := r.bytes(1 + r.intn(40))
			msgs = append(msgs, m)
			mh = append(mh, hx(m))
		}
		tape := runWithGenTape(r, -1, func() {
			for _, m := range msgs {
				if _, err := bec.Encrypt(pubOf(pub.x, pub.y), m); err != nil {
					return
				}
			}
		})
		e.emit("ecies.seq", fmt.Sprintf("ecies.seq %s %s %s %s", nhx(pub.x), nhx(pub.y), strings.Join(mh, ","), tape))
	}
	// several generating calls in a row, all results held until the end (freshness ACROSS calls)
	for i := 0; i < n/3; i++ {
		var items []string
		m := 2 + r.intn(5)
		for j := 0; j < m; j++ {
			switch r.intn(4) {
			case 0:
				items = append(items, "k")
			case 1, 2:
				items = append(items, fmt.Sprintf("s%d", 16+r.intn(49)))
			default:
				items = append(items, fmt.Sprintf("e%d", []int{128, 160, 192, 224, 256}[r.intn(5)]))
			}
		}
		if i%7 == 3 {
			items = append(items, []string{"s15", "s65", "e127", "e288", "s0"}[r.intn(5)], "s32")
		}
		if i%5 == 0 { // the same request repeated: equal-length results must still be independent
			items = []string{"s32", "s32", "s32", "s64", "s16"}
		}
		if i%5 == 1 {
			items = []string{"e256", "e256", "e128", "e256"}
		}
		tape := runWithGenTape(r, -1, func() {
			for _, it := range items {
				var err error
				switch it[0] {
				case 'k':
					_, err = bec.NewPrivateKey(bec.S256())
				case 's':
					v, _ := strconv.Atoi(it[1:])
					_, err = bip32.GenerateSeed(uint8(v))
				default:
					v, _ := strconv.Atoi(it[1:])
					_, err = bip39.GenerateEntropy(bip39.Entropy(v))
				}
				if err != nil {
					return
				}
			}
		})
		e.emit("rng.seq", "rng.seq "+strings.Join(items, ",")+" "+tape)
	}
	for i := 0; i < n; i++ {
		// interleaved randomised calls on one generating tape; each emitted op carries exactly the reads it saw
		switch i % 6 {
		case 0:
			tape := runWithGenTape(r, -1, func() { _, _ = bec.NewPrivateKey(bec.S256()) })
			e.emit("rng.key", "rng.key "+tape)
		case 1:
			l := r.intn(80)
			tape := runWithGenTape(r, -1, func() { _, _ = bip32.GenerateSeed(uint8(l)) })
			e.emit("rng.seed", fmt.Sprintf("rng.seed %d %s", l, tape))
		case 2:
			bits := []int{0, 32, 96, 127, 128, 129, 160, 192, 224, 256, 257, 288, 512}[r.intn(13)]
			tape := runWithGenTape(r, -1, func() { _, _ = bip39.GenerateEntropy(bip39.Entropy(bits)) })
			e.emit("rng.entropy", fmt.Sprintf("rng.entropy %d %s", bits, tape))
		case 3:
			line, _ := eciesEncLine(r, mulG(big.NewInt(int64(7+i))), r.bytes(r.intn(40)), -1)
			e.emit("rng.ecies", line)
		case 4:
			key := r.bytes([]int{16, 24, 32}[r.intn(3)])
			blk, _ := aes.NewCipher(key)
			txt := r.bytes(r.intn(40))
			tape := runWithGenTape(r, -1, func() { _, _ = crypto.Encrypt(blk, txt) })
			e.emit("rng.cfb", fmt.Sprintf("cfb.enc %s %s %s", hx(key), hx(txt), tape))
		case 5:
			pl, _ := json.Marshal(map[string]interface{}{"n": i, "s": string(randB58(r, 5))})
			tape := runWithGenTape(r, -1, func() { _, _ = envelope.NewJSONEnvelope(json.RawMessage(pl)) })
			e.emit("rng.env", "env.new "+hx(pl)+" "+tape)
		}
	}
	// short reads: a reader that hands out at most 1 / 7 / 8 / 15 / 31 bytes per Read call
	for _, ch := range []int{1, 7, 8, 15, 31} {
		tape := runWithChunkedTape(r, ch, func() { _, _ = bec.NewPrivateKey(bec.S256()) })
		e.emit("rng.key.short", "rng.key "+tape)
		tape = runWithChunkedTape(r, ch, func() { _, _ = bip32.GenerateSeed(40) })
		e.emit("rng.seed.short", "rng.seed 40 "+tape)
		tape = runWithChunkedTape(r, ch, func() { _, _ = bip39.GenerateEntropy(256) })
		e.emit("rng.entropy.short", "rng.entropy 256 "+tape)
		pub := mulG(big.NewInt(int64(1000 + ch)))
		msg := r.bytes(20)
		tape = runWithChunkedTape(r, ch, func() { _, _ = bec.Encrypt(pubOf(pub.x, pub.y), msg) })
		e.emit("rng.ecies.short", fmt.Sprintf("ecies.enc %s %s %s %s", nhx(pub.x), nhx(pub.y), hx(msg), tape))
		key := r.bytes(32)
		blk, _ := aes.NewCipher(key)
		tape = runWithChunkedTape(r, ch, func() { _, _ = crypto.Encrypt(blk, msg) })
		e.emit("rng.cfb.short", fmt.Sprintf("cfb.enc %s %s %s", hx(key), hx(msg), tape))
		pl := []byte(`{"short":true}`)
		tape = runWithChunkedTape(r, ch, func() { _, _ = envelope.NewJSONEnvelope(json.RawMessage(pl)) })
		e.emit("rng.env.short", "env.new "+hx(pl)+" "+tape)
	}
	// many calls in ONE process on one tape: a pool of randomness that is filled once and runs dry
	{
		key := r.bytes(16)
		blk, _ := aes.NewCipher(key)
		nMany := 300
		if thorough {
			nMany = 1500
		}
		for i := 0; i < nMany; i++ {
			txt := []byte("same plaintext")
			tape := runWithGenTape(r, -1, func() { _, _ = crypto.Encrypt(blk, txt) })
			if i%10 == 0 || i > 250 {
				e.emit("rng.cfb.many", fmt.Sprintf("cfb.enc %s %s %s", hx(key), hx(txt), tape))
			}
		}
	}
	// failing reads at each position
	for fa := 0; fa < 2; fa++ {
		tape := runWithGenTape(r, fa, func() { _, _ = bec.NewPrivateKey(bec.S256()) })
		e.emit("rng.key.fail", "rng.key "+tape)
		tape = runWithGenTape(r, fa, func() { _, _ = bip32.GenerateSeed(32) })
		e.emit("rng.seed.fail", "rng.seed 32 "+tape)
		tape = runWithGenTape(r, fa, func() { _, _ = bip39.GenerateEntropy(256) })
		e.emit("rng.entropy.fail", "rng.entropy 256 "+tape)
		if fa == 0 {
			// the first read fails, for every size: which error the failing source hands out (io.EOF, io.ErrUnexpectedEOF,
			// a plain error) is chosen by the text of the line, so a dozen lines meet all three
			for n := 16; n <= 64; n += 4 {
				nn := uint8(n)
				tape = runWithGenTape(r, 0, func() { _, _ = bip32.GenerateSeed(nn) })
				e.emit("rng.seed.fail-first", fmt.Sprintf("rng.seed %d %s", n, tape))
			}
			for _, bits := range []int{128, 160, 192, 224, 256} {
				b := bits
				tape = runWithGenTape(r, 0, func() { _, _ = bip39.GenerateEntropy(bip39.Entropy(b)) })
				e.emit("rng.entropy.fail-first", fmt.Sprintf("rng.entropy %d %s", bits, tape))
			}
		}
		pl := []byte(`{"a":1}`)
		tape = runWithGenTape(r, fa, func() { _, _ = envelope.NewJSONEnvelope(json.RawMessage(pl)) })
		e.emit("rng.env.fail", "env.new "+hx(pl)+" "+tape)
	}
	// rejected candidates: a tape whose first 32-byte reads are 0 / >= N (hand-made tapes)
	zero := hx(make([]byte, 32))
	ff := strings.Repeat("ff", 32)
	nHex := hx(pad32(curveN.Bytes()))
	good := hx(pad32(big.NewInt(424242).Bytes()))
	for _, t := range []string{zero + "," + good, ff + "," + good, nHex + "," + good, zero + "," + ff + "," + nHex + "," + good,
		"00," + zero + "," + good, zero + ",!", good, "00," + good} {
		e.emit("rng.key.reject", "rng.key "+t)
	}
	// signing is independent of the RNG state: same (d,h) before/after consumption (sign op checks determinism itself)
	for i := 0; i < 10; i++ {
		d := new(big.Int).Add(big.NewInt(1000), big.NewInt(int64(i)))
		h := r.bytes(32)
		e.emit("sign.before", "sign "+nhx(d)+" "+hx(h))
		_ = runWithGenTape(r, -1, func() { _, _ = bec.NewPrivateKey(bec.S256()) })
		e.emit("sign.after", "sign "+nhx(d)+" "+hx(h))
	}
}

// random JSON values with awkward strings
func randJSON(r *rng, depth int) interface{} {
	strs := []string{"", "plain", `he said "hi"`, `back\slash`, `\\double`, "tab\tnl\n", "ctl\x01\x1f", "<script>&amp;</script>", "é ü 日本", "  ",
		`"`, `\`, `\"`, "a/b", "emoji 😀", "nul\x00", "�", string([]byte{0xff, 0xfe})}
	switch r.intn(7 - depth) {
	case 0:
		return r.intn(1000000) - 500000
	case 1:
		return float64(r.intn(1000)) / 8
	case 2:
		return r.coin(1, 2)
	case 3:
		return nil
	case 4, 5:
		return strs[r.intn(len(strs))] + strs[r.intn(len(strs))]
	default:
		if depth >= 3 {
			return strs[r.intn(len(strs))]
		}
		if r.coin(1, 2) {
			m := map[string]interface{}{}
			for i := 0; i < 1+r.intn(3); i++ {
				m[strs[r.intn(len(strs))]+fmt.Sprint(i)] = randJSON(r, depth+1)
			}
			return m
		}
		var a []interface{}
		for i := 0; i < r.intn(4); i++ {
			a = append(a, randJSON(r, depth+1))
		}
		return a
	}
}

func genC20(e *emitter, r *rng, thorough bool) {
	n := 40
	if thorough {
		n = 1200
	}
	// own envelopes
	for i := 0; i < n; i++ {
		v := randJSON(r, 0)
		pl, err := json.Marshal(v)
		if err != nil {
			continue
		}
		tape := runWithGenTape(r, -1, func() { _, _ = envelope.NewJSONEnvelope(json.RawMessage(pl)) })
		e.emit("new", "env.new "+hx(pl)+" "+tape)
	}
	// raw payloads (json.RawMessage / custom Marshaler) that are NOT valid UTF-8: every class of ill-formed sequence
	// of Go's unicode/utf8 table inside a JSON string, with and without backslashes next to it (D14)
	{
		bad := [][]byte{{0xff}, {0xfe, 0xff}, {0x80}, {0xbf}, {0xc0, 0x80}, {0xc1, 0xbf}, {0xc2}, {0xc2, 0x41}, {0xe0, 0x80, 0x80}, {0xe0, 0x9f, 0xbf},
			{0xe0, 0xa0}, {0xed, 0xa0, 0x80}, {0xed, 0xbf, 0xbf}, {0xef, 0xbf}, {0xf0, 0x80, 0x80, 0x80}, {0xf0, 0x8f, 0xbf, 0xbf}, {0xf0, 0x90, 0x80},
			{0xf4, 0x90, 0x80, 0x80}, {0xf5, 0x80, 0x80, 0x80}, {0xf8, 0x88, 0x80, 0x80, 0x80}, {0xe9}, {0xe2, 0x82}, {0xf0, 0x9f, 0x98}}
		good := [][]byte{{0xc2, 0x80}, {0xdf, 0xbf}, {0xe0, 0xa0, 0x80}, {0xed, 0x9f, 0xbf}, {0xee, 0x80, 0x80}, {0xef, 0xbf, 0xbd}, {0xf0, 0x90, 0x80, 0x80}, {0xf4, 0x8f, 0xbf, 0xbf}}
		for i, seq := range append(bad, good...) {
			for _, ctx := range []string{"{\"a\":\"x%sy\"}", "\"%s\"", "{\"p\":\"C:\\\\t%s\\\\\",\"q\":[1,\"%s%s\"]}"} {
				pl := []byte(strings.Replace(ctx, "%s", string(seq), -1))
				tape := runWithGenTape(r, -1, func() { _, _ = envelope.NewJSONEnvelope(json.RawMessage(pl)) })
				cl := "new.raw-illformed"
				if i >= len(bad) {
					cl = "new.raw-wellformed-boundary"
				}
				e.emit(cl, "env.new "+hx(pl)+" "+tape)
			}
		}
		for i := 0; i < n/4; i++ { // random bytes >= 0x80 sprinkled into a marshalled value
			pl, err := json.Marshal(randJSON(r, 0))
			if err != nil || len(pl) < 3 {
				continue
			}
			x := append([]byte{}, pl...)
			for j := 0; j < 1+r.intn(3); j++ {
				pos := r.intn(len(x))
				if x[pos] >= 0x80 || (x[pos] >= 'a' && x[pos] <= 'z') { // inside strings (keys or values) only
					x[pos] = byte(0x80 + r.intn(128))
				}
			}
			if !json.Valid(x) { // a keyword or an escape was hit: not marshalable, outside the property
				continue
			}
			tape := runWithGenTape(r, -1, func() { _, _ = envelope.NewJSONEnvelope(json.RawMessage(x)) })
			e.emit("new.raw-random-high-bytes", "env.new "+hx(x)+" "+tape)
		}
	}
	// payloads json.Marshal refuses (an error — and no trace may be left for the envelopes made afterwards), each
	// followed by ordinary ones
	for i, badpl := range []string{"{", "{\"a\":}", "nul", "[1,2", "\"unterminated", "{\"a\":1}}", ""} {
		tape := runWithGenTape(r, -1, func() { _, _ = envelope.NewJSONEnvelope(json.RawMessage(badpl)) })
		e.emit("new.unmarshalable", "env.new.bad "+hx([]byte(badpl))+" "+tape)
		for j := 0; j < 2; j++ {
			pl, _ := json.Marshal(map[string]int{"after": i*10 + j})
			tape := runWithGenTape(r, -1, func() { _, _ = envelope.NewJSONEnvelope(json.RawMessage(pl)) })
			e.emit("new.after-failure", "env.new "+hx(pl)+" "+tape)
		}
	}
	// the D10 witness
	{
		pl, _ := json.Marshal(map[string]string{"a": `he said "hi"`})
		tape := runWithGenTape(r, -1, func() { _, _ = envelope.NewJSONEnvelope(json.RawMessage(pl)) })
		e.emit("new.escapes", "env.new "+hx(pl)+" "+tape)
	}
	// encoding/json on strings (the model of the envelope's own round trip, Model/JsonString): every byte, every escape,
	// every class of ill-formed UTF-8, surrogate escapes, literals the decoder must reject
	{
		for c := 0; c < 256; c++ {
			e.emit("json.quote.byte", "json.quote "+hx([]byte{byte(c)}))
			e.emit("json.quote.byte-ctx", "json.quote "+hx([]byte{'a', byte(c), 'b'}))
			e.emit("json.unquote.byte", "json.unquote "+hx([]byte{'"', byte(c), '"'}))
			e.emit("json.unquote.escape", "json.unquote "+hx([]byte{'"', '\\', byte(c), '"'}))
		}
		seqs := [][]byte{{0xc2, 0x80}, {0xdf, 0xbf}, {0xe0, 0xa0, 0x80}, {0xe2, 0x80, 0xa8}, {0xe2, 0x80, 0xa9}, {0xe2, 0x80, 0xaa}, {0xed, 0x9f, 0xbf}, {0xee, 0x80, 0x80}, {0xef, 0xbf, 0xbd},
			{0xf0, 0x90, 0x80, 0x80}, {0xf4, 0x8f, 0xbf, 0xbf}, {0xff}, {0xc0, 0x80}, {0xc2}, {0xe0, 0x9f, 0xbf}, {0xed, 0xa0, 0x80}, {0xf0, 0x8f, 0xbf, 0xbf}, {0xf4, 0x90, 0x80, 0x80},
			{0xe2, 0x82}, {0xf0, 0x9f, 0x98}, {0xf5, 0x80, 0x80, 0x80}}
		for _, q := range seqs {
			e.emit("json.quote.seq", "json.quote "+hx(q))
			e.emit("json.roundtrip.seq", "json.roundtrip "+hx(append(append([]byte("x\\"), q...), '"')))
			e.emit("json.unquote.seq", "json.unquote "+hx(append(append([]byte{'"'}, q...), '"')))
		}
		for _, u := range []string{`\u0041`, `\u00e9`, `\u20ac`, `\ud83d\ude00`, `\ud83d`, `\ude00`, `\ud83dx`, `\ud83d\u0041`, `\udbff\udfff`, `\ud800\udc00`, `\uD83D\uDE00`, `\u004`, `\u00zz`, `\u`, `\U0041`,
			`\ud83d\ud83d\ude00`, `\u0000`, `\u001f`, `\u2028`, `\ufffd`, `\uffff`} {
			e.emit("json.unquote.u", "json.unquote "+hx([]byte(`"`+u+`"`)))
			e.emit("json.unquote.u-ctx", "json.unquote "+hx([]byte(`"a`+u+`b\n"`)))
		}
		for _, lit := range []string{`""`, `"`, `"a"b"`, `"\"`, `"\\"`, `"\\\"`, "\"\n\"", "\"\t\"", `"a\/b"`, `"\b\f\n\r\t"`, `"\'"`, `"\x41"`, `"\0"`} {
			e.emit("json.unquote.lit", "json.unquote "+hx([]byte(lit)))
		}
		for i := 0; i < n; i++ {
			b := r.bytes(r.intn(24))
			for j := range b {
				switch r.intn(5) {
				case 0:
					b[j] = byte(0x20 + r.intn(0x5f))
				case 1:
					b[j] = []byte("\"\\<>&\n\t\x00\x1f\x7f/")[r.intn(11)]
				}
			}
			e.emit("json.quote.rand", "json.quote "+hx(b))
			e.emit("json.roundtrip.rand", "json.roundtrip "+hx(b))
			lit := append(append([]byte{'"'}, b...), '"')
			e.emit("json.unquote.rand", "json.unquote "+hx(lit))
		}
	}
	// constructed signatures whose nonce point has x in [N, P)
	nc := 6
	if thorough {
		nc = 40
	}
	genC20cons(e, r, nc)
	// envelopes built directly (not through JSON) whose payload is not valid UTF-8, with backslashes next to it:
	// the canonical bytes are the payload BYTES without 0x5c, whatever their encoding
	{
		d := big.NewInt(424242)
		priv := privOf(d)
		pkHex := hex.EncodeToString(priv.PubKey().SerialiseCompressed())
		for _, pl := range []string{"{\"a\":\"x\xffy\\\\z\"}", "\\\xff\\", "caf\xe9\\n", "\xef\xbf\xbd\\\xff", "\xed\xa0\x80\\", "\xf0\x9f\\\x98\x80", "\xc0\x80\\"} {
			for _, mime := range []string{"application/json", "text/plain"} {
				signed := []byte(pl)
				if mime == "application/json" {
					signed = []byte(strings.Replace(pl, `\`, "", -1))
				}
				sig, err := priv.Sign(crypto.Sha256(signed))
				if err != nil {
					continue
				}
				e.emit("valid.illformed-utf8", fmt.Sprintf("env.valid %s %s %s %s", hx([]byte(pl)), hx([]byte(hex.EncodeToString(sig.Serialise()))), hx([]byte(pkHex)), hx([]byte(mime))))
				// the same signature must NOT validate the payload with the ill-formed bytes replaced by U+FFFD
				repl := string([]rune(pl))
				if repl != pl {
					e.emit("alter.illformed-to-fffd", fmt.Sprintf("env.valid %s %s %s %s", hx([]byte(repl)), hx([]byte(hex.EncodeToString(sig.Serialise()))), hx([]byte(pkHex)), hx([]byte(mime))))
				}
			}
		}
	}
	// envelopes whose signed bytes are EMPTY (a valid signature over SHA-256 of the empty string): the empty payload, a JSON
	// payload made of backslashes only, base64 of nothing (also with line breaks, which the decoder skips)
	{
		priv := privOf(big.NewInt(4242))
		pkHex := hex.EncodeToString(priv.PubKey().SerialiseCompressed())
		if sig, err := priv.Sign(crypto.Sha256(nil)); err == nil {
			sigHex := hex.EncodeToString(sig.Serialise())
			for _, c := range [][2]string{{"", "text/plain"}, {"", "application/json"}, {"", "base64"}, {"", ""}, {`\`, "application/json"}, {`\\\\`, "application/json"},
				{"\r\n", "base64"}, {"\n", "base64"}, {"=", "base64"}, {"====", "base64"}, {`\`, "text/plain"}, {" ", "base64"}, {" ", "text/plain"}} {
				e.emit("empty-signed-bytes", fmt.Sprintf("env.valid %s %s %s %s", hx([]byte(c[0])), hx([]byte(sigHex)), hx([]byte(pkHex)), hx([]byte(c[1]))))
			}
		}
	}
	// IsValid decision table
	mimes := []string{"application/json", "base64", "text/plain", "", ";", ";charset=utf-8", " ; q=1", "a;b", "/", " ", "application/json; charset=utf-8", "application/jsonl", "Application/JSON", "application/json ", "base64 ", "BASE64"}
	nv := 6
	if thorough {
		nv = 60
	}
	for i := 0; i < nv; i++ {
		d := new(big.Int).Add(big.NewInt(77), big.NewInt(int64(i)))
		priv := privOf(d)
		pkHex := hex.EncodeToString(priv.PubKey().SerialiseCompressed())
		// the same key parsed by the caller for its own use beforehand (the harness edits what it is given back); repeated so
		// that every shard has done so before the envelopes of this key are validated
		for t := 0; t < 32; t++ {
			e.emit("key.parsed-by-caller-before", "parsepub "+hx(priv.PubKey().SerialiseCompressed()))
		}
		for _, mime := range mimes {
			var payload string
			var signed []byte
			switch mime {
			case "application/json":
				pl, _ := json.Marshal(randJSON(r, 0))
				payload = string(pl)
				signed = []byte(strings.Replace(payload, `\`, "", -1))
			case "base64":
				raw := r.bytes(r.intn(40))
				payload = stdB64(raw)
				signed = raw
			default:
				payload = string(randB58(r, r.intn(30))) + `\x` + `{"p":"C:\\tmp"}`
				signed = []byte(payload)
			}
			sig, err := priv.Sign(crypto.Sha256(signed))
			if err != nil {
				continue
			}
			sigHex := hex.EncodeToString(sig.Serialise())
			ev := func(class, p, s, k, m string) {
				sf, kf := "nil", "nil"
				if s != "\x00nil" {
					sf = hx([]byte(s))
				}
				if k != "\x00nil" {
					kf = hx([]byte(k))
				}
				e.emit(class, fmt.Sprintf("env.valid %s %s %s %s", hx([]byte(p)), sf, kf, hx([]byte(m))))
			}
			ev("valid."+mime, payload, sigHex, pkHex, mime)
			for _, enc := range []string{"UTF-8", "base64", "BASE64", "Base64", "", "utf-8", "hex"} {
				e.emit("valid.encoding-field", fmt.Sprintf("env.valid %s %s %s %s %s", hx([]byte(payload)), hx([]byte(sigHex)), hx([]byte(pkHex)), hx([]byte(mime)), hx([]byte(enc))))
			}
			ev("nil.both", payload, "\x00nil", "\x00nil", mime)
			ev("nil.sig", payload, "\x00nil", pkHex, mime)
			ev("nil.key", payload, sigHex, "\x00nil", mime)
			ev("nil.sig-badkey", payload, "\x00nil", "zz", mime)
			ev("nil.key-badsig", payload, "zz", "\x00nil", mime)
			// every character of the payload altered (sampled in quick)
			for pos := 0; pos < len(payload); pos++ {
				if !thorough && pos%5 != i%5 {
					continue
				}
				b := []byte(payload)
				b[pos] ^= 0x01
				ev("alter.payload", string(b), sigHex, pkHex, mime)
			}
			// inserting backslashes never matters for application/json (they are stripped) — and always for others
			ev("alter.backslash", strings.Replace(payload, "a", `\a`, 1)+`\`, sigHex, pkHex, mime)
			// r±1, s±1, N-s twin, other key, other mime
			one := big.NewInt(1)
			for _, alt := range []*bec.Signature{{R: new(big.Int).Add(sig.R, one), S: sig.S}, {R: new(big.Int).Sub(sig.R, one), S: sig.S},
				{R: sig.R, S: new(big.Int).Add(sig.S, one)}, {R: sig.R, S: new(big.Int).Sub(sig.S, one)}} {
				ev("alter.sig", payload, hex.EncodeToString(alt.Serialise()), pkHex, mime)
			}
			// the high-S twin in lax DER (Serialise would canonicalise it back)
			twin := derOf(derInt(sig.R), derInt(new(big.Int).Sub(curveN, sig.S)))
			ev("twin", payload, hex.EncodeToString(twin), pkHex, mime)
			// lax-only encodings: unsigned integers without padding
			lax := derOf(sig.R.Bytes(), sig.S.Bytes())
			ev("lax", payload, hex.EncodeToString(lax), pkHex, mime)
			other := hex.EncodeToString(privOf(new(big.Int).Add(d, one)).PubKey().SerialiseCompressed())
			ev("alter.key", payload, sigHex, other, mime)
			ev("key.uncompressed", payload, sigHex, hex.EncodeToString(priv.PubKey().SerialiseUncompressed()), mime)
			ev("key.hybrid", payload, sigHex, hex.EncodeToString(priv.PubKey().SerialiseHybrid()), mime)
			ev("hex.upper", payload, strings.ToUpper(sigHex), strings.ToUpper(pkHex), mime)
			ev("hex.odd", payload, sigHex[1:], pkHex, mime)
			ev("hex.bad", payload, sigHex, "zz"+pkHex[2:], mime)
			ev("hex.empty", payload, "", "", mime)
			ev("key.bad", payload, sigHex, "05"+pkHex[2:], mime)
			ev("sig.bad", payload, "31"+sigHex[2:], pkHex, mime)
			if i < 2 {
				// signatures of 254..600 bytes whose length byte is near 255 (or wraps): length arithmetic in a byte
				for _, total := range []int{254, 255, 256, 257, 258, 300, 600} {
					for _, lb := range []byte{0xfe, 0xff, 0xfd, 0x00, 0x06} {
						raw := append([]byte{0x30, lb, 2, 1, 1, 2, 1, 1}, make([]byte, total-8)...)
						ev("sig.long-lengthbyte", payload, hex.EncodeToString(raw), pkHex, mime)
					}
				}
			}
			for _, m2 := range mimes {
				if m2 != mime {
					ev("alter.mime", payload, sigHex, pkHex, m2)
				}
			}
			// one envelope OBJECT validated repeatedly while its fields change (a verdict remembered in the object would show)
			e.emit("seq."+mime, fmt.Sprintf("env.seq %s %s %s %s %s", hx([]byte(payload)), hx([]byte(sigHex)), hx([]byte(pkHex)), hx([]byte(mime)),
				strings.Join([]string{"v", "p:" + hx([]byte(payload+"x")), "v", "p:" + hx([]byte(payload)), "v", "s:" + hx([]byte("zz")), "v", "s:" + hx([]byte(sigHex)), "k:" + hx([]byte(other)), "v", "k:" + hx([]byte(pkHex)), "m:" + hx([]byte("other/type")), "v"}, ",")))
			if mime == "base64" {
				ev("b64.bad", payload+"*", sigHex, pkHex, mime)
				ev("b64.newline", payload[:len(payload)/2]+"\n"+payload[len(payload)/2:], sigHex, pkHex, mime)
				// long payloads, and two padded encodings glued together with the first one ending exactly at a buffer-sized
				// offset (4 .. 8192 characters): the signature is over part1||part2, so only the strictness of the base64
				// decoding decides (a chunked/streaming decoder accepts '=' at the end of each of its chunks)
				if i < 2 {
					for _, L := range []int{4, 8, 64, 76, 512, 1024, 2048, 4096, 8192} {
						for pad := 1; pad <= 2; pad++ {
							p1, p2 := r.bytes(L/4*3-pad), r.bytes(1+r.intn(400))
							whole := append(append([]byte{}, p1...), p2...)
							sw, err := priv.Sign(crypto.Sha256(whole))
							if err != nil {
								continue
							}
							swHex := hex.EncodeToString(sw.Serialise())
							ev("b64.interior-pad", stdB64(p1)+stdB64(p2), swHex, pkHex, mime)
							ev("b64.long", stdB64(whole), swHex, pkHex, mime)
						}
					}
				}
			}
		}
	}
}

// genC20cons: envelopes carrying constructed signatures that only a complete verifier accepts
func genC20cons(e *emitter, r *rng, n int) {
	for i := 0; i < n; i++ {
		payload := "wrap-" + string(randB58(r, 3+r.intn(20)))
		mime := []string{"text/plain", "application/json", "base64"}[i%3]
		signed := []byte(payload)
		if mime == "base64" {
			raw := r.bytes(1 + r.intn(30))
			payload = stdB64(raw)
			signed = raw
		}
		hh := crypto.Sha256(signed)
		q, rr, ss, ok := consRxWrap(r, hh, int64(1+i*37))
		if !ok {
			continue
		}
		pk := hex.EncodeToString(pubOf(q.x, q.y).SerialiseCompressed())
		for ci, sv := range []*big.Int{ss, new(big.Int).Sub(curveN, ss)} {
			sig := hex.EncodeToString(derOf(derInt(rr), derInt(sv)))
			e.emit([]string{"cons.rx>=N", "cons.rx>=N.twin"}[ci], fmt.Sprintf("env.valid %s %s %s %s", hx([]byte(payload)), hx([]byte(sig)), hx([]byte(pk)), hx([]byte(mime))))
		}
		bad := hex.EncodeToString(derOf(derInt(new(big.Int).Add(rr, big.NewInt(1))), derInt(ss)))
		e.emit("cons.rx>=N.r+1", fmt.Sprintf("env.valid %s %s %s %s", hx([]byte(payload)), hx([]byte(bad)), hx([]byte(pk)), hx([]byte(mime))))
	}
}

func stdB64(b []byte) string {
	const tbl = "ABCDEFGHIJKLMNOPQRSTUVWXYZabcdefghijklmnopqrstuvwxyz0123456789+/"
	var sb strings.Builder
	for i := 0; i < len(b); i += 3 {
		var v uint32
		n := 0
		for j := 0; j < 3; j++ {
			v <<= 8
			if i+j < len(b) {
				v |= uint32(b[i+j])
				n++
			}
		}
		for j := 0; j < 4; j++ {
			if j <= n {
				sb.WriteByte(tbl[(v>>uint(18-6*j))&63])
			} else {
				sb.WriteByte('=')
			}
		}
	}
	return sb.String()
}

// C15: every decoder on hostile input; the model never yields `panic`.
func genC15(e *emitter, r *rng, thorough bool) {
	n := 150
	if thorough {
		n = 4000
	}
	randLen := func() int {
		switch r.intn(6) {
		case 0:
			return r.intn(4)
		case 1:
			return []int{8, 32, 33, 37, 38, 64, 65, 66, 82, 118, 134, 150}[r.intn(12)]
		default:
			return r.intn(300)
		}
	}
	valid := pubOf(mulG(big.NewInt(99)).x, mulG(big.NewInt(99)).y)
	der := derOf(derInt(randScalarLen(r, 32)), derInt(randScalarLen(r, 32)))
	_, ct := eciesEncLine(r, mulG(big.NewInt(99)), []byte("hello"), -1)
	m, _ := bip32.NewMaster(make([]byte, 32), nets[0].params)
	xs := m.String()
	mutate := func(b []byte) []byte {
		x := append([]byte{}, b...)
		switch r.intn(5) {
		case 0:
			if len(x) > 0 {
				x[r.intn(len(x))] = byte(r.intn(256))
			}
		case 1:
			if len(x) > 0 {
				x = x[:r.intn(len(x))]
			}
		case 2:
			x = append(x, r.bytes(1+r.intn(4))...)
		case 3:
			if len(x) > 2 {
				x[1] = byte(r.intn(256))
			}
		default:
			if len(x) > 0 {
				x[r.intn(len(x))] ^= 1 << uint(r.intn(8))
			}
		}
		return x
	}
	// every method of a key object AFTER it was wiped, each asked twice (an error remembered by the first call must still
	// be an error, not a nil dereference, the second time), for private, neutered and re-parsed keys, wiped before and
	// after first use
	for i := 0; i < 4; i++ {
		root := "seed:" + hx(r.bytes(32)) + ":" + fmt.Sprint(r.intn(len(nets)))
		path := hx([]byte("0/1"))
		e.emit("xk.after-zero.public", xkLine(root, []string{"n0", "c1:0", "z1", "c1:1", "c1:1", "p1:" + path, "d1:" + path, "n1", "t1", "s1:1", "c1:2", "z1", "c1:3"}))
		e.emit("xk.after-zero.public-unused", xkLine(root, []string{"n0", "z1", "c1:0", "c1:0", "d1:" + path, "d1:" + path, "n1", "t1"}))
		e.emit("xk.after-zero.private", xkLine(root, []string{"c0:2147483648", "z0", "c0:0", "c0:0", "c0:2147483648", "p0:" + path, "d0:" + path, "n0", "n0", "t0", "s0:1", "c0:1"}))
		e.emit("xk.after-zero.reparsed", xkLine(root, []string{"n0", "t1", "c2:0", "z2", "c2:0", "c2:1", "d2:" + path, "t0", "z3", "c3:0", "c3:0", "n3"}))
		e.emit("xk.after-zero.quiet", "xkq"+xkLine(root, []string{"n0", "c1:0", "z1", "c1:1", "c1:1", "d1:" + path})[2:])
	}
	// the structured scalar pool through the entry points that take a scalar of any length
	for _, k := range scalarBytesPool(r, 2) {
		e.emit("privbytes.pool", "privbytes "+hx(k))
		e.emit("sbmul.pool", "curve.sbmul "+hx(k))
	}
	// every short payload length WITH a checksum that is right for it (the empty payload included): decoders that
	// index into the payload after the checksum test must still answer with an error, never panic
	for l := 0; l <= 6; l++ {
		for t := 0; t < 3; t++ {
			pl := r.bytes(l)
			if t == 1 {
				pl = make([]byte, l)
			}
			if t == 2 && l > 0 {
				pl[0] = 0x80
			}
			x := []byte(base58.Encode(append(append([]byte{}, pl...), crypto.Sha256d(pl)[:4]...)))
			e.emit(fmt.Sprintf("b58c.short-goodck%d", l), "b58.cdec "+hx(x))
			e.emit(fmt.Sprintf("wif.short-goodck%d", l), "wif.dec "+hx(x))
			e.emit(fmt.Sprintf("xkey.short-goodck%d", l), xkLine("str:"+hx(x), nil))
		}
	}
	for i := 0; i < n; i++ {
		raw := r.bytes(randLen())
		e.emit("parsepub.fuzz", "parsepub "+hx(raw))
		e.emit("parsepub.mut", "parsepub "+hx(mutate(valid.SerialiseUncompressed())))
		e.emit("parsepub.mut", "parsepub "+hx(mutate(valid.SerialiseCompressed())))
		e.emit("der.fuzz", "der.parse "+hx(raw))
		e.emit("der.fuzz", "der.lax "+hx(raw))
		e.emit("der.mut", "der.parse "+hx(mutate(der)))
		e.emit("der.mut", "der.lax "+hx(mutate(der)))
		e.emit("recover.fuzz", "compact.recover "+hx(raw)+" "+hx(r.bytes(r.intn(40))))
		e.emit("recover.fuzz65", "compact.recover "+hx(r.bytes(65))+" "+hx(r.bytes(32)))
		e.emit("ecies.fuzz", "ecies.dec "+nhx(big.NewInt(99))+" "+hx(raw))
		e.emit("ecies.mut", "ecies.dec "+nhx(big.NewInt(99))+" "+hx(mutate(ct)))
		e.emit("privbytes.fuzz", "privbytes "+hx(r.bytes(r.intn(33))))
		e.emit("b58.fuzz", "b58.dec "+hx(raw))
		e.emit("b58c.fuzz", "b58.cdec "+hx(raw))
		e.emit("b58c.fuzz", "b58.cdec "+hx(randB58(r, r.intn(12))))
		e.emit("wif.fuzz", "wif.dec "+hx(raw))
		e.emit("wif.fuzz", "wif.dec "+hx(randB58(r, 45+r.intn(10))))
		e.emit("xkey.fuzz", xkLine("str:"+hx(raw), nil))
		e.emit("xkey.mut", xkLine("str:"+hx(mutate([]byte(xs))), []string{"c0:0"}))
		e.emit("xkey.fuzz82", xkLine("str:"+hx([]byte(base58.Encode(r.bytes(82)))), nil))
		e.emit("path.fuzz", xkLine("seed:"+hx(make([]byte, 32))+":0", []string{"p0:" + hx(r.bytes(1+r.intn(12)))}))
		e.emit("dnum.fuzz", "dpath.back "+hx(r.bytes(r.intn(30))))
		e.emit("dnum.fuzz", "dpath.back "+hx([]byte(fmt.Sprintf("%d/%d/%d", r.next()>>uint(r.intn(40)), r.next()>>uint(r.intn(64)), r.intn(10)))))
		e.emit("mnseed.fuzz", "bip39.seed "+hx(raw)+" -")
		e.emit("mn.fuzz", "bip39.mn "+hx(r.bytes(r.intn(44)))+" "+hx(r.bytes(r.intn(6))))
		key := r.bytes([]int{16, 24, 32}[r.intn(3)])
		e.emit("cfb.fuzz", "cfb.dec "+hx(key)+" "+hx(raw))
	}
	// length bytes at the top of the byte range with enough input behind them (byte arithmetic wraps at 256)
	for _, lb := range []byte{0x7f, 0x80, 0xfb, 0xfc, 0xfd, 0xfe, 0xff} {
		for _, total := range []int{8, 129, 130, 253, 254, 255, 256, 257, 258, 300} {
			x := make([]byte, total)
			copy(x, der)
			x[0] = 0x30
			x[1] = lb
			e.emit("der.longlen", "der.parse "+hx(x))
			e.emit("der.longlen", "der.lax "+hx(x))
			y := r.bytes(total)
			y[0], y[1] = 0x30, lb
			e.emit("der.longlen-rand", "der.lax "+hx(y))
		}
	}
	emitForgedECIES(e, r, big.NewInt(99))
	// the D3 witness and friends
	for _, w := range []string{"zzz", "zoo0", "\xff", "zzzzzzzz", "{"} {
		e.emit("mnseed.afterlast", "bip39.seed "+hx([]byte(strings.TrimSpace(strings.Repeat(w+" ", 12))))+" -")
	}
	// envelope: the 4 nil/non-nil combinations x malformed fields
	fields := []string{"nil", "-", hx([]byte("zz")), hx([]byte("0")), hx([]byte("00")), hx([]byte(hex.EncodeToString(der))),
		hx([]byte(hex.EncodeToString(valid.SerialiseCompressed()))), hx([]byte(hex.EncodeToString(r.bytes(33)))), hx(r.bytes(9))}
	for _, s := range fields {
		for _, k := range fields {
			for _, mime := range []string{"application/json", "base64", "x"} {
				e.emit("env.fields", fmt.Sprintf("env.valid %s %s %s %s", hx([]byte(`{"a":"\\"}`)), s, k, hx([]byte(mime))))
			}
		}
	}
}
