//go:build verif

package main

// Generators of the streams on the regenerated code:
//
//	C10   field.normalise / setbytes / setbytes32 / putbytes / bytes on boundary values and words
//	C09   every field op at the extremes of (and beyond) its magnitude contract, aliasing forms
//	C01J  jac.* on a point pool in every Jacobian representation class and aliasing pattern,
//	      jac.oncurve / jac.decompress / jac.consts and table.get
//
// The class of an op names how its input was CONSTRUCTED (never the outcome).  Classes ending in
// ".ooc" are outside the documented magnitude contract of the op: the real code and the
// regenerated definitions must still agree there (both wrap modulo 2^32 / 2^64).

import (
	"math/big"
	"strconv"
	"strings"

	"github.com/libsv/go-bk/bec"
)

const (
	fMask = uint32(1<<26 - 1)
	fMSB  = uint32(1<<22 - 1)
	fPW0  = uint32(0x3fffc2f)
	fPW1  = uint32(0x3ffffbf)
)

var (
	fldP   = bigOf("FFFFFFFFFFFFFFFFFFFFFFFFFFFFFFFFFFFFFFFFFFFFFFFFFFFFFFFEFFFFFC2F")
	fldN   = bigOf("FFFFFFFFFFFFFFFFFFFFFFFFFFFFFFFEBAAEDCE6AF48A03BBFD25E8CD0364141")
	fld256 = new(big.Int).Lsh(big.NewInt(1), 256)
)

func fldHex(s string) *big.Int {
	n, ok := new(big.Int).SetString(s, 16)
	if !ok {
		panic("bad constant " + s)
	}
	return n
}
func fldAdd(a *big.Int, k int64) *big.Int { return new(big.Int).Add(a, big.NewInt(k)) }
func bmulP(k int64, d int64) *big.Int {
	return fldAdd(new(big.Int).Mul(fldP, big.NewInt(k)), d)
}

// canonical base-2^26 digits of v (word 9 takes everything from bit 234 up; v < 2^266)
func wordsOf(v *big.Int) (f fv) {
	t := new(big.Int).Set(v)
	m := big.NewInt(int64(fMask))
	for i := 0; i < 9; i++ {
		f[i] = uint32(new(big.Int).And(t, m).Uint64())
		t.Rsh(t, 26)
	}
	if t.BitLen() > 32 {
		panic("wordsOf: value too large")
	}
	f[9] = uint32(t.Uint64())
	return f
}

func valueOf(f fv) *big.Int {
	v := new(big.Int)
	for i := 9; i >= 0; i-- {
		v.Lsh(v, 26)
		v.Add(v, big.NewInt(int64(f[i])))
	}
	return v
}

// shuffle moves carries down (word i += 2^26, word i+1 -= 1) at random places: same value, words
// up to maxMag*mask
func shuffle(r *rng, f fv, maxMag uint64, rounds int) fv {
	for k := 0; k < rounds; k++ {
		i := r.intn(9)
		lim := maxMag * uint64(fMask)
		if f[i+1] > 0 && uint64(f[i])+(1<<26) <= lim {
			f[i] += 1 << 26
			f[i+1]--
		}
	}
	return f
}

// the boundary words of a magnitude-m value (words 0..8 and word 9)
func wordSet(m uint64) (ws []uint32, w9 []uint32) {
	ws = []uint32{0, 1, fPW0 - 1, fPW0, fPW0 + 1, fPW1 - 1, fPW1, fPW1 + 1, fMask - 1, fMask, fMask + 1}
	w9 = []uint32{0, 1, fMSB - 1, fMSB, fMSB + 1}
	add := func(dst *[]uint32, v uint64) {
		if v < 1<<32 {
			*dst = append(*dst, uint32(v))
		}
	}
	add(&ws, m*uint64(fMask))
	add(&ws, m*uint64(fMask)-1)
	add(&ws, m*(1<<26+1<<20))
	add(&w9, m*uint64(fMSB))
	add(&w9, m*uint64(fMSB)-1)
	add(&w9, m*(1<<22+1<<16))
	return
}

type vecs struct{ r *rng }

func (g vecs) uniformAt(m uint64, k int) fv {
	ws, w9 := wordSet(m)
	var f fv
	for i := 0; i < 9; i++ {
		f[i] = ws[k%len(ws)]
	}
	f[9] = w9[k%len(w9)]
	return f
}
func (g vecs) mixed(m uint64) fv {
	ws, w9 := wordSet(m)
	var f fv
	for i := 0; i < 9; i++ {
		f[i] = ws[g.r.intn(len(ws))]
	}
	f[9] = w9[g.r.intn(len(w9))]
	return f
}
func (g vecs) random(m uint64) fv {
	var f fv
	for i := 0; i < 9; i++ {
		f[i] = uint32(g.r.next() % (m*uint64(fMask) + 1))
	}
	f[9] = uint32(g.r.next() % (m*uint64(fMSB) + 1))
	return f
}
func (g vecs) onehot(m uint64) fv {
	f := g.random(1)
	ws, w9 := wordSet(m)
	i := g.r.intn(10)
	if i == 9 {
		f[9] = w9[g.r.intn(len(w9))]
	} else {
		f[i] = ws[g.r.intn(len(ws))]
	}
	return f
}
func (g vecs) allmax(m uint64) fv {
	var f fv
	for i := 0; i < 9; i++ {
		f[i] = uint32(m * uint64(fMask))
	}
	f[9] = uint32(m * uint64(fMSB))
	return f
}
func (g vecs) full() fv {
	var f fv
	for i := range f {
		switch g.r.intn(4) {
		case 0:
			f[i] = 0xffffffff - uint32(g.r.intn(3))
		default:
			f[i] = uint32(g.r.next())
		}
	}
	return f
}

// any: one vector within magnitude m, drawn from the constructions above; returns the kind
func (g vecs) any(m uint64) (fv, string) {
	switch g.r.intn(6) {
	case 0:
		ws, _ := wordSet(m)
		return g.uniformAt(m, g.r.intn(len(ws))), "uniform"
	case 1, 2:
		return g.mixed(m), "mixed"
	case 3:
		return g.onehot(m), "onehot"
	case 4:
		return g.allmax(m), "allmax"
	}
	return g.random(m), "random"
}

func udec(k uint64) string { return strconv.FormatUint(k, 10) }

// ---------------------------------------------------------------------------------------------
// C10

func genC10(e *emitter, r *rng, thorough bool) {
	scale := 1
	if thorough {
		scale = 20
	}
	g := vecs{r}
	type nv struct {
		name string
		v    *big.Int
	}
	c := new(big.Int).Sub(fld256, fldP) // 2^32 + 977
	vals := []nv{
		{"0", big.NewInt(0)}, {"1", big.NewInt(1)}, {"c-1", fldAdd(c, -1)}, {"c", c}, {"c+1", fldAdd(c, 1)},
		{"P-2", fldAdd(fldP, -2)}, {"P-1", fldAdd(fldP, -1)}, {"P", fldP}, {"P+1", fldAdd(fldP, 1)}, {"P+2", fldAdd(fldP, 2)},
		{"2^256-2", fldAdd(fld256, -2)}, {"2^256-1", fldAdd(fld256, -1)}, {"2^256", fld256}, {"2^256+1", fldAdd(fld256, 1)},
		{"2^256+c-1", fldAdd(new(big.Int).Add(fld256, c), -1)}, {"2^256+c", new(big.Int).Add(fld256, c)},
		{"2^256+c+1", fldAdd(new(big.Int).Add(fld256, c), 1)},
		{"2P-1", bmulP(2, -1)}, {"2P", bmulP(2, 0)}, {"2P+1", bmulP(2, 1)},
		{"2^257-1", fldAdd(new(big.Int).Lsh(big.NewInt(1), 257), -1)},
		{"2^260-1", fldAdd(new(big.Int).Lsh(big.NewInt(1), 260), -1)},
	}
	for k := int64(3); k <= 64; k++ {
		vals = append(vals, nv{"kP-1", bmulP(k, -1)}, nv{"kP", bmulP(k, 0)}, nv{"kP+1", bmulP(k, 1)})
	}
	for k := uint(0); k < 266; k += 1 {
		vals = append(vals, nv{"2^k", new(big.Int).Lsh(big.NewInt(1), k)})
		if k > 0 {
			vals = append(vals, nv{"2^k-1", fldAdd(new(big.Int).Lsh(big.NewInt(1), k), -1)})
		}
	}
	emitValueOps := func(class string, f fv) {
		s := fvStr(f)
		e.emit("normalise."+class, "field.normalise "+s)
		e.emit("putbytes."+class, "field.putbytes "+s)
		if r.coin(1, 4) {
			e.emit("bytes."+class, "field.bytes "+s)
		}
	}
	for _, x := range vals {
		f := wordsOf(x.v)
		emitValueOps("value:"+x.name, f)
		// the same value with carries left in the lower words (magnitude <= 2, <= 32, <= 62)
		for _, mm := range []uint64{2, 32, 62} {
			for k := 0; k < scale; k++ {
				d := shuffle(r, f, mm, 40)
				if d != f {
					emitValueOps("value-denorm"+udec(mm)+":"+x.name, d)
				}
			}
		}
	}
	// the final-subtraction boundary of Normalise: t9 = msb mask, t2..t8 = mask, t1/t0 around the
	// prime words, with and without a pending overflow bit in word 9
	for _, d0 := range []int64{-2, -1, 0, 1, 2, 976, 977, 978} {
		for _, d1 := range []int64{-2, -1, 0, 1, 2, 63, 64, 65} {
			for hole := -1; hole < 8; hole++ {
				for _, top := range []uint32{fMSB, fMSB - 1, fMSB + 1, fMSB | 1<<22, 1 << 22, 0} {
					var f fv
					f[0] = uint32(int64(fPW0) + d0)
					f[1] = uint32(int64(fPW1) + d1)
					for i := 2; i < 9; i++ {
						f[i] = fMask
					}
					if hole >= 0 && hole < 7 {
						f[2+hole] = fMask - 1
					}
					if hole == 7 {
						f[2+r.intn(7)] = fMask + 1
					}
					f[9] = top
					if d0 >= 976 {
						f[0] = uint32(int64(fMask) - 977 + d0 - 976) // (t0 + 977) >> 26 flips here when m = 1
					}
					e.emit("normalise.final-sub-boundary", "field.normalise "+fvStr(f))
				}
			}
		}
	}
	// words at 0 / 1 / prime words / mask / multiples of the mask, up to 32x and 62x, and the full
	// uint32 range (Normalise's contract is magnitude <= 32)
	for _, m := range []uint64{1, 2, 3, 8, 31, 32, 33, 62, 63} {
		class := "words-mag" + udec(m)
		if m > 32 {
			class += ".ooc"
		}
		ws, _ := wordSet(m)
		for k := 0; k < len(ws); k++ {
			emitValueOps(class+".uniform", g.uniformAt(m, k))
		}
		emitValueOps(class+".allmax", g.allmax(m))
		for k := 0; k < 30*scale; k++ {
			emitValueOps(class+".mixed", g.mixed(m))
			emitValueOps(class+".onehot", g.onehot(m))
			emitValueOps(class+".random", g.random(m))
		}
	}
	for k := 0; k < 150*scale; k++ {
		emitValueOps("words-full.ooc", g.full())
	}
	// one bit set: every (word, bit)
	for i := 0; i < 10; i++ {
		for b := uint(0); b < 32; b++ {
			var f fv
			f[i] = 1 << b
			class := "single-bit"
			if (i < 9 && b >= 26) || (i == 9 && b >= 22) {
				class = "single-bit-overflow"
			}
			emitValueOps(class, f)
		}
	}
	// byte strings: every length 0..40 (SetByteSlice), exactly 32 (SetBytes)
	pb := fldP.Bytes()
	for n := 0; n <= 40; n++ {
		mk := func(fill func(i int) byte) string {
			b := make([]byte, n)
			for i := range b {
				b[i] = fill(i)
			}
			return hx(b)
		}
		ln := "len" + udec(uint64(n))
		e.emit("setbytes.zeros."+ln, "field.setbytes "+mk(func(int) byte { return 0 }))
		e.emit("setbytes.ones."+ln, "field.setbytes "+mk(func(int) byte { return 0xff }))
		e.emit("setbytes.count."+ln, "field.setbytes "+mk(func(i int) byte { return byte(i + 1) }))
		e.emit("setbytes.lastbyte."+ln, "field.setbytes "+mk(func(i int) byte {
			if i == n-1 {
				return 0x80
			}
			return 0
		}))
		e.emit("setbytes.firstbyte."+ln, "field.setbytes "+mk(func(i int) byte {
			if i == 0 {
				return 0x01
			}
			return 0
		}))
		for k := 0; k < 4*scale; k++ {
			e.emit("setbytes.random."+ln, "field.setbytes "+hx(r.bytes(n)))
		}
		// P with leading zeros / trailing bytes, to this length
		if n >= 32 {
			lead := append(make([]byte, n-32), pb...)
			trail := append(append([]byte{}, pb...), r.bytes(n-32)...)
			e.emit("setbytes.P-leading-zeros."+ln, "field.setbytes "+hx(lead))
			e.emit("setbytes.P-trailing."+ln, "field.setbytes "+hx(trail))
		}
	}
	for _, x := range vals {
		if x.v.BitLen() <= 256 {
			b := pad32(x.v.Bytes())
			e.emit("setbytes32.value:"+x.name, "field.setbytes32 "+hx(b))
			e.emit("setbytes.value:"+x.name, "field.setbytes "+hx(x.v.Bytes()))
		}
	}
	for bit := 0; bit < 256; bit++ {
		b := make([]byte, 32)
		b[bit/8] = 0x80 >> uint(bit%8)
		e.emit("setbytes32.single-bit", "field.setbytes32 "+hx(b))
		for i := range b {
			b[i] ^= 0xff
		}
		e.emit("setbytes32.single-zero-bit", "field.setbytes32 "+hx(b))
	}
	for k := 0; k < 200*scale; k++ {
		e.emit("setbytes32.random", "field.setbytes32 "+hx(r.bytes(32)))
	}
	// round trip material: putbytes of normalised random values
	for k := 0; k < 100*scale; k++ {
		v := new(big.Int).SetBytes(r.bytes(32))
		v.Mod(v, fldP)
		emitValueOps("normalised-random", wordsOf(v))
	}
	// values whose high words are saturated except ONE middle word (the constant-time ">= p" test ANDs words 2..8):
	// each of the seven middle words in turn is the odd one out, low words at / above / below the prime's
	for j := 2; j <= 8; j++ {
		for _, low := range [][2]uint32{{fMask, fMask}, {fPW0, fPW1}, {fPW0 - 1, fPW1}, {fPW0 + 1, fPW1 + 1}, {0, 0}} {
			for _, odd := range []uint32{fMask - 1, 0, fMask >> 1, uint32(r.next()) & fMask} {
				var f fv
				for i := 2; i <= 8; i++ {
					f[i] = fMask
				}
				f[9] = fMSB
				f[j] = odd
				f[0], f[1] = low[0], low[1]
				e.emit("norm.mid-one-unsaturated", "field.normalise "+fvStr(f))
				f[9] = fMSB + (1 << 22) // and with a carry out of bit 256
				e.emit("norm.mid-one-unsaturated.carry", "field.normalise "+fvStr(f))
			}
		}
	}
	genPredicates(e, r, g, scale)
}

// ---------------------------------------------------------------------------------------------
// C09

func genC09(e *emitter, r *rng, thorough bool) {
	scale := 1
	if thorough {
		scale = 20
	}
	g := vecs{r}
	ooc := func(in bool) string {
		if in {
			return ""
		}
		return ".ooc"
	}
	// --- Add / Add2 and the aliasing forms: sums of magnitudes <= 32 (beyond: .ooc)
	for _, mm := range [][2]uint64{{1, 1}, {1, 2}, {2, 1}, {3, 5}, {8, 8}, {16, 16}, {31, 1}, {1, 31}, {32, 1}, {32, 32}, {62, 1}} {
		in := mm[0]+mm[1] <= 32
		for k := 0; k < 25*scale; k++ {
			a, ka := g.any(mm[0])
			b, kb := g.any(mm[1])
			_, _ = ka, kb
			class := ".mag" + udec(mm[0]) + "+" + udec(mm[1]) + ooc(in)
			sa, sb := fvStr(a), fvStr(b)
			e.emit("add"+class, "field.add "+sa+" "+sb)
			e.emit("add2"+class, "field.add2 "+sa+" "+sb)
			switch k % 3 {
			case 0:
				e.emit("add2.r1"+class, "field.add2.r1 "+sa+" "+sb)
			case 1:
				e.emit("add2.r2"+class, "field.add2.r2 "+sa+" "+sb)
			case 2:
				e.emit("addself"+class, "field.addself "+sa)
				e.emit("add2.r12"+class, "field.add2.r12 "+sb)
			}
		}
	}
	// --- small integers in ONE word, every bit length 1..26 (and 27..32: magnitude 64 of that word, out of contract for
	//     the multiplications): "fits a machine word" shortcuts confuse the 26-bit field word with the 32-bit one
	for bits := uint(1); bits <= 32; bits++ {
		for _, d := range []int64{-1, 0, 1} {
			v := int64(1)<<bits + d
			if v < 0 || v > 1<<32-1 {
				continue
			}
			var a, b fv
			a[0] = uint32(v)
			b[0] = uint32((v * 3) & 0x3ffffff)
			cl := ".oneword"
			if v >= 1<<26 {
				cl = ".oneword.ooc"
			}
			sa, sb := fvStr(a), fvStr(b)
			for _, op := range []string{"sq", "sqval", "inv", "sqrt", "normalise", "mulself"} {
				e.emit(op+cl, "field."+op+" "+sa)
			}
			for _, op := range []string{"mul", "mul2", "add", "add2"} {
				e.emit(op+cl, "field."+op+" "+sa+" "+sb)
			}
			e.emit("mulint"+cl, "field.mulint "+sa+" 8")
			e.emit("neg"+cl, "field.neg "+sa+" 1")
			e.emit("negval"+cl, "field.negval "+sa+" 1")
		}
	}
	// --- Mul / Mul2 / Square / SquareVal: magnitudes <= 8
	for _, mm := range [][2]uint64{{1, 1}, {1, 8}, {8, 1}, {2, 3}, {4, 4}, {8, 8}, {9, 8}, {8, 9}, {16, 16}, {63, 63}} {
		in := mm[0] <= 8 && mm[1] <= 8
		n := 40 * scale
		if !in {
			n = 10 * scale
		}
		for k := 0; k < n; k++ {
			a, ka := g.any(mm[0])
			b, kb := g.any(mm[1])
			if k == 0 {
				a, ka = g.allmax(mm[0]), "allmax"
				b, kb = g.allmax(mm[1]), "allmax"
			}
			class := ".mag" + udec(mm[0]) + "x" + udec(mm[1]) + ooc(in)
			if ka == "allmax" && kb == "allmax" {
				class = ".mag" + udec(mm[0]) + "x" + udec(mm[1]) + ".allmax" + ooc(in)
			}
			sa, sb := fvStr(a), fvStr(b)
			e.emit("mul"+class, "field.mul "+sa+" "+sb)
			e.emit("mul2"+class, "field.mul2 "+sa+" "+sb)
			switch k % 4 {
			case 0:
				e.emit("mul2.r1"+class, "field.mul2.r1 "+sa+" "+sb)
			case 1:
				e.emit("mul2.r2"+class, "field.mul2.r2 "+sa+" "+sb)
			case 2:
				e.emit("mulself"+class, "field.mulself "+sa)
				e.emit("mul2.r12"+class, "field.mul2.r12 "+sb)
			case 3:
				e.emit("sq"+class, "field.sq "+sa)
				e.emit("sqval"+class, "field.sqval "+sb)
			}
		}
	}
	// every pair of boundary words in every pair of positions (one-word-hot operands): exercises
	// each partial product and each carry of Mul2/SquareVal at its extremes
	ws8, w98 := wordSet(8)
	for i := 0; i < 10; i++ {
		for j := 0; j < 10; j++ {
			reps := 2 * scale
			for k := 0; k < reps; k++ {
				var a, b fv
				if i == 9 {
					a[i] = w98[r.intn(len(w98))]
				} else {
					a[i] = ws8[r.intn(len(ws8))]
				}
				if j == 9 {
					b[j] = w98[r.intn(len(w98))]
				} else {
					b[j] = ws8[r.intn(len(ws8))]
				}
				e.emit("mul2.word-pair", "field.mul2 "+fvStr(a)+" "+fvStr(b))
			}
		}
		var a fv
		if i == 9 {
			a[i] = w98[len(w98)-3]
		} else {
			a[i] = ws8[len(ws8)-3]
		}
		e.emit("sq.word", "field.sq "+fvStr(a))
	}
	for k := 0; k < 60*scale; k++ {
		a, b := g.full(), g.full()
		e.emit("mul2.full.ooc", "field.mul2 "+fvStr(a)+" "+fvStr(b))
		e.emit("sqval.full.ooc", "field.sqval "+fvStr(a))
		e.emit("add.full.ooc", "field.add "+fvStr(a)+" "+fvStr(b))
	}
	// --- Negate / NegateVal: m <= 32 on values of magnitude <= m
	for _, m := range []uint64{0, 1, 2, 3, 5, 6, 8, 16, 18, 31, 32, 33, 62, 63, 64, 1<<32 - 2, 1<<32 - 1} {
		in := m >= 1 && m <= 32
		vm := m
		if vm < 1 {
			vm = 1
		}
		if vm > 62 {
			vm = 62
		}
		for k := 0; k < 12*scale; k++ {
			a, ka := g.any(vm)
			_ = ka
			class := ".m" + udec(m) + ooc(in)
			e.emit("neg"+class, "field.neg "+fvStr(a)+" "+udec(m))
			e.emit("negval"+class, "field.negval "+fvStr(a)+" "+udec(m))
		}
		// a value of larger magnitude than declared (underflow wraps identically on both sides)
		a, _ := g.any(63)
		e.emit("neg.m"+udec(m)+".undersized.ooc", "field.neg "+fvStr(a)+" "+udec(m))
	}
	// --- MulInt: k * m <= 32
	for _, km := range [][2]uint64{{0, 1}, {1, 1}, {2, 1}, {3, 1}, {4, 1}, {8, 1}, {2, 3}, {2, 8}, {2, 16}, {4, 8}, {8, 4}, {32, 1}, {16, 2}, {33, 1},
		{64, 1}, {2, 32}, {1 << 32, 1}, {1<<32 + 3, 1}, {1<<63 + 2, 2}, {1<<32 - 1, 1}} {
		in := km[0]*km[1] <= 32 && km[0] < 1<<32
		for k := 0; k < 10*scale; k++ {
			a, ka := g.any(km[1])
			_ = ka
			e.emit("mulint.k"+udec(km[0])+".mag"+udec(km[1])+ooc(in), "field.mulint "+fvStr(a)+" "+udec(km[0]))
		}
	}
	// --- AddInt
	for _, k := range []uint64{0, 1, 7, 977, 1<<26 - 1, 1 << 26, 1<<31 - 1, 1<<32 - 1, 1 << 32, 1<<32 + 5, 1<<64 - 1} {
		for rep := 0; rep < 6*scale; rep++ {
			a, ka := g.any(uint64(1 + r.intn(8)))
			_ = ka
			e.emit("addint.k"+udec(k), "field.addint "+fvStr(a)+" "+udec(k))
		}
		e.emit("addint.k"+udec(k)+".max-word.ooc", "field.addint "+fvStr(fv{0xffffffff, 1, 2, 3, 4, 5, 6, 7, 8, 9})+" "+udec(k))
	}
	// --- Set / SetInt / Zero
	for k := 0; k < 10; k++ {
		e.emit("set", "field.set "+fvStr(g.full()))
	}
	for _, k := range []uint64{0, 1, 2, 7, 1<<26 - 1, 1 << 26, 1<<32 - 1, 1 << 32, 1<<32 + 9, 1<<64 - 1} {
		e.emit("setint", "field.setint "+udec(k))
	}
	e.emit("zero", "field.zero")
	// --- Normalise on the outputs of the above shapes (magnitude <= 32)
	for k := 0; k < 60*scale; k++ {
		a, ka := g.any(uint64(1 + r.intn(32)))
		e.emit("normalise."+ka, "field.normalise "+fvStr(a))
	}
	// --- Inverse / SqrtVal: 0, 1, P-1, P (zero, denormalised), squares, non-squares, small, random;
	// normalised and in denormalised representations of magnitude <= 8
	special := []*big.Int{big.NewInt(0), big.NewInt(1), big.NewInt(2), big.NewInt(3), big.NewInt(4), big.NewInt(7),
		fldAdd(fldP, -1), fldP, fldAdd(fldP, 1), fldAdd(fldP, -2), new(big.Int).Rsh(fldP, 1), fldAdd(fld256, -1)}
	emitInv := func(class string, v *big.Int) {
		f := wordsOf(v)
		e.emit("inv."+class, "field.inv "+fvStr(f))
		e.emit("sqrt."+class, "field.sqrt "+fvStr(f))
		d := shuffle(r, f, 8, 60)
		if d != f {
			e.emit("inv."+class+".denorm8", "field.inv "+fvStr(d))
			e.emit("sqrt."+class+".denorm8", "field.sqrt "+fvStr(d))
		}
	}
	for _, v := range special {
		emitInv("special", v)
	}
	for k := 0; k < 25*scale; k++ {
		v := new(big.Int).SetBytes(r.bytes(32))
		v.Mod(v, fldP)
		sq := new(big.Int).Mul(v, v)
		sq.Mod(sq, fldP)
		emitInv("random", v)
		emitInv("square", sq)
		// a non-residue: negation of a non-zero square (P = 3 mod 4)
		emitInv("non-square", new(big.Int).Sub(fldP, sq))
	}
	for k := 0; k < 10*scale; k++ {
		a, ka := g.any(8)
		e.emit("inv.mag8."+ka, "field.inv "+fvStr(a))
		e.emit("sqrt.mag8."+ka, "field.sqrt "+fvStr(a))
	}
	e.emit("inv.full.ooc", "field.inv "+fvStr(g.full()))
	e.emit("sqrt.full.ooc", "field.sqrt "+fvStr(g.full()))
	genPredicates(e, r, g, scale)
}

// equality / zero / parity tests, incl. pairs that differ in exactly one word (each of the ten)
func genPredicates(e *emitter, r *rng, g vecs, scale int) {
	// --- predicates
	for k := 0; k < 40*scale; k++ {
		a, ka := g.any(uint64(1 + r.intn(3)))
		b := a
		i := r.intn(10)
		switch r.intn(3) {
		case 0:
			b[i] ^= 1 << uint(r.intn(32))
		case 1:
			b = g.random(1)
		}
		e.emit("eq."+ka, "field.eq "+fvStr(a)+" "+fvStr(b))
		e.emit("iszero."+ka, "field.iszero "+fvStr(a))
		e.emit("isodd."+ka, "field.isodd "+fvStr(a))
	}
	for i := 0; i < 10; i++ {
		for _, b := range []uint{0, 1, 21, 22, 25, 26, 31} {
			var f fv
			f[i] = 1 << b
			e.emit("iszero.single-bit", "field.iszero "+fvStr(f))
			e.emit("isodd.single-bit", "field.isodd "+fvStr(f))
			e.emit("eq.single-bit-vs-zero", "field.eq "+fvStr(f)+" "+fvStr(fv{}))
			e.emit("eq.zero-vs-single-bit", "field.eq "+fvStr(fv{})+" "+fvStr(f))
		}
	}
	// differences in SEVERAL words that cancel under XOR / addition / OR-by-halves (an equality test that folds the
	// word differences with the wrong operator accepts these): the same mask in every pair, triple and in all words,
	// complementary masks, +d / -d pairs
	{
		base := g.random(1)
		for i := 0; i < 10; i++ {
			for j := i + 1; j < 10; j++ {
				for _, m := range []uint32{1, 1 << 21, 0x3fffff, uint32(1 + r.intn(0x3ffffe))} {
					b := base
					b[i] ^= m
					b[j] ^= m
					e.emit("eq.two-words-same-mask", "field.eq "+fvStr(base)+" "+fvStr(b))
					c := base
					c[i] += m & 0xffff
					c[j] -= m & 0xffff
					e.emit("eq.two-words-plus-minus", "field.eq "+fvStr(base)+" "+fvStr(c))
				}
			}
		}
		var z fv
		for _, idx := range [][]int{{0, 2}, {1, 3}, {0, 2, 4, 6}, {1, 3, 5, 7, 9}, {0, 1, 2, 3, 4, 5, 6, 7, 8, 9}, {0, 9}, {4, 5}} {
			b := z
			for _, i := range idx {
				b[i] = 1
			}
			e.emit("eq.cancelling-vs-zero", "field.eq "+fvStr(z)+" "+fvStr(b))
			e.emit("eq.cancelling-vs-zero", "field.eq "+fvStr(b)+" "+fvStr(z))
			e.emit("iszero.cancelling", "field.iszero "+fvStr(b))
		}
	}
	e.emit("iszero.zero", "field.iszero "+fvStr(fv{}))
	e.emit("iszero.P-denormalised", "field.iszero "+fvStr(wordsOf(fldP)))
	e.emit("eq.zero-vs-P-denormalised", "field.eq "+fvStr(fv{})+" "+fvStr(wordsOf(fldP)))
	e.emit("eqself", "field.eqself "+fvStr(g.full()))
	for i := 0; i < 10; i++ {
		a := g.random(1)
		b := a
		b[i] ^= 1 << uint(r.intn(22))
		e.emit("eq.one-word-differs", "field.eq "+fvStr(a)+" "+fvStr(b))
		// normalised values that differ only in word i
		e.emit("eq.one-word-differs.norm", "field.eq "+fvStr(fieldOp("normalise", a, fv{}, 0))+" "+fvStr(fieldOp("normalise", b, fv{}, 0)))
	}
}

// ---------------------------------------------------------------------------------------------
// C01J

type jacAffPt struct {
	x, y *big.Int
	name string
}

func jacModP(v *big.Int) *big.Int { return v.Mod(v, fldP) }

func fieldOp(op string, a, b fv, k uint) fv {
	res, ok := bec.VerifFieldOp(op, a, b, k)
	if !ok {
		panic("generator: unknown field op " + op)
	}
	return res
}

// jacobian representation (x λ², y λ³, λ) of an affine point, as normalised words
func jacOf(p jacAffPt, lambda *big.Int) [3]fv {
	l2 := jacModP(new(big.Int).Mul(lambda, lambda))
	l3 := jacModP(new(big.Int).Mul(l2, lambda))
	return [3]fv{wordsOf(jacModP(new(big.Int).Mul(p.x, l2))), wordsOf(jacModP(new(big.Int).Mul(p.y, l3))), wordsOf(new(big.Int).Mod(lambda, fldP))}
}

// dress re-represents the words of a coordinate the ways the real callers produce them:
//
//	0 normalised   1 raw Mul2 output (magnitude 1, not normalised: the z of addZ1EqualsZ2/addGeneric)
//	2 NegateVal(-v, 1) output (magnitude 2: the negated y that ScalarMult passes)
//	3 the same value plus P where it fits in 256 bits, else carries left in lower words (magnitude <= 2)
func dress(r *rng, f fv, how int) fv {
	switch how {
	case 1:
		// v = (v * c^-1) * c through the real Mul2, output words untouched
		c := new(big.Int).SetBytes(r.bytes(32))
		c.Mod(c, fldP)
		if c.Sign() == 0 {
			c.SetInt64(3)
		}
		ci := new(big.Int).ModInverse(c, fldP)
		a := wordsOf(jacModP(new(big.Int).Mul(valueOf(f), ci)))
		return fieldOp("mul2", a, wordsOf(c), 0)
	case 2:
		neg := new(big.Int).Sub(fldP, new(big.Int).Mod(valueOf(f), fldP))
		neg.Mod(neg, fldP)
		return fieldOp("negateval", wordsOf(neg), fv{}, 1)
	case 3:
		v := valueOf(f)
		if vp := new(big.Int).Add(v, fldP); vp.BitLen() <= 256 {
			return wordsOf(vp)
		}
		return shuffle(r, f, 2, 30)
	}
	return f
}

func dressName(hx, hy, hz int) string {
	if hx == 0 && hy == 0 && hz == 0 {
		return "plain"
	}
	return "dressed"
}

func randLambda(r *rng) *big.Int {
	switch r.intn(6) {
	case 0:
		return big.NewInt(int64(2 + r.intn(5)))
	case 1:
		return fldAdd(fldP, -int64(1+r.intn(3)))
	}
	l := new(big.Int).SetBytes(r.bytes(32))
	l.Mod(l, fldP)
	if l.Sign() == 0 || l.Cmp(big.NewInt(1)) == 0 {
		l.SetInt64(5)
	}
	return l
}

func jacPointPool(r *rng, extra int) []jacAffPt {
	curve := bec.S256()
	var pool []jacAffPt
	add := func(name string, k *big.Int) {
		kk := new(big.Int).Mod(k, fldN)
		if kk.Sign() == 0 {
			return
		}
		x, y := curve.ScalarBaseMult(kk.Bytes())
		pool = append(pool, jacAffPt{x, y, name})
	}
	for _, k := range []int64{1, 2, 3, 4, 5, 7, 8, 15, 16, 255, 256} {
		add("kG", big.NewInt(k))
		add("-kG", fldAdd(fldN, -k))
	}
	half := new(big.Int).Rsh(fldN, 1)
	add("(N-1)/2 G", half)
	add("(N+1)/2 G", fldAdd(half, 1))
	lambdaN := fldHex("5363ad4cc05c30e0a5261c028812645a122e22ea20816678df02967c1b23bd72")
	add("lambda G", lambdaN)
	add("lambda^2 G", new(big.Int).Mul(lambdaN, lambdaN))
	for i := 0; i < extra; i++ {
		add("random", new(big.Int).SetBytes(r.bytes(32)))
	}
	for _, p := range rarePoints(r, 1) {
		pool = append(pool, jacAffPt{p.x, p.y, "rare"})
	}
	return pool
}

func jacNegPt(p jacAffPt) jacAffPt {
	return jacAffPt{p.x, new(big.Int).Mod(new(big.Int).Sub(fldP, p.y), fldP), "-(" + p.name + ")"}
}

var betaBig = fldHex("7ae96a2b657c07106e64479eac3434e99cf0497512f58995c1396c28719501ee")

func jacEndoPt(p jacAffPt) jacAffPt {
	return jacAffPt{jacModP(new(big.Int).Mul(p.x, betaBig)), p.y, "phi(" + p.name + ")"}
}

func spjoin(parts ...string) string { return strings.Join(parts, " ") }

func fv3(p [3]fv) string { return spjoin(fvStr(p[0]), fvStr(p[1]), fvStr(p[2])) }

func genC01J(e *emitter, r *rng, thorough bool) {
	scale := 1
	if thorough {
		scale = 5
	}
	g := vecs{r}
	pool := jacPointPool(r, 12*scale)
	one := big.NewInt(1)
	junk := func() fv { return g.full() }
	out3 := func() string { return spjoin(fvStr(junk()), fvStr(junk()), fvStr(junk())) }
	e.emit("consts", "jac.consts")

	// the second operand for a given first operand, by relation
	rel := func(p jacAffPt, k int) (jacAffPt, string) {
		switch k {
		case 0:
			return p, "P=Q"
		case 1:
			return jacNegPt(p), "P=-Q"
		case 2:
			return jacEndoPt(p), "Q=phi(P)"
		case 3:
			return jacNegPt(jacEndoPt(p)), "Q=-phi(P)"
		case 4:
			return jacEndoPt(jacEndoPt(p)), "Q=phi^2(P)"
		}
		return pool[r.intn(len(pool))], "distinct"
	}
	// representation classes of the pair
	type repr struct {
		name   string
		l1, l2 func() *big.Int
	}
	shared := new(big.Int)
	reprs := []repr{
		{"z1=z2=1", func() *big.Int { return one }, func() *big.Int { return one }},
		{"z1=z2", func() *big.Int { shared = randLambda(r); return shared }, func() *big.Int { return shared }},
		{"z2=1", func() *big.Int { return randLambda(r) }, func() *big.Int { return one }},
		{"z1=1", func() *big.Int { return one }, func() *big.Int { return randLambda(r) }},
		{"generic", func() *big.Int { return randLambda(r) }, func() *big.Int { return randLambda(r) }},
	}
	addAliases := []struct{ name, a string }{
		{"distinct", "0,1,2,3,4,5,6,7,8"}, {"out=in1", "0,1,2,3,4,5,0,1,2"}, {"out=in2", "0,1,2,3,4,5,3,4,5"},
	}
	dblAliases := []struct{ name, a string }{{"distinct", "0,1,2,3,4,5"}, {"out=in", "0,1,2,0,1,2"}}
	variantFor := map[string]string{"z1=z2=1": "addv1", "z1=z2": "addv2", "z2=1": "addv3", "generic": "addv4", "z1=1": "addv4"}

	// dressing of the coordinates: how[0..2] for (x, y, z) of each operand
	dressPoint := func(j [3]fv, zIsOne bool) ([3]fv, string) {
		hx, hy, hz := r.intn(4), r.intn(4), r.intn(4)
		if r.coin(1, 3) {
			hx, hy, hz = 0, 0, 0
		}
		if zIsOne {
			hz = 0 // the variants and the dispatcher compare z with fieldOne after Normalise: keep the words of 1
			if r.coin(1, 4) {
				hz = 3 // 1 + P does not fit: carries; Normalise brings it back to 1
			}
		}
		return [3]fv{dress(r, j[0], hx), dress(r, j[1], hy), dress(r, j[2], hz)},
			dressName(hx, hy, hz)
	}

	reps := 2
	if thorough {
		reps = 8
	}
	for pi, p := range pool {
		for k := 0; k < 6; k++ {
			for _, rp := range reprs {
				for rep := 0; rep < reps; rep++ {
					if k == 5 && rep > 0 && !thorough {
						continue
					}
					q, rname := rel(p, k)
					l1, l2 := rp.l1(), rp.l2()
					j1, d1 := dressPoint(jacOf(p, l1), l1.Cmp(one) == 0)
					j2, d2 := dressPoint(jacOf(q, l2), l2.Cmp(one) == 0)
					if rp.name == "z1=z2" && r.coin(1, 2) {
						// the same z words for both (otherwise: equal only after Normalise)
						j2[2] = j1[2]
					}
					al := addAliases[(pi+k+rep)%len(addAliases)]
					class := "add." + rname + "." + rp.name + "." + al.name + "." + d1 + "/" + d2
					e.emit(class, spjoin("jac.add", al.a, fv3(j1), fv3(j2), out3()))
					// the variant whose precondition this pair satisfies, called directly
					v := variantFor[rp.name]
					if v == "addv4" {
						e.emit(v+"."+rname+"."+rp.name+"."+al.name, spjoin("jac.addv4", al.a, fv3(j1), fv3(j2), out3()))
					} else {
						va := "0,1,2,3,4,5,6,7"
						if al.name == "out=in1" {
							va = "0,1,2,3,4,0,1,2"
						}
						// the variants take (x1,y1,z1,x2,y2): z1 normalised as the dispatcher leaves it
						z1 := fieldOp("normalise", j1[2], fv{}, 0)
						e.emit(v+"."+rname+"."+rp.name+"."+al.name,
							spjoin("jac."+v, va, fvStr(j1[0]), fvStr(j1[1]), fvStr(z1), fvStr(j2[0]), fvStr(j2[1]), out3()))
					}
				}
			}
		}
		// doubling: z = 1 and z = λ, both aliasing patterns, dispatcher and variants
		for rep := 0; rep < reps; rep++ {
			for zi, l := range []*big.Int{one, randLambda(r)} {
				j, d := dressPoint(jacOf(p, l), zi == 0)
				for _, al := range dblAliases {
					cls := "z=1"
					if zi == 1 {
						cls = "generic"
					}
					e.emit("double."+cls+"."+al.name+"."+d, spjoin("jac.double", al.a, fv3(j), out3()))
					z := fieldOp("normalise", j[2], fv{}, 0)
					if zi == 0 {
						va := "0,1,2,3,4"
						if al.name == "out=in" {
							va = "0,1,0,1,4"
						}
						e.emit("dblv1."+al.name+"."+d, spjoin("jac.dblv1", va, fvStr(j[0]), fvStr(j[1]), out3()))
					}
					e.emit("dblv2."+cls+"."+al.name+"."+d, spjoin("jac.dblv2", al.a, fvStr(j[0]), fvStr(j[1]), fvStr(z), out3()))
				}
				// conversion back to affine, of the point and of its double-sized coordinates
				e.emit("toaffine."+d, spjoin("jac.toaffine", "0,1,2", fv3(j)))
			}
		}
	}
	// infinity encodings: z = 0, (0,0,z), both, against finite points and each other; y = 0 doubling
	inf := [][3]fv{
		{fv{}, fv{}, fv{}},
		{g.random(1), g.random(1), fv{}},
		{fv{}, fv{}, wordsOf(one)},
		{fv{}, fv{}, g.random(1)},
		{wordsOf(fldP), wordsOf(fldP), wordsOf(one)}, // zero, denormalised: NOT recognised by IsZero
		{g.random(1), g.random(1), wordsOf(fldP)},
		{fv{}, fieldOp("negateval", fv{}, fv{}, 1), wordsOf(one)}, // (0, -0, 1) as ScalarMult builds it
	}
	for rep := 0; rep < 3*scale; rep++ {
		for ii, in := range inf {
			p := pool[r.intn(len(pool))]
			l := one
			if r.coin(1, 2) {
				l = randLambda(r)
			}
			j := jacOf(p, l)
			for _, al := range addAliases {
				e.emit("add.inf"+udec(uint64(ii))+"+P."+al.name, spjoin("jac.add", al.a, fv3(in), fv3(j), out3()))
				e.emit("add.P+inf"+udec(uint64(ii))+"."+al.name, spjoin("jac.add", al.a, fv3(j), fv3(in), out3()))
				in2 := inf[r.intn(len(inf))]
				e.emit("add.inf+inf."+al.name, spjoin("jac.add", al.a, fv3(in), fv3(in2), out3()))
			}
			for _, al := range dblAliases {
				e.emit("double.inf"+udec(uint64(ii))+"."+al.name, spjoin("jac.double", al.a, fv3(in), out3()))
			}
			e.emit("toaffine.inf"+udec(uint64(ii)), spjoin("jac.toaffine", "0,1,2", fv3(in)))
			// y = 0 with x, z arbitrary: doubleJacobian's first test
			e.emit("double.y=0", spjoin("jac.double", "0,1,2,3,4,5", fvStr(j[0]), fvStr(fv{}), fvStr(j[2]), out3()))
		}
	}
	// arbitrary field triples (not on the curve): the formulas are polynomial identities on words
	for rep := 0; rep < 40*scale; rep++ {
		a := [3]fv{g.random(1), g.random(1), g.random(1)}
		b := [3]fv{g.random(1), g.random(1), g.random(1)}
		if r.coin(1, 3) {
			a[2] = wordsOf(one)
		}
		if r.coin(1, 3) {
			b[2] = wordsOf(one)
		}
		if r.coin(1, 5) {
			b[2] = a[2]
		}
		al := addAliases[rep%len(addAliases)]
		e.emit("add.off-curve."+al.name, spjoin("jac.add", al.a, fv3(a), fv3(b), out3()))
		e.emit("double.off-curve", spjoin("jac.double", dblAliases[rep%2].a, fv3(a), out3()))
		e.emit("addv4.off-curve."+al.name, spjoin("jac.addv4", al.a, fv3(a), fv3(b), out3()))
	}
	// both inputs through the same pointers (not a pattern of the callers; the IR must still agree)
	for rep := 0; rep < 5*scale; rep++ {
		p := pool[r.intn(len(pool))]
		j := jacOf(p, randLambda(r))
		e.emit("add.same-pointers", spjoin("jac.add", "0,1,2,0,1,2,6,7,8", fv3(j), fv3(j), out3()))
		e.emit("add.all-same-pointers", spjoin("jac.add", "0,1,2,0,1,2,0,1,2", fv3(j), fv3(j), fv3(j)))
	}

	// IsOnCurve / decompressPoint (field parts run by the IR, big.Int glue hand-modelled)
	for _, p := range pool {
		xs, ys := p.x.Text(16), p.y.Text(16)
		e.emit("oncurve.on", spjoin("jac.oncurve", xs, ys))
		e.emit("oncurve.neg", spjoin("jac.oncurve", xs, jacNegPt(p).y.Text(16)))
		e.emit("oncurve.y+1", spjoin("jac.oncurve", xs, fldAdd(p.y, 1).Text(16)))
		e.emit("oncurve.x+1", spjoin("jac.oncurve", fldAdd(p.x, 1).Text(16), ys))
		e.emit("oncurve.swapped", spjoin("jac.oncurve", ys, xs))
		if xp := new(big.Int).Add(p.x, fldP); xp.BitLen() <= 256 {
			e.emit("oncurve.x+P", spjoin("jac.oncurve", xp.Text(16), ys))
		}
		if yp := new(big.Int).Add(p.y, fldP); yp.BitLen() <= 256 {
			e.emit("oncurve.y+P", spjoin("jac.oncurve", xs, yp.Text(16)))
		}
		// more than 32 bytes: SetByteSlice keeps the FIRST 32 bytes
		x33 := new(big.Int).Add(new(big.Int).Lsh(p.x, 8), big.NewInt(int64(r.intn(256))))
		e.emit("oncurve.x-33-bytes", spjoin("jac.oncurve", x33.Text(16), ys))
		e.emit("oncurve.y+2^256", spjoin("jac.oncurve", xs, new(big.Int).Add(p.y, fld256).Text(16)))
		odd := p.y.Bit(0)
		e.emit("decompress.on.parity", spjoin("jac.decompress", xs, udec(uint64(odd))))
		e.emit("decompress.on.other-parity", spjoin("jac.decompress", xs, udec(uint64(1-odd))))
		e.emit("decompress.x-33-bytes", spjoin("jac.decompress", x33.Text(16), udec(uint64(odd))))
	}
	for x := int64(0); x < 40; x++ {
		for b := uint64(0); b < 2; b++ {
			e.emit("decompress.small-x", spjoin("jac.decompress", big.NewInt(x).Text(16), udec(b)))
			e.emit("decompress.P+small-x", spjoin("jac.decompress", fldAdd(fldP, x).Text(16), udec(b)))
			e.emit("decompress.P-small-x", spjoin("jac.decompress", fldAdd(fldP, -x-1).Text(16), udec(b)))
		}
		e.emit("oncurve.small", spjoin("jac.oncurve", big.NewInt(x).Text(16), big.NewInt(x*x%7).Text(16)))
	}
	for rep := 0; rep < 40*scale; rep++ {
		x := new(big.Int).SetBytes(r.bytes(32))
		e.emit("decompress.random-x", spjoin("jac.decompress", x.Text(16), udec(uint64(r.intn(2)))))
		e.emit("oncurve.random", spjoin("jac.oncurve", x.Text(16), new(big.Int).SetBytes(r.bytes(32)).Text(16)))
	}
	e.emit("decompress.2^256-1", spjoin("jac.decompress", fldAdd(fld256, -1).Text(16), "0"))
	e.emit("oncurve.zero", "jac.oncurve 0 0")

	// the pre-computed table
	if thorough {
		for i := 0; i < 32; i++ {
			for b := 0; b < 256; b++ {
				e.emit("table.all", "table.get "+udec(uint64(i))+" "+udec(uint64(b)))
			}
		}
	} else {
		for _, i := range []int{0, 1, 15, 31} {
			for b := 0; b < 256; b++ {
				e.emit("table.row"+udec(uint64(i)), "table.get "+udec(uint64(i))+" "+udec(uint64(b)))
			}
		}
		for k := 0; k < 300; k++ {
			e.emit("table.random", "table.get "+udec(uint64(r.intn(32)))+" "+udec(uint64(r.intn(256))))
		}
	}
	// table entries as second operands, as ScalarBaseMult uses them (q = q + table[i][b], in place)
	for k := 0; k < 60*scale; k++ {
		i, b := r.intn(32), 1+r.intn(255)
		t := bec.VerifBytePoint(i, b)
		p := pool[r.intn(len(pool))]
		j := jacOf(p, randLambda(r))
		j[2] = dress(r, j[2], 1)
		e.emit("add.q+table", spjoin("jac.add", "0,1,2,3,4,5,0,1,2", fv3(j), fv3([3]fv{t[0], t[1], t[2]}), fv3(j)))
	}
}

// C09W: high-volume input for the wrap search (driver-only ops jac.wrap / jac.wrapdec / jac.wraponcurve):
// random pairs of curve points in every representation class and both aliasing patterns.
func genC09W(e *emitter, r *rng, thorough bool) {
	nPts, nOps := 300, 20000
	if thorough {
		nPts, nOps = 3000, 1500000
	}
	curve := bec.S256()
	pts := make([]jacAffPt, 0, nPts)
	x, y := curve.ScalarBaseMult(r.bytes(32))
	for len(pts) < nPts {
		pts = append(pts, jacAffPt{x, y, "rnd"})
		gx, gy := curve.ScalarBaseMult(r.bytes(4))
		x, y = curve.Add(x, y, gx, gy)
	}
	one := big.NewInt(1)
	distinct := "0,1,2,3,4,5,6,7,8"
	acc := "0,1,2,3,4,5,0,1,2"
	for i := 0; i < nOps; i++ {
		p, q := pts[r.intn(len(pts))], pts[r.intn(len(pts))]
		al := distinct
		if r.coin(1, 2) {
			al = acc
		}
		var P, Q [3]fv
		switch i % 5 {
		case 0, 1: // both z = 1 (Add, and the first steps of the loops)
			P, Q = jacOf(p, one), jacOf(q, one)
		case 2: // z2 = 1
			P, Q = jacOf(p, randLambda(r)), jacOf(q, one)
		case 3: // z1 = z2
			l := randLambda(r)
			P, Q = jacOf(p, l), jacOf(q, l)
		default:
			P, Q = jacOf(p, randLambda(r)), jacOf(q, randLambda(r))
		}
		if i%7 == 3 { // the negated y that ScalarMult passes (magnitude 2)
			Q[1] = dress(r, Q[1], 2)
		}
		var z fv
		e.emit("wrap.add", spjoin("jac.wrap add", al, fv3(P), fv3(Q), fvStr(z), fvStr(z), fvStr(z)))
		if i%4 == 0 {
			dal := "0,1,2,3,4,5"
			if r.coin(1, 2) {
				dal = "0,1,2,0,1,2"
			}
			e.emit("wrap.double", spjoin("jac.wrap double", dal, fv3(P), fvStr(z), fvStr(z), fvStr(z)))
		}
		// decompression of fresh random x (about half have a root; one of the two parities takes the negation branch)
		rx := new(big.Int).SetBytes(r.bytes(32))
		rx.Mod(rx, fldP)
		e.emit("wrap.dec", "jac.wrapdec "+rx.Text(16)+" 0")
		e.emit("wrap.dec", "jac.wrapdec "+rx.Text(16)+" 1")
		if i%3 == 0 {
			e.emit("wrap.oncurve", "jac.wraponcurve "+p.x.Text(16)+" "+p.y.Text(16))
		}
	}
}

func init() {
	generators["C09W"] = genC09W
	generators["C09"] = genC09
	generators["C10"] = genC10
	generators["C01J"] = genC01J
}
