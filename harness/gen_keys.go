package main

import (
	"bytes"
	"fmt"
	"math/big"
	"strings"

	"github.com/libsv/go-bk/base58"
	"github.com/libsv/go-bk/bec"
	"github.com/libsv/go-bk/chaincfg"
	"github.com/libsv/go-bk/crypto"
	"github.com/libsv/go-bk/wif"
)

func init() {
	generators["C05"] = genC05
	generators["C01"] = genC01
	generators["C02"] = genC02
	generators["C03"] = genC03
	generators["C12"] = genC12
}

type pt struct{ x, y *big.Int }

func (p pt) isInf() bool { return p.x.Sign() == 0 && p.y.Sign() == 0 }
func (p pt) neg() pt {
	if p.isInf() {
		return p
	}
	return pt{new(big.Int).Set(p.x), new(big.Int).Mod(new(big.Int).Neg(p.y), curveP)}
}

var beta = bigOf("7AE96A2B657C07106E64479EAC3434E99CF0497512F58995C1396C28719501EE")
var lambda = bigOf("5363AD4CC05C30E0A5261C028812645A122E22EA20816678DF02967C1B23BD72")

func (p pt) endo() pt {
	if p.isInf() {
		return p
	}
	return pt{new(big.Int).Mod(new(big.Int).Mul(p.x, beta), curveP), new(big.Int).Set(p.y)}
}

func mulG(k *big.Int) pt {
	x, y := bec.S256().ScalarBaseMult(new(big.Int).Mod(k, curveN).Bytes())
	return pt{x, y}
}

func structuredScalars(r *rng, nRand int) []*big.Int {
	one := big.NewInt(1)
	var out []*big.Int
	for _, v := range []int64{1, 2, 3, 4, 5, 7, 8, 15, 16, 255, 256, 257, 65537} {
		out = append(out, big.NewInt(v))
	}
	for _, d := range []int64{1, 2, 3} {
		out = append(out, new(big.Int).Sub(curveN, big.NewInt(d)))
	}
	half := new(big.Int).Rsh(curveN, 1)
	out = append(out, half, new(big.Int).Add(half, one), lambda, new(big.Int).Sub(curveN, lambda))
	for _, sh := range []uint{64, 127, 128, 129, 200, 255} {
		out = append(out, new(big.Int).Lsh(one, sh), new(big.Int).Sub(new(big.Int).Lsh(one, sh), one))
	}
	for i := 0; i < nRand; i++ {
		out = append(out, new(big.Int).Mod(new(big.Int).SetBytes(r.bytes(32)), curveN))
	}
	return out
}

func pointPool(r *rng, nRand int) []pt {
	pool := []pt{{new(big.Int), new(big.Int)}}
	for _, k := range structuredScalars(r, nRand) {
		p := mulG(k)
		pool = append(pool, p)
	}
	n := len(pool)
	for i := 1; i < n; i += 3 {
		pool = append(pool, pool[i].neg(), pool[i].endo())
	}
	pool = append(pool, tinyXPoints(10)...)
	pool = append(pool, rarePoints(r, 2)...)
	return pool
}

// rarePoints: genuine curve points whose coordinates put the field code into representations that random points
// reach with probability 2^-20 .. 2^-230 — the inputs on which a dropped or re-ordered Normalise shows:
//
//	(a) constructed from a chosen value v of x^3 mod p (x = cube root, y = square root of v+7):
//	    v's low 26-bit word within 7 of 2^26 (the +7 carries out of word 0), low two words all ones, v in [p-7, p-1]
//	    (v+7 wraps the prime: y = +-1, +-2, ...), v tiny;
//	(b) found by search with the real field code (hooks): x whose x^2*x leaves Mul with a word above its 26-bit mask
//	    (an unpropagated carry), y whose y^2 does.
//
// perClass points per class; deterministic in r.
func rarePoints(r *rng, perClass int) []pt {
	var out []pt
	three := big.NewInt(3)
	pm1 := new(big.Int).Sub(curveP, big.NewInt(1))
	cubicExp := new(big.Int).Div(pm1, three)                                            // v is a cube  <=>  v^((p-1)/3) = 1
	rootExp := new(big.Int).Div(new(big.Int).Add(curveP, big.NewInt(2)), big.NewInt(9)) // p = 7 mod 9: cube root = v^((p+2)/9)
	sqrtExp := new(big.Int).Rsh(new(big.Int).Add(curveP, big.NewInt(1)), 2)
	fromCube := func(v *big.Int) (pt, bool) {
		v = new(big.Int).Mod(v, curveP)
		if v.Sign() == 0 || new(big.Int).Exp(v, cubicExp, curveP).Cmp(big.NewInt(1)) != 0 {
			return pt{}, false
		}
		w := new(big.Int).Mod(new(big.Int).Add(v, big.NewInt(7)), curveP)
		y := new(big.Int).Exp(w, sqrtExp, curveP)
		if new(big.Int).Mod(new(big.Int).Mul(y, y), curveP).Cmp(w) != 0 || y.Sign() == 0 {
			return pt{}, false
		}
		x := new(big.Int).Exp(v, rootExp, curveP)
		if new(big.Int).Exp(x, three, curveP).Cmp(v) != 0 {
			return pt{}, false
		}
		return pt{x, y}, true
	}
	mask26 := big.NewInt(1<<26 - 1)
	classes := []func(i int) *big.Int{
		func(i int) *big.Int { // low word in [2^26-7, 2^26-1]
			v := new(big.Int).SetBytes(r.bytes(32))
			v.AndNot(v, mask26)
			return v.Or(v, big.NewInt(int64(1<<26-1-r.intn(7))))
		},
		func(i int) *big.Int { // low two words all ones except the last few units: the carry runs through word 1
			v := new(big.Int).SetBytes(r.bytes(32))
			v.AndNot(v, big.NewInt(1<<52-1))
			return v.Or(v, big.NewInt(int64(1<<52-1-r.intn(7))))
		},
		func(i int) *big.Int { return new(big.Int).Sub(curveP, big.NewInt(int64(1+i%7))) }, // v + 7 wraps p
		func(i int) *big.Int { return big.NewInt(int64(1 + i)) },                           // tiny cube
		func(i int) *big.Int { // v in the window [p - 2^32 - 977 ... p): x^3 has all high words at their maximum
			return new(big.Int).Sub(curveP, new(big.Int).SetBytes(r.bytes(4)))
		},
	}
	// (c) y whose low 26-bit word exceeds the prime's (0x3fffc2f), or whose second word exceeds 0x3ffffbf: a word-wise
	//     p - y with too small a magnitude argument wraps there; x from the cube root of y^2 - 7
	yClasses := []func() *big.Int{
		func() *big.Int {
			y := new(big.Int).SetBytes(r.bytes(32))
			y.AndNot(y, mask26)
			return y.Or(y, big.NewInt(int64(0x3fffc30+r.intn(0x3ffffff-0x3fffc30+1))))
		},
		func() *big.Int {
			y := new(big.Int).SetBytes(r.bytes(32))
			y.AndNot(y, new(big.Int).Lsh(mask26, 26))
			return y.Or(y, new(big.Int).Lsh(big.NewInt(int64(0x3ffffc0+r.intn(64))), 26))
		},
	}
	for _, yc := range yClasses {
		found := 0
		for i := 0; i < 400 && found < perClass; i++ {
			y := new(big.Int).Mod(yc(), curveP)
			v := new(big.Int).Mod(new(big.Int).Sub(new(big.Int).Mul(y, y), big.NewInt(7)), curveP)
			if p, ok := fromCube(v); ok {
				found++
				out = append(out, pt{p.x, y}, pt{new(big.Int).Set(p.x), new(big.Int).Sub(curveP, y)})
			}
		}
	}
	// (e) a coordinate that fits 27..33 bits (between one 26-bit field word and one machine word): shortcuts that load
	//     small integers without splitting them into words leave word 0 above its mask
	for _, bits := range []uint{27, 30, 32, 33} {
		for pass := 0; pass < 2; pass++ {
			for i := 0; i < 300; i++ {
				c := new(big.Int).SetBytes(r.bytes(5))
				c.Rsh(c, 40-bits)
				c.SetBit(c, int(bits-1), 1)
				if pass == 0 { // y small
					v := new(big.Int).Mod(new(big.Int).Sub(new(big.Int).Mul(c, c), big.NewInt(7)), curveP)
					if p, ok := fromCube(v); ok {
						out = append(out, pt{p.x, c})
						break
					}
				} else { // x small
					w := new(big.Int).Mod(new(big.Int).Add(new(big.Int).Exp(c, three, curveP), big.NewInt(7)), curveP)
					y := new(big.Int).Exp(w, sqrtExp, curveP)
					if new(big.Int).Mod(new(big.Int).Mul(y, y), curveP).Cmp(w) == 0 {
						out = append(out, pt{c, y})
						break
					}
				}
			}
		}
	}
	// (d) a coordinate in the window [N, P) (where N and P are easily confused): y = N + t with y^2 - 7 a cube,
	//     x = N + t with x^3 + 7 a square
	{
		found := 0
		for t := int64(0); t < 4000 && found < perClass; t++ {
			y := new(big.Int).Add(curveN, big.NewInt(t))
			v := new(big.Int).Mod(new(big.Int).Sub(new(big.Int).Mul(y, y), big.NewInt(7)), curveP)
			if p, ok := fromCube(v); ok {
				found++
				out = append(out, pt{p.x, y})
			}
		}
		found = 0
		for t := int64(0); t < 4000 && found < perClass; t++ {
			x := new(big.Int).Add(curveN, big.NewInt(t))
			w := new(big.Int).Mod(new(big.Int).Add(new(big.Int).Exp(x, three, curveP), big.NewInt(7)), curveP)
			y := new(big.Int).Exp(w, sqrtExp, curveP)
			if new(big.Int).Mod(new(big.Int).Mul(y, y), curveP).Cmp(w) == 0 {
				found++
				out = append(out, pt{x, y})
			}
		}
	}
	for _, cl := range classes {
		found := 0
		for i := 0; i < 400 && found < perClass; i++ {
			if p, ok := fromCube(cl(i)); ok {
				found++
				out = append(out, p)
				if found == 1 {
					out = append(out, p.endo()) // the other cube roots share v
				}
			}
		}
	}
	// (b) search with the real field arithmetic
	denorm := func(f bec.VerifFV) bool {
		for i := 0; i < 9; i++ {
			if f[i] > 0x3ffffff {
				return true
			}
		}
		return f[9] > 0x3fffff
	}
	var zeroFV bec.VerifFV
	foundX, foundY := 0, 0
	for tries := 0; tries < 1500000 && (foundX < perClass || foundY < perClass); tries++ {
		b := r.bytes(32)
		b[0] &= 0x7f
		var b32 [32]byte
		copy(b32[:], b)
		f := bec.VerifFieldSetBytes(&b32)
		sq, _ := bec.VerifFieldOp("squareval", f, zeroFV, 0)
		if foundY < perClass && denorm(sq) { // candidate y: need x with x^3 = y^2 - 7
			y := new(big.Int).SetBytes(b)
			v := new(big.Int).Mod(new(big.Int).Sub(new(big.Int).Mul(y, y), big.NewInt(7)), curveP)
			if p, ok := fromCube(v); ok {
				foundY++
				out = append(out, pt{p.x, new(big.Int).Set(y)})
			}
		}
		if foundX < perClass {
			cu, _ := bec.VerifFieldOp("mul2", sq, f, 0)
			if denorm(cu) {
				x := new(big.Int).SetBytes(b)
				w := new(big.Int).Mod(new(big.Int).Add(new(big.Int).Exp(x, three, curveP), big.NewInt(7)), curveP)
				y := new(big.Int).Exp(w, sqrtExp, curveP)
				if new(big.Int).Mod(new(big.Int).Mul(y, y), curveP).Cmp(w) == 0 {
					foundX++
					out = append(out, pt{x, y})
				}
			}
		}
	}
	return out
}

// points with a tiny x-coordinate and their endomorphism images (beta*x, y), (beta^2*x, y): for these
// x^3 mod p is tiny while x is full size, so x^3 + 7 leaves the field multiplication in the
// non-canonical window [p, 2^256) — the inputs on which a missing Normalise shows.
func tinyXPoints(max int) []pt {
	var out []pt
	for x := int64(1); x < 200 && len(out) < 3*max; x++ {
		k, err := bec.ParsePubKey(append([]byte{2}, pad32(big.NewInt(x).Bytes())...), bec.S256())
		if err != nil {
			continue
		}
		p := pt{k.X, k.Y}
		out = append(out, p, p.endo(), p.endo().endo())
	}
	return out
}

func scalarBytesPool(r *rng, nRand int) [][]byte {
	var out [][]byte
	out = append(out, []byte{}, []byte{0}, []byte{1}, []byte{0, 0, 1}, make([]byte, 32), make([]byte, 33))
	for _, v := range boundaryInts() {
		out = append(out, v.Bytes(), append([]byte{0, 0}, v.Bytes()...))
	}
	n := curveN
	out = append(out, new(big.Int).Add(n, big.NewInt(382)).Bytes())
	ff := make([]byte, 32)
	for i := range ff {
		ff[i] = 0xff
	}
	out = append(out, ff, append([]byte{0xff}, ff...))
	for _, l := range []int{33, 34, 40, 48, 64, 65, 80} {
		out = append(out, r.bytes(l))
	}
	// single bits, all-ones windows, NAF carry-outs (runs of ones from the top)
	for _, bit := range []uint{0, 1, 7, 8, 63, 64, 127, 128, 129, 254, 255} {
		out = append(out, pad32(new(big.Int).Lsh(big.NewInt(1), bit).Bytes()))
	}
	for _, w := range []uint{2, 3, 8, 9, 64, 128, 200} {
		v := new(big.Int).Sub(new(big.Int).Lsh(big.NewInt(1), w), big.NewInt(1))
		out = append(out, v.Bytes(), new(big.Int).Lsh(v, 255-w).Bytes())
	}
	// scalars whose GLV decomposition is degenerate: k = +-t*lambda (k1 = 0, k2 = +-t), k = t (k2 = 0), and
	// neighbours; in 32-byte, zero-padded and k+N / k+3N (33-byte) encodings
	for _, t := range []*big.Int{big.NewInt(1), big.NewInt(2), big.NewInt(3), big.NewInt(255), new(big.Int).SetBytes(r.bytes(8)), new(big.Int).SetBytes(r.bytes(15)), new(big.Int).Lsh(big.NewInt(1), 126)} {
		for _, sgn := range []int64{1, -1} {
			k := modN(new(big.Int).Mul(new(big.Int).Mul(t, lambda), big.NewInt(sgn)))
			out = append(out, pad32(k.Bytes()), k.Bytes(), append([]byte{0, 0, 0, 0, 0, 0, 0, 0}, pad32(k.Bytes())...))
			out = append(out, new(big.Int).Add(k, curveN).Bytes(), new(big.Int).Add(k, new(big.Int).Mul(curveN, big.NewInt(3))).Bytes())
			out = append(out, pad32(modN(new(big.Int).Add(k, big.NewInt(1))).Bytes()), pad32(modN(new(big.Int).Sub(k, big.NewInt(1))).Bytes()))
		}
		out = append(out, pad32(t.Bytes()))
	}
	// exact multiples of N that need more than 32 bytes (reduce to the empty scalar), and their successors
	for _, j := range []*big.Int{big.NewInt(2), big.NewInt(3), big.NewInt(255), big.NewInt(256), big.NewInt(65537), new(big.Int).Set(curveN)} {
		m := new(big.Int).Mul(curveN, j)
		out = append(out, m.Bytes(), append([]byte{0}, m.Bytes()...), new(big.Int).Add(m, big.NewInt(1)).Bytes())
	}
	// table rows hit with byte 0 / 255
	for row := 0; row < 32; row += 5 {
		b := r.bytes(32)
		b[row] = 0
		out = append(out, append([]byte{}, b...))
		b[row] = 255
		out = append(out, append([]byte{}, b...))
	}
	for i := 0; i < nRand; i++ {
		l := 32
		if r.coin(1, 4) {
			l = r.intn(33)
		}
		out = append(out, r.bytes(l))
	}
	return out
}

func genC01(e *emitter, r *rng, thorough bool) {
	nr := 12
	if thorough {
		nr = 60
	}
	pool := pointPool(r, nr)
	// add: all structured pairs (incl. P+P, P+(-P), P+phi(P), inf)
	for i, a := range pool {
		for j, b := range pool {
			if !thorough && (i*7+j*3)%5 != 0 && i != j && i != 0 && j != 0 {
				continue
			}
			e.emit("add", fmt.Sprintf("curve.add %s %s %s %s", nhx(a.x), nhx(a.y), nhx(b.x), nhx(b.y)))
		}
		e.emit("add.neg", fmt.Sprintf("curve.add %s %s %s %s", nhx(a.x), nhx(a.y), nhx(a.neg().x), nhx(a.neg().y)))
		e.emit("add.endo", fmt.Sprintf("curve.add %s %s %s %s", nhx(a.x), nhx(a.y), nhx(a.endo().x), nhx(a.endo().y)))
		e.emit("double", fmt.Sprintf("curve.double %s %s", nhx(a.x), nhx(a.y)))
		e.emit("oncurve.yes", fmt.Sprintf("curve.oncurve %s %s", nhx(a.x), nhx(a.y)))
		if !a.isInf() {
			y1 := new(big.Int).Mod(new(big.Int).Add(a.y, big.NewInt(1)), curveP)
			e.emit("oncurve.no", fmt.Sprintf("curve.oncurve %s %s", nhx(a.x), nhx(y1)))
			x1 := new(big.Int).Mod(new(big.Int).Add(a.x, big.NewInt(1)), curveP)
			e.emit("oncurve.no", fmt.Sprintf("curve.oncurve %s %s", nhx(x1), nhx(a.y)))
		}
	}
	// RESULTS with rare coordinates: A + (T - A) = T, 2 (T/2) = T, k (k^-1 T) = T for T a tiny-x / rare point
	{
		curve := bec.S256()
		var ts []pt
		ts = append(ts, tinyXPoints(2)...)
		ts = append(ts, rarePoints(r, 1)...)
		half := invN(big.NewInt(2))
		for _, T := range ts {
			a := mulG(modN(new(big.Int).SetBytes(r.bytes(32))))
			na := a.neg()
			dx, dy := curve.Add(T.x, T.y, na.x, na.y)
			e.emit("add.rare-result", fmt.Sprintf("curve.add %s %s %s %s", nhx(a.x), nhx(a.y), nhx(dx), nhx(dy)))
			e.emit("add.rare-result", fmt.Sprintf("curve.add %s %s %s %s", nhx(dx), nhx(dy), nhx(a.x), nhx(a.y)))
			hx2, hy2 := curve.ScalarMult(T.x, T.y, half.Bytes())
			e.emit("double.rare-result", fmt.Sprintf("curve.double %s %s", nhx(hx2), nhx(hy2)))
			k := modN(new(big.Int).SetBytes(r.bytes(32)))
			if k.Sign() != 0 {
				bx, by := curve.ScalarMult(T.x, T.y, invN(k).Bytes())
				e.emit("smul.rare-result", fmt.Sprintf("curve.smul %s %s %s", nhx(bx), nhx(by), hx(pad32(k.Bytes()))))
				e.emit("smul.rare-result", fmt.Sprintf("impl.smul %s %s %s", nhx(bx), nhx(by), hx(pad32(k.Bytes()))))
			}
		}
	}
	for _, v := range []int64{0, 1, 2, 3, 7} {
		for _, w := range []int64{0, 1, 2, 3, 7} {
			e.emit("oncurve.small", fmt.Sprintf("curve.oncurve %x %x", v, w))
		}
	}
	pm1 := new(big.Int).Sub(curveP, big.NewInt(1))
	e.emit("oncurve.edge", fmt.Sprintf("curve.oncurve %s %s", nhx(pm1), nhx(pm1)))
	scalars := scalarBytesPool(r, nr)
	for _, k := range scalars {
		e.emit("sbmul", "curve.sbmul "+hx(k))
		// the scalar decomposition and recoding inside ScalarMult (through the build-tag hooks)
		if len(k) <= 32 {
			e.emit("splitk", "impl.splitk "+hx(k))
		}
		e.emit("naf", "impl.naf "+hx(k))
	}
	for i := 0; i < 40*nr; i++ {
		e.emit("splitk.rand", "impl.splitk "+hx(r.bytes(32)))
		b := r.bytes(1 + r.intn(20))
		// runs of ones make the NAF carry ripple; a leading 0xff.. makes it leave the top
		for j := range b {
			if r.coin(1, 3) {
				b[j] = 0xff
			}
		}
		e.emit("naf.rand", "impl.naf "+hx(b))
	}
	for i, a := range pool {
		for j, k := range scalars {
			if !thorough && (i*5+j)%9 != 0 {
				continue
			}
			e.emit("smul", fmt.Sprintf("curve.smul %s %s %s", nhx(a.x), nhx(a.y), hx(k)))
		}
	}
	if thorough {
		// every table entry through ScalarBaseMult
		for row := 0; row < 32; row++ {
			for b := 0; b < 256; b++ {
				k := make([]byte, 32)
				k[row] = byte(b)
				e.emit("sbmul.table", "curve.sbmul "+hx(k))
			}
		}
	} else {
		for row := 0; row < 32; row++ {
			for t := 0; t < 8; t++ {
				k := make([]byte, 32)
				k[row] = byte(r.intn(256))
				e.emit("sbmul.table", "curve.sbmul "+hx(k))
			}
		}
	}
}

func genC05(e *emitter, r *rng, thorough bool) {
	// every prefix byte x {X valid, X zero, X = P} x {Y zero, Y one, Y = P-1}: the parity / range / curve checks in every order
	{
		g := mulG(big.NewInt(99991))
		for pre := 0; pre < 256; pre++ {
			if pre > 8 && pre%51 != 0 {
				continue
			}
			for _, x := range []*big.Int{g.x, new(big.Int), curveP} {
				for _, y := range []*big.Int{new(big.Int), big.NewInt(1), new(big.Int).Sub(curveP, big.NewInt(1)), g.y} {
					b := append([]byte{byte(pre)}, pad32(x.Bytes())...)
					b = append(b, pad32(y.Bytes())...)
					e.emit("parse.prefix-x-y-grid", "parsepub "+hx(b))
				}
			}
		}
	}
	// a valid encoding followed by 256, 512 or 65536 more bytes: the LENGTH must decide, not the length modulo 2^8 / 2^16
	{
		g := mulG(big.NewInt(424243))
		pk := pubOf(g.x, g.y)
		for _, enc := range [][]byte{pk.SerialiseCompressed(), pk.SerialiseUncompressed(), pk.SerialiseHybrid()} {
			for _, extra := range []int{255, 256, 257, 512, 65536} {
				e.emit("parse.len-mod-2^k", "parsepub "+hx(append(append([]byte{}, enc...), r.bytes(extra)...)))
				e.emit("parse.len-mod-2^k.zeros", "parsepub "+hx(append(append([]byte{}, enc...), make([]byte, extra)...)))
				if len(enc) == 65 { // 04 || X || 00^extra || Y
					x := append(append(append([]byte{}, enc[:33]...), make([]byte, extra)...), enc[33:]...)
					e.emit("parse.len-mod-2^k.inner", "parsepub "+hx(x))
				}
			}
		}
	}
	// back to back in one process: a point, its negation, the same point in the other formats, a wrong-parity hybrid, an
	// invalid X in between — what a last-result memo keyed by part of the input gets wrong
	for i := 0; i < 12; i++ {
		g := mulG(new(big.Int).SetBytes(r.bytes(1 + r.intn(32))))
		if g.isInf() {
			continue
		}
		pk, nk := pubOf(g.x, g.y), pubOf(g.x, new(big.Int).Sub(curveP, g.y))
		c, nc := pk.SerialiseCompressed(), nk.SerialiseCompressed()
		badHybrid := pk.SerialiseHybrid()
		badHybrid[0] ^= 1
		offCurve := append([]byte{}, c...)
		offCurve[32] ^= byte(1 + r.intn(255))
		seq := [][]byte{c, nc, c, pk.SerialiseUncompressed(), nc, nk.SerialiseUncompressed(), c, pk.SerialiseHybrid(), nc, nk.SerialiseHybrid(), badHybrid, c, offCurve, nc, offCurve, c}
		hs := make([]string, len(seq))
		for j, b := range seq {
			hs[j] = hx(b)
		}
		e.emit("parse.seq.twins-and-formats", "parsepub.seq "+strings.Join(hs, ","))
	}
	nr := 8
	if thorough {
		nr = 40
	}
	pool := pointPool(r, nr)
	one := big.NewInt(1)
	for _, p := range pool {
		if p.isInf() {
			continue
		}
		e.emit("serpub", fmt.Sprintf("serpub %s %s", nhx(p.x), nhx(p.y)))
		k := pubOf(p.x, p.y)
		u, c, h := k.SerialiseUncompressed(), k.SerialiseCompressed(), k.SerialiseHybrid()
		e.emit("parse.u", "parsepub "+hx(u))
		e.emit("parse.c", "parsepub "+hx(c))
		e.emit("parse.h", "parsepub "+hx(h))
		// wrong parity
		c2 := append([]byte{}, c...)
		c2[0] ^= 1
		e.emit("parse.c-flip", "parsepub "+hx(c2))
		h2 := append([]byte{}, h...)
		h2[0] ^= 1
		e.emit("parse.h-wrongparity", "parsepub "+hx(h2))
		// off curve
		u2 := append([]byte{}, u...)
		u2[64] ^= 1
		e.emit("parse.offcurve", "parsepub "+hx(u2))
		// aliases x+P, y+P where they fit in 32 bytes
		xp := new(big.Int).Add(p.x, curveP)
		if xp.BitLen() <= 256 {
			e.emit("parse.c-alias", "parsepub "+hx(append([]byte{c[0]}, pad32(xp.Bytes())...)))
			e.emit("parse.u-aliasx", "parsepub "+hx(append(append([]byte{4}, pad32(xp.Bytes())...), u[33:]...)))
		}
		yp := new(big.Int).Add(p.y, curveP)
		if yp.BitLen() <= 256 {
			e.emit("parse.u-aliasy", "parsepub "+hx(append(append([]byte{4}, u[1:33]...), pad32(yp.Bytes())...)))
		}
		for _, pre := range []byte{6, 7} { // hybrid: both parity prefixes
			if xp.BitLen() <= 256 {
				e.emit("parse.h-aliasx", "parsepub "+hx(append(append([]byte{pre}, pad32(xp.Bytes())...), u[33:]...)))
			}
			if yp.BitLen() <= 256 {
				e.emit("parse.h-aliasy", "parsepub "+hx(append(append([]byte{pre}, u[1:33]...), pad32(yp.Bytes())...)))
			}
		}
	}
	// points with a coordinate below 2^256 - P, so that coordinate + P still fits 32 bytes: every format with the aliased
	// coordinate must be refused
	for _, p := range rarePoints(r, 1) {
		for ci, cv := range []*big.Int{p.x, p.y} {
			al := new(big.Int).Add(cv, curveP)
			if al.BitLen() > 256 {
				continue
			}
			xb, yb := pad32(p.x.Bytes()), pad32(p.y.Bytes())
			if ci == 0 {
				xb = pad32(al.Bytes())
			} else {
				yb = pad32(al.Bytes())
			}
			for _, pre := range []byte{4, 6, 7} {
				e.emit(fmt.Sprintf("parse.rare-alias.%d", ci), "parsepub "+hx(append(append([]byte{pre}, xb...), yb...)))
			}
			if ci == 0 {
				e.emit("parse.rare-alias.c", "parsepub "+hx(append([]byte{2 + byte(p.y.Bit(0))}, xb...)))
			}
		}
	}
	// small on-curve x values, aliased by +P (the compressed-branch range check)
	cnt := 0
	for x := int64(1); x < 200 && cnt < 12; x++ {
		for _, pre := range []byte{2, 3} {
			b := append([]byte{pre}, pad32(big.NewInt(x).Bytes())...)
			e.emit("parse.c-small", "parsepub "+hx(b))
			xp := new(big.Int).Add(big.NewInt(x), curveP)
			e.emit("parse.c-small-alias", "parsepub "+hx(append([]byte{pre}, pad32(xp.Bytes())...)))
		}
		cnt++
	}
	// boundary x, y
	p0 := pool[3]
	for _, v := range []*big.Int{new(big.Int).Sub(curveP, one), curveP, new(big.Int).Add(curveP, one), new(big.Int).Sub(new(big.Int).Lsh(one, 256), one), new(big.Int)} {
		for _, pre := range []byte{2, 3} {
			e.emit("parse.c-boundary", "parsepub "+hx(append([]byte{pre}, pad32(v.Bytes())...)))
		}
		e.emit("parse.u-boundary", "parsepub "+hx(append(append([]byte{4}, pad32(v.Bytes())...), pad32(p0.y.Bytes())...)))
		e.emit("parse.u-boundary", "parsepub "+hx(append(append([]byte{4}, pad32(p0.x.Bytes())...), pad32(v.Bytes())...)))
	}
	// every length x every prefix byte on a valid body
	k := pubOf(p0.x, p0.y)
	u := k.SerialiseUncompressed()
	for l := 0; l <= 70; l++ {
		for pre := 0; pre < 256; pre++ {
			if !thorough && l != 33 && l != 65 && (pre > 8 && pre%37 != l%37) {
				continue
			}
			body := make([]byte, 0, l)
			if l > 0 {
				body = append(body, byte(pre))
				src := u[1:]
				for len(body) < l {
					if len(body)-1 < len(src) {
						body = append(body, src[len(body)-1])
					} else {
						body = append(body, byte(len(body)))
					}
				}
			}
			e.emit(fmt.Sprintf("parse.len%d", l), "parsepub "+hx(body))
		}
	}
	// random compressed candidates (half have no curve point)
	n := 60
	if thorough {
		n = 1000
	}
	for i := 0; i < n; i++ {
		b := append([]byte{byte(2 + r.intn(2))}, r.bytes(32)...)
		e.emit("parse.c-rand", "parsepub "+hx(b))
	}
	// private scalars of 0..32 bytes
	for l := 0; l <= 32; l++ {
		for t := 0; t < 2; t++ {
			b := r.bytes(l)
			if t == 1 && l > 1 {
				b[0] = 0
			}
			e.emit("privbytes", "privbytes "+hx(b))
		}
	}
	for _, v := range boundaryInts() {
		if len(v.Bytes()) <= 32 {
			e.emit("privbytes.boundary", "privbytes "+hx(v.Bytes()))
		}
	}
	// encodings longer than 32 bytes: zero bytes in front of a 32-byte key (the number is the same), and longer numbers
	for _, extra := range []int{1, 2, 8, 32} {
		k := r.bytes(32)
		e.emit("privbytes.long-leading-zeros", "privbytes "+hx(append(make([]byte, extra), k...)))
		e.emit("privbytes.long", "privbytes "+hx(append(r.bytes(extra), k...)))
		e.emit("privbytes.long-leading-zeros", "privbytes "+hx(append(make([]byte, extra), 1)))
	}
}

func keyPool(r *rng, n int) []*big.Int {
	one := big.NewInt(1)
	keys := []*big.Int{big.NewInt(1), big.NewInt(2), new(big.Int).Sub(curveN, one), new(big.Int).Sub(curveN, big.NewInt(2)),
		new(big.Int).Rsh(curveN, 1), new(big.Int).Add(new(big.Int).Rsh(curveN, 1), one)}
	for z := 1; z <= 3; z++ {
		b := r.bytes(32)
		for i := 0; i < z; i++ {
			b[i] = 0
		}
		keys = append(keys, new(big.Int).SetBytes(b))
	}
	for i := 0; i < n; i++ {
		k := new(big.Int).Mod(new(big.Int).SetBytes(r.bytes(32)), curveN)
		if k.Sign() == 0 {
			k.SetInt64(5)
		}
		keys = append(keys, k)
	}
	return keys
}

func hashPool(r *rng, n int) [][]byte {
	var hs [][]byte
	for _, l := range []int{0, 1, 20, 31, 32, 33, 64, 100} {
		hs = append(hs, r.bytes(l))
	}
	one := big.NewInt(1)
	for _, v := range []*big.Int{new(big.Int), new(big.Int).Sub(curveN, one), curveN, new(big.Int).Add(curveN, one),
		new(big.Int).Sub(new(big.Int).Lsh(one, 256), one)} {
		hs = append(hs, pad32(v.Bytes()))
	}
	hs = append(hs, append(pad32(curveN.Bytes()), 1, 2, 3))
	// short and long hashes at the extremes of their length: all ones (above N's leading bytes when compared as byte
	// strings, below N as numbers when shorter than 32 bytes), N's own leading bytes, all zero
	nb := pad32(curveN.Bytes())
	for _, l := range []int{1, 8, 15, 16, 17, 20, 24, 28, 31, 33, 40, 64} {
		ff := bytes.Repeat([]byte{0xff}, l)
		hs = append(hs, ff, make([]byte, l))
		if l < 32 {
			hs = append(hs, append([]byte{}, nb[:l]...))
			x := append([]byte{}, nb[:l]...)
			x[l-1]++
			hs = append(hs, x)
		}
	}
	for i := 0; i < n; i++ {
		hs = append(hs, r.bytes(32))
	}
	return hs
}

func genC02(e *emitter, r *rng, thorough bool) {
	nk, nh := 6, 6
	if thorough {
		nk, nh = 60, 60
	}
	keys := keyPool(r, nk)
	hashes := hashPool(r, nh)
	// search: signatures the library itself does not accept (a rare representation inside the signer — an intermediate that
	// is not reduced before it is serialised — gives an (r,s) that no longer verifies; about one nonce in 10^5 for some
	// slips).  Only inputs on which Sign and Verify disagree are emitted, so on a correct library this emits nothing.
	{
		n := 25000
		if thorough {
			n = 400000
		}
		dd := keys[len(keys)-1]
		priv := privOf(dd)
		pub := priv.PubKey()
		hb := make([]byte, 32)
		found := 0
		for i := 0; i < n && found < 3; i++ {
			v := r.next()
			for j := 0; j < 32; j++ {
				hb[j] = byte(v >> uint(8*(j%8)))
				if j%8 == 7 {
					v = v*6364136223846793005 + 1442695040888963407
				}
			}
			sig, err := priv.Sign(hb)
			if err != nil || !sig.Verify(hb, pub) {
				found++
				e.emit("sign.self-inconsistent", "sign "+nhx(dd)+" "+hx(hb))
			}
		}
	}
	// one key, several messages through ONE caller-owned buffer, signatures held to the end (equal lengths, mixed
	// lengths, the same message twice, a message after a longer one)
	for i, d := range keys {
		var hs []string
		for j := 0; j < 4+r.intn(3); j++ {
			h := hashes[(i*7+j*3)%len(hashes)]
			if len(h) == 0 || len(h) > 64 {
				h = r.bytes(32)
			}
			hs = append(hs, hx(h))
		}
		hs = append(hs, hs[0], hx(r.bytes(32)), hx(r.bytes(20)), hx(r.bytes(32)))
		e.emit("sign.seq", "sign.seq "+nhx(d)+" "+strings.Join(hs, ","))
	}
	for i, d := range keys {
		for j, h := range hashes {
			if !thorough && (i+j)%3 != 0 {
				continue
			}
			e.emit("sign", "sign "+nhx(d)+" "+hx(h))
		}
	}
	// volume: rare shapes of (r,s) (short s with a high leading byte, s just above/below N/2, ...) occur
	// once in a few hundred signatures
	nvol := 4000
	if thorough {
		nvol = 40000
	}
	for i := 0; i < nvol; i++ {
		d := modN(new(big.Int).SetBytes(r.bytes(32)))
		if d.Sign() == 0 {
			d.SetInt64(3)
		}
		e.emit("sign.volume", "sign "+nhx(d)+" "+hx(r.bytes(32)))
	}
	// known-answer vectors (RFC 6979 style for secp256k1, widely published)
	e.emit("sign.kat", "sign 1 "+hx(crypto.Sha256([]byte("Satoshi Nakamoto"))))
	e.emit("sign.kat", "sign 1 "+hx(crypto.Sha256([]byte("All those moments will be lost in time, like tears in rain. Time to die..."))))
	e.emit("sign.kat", "sign "+nhx(new(big.Int).Sub(curveN, big.NewInt(1)))+" "+hx(crypto.Sha256([]byte("Satoshi Nakamoto"))))
}

func modN(x *big.Int) *big.Int { return new(big.Int).Mod(x, curveN) }
func invN(x *big.Int) *big.Int { return new(big.Int).ModInverse(x, curveN) }

func genC03(e *emitter, r *rng, thorough bool) {
	nk := 5
	if thorough {
		nk = 50
	}
	keys := keyPool(r, nk)
	one := big.NewInt(1)
	emitV := func(class string, q pt, h []byte, rr, ss *big.Int) {
		e.emit(class, fmt.Sprintf("verify %s %s %s %s %s", nhx(q.x), nhx(q.y), hx(h), nhx(rr), nhx(ss)))
	}
	for _, d := range keys {
		q := mulG(d)
		h := r.bytes(32)
		sig, err := privOf(d).Sign(h)
		if err != nil {
			continue
		}
		emitV("honest", q, h, sig.R, sig.S)
		emitV("twin", q, h, sig.R, new(big.Int).Sub(curveN, sig.S))
		// one-field perturbations
		h2 := append([]byte{}, h...)
		h2[r.intn(32)] ^= 1 << uint(r.intn(8))
		emitV("bad.hash", q, h2, sig.R, sig.S)
		emitV("bad.r+1", q, h, new(big.Int).Add(sig.R, one), sig.S)
		emitV("bad.s+1", q, h, sig.R, new(big.Int).Add(sig.S, one))
		emitV("bad.key", mulG(new(big.Int).Add(d, one)), h, sig.R, sig.S)
		emitV("bad.negkey", q.neg(), h, sig.R, sig.S)
		emitV("alias.r+N", q, h, new(big.Int).Add(sig.R, curveN), sig.S)
		emitV("alias.s+N", q, h, sig.R, new(big.Int).Add(sig.S, curveN))
		emitV("neg.r", q, h, new(big.Int).Neg(sig.R), sig.S)
		emitV("neg.s", q, h, sig.R, new(big.Int).Neg(sig.S))
		for _, v := range []*big.Int{new(big.Int), one, new(big.Int).Sub(curveN, one), curveN, new(big.Int).Add(curveN, one)} {
			emitV("range.r", q, h, v, sig.S)
			emitV("range.s", q, h, sig.R, v)
		}
		// hash longer than 32 bytes: only the first 32 count
		emitV("hash.long", q, append(append([]byte{}, h...), 9, 9, 9), sig.R, sig.S)
		emitV("hash.short", q, h[:31], sig.R, sig.S)
		// after a positive answer: the same bytes with the boundary between two adjacent arguments moved (hash | r | s).  A
		// memo of accepted (hash, r, s, key) tuples keyed by their unframed concatenation cannot tell these apart.  The
		// honest call is repeated so that every shard (ops are dealt round-robin to at most 32 processes) has seen it.
		if rb, sb := sig.R.Bytes(), sig.S.Bytes(); len(rb) > 4 && len(sb) > 4 {
			for t := 0; t < 32; t++ {
				emitV("reframe.honest", q, h, sig.R, sig.S)
			}
			cat := func(a, b []byte) []byte { return append(append([]byte{}, a...), b...) }
			for _, j := range []int{1, 2, len(rb) / 2, len(rb) - 1} {
				emitV("reframe.hash|r", q, cat(h, rb[:j]), new(big.Int).SetBytes(rb[j:]), sig.S)
				emitV("reframe.r|s", q, h, new(big.Int).SetBytes(rb[:len(rb)-j]), new(big.Int).SetBytes(cat(rb[len(rb)-j:], sb)))
				emitV("reframe.r|s.b", q, h, new(big.Int).SetBytes(cat(rb, sb[:j])), new(big.Int).SetBytes(sb[j:]))
				emitV("reframe.hash|r.b", q, h[:32-j], new(big.Int).SetBytes(cat(h[32-j:], rb)), sig.S)
			}
		}
		// constructed relations: choose u1,u2, R = u1 G + u2 Q, r = x(R) mod N, s = r/u2, e = u1*s
		construct := func(class string, u1, u2 *big.Int) {
			if modN(u2).Sign() == 0 {
				return
			}
			p1 := mulG(u1)
			x2, y2 := bec.S256().ScalarMult(q.x, q.y, modN(u2).Bytes())
			x, y := bec.S256().Add(p1.x, p1.y, x2, y2)
			rr := modN(x)
			if x.Sign() == 0 && y.Sign() == 0 {
				// infinity: any r must be rejected; try a few
				rr = big.NewInt(1)
			}
			if rr.Sign() == 0 {
				return
			}
			ss := modN(new(big.Int).Mul(rr, invN(u2)))
			ee := modN(new(big.Int).Mul(u1, ss))
			emitV(class, q, pad32(ee.Bytes()), rr, ss)
			emitV(class+".twin", q, pad32(ee.Bytes()), rr, new(big.Int).Sub(curveN, ss))
		}
		u2 := modN(new(big.Int).SetBytes(r.bytes(32)))
		if u2.Sign() == 0 {
			u2.SetInt64(3)
		}
		construct("cons.generic", modN(new(big.Int).SetBytes(r.bytes(32))), u2)
		construct("cons.double", modN(new(big.Int).Mul(u2, d)), u2)                     // u1 G = u2 Q
		construct("cons.infinity", modN(new(big.Int).Neg(new(big.Int).Mul(u2, d))), u2) // u1 G = -u2 Q
		construct("cons.e0", new(big.Int), u2)                                          // e = 0: first product is infinity
		// ... and the other spellings of the digest e = 0 (empty, one zero byte, 31, 33 and 64 zero bytes) and of e = 1
		if x2, _ := bec.S256().ScalarMult(q.x, q.y, u2.Bytes()); modN(x2).Sign() != 0 {
			rr := modN(x2)
			ss := modN(new(big.Int).Mul(rr, invN(u2)))
			for _, l := range []int{0, 1, 31, 33, 64} {
				emitV(fmt.Sprintf("cons.e0.len%d", l), q, make([]byte, l), rr, ss)
				emitV(fmt.Sprintf("cons.e0.len%d.twin", l), q, make([]byte, l), rr, new(big.Int).Sub(curveN, ss))
			}
		}
		construct("cons.u1=1", one, u2)
		// u2 (the multiplier of the public key: the GLV/NAF path) from the structured scalar pool of the curve stream:
		// +-t*lambda (degenerate split), boundary values, single bits, runs of ones, ...
		if d == keys[0] || thorough {
			for _, kb := range scalarBytesPool(r, 2) {
				k := modN(new(big.Int).SetBytes(kb))
				if k.Sign() != 0 {
					construct("cons.u2pool", modN(new(big.Int).SetBytes(r.bytes(32))), k)
				}
			}
		}
		// hash >= N encodes e mod N
		u1 := modN(new(big.Int).SetBytes(r.bytes(16)))
		{
			p1 := mulG(u1)
			x2, y2 := bec.S256().ScalarMult(q.x, q.y, u2.Bytes())
			x, _ := bec.S256().Add(p1.x, p1.y, x2, y2)
			rr := modN(x)
			if rr.Sign() != 0 {
				ss := modN(new(big.Int).Mul(rr, invN(u2)))
				ee := modN(new(big.Int).Mul(u1, ss))
				eN := new(big.Int).Add(ee, curveN)
				if eN.BitLen() <= 256 {
					emitV("cons.hash>=N", q, pad32(eN.Bytes()), rr, ss)
				}
			}
		}
	}
	// signatures whose nonce point R = u1 G + u2 Q IS a point with rare coordinates (tiny x, x^3 near a word boundary,
	// ...): the conversion of the RESULT back to affine big integers is where a weakened final normalisation shows.
	// R chosen, u1 and s free: P2 = R - u1 G, e = u1 s, r = x(R) mod N, Q = (r/s)^-1 P2.
	{
		curve := bec.S256()
		var rs []pt
		rs = append(rs, tinyXPoints(3)...)
		rs = append(rs, rarePoints(r, 1)...)
		for _, R := range rs {
			rr := modN(R.x)
			if rr.Sign() == 0 {
				continue
			}
			u1 := modN(new(big.Int).SetBytes(r.bytes(32)))
			ss := modN(new(big.Int).SetBytes(r.bytes(32)))
			if u1.Sign() == 0 || ss.Sign() == 0 {
				continue
			}
			p1 := mulG(u1)
			nx, ny := p1.neg().x, p1.neg().y
			p2x, p2y := curve.Add(R.x, R.y, nx, ny)
			u2 := modN(new(big.Int).Mul(rr, invN(ss)))
			qx, qy := curve.ScalarMult(p2x, p2y, invN(u2).Bytes())
			q := pt{qx, qy}
			if q.isInf() {
				continue
			}
			ee := modN(new(big.Int).Mul(u1, ss))
			emitV("cons.rareR", q, pad32(ee.Bytes()), rr, ss)
			emitV("cons.rareR.twin", q, pad32(ee.Bytes()), rr, new(big.Int).Sub(curveN, ss))
			emitV("cons.rareR.r+1", q, pad32(ee.Bytes()), new(big.Int).Add(rr, one), ss)
		}
	}
	// signatures whose R has an x-coordinate in [N, P): r = x(R) - N is tiny.  Take the curve points with
	// x = N + t, pick s and e freely and solve for the key: Q = r^-1 (s R - e G).  Verify must ACCEPT
	// (x(R) mod N = r) — and reject the same (r,s) for the R with x = r when that is a different point.
	nrx := 4
	if thorough {
		nrx = 30
	}
	found := 0
	for t := int64(1); t < 400 && found < nrx; t++ {
		xR := new(big.Int).Add(curveN, big.NewInt(t))
		if xR.Cmp(curveP) >= 0 {
			break
		}
		R, err := bec.ParsePubKey(append([]byte{byte(2 + r.intn(2))}, pad32(xR.Bytes())...), bec.S256())
		if err != nil {
			continue
		}
		found++
		rr := big.NewInt(t)
		ss := modN(new(big.Int).SetBytes(r.bytes(32)))
		if ss.Sign() == 0 {
			ss.SetInt64(7)
		}
		hh := r.bytes(32)
		ee := modN(new(big.Int).SetBytes(hh))
		sx, sy := bec.S256().ScalarMult(R.X, R.Y, ss.Bytes())
		ex, ey := bec.S256().ScalarBaseMult(modN(new(big.Int).Neg(ee)).Bytes())
		tx, ty := bec.S256().Add(sx, sy, ex, ey)
		qx, qy := bec.S256().ScalarMult(tx, ty, invN(rr).Bytes())
		qq := pt{qx, qy}
		if qq.isInf() {
			continue
		}
		emitV("cons.rx>=N", qq, hh, rr, ss)
		emitV("cons.rx>=N.twin", qq, hh, rr, new(big.Int).Sub(curveN, ss))
		emitV("cons.rx>=N.r+N", qq, hh, xR, ss) // r itself out of range: must be rejected
	}
	// u1 = 0, u2 = 1: hash = 0 and r = s = x(Q) mod N is a valid signature for ANY key Q (R = Q itself);
	// with ordinary keys and with keys whose X lies in [N, P)
	zero32 := make([]byte, 32)
	for _, d := range keys[:4] {
		q := mulG(d)
		rr := modN(q.x)
		if rr.Sign() != 0 {
			emitV("cons.u1=0,u2=1", q, zero32, rr, rr)
			emitV("cons.u1=0,u2=1.hashN", q, pad32(curveN.Bytes()), rr, rr)
		}
	}
	for t := int64(1); t < 60; t++ {
		xQ := new(big.Int).Add(curveN, big.NewInt(t))
		Q, err := bec.ParsePubKey(append([]byte{2}, pad32(xQ.Bytes())...), bec.S256())
		if err != nil {
			continue
		}
		emitV("cons.u1=0,u2=1.X>=N", pt{Q.X, Q.Y}, zero32, big.NewInt(t), big.NewInt(t))
	}
	// (r' = r + N with r tiny and an unrelated key)
	q := mulG(big.NewInt(7))
	emitV("alias.tiny", q, r.bytes(32), new(big.Int).Add(curveN, one), one)
}

func genC12(e *emitter, r *rng, thorough bool) {
	nk := 4
	if thorough {
		nk = 40
	}
	keys := keyPool(r, nk)
	one := big.NewInt(1)
	for _, d := range keys {
		for _, c := range []string{"0", "1"} {
			h := r.bytes(32)
			e.emit("sign", "compact.sign "+nhx(d)+" "+hx(h)+" "+c)
			out, err := bec.SignCompact(bec.S256(), privOf(d), h, c == "1")
			if err != nil {
				continue
			}
			e.emit("recover.honest", "compact.recover "+hx(out)+" "+hx(h))
			// every header byte
			for hb := 0; hb < 256; hb++ {
				if !thorough && hb > 40 && hb%16 != 3 {
					continue
				}
				x := append([]byte{}, out...)
				x[0] = byte(hb)
				e.emit("recover.header", "compact.recover "+hx(x)+" "+hx(h))
			}
			// other hash, perturbed r / s
			e.emit("recover.otherhash", "compact.recover "+hx(out)+" "+hx(r.bytes(32)))
			// hashes at the extremes (≥ N as numbers, longer than 32 bytes, short), signed and recovered
			for _, hh := range [][]byte{bytes.Repeat([]byte{0xff}, 32), bytes.Repeat([]byte{0xff}, 64), append(bytes.Repeat([]byte{0xff}, 16), r.bytes(48)...),
				pad32(new(big.Int).Add(curveN, big.NewInt(1)).Bytes()), bytes.Repeat([]byte{0xff}, 20), make([]byte, 32)} {
				e.emit("sign.hash-extreme", "compact.sign "+nhx(d)+" "+hx(hh)+" "+c)
				e.emit("recover.hash-extreme", "compact.recover "+hx(out)+" "+hx(hh))
				if o2, err := bec.SignCompact(bec.S256(), privOf(d), hh, c == "1"); err == nil {
					e.emit("recover.hash-extreme.own", "compact.recover "+hx(o2)+" "+hx(hh))
				}
			}
			x := append([]byte{}, out...)
			x[1+r.intn(32)] ^= 1
			e.emit("recover.badr", "compact.recover "+hx(x)+" "+hx(h))
			y := append([]byte{}, out...)
			y[33+r.intn(32)] ^= 1
			e.emit("recover.bads", "compact.recover "+hx(y)+" "+hx(h))
		}
	}
	// hashes whose integer is 0 mod N (e = 0): the two recovery candidates are Q and -Q, which share X, so only a
	// comparison of BOTH coordinates picks the right recovery id; plus hashes around N and short/long hashes
	{
		nb := pad32(curveN.Bytes())
		zeroish := [][]byte{make([]byte, 32), {}, make([]byte, 20), make([]byte, 64), nb, append(append([]byte{}, nb...), r.bytes(8)...),
			pad32(new(big.Int).Add(curveN, one).Bytes()), pad32(new(big.Int).Sub(curveN, one).Bytes()), pad32(one.Bytes())}
		var ds []*big.Int
		for d := int64(1); d <= 12; d++ {
			ds = append(ds, big.NewInt(d))
		}
		ds = append(ds, keys...)
		for _, d := range ds {
			for hi, hh := range zeroish {
				c := []string{"0", "1"}[(hi+int(d.Int64()&1))%2]
				e.emit("sign.e0", "compact.sign "+nhx(d)+" "+hx(hh)+" "+c)
				if out, err := bec.SignCompact(bec.S256(), privOf(d), hh, c == "1"); err == nil {
					e.emit("recover.e0", "compact.recover "+hx(out)+" "+hx(hh))
					x := append([]byte{}, out...)
					x[0] = ((x[0] - 27) ^ 1) + 27 // the other parity: must recover -Q (or fail), never Q
					e.emit("recover.e0.flip", "compact.recover "+hx(x)+" "+hx(hh))
				}
			}
		}
	}
	h := r.bytes(32)
	mk := func(hb byte, rr, ss *big.Int) []byte {
		return append(append([]byte{hb}, pad32(rr.Bytes())...), pad32(ss.Bytes())...)
	}
	for _, v := range []*big.Int{new(big.Int), one, new(big.Int).Sub(curveN, one), curveN, new(big.Int).Add(curveN, one),
		new(big.Int).Sub(new(big.Int).Lsh(one, 256), one)} {
		for hb := byte(27); hb < 35; hb++ {
			e.emit("recover.range", "compact.recover "+hx(mk(hb, v, big.NewInt(5)))+" "+hx(h))
			e.emit("recover.range", "compact.recover "+hx(mk(hb, big.NewInt(5), v))+" "+hx(h))
		}
	}
	// r in the band [P-N, 2^256-N): r + N >= P must be rejected for recid 2/3 although it still fits 256 bits
	pmn := new(big.Int).Sub(curveP, curveN)
	top := new(big.Int).Sub(new(big.Int).Lsh(one, 256), curveN)
	for d := int64(-3); d < 70; d++ {
		rr := new(big.Int).Add(pmn, big.NewInt(d))
		for _, hb := range []byte{27, 29, 30, 33, 34} {
			e.emit("recover.rx-band", "compact.recover "+hx(mk(hb, rr, big.NewInt(5+d*d)))+" "+hx(h))
		}
	}
	for d := int64(1); d < 6; d++ {
		rr := new(big.Int).Sub(top, big.NewInt(d))
		for _, hb := range []byte{29, 30} {
			e.emit("recover.rx-band", "compact.recover "+hx(mk(hb, rr, big.NewInt(9)))+" "+hx(h))
		}
	}
	// R with rare coordinates (see rarePoints): r = R.x, any s, any hash recovers SOME key; the decompression of R is
	// where a lazily normalised x^3 + 7 shows
	for _, p := range rarePoints(r, 2) {
		if p.x.Cmp(curveN) < 0 && p.x.Sign() > 0 {
			for _, hb := range []byte{27, 28, 31, 32} {
				e.emit("recover.rare-R", "compact.recover "+hx(mk(hb, p.x, modN(new(big.Int).SetBytes(r.bytes(32)))))+" "+hx(r.bytes(32)))
			}
		} else if xm := new(big.Int).Sub(p.x, curveN); xm.Sign() > 0 {
			for _, hb := range []byte{29, 30, 33, 34} {
				e.emit("recover.rare-R.x>=N", "compact.recover "+hx(mk(hb, xm, modN(new(big.Int).SetBytes(r.bytes(32)))))+" "+hx(r.bytes(32)))
			}
		}
	}
	// tiny r with recid 2/3 (r + N < P)
	for rr := int64(1); rr < 12; rr++ {
		for hb := byte(27); hb < 35; hb++ {
			e.emit("recover.tiny", "compact.recover "+hx(mk(hb, big.NewInt(rr), big.NewInt(rr+1)))+" "+hx(h))
		}
	}
	// constructed doubling: R = kG, any s, e = -s k  =>  sR and -eG are the SAME point: the last addition of the
	// recovery is a doubling (an addition formula without the tangent case returns garbage there)
	for i := 0; i < 6; i++ {
		k := modN(new(big.Int).SetBytes(r.bytes(32)))
		if i < 2 {
			k = big.NewInt(int64(1 + i))
		}
		if k.Sign() == 0 {
			continue
		}
		R := mulG(k)
		if R.x.Cmp(curveN) >= 0 {
			continue
		}
		ss := modN(new(big.Int).SetBytes(r.bytes(32)))
		if i == 0 {
			ss = big.NewInt(1)
		}
		if ss.Sign() == 0 {
			continue
		}
		ee := modN(new(big.Int).Neg(new(big.Int).Mul(ss, k)))
		hb := byte(27 + R.y.Bit(0))
		e.emit("recover.doubling", "compact.recover "+hx(mk(hb, R.x, ss))+" "+hx(pad32(ee.Bytes())))
		e.emit("recover.doubling-c", "compact.recover "+hx(mk(hb+4, R.x, ss))+" "+hx(pad32(ee.Bytes())))
		e.emit("recover.doubling.other-parity", "compact.recover "+hx(mk(hb^1, R.x, ss))+" "+hx(pad32(ee.Bytes())))
	}
	// constructed partial cancellation: with u1 = -e/r = A*256^j + B and u2 = s/r the key is u2 R + u1 G.  Choose u2 k =
	// -A*256^j (or -B): the sum of sR and the LEADING (or trailing) byte windows of u1 G is exactly infinity before the
	// remaining windows are added — an accumulation that adds the base-point windows onto sR with a formula that has no
	// infinity case loses the rest.  The key is B*G (or A*256^j*G) and the signature is valid for it.
	for j := 1; j <= 31; j++ {
		if !thorough && j%3 != 1 && j != 29 && j != 31 {
			continue
		}
		k := modN(new(big.Int).SetBytes(r.bytes(32)))
		if k.Sign() == 0 {
			continue
		}
		R := mulG(k)
		if R.x.Cmp(curveN) >= 0 || R.x.Sign() == 0 {
			continue
		}
		A := new(big.Int).SetBytes(r.bytes(32 - j))
		A.Rsh(A, 1) // keeps A*256^j + B below N
		B := new(big.Int).SetBytes(r.bytes(j))
		hi := new(big.Int).Lsh(A, uint(8*j))
		if A.Sign() == 0 || B.Sign() == 0 {
			continue
		}
		u1 := new(big.Int).Add(hi, B)
		for v, part := range []*big.Int{hi, B} {
			u2 := modN(new(big.Int).Mul(new(big.Int).Neg(part), invN(k)))
			ss := modN(new(big.Int).Mul(u2, R.x))
			ee := modN(new(big.Int).Neg(new(big.Int).Mul(u1, R.x)))
			if ss.Sign() == 0 {
				continue
			}
			hb := byte(27 + R.y.Bit(0))
			e.emit(fmt.Sprintf("recover.partial-cancel.%d", v), "compact.recover "+hx(mk(hb, R.x, ss))+" "+hx(pad32(ee.Bytes())))
			e.emit(fmt.Sprintf("recover.partial-cancel-c.%d", v), "compact.recover "+hx(mk(hb+4, R.x, ss))+" "+hx(pad32(ee.Bytes())))
		}
	}
	// constructed infinity: R = kG, s = e/k  =>  s R = e G  =>  Q = r^-1 (sR - eG) = infinity
	nInf := 6
	if thorough {
		nInf = 40
	}
	for i := 0; i < nInf; i++ {
		k := modN(new(big.Int).SetBytes(r.bytes(32)))
		if k.Sign() == 0 {
			continue
		}
		R := mulG(k)
		hh := r.bytes(32)
		ee := modN(new(big.Int).SetBytes(hh))
		if ee.Sign() == 0 || R.x.Cmp(curveN) >= 0 {
			continue
		}
		ss := modN(new(big.Int).Mul(ee, invN(k)))
		hb := byte(27)
		if R.y.Bit(0) == 1 {
			hb = 28
		}
		e.emit("recover.infinity", "compact.recover "+hx(mk(hb, R.x, ss))+" "+hx(hh))
		e.emit("recover.infinity-c", "compact.recover "+hx(mk(hb+4, R.x, ss))+" "+hx(hh))
		e.emit("recover.near-infinity", "compact.recover "+hx(mk(hb^1^0, R.x, modN(new(big.Int).Add(ss, one))))+" "+hx(hh))
	}
	// over-long inputs that still LOOK like r and s: zero bytes inserted between r and s, or appended
	for _, d := range keys[:3] {
		hh := r.bytes(32)
		out, err := bec.SignCompact(bec.S256(), privOf(d), hh, false)
		if err != nil {
			continue
		}
		for _, z := range []int{1, 2, 8, 31, 32, 33} {
			x := append(append(append([]byte{}, out[:33]...), make([]byte, z)...), out[33:]...)
			e.emit("recover.len-zeros-mid", "compact.recover "+hx(x)+" "+hx(hh))
			y := append(append([]byte{}, out...), make([]byte, z)...)
			e.emit("recover.len-zeros-end", "compact.recover "+hx(y)+" "+hx(hh))
			w := append(append([]byte{out[0]}, make([]byte, z)...), out[1:]...)
			e.emit("recover.len-zeros-front", "compact.recover "+hx(w)+" "+hx(hh))
		}
		e.emit("recover.len-short", "compact.recover "+hx(out[:64])+" "+hx(hh))
	}
	// all other lengths
	for l := 0; l <= 130; l++ {
		if l == 65 {
			continue
		}
		e.emit("recover.len", "compact.recover "+hx(r.bytes(l))+" "+hx(h))
	}
	// random 65-byte strings
	n := 40
	if thorough {
		n = 600
	}
	for i := 0; i < n; i++ {
		x := r.bytes(65)
		x[0] = byte(27 + r.intn(8))
		e.emit("recover.rand", "compact.recover "+hx(x)+" "+hx(r.bytes(32)))
	}
}

func genC14(e *emitter, r *rng, thorough bool) {
	for i := 0; i < 3; i++ {
		w, err := wif.NewWIF(privOf(modN(new(big.Int).SetBytes(r.bytes(32)))), &chaincfg.MainNet, i%2 == 0)
		if err != nil {
			continue
		}
		for _, sp := range []string{" ", "\t", "\n", "\v", "\f", "\r", "\r\n", "\u0085", "\u00a0", "\u2028", "\u3000", "\x00"} {
			e.emit("wif.dec.whitespace-wrapped", "wif.dec "+hx([]byte(sp+w.String())))
			e.emit("wif.dec.whitespace-wrapped", "wif.dec "+hx([]byte(w.String()+sp)))
		}
	}
	n := 30
	if thorough {
		n = 400
	}
	for i := 0; i < n; i++ {
		b := r.bytes(32)
		for z := 0; z < i%4; z++ {
			b[z] = 0
		}
		d := new(big.Int).SetBytes(b)
		net := r.intn(256)
		if i%5 == 0 {
			net = 0x80
		}
		if i%5 == 1 {
			net = 0xef
		}
		if i%10 == 2 {
			net = 0 // zero is a network byte like any other
		}
		if i%10 == 7 {
			net = 0xff
		}
		for _, c := range []string{"0", "1"} {
			e.emit("wif.enc", fmt.Sprintf("wif.enc %s %s %d", nhx(d), c, net))
			w := []byte{byte(net)}
			w = append(w, pad32(d.Bytes())...)
			if c == "1" {
				w = append(w, 1)
			}
			w = append(w, crypto.Sha256d(w)[:4]...)
			e.emit("wif.dec.valid", "wif.dec "+hx([]byte(base58.Encode(w))))
			if i < 6 {
				// each checksum bit; marker values; lengths
				for bit := 0; bit < 32; bit++ {
					x := append([]byte{}, w...)
					x[len(x)-4+bit/8] ^= 1 << uint(bit%8)
					e.emit("wif.dec.badck", "wif.dec "+hx([]byte(base58.Encode(x))))
				}
				if c == "1" {
					for _, mk := range []byte{0, 2, 255} {
						x := append([]byte{}, w[:34]...)
						x[33] = mk
						x = append(x, crypto.Sha256d(x)[:4]...)
						e.emit("wif.dec.badmarker", "wif.dec "+hx([]byte(base58.Encode(x))))
					}
				}
			}
		}
	}
	// 32-byte scalars at or above the group order (WIF is a codec: the bytes must come back as they went in)
	for _, d := range []*big.Int{new(big.Int).Set(curveN), new(big.Int).Add(curveN, big.NewInt(1)), new(big.Int).Sub(new(big.Int).Lsh(big.NewInt(1), 256), big.NewInt(1)),
		new(big.Int).Add(curveN, new(big.Int).SetBytes(r.bytes(15))), new(big.Int).Sub(curveN, big.NewInt(1)), new(big.Int)} {
		for _, c := range []string{"0", "1"} {
			e.emit("wif.enc.d>=N", fmt.Sprintf("wif.enc %s %s %d", nhx(d), c, 0x80))
			w := append([]byte{0x80}, pad32(d.Bytes())...)
			if c == "1" {
				w = append(w, 1)
			}
			w = append(w, crypto.Sha256d(w)[:4]...)
			e.emit("wif.dec.d>=N", "wif.dec "+hx([]byte(base58.Encode(w))))
		}
	}
	// a valid WIF in which one character is replaced by a multi-byte UTF-8 code point with the same low byte
	// (U+0100+c, U+2100+c): not base58, must be rejected (a decoder ranging over runes and truncating accepts it)
	{
		w := []byte{0x80}
		w = append(w, r.bytes(32)...)
		w = append(w, 1)
		w = append(w, crypto.Sha256d(w)[:4]...)
		ws := base58.Encode(w)
		for _, pos := range []int{0, 1, len(ws) / 2, len(ws) - 1} {
			for _, hi := range []rune{0x100, 0x2100, 0x10000} {
				x := ws[:pos] + string(hi+rune(ws[pos])) + ws[pos+1:]
				e.emit("wif.dec.utf8-lookalike", "wif.dec "+hx([]byte(x)))
			}
		}
	}
	// bodies of 33/34/35 bytes followed by the checksum of EVERY prefix of the body (a decoder that picks the
	// checksummed range from a flag it derived itself accepts some of these), for each marker class
	for _, mk := range []byte{0, 1, 2, 0x80, 0xff, byte(r.intn(256))} {
		for _, bl := range []int{33, 34, 35} {
			body := append([]byte{0x80}, r.bytes(32)...)
			for len(body) < bl {
				body = append(body, mk)
			}
			for pl := 30; pl <= bl; pl++ {
				x := append(append([]byte{}, body...), crypto.Sha256d(body[:pl])[:4]...)
				e.emit(fmt.Sprintf("wif.dec.prefixck%d", bl), "wif.dec "+hx([]byte(base58.Encode(x))))
			}
		}
	}
	for l := 28; l <= 46; l++ {
		for t := 0; t < 3; t++ {
			x := r.bytes(l)
			if l > 4 && t > 0 {
				copy(x[l-4:], crypto.Sha256d(x[:l-4])[:4])
			}
			if l > 33 && t == 2 {
				x[33] = 1
				copy(x[l-4:], crypto.Sha256d(x[:l-4])[:4])
			}
			e.emit(fmt.Sprintf("wif.dec.len%d", l), "wif.dec "+hx([]byte(base58.Encode(x))))
		}
	}
	for i := 0; i < n; i++ {
		s := randB58(r, 40+r.intn(15))
		if r.coin(1, 3) {
			s[r.intn(len(s))] = byte(r.intn(256))
		}
		e.emit("wif.dec.fuzz", "wif.dec "+hx(s))
	}
	// addresses: every version byte, compressed keys of the point pool
	pool := pointPool(r, 4)
	for i, p := range pool {
		if p.isInf() {
			continue
		}
		pk := pubOf(p.x, p.y).SerialiseCompressed()
		for id := 0; id < 256; id++ {
			if !thorough && id != 0 && id != 111 && (id+i)%23 != 0 {
				continue
			}
			e.emit("addr", fmt.Sprintf("addr %s %d", hx(pk), id))
		}
	}
	// one key object, one *Params whose version byte changes between calls (a cache keyed by pointer would go stale)
	for i := 0; i < 6; i++ {
		p := pool[1+r.intn(len(pool)-1)]
		pk := pubOf(p.x, p.y).SerialiseCompressed()
		e.emit("addr.seq", fmt.Sprintf("addr.seq %s %d,%d,%d,%d", hx(pk), r.intn(256), r.intn(256), 0, 111))
	}
	// addresses of keys with a history: relatives derived, neutered, re-networked and wiped around the key whose address is
	// read (every live key's address is observed after each step)
	for i := 0; i < 6; i++ {
		root := "seed:" + hx(r.bytes(16+r.intn(40))) + ":" + fmt.Sprint(r.intn(2))
		e.emit("addr.history", xkLine(root, []string{"c0:0", "z1", "n0", "c2:1", "z3", "c0:2147483649", "n4", "z4", "s2:1", "c2:5", "z0"}))
		e.emit("addr.history.quiet", "xkq"+xkLine(root, []string{"c0:7", "z1", "n0", "c2:7", "z3"})[2:])
	}
	// hash helpers: padding edges
	for _, l := range []int{0, 1, 31, 32, 33, 55, 56, 57, 63, 64, 65, 111, 112, 119, 120, 127, 128, 129, 255, 256, 300} {
		b := r.bytes(l)
		for _, op := range []string{"hash.sha256", "hash.sha256d", "hash.ripemd160", "hash.hash160"} {
			e.emit(op, op+" "+hx(b))
		}
	}
	for i := 0; i < n; i++ {
		b := r.bytes(r.intn(300))
		e.emit("hash.rand", r.pick("hash.sha256", "hash.sha256d", "hash.ripemd160", "hash.hash160")+" "+hx(b))
	}
}

// consRxWrap constructs, for the hash hh, a key Q and a signature (r, s) whose nonce point R has its x coordinate
// in [N, P): x(R) = N + t, r = t, s free, Q = r^-1 (s R - e G).  A verifier must reduce x(R) mod N to accept it.
func consRxWrap(r *rng, hh []byte, t0 int64) (q pt, rr, ss *big.Int, ok bool) {
	for t := t0; t < t0+400; t++ {
		xR := new(big.Int).Add(curveN, big.NewInt(t))
		if xR.Cmp(curveP) >= 0 {
			return
		}
		R, err := bec.ParsePubKey(append([]byte{byte(2 + r.intn(2))}, pad32(xR.Bytes())...), bec.S256())
		if err != nil {
			continue
		}
		rr = big.NewInt(t)
		ss = modN(new(big.Int).SetBytes(r.bytes(32)))
		if ss.Sign() == 0 {
			ss.SetInt64(7)
		}
		h := hh
		if len(h) > 32 {
			h = h[:32]
		}
		ee := modN(new(big.Int).SetBytes(h))
		sx, sy := bec.S256().ScalarMult(R.X, R.Y, ss.Bytes())
		ex, ey := bec.S256().ScalarBaseMult(modN(new(big.Int).Neg(ee)).Bytes())
		tx, ty := bec.S256().Add(sx, sy, ex, ey)
		qx, qy := bec.S256().ScalarMult(tx, ty, invN(rr).Bytes())
		q = pt{qx, qy}
		if q.isInf() {
			continue
		}
		return q, rr, ss, true
	}
	return
}
