package main

import (
	"crypto/rand"
	"errors"
	"io"
	"strings"
	"sync"
)

// tapeReader stands in for crypto/rand.Reader.
//   generating mode: bytes come from a SplitMix64 stream; every Read is logged; the k-th multi-byte
//                    read can be made to fail (1-byte reads never fail: crypto/ecdsa's MaybeReadByte
//                    ignores their result and fires non-deterministically).
//   replay mode:     serves the logged reads; tolerant of the optional 1-byte MaybeReadByte read.
type tapeEntry struct {
	data []byte
	fail bool
}
type tapeReader struct {
	mu       sync.Mutex
	gen      *rng
	failAt   int // index (among multi-byte reads) that fails, -1 = never
	nMulti   int
	log      []tapeEntry
	replay   []tapeEntry
	isReplay bool
	mismatch bool
}

var errTape = errors.New("tape: read failed")

func (t *tapeReader) Read(p []byte) (int, error) {
	t.mu.Lock()
	defer t.mu.Unlock()
	if !t.isReplay {
		if len(p) > 1 {
			idx := t.nMulti
			t.nMulti++
			if idx == t.failAt {
				t.log = append(t.log, tapeEntry{fail: true})
				return 0, errTape
			}
		}
		b := t.gen.bytes(len(p))
		copy(p, b)
		t.log = append(t.log, tapeEntry{data: b})
		return len(p), nil
	}
	if len(p) == 1 {
		if len(t.replay) > 0 && !t.replay[0].fail && len(t.replay[0].data) == 1 {
			p[0] = t.replay[0].data[0]
			t.replay = t.replay[1:]
			return 1, nil
		}
		p[0] = 0
		return 1, nil
	}
	if len(t.replay) > 0 && !t.replay[0].fail && len(t.replay[0].data) == 1 {
		t.replay = t.replay[1:]
	}
	if len(t.replay) == 0 {
		t.mismatch = true
		return 0, errTape
	}
	e := t.replay[0]
	t.replay = t.replay[1:]
	if e.fail {
		return 0, errTape
	}
	if len(e.data) != len(p) {
		t.mismatch = true
		return 0, errTape
	}
	copy(p, e.data)
	return len(p), nil
}

func tapeString(log []tapeEntry) string {
	if len(log) == 0 {
		return "-"
	}
	parts := make([]string, len(log))
	for i, e := range log {
		if e.fail {
			parts[i] = "!"
		} else {
			parts[i] = hx(e.data)
		}
	}
	return strings.Join(parts, ",")
}

func parseTape(s string) ([]tapeEntry, bool) {
	if s == "-" {
		return nil, true
	}
	var out []tapeEntry
	for _, p := range strings.Split(s, ",") {
		if p == "!" {
			out = append(out, tapeEntry{fail: true})
			continue
		}
		b, ok := unhex(p)
		if !ok {
			return nil, false
		}
		out = append(out, tapeEntry{data: b})
	}
	return out, true
}

var osReader io.Reader = rand.Reader
var tapeMu sync.Mutex

// withTape runs f with crypto/rand.Reader replaced by t.
func withTape(t *tapeReader, f func()) {
	tapeMu.Lock()
	defer tapeMu.Unlock()
	old := rand.Reader
	rand.Reader = t
	defer func() { rand.Reader = old }()
	f()
}
