package main

import (
	"crypto/rand"
	"errors"
	"io"
	"strconv"
	"strings"
	"sync"
)

// tapeReader stands in for crypto/rand.Reader.
//
//	generating mode: bytes come from a SplitMix64 stream; every Read is logged; the k-th multi-byte
//	                 read can be made to fail (1-byte reads never fail: crypto/ecdsa's MaybeReadByte
//	                 ignores their result and fires non-deterministically).
//	replay mode:     serves the logged reads; tolerant of the optional 1-byte MaybeReadByte read.
type tapeEntry struct {
	data []byte
	fail bool
}
type tapeReader struct {
	mu       sync.Mutex
	gen      *rng
	failAt   int // index (among multi-byte reads) that fails, -1 = never
	nMulti   int
	log      []tapeEntry
	replay   []tapeEntry
	isReplay bool
	mismatch bool
	// short reads: at most `chunk` bytes per Read call with a nil error (legal for an io.Reader; callers
	// must use io.ReadFull).  Consecutive Reads that continue one io.ReadFull are coalesced in the log.
	chunk    int
	contLen  int // bytes still expected by the ReadFull in progress (0 = none)
	replayOf int // offset inside replay[0] already served
	failKind int // see failErr
}

var errTape = errors.New("tape: read failed")

// failErr is the error of a read that the tape marks as failing.  Which error it is must not matter to a caller that
// reports every failed read — so the replay hands out io.EOF, io.ErrUnexpectedEOF or a plain error, chosen by the text
// of the op line (stable for a given line).  A source that simply ends (EOF) is the commonest real failure.
func (t *tapeReader) failErr() error {
	if t.failKind == 0 {
		t.failKind = 1 + int(tapeFailSalt%3)
	}
	switch t.failKind {
	case 1:
		return io.EOF
	case 2:
		return io.ErrUnexpectedEOF
	}
	return errTape
}

// tapeFailSalt is set from the text of the op line being executed (execOp), so that the choice is stable for a given line.
var tapeFailSalt uint32

func (t *tapeReader) Read(p []byte) (int, error) {
	t.mu.Lock()
	defer t.mu.Unlock()
	if !t.isReplay {
		cont := t.chunk > 0 && t.contLen > 0 && len(p) == t.contLen && len(t.log) > 0 && !t.log[len(t.log)-1].fail
		if len(p) > 1 && !cont {
			idx := t.nMulti
			t.nMulti++
			if idx == t.failAt {
				t.log = append(t.log, tapeEntry{fail: true})
				return 0, errTape
			}
		}
		n := len(p)
		if t.chunk > 0 && n > t.chunk {
			n = t.chunk
		}
		b := t.gen.bytes(n)
		copy(p, b)
		if cont {
			t.log[len(t.log)-1].data = append(t.log[len(t.log)-1].data, b...)
		} else {
			t.log = append(t.log, tapeEntry{data: b})
		}
		t.contLen = len(p) - n
		return n, nil
	}
	if t.chunk > 0 && (len(p) > 1 || t.replayOf > 0) {
		// chunked replay (a 1-byte request in the middle of a logical read is its last byte, not MaybeReadByte): serve the logged logical reads piecewise
		if t.replayOf == 0 && len(t.replay) > 0 && !t.replay[0].fail && len(t.replay[0].data) == 1 {
			t.replay = t.replay[1:]
		}
		if len(t.replay) == 0 {
			t.mismatch = true
			return 0, errTape
		}
		if t.replay[0].fail {
			t.replay = t.replay[1:]
			return 0, t.failErr()
		}
		rest := t.replay[0].data[t.replayOf:]
		n := len(p)
		if n > t.chunk {
			n = t.chunk
		}
		if n > len(rest) {
			n = len(rest)
		}
		copy(p, rest[:n])
		t.replayOf += n
		if t.replayOf == len(t.replay[0].data) {
			t.replay = t.replay[1:]
			t.replayOf = 0
		}
		if n == 0 {
			t.mismatch = true
			return 0, errTape
		}
		return n, nil
	}
	if len(p) == 1 {
		if len(t.replay) > 0 && !t.replay[0].fail && len(t.replay[0].data) == 1 {
			p[0] = t.replay[0].data[0]
			t.replay = t.replay[1:]
			return 1, nil
		}
		p[0] = 0
		return 1, nil
	}
	if len(t.replay) > 0 && !t.replay[0].fail && len(t.replay[0].data) == 1 {
		t.replay = t.replay[1:]
	}
	if len(t.replay) == 0 {
		t.mismatch = true
		return 0, errTape
	}
	e := t.replay[0]
	t.replay = t.replay[1:]
	if e.fail {
		return 0, t.failErr()
	}
	if len(e.data) != len(p) {
		t.mismatch = true
		return 0, errTape
	}
	copy(p, e.data)
	return len(p), nil
}

func tapeString(log []tapeEntry) string { return tapeStringC(log, 0) }

// tapeStringC: a leading "~k" element records that the reader served at most k bytes per Read call
func tapeStringC(log []tapeEntry, chunk int) string {
	var parts []string
	if chunk > 0 {
		parts = append(parts, "~"+strconv.Itoa(chunk))
	}
	for _, e := range log {
		if e.fail {
			parts = append(parts, "!")
		} else {
			parts = append(parts, hx(e.data))
		}
	}
	if len(parts) == 0 {
		return "-"
	}
	return strings.Join(parts, ",")
}

func parseTape(s string) ([]tapeEntry, bool) {
	e, _, ok := parseTapeC(s)
	return e, ok
}

func parseTapeC(s string) ([]tapeEntry, int, bool) {
	if s == "-" {
		return nil, 0, true
	}
	chunk := 0
	var out []tapeEntry
	for i, p := range strings.Split(s, ",") {
		if i == 0 && strings.HasPrefix(p, "~") {
			c, err := strconv.Atoi(p[1:])
			if err != nil || c <= 0 {
				return nil, 0, false
			}
			chunk = c
			continue
		}
		if p == "!" {
			out = append(out, tapeEntry{fail: true})
			continue
		}
		b, ok := unhex(p)
		if !ok {
			return nil, 0, false
		}
		out = append(out, tapeEntry{data: b})
	}
	return out, chunk, true
}

// replayTape builds the replay reader for a tape string
func replayTape(s string) (*tapeReader, bool) {
	e, c, ok := parseTapeC(s)
	if !ok {
		return nil, false
	}
	return &tapeReader{isReplay: true, replay: e, chunk: c}, true
}

var osReader io.Reader = rand.Reader
var tapeMu sync.Mutex

// withTape runs f with crypto/rand.Reader replaced by t.
func withTape(t *tapeReader, f func()) {
	tapeMu.Lock()
	defer tapeMu.Unlock()
	old := rand.Reader
	rand.Reader = t
	defer func() { rand.Reader = old }()
	f()
}
