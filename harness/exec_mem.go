package main

// C16 correspondence ops `mem.*`: the tie between the heap-level models
// (lean/GoBk/Model/HeapFns.lean, run by lean/Driver/MemOps.lean) and the real code.
//
//	mem.<fn> <prefixlen> <spare> <datahex> [more args]
//
// One backing array = prefixlen canary bytes ‖ data ‖ spare canary bytes (canary byte at index i =
// 0xA5 xor (i mod 256)); the function receives backing[prefixlen : prefixlen+len(data) :
// prefixlen+len(data)+spare]; the answer is
//
//	ok <hex of the whole backing array afterwards> <result | err>
//
// (`mem.recover` has two windows and prints two backing arrays.)

import (
	"crypto/aes"
	"math/big"
	"strconv"

	"github.com/libsv/go-bk/base58"
	"github.com/libsv/go-bk/bec"
	"github.com/libsv/go-bk/bip32"
	"github.com/libsv/go-bk/bip39"
	"github.com/libsv/go-bk/chaincfg"
	"github.com/libsv/go-bk/crypto"
)

func mwCanary(i int) byte { return byte(0xA5 ^ (i % 256)) }

// mwWindow builds the canary-backed array and the window into it.
func mwWindow(p, spare int, data []byte) (backing, win []byte) {
	backing = make([]byte, p+len(data)+spare)
	for i := range backing {
		backing[i] = mwCanary(i)
	}
	copy(backing[p:], data)
	return backing, backing[p : p+len(data) : p+len(data)+spare]
}

var mwChainCode = func() []byte {
	b := make([]byte, 32)
	for i := range b {
		b[i] = byte(i*7 + 1)
	}
	return b
}()

func mwXKey(win []byte, isPriv bool) *bip32.ExtendedKey {
	version := []byte{0x04, 0x88, 0xb2, 0x1e}
	if isPriv {
		version = []byte{0x04, 0x88, 0xad, 0xe4}
	}
	return bip32.NewExtendedKey(version, win, append([]byte{}, mwChainCode...), []byte{0, 0, 0, 0}, 0, 0, isPriv)
}

// mwOps: name -> (number of extra arguments, body).  The body returns the result part.
type mwBody func(win []byte, a []string) string

func mwNat(s string) *big.Int {
	n, ok := unnat(s)
	if !ok {
		panic("bad nat")
	}
	return n
}
func mwHex(s string) []byte {
	b, ok := unhex(s)
	if !ok {
		panic("bad hex")
	}
	return b
}

func mwReg(name string, nExtra int, body mwBody) {
	extraOps[name] = func(a []string) string {
		if len(a) != 3+nExtra {
			return "bad-op"
		}
		p, err1 := strconv.Atoi(a[0])
		spare, err2 := strconv.Atoi(a[1])
		data, ok := unhex(a[2])
		if err1 != nil || err2 != nil || !ok || p < 0 || spare < 0 {
			return "bad-op"
		}
		backing, win := mwWindow(p, spare, data)
		res := body(win, a[3:])
		if res == "bad-op" || res == "tape-mismatch" {
			return res
		}
		return "ok " + hx(backing) + " " + res
	}
}

func init() {
	// bec.S256() must not be called at package initialisation (see gen_codec.go: `harness conc`)
	encrypt := func(win []byte, a []string) string {
		tp, ok := parseTape(a[2])
		if !ok {
			return "bad-op"
		}
		t := &tapeReader{isReplay: true, replay: tp}
		var out []byte
		var err error
		withTape(t, func() { out, err = bec.Encrypt(pubOf(mwNat(a[0]), mwNat(a[1])), win) })
		if t.mismatch {
			return "tape-mismatch"
		}
		if err != nil {
			return "err"
		}
		return hx(out)
	}
	mwReg("mem.encrypt", 3, encrypt)
	mwReg("mem.encrypt_old", 3, encrypt)
	mwReg("mem.decrypt", 1, func(win []byte, a []string) string {
		priv := &bec.PrivateKey{D: mwNat(a[0])}
		priv.Curve = bec.S256()
		out, err := bec.Decrypt(priv, win)
		if err != nil {
			return "err"
		}
		return hx(out)
	})
	mnemonic := func(win []byte, a []string) string {
		m, seed, err := bip39.Mnemonic(win, string(mwHex(a[0])))
		if err != nil {
			return "err"
		}
		return hx([]byte(m)) + " " + hx(seed)
	}
	mwReg("mem.mnemonic", 1, mnemonic)
	mwReg("mem.mnemonic_old", 1, mnemonic)
	cfbdec := func(win []byte, a []string) string {
		blk, err := aes.NewCipher(mwHex(a[0]))
		if err != nil {
			return "bad-op"
		}
		out, err := crypto.Decrypt(blk, win)
		if err != nil {
			return "err"
		}
		return hx(out)
	}
	mwReg("mem.cfbdec", 1, cfbdec)
	mwReg("mem.cfbdec_old", 1, cfbdec)
	mwReg("mem.cfbenc", 2, func(win []byte, a []string) string {
		blk, err := aes.NewCipher(mwHex(a[0]))
		if err != nil {
			return "bad-op"
		}
		tp, ok := parseTape(a[1])
		if !ok {
			return "bad-op"
		}
		t := &tapeReader{isReplay: true, replay: tp}
		var out []byte
		withTape(t, func() { out, err = crypto.Encrypt(blk, win) })
		if t.mismatch {
			return "tape-mismatch"
		}
		if err != nil {
			return "err"
		}
		return hx(out)
	})
	mwReg("mem.checkenc", 1, func(win []byte, a []string) string {
		v, err := strconv.Atoi(a[0])
		if err != nil {
			return "bad-op"
		}
		return hx([]byte(base58.CheckEncode(win, byte(v))))
	})
	mwReg("mem.checkdec", 0, func(win []byte, a []string) string {
		p, v, err := base58.CheckDecode(string(win))
		if err != nil {
			return "err"
		}
		return hx(p) + " " + strconv.Itoa(int(v))
	})
	mwReg("mem.sign", 1, func(win []byte, a []string) string {
		sig, err := privOf(mwNat(a[0])).Sign(win)
		if err != nil {
			return "err"
		}
		return nhx(sig.R) + " " + nhx(sig.S)
	})
	mwReg("mem.signcompact", 2, func(win []byte, a []string) string {
		out, err := bec.SignCompact(bec.S256(), privOf(mwNat(a[0])), win, a[1] == "1")
		if err != nil {
			return "err"
		}
		return hx(out)
	})
	mwReg("mem.verify", 4, func(win []byte, a []string) string {
		sig := &bec.Signature{R: mwNat(a[2]), S: mwNat(a[3])}
		return b2s(sig.Verify(win, pubOf(mwNat(a[0]), mwNat(a[1]))))
	})
	mwReg("mem.parsepub", 0, func(win []byte, a []string) string {
		k, err := bec.ParsePubKey(win, bec.S256())
		if err != nil {
			return "err"
		}
		return ptStr(k.X, k.Y)
	})
	mwReg("mem.parsesig", 0, func(win []byte, a []string) string {
		sig, err := bec.ParseSignature(win, bec.S256())
		if err != nil {
			return "err"
		}
		return nhx(sig.R) + " " + nhx(sig.S)
	})
	mwReg("mem.parseder", 0, func(win []byte, a []string) string {
		sig, err := bec.ParseDERSignature(win, bec.S256())
		if err != nil {
			return "err"
		}
		return nhx(sig.R) + " " + nhx(sig.S)
	})
	mwReg("mem.sbmul", 0, func(win []byte, a []string) string {
		x, y := bec.S256().ScalarBaseMult(win)
		return ptStr(x, y)
	})
	mwReg("mem.smul", 2, func(win []byte, a []string) string {
		x, y := bec.S256().ScalarMult(mwNat(a[0]), mwNat(a[1]), win)
		return ptStr(x, y)
	})
	mwReg("mem.privbytes", 0, func(win []byte, a []string) string {
		priv, pub := bec.PrivKeyFromBytes(bec.S256(), win)
		return hx(priv.Serialise()) + " " + ptStr(pub.X, pub.Y)
	})
	mwReg("mem.newmaster", 0, func(win []byte, a []string) string {
		k, err := bip32.NewMaster(win, &chaincfg.MainNet)
		if err != nil {
			return "err"
		}
		return hx([]byte(k.String()))
	})
	mwReg("mem.b58enc", 0, func(win []byte, a []string) string { return hx([]byte(base58.Encode(win))) })
	mwReg("mem.hash160", 0, func(win []byte, a []string) string { return hx(crypto.Hash160(win)) })
	mwReg("mem.naf", 0, func(win []byte, a []string) string {
		pos, neg := bec.NAF(win)
		return hx(pos) + " " + hx(neg)
	})
	mwReg("mem.xkstring", 1, func(win []byte, a []string) string {
		return hx([]byte(mwXKey(win, a[0] == "1").String()))
	})
	mwReg("mem.xkaddr", 2, func(win []byte, a []string) string {
		id, err := strconv.Atoi(a[1])
		if err != nil {
			return "bad-op"
		}
		return hx([]byte(mwXKey(win, a[0] == "1").Address(&chaincfg.Params{Name: "x", LegacyPubKeyHashAddrID: byte(id)})))
	})
	mwReg("mem.xkchild", 2, func(win []byte, a []string) string {
		i, err := strconv.ParseUint(a[1], 10, 32)
		if err != nil {
			return "bad-op"
		}
		c, err := mwXKey(win, a[0] == "1").Child(uint32(i))
		if err != nil {
			return "err"
		}
		return hx([]byte(c.String()))
	})
	// two windows: signature and hash
	extraOps["mem.recover"] = func(a []string) string {
		if len(a) != 4 {
			return "bad-op"
		}
		p, err1 := strconv.Atoi(a[0])
		spare, err2 := strconv.Atoi(a[1])
		sg, ok1 := unhex(a[2])
		hsh, ok2 := unhex(a[3])
		if err1 != nil || err2 != nil || !ok1 || !ok2 || p < 0 || spare < 0 {
			return "bad-op"
		}
		b1, w1 := mwWindow(p, spare, sg)
		b2, w2 := mwWindow(p, spare, hsh)
		res := "err"
		if k, c, err := bec.RecoverCompact(bec.S256(), w1, w2); err == nil {
			res = ptStr(k.X, k.Y) + " " + b2s(c)
		}
		return "ok " + hx(b1) + " " + hx(b2) + " " + res
	}
}
