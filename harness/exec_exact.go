//go:build verif

package main

// `field.exact <field op line>`: run ONE field operation on the real code (through the hooks) and compare
// its result with exact integer arithmetic done independently here (math/big and uint64):
//   linear ops (add, add2, addint, mulint, neg, negval): every output word must equal the exact word
//     (no 32-bit overflow or underflow);
//   normalise: canonical words and value = value(a) mod P;
//   mul/mul2/sq/sqval/inv/sqrt: value mod P = the exact product / power mod P.
// -> "ok exact" | "ok inexact".  The Lean side answers "ok exact": that is the property's claim for every
// operation a formula performs on valid inputs.  Used by the C09 wrap search (lib/extras.py) to confirm on
// the real code a witness found in the regenerated model.

import (
	"math/big"
	"strconv"
	"strings"
)

var primeWords = [10]uint64{0x3fffc2f, 0x3ffffbf, 0x3ffffff, 0x3ffffff, 0x3ffffff, 0x3ffffff, 0x3ffffff, 0x3ffffff, 0x3ffffff, 0x3fffff}

func init() {
	extraOps["field.exact"] = func(a []string) string {
		if len(a) < 2 {
			return "bad-op"
		}
		op := a[0]
		res := execOp(op + " " + joinArgs(a[1:]))
		if len(res) < 4 || res[:3] != "ok " {
			return "bad-op"
		}
		got, ok := parseFV(strings.TrimSuffix(res[3:], " S=1"))
		if !ok {
			return "bad-op"
		}
		A, okA := parseFV(a[1])
		if !okA {
			return "bad-op"
		}
		var B fv
		k := uint64(0)
		if len(a) >= 3 {
			if b, ok := parseFV(a[2]); ok {
				B = b
			} else if v, err := strconv.ParseUint(a[2], 10, 64); err == nil {
				k = v
			} else {
				return "bad-op"
			}
		}
		exactWords := func(f func(i int) (uint64, bool)) string {
			for i := 0; i < 10; i++ {
				w, inRange := f(i)
				if !inRange || w >= 1<<32 || uint64(got[i]) != w {
					return "ok inexact"
				}
			}
			return "ok exact"
		}
		valP := func(x fv) *big.Int { return new(big.Int).Mod(valueOf(x), fldP) }
		valueEq := func(want *big.Int) string {
			if valP(got).Cmp(new(big.Int).Mod(want, fldP)) == 0 {
				return "ok exact"
			}
			return "ok inexact"
		}
		switch op {
		case "field.add", "field.add2":
			return exactWords(func(i int) (uint64, bool) { return uint64(A[i]) + uint64(B[i]), true })
		case "field.addint":
			return exactWords(func(i int) (uint64, bool) {
				if i == 0 {
					return uint64(A[0]) + k, true
				}
				return uint64(A[i]), true
			})
		case "field.mulint":
			return exactWords(func(i int) (uint64, bool) { return uint64(A[i]) * k, k < 1<<32 })
		case "field.neg", "field.negval":
			return exactWords(func(i int) (uint64, bool) {
				top := (k + 1) * primeWords[i]
				if top < uint64(A[i]) {
					return 0, false // underflow
				}
				return top - uint64(A[i]), k < 1<<20
			})
		case "field.set", "field.setint":
			return "ok exact"
		case "field.normalise":
			for i := 0; i < 10; i++ {
				lim := uint64(1) << 26
				if i == 9 {
					lim = 1 << 22
				}
				if uint64(got[i]) >= lim {
					return "ok inexact"
				}
			}
			if valueOf(got).Cmp(fldP) >= 0 {
				return "ok inexact"
			}
			return valueEq(valueOf(A))
		case "field.mul", "field.mul2":
			return valueEq(new(big.Int).Mul(valueOf(A), valueOf(B)))
		case "field.sq", "field.sqval":
			return valueEq(new(big.Int).Mul(valueOf(A), valueOf(A)))
		case "field.inv":
			return valueEq(new(big.Int).Exp(valueOf(A), new(big.Int).Sub(fldP, big.NewInt(2)), fldP))
		case "field.sqrt":
			e := new(big.Int).Rsh(new(big.Int).Add(fldP, big.NewInt(1)), 2)
			return valueEq(new(big.Int).Exp(valueOf(A), e, fldP))
		}
		return "bad-op"
	}
}

// minimal magnitude of a representation, computed from its words (independent of the Lean side)
func minMagOf(f fv) uint64 {
	var m uint64
	for i, w := range f {
		unit := uint64(68157440) // 2^26 + 2^20
		if i == 9 {
			unit = 4194304 // 2^22
		}
		need := (uint64(w) + unit - 1) / unit
		if need > m {
			m = need
		}
	}
	return m
}

func init() {
	// field.contract <field op line>: is the operation invoked within its documented magnitude contract on these operands?
	extraOps["field.contract"] = func(a []string) string {
		if len(a) < 2 {
			return "bad-op"
		}
		A, ok := parseFV(a[1])
		if !ok {
			return "bad-op"
		}
		var B fv
		k := uint64(0)
		if len(a) >= 3 {
			if b, ok := parseFV(a[2]); ok {
				B = b
			} else if v, err := strconv.ParseUint(a[2], 10, 64); err == nil {
				k = v
			} else {
				return "bad-op"
			}
		}
		within := true
		switch a[0] {
		case "field.add", "field.add2":
			within = minMagOf(A)+minMagOf(B) <= 63
		case "field.addint":
			within = minMagOf(A)+1 <= 63 && k <= 68157440
		case "field.neg", "field.negval":
			within = minMagOf(A) <= k && k <= 63
		case "field.mulint":
			within = k*minMagOf(A) <= 63
		case "field.mul", "field.mul2":
			within = minMagOf(A) <= 8 && minMagOf(B) <= 8
		case "field.sq", "field.sqval", "field.inv", "field.sqrt":
			within = minMagOf(A) <= 8
		case "field.normalise":
			for _, w := range A {
				if uint64(w) > 4292870144 {
					within = false
				}
			}
		case "field.set", "field.setint":
		default:
			return "bad-op"
		}
		if within {
			return "ok within"
		}
		return "ok violated"
	}
}

func joinArgs(a []string) string {
	s := ""
	for i, x := range a {
		if i > 0 {
			s += " "
		}
		s += x
	}
	return s
}
