package main

import (
	"bytes"
	"fmt"
	"math/big"
	"strings"

	"github.com/libsv/go-bk/base58"
	"github.com/libsv/go-bk/bec"
	"github.com/libsv/go-bk/crypto"
)

const b58alphabet = "123456789ABCDEFGHJKLMNPQRSTUVWXYZabcdefghijkmnopqrstuvwxyz"

func init() {
	generators["C13"] = genC13
	generators["C06"] = genC06
	generators["C14"] = genC14
}

func randB58(r *rng, n int) []byte {
	s := make([]byte, n)
	for i := range s {
		s[i] = b58alphabet[r.intn(58)]
	}
	return s
}

func genC13(e *emitter, r *rng, thorough bool) {
	// a valid string with one white-space (or NUL) character in front of it or behind it: trimming is not part of the format
	for i := 0; i < 4; i++ {
		p := r.bytes(1 + r.intn(30))
		plain, checked := base58.Encode(p), base58.CheckEncode(p, byte(r.intn(256)))
		for _, w := range []string{" ", "\t", "\n", "\v", "\f", "\r", "\r\n", "\u0085", "\u00a0", "\u2028", "\u3000", "\x00"} {
			for _, v := range []string{w + plain, plain + w} {
				e.emit("dec.whitespace-wrapped", "b58.dec "+hx([]byte(v)))
			}
			for _, v := range []string{w + checked, checked + w} {
				e.emit("cdec.whitespace-wrapped", "b58.cdec "+hx([]byte(v)))
			}
		}
	}
	// exhaustive short byte strings
	e.emit("enc.exh0", "b58.enc -")
	for a := 0; a < 256; a++ {
		e.emit("enc.exh1", "b58.enc "+hx([]byte{byte(a)}))
	}
	step := 7
	if thorough {
		step = 1
	}
	for v := r.intn(step); v < 65536; v += step {
		e.emit("enc.exh2", "b58.enc "+hx([]byte{byte(v >> 8), byte(v)}))
	}
	// leading zeros x bodies
	for z := 0; z <= 12; z++ {
		for _, l := range []int{0, 1, 2, 5, 20, 32, 33, 77} {
			b := append(make([]byte, z), r.bytes(l)...)
			e.emit("enc.zeros", "b58.enc "+hx(b))
			e.emit("dec.roundtrip", "b58.dec "+hx([]byte(base58.Encode(b))))
		}
	}
	n := 300
	if thorough {
		n = 5000
	}
	for i := 0; i < n; i++ {
		b := r.bytes(r.intn(300))
		if r.coin(1, 4) {
			b = append(make([]byte, r.intn(6)), b...)
		}
		e.emit("enc.rand", "b58.enc "+hx(b))
	}
	// digit strings with INTERIOR runs of the zero digit '1' of every length 1..40 at every alignment 0..11 (grouped
	// conversions — base 58^k chunks — lose or misplace an all-zero group), and the byte strings they denote
	for m := 1; m <= 40; m++ {
		for al := 0; al < 12; al++ {
			if !thorough && (m+al)%3 != 0 && m != 10 && m != 20 {
				continue
			}
			s := string(randB58(r, 1+r.intn(3))) + strings.Repeat("1", m) + string(randB58(r, al))
			if s[0] == '1' {
				s = "2" + s[1:]
			}
			e.emit("dec.interior-ones", "b58.dec "+hx([]byte(s)))
			e.emit("enc.interior-ones", "b58.enc "+hx(base58.Decode(s)))
		}
	}
	// values around multiples of 2^32 / 2^64 and values whose middle machine words are all ones (a multi-word
	// accumulator whose carry does not ripple through a saturated word), encoded and decoded, with leading zeros
	for k := 1; k <= 6; k++ {
		for _, w := range []uint{32, 64} {
			v := new(big.Int).Lsh(big.NewInt(1), w*uint(k))
			for _, d := range []int64{-2, -1, 0, 1} {
				x := new(big.Int).Add(v, big.NewInt(d))
				e.emit("enc.word-boundary", "b58.enc "+hx(x.Bytes()))
				e.emit("dec.word-boundary", "b58.dec "+hx([]byte(base58.Encode(x.Bytes()))))
				e.emit("cdec.word-boundary", "b58.cdec "+hx([]byte(base58.CheckEncode(x.Bytes(), byte(k)))))
			}
		}
	}
	for i := 0; i < 12; i++ {
		hi := new(big.Int).SetBytes(r.bytes(1 + r.intn(12)))
		lo := new(big.Int).SetBytes(r.bytes(8))
		sat := new(big.Int).Sub(new(big.Int).Lsh(big.NewInt(1), 64*uint(1+i%3)), big.NewInt(1))
		x := new(big.Int).Lsh(hi, 64*uint(2+i%3))
		x.Or(x, new(big.Int).Lsh(sat, 64))
		x.Or(x, lo)
		b := append(make([]byte, i%3), x.Bytes()...)
		e.emit("enc.saturated-word", "b58.enc "+hx(b))
		e.emit("dec.saturated-word", "b58.dec "+hx([]byte(base58.Encode(b))))
		// the same with the low word pushed over the edge by the LAST digit chunk
		y := new(big.Int).Or(new(big.Int).Lsh(hi, 128), new(big.Int).Lsh(sat, 64))
		y.Or(y, new(big.Int).Sub(new(big.Int).Lsh(big.NewInt(1), 64), big.NewInt(int64(1+r.intn(57)))))
		for d := int64(0); d < 3; d++ {
			z := new(big.Int).Add(y, big.NewInt(d*29))
			e.emit("dec.saturated-word", "b58.dec "+hx([]byte(base58.Encode(z.Bytes()))))
		}
	}
	e.emit("cdec.zeros17", "b58.cdec "+hx([]byte(base58.CheckEncode(make([]byte, 17), 1))))
	for l := 1; l <= 40; l++ {
		e.emit("cdec.zeros", "b58.cdec "+hx([]byte(base58.CheckEncode(make([]byte, l), byte(l)))))
	}
	// powers of 58 and of 256 and their neighbours (a single non-zero digit / byte followed by zeros)
	for k := 1; k <= 60; k++ {
		for _, base := range []int64{58, 256} {
			v := new(big.Int).Exp(big.NewInt(base), big.NewInt(int64(k)), nil)
			for _, d := range []int64{-1, 0, 1} {
				e.emit("enc.power", "b58.enc "+hx(new(big.Int).Add(v, big.NewInt(d)).Bytes()))
			}
		}
	}
	// long strings, many in a row (state kept between calls — power tables, scratch buffers — shows on the later ones),
	// lengths around powers of two and every length 120..140
	for rep := 0; rep < 3; rep++ {
		for _, l := range []int{127, 128, 129, 130, 200, 255, 256, 257, 400, 511, 512, 513, 1000} {
			s := randB58(r, l)
			e.emit("dec.long", "b58.dec "+hx(s))
			e.emit("cdec.long", "b58.cdec "+hx(s))
		}
	}
	for l := 120; l <= 140; l++ {
		e.emit("dec.long", "b58.dec "+hx(randB58(r, l)))
		e.emit("enc.long", "b58.enc "+hx(r.bytes(l)))
	}
	for _, l := range []int{6, 7, 8, 9, 15, 16, 17, 31, 32, 33, 63, 64, 65} { // word-size boundaries, top bit set and clear
		for _, top := range []byte{0x00, 0x01, 0x7f, 0x80, 0xff} {
			b := r.bytes(l)
			b[0] = top
			e.emit("enc.wordsize", "b58.enc "+hx(b))
			e.emit("cenc.wordsize", fmt.Sprintf("b58.cenc %s %d", hx(b[1:]), top))
		}
	}
	// decode: all strings over the alphabet of length <= 2, strings with leading '1's
	e.emit("dec.exh0", "b58.dec -")
	for a := 0; a < 256; a++ {
		e.emit("dec.byte1", "b58.dec "+hx([]byte{byte(a)}))
	}
	for a := 0; a < 58; a++ {
		for b := 0; b < 58; b++ {
			e.emit("dec.exh2", "b58.dec "+hx([]byte{b58alphabet[a], b58alphabet[b]}))
		}
	}
	for i := 0; i < n; i++ {
		s := randB58(r, r.intn(120))
		if r.coin(1, 3) {
			s = append(bytes.Repeat([]byte{'1'}, r.intn(8)), s...)
		}
		e.emit("dec.valid", "b58.dec "+hx(s))
	}
	// every length 1..40: extreme digit strings (a fixed-width accumulator overflows at some length:
	// 58^5 < 2^32 < 58^6, 58^10 < 2^64 < 58^11), with the leading digit swept over the whole alphabet
	for l := 1; l <= 40; l++ {
		for _, fill := range []byte{'z', '2', '1', 'j'} {
			body := bytes.Repeat([]byte{fill}, l)
			e.emit("dec.extreme", "b58.dec "+hx(body))
		}
		rest := randB58(r, l-1)
		for a := 0; a < 58; a++ {
			if !thorough && l > 14 && a%7 != l%7 {
				continue
			}
			e.emit("dec.lead", "b58.dec "+hx(append([]byte{b58alphabet[a]}, bytes.Repeat([]byte{'z'}, l-1)...)))
			e.emit("dec.lead", "b58.dec "+hx(append([]byte{b58alphabet[a]}, rest...)))
		}
		// and from the byte side
		for _, fill := range []byte{0xff, 0x80, 0x01} {
			b := bytes.Repeat([]byte{fill}, l)
			e.emit("enc.extreme", "b58.enc "+hx(b))
			b2 := append([]byte{0x01}, make([]byte, l-1)...)
			e.emit("enc.extreme", "b58.enc "+hx(b2))
		}
	}
	// well-formed multi-byte UTF-8 sequences inside an otherwise valid string (a decoder that walks runes
	// instead of bytes maps U+0141 to 'A'): every 2-byte code point, a sample of 3- and 4-byte ones
	{
		pre, post := randB58(r, 3), randB58(r, 2)
		emitU := func(class string, cp rune) {
			enc := []byte(string(cp))
			e.emit(class, "b58.dec "+hx(append(append(append([]byte{}, pre...), enc...), post...)))
			e.emit(class, "b58.dec "+hx(enc))
			e.emit(class+".check", "b58.cdec "+hx(append(append(append([]byte{}, pre...), enc...), post...)))
		}
		for cp := rune(0x80); cp < 0x800; cp++ {
			if !thorough && cp%3 != 0 && (cp&0xff) != 0x41 && (cp&0xff) != 0x7a {
				continue
			}
			emitU("dec.utf8-2", cp)
		}
		for _, cp := range []rune{0x0841, 0x1031, 0x2031, 0x20ac, 0xfffd, 0xff41, 0x10041, 0x1f600, 0x10ffff} {
			emitU("dec.utf8-34", cp)
		}
	}
	// every byte value at every position of a valid string
	base := randB58(r, 12)
	for pos := 0; pos < len(base); pos++ {
		for v := 0; v < 256; v++ {
			if !thorough && v%3 != pos%3 {
				continue
			}
			s := append([]byte{}, base...)
			s[pos] = byte(v)
			e.emit("dec.anybyte", "b58.dec "+hx(s))
		}
	}
	// check encode / decode
	for i := 0; i < n; i++ {
		p := r.bytes(r.intn(80))
		v := byte(r.intn(256))
		e.emit("cenc", fmt.Sprintf("b58.cenc %s %d", hx(p), v))
		s := base58.CheckEncode(p, v)
		e.emit("cdec.valid", "b58.cdec "+hx([]byte(s)))
	}
	// checksum off by one bit in each of the 32 bits; every decoded length 0..6
	p := r.bytes(21)
	full := append([]byte{0x6f}, p...)
	ck := crypto.Sha256d(full)[:4]
	for bit := 0; bit < 32; bit++ {
		c := append([]byte{}, ck...)
		c[bit/8] ^= 1 << uint(bit%8)
		e.emit("cdec.badck", "b58.cdec "+hx([]byte(base58.Encode(append(append([]byte{}, full...), c...)))))
	}
	// structured multi-byte checksum errors: errors that cancel under XOR, addition or reordering of the checksum
	// bytes (a comparison weakened to a parity / sum / set comparison accepts these, single-bit errors do not)
	{
		emitCk := func(class string, c []byte) {
			if !bytes.Equal(c, ck) {
				e.emit(class, "b58.cdec "+hx([]byte(base58.Encode(append(append([]byte{}, full...), c...)))))
			}
		}
		for sub := 1; sub < 16; sub++ {
			for _, mask := range []byte{0x01, 0x80, 0xff, byte(1 + r.intn(255))} {
				c := append([]byte{}, ck...)
				for j := 0; j < 4; j++ {
					if sub>>uint(j)&1 == 1 {
						c[j] ^= mask
					}
				}
				emitCk("cdec.badck.xor", c)
			}
		}
		for i := 0; i < 4; i++ {
			for j := 0; j < 4; j++ {
				if i == j {
					continue
				}
				c := append([]byte{}, ck...)
				c[i], c[j] = c[j], c[i]
				emitCk("cdec.badck.swap", c)
				c = append([]byte{}, ck...)
				c[i]++
				c[j]--
				emitCk("cdec.badck.sum", c)
				c = append([]byte{}, ck...)
				c[j] = c[i]
				emitCk("cdec.badck.dup", c)
			}
		}
		emitCk("cdec.badck.rev", []byte{ck[3], ck[2], ck[1], ck[0]})
		emitCk("cdec.badck.rot", []byte{ck[1], ck[2], ck[3], ck[0]})
		emitCk("cdec.badck.sha1", crypto.Sha256(full)[:4])       // single instead of double SHA-256
		emitCk("cdec.badck.tail", crypto.Sha256d(full)[28:])     // last instead of first four bytes
		emitCk("cdec.badck.nover", crypto.Sha256d(full[1:])[:4]) // checksum over the payload without the version byte
		// right checksum, other payload: one payload byte / the version byte changed
		for _, pos := range []int{0, 1, len(full) - 1} {
			x := append([]byte{}, full...)
			x[pos] ^= 0x01
			e.emit("cdec.badck.payload", "b58.cdec "+hx([]byte(base58.Encode(append(x, ck...)))))
		}
	}
	for l := 0; l <= 8; l++ {
		for k := 0; k < 4; k++ {
			raw := r.bytes(l)
			if k == 1 && l >= 4 {
				copy(raw[l-4:], crypto.Sha256d(raw[:l-4])[:4])
			}
			if k == 2 {
				raw = make([]byte, l)
			}
			if k == 3 && l >= 4 {
				raw = make([]byte, l)
				copy(raw[l-4:], crypto.Sha256d(raw[:l-4])[:4])
			}
			e.emit("cdec.short", "b58.cdec "+hx([]byte(base58.Encode(raw))))
		}
	}
	for i := 0; i < n/3; i++ {
		s := randB58(r, r.intn(60))
		if r.coin(1, 2) && len(s) > 0 {
			s[r.intn(len(s))] = byte(r.intn(256))
		}
		e.emit("cdec.fuzz", "b58.cdec "+hx(s))
	}
}

// the group order and field prime as literals: no package-level initialiser may touch bec.S256(), so that
// `harness conc` really makes the FIRST call to S256() from racing goroutines (checked against the
// library's values by initCurveVars, which every other subcommand runs)
var curveN = bigOf("FFFFFFFFFFFFFFFFFFFFFFFFFFFFFFFEBAAEDCE6AF48A03BBFD25E8CD0364141")
var curveP = bigOf("FFFFFFFFFFFFFFFFFFFFFFFFFFFFFFFFFFFFFFFFFFFFFFFFFFFFFFFEFFFFFC2F")

func initCurveVars() {
	if curveN.Cmp(bec.S256().N) != 0 || curveP.Cmp(bec.S256().P) != 0 {
		panic("harness: curve constants differ from the library's")
	}
}

func bigOf(s string) *big.Int { n, _ := new(big.Int).SetString(s, 16); return n }

// interesting scalars around the group order / field prime
func boundaryInts() []*big.Int {
	n := curveN
	half := new(big.Int).Rsh(n, 1)
	one := big.NewInt(1)
	var out []*big.Int
	add := func(x *big.Int) { out = append(out, new(big.Int).Set(x)) }
	for _, v := range []int64{0, 1, 2, 127, 128, 255, 256, 65535} {
		add(big.NewInt(v))
	}
	for _, b := range []*big.Int{half, n, curveP, new(big.Int).Lsh(one, 255), new(big.Int).Lsh(one, 256), new(big.Int).Lsh(one, 248)} {
		add(new(big.Int).Sub(b, one))
		add(b)
		add(new(big.Int).Add(b, one))
	}
	return out
}

func derOf(r, s []byte) []byte {
	out := []byte{0x30, byte(4 + len(r) + len(s)), 0x02, byte(len(r))}
	out = append(out, r...)
	out = append(out, 0x02, byte(len(s)))
	return append(out, s...)
}

func derInt(n *big.Int) []byte {
	b := n.Bytes()
	if len(b) == 0 {
		return []byte{0}
	}
	if b[0]&0x80 != 0 {
		return append([]byte{0}, b...)
	}
	return b
}

func randScalarLen(r *rng, l int) *big.Int {
	if l == 0 {
		return new(big.Int)
	}
	b := r.bytes(l)
	if b[0] == 0 {
		b[0] = 1
	}
	return new(big.Int).SetBytes(b)
}

func genC06(e *emitter, r *rng, thorough bool) {
	bnd := boundaryInts()
	// serialise: all byte-length pairs, boundary values
	for rl := 1; rl <= 33; rl++ {
		for sl := 1; sl <= 33; sl++ {
			if !thorough && (rl+sl)%4 != 0 && rl != 32 && sl != 32 && rl != 33 && sl != 33 {
				continue
			}
			rr, ss := randScalarLen(r, rl), randScalarLen(r, sl)
			if r.coin(1, 3) {
				b := rr.Bytes()
				b[0] |= 0x80
				rr.SetBytes(b)
			}
			e.emit("ser.len", "der.ser "+nhx(rr)+" "+nhx(ss))
			enc := derOf(derInt(rr), derInt(ss))
			e.emit("parse.len", "der.parse "+hx(enc))
			e.emit("lax.len", "der.lax "+hx(enc))
		}
	}
	for _, a := range bnd {
		for _, b := range bnd {
			e.emit("ser.boundary", "der.ser "+nhx(a)+" "+nhx(b))
			enc := derOf(derInt(a), derInt(b))
			e.emit("parse.boundary", "der.parse "+hx(enc))
			e.emit("lax.boundary", "der.lax "+hx(enc))
		}
	}
	// inputs of 254..600 bytes whose length byte is near 255 (or wraps): length arithmetic done in a byte
	for _, total := range []int{254, 255, 256, 257, 258, 300, 600} {
		for _, lb := range []byte{0xfe, 0xff, 0xfd, 0x00, 0x06} {
			raw := append([]byte{0x30, lb, 2, 1, 1, 2, 1, 1}, make([]byte, total-8)...)
			e.emit("parse.long-lengthbyte", "der.parse "+hx(raw))
			e.emit("lax.long-lengthbyte", "der.lax "+hx(raw))
			raw2 := append([]byte{0x30, lb, 2, 1, 1, 2, byte(total - 8 - 0), 1}, bytes.Repeat([]byte{1}, total-8)...)
			e.emit("parse.long-lengthbyte", "der.parse "+hx(raw2))
			e.emit("lax.long-lengthbyte", "der.lax "+hx(raw2))
		}
	}
	// single-field perturbations of valid encodings
	nBase := 6
	if thorough {
		nBase = 40
	}
	for i := 0; i < nBase; i++ {
		rr := randScalarLen(r, 1+r.intn(32))
		ss := randScalarLen(r, 1+r.intn(32))
		if i%3 == 0 {
			rr = randScalarLen(r, 32)
			ss = randScalarLen(r, 32)
		}
		rb, sb := derInt(rr), derInt(ss)
		valid := derOf(rb, sb)
		var muts [][]byte
		m := func(b []byte) { muts = append(muts, b) }
		for _, t := range []byte{0x00, 0x31, 0x02, 0x20, 0xb0} {
			x := append([]byte{}, valid...)
			x[0] = t
			m(x)
		}
		for _, d := range []int{-2, -1, 1, 2} {
			x := append([]byte{}, valid...)
			x[1] = byte(int(x[1]) + d)
			m(x)
		}
		for _, v := range []byte{0, 1, 5, 6, 0x7f, 0x80, 0xfd, 0xfe, 0xff} {
			x := append([]byte{}, valid...)
			x[1] = v
			m(x)
			y := append(append([]byte{}, valid...), make([]byte, 300)...)
			y[1] = v
			m(y)
		}
		for _, v := range []byte{0, 1, byte(len(rb) - 1), byte(len(rb) + 1), byte(len(rb) + len(sb)), byte(len(rb) + len(sb) + 1), byte(len(rb) + len(sb) + 2), 0x80, 0xff} {
			x := append([]byte{}, valid...)
			x[3] = v
			m(x)
		}
		so := 4 + len(rb)
		for _, v := range []byte{0, 1, byte(len(sb) - 1), byte(len(sb) + 1), 0x80, 0xff} {
			x := append([]byte{}, valid...)
			x[so+1] = v
			m(x)
		}
		for _, t := range []byte{0x00, 0x03, 0x30, 0x82} {
			x := append([]byte{}, valid...)
			x[2] = t
			m(x)
			y := append([]byte{}, valid...)
			y[so] = t
			m(y)
		}
		// padding added / removed, sign bit
		m(derOf(append([]byte{0}, rb...), sb))
		m(derOf(rb, append([]byte{0}, sb...)))
		m(derOf(append([]byte{0, 0}, rb...), sb))
		if len(rb) > 1 {
			m(derOf(rb[1:], sb))
		}
		if len(sb) > 1 {
			m(derOf(rb, sb[1:]))
		}
		{
			x := append([]byte{}, rb...)
			x[0] |= 0x80
			m(derOf(x, sb))
			y := append([]byte{}, sb...)
			y[0] |= 0x80
			m(derOf(rb, y))
			z := append([]byte{}, rb...)
			z[0] = 0
			m(derOf(z, sb))
		}
		for _, t := range []int{60, 66, 70, 100, 200, 300} { // long tails: bytes after the announced length are ignored, however many
			m(append(append([]byte{}, valid...), r.bytes(t)...))
			m(append(append([]byte{}, valid...), make([]byte, t)...))
		}
		for t := 1; t <= 3; t++ {
			m(append(append([]byte{}, valid...), r.bytes(t)...))
			if len(valid) > t {
				m(valid[:len(valid)-t])
			}
		}
		// r,s at group-order boundaries
		for _, v := range bnd {
			m(derOf(derInt(v), sb))
			m(derOf(rb, derInt(v)))
		}
		for _, x := range muts {
			e.emit("parse.mut", "der.parse "+hx(x))
			e.emit("lax.mut", "der.lax "+hx(x))
		}
		// every value of every structural byte (sequence tag, total length, both integer tags, both integer lengths): a tag
		// test through a mask (class bits, constructed bit, tag number) accepts a second spelling
		if len(valid) > 8 && i < 3 {
			rl := int(valid[3])
			for _, pos := range []int{0, 1, 2, 3, 4 + rl, 5 + rl} {
				if pos >= len(valid) {
					continue
				}
				for v := 0; v < 256; v++ {
					if byte(v) == valid[pos] {
						continue
					}
					x := append([]byte{}, valid...)
					x[pos] = byte(v)
					e.emit(fmt.Sprintf("parse.structural-byte%d", pos), "der.parse "+hx(x))
					e.emit(fmt.Sprintf("lax.structural-byte%d", pos), "der.lax "+hx(x))
				}
			}
		}
		// pairs of perturbations
		for j := 0; j < 30; j++ {
			x := append([]byte{}, muts[r.intn(len(muts))]...)
			if len(x) > 0 {
				x[r.intn(len(x))] = byte(r.intn(256))
			}
			e.emit("parse.mut2", "der.parse "+hx(x))
			e.emit("lax.mut2", "der.lax "+hx(x))
		}
	}
	// long but consistently framed encodings: total content length up to the largest one-byte value, reached by
	// zero-padding r, s or both (the length byte then has its top bit set: 0x80..0xfd must still be read as a
	// plain length by the relaxed parser; strict DER must reject the padding)
	for _, total := range []int{0x46, 0x60, 0x7e, 0x7f, 0x80, 0x81, 0x82, 0x90, 0xc8, 0xfc, 0xfd, 0xfe, 0xff} {
		for mode := 0; mode < 3; mode++ {
			rb, sb := derInt(randScalarLen(r, 32)), derInt(randScalarLen(r, 1+r.intn(32)))
			extra := total - (4 + len(rb) + len(sb))
			if extra < 0 {
				continue
			}
			pr, ps := extra, 0
			if mode == 1 {
				pr, ps = 0, extra
			}
			if mode == 2 {
				pr, ps = extra/2, extra-extra/2
			}
			if len(rb)+pr > 255 || len(sb)+ps > 255 {
				continue
			}
			x := derOf(append(make([]byte, pr), rb...), append(make([]byte, ps), sb...))
			e.emit("parse.longpad", "der.parse "+hx(x))
			e.emit("lax.longpad", "der.lax "+hx(x))
			e.emit("lax.longpad.trail", "der.lax "+hx(append(append([]byte{}, x...), 0x01)))
		}
	}
	// every pair of short integers over the byte set {00,01,7f,80,ff}, correctly framed: one-byte
	// negatives, zero, over-padding, minimal padding in both positions
	bset := []byte{0x00, 0x01, 0x7f, 0x80, 0xff}
	var shorts [][]byte
	for _, a := range bset {
		shorts = append(shorts, []byte{a})
		for _, b := range bset {
			shorts = append(shorts, []byte{a, b})
		}
	}
	for _, a := range bset {
		shorts = append(shorts, []byte{0x00, a, 0x55}, []byte{a, 0x00, 0x00})
	}
	for _, rb := range shorts {
		for _, sb := range shorts {
			enc := derOf(rb, sb)
			e.emit("parse.shortints", "der.parse "+hx(enc))
			e.emit("lax.shortints", "der.lax "+hx(enc))
		}
	}
	// the same integer shapes at full width
	for _, hb := range []byte{0x00, 0x01, 0x7f, 0x80, 0xff} {
		for _, l := range []int{31, 32, 33} {
			x := r.bytes(l)
			x[0] = hb
			y := derInt(randScalarLen(r, 32))
			e.emit("parse.wideints", "der.parse "+hx(derOf(x, y)))
			e.emit("lax.wideints", "der.lax "+hx(derOf(x, y)))
			e.emit("parse.wideints", "der.parse "+hx(derOf(y, x)))
			e.emit("lax.wideints", "der.lax "+hx(derOf(y, x)))
		}
	}
	// exhaustive small strings over a 6-symbol alphabet followed by a valid tail
	alpha := []byte{0x00, 0x01, 0x02, 0x30, 0x7f, 0x80}
	maxLen := 5
	if thorough {
		maxLen = 7
	}
	tail := derOf(derInt(randScalarLen(r, 3)), derInt(randScalarLen(r, 2)))
	var rec func(prefix []byte)
	rec = func(prefix []byte) {
		if len(prefix) > 0 {
			full := append(append([]byte{}, prefix...), tail...)
			e.emit("parse.exh", "der.parse "+hx(full))
			e.emit("lax.exh", "der.lax "+hx(full))
			e.emit("parse.exh-bare", "der.parse "+hx(append(append([]byte{}, prefix...), 1, 1, 1)))
		}
		if len(prefix) == maxLen {
			return
		}
		for _, a := range alpha {
			rec(append(append([]byte{}, prefix...), a))
		}
	}
	rec(nil)
	// short and random inputs
	for l := 0; l <= 12; l++ {
		for k := 0; k < 6; k++ {
			x := r.bytes(l)
			if l > 0 && k%2 == 0 {
				x[0] = 0x30
			}
			if l > 1 && k%3 == 0 {
				x[1] = byte(l - 2)
			}
			e.emit("parse.short", "der.parse "+hx(x))
			e.emit("lax.short", "der.lax "+hx(x))
		}
	}
}
