package main

// C17: concurrent use of shared curve, keys and codecs.
// `harness conc -workers N -rounds R -seed S` runs, in THIS fresh process, N goroutines released by a
// barrier over shared objects — including the very first call to S256() and the first public-key
// computation of a private extended key — and compares every result with the value obtained
// sequentially afterwards.  Built with `-race` the run also aborts (exit 66) on any data race.

import (
	"bytes"
	"encoding/json"
	"flag"
	"fmt"
	"os"
	"sync"
	"time"

	"github.com/libsv/go-bk/base58"
	"github.com/libsv/go-bk/bec"
	"github.com/libsv/go-bk/bip32"
	"github.com/libsv/go-bk/bip39"
	"github.com/libsv/go-bk/chaincfg"
	"github.com/libsv/go-bk/crypto"
	"github.com/libsv/go-bk/wif"
)

type concResult struct {
	Workers    int      `json:"workers"`
	Rounds     int      `json:"rounds"`
	Calls      int      `json:"calls"`
	Scenarios  []string `json:"scenarios"`
	Mismatches []string `json:"mismatches"`
}

func runConc(args []string) int {
	fs := flag.NewFlagSet("conc", flag.ExitOnError)
	workers := fs.Int("workers", 8, "goroutines")
	rounds := fs.Int("rounds", 3, "rounds per worker")
	seed := fs.Uint64("seed", 1, "seed")
	_ = fs.Parse(args)
	r := &rng{s: *seed}
	res := concResult{Workers: *workers, Rounds: *rounds}
	var mu sync.Mutex
	record := map[string][]string{} // scenario -> results from all workers
	put := func(name, v string) {
		mu.Lock()
		record[name] = append(record[name], v)
		res.Calls++
		mu.Unlock()
	}

	// inputs fixed before any library call
	scalar := r.bytes(32)
	hash := r.bytes(32)
	seedBytes := r.bytes(32)
	msg := r.bytes(40)
	words := "abandon abandon abandon abandon abandon abandon abandon abandon abandon abandon abandon about"

	// ---- phase 1: first use of S256() raced by all workers -------------------------------------
	start := make(chan struct{})
	var wg sync.WaitGroup
	for w := 0; w < *workers; w++ {
		wg.Add(1)
		go func(w int) {
			defer wg.Done()
			<-start
			// half of the workers arrive while the initialisation is running, the others after it
			// has finished (time.Sleep creates no happens-before edge): an unsynchronised fast path in
			// front of the Once is only exercised by the late ones
			if w%2 == 1 {
				time.Sleep(time.Duration(w) * 3 * time.Millisecond)
			}
			c := bec.S256() // first call in this process, concurrently
			x, y := c.ScalarBaseMult(scalar)
			put("first-S256.sbmul", nhx(x)+","+nhx(y))
			put("first-S256.params", nhx(c.N)+nhx(c.P)+nhx(c.Gx))
		}(w)
	}
	close(start)
	wg.Wait()

	// ---- shared objects -----------------------------------------------------------------------
	priv, pub := bec.PrivKeyFromBytes(bec.S256(), scalar)
	sigSeq, _ := priv.Sign(hash)
	master, err := bip32.NewMaster(seedBytes, &chaincfg.MainNet) // private xkey whose pubKey cache is still empty
	if err != nil {
		fmt.Println(`{"error":"unusable seed"}`)
		return 2
	}
	masterT, _ := bip32.NewMaster(seedBytes, &chaincfg.TestNet) // the same key material on another network
	// a DERIVED private key whose scalar has a leading zero byte (stored with fewer than 32 bytes): hardened
	// derivation has to left-pad it, which must not be done by writing to the shared key
	var shortK *bip32.ExtendedKey
	searchM, _ := bip32.NewMaster(seedBytes, &chaincfg.MainNet) // not `master`: its public-key cache must stay empty for phase 2
	for i := uint32(0); i < 4000 && shortK == nil; i++ {
		if c, err := searchM.Child(bip32.HardenedKeyStart + i); err == nil {
			if sk, err := c.ECPrivKey(); err == nil && len(sk.D.Bytes()) < 32 {
				shortK = c
			}
		}
	}
	pubX, _ := bip32.NewKeyFromString(func() string {
		m2, _ := bip32.NewMaster(seedBytes, &chaincfg.MainNet)
		n, _ := m2.Neuter()
		return n.String()
	}())
	ct, _ := bec.Encrypt(pub, msg)
	w1, _ := wif.NewWIF(priv, &chaincfg.MainNet, true)

	// ---- phase 2: everything else, first pubKeyBytes() of `master` raced ------------------------
	start2 := make(chan struct{})
	for w := 0; w < *workers; w++ {
		wg.Add(1)
		go func(w int) {
			defer wg.Done()
			<-start2
			for it := 0; it < *rounds; it++ {
				// first public-key computation of a private extended key, by different entry points
				switch (w + it) % 4 {
				case 0:
					put("xkey.address", master.Address(&chaincfg.MainNet))
				case 1:
					n, _ := master.Neuter()
					put("xkey.neuter", n.String())
				case 2:
					c, _ := master.Child(uint32(7))
					put("xkey.child7", c.String())
				case 3:
					pk, _ := master.ECPubKey()
					put("xkey.ecpub", hx(pk.SerialiseCompressed()))
				}
				put("xkey.string", master.String())
				ch, _ := master.Child(bip32.HardenedKeyStart + 1)
				put("xkey.childH1", ch.String())
				dp, _ := master.DeriveChildFromPath("0/1'/2")
				put("xkey.path", dp.String())
				pc, _ := pubX.Child(3)
				put("xpub.child3", pc.String()+pc.Address(&chaincfg.TestNet))
				put("xkey.fp", fmt.Sprint(master.ParentFingerprint(), master.Depth(), master.IsPrivate()))
				// signing with a shared private key, verifying / serialising a shared public key
				s, _ := priv.Sign(hash)
				put("sign", nhx(s.R)+","+nhx(s.S))
				put("verify", b2s(sigSeq.Verify(hash, pub)))
				put("serpub", hx(pub.SerialiseCompressed())+hx(pub.SerialiseUncompressed())+hx(pub.SerialiseHybrid()))
				put("sigser", hx(sigSeq.Serialise()))
				cs, _ := bec.SignCompact(bec.S256(), priv, hash, true)
				put("compact", hx(cs))
				rk, _, _ := bec.RecoverCompact(bec.S256(), cs, hash)
				put("recover", nhx(rk.X))
				put("ecdh", hx(bec.GenerateSharedSecret(priv, pub)))
				pt, _ := bec.Decrypt(priv, ct)
				put("decrypt", hx(pt))
				pp, _ := bec.ParsePubKey(pub.SerialiseCompressed(), bec.S256())
				put("parsepub", nhx(pp.Y))
				// ... and its negation (same X, other prefix) straight afterwards: a memo keyed by X alone answers for the twin
				twin := pub.SerialiseCompressed()
				twin[0] ^= 1
				pn, _ := bec.ParsePubKey(twin, bec.S256())
				put("parsepub.twin", nhx(pn.Y))
				x, y := bec.S256().ScalarMult(pub.X, pub.Y, hash)
				put("smul", nhx(x)+nhx(y))
				// codecs and hashes
				put("b58", base58.Encode(msg)+hx(base58.Decode(base58.Encode(msg))))
				put("b58check", base58.CheckEncode(msg, 5))
				put("hash", hx(crypto.Sha256d(msg))+hx(crypto.Hash160(msg))+hx(crypto.Ripemd160(msg)))
				put("wif", w1.String())
				dw, _ := wif.DecodeWIF(w1.String())
				put("wifdec", nhx(dw.PrivKey.D))
				sd, _ := bip39.MnemonicToSeed(words, "x")
				put("bip39.seed", hx(sd))
				// two different calls whose arguments, written one after the other, are the same bytes (sentence | passphrase
				// split at another place), overlapping in time: work shared between "identical" in-flight calls must not mix them
				tail := " abandon abandon abandon"
				for t := 0; t < 2; t++ {
					if (w+t)%2 == 0 {
						sa, _ := bip39.MnemonicToSeed(words, tail)
						put("bip39.seed.split-a", hx(sa))
					} else {
						sb, _ := bip39.MnemonicToSeed(words+tail, "")
						put("bip39.seed.split-b", hx(sb))
					}
				}
				mn, _, _ := bip39.Mnemonic(bytes.Repeat([]byte{byte(it)}, 16), "")
				put("bip39.mn"+fmt.Sprint(it), mn)
				if shortK != nil {
					hc, _ := shortK.Child(bip32.HardenedKeyStart + 3)
					put("short.childH3", hc.String())
					put("short.string", shortK.String())
					nc, _ := shortK.Child(5)
					put("short.child5", nc.String())
					sk, _ := shortK.ECPrivKey()
					put("short.priv", hx(sk.Serialise()))
				}
				// reads that must stay reads: the empty path returns the receiver itself
				dpk, _ := master.DerivePublicKeyFromPath("")
				put("xkey.dpub-empty", hx(dpk))
				// the self-addition branch of the affine adder (reached by Add(P,P) and by crafted signatures)
				ax, ay := bec.S256().Add(pub.X, pub.Y, pub.X, pub.Y)
				put("add.self", nhx(ax)+nhx(ay))
				// decoders on malformed and well-formed strings at the same time (scratch objects recycled through a
				// pool on an error path would be handed to two goroutines)
				base58.Decode("not*base58")
				put("b58.dec", hx(base58.Decode(base58.Encode(msg))))
				_, _, _ = base58.CheckDecode("0OIl")
				cd, cv, _ := base58.CheckDecode(base58.CheckEncode(msg, 7))
				put("b58.cdec", hx(cd)+fmt.Sprint(cv))
				_, _ = wif.DecodeWIF("not a wif")
				_, _ = bip32.NewKeyFromString("xprv0OIl")
				rk2, _ := bip32.NewKeyFromString(master.String())
				put("xkey.reparse", rk2.String())
				id, _ := chaincfg.HDPrivateKeyToPublicKeyID(chaincfg.MainNet.HDPrivateKeyID[:])
				put("chaincfg", hx(id))
				// two networks looked up / neutered at the same time by different goroutines (a shared
				// "last lookup" in front of the registry would pair one network's id with the other's)
				for j := 0; j < 8; j++ {
					if (w+it+j)%2 == 0 {
						nm, _ := master.Neuter()
						put("xkey.neuter", nm.String())
						idT, _ := chaincfg.HDPrivateKeyToPublicKeyID(chaincfg.TestNet.HDPrivateKeyID[:])
						put("chaincfgT", hx(idT))
					} else {
						nt, _ := masterT.Neuter()
						put("xkeyT.neuter", nt.String())
						idM, _ := chaincfg.HDPrivateKeyToPublicKeyID(chaincfg.MainNet.HDPrivateKeyID[:])
						put("chaincfg", hx(idM))
					}
				}
				put("dpath"+fmt.Sprint(it), bip32.DerivePath(uint64(it)*977))
			}
		}(w)
	}
	close(start2)
	wg.Wait()

	// ---- phase 3: the FIRST use of a fresh private key object, many times over: a new (equal-valued) key per trial, all
	// workers released together, each entering through a different method.  A trial that does not finish within 20 s is a
	// deadlock (lock order / recursive read lock around the memoised public key) and is reported as such.
	trials := 60 * *rounds
	for k := 0; k < trials; k++ {
		fresh, err := bip32.NewMaster(seedBytes, &chaincfg.MainNet)
		if err != nil {
			break
		}
		go3 := make(chan struct{})
		done := make(chan struct{})
		var wg3 sync.WaitGroup
		for w := 0; w < *workers; w++ {
			wg3.Add(1)
			go func(w int) {
				defer wg3.Done()
				<-go3
				switch (w + k) % 5 {
				case 0:
					n, _ := fresh.Neuter()
					put("fresh.neuter", n.String())
				case 1:
					put("fresh.address", fresh.Address(&chaincfg.MainNet))
				case 2:
					ch, _ := fresh.Child(3)
					put("fresh.child3", ch.String())
				case 3:
					pk, _ := fresh.ECPubKey()
					put("fresh.ecpub", hx(pk.SerialiseCompressed()))
				case 4:
					n, _ := fresh.Neuter()
					pc, _ := n.Child(1)
					put("fresh.neuter.child1", pc.String())
				}
			}(w)
		}
		close(go3)
		go func() { wg3.Wait(); close(done) }()
		select {
		case <-done:
		case <-time.After(20 * time.Second):
			mu.Lock() // workers that are not stuck may still be recording
			for name := range record {
				res.Scenarios = append(res.Scenarios, name)
			}
			res.Mismatches = append(res.Mismatches, fmt.Sprintf("fresh.first-use: trial %d with %d workers did not return within 20 s (deadlock)", k, res.Workers))
			out, _ := json.Marshal(res)
			mu.Unlock()
			fmt.Println(string(out))
			return 1
		}
	}

	// every call must have returned what it returns alone: all results of a scenario are equal,
	// and equal to a fresh sequential evaluation where one is cheap to redo here
	for name, vals := range record {
		res.Scenarios = append(res.Scenarios, name)
		for _, v := range vals[1:] {
			if v != vals[0] {
				res.Mismatches = append(res.Mismatches, fmt.Sprintf("%s: %q vs %q", name, vals[0], v))
				break
			}
		}
	}
	seqChecks := map[string]string{
		"sign":        nhx(sigSeq.R) + "," + nhx(sigSeq.S),
		"xkey.string": func() string { m2, _ := bip32.NewMaster(seedBytes, &chaincfg.MainNet); return m2.String() }(),
		"xkey.address": func() string {
			m2, _ := bip32.NewMaster(seedBytes, &chaincfg.MainNet)
			return m2.Address(&chaincfg.MainNet)
		}(),
		"decrypt": hx(msg),
		"xkeyT.neuter": func() string {
			m2, _ := bip32.NewMaster(seedBytes, &chaincfg.TestNet)
			n, _ := m2.Neuter()
			return n.String()
		}(),
		"chaincfgT": hx(chaincfg.TestNet.HDPublicKeyID[:]),
		"chaincfg":  hx(chaincfg.MainNet.HDPublicKeyID[:]),
		"verify":    "1",
	}
	for name, want := range seqChecks {
		if vals, ok := record[name]; ok && vals[0] != want {
			res.Mismatches = append(res.Mismatches, fmt.Sprintf("%s: concurrent %q vs sequential %q", name, vals[0], want))
		}
	}
	out, _ := json.Marshal(res)
	fmt.Println(string(out))
	if len(res.Mismatches) > 0 {
		return 1
	}
	_ = os.Stdout.Sync()
	return 0
}
