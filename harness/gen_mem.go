package main

// Generator "C16": for every mem.* function, data lengths around its block/size boundaries ×
// spare capacities × canary prefixes.

import (
	"crypto/aes"
	"fmt"
	"math/big"

	"github.com/libsv/go-bk/base58"
	"github.com/libsv/go-bk/bec"
	"github.com/libsv/go-bk/crypto"
)

func init() { generators["C16"] = genC16 }

func genC16(e *emitter, r *rng, thorough bool) {
	spares := []int{0, 1, 3, 15, 16, 17, 64}
	if thorough {
		spares = spares[:0]
		for s := 0; s <= 64; s++ {
			spares = append(spares, s)
		}
	}
	prefixes := []int{0, 8}
	// emit one op per (prefix, spare): `rest` is everything after the data argument
	sweep := func(fn string, data []byte, rest string) {
		for _, p := range prefixes {
			for _, s := range spares {
				cls := fn + ".spare"
				if s == 0 {
					cls = fn + ".nospare"
				}
				line := fmt.Sprintf("%s %d %d %s", fn, p, s, hx(data))
				if rest != "" {
					line += " " + rest
				}
				e.emit(cls, line)
			}
		}
	}
	curve := bec.S256()
	d := new(big.Int).Mod(new(big.Int).SetBytes(r.bytes(32)), curveN)
	if d.Sign() == 0 {
		d.SetInt64(7)
	}
	pub := mulG(d)
	d2 := new(big.Int).Mod(new(big.Int).SetBytes(r.bytes(32)), curveN)
	pub2 := mulG(d2)

	// bec.Encrypt: plaintext lengths around the AES block size
	var cts [][]byte
	for _, l := range []int{0, 1, 15, 16, 17, 31, 32, 33, 47, 48} {
		msg := r.bytes(l)
		var out []byte
		tape := runWithGenTape(r, -1, func() { out, _ = bec.Encrypt(pubOf(pub.x, pub.y), msg) })
		sweep("mem.encrypt", msg, fmt.Sprintf("%s %s %s", nhx(pub.x), nhx(pub.y), tape))
		if out != nil && (l == 0 || l == 15 || l == 16 || l == 33) {
			cts = append(cts, out)
		}
	}
	// a failing random source
	{
		msg := r.bytes(5)
		tape := runWithGenTape(r, 1, func() { _, _ = bec.Encrypt(pubOf(pub.x, pub.y), msg) })
		sweep("mem.encrypt", msg, fmt.Sprintf("%s %s %s", nhx(pub.x), nhx(pub.y), tape))
	}
	// bec.Decrypt: own ciphertexts, a tampered one, wrong key, short and boundary lengths
	for _, ct := range cts {
		sweep("mem.decrypt", ct, nhx(d))
	}
	{
		x := append([]byte{}, cts[1]...)
		x[len(x)-1] ^= 1
		sweep("mem.decrypt", x, nhx(d))
		sweep("mem.decrypt", cts[2], nhx(d2))
		y := append([]byte{}, cts[0]...)
		sweep("mem.decrypt", y[:len(y)-1], nhx(d))
		for _, l := range []int{0, 133, 134} {
			sweep("mem.decrypt", r.bytes(l), nhx(d))
		}
	}
	// bip39.Mnemonic: all valid entropy sizes and their neighbours
	for _, l := range []int{0, 15, 16, 17, 20, 24, 28, 31, 32, 33, 36} {
		sweep("mem.mnemonic", r.bytes(l), hx([]byte(r.pick("", "TREZOR", "pass phrase"))))
	}
	// crypto.Encrypt / crypto.Decrypt (AES-CFB over base64)
	for _, kl := range []int{16, 32} {
		key := r.bytes(kl)
		blk, _ := aes.NewCipher(key)
		for _, l := range []int{0, 1, 2, 3, 4, 15, 16, 17, 32, 33} {
			txt := r.bytes(l)
			var out []byte
			tape := runWithGenTape(r, -1, func() { out, _ = crypto.Encrypt(blk, txt) })
			if kl == 16 || l%2 == 1 {
				sweep("mem.cfbenc", txt, hx(key)+" "+tape)
			}
			if out != nil && (kl == 32 || l < 4 || l > 16) {
				sweep("mem.cfbdec", out, hx(key))
			}
		}
		for _, l := range []int{0, 1, 15, 16, 17, 20} {
			if kl == 16 {
				sweep("mem.cfbdec", r.bytes(l), hx(key))
			}
		}
	}
	// base58 check encoding
	for _, l := range []int{0, 1, 20, 32, 33} {
		b := r.bytes(l)
		if l > 1 && r.coin(1, 2) {
			b[0] = 0
		}
		v := []int{0, 0x80, 111, 255}[r.intn(4)]
		sweep("mem.checkenc", b, fmt.Sprint(v))
		s := base58.CheckEncode(b, byte(v))
		sweep("mem.checkdec", []byte(s), "")
		if l == 20 {
			bad := []byte(s)
			if bad[len(bad)-1] == 'z' {
				bad[len(bad)-1] = 'y'
			} else {
				bad[len(bad)-1] = 'z'
			}
			sweep("mem.checkdec", bad, "")
		}
	}
	sweep("mem.checkdec", []byte(""), "")
	sweep("mem.checkdec", []byte("1111"), "")
	sweep("mem.checkdec", []byte("3MN0"), "")
	for _, l := range []int{0, 1, 2, 20, 25, 33} {
		b := r.bytes(l)
		if l >= 2 {
			b[0], b[1] = 0, 0
		}
		sweep("mem.b58enc", b, "")
	}
	for _, l := range []int{0, 1, 33, 55, 56, 64, 65} {
		sweep("mem.hash160", r.bytes(l), "")
	}
	// ECDSA: the hash is the window
	for _, l := range []int{0, 1, 31, 32, 33, 64} {
		h := r.bytes(l)
		sweep("mem.sign", h, nhx(d))
		sig, err := privOf(d).Sign(h)
		if err == nil {
			sweep("mem.verify", h, fmt.Sprintf("%s %s %s %s", nhx(pub.x), nhx(pub.y), nhx(sig.R), nhx(sig.S)))
			if l == 32 {
				sweep("mem.verify", h, fmt.Sprintf("%s %s %s %s", nhx(pub2.x), nhx(pub2.y), nhx(sig.R), nhx(sig.S)))
				der := sig.Serialise()
				sweep("mem.parsesig", der, "")
				sweep("mem.parseder", der, "")
				sweep("mem.parsesig", der[:len(der)-1], "")
				sweep("mem.parseder", append(append([]byte{}, der...), 0), "")
			}
		}
	}
	for _, l := range []int{0, 7, 8} {
		sweep("mem.parsesig", r.bytes(l), "")
	}
	sweep("mem.parsesig", []byte{0x30, 0x06, 0x02, 0x01, 0x01, 0x02, 0x01, 0x01}, "")
	sweep("mem.parseder", []byte{0x30, 0x06, 0x02, 0x01, 0x01, 0x02, 0x01, 0x01}, "")
	for _, l := range []int{20, 32, 33} {
		h := r.bytes(l)
		for _, c := range []string{"0", "1"} {
			sweep("mem.signcompact", h, nhx(d)+" "+c)
		}
		if out, err := bec.SignCompact(curve, privOf(d), h, l == 32); err == nil {
			for _, p := range prefixes {
				for _, s := range spares {
					cls := "mem.recover.spare"
					if s == 0 {
						cls = "mem.recover.nospare"
					}
					e.emit(cls, fmt.Sprintf("mem.recover %d %d %s %s", p, s, hx(out), hx(h)))
					if l == 32 && p == 0 {
						e.emit(cls, fmt.Sprintf("mem.recover %d %d %s %s", p, s, hx(out[:64]), hx(h)))
						e.emit(cls, fmt.Sprintf("mem.recover %d %d %s %s", p, s, hx(append(append([]byte{}, out...), 1)), hx(h)))
					}
				}
			}
		}
	}
	// public keys: every format and the lengths around them
	pk := pubOf(pub.x, pub.y)
	sweep("mem.parsepub", pk.SerialiseCompressed(), "")
	sweep("mem.parsepub", pk.SerialiseUncompressed(), "")
	sweep("mem.parsepub", pk.SerialiseHybrid(), "")
	for _, l := range []int{0, 1, 32, 33, 34, 64, 65, 66} {
		b := r.bytes(l)
		if l > 0 {
			b[0] = []byte{2, 3, 4, 6, 7}[r.intn(5)]
		}
		sweep("mem.parsepub", b, "")
	}
	// scalars
	for _, l := range []int{0, 1, 31, 32, 33, 40} {
		k := r.bytes(l)
		sweep("mem.sbmul", k, "")
		sweep("mem.smul", k, nhx(pub2.x)+" "+nhx(pub2.y))
		if l <= 33 {
			sweep("mem.privbytes", k, "")
		}
	}
	sweep("mem.sbmul", curveN.Bytes(), "")
	for _, l := range []int{0, 1, 2, 16, 32, 33} {
		k := r.bytes(l)
		sweep("mem.naf", k, "")
		for i := range k {
			k[i] = 0xff
		}
		if l > 0 {
			sweep("mem.naf", k, "")
		}
	}
	for _, l := range []int{15, 16, 17, 32, 63, 64, 65} {
		sweep("mem.newmaster", r.bytes(l), "")
	}
	// extended keys whose key slice is the window
	for _, l := range []int{0, 1, 31, 32, 33} {
		k := r.bytes(l)
		sweep("mem.xkstring", k, "1")
		if l >= 1 {
			sweep("mem.xkaddr", k, "1 "+[]string{"0", "111", "255"}[r.intn(3)])
		}
		if l >= 1 && l <= 32 {
			for _, idx := range []string{"0", "1", "2147483648", "2147483649"} {
				sweep("mem.xkchild", k, "1 "+idx)
			}
		}
	}
	cpk := pk.SerialiseCompressed()
	sweep("mem.xkstring", cpk, "0")
	sweep("mem.xkaddr", cpk, "0 0")
	sweep("mem.xkaddr", cpk[:20], "0 111")
	sweep("mem.xkchild", cpk, "0 0")
	sweep("mem.xkchild", cpk, "0 2147483648")
	bad := append([]byte{}, cpk...)
	bad[0] = 5
	sweep("mem.xkchild", bad, "0 7")
}
