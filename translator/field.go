package main

// Translation of bec/field.go (secp256k1 field arithmetic on 10 x uint32 words, base 2^26) into
// Lean definitions.  The function bodies themselves are translated (typed expression
// translation, no templates).
//
// Accepted subset (everything else stops the program with `untranslatable: file:line: reason`):
//
//   declarations  untyped integer `const` blocks (folded with arbitrary precision);
//                 `var name = []byte{consts…}` tables; `type fieldVal struct { n [10]uint32 }`;
//                 methods on fieldVal.
//   parameters    *fieldVal, *[32]byte (cells), uint32, uint (a Nat argument, only convertible).
//   statements    `x := e`, `x = e`, `x op= e` on scalar locals; `c.n[i] = e`, `c.n[i] op= e`,
//                 `b[i] = e` with constant i on the receiver / the single output parameter /
//                 a local cell; `*f = *val`; `if cond {…} else {…}` whose branches only assign
//                 existing scalar locals; `var a, b fieldVal`; `b := new([32]byte)`;
//                 method-call statements and chains `c.M(args).N(args)` on cells (flattened in
//                 Go evaluation order; every link must return its receiver);
//                 `for _, b := range <byte table>` and `switch b {case consts…}` on the loop
//                 constant, both unrolled at translation time; one final `return`.
//   expressions   integer literals, package constants, scalar locals/parameters, `c.n[i]`,
//                 `b[i]` (constant i), `+ - * & | ^ &^`, `<< >>` by constants smaller than the
//                 operand width, `== != < <= > >=` (in `if` conditions and bool results),
//                 conversions uint32() uint64() byte()/uint8().
//   typing        locals declared by := take the type of their right-hand side; an untyped
//                 constant adopts the type of the other operand (and must be representable);
//                 operands of a binary operator must otherwise have identical types.
//
// Mutation through a pointer becomes returning the new value.  For that rendering to be faithful
// when arguments alias the receiver (f.Mul(val) = f.Mul2(f, val), x.Add(x), …) every function is
// checked word by word: no word p.n[i] of a pointer parameter p may be read after word i of the
// receiver has been written.  Functions failing the check must be listed in aliasUnsafeAllowed
// and are then refused at every aliased call site.

import (
	"fmt"
	"go/ast"
	"go/parser"
	"go/token"
	"math/big"
	"path/filepath"
	"sort"
	"strings"
)

// targets are the methods that must be translated; skipped ones are listed with the reason.
var targets = []string{
	"Zero", "Set", "SetInt", "SetBytes", "Normalise", "PutBytes", "Bytes", "IsZero", "IsOdd",
	"Equals", "NegateVal", "Negate", "AddInt", "Add", "Add2", "MulInt", "Mul", "Mul2", "Square",
	"SquareVal", "Inverse", "SqrtVal",
}

var skipped = map[string]string{
	"String":       "formatting helper (encoding/hex)",
	"SetByteSlice": "slice handling (len/copy); hand-modelled",
	"SetHex":       "string handling (encoding/hex); hand-modelled",
	"Sqrt":         "f.SqrtVal(f) aliases an alias-unsafe parameter (unused by the package)",
}

// aliasUnsafeAllowed: functions that may fail the aliasing check (parameter must not alias f).
var aliasUnsafeAllowed = map[string]bool{"SqrtVal": true}

type untranslatable struct{ msg string }

func (u untranslatable) Error() string { return u.msg }

type translator struct {
	fset    *token.FileSet
	src     []byte
	relPath string

	consts     map[string]*big.Int
	constOrder []string
	tables     map[string][]*big.Int
	tableOrder []string

	methods    map[string]*ast.FuncDecl
	funcs      map[string]*Func
	inProgress map[string]bool
	emitted    []*Func
}

func (t *translator) fail(n ast.Node, format string, args ...interface{}) {
	line := 0
	if n != nil {
		line = t.fset.Position(n.Pos()).Line
	}
	panic(untranslatable{fmt.Sprintf("untranslatable: %s:%d: %s", t.relPath, line, fmt.Sprintf(format, args...))})
}

// TranslateField parses repo/rel and returns the text of Field.lean.
func TranslateField(repo, rel string) (text string, err error) {
	defer func() {
		if r := recover(); r != nil {
			if u, ok := r.(untranslatable); ok {
				err = u
				return
			}
			panic(r)
		}
	}()
	t := &translator{
		fset: token.NewFileSet(), relPath: rel,
		consts: map[string]*big.Int{}, tables: map[string][]*big.Int{},
		methods: map[string]*ast.FuncDecl{}, funcs: map[string]*Func{}, inProgress: map[string]bool{},
	}
	path := filepath.Join(repo, filepath.FromSlash(rel))
	file, perr := parser.ParseFile(t.fset, path, nil, parser.SkipObjectResolution)
	if perr != nil {
		return "", perr
	}
	src, rerr := readFile(path)
	if rerr != nil {
		return "", rerr
	}
	t.src = src
	t.collect(file)
	for _, name := range targets {
		if _, ok := t.methods[name]; !ok {
			t.fail(file, "method %s not found", name)
		}
	}
	seenLean := map[string]string{}
	for _, name := range targets {
		ln := leanFuncName(name)
		if other, dup := seenLean[ln]; dup {
			t.fail(t.methods[name], "Lean name %s of %s clashes with %s", ln, name, other)
		}
		seenLean[ln] = name
	}
	for _, name := range targets {
		t.getFunc(name, t.methods[name])
	}
	return t.emit(), nil
}

// ---------------------------------------------------------------------------------------------
// declarations

func (t *translator) collect(file *ast.File) {
	for _, d := range file.Decls {
		switch x := d.(type) {
		case *ast.GenDecl:
			switch x.Tok {
			case token.IMPORT:
			case token.CONST:
				for _, s := range x.Specs {
					vs := s.(*ast.ValueSpec)
					if vs.Type != nil || len(vs.Names) != len(vs.Values) {
						t.fail(vs, "only untyped constants with explicit values are supported")
					}
					for i, n := range vs.Names {
						t.consts[n.Name] = t.evalConst(vs.Values[i])
						t.constOrder = append(t.constOrder, n.Name)
					}
				}
			case token.VAR:
				for _, s := range x.Specs {
					vs := s.(*ast.ValueSpec)
					if len(vs.Names) != 1 || len(vs.Values) != 1 {
						t.fail(vs, "unsupported package variable")
					}
					cl, ok := vs.Values[0].(*ast.CompositeLit)
					if !ok {
						t.fail(vs, "unsupported package variable")
					}
					at, ok := cl.Type.(*ast.ArrayType)
					if !ok || at.Len != nil || !isIdent(at.Elt, "byte") {
						t.fail(vs, "only []byte tables are supported")
					}
					var vals []*big.Int
					for _, e := range cl.Elts {
						v := t.evalConst(e)
						if v.Sign() < 0 || v.BitLen() > 8 {
							t.fail(e, "byte constant out of range")
						}
						vals = append(vals, v)
					}
					t.tables[vs.Names[0].Name] = vals
					t.tableOrder = append(t.tableOrder, vs.Names[0].Name)
				}
			case token.TYPE:
				for _, s := range x.Specs {
					ts := s.(*ast.TypeSpec)
					if ts.Name.Name != "fieldVal" || !t.isFieldValStruct(ts.Type) {
						t.fail(ts, "expected `type fieldVal struct { n [10]uint32 }`")
					}
				}
			default:
				t.fail(x, "unsupported declaration")
			}
		case *ast.FuncDecl:
			if x.Recv == nil || len(x.Recv.List) != 1 || len(x.Recv.List[0].Names) != 1 {
				t.fail(x, "only methods of fieldVal are supported")
			}
			rt := x.Recv.List[0].Type
			if st, ok := rt.(*ast.StarExpr); ok {
				rt = st.X
			}
			if !isIdent(rt, "fieldVal") {
				t.fail(x, "only methods of fieldVal are supported")
			}
			name := x.Name.Name
			if _, skip := skipped[name]; skip {
				continue
			}
			known := false
			for _, n := range targets {
				known = known || n == name
			}
			if !known {
				t.fail(x, "method %s is neither in the translation table nor in the skip list", name)
			}
			if _, isPtr := x.Recv.List[0].Type.(*ast.StarExpr); !isPtr {
				t.fail(x, "value receivers are not supported")
			}
			t.methods[name] = x
		default:
			t.fail(d, "unsupported declaration")
		}
	}
}

func isIdent(e ast.Expr, name string) bool {
	id, ok := e.(*ast.Ident)
	return ok && id.Name == name
}

func (t *translator) isFieldValStruct(e ast.Expr) bool {
	st, ok := e.(*ast.StructType)
	if !ok || len(st.Fields.List) != 1 {
		return false
	}
	f := st.Fields.List[0]
	if len(f.Names) != 1 || f.Names[0].Name != "n" {
		return false
	}
	at, ok := f.Type.(*ast.ArrayType)
	if !ok || at.Len == nil || !isIdent(at.Elt, "uint32") {
		return false
	}
	return t.evalConst(at.Len).Cmp(big.NewInt(10)) == 0
}

func (t *translator) evalConst(e ast.Expr) *big.Int {
	switch x := e.(type) {
	case *ast.BasicLit:
		if x.Kind != token.INT {
			t.fail(x, "non-integer literal")
		}
		v, ok := new(big.Int).SetString(strings.ReplaceAll(x.Value, "_", ""), 0)
		if !ok {
			t.fail(x, "bad integer literal %s", x.Value)
		}
		return v
	case *ast.Ident:
		if v, ok := t.consts[x.Name]; ok {
			return v
		}
		t.fail(x, "unknown constant %s", x.Name)
	case *ast.ParenExpr:
		return t.evalConst(x.X)
	case *ast.BinaryExpr:
		l, r := t.evalConst(x.X), t.evalConst(x.Y)
		v, ok := foldConst(x.Op, l, r)
		if !ok {
			t.fail(x, "unsupported constant operator %s", x.Op)
		}
		return v
	}
	t.fail(e, "unsupported constant expression")
	return nil
}

func foldConst(op token.Token, l, r *big.Int) (*big.Int, bool) {
	z := new(big.Int)
	switch op {
	case token.ADD:
		return z.Add(l, r), true
	case token.SUB:
		return z.Sub(l, r), true
	case token.MUL:
		return z.Mul(l, r), true
	case token.AND:
		return z.And(l, r), true
	case token.OR:
		return z.Or(l, r), true
	case token.XOR:
		return z.Xor(l, r), true
	case token.AND_NOT:
		return z.AndNot(l, r), true
	case token.SHL:
		if r.Sign() < 0 || r.BitLen() > 12 {
			return nil, false
		}
		return z.Lsh(l, uint(r.Int64())), true
	case token.SHR:
		if r.Sign() < 0 || r.BitLen() > 12 {
			return nil, false
		}
		return z.Rsh(l, uint(r.Int64())), true
	case token.QUO:
		if r.Sign() == 0 {
			return nil, false
		}
		return z.Quo(l, r), true
	case token.REM:
		if r.Sign() == 0 {
			return nil, false
		}
		return z.Rem(l, r), true
	}
	return nil, false
}

// ---------------------------------------------------------------------------------------------
// functions

type cell struct {
	goName    string
	lean      string
	kind      cellKind
	base      string // Lean name currently holding the whole value ("" = zero-valued local)
	baseParam *cell  // non-nil while base denotes the initial value of that parameter
	over      []string
	isRecv    bool
	paramIdx  int // index among Go parameters, -1 otherwise
	isLocal   bool
	written   bool
	wroteWord []bool
	usedInit  bool
}

type fnCtx struct {
	tr        *translator
	decl      *ast.FuncDecl
	fn        *Func
	recv      *cell
	cells     map[string]*cell
	cellOrder []*cell
	locals    map[string]Ty
	goNames   map[string]bool
	genNames  map[string]bool
	loopConst map[string]*big.Int
	stmts     []Stmt
	inBranch  bool
	returned  bool
	retCell   *cell
	callees   []*Func
}

var leanReserved = map[string]bool{
	"at": true, "by": true, "do": true, "end": true, "from": true, "fun": true, "have": true, "if": true,
	"in": true, "let": true, "match": true, "then": true, "else": true, "show": true, "with": true,
	"where": true, "open": true, "def": true, "theorem": true, "example": true, "namespace": true,
	"section": true, "variable": true, "universe": true, "import": true, "instance": true,
	"structure": true, "class": true, "deriving": true, "mutual": true, "macro": true, "syntax": true,
	"Type": true, "Prop": true, "Sort": true, "for": true, "return": true, "mut": true, "unless": true,
	"using": true, "calc": true, "nomatch": true, "nofun": true, "exists": true, "forall": true,
	"private": true, "protected": true, "partial": true, "unsafe": true, "axiom": true, "opaque": true,
	"abbrev": true, "inductive": true, "set_option": true, "attribute": true, "local": true,
	"scoped": true, "export": true, "extends": true, "then_": true, "termination_by": true,
	"decreasing_by": true, "omit": true, "include": true, "break": true, "continue": true, "try": true,
	"catch": true, "finally": true, "suffices": true, "obtain": true, "set": true,
}

func leanIdent(goName string) string {
	if leanReserved[goName] {
		return goName + "_"
	}
	return goName
}

// leanFuncName: Zero -> zero, Mul2 -> mul2; a name that is reserved in Lean (or is a Mathlib
// tactic keyword: set) gets the suffix Val (Set -> setVal).
func leanFuncName(goName string) string {
	n := lowerFirst(goName)
	if leanReserved[n] {
		n += "Val"
	}
	return n
}

func lowerFirst(s string) string {
	return strings.ToLower(s[:1]) + s[1:]
}

func (t *translator) getFunc(name string, at ast.Node) *Func {
	if f, ok := t.funcs[name]; ok {
		return f
	}
	decl, ok := t.methods[name]
	if !ok {
		t.fail(at, "call of untranslated method %s", name)
	}
	if t.inProgress[name] {
		t.fail(at, "recursive call of %s", name)
	}
	t.inProgress[name] = true
	f := t.translateFunc(decl)
	t.inProgress[name] = false
	t.funcs[name] = f
	t.emitted = append(t.emitted, f)
	return f
}

func (t *translator) translateFunc(decl *ast.FuncDecl) *Func {
	c := &fnCtx{
		tr: t, decl: decl, cells: map[string]*cell{}, locals: map[string]Ty{},
		goNames: map[string]bool{}, genNames: map[string]bool{}, loopConst: map[string]*big.Int{},
	}
	fn := &Func{GoName: decl.Name.Name, LeanName: leanFuncName(decl.Name.Name), Line: t.fset.Position(decl.Pos()).Line}
	c.fn = fn
	sig := string(t.src[t.fset.Position(decl.Pos()).Offset:t.fset.Position(decl.Body.Lbrace).Offset])
	fn.GoSig = strings.Join(strings.Fields(sig), " ")

	// receiver
	rname := decl.Recv.List[0].Names[0].Name
	c.recv = c.newCell(rname, kFV, decl)
	c.recv.isRecv = true
	c.recv.base = c.recv.lean
	c.recv.baseParam = c.recv

	// parameters
	idx := 0
	for _, fld := range decl.Type.Params.List {
		if len(fld.Names) == 0 {
			t.fail(fld, "unnamed parameter")
		}
		for _, n := range fld.Names {
			p := Param{Name: leanIdent(n.Name)}
			switch {
			case isPtrTo(fld.Type, "fieldVal"):
				p.IsCell, p.Kind = true, kFV
			case t.isPtrToByte32(fld.Type):
				p.IsCell, p.Kind = true, kB32
			case isIdent(fld.Type, "uint32"):
				p.T = TU32
			case isIdent(fld.Type, "uint64"):
				p.T = TU64
			case isIdent(fld.Type, "uint"):
				p.T = TNat
			default:
				t.fail(fld, "unsupported parameter type")
			}
			if p.IsCell {
				cl := c.newCell(n.Name, p.Kind, n)
				cl.paramIdx = idx
				cl.base = cl.lean
				cl.baseParam = cl
			} else {
				c.declareLocal(n.Name, p.T, n)
			}
			fn.GoParams = append(fn.GoParams, p)
			fn.AliasSafe = append(fn.AliasSafe, true)
			fn.AliasNote = append(fn.AliasNote, "")
			idx++
		}
	}

	// result type
	wantBool, wantFV, wantB32 := false, false, false
	if decl.Type.Results != nil {
		if len(decl.Type.Results.List) != 1 || len(decl.Type.Results.List[0].Names) != 0 {
			t.fail(decl, "unsupported result list")
		}
		rt := decl.Type.Results.List[0].Type
		switch {
		case isIdent(rt, "bool"):
			wantBool = true
		case isPtrTo(rt, "fieldVal"):
			wantFV = true
		case t.isPtrToByte32(rt):
			wantB32 = true
		default:
			t.fail(rt, "unsupported result type")
		}
	}

	c.block(decl.Body.List, true)

	if (wantBool || wantFV || wantB32) && !c.returned {
		t.fail(decl, "missing final return")
	}

	// which object carries the result?
	var writtenParams []*cell
	for _, cl := range c.cellOrder {
		if !cl.isLocal && cl.written {
			writtenParams = append(writtenParams, cl)
		}
	}
	var out *cell
	switch {
	case wantBool:
		if fn.RetExpr == nil {
			t.fail(decl, "bool result expected")
		}
		if len(writtenParams) != 0 {
			t.fail(decl, "a bool-valued method must not mutate its arguments")
		}
		fn.Ret, fn.Out = retBool, outValue
	case c.retCell != nil && c.retCell.isLocal:
		if len(writtenParams) != 0 {
			t.fail(decl, "a method returning a fresh value must not mutate its arguments")
		}
		if (wantFV && c.retCell.kind != kFV) || (wantB32 && c.retCell.kind != kB32) {
			t.fail(decl, "result type mismatch")
		}
		out = c.retCell
		fn.Ret, fn.Out = retCell, outValue
	default:
		if fn.RetExpr != nil {
			t.fail(decl, "unexpected bool result")
		}
		if len(writtenParams) > 1 {
			t.fail(decl, "more than one argument is mutated")
		}
		out = c.recv
		if len(writtenParams) == 1 {
			out = writtenParams[0]
		}
		if c.retCell != nil {
			if c.retCell != c.recv || out != c.recv || !wantFV {
				t.fail(decl, "only the receiver may be returned")
			}
			fn.ReturnsRecv = true
		}
		fn.Ret = retCell
		if out == c.recv {
			fn.Out = outRecv
		} else {
			fn.Out = outParam
			fn.OutParamIdx = out.paramIdx
		}
	}
	if out != nil {
		fn.RetKind = out.kind
		fn.RetText = c.finalText(out)
	}

	// Lean parameters
	fn.RecvRead = c.recv.usedInit
	if fn.RecvRead {
		fn.Params = append(fn.Params, Param{Name: c.recv.lean, IsCell: true, Kind: kFV})
	}
	for i, p := range fn.GoParams {
		if p.IsCell && fn.Out == outParam && i == fn.OutParamIdx {
			fn.OutRead = out.usedInit
			if !fn.OutRead {
				continue
			}
		}
		fn.Params = append(fn.Params, p)
	}

	// generated names must not capture Go names
	var gen []string
	for g := range c.genNames {
		gen = append(gen, g)
	}
	sort.Strings(gen)
	for _, g := range gen {
		if c.goNames[g] {
			t.fail(decl, "generated name %s clashes with a Go identifier", g)
		}
	}

	// aliasing discipline
	for i, p := range fn.GoParams {
		if p.IsCell && p.Kind == kFV && !fn.AliasSafe[i] && !aliasUnsafeAllowed[fn.GoName] {
			t.fail(decl, "parameter %s is not alias-safe: %s", p.Name, fn.AliasNote[i])
		}
	}

	fn.Stmts = c.stmts
	fn.HasExact = fn.Ret == retCell && fn.RetKind == kFV
	for _, p := range fn.Params {
		if p.IsCell && p.Kind != kFV {
			fn.HasExact = false
		}
	}
	for _, s := range fn.Stmts {
		if !stmtHasExact(s) {
			fn.HasExact = false
		}
	}
	return fn
}

func stmtHasExact(s Stmt) bool {
	switch x := s.(type) {
	case SLet:
		return !usesBytesOrAndNot(x.E)
	case SIf:
		if usesBytesOrAndNot(x.Cond) {
			return false
		}
		for _, l := range append(append([]SLet{}, x.Then...), x.Else...) {
			if usesBytesOrAndNot(l.E) {
				return false
			}
		}
		return true
	case SCellLit:
		return x.Kind == kFV
	case SCall:
		if !x.Callee.HasExact {
			return false
		}
		for _, a := range x.Args {
			if a.E != nil && usesBytesOrAndNot(a.E) {
				return false
			}
		}
		return true
	}
	return false
}

func isPtrTo(e ast.Expr, name string) bool {
	st, ok := e.(*ast.StarExpr)
	return ok && isIdent(st.X, name)
}

func (t *translator) isByte32(e ast.Expr) bool {
	at, ok := e.(*ast.ArrayType)
	if !ok || at.Len == nil || !(isIdent(at.Elt, "byte") || isIdent(at.Elt, "uint8")) {
		return false
	}
	return t.evalConst(at.Len).Cmp(big.NewInt(32)) == 0
}

func (t *translator) isPtrToByte32(e ast.Expr) bool {
	st, ok := e.(*ast.StarExpr)
	return ok && t.isByte32(st.X)
}

func (c *fnCtx) noteGoName(name string, at ast.Node) {
	if name == "_" {
		c.tr.fail(at, "blank identifier")
	}
	c.goNames[leanIdent(name)] = true
}

func (c *fnCtx) newCell(goName string, kind cellKind, at ast.Node) *cell {
	if _, dup := c.cells[goName]; dup {
		c.tr.fail(at, "redeclaration of %s", goName)
	}
	if _, dup := c.locals[goName]; dup {
		c.tr.fail(at, "redeclaration of %s", goName)
	}
	c.noteGoName(goName, at)
	cl := &cell{goName: goName, lean: leanIdent(goName), kind: kind, paramIdx: -1,
		over: make([]string, kind.words()), wroteWord: make([]bool, kind.words())}
	c.cells[goName] = cl
	c.cellOrder = append(c.cellOrder, cl)
	return cl
}

func (c *fnCtx) declareLocal(goName string, t Ty, at ast.Node) {
	if _, dup := c.cells[goName]; dup {
		c.tr.fail(at, "redeclaration of %s", goName)
	}
	if _, dup := c.locals[goName]; dup {
		c.tr.fail(at, "redeclaration of %s", goName)
	}
	if _, isConst := c.tr.consts[goName]; isConst {
		c.tr.fail(at, "local %s shadows a package constant", goName)
	}
	c.noteGoName(goName, at)
	c.locals[goName] = t
}

func (c *fnCtx) emitStmt(s Stmt) { c.stmts = append(c.stmts, s) }

func (c *fnCtx) markUsed(cl *cell) {
	if cl.baseParam != nil {
		cl.baseParam.usedInit = true
	}
}

func (c *fnCtx) unsafeAlias(p *cell, at ast.Node, why string) {
	if p.paramIdx >= 0 && c.fn.AliasSafe[p.paramIdx] {
		c.fn.AliasSafe[p.paramIdx] = false
		c.fn.AliasNote[p.paramIdx] = fmt.Sprintf("line %d: %s", c.tr.fset.Position(at.Pos()).Line, why)
	}
}

// isAliasCandidate: a pointer parameter that a caller may pass the receiver for.
func (c *fnCtx) isAliasCandidate(cl *cell) bool {
	return cl.paramIdx >= 0 && !cl.isRecv && cl.kind == kFV
}

func (c *fnCtx) wordRead(cl *cell, i int, at ast.Node) Expr {
	ty := TU32
	if cl.kind == kB32 {
		ty = TU8
	}
	if i < 0 || i >= cl.kind.words() {
		c.tr.fail(at, "index %d out of range", i)
	}
	if c.isAliasCandidate(cl) && c.recv.wroteWord[i] {
		c.unsafeAlias(cl, at, fmt.Sprintf("%s.n[%d] is read after %s.n[%d] was written", cl.goName, i, c.recv.goName, i))
	}
	if cl.over[i] != "" {
		return Atom{cl.over[i], ty}
	}
	if cl.base != "" {
		c.markUsed(cl)
		return Atom{cl.base + "." + cl.kind.field(i), ty}
	}
	return Lit{big.NewInt(0), ty}
}

func (c *fnCtx) checkWritable(cl *cell, at ast.Node) {
	if c.inBranch {
		c.tr.fail(at, "assignment to %s inside a branch", cl.goName)
	}
	if c.isAliasCandidate(cl) && cl.kind == kFV {
		c.tr.fail(at, "write through the non-receiver parameter %s", cl.goName)
	}
}

func (c *fnCtx) wordWrite(cl *cell, i int, e Expr, at ast.Node) {
	c.checkWritable(cl, at)
	if i < 0 || i >= cl.kind.words() {
		c.tr.fail(at, "index %d out of range", i)
	}
	name := cl.lean + "_" + cl.kind.field(i)
	c.genNames[name] = true
	ty := TU32
	if cl.kind == kB32 {
		ty = TU8
	}
	c.emitStmt(SLet{name, ty, e})
	cl.over[i] = name
	cl.written = true
	cl.wroteWord[i] = true
}

// fieldTexts returns the Lean spelling of every word of the current value of cl.
func (c *fnCtx) fieldTexts(cl *cell) []string {
	fields := make([]string, cl.kind.words())
	for i := range fields {
		switch {
		case cl.over[i] != "":
			fields[i] = cl.over[i]
		case cl.base != "":
			c.markUsed(cl)
			fields[i] = cl.base + "." + cl.kind.field(i)
		default:
			fields[i] = "0"
		}
	}
	return fields
}

func (c *fnCtx) hasOverrides(cl *cell) bool {
	for _, o := range cl.over {
		if o != "" {
			return true
		}
	}
	return false
}

// valueText returns a Lean name holding the whole current value of cl (materialising pending
// word writes in a `let` if necessary).
func (c *fnCtx) valueText(cl *cell) string {
	if !c.hasOverrides(cl) && cl.base != "" {
		c.markUsed(cl)
		return cl.base
	}
	c.emitStmt(SCellLit{cl.lean, cl.kind, c.fieldTexts(cl)})
	cl.base, cl.baseParam = cl.lean, nil
	for i := range cl.over {
		cl.over[i] = ""
	}
	return cl.base
}

func (c *fnCtx) finalText(cl *cell) string {
	if !c.hasOverrides(cl) && cl.base != "" {
		c.markUsed(cl)
		return cl.base
	}
	return structLit(cl.kind, c.fieldTexts(cl))
}

// ---------------------------------------------------------------------------------------------
// statements

func (c *fnCtx) block(list []ast.Stmt, top bool) {
	for i, s := range list {
		if c.returned {
			c.tr.fail(s, "statement after return")
		}
		switch x := s.(type) {
		case *ast.AssignStmt:
			c.assign(x)
		case *ast.IfStmt:
			c.ifStmt(x)
		case *ast.ExprStmt:
			call, ok := x.X.(*ast.CallExpr)
			if !ok {
				c.tr.fail(x, "unsupported expression statement")
			}
			c.callChain(call)
		case *ast.DeclStmt:
			c.declStmt(x)
		case *ast.RangeStmt:
			c.rangeStmt(x)
		case *ast.SwitchStmt:
			c.switchStmt(x)
		case *ast.ReturnStmt:
			if !top || i != len(list)-1 {
				c.tr.fail(x, "return is only supported as the final statement")
			}
			c.returnStmt(x)
		default:
			c.tr.fail(s, "unsupported statement")
		}
	}
}

func (c *fnCtx) declStmt(s *ast.DeclStmt) {
	if c.inBranch {
		c.tr.fail(s, "declaration inside a branch")
	}
	gd, ok := s.Decl.(*ast.GenDecl)
	if !ok || gd.Tok != token.VAR {
		c.tr.fail(s, "unsupported declaration")
	}
	for _, sp := range gd.Specs {
		vs := sp.(*ast.ValueSpec)
		if len(vs.Values) != 0 || !isIdent(vs.Type, "fieldVal") {
			c.tr.fail(vs, "only `var a, b fieldVal` is supported")
		}
		for _, n := range vs.Names {
			cl := c.newCell(n.Name, kFV, n)
			cl.isLocal = true
		}
	}
}

func (c *fnCtx) rangeStmt(s *ast.RangeStmt) {
	if c.inBranch {
		c.tr.fail(s, "loop inside a branch")
	}
	if s.Key != nil && !isIdent(s.Key, "_") {
		c.tr.fail(s, "range with an index variable")
	}
	v, ok := s.Value.(*ast.Ident)
	tbl, ok2 := s.X.(*ast.Ident)
	if !ok || !ok2 || s.Tok != token.DEFINE {
		c.tr.fail(s, "unsupported range statement")
	}
	vals, ok := c.tr.tables[tbl.Name]
	if !ok {
		c.tr.fail(s, "range over something that is not a constant byte table")
	}
	if _, dup := c.loopConst[v.Name]; dup || c.goNames[leanIdent(v.Name)] {
		c.tr.fail(s, "loop variable %s shadows another identifier", v.Name)
	}
	for _, val := range vals {
		c.loopConst[v.Name] = val
		c.block(s.Body.List, false)
	}
	delete(c.loopConst, v.Name)
}

func (c *fnCtx) switchStmt(s *ast.SwitchStmt) {
	if s.Init != nil || s.Tag == nil {
		c.tr.fail(s, "unsupported switch")
	}
	tag, ok := c.expr(s.Tag).(Lit)
	if !ok {
		c.tr.fail(s, "switch on a value not known at translation time")
	}
	var chosen, deflt *ast.CaseClause
	for _, cs := range s.Body.List {
		cc := cs.(*ast.CaseClause)
		if n := len(cc.Body); n > 0 {
			if _, isBranch := cc.Body[n-1].(*ast.BranchStmt); isBranch {
				c.tr.fail(cc, "fallthrough/break in switch")
			}
		}
		if cc.List == nil {
			deflt = cc
			continue
		}
		for _, e := range cc.List {
			l, ok := c.expr(e).(Lit)
			if !ok {
				c.tr.fail(e, "non-constant case")
			}
			if chosen == nil && l.V.Cmp(tag.V) == 0 {
				chosen = cc
			}
		}
	}
	if chosen == nil {
		chosen = deflt
	}
	if chosen != nil {
		c.block(chosen.Body, false)
	}
}

func (c *fnCtx) returnStmt(s *ast.ReturnStmt) {
	c.returned = true
	if len(s.Results) == 0 {
		return
	}
	if len(s.Results) != 1 {
		c.tr.fail(s, "multiple results")
	}
	switch r := s.Results[0].(type) {
	case *ast.Ident:
		if cl, ok := c.cells[r.Name]; ok {
			c.retCell = cl
			return
		}
	case *ast.CallExpr:
		if _, isMethod := r.Fun.(*ast.SelectorExpr); isMethod {
			cl := c.callChain(r)
			if cl == nil {
				c.tr.fail(r, "the returned call does not return its receiver")
			}
			c.retCell = cl
			return
		}
	}
	e := c.expr(s.Results[0])
	if e.Type() != TBool {
		c.tr.fail(s, "unsupported return value")
	}
	c.fn.RetExpr = e
}

var assignOps = map[token.Token]token.Token{
	token.ADD_ASSIGN: token.ADD, token.SUB_ASSIGN: token.SUB, token.MUL_ASSIGN: token.MUL,
	token.AND_ASSIGN: token.AND, token.OR_ASSIGN: token.OR, token.XOR_ASSIGN: token.XOR,
	token.SHL_ASSIGN: token.SHL, token.SHR_ASSIGN: token.SHR, token.AND_NOT_ASSIGN: token.AND_NOT,
}

func (c *fnCtx) assign(s *ast.AssignStmt) {
	if len(s.Lhs) != 1 || len(s.Rhs) != 1 {
		c.tr.fail(s, "multiple assignment")
	}
	lhs, rhs := s.Lhs[0], s.Rhs[0]

	// *f = *val
	if st, ok := lhs.(*ast.StarExpr); ok {
		rs, ok2 := rhs.(*ast.StarExpr)
		if !ok2 || s.Tok != token.ASSIGN {
			c.tr.fail(s, "unsupported pointer assignment")
		}
		dst, src := c.cellOf(st.X, s), c.cellOf(rs.X, s)
		c.checkWritable(dst, s)
		if dst.kind != src.kind || dst == src {
			c.tr.fail(s, "unsupported pointer assignment")
		}
		if src.isRecv || src.isLocal || c.hasOverrides(src) || src.baseParam != src {
			c.tr.fail(s, "copy from a mutable cell")
		}
		c.markUsed(src)
		if c.isAliasCandidate(src) && c.recv.written {
			c.unsafeAlias(src, s, "whole-value read after the receiver was written")
		}
		dst.base, dst.baseParam = src.base, src.baseParam
		for i := range dst.over {
			dst.over[i] = ""
			dst.wroteWord[i] = true
		}
		dst.written = true
		return
	}

	// b := new([32]byte) / new(fieldVal)
	if call, ok := rhs.(*ast.CallExpr); ok && isIdent(call.Fun, "new") {
		id, isId := lhs.(*ast.Ident)
		if !isId || s.Tok != token.DEFINE || len(call.Args) != 1 || c.inBranch {
			c.tr.fail(s, "unsupported use of new")
		}
		var cl *cell
		switch {
		case c.tr.isByte32(call.Args[0]):
			cl = c.newCell(id.Name, kB32, s)
		case isIdent(call.Args[0], "fieldVal"):
			cl = c.newCell(id.Name, kFV, s)
		default:
			c.tr.fail(s, "unsupported use of new")
		}
		cl.isLocal = true
		return
	}

	e := c.expr(rhs)
	op, isOp := assignOps[s.Tok]
	if !isOp && s.Tok != token.ASSIGN && s.Tok != token.DEFINE {
		c.tr.fail(s, "unsupported assignment operator %s", s.Tok)
	}

	switch l := lhs.(type) {
	case *ast.Ident:
		if s.Tok == token.DEFINE {
			if c.inBranch {
				c.tr.fail(s, "declaration inside a branch")
			}
			ty := e.Type()
			if ty != TU8 && ty != TU32 && ty != TU64 {
				c.tr.fail(s, "cannot infer a machine type for %s (%s)", l.Name, ty.goName())
			}
			c.declareLocal(l.Name, ty, s)
			c.emitStmt(SLet{leanIdent(l.Name), ty, e})
			return
		}
		ty, ok := c.locals[l.Name]
		if !ok || ty == TNat {
			c.tr.fail(s, "assignment to %s", l.Name)
		}
		if isOp {
			e = c.binary(op, Atom{leanIdent(l.Name), ty}, e, s)
		}
		e = c.coerce(e, ty, s)
		c.emitStmt(SLet{leanIdent(l.Name), ty, e})
	case *ast.IndexExpr:
		cl, i := c.wordRef(l)
		ty := TU32
		if cl.kind == kB32 {
			ty = TU8
		}
		if s.Tok == token.DEFINE {
			c.tr.fail(s, "bad :=")
		}
		if isOp {
			e = c.binary(op, c.wordRead(cl, i, l), e, s)
		}
		e = c.coerce(e, ty, s)
		c.wordWrite(cl, i, e, s)
	default:
		c.tr.fail(s, "unsupported assignment target")
	}
}

func (c *fnCtx) ifStmt(s *ast.IfStmt) {
	if c.inBranch {
		c.tr.fail(s, "nested if")
	}
	if s.Init != nil {
		c.tr.fail(s, "if with an init statement")
	}
	cond := c.expr(s.Cond)
	if _, ok := cond.(Cmp); !ok {
		c.tr.fail(s.Cond, "condition is not a comparison")
	}
	thenLets := c.branch(s.Body.List)
	var elseLets []SLet
	switch el := s.Else.(type) {
	case nil:
	case *ast.BlockStmt:
		elseLets = c.branch(el.List)
	default:
		c.tr.fail(s, "else-if chains are not supported")
	}
	var vars []Atom
	seen := map[string]bool{}
	for _, l := range append(append([]SLet{}, thenLets...), elseLets...) {
		if !seen[l.Name] {
			seen[l.Name] = true
			vars = append(vars, Atom{l.Name, l.T})
		}
	}
	if len(vars) == 0 {
		return
	}
	if len(vars) == 1 {
		if len(thenLets) == 0 {
			thenLets = []SLet{{vars[0].Name, vars[0].T, vars[0]}}
		}
		if len(elseLets) == 0 {
			elseLets = []SLet{{vars[0].Name, vars[0].T, vars[0]}}
		}
	}
	c.emitStmt(SIf{vars, cond, thenLets, elseLets})
}

func (c *fnCtx) branch(list []ast.Stmt) []SLet {
	saved := c.stmts
	c.stmts = nil
	c.inBranch = true
	for _, s := range list {
		as, ok := s.(*ast.AssignStmt)
		if !ok {
			c.tr.fail(s, "only assignments to locals are supported inside a branch")
		}
		if len(as.Lhs) != 1 {
			c.tr.fail(s, "multiple assignment")
		}
		if _, isLocal := as.Lhs[0].(*ast.Ident); !isLocal {
			c.tr.fail(s, "only assignments to locals are supported inside a branch")
		}
		c.assign(as)
	}
	c.inBranch = false
	var lets []SLet
	for _, s := range c.stmts {
		lets = append(lets, s.(SLet))
	}
	c.stmts = saved
	return lets
}

// ---------------------------------------------------------------------------------------------
// calls

func (c *fnCtx) cellOf(e ast.Expr, at ast.Node) *cell {
	if u, ok := e.(*ast.UnaryExpr); ok && u.Op == token.AND {
		e = u.X
	}
	id, ok := e.(*ast.Ident)
	if !ok {
		c.tr.fail(at, "expected a fieldVal / [32]byte variable")
	}
	cl, ok := c.cells[id.Name]
	if !ok {
		c.tr.fail(at, "%s is not a fieldVal / [32]byte variable", id.Name)
	}
	return cl
}

// callChain translates c.M(args) or (chain).M(args); it returns the cell the resulting pointer
// denotes, or nil if the method does not return its receiver.
func (c *fnCtx) callChain(call *ast.CallExpr) *cell {
	sel, ok := call.Fun.(*ast.SelectorExpr)
	if !ok {
		c.tr.fail(call, "unsupported call")
	}
	var target *cell
	switch r := sel.X.(type) {
	case *ast.Ident:
		target = c.cellOf(r, call)
	case *ast.CallExpr:
		target = c.callChain(r)
		if target == nil {
			c.tr.fail(r, "chained call on a method that does not return its receiver")
		}
	default:
		c.tr.fail(call, "unsupported call receiver")
	}
	if target.kind != kFV {
		c.tr.fail(call, "method call on a non-fieldVal")
	}
	return c.applyCall(target, sel.Sel.Name, call)
}

func (c *fnCtx) applyCall(target *cell, method string, call *ast.CallExpr) *cell {
	if c.inBranch {
		c.tr.fail(call, "call inside a branch")
	}
	callee := c.tr.getFunc(method, call)
	if callee.Out == outValue {
		c.tr.fail(call, "call of the value-returning method %s in statement position", method)
	}
	if len(call.Args) != len(callee.GoParams) || call.Ellipsis != token.NoPos {
		c.tr.fail(call, "wrong number of arguments")
	}
	argCells := make([]*cell, len(call.Args))
	for j, p := range callee.GoParams {
		if p.IsCell {
			a := c.cellOf(call.Args[j], call.Args[j])
			if a.kind != p.Kind {
				c.tr.fail(call.Args[j], "argument kind mismatch")
			}
			argCells[j] = a
		}
	}
	// aliasing at this call site
	for j, a := range argCells {
		if a == nil {
			continue
		}
		isOut := callee.Out == outParam && j == callee.OutParamIdx
		if a == target && (isOut || !callee.AliasSafe[j]) {
			c.tr.fail(call, "argument %d of %s aliases the receiver but is not alias-safe (%s)", j, method, callee.AliasNote[j])
		}
		for k, b := range argCells {
			if k != j && b == a && isOut {
				c.tr.fail(call, "output argument of %s is aliased", method)
			}
		}
	}
	// aliasing discipline of the function being translated
	if c.isAliasCandidate(target) && callee.RecvRead && c.recv.written {
		c.unsafeAlias(target, call, "used after the receiver was written")
	}
	for j, a := range argCells {
		if a == nil || !c.isAliasCandidate(a) {
			continue
		}
		if c.recv.written {
			c.unsafeAlias(a, call, fmt.Sprintf("%s is read after %s was written", a.goName, c.recv.goName))
		} else if target == c.recv && callee.Out == outRecv && !callee.AliasSafe[j] {
			c.unsafeAlias(a, call, fmt.Sprintf("passed to %s, which is not alias-safe there", method))
		}
	}

	var args []Arg
	if callee.RecvRead {
		args = append(args, Arg{Cell: c.valueText(target)})
	}
	for j, p := range callee.GoParams {
		if p.IsCell {
			if callee.Out == outParam && j == callee.OutParamIdx && !callee.OutRead {
				continue
			}
			args = append(args, Arg{Cell: c.valueText(argCells[j])})
		} else {
			e := c.expr(call.Args[j])
			if p.T == TNat {
				if l, ok := e.(Lit); ok && l.T == TUntyped && l.V.Sign() >= 0 && l.V.BitLen() <= 32 {
					e = Lit{l.V, TNat}
				}
				if e.Type() != TNat {
					c.tr.fail(call.Args[j], "argument for a uint parameter must be a constant or a uint")
				}
			} else {
				e = c.coerce(e, p.T, call.Args[j])
			}
			args = append(args, Arg{E: e})
		}
	}
	dst := target
	if callee.Out == outParam {
		dst = argCells[callee.OutParamIdx]
	}
	c.checkWritable(dst, call)
	c.emitStmt(SCall{dst.lean, dst.kind, callee, args})
	dst.base, dst.baseParam = dst.lean, nil
	for i := range dst.over {
		dst.over[i] = ""
		dst.wroteWord[i] = true
	}
	dst.written = true
	c.callees = append(c.callees, callee)
	if callee.Out == outRecv && callee.ReturnsRecv {
		return target
	}
	return nil
}

// ---------------------------------------------------------------------------------------------
// expressions

func (c *fnCtx) wordRef(x *ast.IndexExpr) (*cell, int) {
	idx, ok := c.expr(x.Index).(Lit)
	if !ok || idx.V.Sign() < 0 || idx.V.BitLen() > 8 {
		c.tr.fail(x, "non-constant index")
	}
	i := int(idx.V.Int64())
	switch b := x.X.(type) {
	case *ast.SelectorExpr:
		if b.Sel.Name != "n" {
			c.tr.fail(x, "unknown field %s", b.Sel.Name)
		}
		cl := c.cellOf(b.X, x)
		if cl.kind != kFV {
			c.tr.fail(x, ".n on a non-fieldVal")
		}
		return cl, i
	case *ast.Ident:
		cl := c.cellOf(b, x)
		if cl.kind != kB32 {
			c.tr.fail(x, "indexing a non-array")
		}
		return cl, i
	}
	c.tr.fail(x, "unsupported index expression")
	return nil, 0
}

func fits(v *big.Int, t Ty) bool {
	return v.Sign() >= 0 && v.BitLen() <= t.bits()
}

// coerce gives e the type want (only untyped constants change type).
func (c *fnCtx) coerce(e Expr, want Ty, at ast.Node) Expr {
	if l, ok := e.(Lit); ok && l.T == TUntyped {
		if want != TU8 && want != TU32 && want != TU64 {
			c.tr.fail(at, "constant in a non-integer context")
		}
		if !fits(l.V, want) {
			c.tr.fail(at, "constant %s overflows %s", l.V, want.goName())
		}
		return Lit{l.V, want}
	}
	if e.Type() != want {
		c.tr.fail(at, "mismatched types %s and %s", e.Type().goName(), want.goName())
	}
	return e
}

var binOpName = map[token.Token]string{
	token.ADD: "+", token.SUB: "-", token.MUL: "*", token.AND: "&", token.OR: "|", token.XOR: "^",
	token.AND_NOT: "&^",
}
var cmpOpName = map[token.Token]string{
	token.EQL: "==", token.NEQ: "!=", token.LSS: "<", token.LEQ: "<=", token.GTR: ">", token.GEQ: ">=",
}

func (c *fnCtx) binary(op token.Token, l, r Expr, at ast.Node) Expr {
	if op == token.SHL || op == token.SHR {
		rl, ok := r.(Lit)
		if !ok || rl.V.Sign() < 0 || rl.V.BitLen() > 8 {
			c.tr.fail(at, "shift count is not a small constant")
		}
		k := int(rl.V.Int64())
		if ll, ok := l.(Lit); ok {
			if ll.T != TUntyped {
				c.tr.fail(at, "shift of a typed constant")
			}
			v, _ := foldConst(op, ll.V, rl.V)
			return Lit{v, TUntyped}
		}
		t := l.Type()
		if t != TU8 && t != TU32 && t != TU64 {
			c.tr.fail(at, "shift of a %s", t.goName())
		}
		if k >= t.bits() {
			c.tr.fail(at, "shift count %d is not smaller than the operand width", k)
		}
		return Shift{op == token.SHL, l, k, t}
	}
	ll, lIsLit := l.(Lit)
	rl, rIsLit := r.(Lit)
	lUntyped := lIsLit && ll.T == TUntyped
	rUntyped := rIsLit && rl.T == TUntyped
	_, isCmp := cmpOpName[op]
	if lUntyped && rUntyped {
		if isCmp {
			c.tr.fail(at, "comparison of two constants")
		}
		v, ok := foldConst(op, ll.V, rl.V)
		if !ok {
			c.tr.fail(at, "unsupported operator %s", op)
		}
		return Lit{v, TUntyped}
	}
	if lUntyped {
		l = c.coerce(l, r.Type(), at)
	}
	if rUntyped {
		r = c.coerce(r, l.Type(), at)
	}
	t := l.Type()
	if r.Type() != t {
		c.tr.fail(at, "mismatched types %s and %s", l.Type().goName(), r.Type().goName())
	}
	if t != TU8 && t != TU32 && t != TU64 {
		c.tr.fail(at, "operator %s on %s", op, t.goName())
	}
	if name, ok := cmpOpName[op]; ok {
		return Cmp{name, l, r}
	}
	name, ok := binOpName[op]
	if !ok {
		c.tr.fail(at, "unsupported operator %s", op)
	}
	return Bin{name, l, r, t}
}

func (c *fnCtx) expr(e ast.Expr) Expr {
	switch x := e.(type) {
	case *ast.BasicLit:
		return Lit{c.tr.evalConst(x), TUntyped}
	case *ast.ParenExpr:
		return c.expr(x.X)
	case *ast.Ident:
		if v, ok := c.loopConst[x.Name]; ok {
			return Lit{v, TU8}
		}
		if t, ok := c.locals[x.Name]; ok {
			return Atom{leanIdent(x.Name), t}
		}
		if v, ok := c.tr.consts[x.Name]; ok {
			return Lit{v, TUntyped}
		}
		c.tr.fail(x, "unknown identifier %s", x.Name)
	case *ast.IndexExpr:
		cl, i := c.wordRef(x)
		return c.wordRead(cl, i, x)
	case *ast.CallExpr:
		id, ok := x.Fun.(*ast.Ident)
		if !ok || len(x.Args) != 1 {
			c.tr.fail(x, "unsupported call in an expression")
		}
		var to Ty
		switch id.Name {
		case "uint32":
			to = TU32
		case "uint64":
			to = TU64
		case "byte", "uint8":
			to = TU8
		default:
			c.tr.fail(x, "unsupported call of %s in an expression", id.Name)
		}
		if _, shadow := c.locals[id.Name]; shadow {
			c.tr.fail(x, "%s is shadowed", id.Name)
		}
		a := c.expr(x.Args[0])
		if l, ok := a.(Lit); ok {
			if l.T != TUntyped {
				c.tr.fail(x, "conversion of a typed constant")
			}
			return c.coerce(a, to, x)
		}
		switch a.Type() {
		case TU8, TU32, TU64, TNat:
		default:
			c.tr.fail(x, "conversion from %s", a.Type().goName())
		}
		if a.Type() == to {
			return a
		}
		return Conv{to, a}
	case *ast.BinaryExpr:
		return c.binary(x.Op, c.expr(x.X), c.expr(x.Y), x)
	}
	c.tr.fail(e, "unsupported expression")
	return nil
}
