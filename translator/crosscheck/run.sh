#!/bin/sh
# Cross-validation of the translator: the Go code and the generated Lean definitions must agree on
# ~30 000 vectors (random 32-bit words, boundary words, magnitude-limited words; every op; aliased
# call forms).  usage: run.sh <go-bk checkout> [workdir]
set -eu
REPO=${1:?usage: run.sh <go-bk checkout> [workdir]}
HERE=$(cd "$(dirname "$0")" && pwd)
WORK=${2:-$(mktemp -d)}
export GOFLAGS=-mod=mod GOPROXY=off GOSUMDB=off GOTOOLCHAIN=local
mkdir -p "$WORK/govec" "$WORK/lean/GoBk/Gen"
# 1. vectors from the real Go code
sed 's/^package bec$/package main/' "$REPO/bec/field.go" > "$WORK/govec/field.go"
cp "$HERE/govec/main.go" "$WORK/govec/main.go"
printf 'module govec\n\ngo 1.23\n' > "$WORK/govec/go.mod"
(cd "$WORK/govec" && go run -tags crosscheck . > "$WORK/vectors.txt")
# 2. regenerate the Lean model and build the checker
(cd "$HERE/.." && go build -o "$WORK/gobk2lean" .)
"$WORK/gobk2lean" -repo "$REPO" -out "$WORK/lean/GoBk/Gen"
cp "$HERE/FieldCheck.lean" "$WORK/lean/FieldCheck.lean"
cat > "$WORK/lean/lakefile.toml" <<'EOT'
name = "GoBk"
defaultTargets = ["fieldcheck"]

[[lean_lib]]
name = "GoBk"

[[lean_exe]]
name = "fieldcheck"
root = "FieldCheck"
EOT
echo 'import GoBk.Gen.Field' > "$WORK/lean/GoBk.lean"
(cd "$WORK/lean" && lake build fieldcheck >/dev/null)
# 3. compare
"$WORK/lean/.lake/build/bin/fieldcheck" < "$WORK/vectors.txt"
