//go:build crosscheck

// Vector generator for the translator cross-check (see ../run.sh).  It is compiled together with a
// copy of bec/field.go whose package clause is rewritten to `package main`, so that it can call the
// unexported fieldVal methods, including the aliased forms f.Add(f), f.Mul(f), x.Add2(x, y).
package main

import (
	"bufio"
	"fmt"
	"math/rand"
	"os"
	"strings"
)

var w *bufio.Writer

func words(f *fieldVal) string {
	s := make([]string, 10)
	for i := range s {
		s[i] = fmt.Sprint(f.n[i])
	}
	return strings.Join(s, " ")
}
func bytesStr(b *[32]byte) string {
	s := make([]string, 32)
	for i := range s {
		s[i] = fmt.Sprint(b[i])
	}
	return strings.Join(s, " ")
}
func b2i(b bool) int {
	if b {
		return 1
	}
	return 0
}

var boundary = []uint32{0, 1, 2, 976, 977, 978, 63, 64, 65, 0x3fffc2e, 0x3fffc2f, 0x3fffc30, 0x3ffffbe, 0x3ffffbf, 0x3ffffc0,
	0x3fffffe, 0x3ffffff, 0x4000000, 0x4000001, 0x3ffffe, 0x3fffff, 0x400000, 0x400001, 0x7ffffff, 0x8000000, 0xffffffff, 0xfffffffe,
	0x80000000, 0x7fffffff, 0xffe00000, 0xffdfffff, 0x4100000, 8 * 0x4100000, 8 * 0x3ffffff, 32 * 0x3ffffff, 63 * 0x3ffffff}

var rng = rand.New(rand.NewSource(20260930))

// kinds of random vectors
func randFV(kind int) fieldVal {
	var f fieldVal
	for i := 0; i < 10; i++ {
		switch kind % 6 {
		case 0: // arbitrary 32-bit words (wrap-around behaviour must agree too)
			f.n[i] = rng.Uint32()
		case 1: // boundary words
			f.n[i] = boundary[rng.Intn(len(boundary))]
		case 2: // magnitude 1 (normalised-ish)
			if i == 9 {
				f.n[i] = rng.Uint32() & 0x3fffff
			} else {
				f.n[i] = rng.Uint32() & 0x3ffffff
			}
		case 3: // magnitude <= 8
			m := uint32(rng.Intn(8) + 1)
			if i == 9 {
				f.n[i] = uint32(rng.Int63n(int64(m)*0x400000 + 1))
			} else {
				f.n[i] = uint32(rng.Int63n(int64(m)*0x4100000 + 1))
			}
		case 4: // near the prime: all-ones words with small perturbations
			if i == 9 {
				f.n[i] = 0x3fffff
			} else {
				f.n[i] = 0x3ffffff
			}
			if i < 2 && rng.Intn(2) == 0 {
				f.n[i] -= uint32(rng.Intn(1100))
			}
			if i == 9 && rng.Intn(4) == 0 {
				f.n[i] += uint32(rng.Intn(3)) << 22
			}
		case 5: // max words for magnitude m
			m := uint32(rng.Intn(32) + 1)
			if i == 9 {
				f.n[i] = m * 0x3fffff
			} else {
				f.n[i] = m * 0x3ffffff
			}
			if rng.Intn(3) == 0 {
				f.n[i] -= uint32(rng.Intn(2000))
			}
		}
	}
	return f
}

func randB32(kind int) [32]byte {
	var b [32]byte
	for i := range b {
		switch kind % 4 {
		case 0:
			b[i] = byte(rng.Intn(256))
		case 1:
			b[i] = 0xff
		case 2:
			b[i] = []byte{0, 1, 0x7f, 0x80, 0xff, 0xfe, 3, 0xfc, 0x3f, 0xc0, 0x0f, 0xf0}[rng.Intn(12)]
		case 3:
			b[i] = 0
		}
	}
	if kind%4 == 1 && kind > 4 { // P +- small
		p := [32]byte{0xff, 0xff, 0xff, 0xff, 0xff, 0xff, 0xff, 0xff, 0xff, 0xff, 0xff, 0xff, 0xff, 0xff, 0xff, 0xff, 0xff, 0xff, 0xff, 0xff, 0xff, 0xff, 0xff, 0xff, 0xff, 0xff, 0xff, 0xfe, 0xff, 0xff, 0xfc, 0x2f}
		b = p
		b[31] += byte(rng.Intn(5)) - 2
	}
	return b
}

func main() {
	w = bufio.NewWriter(os.Stdout)
	defer w.Flush()
	const N = 1200
	{
		var f fieldVal
		f = randFV(0)
		f.Zero()
		fmt.Fprintf(w, "zero | %s\n", words(&f))
	}
	for k := 0; k < N; k++ {
		a, b := randFV(k), randFV(k/6)
		var r fieldVal
		// normalise
		r = a
		r.Normalise()
		fmt.Fprintf(w, "normalise %s | %s\n", words(&a), words(&r))
		// set
		r = b
		r.Set(&a)
		fmt.Fprintf(w, "set %s | %s\n", words(&a), words(&r))
		// setInt
		ui := uint(rng.Uint32())
		if k%3 == 0 {
			ui = uint(k)
		}
		r = b
		r.SetInt(ui)
		fmt.Fprintf(w, "setint %d | %s\n", ui, words(&r))
		// add (f.Add(val)) and aliased f.Add(f)
		r = a
		r.Add(&b)
		fmt.Fprintf(w, "add %s %s | %s\n", words(&a), words(&b), words(&r))
		r = a
		r.Add(&r)
		fmt.Fprintf(w, "add %s %s | %s\n", words(&a), words(&a), words(&r))
		// add2 incl. aliased forms
		r = randFV(0)
		r.Add2(&a, &b)
		fmt.Fprintf(w, "add2 %s %s | %s\n", words(&a), words(&b), words(&r))
		r = a
		r.Add2(&r, &b)
		fmt.Fprintf(w, "add2 %s %s | %s\n", words(&a), words(&b), words(&r))
		r = b
		r.Add2(&a, &r)
		fmt.Fprintf(w, "add2 %s %s | %s\n", words(&a), words(&b), words(&r))
		// addInt
		r = a
		r.AddInt(ui)
		fmt.Fprintf(w, "addint %s %d | %s\n", words(&a), ui, words(&r))
		// mulInt
		mi := uint(rng.Intn(70))
		if k%5 == 0 {
			mi = uint(rng.Uint32())
		}
		r = a
		r.MulInt(mi)
		fmt.Fprintf(w, "mulint %s %d | %s\n", words(&a), mi, words(&r))
		// negateVal / negate (aliased)
		mag := uint32(rng.Intn(64))
		if k%7 == 0 {
			mag = rng.Uint32()
		}
		r = randFV(0)
		r.NegateVal(&a, mag)
		fmt.Fprintf(w, "negval %s %d | %s\n", words(&a), mag, words(&r))
		r = a
		r.Negate(mag)
		fmt.Fprintf(w, "neg %s %d | %s\n", words(&a), mag, words(&r))
		// mul2 / mul (aliased) / f.Mul(f)
		r = randFV(0)
		r.Mul2(&a, &b)
		fmt.Fprintf(w, "mul2 %s %s | %s\n", words(&a), words(&b), words(&r))
		r = a
		r.Mul(&b)
		fmt.Fprintf(w, "mul %s %s | %s\n", words(&a), words(&b), words(&r))
		r = b
		r.Mul2(&a, &r)
		fmt.Fprintf(w, "mul2 %s %s | %s\n", words(&a), words(&b), words(&r))
		r = a
		r.Mul(&r)
		fmt.Fprintf(w, "mul %s %s | %s\n", words(&a), words(&a), words(&r))
		// squareVal / square (aliased)
		r = randFV(0)
		r.SquareVal(&a)
		fmt.Fprintf(w, "sqval %s | %s\n", words(&a), words(&r))
		r = a
		r.Square()
		fmt.Fprintf(w, "sq %s | %s\n", words(&a), words(&r))
		// predicates
		fmt.Fprintf(w, "iszero %s | %d\n", words(&a), b2i(a.IsZero()))
		fmt.Fprintf(w, "isodd %s | %d\n", words(&a), b2i(a.IsOdd()))
		fmt.Fprintf(w, "eq %s %s | %d\n", words(&a), words(&b), b2i(a.Equals(&b)))
		c := a
		if k%2 == 0 {
			c.n[rng.Intn(10)] ^= 1 << uint(rng.Intn(32))
		}
		fmt.Fprintf(w, "eq %s %s | %d\n", words(&a), words(&c), b2i(a.Equals(&c)))
		// bytes
		bb := randB32(k)
		r = randFV(0)
		r.SetBytes(&bb)
		fmt.Fprintf(w, "setbytes %s | %s\n", bytesStr(&bb), words(&r))
		var ob [32]byte
		for i := range ob {
			ob[i] = byte(rng.Intn(256))
		}
		a.PutBytes(&ob)
		fmt.Fprintf(w, "putbytes %s | %s\n", words(&a), bytesStr(&ob))
		fmt.Fprintf(w, "bytes %s | %s\n", words(&a), bytesStr(a.Bytes()))
		if k%12 == 0 {
			r = a
			r.Inverse()
			fmt.Fprintf(w, "inverse %s | %s\n", words(&a), words(&r))
			r = randFV(0)
			r.SqrtVal(&a)
			fmt.Fprintf(w, "sqrtval %s | %s\n", words(&a), words(&r))
		}
	}
	var z fieldVal
	fmt.Fprintf(w, "iszero %s | %d\n", words(&z), b2i(z.IsZero()))
}
