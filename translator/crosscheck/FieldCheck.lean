import GoBk.Gen.Field
open GoBk.Gen.Field

def mkFV (l : List Nat) : FV :=
  match l with
  | [a0,a1,a2,a3,a4,a5,a6,a7,a8,a9] =>
    { n0 := .ofNat a0, n1 := .ofNat a1, n2 := .ofNat a2, n3 := .ofNat a3, n4 := .ofNat a4,
      n5 := .ofNat a5, n6 := .ofNat a6, n7 := .ofNat a7, n8 := .ofNat a8, n9 := .ofNat a9 }
  | _ => default

def fvList (f : FV) : List Nat :=
  [f.n0, f.n1, f.n2, f.n3, f.n4, f.n5, f.n6, f.n7, f.n8, f.n9].map (·.toNat)

def mkB32 (l : List Nat) : B32 :=
  let g (i : Nat) : UInt8 := .ofNat (l.getD i 0)
  { b0 := g 0, b1 := g 1, b2 := g 2, b3 := g 3, b4 := g 4, b5 := g 5, b6 := g 6, b7 := g 7,
    b8 := g 8, b9 := g 9, b10 := g 10, b11 := g 11, b12 := g 12, b13 := g 13, b14 := g 14, b15 := g 15,
    b16 := g 16, b17 := g 17, b18 := g 18, b19 := g 19, b20 := g 20, b21 := g 21, b22 := g 22, b23 := g 23,
    b24 := g 24, b25 := g 25, b26 := g 26, b27 := g 27, b28 := g 28, b29 := g 29, b30 := g 30, b31 := g 31 }

def b32List (b : B32) : List Nat := b.toList.map (·.toNat)

def bool01 (b : Bool) : List Nat := [if b then 1 else 0]

/-- recompute one line with the generated definitions. -/
def recompute (op : String) (a : List Nat) : Option (List Nat) :=
  let x := mkFV (a.take 10)
  let y := mkFV ((a.drop 10).take 10)
  let s := a.getD 10 0
  match op with
  | "zero" => some (fvList zero)
  | "normalise" => some (fvList (normalise x))
  | "set" => some (fvList (setVal x))
  | "setint" => some (fvList (setInt (a.getD 0 0)))
  | "add" => some (fvList (add x y))
  | "add2" => some (fvList (add2 x y))
  | "addint" => some (fvList (addInt x s))
  | "mulint" => some (fvList (mulInt x s))
  | "negval" => some (fvList (negateVal x (.ofNat s)))
  | "neg" => some (fvList (negate x (.ofNat s)))
  | "mul2" => some (fvList (mul2 x y))
  | "mul" => some (fvList (mul x y))
  | "sqval" => some (fvList (squareVal x))
  | "sq" => some (fvList (square x))
  | "iszero" => some (bool01 (isZero x))
  | "isodd" => some (bool01 (isOdd x))
  | "eq" => some (bool01 (equals x y))
  | "setbytes" => some (fvList (setBytes (mkB32 a)))
  | "putbytes" => some (b32List (putBytes x))
  | "bytes" => some (b32List (bytes x))
  | "inverse" => some (fvList (inverse x))
  | "sqrtval" => some (fvList (sqrtVal x))
  | _ => none

def parseNats (ws : List String) : List Nat := ws.filterMap (·.toNat?)

partial def loop (h : IO.FS.Stream) (ok bad : Nat) : IO (Nat × Nat) := do
  let line ← h.getLine
  if line.isEmpty then return (ok, bad)
  let line := line.trimRight
  match line.splitOn " | " with
  | [lhs, rhs] =>
    let ws := lhs.splitOn " "
    let op := ws.headD ""
    let args := parseNats ws.tail
    let want := parseNats (rhs.splitOn " ")
    match recompute op args with
    | some got =>
      if got == want then loop h (ok+1) bad
      else do
        IO.eprintln s!"MISMATCH {line}\n  lean: {got}"
        loop h ok (bad+1)
    | none => do
      IO.eprintln s!"unknown op {op}"
      loop h ok (bad+1)
  | _ => do
    IO.eprintln s!"bad line {line}"
    loop h ok (bad+1)

def main : IO UInt32 := do
  let stdin ← IO.getStdin
  let (ok, bad) ← loop stdin 0 0
  IO.println s!"agree={ok} disagree={bad}"
  return (if bad == 0 then 0 else 1)
