module gobk2lean

go 1.23
