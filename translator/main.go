// gobk2lean regenerates the Lean model of github.com/libsv/go-bk from its Go source.
//
// Usage: gobk2lean -repo /repo -out <dir>
//
// This file is the command-line driver.  The component implemented here translates
// bec/field.go into <dir>/Field.lean (see field.go in this module for the accepted subset).
// The output is a deterministic function of the input: no timestamps, no absolute paths, no map
// iteration order.  Anything outside the accepted subset terminates the program with a non-zero
// status and a line `untranslatable: <file:line>: <reason>` on stderr.
package main

import (
	"flag"
	"fmt"
	"os"
	"path/filepath"
)

func main() {
	repo := flag.String("repo", "", "path of the go-bk checkout (the directory containing bec/)")
	out := flag.String("out", "", "output directory for the generated .lean files")
	flag.Parse()
	if *repo == "" || *out == "" || flag.NArg() != 0 {
		fmt.Fprintln(os.Stderr, "usage: gobk2lean -repo <go-bk checkout> -out <dir>")
		os.Exit(2)
	}
	text, err := TranslateField(*repo, "bec/field.go")
	if err != nil {
		fmt.Fprintln(os.Stderr, err)
		os.Exit(1)
	}
	if err := os.MkdirAll(*out, 0o755); err != nil {
		fmt.Fprintln(os.Stderr, err)
		os.Exit(1)
	}
	if err := os.WriteFile(filepath.Join(*out, "Field.lean"), []byte(text), 0o644); err != nil {
		fmt.Fprintln(os.Stderr, err)
		os.Exit(1)
	}
}
