package main

// Typed intermediate representation of the word-level Go subset and its two Lean renderings:
//
//   machine : Go uint32/uint64/byte  ->  Lean UInt32/UInt64/UInt8 (identical wrap-around)
//   exact   : the same expression tree over Nat (unbounded); `-` is truncated subtraction,
//             `>> k` is `/ 2^k`, `<< k` is `* 2^k`, `& (2^k-1)` is `% 2^k` (the powers are written
//             as decimal numerals), conversions vanish.
//
// "no overflow / underflow / truncation" is then literally `toNat (f x) = f_exact (toNat x)`.

import (
	"fmt"
	"math/big"
	"strings"
)

// Ty is the Go type of a scalar expression.
type Ty int

const (
	TUntyped Ty = iota // untyped integer constant
	TU8                // byte / uint8
	TU32               // uint32
	TU64               // uint64
	TNat               // Go `uint` parameter; modelled as a Nat argument (only convertible)
	TBool
)

func (t Ty) lean() string {
	switch t {
	case TU8:
		return "UInt8"
	case TU32:
		return "UInt32"
	case TU64:
		return "UInt64"
	case TNat:
		return "Nat"
	case TBool:
		return "Bool"
	}
	return "?"
}

func (t Ty) goName() string {
	switch t {
	case TU8:
		return "byte"
	case TU32:
		return "uint32"
	case TU64:
		return "uint64"
	case TNat:
		return "uint"
	case TBool:
		return "bool"
	}
	return "untyped const"
}

func (t Ty) bits() int {
	switch t {
	case TU8:
		return 8
	case TU32:
		return 32
	case TU64:
		return 64
	}
	return 0
}

// Expr is a typed scalar expression.
type Expr interface{ Type() Ty }

// Lit is an integer constant; T == TUntyped until it adopts the type of its context.
type Lit struct {
	V *big.Int
	T Ty
}

// Atom is a name whose Lean spelling is the same in both renderings (a let-bound local, a scalar
// parameter, or a word read such as `val.n3` / `b.b28`).
type Atom struct {
	Name string
	T    Ty
}

// Bin is + - * & | ^ &^ on two operands of the same type T.
type Bin struct {
	Op   string
	L, R Expr
	T    Ty
}

// Shift is X << K or X >> K with a constant K smaller than the width of T.
type Shift struct {
	Left bool
	X    Expr
	K    int
	T    Ty
}

// Conv is the Go conversion To(X) between integer types.
type Conv struct {
	To Ty
	X  Expr
}

// Cmp is a comparison; its operands have the same integer type.
type Cmp struct {
	Op   string // == != < <= > >=
	L, R Expr
}

func (e Lit) Type() Ty   { return e.T }
func (e Atom) Type() Ty  { return e.T }
func (e Bin) Type() Ty   { return e.T }
func (e Shift) Type() Ty { return e.T }
func (e Conv) Type() Ty  { return e.To }
func (e Cmp) Type() Ty   { return TBool }

func isAtomic(e Expr) bool {
	switch e.(type) {
	case Lit, Atom:
		return true
	}
	return false
}

// usesBytes reports whether a byte-typed subexpression occurs (such functions get no exact twin).
func usesBytesOrAndNot(e Expr) bool {
	switch x := e.(type) {
	case Lit:
		return x.T == TU8
	case Atom:
		return x.T == TU8
	case Bin:
		return x.T == TU8 || x.Op == "&^" || usesBytesOrAndNot(x.L) || usesBytesOrAndNot(x.R)
	case Shift:
		return x.T == TU8 || usesBytesOrAndNot(x.X)
	case Conv:
		return x.To == TU8 || usesBytesOrAndNot(x.X)
	case Cmp:
		return usesBytesOrAndNot(x.L) || usesBytesOrAndNot(x.R)
	}
	return true
}

var machOp = map[string]string{"+": "+", "-": "-", "*": "*", "&": "&&&", "|": "|||", "^": "^^^"}
var cmpOp = map[string]string{"==": "=", "!=": "≠", "<": "<", "<=": "≤", ">": ">", ">=": "≥"}

func par(e Expr, s string) string {
	if isAtomic(e) {
		return s
	}
	return "(" + s + ")"
}

// mach renders the machine-integer version.
func mach(e Expr) string {
	switch x := e.(type) {
	case Lit:
		// always ascribed: Lean's elaboration of unascribed numerals depends on context
		return "(" + x.V.String() + " : " + x.T.lean() + ")"
	case Atom:
		return x.Name
	case Bin:
		if x.Op == "&^" {
			return par(x.L, mach(x.L)) + " &&& ~~~" + par(x.R, mach(x.R))
		}
		return par(x.L, mach(x.L)) + " " + machOp[x.Op] + " " + par(x.R, mach(x.R))
	case Shift:
		op := ">>>"
		if x.Left {
			op = "<<<"
		}
		return fmt.Sprintf("%s %s %d", par(x.X, mach(x.X)), op, x.K)
	case Conv:
		from := x.X.Type()
		if from == x.To {
			return mach(x.X)
		}
		if from == TNat {
			return x.To.lean() + ".ofNat " + par(x.X, mach(x.X))
		}
		if isAtomic(x.X) {
			return mach(x.X) + ".to" + x.To.lean()
		}
		// the ascription gives the literals inside the operand their type
		return "(" + mach(x.X) + " : " + from.lean() + ").to" + x.To.lean()
	case Cmp:
		return par(x.L, mach(x.L)) + " " + cmpOp[x.Op] + " " + par(x.R, mach(x.R))
	}
	panic("mach: unknown expression")
}

// maskBits returns k >= 1 if v = 2^k - 1.
func maskBits(v *big.Int) (int, bool) {
	if v.Sign() <= 0 {
		return 0, false
	}
	w := new(big.Int).Add(v, big.NewInt(1))
	if w.BitLen() >= 2 && new(big.Int).And(w, v).Sign() == 0 {
		return w.BitLen() - 1, true
	}
	return 0, false
}

// pow2 is the numeral 2^k (written out: elaborating `2 ^ k` inside long let-chains is slow).
func pow2(k int) string {
	return new(big.Int).Lsh(big.NewInt(1), uint(k)).String()
}

// exact renders the unbounded Nat twin.
func exact(e Expr) string {
	switch x := e.(type) {
	case Lit:
		return x.V.String()
	case Atom:
		return x.Name
	case Bin:
		if x.Op == "&" {
			if l, ok := x.R.(Lit); ok {
				if k, ok := maskBits(l.V); ok {
					return fmt.Sprintf("%s %% %s", par(x.L, exact(x.L)), pow2(k))
				}
			}
			if l, ok := x.L.(Lit); ok {
				if k, ok := maskBits(l.V); ok {
					return fmt.Sprintf("%s %% %s", par(x.R, exact(x.R)), pow2(k))
				}
			}
		}
		return par(x.L, exact(x.L)) + " " + machOp[x.Op] + " " + par(x.R, exact(x.R))
	case Shift:
		if x.Left {
			return fmt.Sprintf("%s * %s", par(x.X, exact(x.X)), pow2(x.K))
		}
		return fmt.Sprintf("%s / %s", par(x.X, exact(x.X)), pow2(x.K))
	case Conv:
		return exact(x.X)
	case Cmp:
		return par(x.L, exact(x.L)) + " " + cmpOp[x.Op] + " " + par(x.R, exact(x.R))
	}
	panic("exact: unknown expression")
}

// ---------------------------------------------------------------------------------------------
// statements

type cellKind int

const (
	kFV  cellKind = iota // fieldVal: 10 uint32 words n0..n9
	kB32                 // [32]byte: b0..b31
)

func (k cellKind) lean(exactMode bool) string {
	if k == kB32 {
		return "B32"
	}
	if exactMode {
		return "FN"
	}
	return "FV"
}

func (k cellKind) words() int {
	if k == kB32 {
		return 32
	}
	return 10
}

func (k cellKind) field(i int) string {
	if k == kB32 {
		return fmt.Sprintf("b%d", i)
	}
	return fmt.Sprintf("n%d", i)
}

// Stmt is one `let` of the straight-line rendering.
type Stmt interface{}

// SLet : let Name : T := E
type SLet struct {
	Name string
	T    Ty
	E    Expr
}

// SIf : an if/else whose branches only assign the locals Vars.
type SIf struct {
	Vars       []Atom
	Cond       Expr
	Then, Else []SLet
}

// SCellLit : let Name : FV := { n0 := …, … }   (materialises pending word writes)
type SCellLit struct {
	Name   string
	Kind   cellKind
	Fields []string
}

// Arg of a call: a cell value (same spelling in both renderings) or a scalar expression.
type Arg struct {
	Cell string
	E    Expr
}

// SCall : let Name : FV := callee args
type SCall struct {
	Name   string
	Kind   cellKind
	Callee *Func
	Args   []Arg
}

func renderExpr(e Expr, exactMode bool) string {
	if exactMode {
		return exact(e)
	}
	return mach(e)
}

func tyName(t Ty, exactMode bool) string {
	if exactMode {
		return "Nat"
	}
	return t.lean()
}

func structLit(k cellKind, fields []string) string {
	parts := make([]string, len(fields))
	for i, f := range fields {
		parts[i] = k.field(i) + " := " + f
	}
	return "{ " + strings.Join(parts, ", ") + " }"
}

func renderBranch(vars []Atom, lets []SLet, exactMode bool) string {
	if len(vars) == 1 && len(lets) == 1 {
		return par(lets[0].E, renderExpr(lets[0].E, exactMode))
	}
	var sb strings.Builder
	sb.WriteString("(")
	for _, l := range lets {
		fmt.Fprintf(&sb, "let %s : %s := %s; ", l.Name, tyName(l.T, exactMode), renderExpr(l.E, exactMode))
	}
	names := make([]string, len(vars))
	for i, v := range vars {
		names[i] = v.Name
	}
	if len(names) == 1 {
		sb.WriteString(names[0])
	} else {
		sb.WriteString("(" + strings.Join(names, ", ") + ")")
	}
	sb.WriteString(")")
	return sb.String()
}

func renderStmts(sb *strings.Builder, stmts []Stmt, exactMode bool) {
	for _, s := range stmts {
		switch x := s.(type) {
		case SLet:
			fmt.Fprintf(sb, "  let %s : %s := %s\n", x.Name, tyName(x.T, exactMode), renderExpr(x.E, exactMode))
		case SIf:
			lhs := ""
			if len(x.Vars) == 1 {
				lhs = fmt.Sprintf("%s : %s", x.Vars[0].Name, tyName(x.Vars[0].T, exactMode))
			} else {
				names := make([]string, len(x.Vars))
				for i, v := range x.Vars {
					names[i] = v.Name
				}
				lhs = "(" + strings.Join(names, ", ") + ")"
			}
			fmt.Fprintf(sb, "  let %s := if %s then %s else %s\n", lhs, renderExpr(x.Cond, exactMode),
				renderBranch(x.Vars, x.Then, exactMode), renderBranch(x.Vars, x.Else, exactMode))
		case SCellLit:
			fmt.Fprintf(sb, "  let %s : %s := %s\n", x.Name, x.Kind.lean(exactMode), structLit(x.Kind, x.Fields))
		case SCall:
			name := x.Callee.LeanName
			if exactMode {
				name += "_exact"
			}
			var args []string
			for _, a := range x.Args {
				if a.E != nil {
					args = append(args, par(a.E, renderExpr(a.E, exactMode)))
				} else {
					args = append(args, a.Cell)
				}
			}
			call := name
			if len(args) > 0 {
				call += " " + strings.Join(args, " ")
			}
			fmt.Fprintf(sb, "  let %s : %s := %s\n", x.Name, x.Kind.lean(exactMode), call)
		default:
			panic("renderStmts: unknown statement")
		}
	}
}

// ---------------------------------------------------------------------------------------------
// functions

type Param struct {
	Name   string
	IsCell bool
	Kind   cellKind
	T      Ty
}

type retKind int

const (
	retCell retKind = iota // FV or B32 value
	retBool
)

// outKind says which Go object carries the result of the method.
type outKind int

const (
	outRecv  outKind = iota // the receiver is mutated (and possibly returned)
	outParam                // a pointer parameter is mutated (PutBytes)
	outValue                // a fresh value / bool is returned, nothing is mutated
)

type Func struct {
	GoName   string
	LeanName string
	Line     int
	GoSig    string

	Params   []Param // Lean parameters, in order
	Stmts    []Stmt
	Ret      retKind
	RetKind  cellKind
	RetText  string // Lean spelling of the returned cell value
	RetExpr  Expr   // for retBool
	HasExact bool

	// calling convention, for callers inside the translator
	Out         outKind
	OutParamIdx int // index among the Go parameters
	RecvRead    bool
	ReturnsRecv bool
	GoParams    []Param // all Go parameters in order
	OutRead     bool    // outParam: the initial value of the out parameter is read
	AliasSafe   []bool  // per Go parameter (cells only): may alias the receiver
	AliasNote   []string
}

func (f *Func) render(exactMode bool) string {
	var sb strings.Builder
	name := f.LeanName
	if exactMode {
		name += "_exact"
		fmt.Fprintf(&sb, "/-- unbounded-`Nat` twin of `%s` (same expression tree, no wrap-around). -/\n", f.LeanName)
	} else {
		fmt.Fprintf(&sb, "/-- Go: `%s`  (bec/field.go:%d) -/\n", f.GoSig, f.Line)
	}
	sb.WriteString("def " + name)
	for _, p := range f.Params {
		if p.IsCell {
			fmt.Fprintf(&sb, " (%s : %s)", p.Name, p.Kind.lean(exactMode))
		} else {
			fmt.Fprintf(&sb, " (%s : %s)", p.Name, tyName(p.T, exactMode))
		}
	}
	if f.Ret == retBool {
		sb.WriteString(" : Bool :=\n")
	} else {
		fmt.Fprintf(&sb, " : %s :=\n", f.RetKind.lean(exactMode))
	}
	renderStmts(&sb, f.Stmts, exactMode)
	if f.Ret == retBool {
		fmt.Fprintf(&sb, "  decide (%s)\n", renderExpr(f.RetExpr, exactMode))
	} else {
		fmt.Fprintf(&sb, "  %s\n", f.RetText)
	}
	return sb.String()
}
