#!/usr/bin/env python3
# authoring helper: emits GoBk/Proofs/FieldMul.lean
# usage: genmul.py <GoBk/Gen/Field.lean> <out: GoBk/Proofs/FieldMul.lean>
import sys, os
FIELD_LEAN, OUT = sys.argv[1], sys.argv[2]
HERE = os.path.dirname(os.path.abspath(__file__))
D = 67108864
W = 545259520      # 8*(2^26+2^20)
T = 33554432       # 8*2^22
P = 2**256 - 2**32 - 977
def pw(k): return str(D**k)
def sumD(names, start=0):
    out = []
    for i, n in enumerate(names):
        k = i + start
        out.append(n if k == 0 else "%s * %s" % (n, pw(k)))
    return " + ".join(out)

L = []
A = L.append
A('''/-
  GoBk.Proofs.FieldMul — C09 for `Mul2`/`Mul` and `SquareVal`/`Square`
  (generated definitions `GoBk.Gen.Field.mul2`, `squareVal`).

  For operands of magnitude ≤ 8 (`MagLe 8`):
    (i)   no uint64 intermediate (column sums, carries, folds) wraps and the final `uint32(…)`
          conversions do not truncate: the machine result is, word by word, the exact twin
          (`mul2_nowrap`, `squareVal_nowrap`; lock-step simulation with `sim_lets`);
    (ii)  the value is congruent to the product mod P (`…_exact_spec`: columns by `ring`, carry
          chain and the 2^260 ≡ 16·(2^32+977) fold by `omega`, with the explicit quotient
          `16·Σ t_{10+j}·2^(26j) + m`);
    (iii) the result has magnitude 1 in the sense of `MagLe` (word 2 may exceed 2^26 - 1 by up to
          2^20 - 1: the last carry is folded into it without renormalising).
  Mathlib is used only for `ring`.
-/
import GoBk.Proofs.FieldDefs
import GoBk.Proofs.FieldTactics
import Mathlib.Tactic.Ring

set_option linter.unusedSimpArgs false
set_option linter.unusedVariables false

namespace GoBk.Proofs.Field
open GoBk.Gen.Field

/-! ### pure `Nat` lemmas shared by Mul2 and SquareVal -/
''')

# carry chain
cs = ["c%d" % k for k in range(19)]
ms = ["m%d" % k for k in range(19)]
ts = ["t%d" % k for k in range(20)]
A("/-- the column carry chain: t₀…t₁₉ are the base-2^26 digits of Σ c_k·2^(26k) (t₁₉ unreduced). -/")
A("theorem carry_chain {%s %s %s : Nat}" % (" ".join(cs), " ".join(ms), " ".join(ts)))
A("    (k0 : m0 = c0) (s0 : t0 = m0 %% %d)" % D)
for k in range(1, 19):
    A("    (k%d : m%d = m%d / %d + c%d) (s%d : t%d = m%d %% %d)" % (k, k, k-1, D, k, k, k, k, D))
A("    (s19 : t19 = m18 / %d) :" % D)
A("    %s\n      = %s := by" % (sumD(ts), sumD(cs)))
A("  omega\n")

# bound on t19 and t_k
A("/-- digits are < 2^26 and, for operands of magnitude ≤ 8, the top digit t₁₉ is < 2^24 + 2^5. -/")
A("theorem carry_bounds {%s %s %s : Nat}" % (" ".join(cs), " ".join(ms), " ".join(ts)))
A("    (k0 : m0 = c0) (s0 : t0 = m0 %% %d)" % D)
for k in range(1, 19):
    A("    (k%d : m%d = m%d / %d + c%d) (s%d : t%d = m%d %% %d)" % (k, k, k-1, D, k, k, k, k, D))
A("    (s19 : t19 = m18 / %d)" % D)
C = 10 * W * W
A("    " + " ".join("(h%d : c%d ≤ %d)" % (k, k, C) for k in range(0, 17)))
A("    (h17 : c17 ≤ %d) (h18 : c18 ≤ %d) :" % (2 * W * T, T * T))
A("    " + " ∧ ".join("t%d ≤ %d" % (k, D - 1) for k in range(19)) + " ∧ t19 ≤ 16777248 := by")
A("  omega\n")
PART1 = "\n".join(L)

# ---- reduction lemma
L = []
A = L.append
t0s = ["t%d" % k for k in range(20)]
red_vars = []
hyps = []
def H(name, lhs, rhs):
    hyps.append("(%s : %s = %s)" % (name, lhs, rhs)); red_vars.append(lhs)
H("r0", "u0", "t0 + (t10 * 15632)")
H("q0", "v0", "u0 %% %d" % D)
for k in range(1, 9):
    H("r%d" % k, "u%d" % k, "(((u%d / %d) + t%d) + (t%d * 1024)) + (t%d * 15632)" % (k-1, D, k, 9+k, 10+k))
    H("q%d" % k, "v%d" % k, "u%d %% %d" % (k, D))
H("r9", "u9", "(((u8 / %d) + t9) + (t18 * 1024)) + (t19 * 68719492368)" % D)
H("q9", "v9", "u9 % 4194304")
H("rm", "mm", "u9 / 4194304")
H("d0", "x0", "v0 + (mm * 977)")
H("p0", "o0", "x0 %% %d" % D)
H("d1", "x1", "((x0 / %d) + v1) + (mm * 64)" % D)
H("p1", "o1", "x1 %% %d" % D)
H("p2", "o2", "(x1 / %d) + v2" % D)
for k in range(3, 10):
    H("p%d" % k, "o%d" % k, "v%d" % k)
A("/-- the reduction phase: fold digits 10..19 (weight 2^260 ≡ 16·(2^32+977)), renormalise to 256 bits,")
A("fold the overflow `mm` once more.  Value: out + (16·Σ t_{10+j}·2^(26j) + mm)·P = Σ t_k·2^(26k). -/")
A("theorem mul_reduce {%s : Nat}" % " ".join(t0s))
A("    " + " ".join("(b%d : t%d ≤ %d)" % (k, k, D-1) for k in range(19)) + " (b19 : t19 ≤ 16777248)")
A("    {%s : Nat}" % " ".join(red_vars))
for h in hyps:
    A("    " + h)
A("    :")
os_ = ["o%d" % k for k in range(10)]
A("    o0 ≤ %d ∧ o1 ≤ %d ∧ o2 ≤ 68157439 ∧ " % (D-1, D-1) + " ∧ ".join("o%d ≤ %d" % (k, D-1) for k in range(3, 9)) + " ∧ o9 ≤ 4194303 ∧")
A("    (%s)\n      + (16 * (%s) + mm) * %d\n      = %s := by" % (sumD(os_), sumD(["t%d" % k for k in range(10, 20)]), P, sumD(t0s)))
A("  omega\n")
PART2 = "\n".join(L)

# ---- per-function assembly
import subprocess, re
def ssa(defname):
    out = subprocess.run(['python3', os.path.join(HERE, 'ssa.py'), FIELD_LEAN, defname],
                         capture_output=True, text=True).stdout.split('\n')
    names = out[1].strip()[1:].split(' : Nat}')[0].split()
    return names

def bound_of(i): return T if i == 9 else W

def gen(fn, square):
    L = []
    A = L.append
    exact = fn + "_exact"
    names = ssa(exact)
    assert len(names) == 72, len(names)
    avars = ["a%d" % i for i in range(10)]
    bvars = avars if square else ["b%d" % i for i in range(10)]
    # column terms
    def col(k):
        terms = []
        if not square:
            for i in range(max(0, k-9), min(9, k)+1):
                terms.append(("a%d * b%d" % (i, k-i), bound_of(i) * bound_of(k-i), "p_%d_%d" % (i, k-i)))
        else:
            for i in range(max(0, k-9), min(9, k)+1):
                j = k - i
                if i < j:
                    terms.append(("2 * a%d * a%d" % (i, j), 2 * bound_of(i) * bound_of(j), "p_%d_%d" % (i, j)))
            if k % 2 == 0:
                i = k // 2
                terms.append(("a%d * a%d" % (i, i), bound_of(i) ** 2, "p_%d_%d" % (i, i)))
        return terms
    args = "(a : FN)" if square else "(a b : FN)"
    hyp = lambda v, s: " ".join("(h%s%d : %s.n%d ≤ %d)" % (s, i, v, i, bound_of(i)) for i in range(10))
    call = "%s a" % exact if square else "%s a b" % exact
    prod = "a.val * a.val" if square else "a.val * b.val"
    A("/-! ### %s -/\n" % ("SquareVal" if square else "Mul2"))
    A("set_option maxHeartbeats 4000000 in")
    A("/-- the exact twin of %s computes the product mod P and returns magnitude 1. -/" % ("SquareVal" if square else "Mul2"))
    A("theorem %s_spec %s" % (exact, args))
    A("    " + hyp("a", "a"))
    if not square:
        A("    " + hyp("b", "b"))
    A("    :")
    A("    (%s).n0 ≤ 67108863 ∧ (%s).n1 ≤ 67108863 ∧ (%s).n2 ≤ 68157439 ∧" % (call, call, call))
    A("    " + " ∧ ".join("(%s).n%d ≤ 67108863" % (call, i) for i in range(3, 9)) + " ∧")
    A("    (%s).n9 ≤ 4194303 ∧ ∃ q, (%s).val + q * P = %s := by" % (call, call, prod))
    A("  rcases a with ⟨%s⟩" % ",".join(avars))
    if not square:
        A("  rcases b with ⟨%s⟩" % ",".join(bvars))
    A("  simp only at " + " ".join("ha%d" % i for i in range(10)) + ("" if square else " " + " ".join("hb%d" % i for i in range(10))))
    # product bounds
    seen = set()
    for k in range(19):
        for (term, bnd, nm) in col(k):
            if nm in seen: continue
            seen.add(nm)
            i, j = [int(x) for x in nm.split('_')[1:]]
            if not square:
                A("  have %s : %s ≤ %d := Nat.mul_le_mul ha%d hb%d" % (nm, term, bnd, i, j))
            elif i == j:
                A("  have %s : %s ≤ %d := Nat.mul_le_mul ha%d ha%d" % (nm, term, bnd, i, i))
            else:
                A("  have %s : %s ≤ %d := Nat.mul_le_mul (Nat.mul_le_mul_left 2 ha%d) ha%d" % (nm, term, bnd, i, j))
    C = 10 * W * W
    for k in range(19):
        expr = " + ".join(t for (t, _, _) in col(k))
        bnd = C if k <= 16 else (2 * W * T if k == 17 else T * T)
        A("  have hc%d : %s ≤ %d := by omega" % (k, expr, bnd))
    A("  clear " + " ".join(sorted(seen)))
    A("  unfold %s" % exact)
    A("  dsimp -zeta only []")
    A("  extract_lets -merge " + " ".join(names))
    A("  lets_to_eqs")
    # bridging
    mnames = [names[2*k] for k in range(19)]
    for k in range(1, 18):
        expr = " + ".join(t for (t, _, _) in col(k))
        A("  have k%d : %s = %s / %d + (%s) := by rw [hlet_%d]; try simp only [Nat.add_assoc]" % (k, mnames[k], mnames[k-1], D, expr, 2*k))
    sargs = ["hlet_0", "hlet_1"]
    for k in range(1, 18):
        sargs += ["k%d" % k, "hlet_%d" % (2*k+1)]
    sargs += ["hlet_36", "hlet_37", "hlet_38"]
    A("  have cv := carry_chain " + " ".join(sargs))
    A("  obtain ⟨" + ",".join("tb%d" % k for k in range(20)) + "⟩ := carry_bounds " + " ".join(sargs) + " " + " ".join("hc%d" % k for k in range(19)))
    A("  obtain ⟨" + ",".join("g%d" % k for k in range(10)) + ",hv⟩ := mul_reduce " + " ".join("tb%d" % k for k in range(20)) + " " + " ".join("hlet_%d" % k for k in range(39, 72)))
    tnames = [names[2*k+1] for k in range(19)] + [names[38]]
    A("  refine ⟨g0, g1, g2, g3, g4, g5, g6, g7, g8, g9, 16 * (%s) + %s, ?_⟩" % (sumD(tnames[10:20]), names[59]))
    A("  simp only [FN.val, Nat.reducePow, P_eq]")
    A("  rw [hv, cv]")
    A("  ring\n")

    # nowrap
    fargs = "(a : FV)" if square else "(a b : FV)"
    fcall = "%s a" % fn if square else "%s a b" % fn
    ecall = "%s a.toN" % exact if square else "%s a.toN b.toN" % exact
    A("set_option maxHeartbeats 4000000 in")
    A("/-- No `uint64` intermediate of `%s` wraps and no final `uint32(…)` conversion truncates, for\noperands of magnitude ≤ 8: lock-step simulation of the machine version by the exact version. -/" % ("SquareVal" if square else "Mul2"))
    A("theorem %s_nowrap %s (ha : MagLe 8 a)%s :" % (fn, fargs, "" if square else " (hb : MagLe 8 b)"))
    A("    (%s).toN = %s := by" % (fcall, ecall))
    A("  rcases a with ⟨%s⟩" % ",".join(avars))
    if not square:
        A("  rcases b with ⟨%s⟩" % ",".join(bvars))
    A("  obtain ⟨" + ",".join("ha%d" % i for i in range(10)) + "⟩ := ha")
    if not square:
        A("  obtain ⟨" + ",".join("hb%d" % i for i in range(10)) + "⟩ := hb")
    A("  simp only [Nat.reduceMul] at " + " ".join("ha%d" % i for i in range(10)) + ("" if square else " " + " ".join("hb%d" % i for i in range(10))))
    A("  unfold %s %s" % (fn, exact))
    A("  simp -zeta only [FV.toN]")
    A("  extract_lets -merge")
    A("  lets_to_eqs")
    A("  sim_lets using omega\n")

    # sound
    A("/-- **C09, %s.** -/" % ("SquareVal" if square else "Mul2"))
    A("theorem %s_sound %s (ha : MagLe 8 a)%s :" % (fn, fargs, "" if square else " (hb : MagLe 8 b)"))
    A("    (%s).toN = %s ∧" % (fcall, ecall))
    A("    (%s).val %% P = (%s) %% P ∧" % (fcall, "a.val * a.val" if square else "a.val * b.val"))
    A("    MagLe 1 (%s) := by" % fcall)
    A("  have hw := %s_nowrap a %sha%s" % (fn, "" if square else "b ", "" if square else " hb"))
    A("  have ha' := ha")
    A("  obtain ⟨" + ",".join("ha%d" % i for i in range(10)) + "⟩ := ha'")
    if not square:
        A("  have hb' := hb")
        A("  obtain ⟨" + ",".join("hb%d" % i for i in range(10)) + "⟩ := hb'")
    A("  simp only [Nat.reduceMul] at " + " ".join("ha%d" % i for i in range(10)) + ("" if square else " " + " ".join("hb%d" % i for i in range(10))))
    A("  have hs := %s_spec a.toN %s" % (exact, "" if square else "b.toN ") + " ".join("ha%d" % i for i in range(10)) + ("" if square else " " + " ".join("hb%d" % i for i in range(10))))
    A("  rw [← hw] at hs")
    A("  obtain ⟨" + ",".join("g%d" % k for k in range(10)) + ",q,hq⟩ := hs")
    A("  refine ⟨hw, ?_, ?_⟩")
    A("  · rw [val_toN, val_toN%s] at hq" % ("" if square else ", val_toN"))
    A("    rw [← hq, Nat.add_mul_mod_self_right]")
    A("  · simp only [FV.toN] at g0 g1 g2 g3 g4 g5 g6 g7 g8 g9")
    A("    unfold MagLe")
    A("    omega\n")
    return "\n".join(L)

part1 = PART1
part2 = PART2
body = part1 + "\n" + part2 + "\n" + gen("mul2", False) + "\n" + gen("squareVal", True)
body += '''
/-! ### the aliasing wrappers and non-vacuity -/

/-- `f.Mul(val)` is `f.Mul2(f, val)`; the translator checked that Mul2 reads every operand word
before it writes the first result word, so this is also what Go computes under aliasing. -/
theorem mul_eq (f v : FV) : mul f v = mul2 f v := rfl
/-- `f.Square()` is `f.SquareVal(f)`. -/
theorem square_eq (f : FV) : square f = squareVal f := rfl

example : (mul2 exA exB).val % P = (exA.val * exB.val) % P ∧ MagLe 1 (mul2 exA exB) :=
  (mul2_sound exA exB (by decide) (by decide)).2
example : (squareVal exB).val % P = (exB.val * exB.val) % P ∧ MagLe 1 (squareVal exB) :=
  (squareVal_sound exB (by decide)).2
/-- the slack in `MagLe` is needed: for these magnitude-8 operands word 2 of the product exceeds
2^26 - 1 (found by random search with the Go code; `mul2` is the generated definition). -/
def exM8a : FV := ⟨545259520, 545259023, 343573247, 545258893, 170720980, 545259520, 545258624,
  545258698, 545258546, 33554432⟩
def exM8b : FV := ⟨545259341, 384773759, 309653204, 369377851, 44009460, 545258852, 408077144,
  231209070, 181639989, 33553618⟩
example : MagLe 8 exM8a ∧ MagLe 8 exM8b ∧ (mul2 exM8a exM8b).n2.toNat = 67370928 ∧
    (67370928 : Nat) > 67108863 := by decide +kernel

#print axioms mul2_sound
#print axioms squareVal_sound

end GoBk.Proofs.Field
'''
open(OUT, 'w').write(body)
print("written")
