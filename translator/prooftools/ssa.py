#!/usr/bin/env python3
"""Authoring helper: print the let-chain of a generated `_exact` def as SSA hypotheses.
usage: ssa.py Field.lean defname  (args of the def are renamed: f.nI -> aI, val.nI -> aI, val2.nI -> bI)"""
import re, sys
src = open(sys.argv[1]).read()
name = sys.argv[2]
m = re.search(r'^def %s\b.*?:=\n(.*?)\n\n' % re.escape(name), src, re.S | re.M)
body = m.group(1).split('\n')
cur = {}     # go name -> ssa name
count = {}
hyps = []
vars_ = []
def subst(e):
    e = re.sub(r'\b(f|val)\.n(\d)\b', r'a\2', e)
    e = re.sub(r'\bval2\.n(\d)\b', r'b\1', e)
    def rep(mo):
        w = mo.group(0)
        return cur.get(w, w)
    return re.sub(r'\b[A-Za-z_][A-Za-z0-9_]*\b', rep, e)
k = 0
for line in body:
    mo = re.match(r'\s*let (\w+) : Nat := (.*)$', line)
    if not mo:
        print('-- result:', subst(line.strip()))
        continue
    v, e = mo.group(1), mo.group(2)
    e2 = subst(e)
    c = count.get(v, 0); count[v] = c + 1
    new = '%s_%d' % (v, c) if not v.startswith('f_n') else 'o%s' % v[3:]
    cur[v] = new
    vars_.append(new)
    hyps.append('(e%d : %s = %s)' % (k, new, e2))
    k += 1
print('{' + ' '.join(vars_) + ' : Nat}')
for h in hyps:
    print('    ' + h)
