#!/usr/bin/env python3
# authoring helper: emits GoBk/Proofs/FieldBytes.lean
# usage: genbytes.py <out: GoBk/Proofs/FieldBytes.lean>
import sys
OUT = sys.argv[1]
L=[]
A=L.append
A('''/-
  GoBk.Proofs.FieldBytes — C10, second half: `SetBytes` / `PutBytes` (generated
  `GoBk.Gen.Field.setBytes`, `putBytes`; `[32]byte` is the structure `B32`, b0 = most significant).

  * `setBytes_val`      : SetBytes loads exactly the big-endian integer of the 32 bytes, and the
                          result is canonical in shape (words 0..8 < 2^26, word 9 < 2^22);
  * `putBytes_setBytes` : PutBytes ∘ SetBytes is the identity on all 32-byte strings;
  * `putBytes_val`      : PutBytes of a canonical (e.g. normalised) value is its 32-byte big-endian
                          form.
  Method: every `|` in the generated code joins bit-disjoint pieces, so it is a `+`
  (`or_mul_*` lemmas, side conditions by `omega`); what remains is linear arithmetic with `/`, `%`.
  Core Lean only.
-/
import GoBk.Proofs.FieldDefs
import GoBk.Proofs.FieldTactics
import GoBk.Proofs.FieldNormalise

set_option linter.unusedSimpArgs false
set_option linter.unusedVariables false

namespace GoBk.Proofs.Field
open GoBk.Gen.Field

/-- big-endian value of a 32-byte array -/
def beNat (b : B32) : Nat :=''')
terms=[]
for i in range(32):
    e=31-i
    terms.append("b.b%d.toNat * %d"%(i,256**e) if e>0 else "b.b%d.toNat"%i)
A("  "+" +\n  ".join(terms))
A('''
/-- `beNat` is the usual left fold (`big.Int.SetBytes`) over the byte list. -/
theorem beNat_eq_foldl (b : B32) :
    beNat b = b.toList.foldl (fun acc x => acc * 256 + x.toNat) 0 := by
  simp only [beNat, B32.toList, List.foldl]
  omega

/-! ### `x ||| y·2^k = x + y·2^k` for `x < 2^k` (numeral instances) -/

theorem or_mul_pow {x : Nat} (y k : Nat) (h : x < 2 ^ k) : x ||| y * 2 ^ k = x + y * 2 ^ k := by
  rw [Nat.or_comm, ← Nat.shiftLeft_eq, ← Nat.shiftLeft_add_eq_or_of_lt h, Nat.add_comm]
''')
for k in [2,4,6,8,10,12,14,16,18,20,22,24]:
    A("theorem or_mul_%d {x : Nat} (y : Nat) (h : x < %d) : x ||| y * %d = x + y * %d := or_mul_pow y %d h"%(2**k,2**k,2**k,2**k,k))
oml=", ".join("or_mul_%d"%(2**k) for k in [2,4,6,8,10,12,14,16,18,20,22,24])
A('''
/-- the rewriting set for both directions -/
macro "bytes_simp" " [" extra:Lean.Parser.Tactic.simpLemma,* "]" loc:(Lean.Parser.Tactic.location)? : tactic =>
  `(tactic| simp (disch := omega) only [UInt32.toNat_or, UInt32.toNat_and, UInt32.toNat_shiftLeft,
      UInt32.toNat_shiftRight, UInt32.toNat_ofNat, UInt8.toNat_toUInt32, UInt32.toNat_toUInt8,
      Nat.shiftLeft_eq, Nat.shiftRight_eq_div_pow, Nat.reducePow, Nat.reduceMod,
      and_mask8, and_mask6, and_mask4, and_mask2, Nat.mod_eq_of_lt,
      %s, $extra,*] $[$loc]?)
''' % oml)

bs=["b%d"%i for i in range(32)]
A("/-! ### SetBytes -/\n")
A("/-- the ten words of `SetBytes b` as sums of byte pieces -/")
A("theorem setBytes_words (b : B32) :")
W = [
 "b.b31.toNat + b.b30.toNat * 256 + b.b29.toNat * 65536 + b.b28.toNat % 4 * 16777216",
 "b.b28.toNat / 4 + b.b27.toNat * 64 + b.b26.toNat * 16384 + b.b25.toNat % 16 * 4194304",
 "b.b25.toNat / 16 + b.b24.toNat * 16 + b.b23.toNat * 4096 + b.b22.toNat % 64 * 1048576",
 "b.b22.toNat / 64 + b.b21.toNat * 4 + b.b20.toNat * 1024 + b.b19.toNat * 262144",
 "b.b18.toNat + b.b17.toNat * 256 + b.b16.toNat * 65536 + b.b15.toNat % 4 * 16777216",
 "b.b15.toNat / 4 + b.b14.toNat * 64 + b.b13.toNat * 16384 + b.b12.toNat % 16 * 4194304",
 "b.b12.toNat / 16 + b.b11.toNat * 16 + b.b10.toNat * 4096 + b.b9.toNat % 64 * 1048576",
 "b.b9.toNat / 64 + b.b8.toNat * 4 + b.b7.toNat * 1024 + b.b6.toNat * 262144",
 "b.b5.toNat + b.b4.toNat * 256 + b.b3.toNat * 65536 + b.b2.toNat % 4 * 16777216",
 "b.b2.toNat / 4 + b.b1.toNat * 64 + b.b0.toNat * 16384",
]
A("    "+" ∧\n    ".join("(setBytes b).n%d.toNat = %s"%(i,w) for i,w in enumerate(W))+" := by")
A("  rcases b with ⟨%s⟩"%",".join(bs))
for i in range(32):
    A("  have h%d := b%d.toNat_lt"%(i,i))
A("  simp only [Nat.reducePow] at "+" ".join("h%d"%i for i in range(32)))
A("  simp only [setBytes]")
A("  refine ⟨?_, ?_, ?_, ?_, ?_, ?_, ?_, ?_, ?_, ?_⟩ <;> bytes_simp []")
A('''
/-- **C10, SetBytes.** -/
theorem setBytes_val (b : B32) : (setBytes b).val = beNat b ∧ Canon (setBytes b) := by
  obtain ⟨w0,w1,w2,w3,w4,w5,w6,w7,w8,w9⟩ := setBytes_words b''')
for i in range(32):
    A("  have h%d := b.b%d.toNat_lt"%(i,i))
A("  simp only [Nat.reducePow] at "+" ".join("h%d"%i for i in range(32)))
A("  simp only [FV.val, Canon, beNat, Nat.reducePow, w0, w1, w2, w3, w4, w5, w6, w7, w8, w9]")
A("  omega\n")

A("/-! ### PutBytes -/\n")
# byte formulas
def byte_formula(k):
    # returns arithmetic form of (putBytes f).b<k>.toNat
    # index mapping from Go source
    table = {
     31:"f.n0.toNat % 256", 30:"f.n0.toNat / 256 % 256", 29:"f.n0.toNat / 65536 % 256",
     28:"(f.n0.toNat / 16777216 % 4 + f.n1.toNat % 64 * 4) % 256",
     27:"f.n1.toNat / 64 % 256", 26:"f.n1.toNat / 16384 % 256",
     25:"(f.n1.toNat / 4194304 % 16 + f.n2.toNat % 16 * 16) % 256",
     24:"f.n2.toNat / 16 % 256", 23:"f.n2.toNat / 4096 % 256",
     22:"(f.n2.toNat / 1048576 % 64 + f.n3.toNat % 4 * 64) % 256",
     21:"f.n3.toNat / 4 % 256", 20:"f.n3.toNat / 1024 % 256", 19:"f.n3.toNat / 262144 % 256",
     18:"f.n4.toNat % 256", 17:"f.n4.toNat / 256 % 256", 16:"f.n4.toNat / 65536 % 256",
     15:"(f.n4.toNat / 16777216 % 4 + f.n5.toNat % 64 * 4) % 256",
     14:"f.n5.toNat / 64 % 256", 13:"f.n5.toNat / 16384 % 256",
     12:"(f.n5.toNat / 4194304 % 16 + f.n6.toNat % 16 * 16) % 256",
     11:"f.n6.toNat / 16 % 256", 10:"f.n6.toNat / 4096 % 256",
     9:"(f.n6.toNat / 1048576 % 64 + f.n7.toNat % 4 * 64) % 256",
     8:"f.n7.toNat / 4 % 256", 7:"f.n7.toNat / 1024 % 256", 6:"f.n7.toNat / 262144 % 256",
     5:"f.n8.toNat % 256", 4:"f.n8.toNat / 256 % 256", 3:"f.n8.toNat / 65536 % 256",
     2:"(f.n8.toNat / 16777216 % 4 + f.n9.toNat % 64 * 4) % 256",
     1:"f.n9.toNat / 64 % 256", 0:"f.n9.toNat / 16384 % 256",
    }
    return table[k]
A("/-- the 32 bytes of `PutBytes f` in arithmetic form (no hypothesis on `f`) -/")
A("theorem putBytes_bytes (f : FV) :")
A("    "+" ∧\n    ".join("(putBytes f).b%d.toNat = %s"%(k,byte_formula(k)) for k in range(32))+" := by")
A("  rcases f with ⟨a0,a1,a2,a3,a4,a5,a6,a7,a8,a9⟩")
A("  simp only [putBytes]")
A("  refine ⟨"+", ".join(["?_"]*32)+"⟩ <;> bytes_simp [Nat.mod_mod]")
A("""
set_option maxHeartbeats 1000000 in
/-- **C10, PutBytes.**  On a canonical value PutBytes writes its 32-byte big-endian form. -/
theorem putBytes_val (f : FV) (h : Canon f) : beNat (putBytes f) = f.val := by""")
A("  obtain ⟨c0,c1,c2,c3,c4,c5,c6,c7,c8,c9⟩ := h")
pieces = {0:(256,65536,16777216), 1:(64,16384,4194304), 2:(16,4096,1048576), 3:(4,1024,262144)}
for w in range(10):
    k1,k2,k3 = pieces[w%4]
    N = "f.n%d.toNat"%w
    A("  have r%d : %s = %s %% %d + %s / %d %% 256 * %d + %s / %d %% 256 * %d + %s / %d * %d := by omega"%(w,N,N,k1,N,k1,k1,N,k2,k2,N,k3,k3))
A("  obtain ⟨"+",".join("e%d"%k for k in range(32))+"⟩ := putBytes_bytes f")
A("  simp only [beNat, FV.val, Nat.reducePow, "+", ".join("e%d"%k for k in range(32))+"]")
A("  clear "+" ".join("e%d"%k for k in range(32)))
A("  omega")
A("""
set_option maxHeartbeats 1000000 in
/-- **C10, round trip.**  PutBytes ∘ SetBytes is the identity on all 32-byte strings. -/
theorem putBytes_setBytes (b : B32) : putBytes (setBytes b) = b := by
  obtain ⟨w0,w1,w2,w3,w4,w5,w6,w7,w8,w9⟩ := setBytes_words b""")
A("  obtain ⟨"+",".join("e%d"%k for k in range(32))+"⟩ := putBytes_bytes (setBytes b)")
A("  simp only [w0,w1,w2,w3,w4,w5,w6,w7,w8,w9] at "+" ".join("e%d"%k for k in range(32)))
for i in range(32):
    A("  have h%d := b.b%d.toNat_lt"%(i,i))
A("  simp only [Nat.reducePow] at "+" ".join("h%d"%i for i in range(32)))
for k in range(32):
    A("  have q%d : (putBytes (setBytes b)).b%d = b.b%d := UInt8.toNat_inj.mp (by rw [e%d]; clear "%(k,k,k,k)+" ".join("e%d"%j for j in range(32))+" w0 w1 w2 w3 w4 w5 w6 w7 w8 w9; omega)")
A("  rcases hb : putBytes (setBytes b) with ⟨"+",".join("c%d"%i for i in range(32))+"⟩")
A("  rw [hb] at "+" ".join("q%d"%k for k in range(32)))
A("  simp only at "+" ".join("q%d"%k for k in range(32)))
A("  rcases b with ⟨%s⟩"%",".join(bs))
A("  simp only at "+" ".join("q%d"%k for k in range(32)))
A("  subst "+" ".join("q%d"%k for k in range(32)))
A("  rfl")
A('''
/-- `Bytes()` is `PutBytes` into a fresh array. -/
theorem bytes_eq (f : FV) : bytes f = putBytes f := rfl

/-- SetBytes ∘ PutBytes is the identity on canonical values (so the two are mutually inverse
bijections between 32-byte strings and canonical representations). -/
theorem setBytes_putBytes (f : FV) (h : Canon f) : setBytes (putBytes f) = f := by
  have h1 := setBytes_val (putBytes f)
  exact canonical_unique h1.2 h (by rw [h1.1, putBytes_val f h])

/-! ### non-vacuity -/

def exBytes : B32 :=
  ⟨0xff, 0xff, 0xff, 0xfe, 0x01, 0x23, 0x45, 0x67, 0x89, 0xab, 0xcd, 0xef, 0x10, 0x32, 0x54, 0x76,
   0x98, 0xba, 0xdc, 0xfe, 0x00, 0x80, 0x7f, 0xc0, 0x3f, 0xf0, 0x0f, 0xfc, 0x03, 0xaa, 0x55, 0x01⟩

example : putBytes (setBytes exBytes) = exBytes := putBytes_setBytes exBytes
example : (setBytes exBytes).val = beNat exBytes := (setBytes_val exBytes).1
example : putBytes (setBytes exBytes) = exBytes := by decide
example : beNat (putBytes exA) = exA.val := putBytes_val exA (by decide)

#print axioms setBytes_val
#print axioms putBytes_setBytes
#print axioms putBytes_val

end GoBk.Proofs.Field
''')
open(OUT,'w').write("\n".join(L))
print("written")
