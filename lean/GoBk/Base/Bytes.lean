/-
  GoBk.Base.Bytes — byte strings as `List UInt8`, big-endian naturals, hex.
  Core Lean only (no Mathlib): everything here is linked into the driver executable.
-/
namespace GoBk

abbrev Bytes := List UInt8

namespace Bytes

/-- big-endian value of a byte string (`big.Int.SetBytes`). -/
def beNat (b : Bytes) : Nat := b.foldl (fun acc x => acc * 256 + x.toNat) 0

/-- little-endian digit peeling used by `natBE`; `fuel` bounds the recursion. -/
def natBEAux : Nat → Nat → Bytes → Bytes
  | 0, _, acc => acc
  | fuel+1, n, acc => if n = 0 then acc else natBEAux fuel (n / 256) (UInt8.ofNat (n % 256) :: acc)

/-- minimal big-endian bytes of `n` (`big.Int.Bytes`): empty for 0. -/
def natBE (n : Nat) : Bytes := natBEAux (n + 1) n []

/-- left-pad with zeros to at least `len` bytes (Go `paddedAppend`). -/
def padLeft (len : Nat) (b : Bytes) : Bytes := List.replicate (len - b.length) 0 ++ b

/-- big-endian bytes, left-padded to `len` (no truncation if longer). -/
def natBEpad (len : Nat) (n : Nat) : Bytes := padLeft len (natBE n)

def hexDigit (n : Nat) : Char :=
  if n < 10 then Char.ofNat (48 + n) else Char.ofNat (87 + n)

def toHex (b : Bytes) : String :=
  String.ofList (b.flatMap fun x => [hexDigit (x.toNat / 16), hexDigit (x.toNat % 16)])

def hexVal (c : Char) : Option Nat :=
  if '0' ≤ c ∧ c ≤ '9' then some (c.toNat - 48)
  else if 'a' ≤ c ∧ c ≤ 'f' then some (c.toNat - 87)
  else if 'A' ≤ c ∧ c ≤ 'F' then some (c.toNat - 55)
  else none

def ofHexChars : List Char → Option Bytes
  | [] => some []
  | [_] => none
  | a :: b :: rest => do
    let x ← hexVal a
    let y ← hexVal b
    let r ← ofHexChars rest
    pure (UInt8.ofNat (x * 16 + y) :: r)

/-- Go `hex.DecodeString`: odd length or a non-hex character is an error. -/
def ofHex (s : String) : Option Bytes := ofHexChars s.toList

def ofString (s : String) : Bytes := s.toUTF8.toList

end Bytes
end GoBk
