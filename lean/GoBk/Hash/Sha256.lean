/-
  GoBk.Hash.Sha256 — SHA-256 (FIPS 180-4), bit-exact with Go `crypto/sha256`.
  Core Lean only.  All loops are structural recursion on a `Nat` counter.
-/
import GoBk.Base.Bytes

namespace GoBk.Hash
namespace Sha256

/-- the eight 32-bit chaining words. -/
structure State where
  a : UInt32
  b : UInt32
  c : UInt32
  d : UInt32
  e : UInt32
  f : UInt32
  g : UInt32
  h : UInt32
  deriving Repr, BEq, Inhabited

def init : State :=
  ⟨0x6a09e667, 0xbb67ae85, 0x3c6ef372, 0xa54ff53a, 0x510e527f, 0x9b05688c, 0x1f83d9ab, 0x5be0cd19⟩

def K : Array UInt32 := #[
  0x428a2f98, 0x71374491, 0xb5c0fbcf, 0xe9b5dba5, 0x3956c25b, 0x59f111f1, 0x923f82a4, 0xab1c5ed5,
  0xd807aa98, 0x12835b01, 0x243185be, 0x550c7dc3, 0x72be5d74, 0x80deb1fe, 0x9bdc06a7, 0xc19bf174,
  0xe49b69c1, 0xefbe4786, 0x0fc19dc6, 0x240ca1cc, 0x2de92c6f, 0x4a7484aa, 0x5cb0a9dc, 0x76f988da,
  0x983e5152, 0xa831c66d, 0xb00327c8, 0xbf597fc7, 0xc6e00bf3, 0xd5a79147, 0x06ca6351, 0x14292967,
  0x27b70a85, 0x2e1b2138, 0x4d2c6dfc, 0x53380d13, 0x650a7354, 0x766a0abb, 0x81c2c92e, 0x92722c85,
  0xa2bfe8a1, 0xa81a664b, 0xc24b8b70, 0xc76c51a3, 0xd192e819, 0xd6990624, 0xf40e3585, 0x106aa070,
  0x19a4c116, 0x1e376c08, 0x2748774c, 0x34b0bcb5, 0x391c0cb3, 0x4ed8aa4a, 0x5b9cca4f, 0x682e6ff3,
  0x748f82ee, 0x78a5636f, 0x84c87814, 0x8cc70208, 0x90befffa, 0xa4506ceb, 0xbef9a3f7, 0xc67178f2]

@[inline] def rotr (x n : UInt32) : UInt32 := (x >>> n) ||| (x <<< (32 - n))

/-- big-endian 32-bit word at byte offset `i`. -/
@[inline] def be32 (ba : ByteArray) (i : Nat) : UInt32 :=
  ((ba.get! i).toUInt32 <<< 24) ||| ((ba.get! (i+1)).toUInt32 <<< 16) |||
  ((ba.get! (i+2)).toUInt32 <<< 8) ||| (ba.get! (i+3)).toUInt32

/-- push `n` big-endian words starting at byte offset `off`. -/
def loadWords (ba : ByteArray) : Nat → Nat → Array UInt32 → Array UInt32
  | 0, _, w => w
  | n+1, off, w => loadWords ba n (off + 4) (w.push (be32 ba off))

/-- extend a message schedule by `n` further words. -/
def schedule : Nat → Array UInt32 → Array UInt32
  | 0, w => w
  | n+1, w =>
    let i := w.size
    let w15 := w[i-15]!
    let w2 := w[i-2]!
    let s0 := rotr w15 7 ^^^ rotr w15 18 ^^^ (w15 >>> 3)
    let s1 := rotr w2 17 ^^^ rotr w2 19 ^^^ (w2 >>> 10)
    schedule n (w.push (w[i-16]! + s0 + w[i-7]! + s1))

/-- `n` rounds starting at round `i`. -/
def rounds (w : Array UInt32) : Nat → Nat → (a b c d e f g h : UInt32) → State
  | 0, _, a, b, c, d, e, f, g, h => ⟨a, b, c, d, e, f, g, h⟩
  | n+1, i, a, b, c, d, e, f, g, h =>
    let s1 := rotr e 6 ^^^ rotr e 11 ^^^ rotr e 25
    let ch := (e &&& f) ^^^ ((~~~ e) &&& g)
    let t1 := h + s1 + ch + K[i]! + w[i]!
    let s0 := rotr a 2 ^^^ rotr a 13 ^^^ rotr a 22
    let mj := (a &&& b) ^^^ (a &&& c) ^^^ (b &&& c)
    let t2 := s0 + mj
    rounds w n (i+1) (t1 + t2) a b c (d + t1) e f g

/-- the compression function on a 16-word block. -/
def compress (s : State) (w16 : Array UInt32) : State :=
  let w := schedule 48 w16
  let r := rounds w 64 0 s.a s.b s.c s.d s.e s.f s.g s.h
  ⟨s.a + r.a, s.b + r.b, s.c + r.c, s.d + r.d, s.e + r.e, s.f + r.f, s.g + r.g, s.h + r.h⟩

/-- absorb `n` 64-byte blocks of `ba` starting at byte offset `off`. -/
def blocks (ba : ByteArray) : Nat → Nat → State → State
  | 0, _, s => s
  | n+1, off, s => blocks ba n (off + 64) (compress s (loadWords ba 16 off (Array.mkEmpty 64)))

def be64Bytes (n : Nat) : Bytes :=
  [UInt8.ofNat (n >>> 56), UInt8.ofNat (n >>> 48), UInt8.ofNat (n >>> 40), UInt8.ofNat (n >>> 32),
   UInt8.ofNat (n >>> 24), UInt8.ofNat (n >>> 16), UInt8.ofNat (n >>> 8), UInt8.ofNat n]

/-- Merkle–Damgård padding of a message tail `b`, where `total` is the byte length of the
    whole message (prefix already absorbed + `b`). -/
def pad (total : Nat) (b : Bytes) : Bytes :=
  b ++ 0x80 :: (List.replicate ((119 - total % 64) % 64) 0 ++ be64Bytes (total * 8))

@[inline] def wordBytes (x : UInt32) : Bytes :=
  [(x >>> 24).toUInt8, (x >>> 16).toUInt8, (x >>> 8).toUInt8, x.toUInt8]

def State.toBytes (s : State) : Bytes :=
  wordBytes s.a ++ (wordBytes s.b ++ (wordBytes s.c ++ (wordBytes s.d ++
  (wordBytes s.e ++ (wordBytes s.f ++ (wordBytes s.g ++ wordBytes s.h))))))

/-- finish a hash from chaining state `s` that has already absorbed `prefixLen` bytes
    (a multiple of 64), with remaining message `msg`. -/
def finishFrom (s : State) (prefixLen : Nat) (msg : Bytes) : State :=
  let p := (pad (prefixLen + msg.length) msg).toByteArray
  blocks p (p.size / 64) 0 s

end Sha256

/-- SHA-256 digest (Go `sha256.Sum256`). -/
def sha256 (b : Bytes) : Bytes := (Sha256.finishFrom Sha256.init 0 b).toBytes

theorem Sha256.State.toBytes_length (s : Sha256.State) : s.toBytes.length = 32 := by
  simp [Sha256.State.toBytes, Sha256.wordBytes]

theorem sha256_length (b : Bytes) : (sha256 b).length = 32 :=
  Sha256.State.toBytes_length _

end GoBk.Hash
