/-
  GoBk.Hash.Ripemd160 — RIPEMD-160, bit-exact with `golang.org/x/crypto/ripemd160`.
  Core Lean only.  All loops are structural recursion on a `Nat` counter.
-/
import GoBk.Base.Bytes

namespace GoBk.Hash
namespace Ripemd160

/-- the five 32-bit chaining words. -/
structure State where
  a : UInt32
  b : UInt32
  c : UInt32
  d : UInt32
  e : UInt32
  deriving Repr, BEq, Inhabited

def init : State := ⟨0x67452301, 0xefcdab89, 0x98badcfe, 0x10325476, 0xc3d2e1f0⟩

/-- message word index, left line. -/
def nL : Array Nat := #[
  0, 1, 2, 3, 4, 5, 6, 7, 8, 9, 10, 11, 12, 13, 14, 15,
  7, 4, 13, 1, 10, 6, 15, 3, 12, 0, 9, 5, 2, 14, 11, 8,
  3, 10, 14, 4, 9, 15, 8, 1, 2, 7, 0, 6, 13, 11, 5, 12,
  1, 9, 11, 10, 0, 8, 12, 4, 13, 3, 7, 15, 14, 5, 6, 2,
  4, 0, 5, 9, 7, 12, 2, 10, 14, 1, 3, 8, 11, 6, 15, 13]

/-- rotation amount, left line. -/
def rL : Array UInt32 := #[
  11, 14, 15, 12, 5, 8, 7, 9, 11, 13, 14, 15, 6, 7, 9, 8,
  7, 6, 8, 13, 11, 9, 7, 15, 7, 12, 15, 9, 11, 7, 13, 12,
  11, 13, 6, 7, 14, 9, 13, 15, 14, 8, 13, 6, 5, 12, 7, 5,
  11, 12, 14, 15, 14, 15, 9, 8, 9, 14, 5, 6, 8, 6, 5, 12,
  9, 15, 5, 11, 6, 8, 13, 12, 5, 12, 13, 14, 11, 8, 5, 6]

/-- message word index, right line. -/
def nR : Array Nat := #[
  5, 14, 7, 0, 9, 2, 11, 4, 13, 6, 15, 8, 1, 10, 3, 12,
  6, 11, 3, 7, 0, 13, 5, 10, 14, 15, 8, 12, 4, 9, 1, 2,
  15, 5, 1, 3, 7, 14, 6, 9, 11, 8, 12, 2, 10, 0, 4, 13,
  8, 6, 4, 1, 3, 11, 15, 0, 5, 12, 2, 13, 9, 7, 10, 14,
  12, 15, 10, 4, 1, 5, 8, 7, 6, 2, 13, 14, 0, 3, 9, 11]

/-- rotation amount, right line. -/
def rR : Array UInt32 := #[
  8, 9, 9, 11, 13, 15, 15, 5, 7, 7, 8, 11, 14, 14, 12, 6,
  9, 13, 15, 7, 12, 8, 9, 11, 7, 7, 12, 7, 6, 15, 13, 11,
  9, 7, 15, 11, 8, 6, 6, 14, 12, 13, 5, 14, 13, 13, 7, 5,
  15, 5, 8, 11, 14, 14, 6, 14, 6, 9, 12, 9, 12, 5, 15, 8,
  8, 5, 12, 9, 12, 5, 14, 6, 8, 13, 6, 5, 15, 13, 11, 11]

def kL : Array UInt32 := #[0x00000000, 0x5a827999, 0x6ed9eba1, 0x8f1bbcdc, 0xa953fd4e]
def kR : Array UInt32 := #[0x50a28be6, 0x5c4dd124, 0x6d703ef3, 0x7a6d76e9, 0x00000000]

@[inline] def rotl (x n : UInt32) : UInt32 := (x <<< n) ||| (x >>> (32 - n))

/-- the five round functions, selected by `j = 0..4`. -/
@[inline] def f (j : Nat) (x y z : UInt32) : UInt32 :=
  match j with
  | 0 => x ^^^ y ^^^ z
  | 1 => (x &&& y) ||| ((~~~ x) &&& z)
  | 2 => (x ||| (~~~ y)) ^^^ z
  | 3 => (x &&& z) ||| (y &&& (~~~ z))
  | _ => x ^^^ (y ||| (~~~ z))

/-- little-endian 32-bit word at byte offset `i`. -/
@[inline] def le32 (ba : ByteArray) (i : Nat) : UInt32 :=
  (ba.get! i).toUInt32 ||| ((ba.get! (i+1)).toUInt32 <<< 8) |||
  ((ba.get! (i+2)).toUInt32 <<< 16) ||| ((ba.get! (i+3)).toUInt32 <<< 24)

def loadWords (ba : ByteArray) : Nat → Nat → Array UInt32 → Array UInt32
  | 0, _, w => w
  | n+1, off, w => loadWords ba n (off + 4) (w.push (le32 ba off))

/-- `n` steps of one line starting at step `i`; `left` selects the tables. -/
def line (x : Array UInt32) (left : Bool) : Nat → Nat → (a b c d e : UInt32) → State
  | 0, _, a, b, c, d, e => ⟨a, b, c, d, e⟩
  | n+1, i, a, b, c, d, e =>
    let rnd := i / 16
    let alpha :=
      if left then a + f rnd b c d + x[nL[i]!]! + kL[rnd]!
      else a + f (4 - rnd) b c d + x[nR[i]!]! + kR[rnd]!
    let s := if left then rL[i]! else rR[i]!
    let alpha := rotl alpha s + e
    line x left n (i+1) e alpha b (rotl c 10) d

/-- the compression function on a 16-word block. -/
def compress (s : State) (x : Array UInt32) : State :=
  let l := line x true 80 0 s.a s.b s.c s.d s.e
  let r := line x false 80 0 s.a s.b s.c s.d s.e
  ⟨s.b + l.c + r.d, s.c + l.d + r.e, s.d + l.e + r.a, s.e + l.a + r.b, s.a + l.b + r.c⟩

/-- absorb `n` 64-byte blocks of `ba` starting at byte offset `off`. -/
def blocks (ba : ByteArray) : Nat → Nat → State → State
  | 0, _, s => s
  | n+1, off, s => blocks ba n (off + 64) (compress s (loadWords ba 16 off (Array.mkEmpty 16)))

def le64Bytes (n : Nat) : Bytes :=
  [UInt8.ofNat n, UInt8.ofNat (n >>> 8), UInt8.ofNat (n >>> 16), UInt8.ofNat (n >>> 24),
   UInt8.ofNat (n >>> 32), UInt8.ofNat (n >>> 40), UInt8.ofNat (n >>> 48), UInt8.ofNat (n >>> 56)]

def pad (b : Bytes) : Bytes :=
  b ++ 0x80 :: (List.replicate ((119 - b.length % 64) % 64) 0 ++ le64Bytes (b.length * 8))

@[inline] def wordBytes (x : UInt32) : Bytes :=
  [x.toUInt8, (x >>> 8).toUInt8, (x >>> 16).toUInt8, (x >>> 24).toUInt8]

def State.toBytes (s : State) : Bytes :=
  wordBytes s.a ++ (wordBytes s.b ++ (wordBytes s.c ++ (wordBytes s.d ++ wordBytes s.e)))

end Ripemd160

/-- RIPEMD-160 digest (Go `ripemd160.New()` / `Write` / `Sum(nil)`). -/
def ripemd160 (b : Bytes) : Bytes :=
  let p := (Ripemd160.pad b).toByteArray
  (Ripemd160.blocks p (p.size / 64) 0 Ripemd160.init).toBytes

theorem Ripemd160.State.toBytes_length (s : Ripemd160.State) : s.toBytes.length = 20 := by
  simp [Ripemd160.State.toBytes, Ripemd160.wordBytes]

theorem ripemd160_length (b : Bytes) : (ripemd160 b).length = 20 :=
  Ripemd160.State.toBytes_length _

end GoBk.Hash
