/-
  GoBk.Hash.Base64 — RFC 4648 base64 with padding, bit-exact with Go 1.23
  `base64.StdEncoding.EncodeToString` / `DecodeString` (including its acceptance set:
  CR/LF skipped anywhere, mandatory correct padding, no trailing garbage, non-strict
  about unused trailing bits).  Core Lean only.
-/
import GoBk.Base.Bytes

namespace GoBk.Hash
namespace Base64

/-- the standard alphabet character for a 6-bit value. -/
@[inline] def encChar (v : UInt8) : UInt8 :=
  let v := v &&& 0x3f
  if v < 26 then v + 65          -- 'A'..'Z'
  else if v < 52 then v + 71     -- 'a'..'z'
  else if v < 62 then v - 4      -- '0'..'9'
  else if v == 62 then 43        -- '+'
  else 47                        -- '/'

/-- Go's `decodeMap`: the 6-bit value of an alphabet character. -/
@[inline] def decChar (c : UInt8) : Option UInt8 :=
  if 65 ≤ c && c ≤ 90 then some (c - 65)
  else if 97 ≤ c && c ≤ 122 then some (c - 71)
  else if 48 ≤ c && c ≤ 57 then some (c + 4)
  else if c == 43 then some 62
  else if c == 47 then some 63
  else none

@[inline] def isNL (c : UInt8) : Bool := c == 10 || c == 13

def pad : UInt8 := 61  -- '='

def encode : Bytes → Bytes
  | a :: b :: c :: rest =>
    encChar (a >>> 2) :: encChar ((a <<< 4) ||| (b >>> 4)) ::
    encChar ((b <<< 2) ||| (c >>> 6)) :: encChar c :: encode rest
  | [a, b] => [encChar (a >>> 2), encChar ((a <<< 4) ||| (b >>> 4)), encChar (b <<< 2), pad]
  | [a] => [encChar (a >>> 2), encChar (a <<< 4), pad, pad]
  | [] => []

/-- skip leading CR/LF. -/
def skipNL : Bytes → Bytes
  | [] => []
  | c :: cs => if isNL c then skipNL cs else c :: cs

/-- Go's `decodeQuantum` loop.  `j` is the number of sextets collected in the current
    quantum (0..3), `d0 d1 d2` their values, `out` the reversed output so far. -/
def decodeAux : Bytes → Nat → UInt8 → UInt8 → UInt8 → Bytes → Option Bytes
  | [], j, _, _, _, out => if j == 0 then some out.reverse else none
  | c :: cs, j, d0, d1, d2, out =>
    match decChar c with
    | some v =>
      match j with
      | 0 => decodeAux cs 1 v 0 0 out
      | 1 => decodeAux cs 2 d0 v 0 out
      | 2 => decodeAux cs 3 d0 d1 v out
      | _ =>
        decodeAux cs 0 0 0 0
          (((d2 <<< 6) ||| v) :: ((d1 <<< 4) ||| (d2 >>> 2)) :: ((d0 <<< 2) ||| (d1 >>> 4)) :: out)
    | none =>
      if isNL c then decodeAux cs j d0 d1 d2 out
      else if c != pad then none
      else
        match j with
        | 0 => none
        | 1 => none
        | 2 =>
          -- "==" expected; the first '=' is consumed
          match skipNL cs with
          | [] => none
          | e :: es =>
            if e != pad then none
            else if (skipNL es).isEmpty then some (((d0 <<< 2) ||| (d1 >>> 4)) :: out).reverse
            else none
        | _ =>
          if (skipNL cs).isEmpty then
            some (((d1 <<< 4) ||| (d2 >>> 2)) :: ((d0 <<< 2) ||| (d1 >>> 4)) :: out).reverse
          else none

end Base64

/-- Go `base64.StdEncoding.EncodeToString` (as ASCII bytes). -/
def base64Encode (b : Bytes) : Bytes := Base64.encode b

/-- Go `base64.StdEncoding.DecodeString`: `none` iff Go returns an error. -/
def base64Decode (s : Bytes) : Option Bytes := Base64.decodeAux s 0 0 0 0 []

end GoBk.Hash
