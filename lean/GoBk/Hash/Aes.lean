/-
  GoBk.Hash.Aes — AES-128/192/256 (FIPS-197), CBC and CFB-128 modes, bit-exact with Go
  `crypto/aes` + `crypto/cipher` (`NewCBCEncrypter/Decrypter`, `NewCFBEncrypter/Decrypter`).
  Core Lean only.  All loops are structural recursion on a `Nat` counter.
-/
import GoBk.Base.Bytes

namespace GoBk.Hash
namespace Aes

def sbox : Array UInt8 := #[
  0x63, 0x7c, 0x77, 0x7b, 0xf2, 0x6b, 0x6f, 0xc5, 0x30, 0x01, 0x67, 0x2b, 0xfe, 0xd7, 0xab, 0x76,
  0xca, 0x82, 0xc9, 0x7d, 0xfa, 0x59, 0x47, 0xf0, 0xad, 0xd4, 0xa2, 0xaf, 0x9c, 0xa4, 0x72, 0xc0,
  0xb7, 0xfd, 0x93, 0x26, 0x36, 0x3f, 0xf7, 0xcc, 0x34, 0xa5, 0xe5, 0xf1, 0x71, 0xd8, 0x31, 0x15,
  0x04, 0xc7, 0x23, 0xc3, 0x18, 0x96, 0x05, 0x9a, 0x07, 0x12, 0x80, 0xe2, 0xeb, 0x27, 0xb2, 0x75,
  0x09, 0x83, 0x2c, 0x1a, 0x1b, 0x6e, 0x5a, 0xa0, 0x52, 0x3b, 0xd6, 0xb3, 0x29, 0xe3, 0x2f, 0x84,
  0x53, 0xd1, 0x00, 0xed, 0x20, 0xfc, 0xb1, 0x5b, 0x6a, 0xcb, 0xbe, 0x39, 0x4a, 0x4c, 0x58, 0xcf,
  0xd0, 0xef, 0xaa, 0xfb, 0x43, 0x4d, 0x33, 0x85, 0x45, 0xf9, 0x02, 0x7f, 0x50, 0x3c, 0x9f, 0xa8,
  0x51, 0xa3, 0x40, 0x8f, 0x92, 0x9d, 0x38, 0xf5, 0xbc, 0xb6, 0xda, 0x21, 0x10, 0xff, 0xf3, 0xd2,
  0xcd, 0x0c, 0x13, 0xec, 0x5f, 0x97, 0x44, 0x17, 0xc4, 0xa7, 0x7e, 0x3d, 0x64, 0x5d, 0x19, 0x73,
  0x60, 0x81, 0x4f, 0xdc, 0x22, 0x2a, 0x90, 0x88, 0x46, 0xee, 0xb8, 0x14, 0xde, 0x5e, 0x0b, 0xdb,
  0xe0, 0x32, 0x3a, 0x0a, 0x49, 0x06, 0x24, 0x5c, 0xc2, 0xd3, 0xac, 0x62, 0x91, 0x95, 0xe4, 0x79,
  0xe7, 0xc8, 0x37, 0x6d, 0x8d, 0xd5, 0x4e, 0xa9, 0x6c, 0x56, 0xf4, 0xea, 0x65, 0x7a, 0xae, 0x08,
  0xba, 0x78, 0x25, 0x2e, 0x1c, 0xa6, 0xb4, 0xc6, 0xe8, 0xdd, 0x74, 0x1f, 0x4b, 0xbd, 0x8b, 0x8a,
  0x70, 0x3e, 0xb5, 0x66, 0x48, 0x03, 0xf6, 0x0e, 0x61, 0x35, 0x57, 0xb9, 0x86, 0xc1, 0x1d, 0x9e,
  0xe1, 0xf8, 0x98, 0x11, 0x69, 0xd9, 0x8e, 0x94, 0x9b, 0x1e, 0x87, 0xe9, 0xce, 0x55, 0x28, 0xdf,
  0x8c, 0xa1, 0x89, 0x0d, 0xbf, 0xe6, 0x42, 0x68, 0x41, 0x99, 0x2d, 0x0f, 0xb0, 0x54, 0xbb, 0x16]

def invSbox : Array UInt8 := #[
  0x52, 0x09, 0x6a, 0xd5, 0x30, 0x36, 0xa5, 0x38, 0xbf, 0x40, 0xa3, 0x9e, 0x81, 0xf3, 0xd7, 0xfb,
  0x7c, 0xe3, 0x39, 0x82, 0x9b, 0x2f, 0xff, 0x87, 0x34, 0x8e, 0x43, 0x44, 0xc4, 0xde, 0xe9, 0xcb,
  0x54, 0x7b, 0x94, 0x32, 0xa6, 0xc2, 0x23, 0x3d, 0xee, 0x4c, 0x95, 0x0b, 0x42, 0xfa, 0xc3, 0x4e,
  0x08, 0x2e, 0xa1, 0x66, 0x28, 0xd9, 0x24, 0xb2, 0x76, 0x5b, 0xa2, 0x49, 0x6d, 0x8b, 0xd1, 0x25,
  0x72, 0xf8, 0xf6, 0x64, 0x86, 0x68, 0x98, 0x16, 0xd4, 0xa4, 0x5c, 0xcc, 0x5d, 0x65, 0xb6, 0x92,
  0x6c, 0x70, 0x48, 0x50, 0xfd, 0xed, 0xb9, 0xda, 0x5e, 0x15, 0x46, 0x57, 0xa7, 0x8d, 0x9d, 0x84,
  0x90, 0xd8, 0xab, 0x00, 0x8c, 0xbc, 0xd3, 0x0a, 0xf7, 0xe4, 0x58, 0x05, 0xb8, 0xb3, 0x45, 0x06,
  0xd0, 0x2c, 0x1e, 0x8f, 0xca, 0x3f, 0x0f, 0x02, 0xc1, 0xaf, 0xbd, 0x03, 0x01, 0x13, 0x8a, 0x6b,
  0x3a, 0x91, 0x11, 0x41, 0x4f, 0x67, 0xdc, 0xea, 0x97, 0xf2, 0xcf, 0xce, 0xf0, 0xb4, 0xe6, 0x73,
  0x96, 0xac, 0x74, 0x22, 0xe7, 0xad, 0x35, 0x85, 0xe2, 0xf9, 0x37, 0xe8, 0x1c, 0x75, 0xdf, 0x6e,
  0x47, 0xf1, 0x1a, 0x71, 0x1d, 0x29, 0xc5, 0x89, 0x6f, 0xb7, 0x62, 0x0e, 0xaa, 0x18, 0xbe, 0x1b,
  0xfc, 0x56, 0x3e, 0x4b, 0xc6, 0xd2, 0x79, 0x20, 0x9a, 0xdb, 0xc0, 0xfe, 0x78, 0xcd, 0x5a, 0xf4,
  0x1f, 0xdd, 0xa8, 0x33, 0x88, 0x07, 0xc7, 0x31, 0xb1, 0x12, 0x10, 0x59, 0x27, 0x80, 0xec, 0x5f,
  0x60, 0x51, 0x7f, 0xa9, 0x19, 0xb5, 0x4a, 0x0d, 0x2d, 0xe5, 0x7a, 0x9f, 0x93, 0xc9, 0x9c, 0xef,
  0xa0, 0xe0, 0x3b, 0x4d, 0xae, 0x2a, 0xf5, 0xb0, 0xc8, 0xeb, 0xbb, 0x3c, 0x83, 0x53, 0x99, 0x61,
  0x17, 0x2b, 0x04, 0x7e, 0xba, 0x77, 0xd6, 0x26, 0xe1, 0x69, 0x14, 0x63, 0x55, 0x21, 0x0c, 0x7d]

/-- a 16-byte block as four big-endian column words. -/
structure Blk where
  c0 : UInt32
  c1 : UInt32
  c2 : UInt32
  c3 : UInt32
  deriving Repr, BEq, Inhabited

/-- expanded key: number of rounds and `4·(nr+1)` round-key words. -/
structure Key where
  nr : Nat
  w : Array UInt32
  deriving Repr, Inhabited

@[inline] def S (x : UInt8) : UInt8 := sbox[x.toNat]!
@[inline] def IS (x : UInt8) : UInt8 := invSbox[x.toNat]!

@[inline] def b0 (w : UInt32) : UInt8 := (w >>> 24).toUInt8
@[inline] def b1 (w : UInt32) : UInt8 := (w >>> 16).toUInt8
@[inline] def b2 (w : UInt32) : UInt8 := (w >>> 8).toUInt8
@[inline] def b3 (w : UInt32) : UInt8 := w.toUInt8

@[inline] def mkWord (x0 x1 x2 x3 : UInt8) : UInt32 :=
  (x0.toUInt32 <<< 24) ||| (x1.toUInt32 <<< 16) ||| (x2.toUInt32 <<< 8) ||| x3.toUInt32

/-- multiplication by `x` in GF(2^8) modulo `x^8+x^4+x^3+x+1`. -/
@[inline] def xtime (x : UInt8) : UInt8 :=
  (x <<< 1) ^^^ (if x &&& 0x80 != 0 then 0x1b else 0)

/-- MixColumns on one column. -/
@[inline] def mixCol (x0 x1 x2 x3 : UInt8) : UInt32 :=
  let t := x0 ^^^ x1 ^^^ x2 ^^^ x3
  mkWord (x0 ^^^ t ^^^ xtime (x0 ^^^ x1)) (x1 ^^^ t ^^^ xtime (x1 ^^^ x2))
         (x2 ^^^ t ^^^ xtime (x2 ^^^ x3)) (x3 ^^^ t ^^^ xtime (x3 ^^^ x0))

/-- InvMixColumns on one column. -/
@[inline] def invMixCol (x0 x1 x2 x3 : UInt8) : UInt32 :=
  let m9 (x : UInt8) : UInt8 := xtime (xtime (xtime x)) ^^^ x
  let m11 (x : UInt8) : UInt8 := xtime (xtime (xtime x)) ^^^ xtime x ^^^ x
  let m13 (x : UInt8) : UInt8 := xtime (xtime (xtime x)) ^^^ xtime (xtime x) ^^^ x
  let m14 (x : UInt8) : UInt8 := xtime (xtime (xtime x)) ^^^ xtime (xtime x) ^^^ xtime x
  mkWord (m14 x0 ^^^ m11 x1 ^^^ m13 x2 ^^^ m9 x3) (m9 x0 ^^^ m14 x1 ^^^ m11 x2 ^^^ m13 x3)
         (m13 x0 ^^^ m9 x1 ^^^ m14 x2 ^^^ m11 x3) (m11 x0 ^^^ m13 x1 ^^^ m9 x2 ^^^ m14 x3)

@[inline] def subWord (w : UInt32) : UInt32 := mkWord (S (b0 w)) (S (b1 w)) (S (b2 w)) (S (b3 w))

def rcon : Array UInt32 := #[
  0x01000000, 0x02000000, 0x04000000, 0x08000000, 0x10000000,
  0x20000000, 0x40000000, 0x80000000, 0x1b000000, 0x36000000]

/-- first byte of a list (0 if empty) and the rest. -/
@[inline] def next : Bytes → UInt8 × Bytes
  | [] => (0, [])
  | x :: xs => (x, xs)

/-- first four bytes as a big-endian word (zero-extended) and the rest. -/
def nextWord (l : Bytes) : UInt32 × Bytes :=
  let (x0, l) := next l
  let (x1, l) := next l
  let (x2, l) := next l
  let (x3, l) := next l
  (mkWord x0 x1 x2 x3, l)

/-- first 16 bytes as a block (zero-extended) and the rest. -/
def Blk.next (l : Bytes) : Blk × Bytes :=
  let (c0, l) := nextWord l
  let (c1, l) := nextWord l
  let (c2, l) := nextWord l
  let (c3, l) := nextWord l
  (⟨c0, c1, c2, c3⟩, l)

def Blk.ofBytes (l : Bytes) : Blk := (Blk.next l).1

@[inline] def wordBytes (w : UInt32) : Bytes := [b0 w, b1 w, b2 w, b3 w]

def Blk.toBytes (b : Blk) : Bytes :=
  wordBytes b.c0 ++ (wordBytes b.c1 ++ (wordBytes b.c2 ++ wordBytes b.c3))

@[inline] def Blk.xor (x y : Blk) : Blk := ⟨x.c0 ^^^ y.c0, x.c1 ^^^ y.c1, x.c2 ^^^ y.c2, x.c3 ^^^ y.c3⟩

def loadKeyWords : Nat → Bytes → Array UInt32 → Array UInt32
  | 0, _, w => w
  | n+1, l, w => let (x, l) := nextWord l; loadKeyWords n l (w.push x)

/-- `n` further key-schedule words (FIPS-197 §5.2). -/
def expandWords (nk : Nat) : Nat → Array UInt32 → Array UInt32
  | 0, w => w
  | n+1, w =>
    let i := w.size
    let t := w[i-1]!
    let t :=
      if i % nk == 0 then subWord ((t <<< 8) ||| (t >>> 24)) ^^^ rcon[i / nk - 1]!
      else if nk > 6 && i % nk == 4 then subWord t
      else t
    expandWords nk n (w.push (w[i-nk]! ^^^ t))

end Aes

open Aes in
/-- AES key expansion.  Key lengths 16/24/32 give AES-128/192/256; any other length is
    zero-padded / truncated to the nearest of those (Go would return an error). -/
def aesExpandKey (key : Bytes) : Aes.Key :=
  let nk := if key.length ≥ 32 then 8 else if key.length ≥ 24 then 6 else 4
  let nr := nk + 6
  ⟨nr, expandWords nk (4 * (nr + 1) - nk) (loadKeyWords nk key (Array.mkEmpty (4 * (nr + 1))))⟩

namespace Aes

@[inline] def addRoundKey (k : Key) (r : Nat) (s : Blk) : Blk :=
  ⟨s.c0 ^^^ k.w[4*r]!, s.c1 ^^^ k.w[4*r+1]!, s.c2 ^^^ k.w[4*r+2]!, s.c3 ^^^ k.w[4*r+3]!⟩

/-- SubBytes ∘ ShiftRows ∘ MixColumns ∘ AddRoundKey for rounds `r, r+1, …` (`n` of them). -/
def encRounds (k : Key) : Nat → Nat → Blk → Blk
  | 0, _, s => s
  | n+1, r, s =>
    let t : Blk :=
      ⟨mixCol (S (b0 s.c0)) (S (b1 s.c1)) (S (b2 s.c2)) (S (b3 s.c3)),
       mixCol (S (b0 s.c1)) (S (b1 s.c2)) (S (b2 s.c3)) (S (b3 s.c0)),
       mixCol (S (b0 s.c2)) (S (b1 s.c3)) (S (b2 s.c0)) (S (b3 s.c1)),
       mixCol (S (b0 s.c3)) (S (b1 s.c0)) (S (b2 s.c1)) (S (b3 s.c2))⟩
    encRounds k n (r+1) (addRoundKey k r t)

/-- FIPS-197 `Cipher`. -/
def encryptBlk (k : Key) (p : Blk) : Blk :=
  let s := encRounds k (k.nr - 1) 1 (addRoundKey k 0 p)
  addRoundKey k k.nr
    ⟨mkWord (S (b0 s.c0)) (S (b1 s.c1)) (S (b2 s.c2)) (S (b3 s.c3)),
     mkWord (S (b0 s.c1)) (S (b1 s.c2)) (S (b2 s.c3)) (S (b3 s.c0)),
     mkWord (S (b0 s.c2)) (S (b1 s.c3)) (S (b2 s.c0)) (S (b3 s.c1)),
     mkWord (S (b0 s.c3)) (S (b1 s.c0)) (S (b2 s.c1)) (S (b3 s.c2))⟩

/-- InvShiftRows ∘ InvSubBytes. -/
@[inline] def invShiftSub (s : Blk) : Blk :=
  ⟨mkWord (IS (b0 s.c0)) (IS (b1 s.c3)) (IS (b2 s.c2)) (IS (b3 s.c1)),
   mkWord (IS (b0 s.c1)) (IS (b1 s.c0)) (IS (b2 s.c3)) (IS (b3 s.c2)),
   mkWord (IS (b0 s.c2)) (IS (b1 s.c1)) (IS (b2 s.c0)) (IS (b3 s.c3)),
   mkWord (IS (b0 s.c3)) (IS (b1 s.c2)) (IS (b2 s.c1)) (IS (b3 s.c0))⟩

@[inline] def invMixBlk (s : Blk) : Blk :=
  ⟨invMixCol (b0 s.c0) (b1 s.c0) (b2 s.c0) (b3 s.c0), invMixCol (b0 s.c1) (b1 s.c1) (b2 s.c1) (b3 s.c1),
   invMixCol (b0 s.c2) (b1 s.c2) (b2 s.c2) (b3 s.c2), invMixCol (b0 s.c3) (b1 s.c3) (b2 s.c3) (b3 s.c3)⟩

/-- inverse rounds `n, n-1, …, 1`. -/
def decRounds (k : Key) : Nat → Blk → Blk
  | 0, s => s
  | n+1, s => decRounds k n (invMixBlk (addRoundKey k (n+1) (invShiftSub s)))

/-- FIPS-197 `InvCipher`. -/
def decryptBlk (k : Key) (c : Blk) : Blk :=
  addRoundKey k 0 (invShiftSub (decRounds k (k.nr - 1) (addRoundKey k k.nr c)))

/-- CBC encryption of `n` blocks. -/
def cbcEnc (k : Key) : Nat → Blk → Bytes → Bytes
  | 0, _, _ => []
  | n+1, prev, data =>
    let (p, rest) := Blk.next data
    let c := encryptBlk k (p.xor prev)
    c.toBytes ++ cbcEnc k n c rest

/-- CBC decryption of `n` blocks. -/
def cbcDec (k : Key) : Nat → Blk → Bytes → Bytes
  | 0, _, _ => []
  | n+1, prev, data =>
    let (c, rest) := Blk.next data
    ((decryptBlk k c).xor prev).toBytes ++ cbcDec k n c rest

def xorBytes (x y : Bytes) : Bytes := List.zipWith (· ^^^ ·) x y

/-- CFB-128 over `n` chunks of up to 16 bytes; `dec` selects which side feeds back. -/
def cfb (k : Key) (dec : Bool) : Nat → Blk → Bytes → Bytes
  | 0, _, _ => []
  | n+1, prev, data =>
    let inp := data.take 16
    let out := xorBytes inp (encryptBlk k prev).toBytes
    out ++ cfb k dec n (Blk.ofBytes (if dec then inp else out)) (data.drop 16)

end Aes

/-- encrypt one 16-byte block with an expanded key (Go `cipher.Block.Encrypt`). -/
def aesEncryptBlockWith (k : Aes.Key) (block : Bytes) : Bytes :=
  (Aes.encryptBlk k (Aes.Blk.ofBytes block)).toBytes

/-- decrypt one 16-byte block with an expanded key (Go `cipher.Block.Decrypt`). -/
def aesDecryptBlockWith (k : Aes.Key) (block : Bytes) : Bytes :=
  (Aes.decryptBlk k (Aes.Blk.ofBytes block)).toBytes

def aesEncryptBlock (key block : Bytes) : Bytes := aesEncryptBlockWith (aesExpandKey key) block
def aesDecryptBlock (key block : Bytes) : Bytes := aesDecryptBlockWith (aesExpandKey key) block

/-- Go `cipher.NewCBCEncrypter(aes.NewCipher(key), iv).CryptBlocks`; only full blocks are processed. -/
def cbcEncrypt (key iv data : Bytes) : Bytes :=
  Aes.cbcEnc (aesExpandKey key) (data.length / 16) (Aes.Blk.ofBytes iv) data

/-- Go `cipher.NewCBCDecrypter(aes.NewCipher(key), iv).CryptBlocks`; only full blocks are processed. -/
def cbcDecrypt (key iv data : Bytes) : Bytes :=
  Aes.cbcDec (aesExpandKey key) (data.length / 16) (Aes.Blk.ofBytes iv) data

/-- Go `cipher.NewCFBEncrypter(aes.NewCipher(key), iv).XORKeyStream`. -/
def cfbEncrypt (key iv data : Bytes) : Bytes :=
  Aes.cfb (aesExpandKey key) false ((data.length + 15) / 16) (Aes.Blk.ofBytes iv) data

/-- Go `cipher.NewCFBDecrypter(aes.NewCipher(key), iv).XORKeyStream`. -/
def cfbDecrypt (key iv data : Bytes) : Bytes :=
  Aes.cfb (aesExpandKey key) true ((data.length + 15) / 16) (Aes.Blk.ofBytes iv) data

theorem Aes.Blk.toBytes_length (b : Aes.Blk) : b.toBytes.length = 16 := by
  simp [Aes.Blk.toBytes, Aes.wordBytes]

theorem aesEncryptBlock_length (key block : Bytes) : (aesEncryptBlock key block).length = 16 :=
  Aes.Blk.toBytes_length _

theorem aesDecryptBlock_length (key block : Bytes) : (aesDecryptBlock key block).length = 16 :=
  Aes.Blk.toBytes_length _

end GoBk.Hash
