/-
  GoBk.Hash.Sha512 — SHA-512 (FIPS 180-4), bit-exact with Go `crypto/sha512`.
  Core Lean only.  All loops are structural recursion on a `Nat` counter.
-/
import GoBk.Base.Bytes

namespace GoBk.Hash
namespace Sha512

/-- the eight 64-bit chaining words. -/
structure State where
  a : UInt64
  b : UInt64
  c : UInt64
  d : UInt64
  e : UInt64
  f : UInt64
  g : UInt64
  h : UInt64
  deriving Repr, BEq, Inhabited

def init : State :=
  ⟨0x6a09e667f3bcc908, 0xbb67ae8584caa73b, 0x3c6ef372fe94f82b, 0xa54ff53a5f1d36f1,
   0x510e527fade682d1, 0x9b05688c2b3e6c1f, 0x1f83d9abfb41bd6b, 0x5be0cd19137e2179⟩

def K : Array UInt64 := #[
  0x428a2f98d728ae22, 0x7137449123ef65cd, 0xb5c0fbcfec4d3b2f, 0xe9b5dba58189dbbc,
  0x3956c25bf348b538, 0x59f111f1b605d019, 0x923f82a4af194f9b, 0xab1c5ed5da6d8118,
  0xd807aa98a3030242, 0x12835b0145706fbe, 0x243185be4ee4b28c, 0x550c7dc3d5ffb4e2,
  0x72be5d74f27b896f, 0x80deb1fe3b1696b1, 0x9bdc06a725c71235, 0xc19bf174cf692694,
  0xe49b69c19ef14ad2, 0xefbe4786384f25e3, 0x0fc19dc68b8cd5b5, 0x240ca1cc77ac9c65,
  0x2de92c6f592b0275, 0x4a7484aa6ea6e483, 0x5cb0a9dcbd41fbd4, 0x76f988da831153b5,
  0x983e5152ee66dfab, 0xa831c66d2db43210, 0xb00327c898fb213f, 0xbf597fc7beef0ee4,
  0xc6e00bf33da88fc2, 0xd5a79147930aa725, 0x06ca6351e003826f, 0x142929670a0e6e70,
  0x27b70a8546d22ffc, 0x2e1b21385c26c926, 0x4d2c6dfc5ac42aed, 0x53380d139d95b3df,
  0x650a73548baf63de, 0x766a0abb3c77b2a8, 0x81c2c92e47edaee6, 0x92722c851482353b,
  0xa2bfe8a14cf10364, 0xa81a664bbc423001, 0xc24b8b70d0f89791, 0xc76c51a30654be30,
  0xd192e819d6ef5218, 0xd69906245565a910, 0xf40e35855771202a, 0x106aa07032bbd1b8,
  0x19a4c116b8d2d0c8, 0x1e376c085141ab53, 0x2748774cdf8eeb99, 0x34b0bcb5e19b48a8,
  0x391c0cb3c5c95a63, 0x4ed8aa4ae3418acb, 0x5b9cca4f7763e373, 0x682e6ff3d6b2b8a3,
  0x748f82ee5defb2fc, 0x78a5636f43172f60, 0x84c87814a1f0ab72, 0x8cc702081a6439ec,
  0x90befffa23631e28, 0xa4506cebde82bde9, 0xbef9a3f7b2c67915, 0xc67178f2e372532b,
  0xca273eceea26619c, 0xd186b8c721c0c207, 0xeada7dd6cde0eb1e, 0xf57d4f7fee6ed178,
  0x06f067aa72176fba, 0x0a637dc5a2c898a6, 0x113f9804bef90dae, 0x1b710b35131c471b,
  0x28db77f523047d84, 0x32caab7b40c72493, 0x3c9ebe0a15c9bebc, 0x431d67c49c100d4c,
  0x4cc5d4becb3e42b6, 0x597f299cfc657e2a, 0x5fcb6fab3ad6faec, 0x6c44198c4a475817]

@[inline] def rotr (x n : UInt64) : UInt64 := (x >>> n) ||| (x <<< (64 - n))

/-- big-endian 64-bit word at byte offset `i`. -/
@[inline] def be64 (ba : ByteArray) (i : Nat) : UInt64 :=
  ((ba.get! i).toUInt64 <<< 56) ||| ((ba.get! (i+1)).toUInt64 <<< 48) |||
  ((ba.get! (i+2)).toUInt64 <<< 40) ||| ((ba.get! (i+3)).toUInt64 <<< 32) |||
  ((ba.get! (i+4)).toUInt64 <<< 24) ||| ((ba.get! (i+5)).toUInt64 <<< 16) |||
  ((ba.get! (i+6)).toUInt64 <<< 8) ||| (ba.get! (i+7)).toUInt64

/-- push `n` big-endian words starting at byte offset `off`. -/
def loadWords (ba : ByteArray) : Nat → Nat → Array UInt64 → Array UInt64
  | 0, _, w => w
  | n+1, off, w => loadWords ba n (off + 8) (w.push (be64 ba off))

/-- extend a message schedule by `n` further words. -/
def schedule : Nat → Array UInt64 → Array UInt64
  | 0, w => w
  | n+1, w =>
    let i := w.size
    let w15 := w[i-15]!
    let w2 := w[i-2]!
    let s0 := rotr w15 1 ^^^ rotr w15 8 ^^^ (w15 >>> 7)
    let s1 := rotr w2 19 ^^^ rotr w2 61 ^^^ (w2 >>> 6)
    schedule n (w.push (w[i-16]! + s0 + w[i-7]! + s1))

/-- `n` rounds starting at round `i`. -/
def rounds (w : Array UInt64) : Nat → Nat → (a b c d e f g h : UInt64) → State
  | 0, _, a, b, c, d, e, f, g, h => ⟨a, b, c, d, e, f, g, h⟩
  | n+1, i, a, b, c, d, e, f, g, h =>
    let s1 := rotr e 14 ^^^ rotr e 18 ^^^ rotr e 41
    let ch := (e &&& f) ^^^ ((~~~ e) &&& g)
    let t1 := h + s1 + ch + K[i]! + w[i]!
    let s0 := rotr a 28 ^^^ rotr a 34 ^^^ rotr a 39
    let mj := (a &&& b) ^^^ (a &&& c) ^^^ (b &&& c)
    let t2 := s0 + mj
    rounds w n (i+1) (t1 + t2) a b c (d + t1) e f g

/-- the compression function on a 16-word block. -/
def compress (s : State) (w16 : Array UInt64) : State :=
  let w := schedule 64 w16
  let r := rounds w 80 0 s.a s.b s.c s.d s.e s.f s.g s.h
  ⟨s.a + r.a, s.b + r.b, s.c + r.c, s.d + r.d, s.e + r.e, s.f + r.f, s.g + r.g, s.h + r.h⟩

/-- absorb `n` 128-byte blocks of `ba` starting at byte offset `off`. -/
def blocks (ba : ByteArray) : Nat → Nat → State → State
  | 0, _, s => s
  | n+1, off, s => blocks ba n (off + 128) (compress s (loadWords ba 16 off (Array.mkEmpty 80)))

def be128Bytes (n : Nat) : Bytes :=
  [UInt8.ofNat (n >>> 120), UInt8.ofNat (n >>> 112), UInt8.ofNat (n >>> 104), UInt8.ofNat (n >>> 96),
   UInt8.ofNat (n >>> 88), UInt8.ofNat (n >>> 80), UInt8.ofNat (n >>> 72), UInt8.ofNat (n >>> 64),
   UInt8.ofNat (n >>> 56), UInt8.ofNat (n >>> 48), UInt8.ofNat (n >>> 40), UInt8.ofNat (n >>> 32),
   UInt8.ofNat (n >>> 24), UInt8.ofNat (n >>> 16), UInt8.ofNat (n >>> 8), UInt8.ofNat n]

/-- Merkle–Damgård padding of a message tail `b`, where `total` is the byte length of the
    whole message (prefix already absorbed + `b`). -/
def pad (total : Nat) (b : Bytes) : Bytes :=
  b ++ 0x80 :: (List.replicate ((239 - total % 128) % 128) 0 ++ be128Bytes (total * 8))

@[inline] def wordBytes (x : UInt64) : Bytes :=
  [(x >>> 56).toUInt8, (x >>> 48).toUInt8, (x >>> 40).toUInt8, (x >>> 32).toUInt8,
   (x >>> 24).toUInt8, (x >>> 16).toUInt8, (x >>> 8).toUInt8, x.toUInt8]

def State.toBytes (s : State) : Bytes :=
  wordBytes s.a ++ (wordBytes s.b ++ (wordBytes s.c ++ (wordBytes s.d ++
  (wordBytes s.e ++ (wordBytes s.f ++ (wordBytes s.g ++ wordBytes s.h))))))

/-- finish a hash from chaining state `s` that has already absorbed `prefixLen` bytes
    (a multiple of 128), with remaining message `msg`. -/
def finishFrom (s : State) (prefixLen : Nat) (msg : Bytes) : State :=
  let p := (pad (prefixLen + msg.length) msg).toByteArray
  blocks p (p.size / 128) 0 s

end Sha512

/-- SHA-512 digest (Go `sha512.Sum512`). -/
def sha512 (b : Bytes) : Bytes := (Sha512.finishFrom Sha512.init 0 b).toBytes

theorem Sha512.State.toBytes_length (s : Sha512.State) : s.toBytes.length = 64 := by
  simp [Sha512.State.toBytes, Sha512.wordBytes]

theorem sha512_length (b : Bytes) : (sha512 b).length = 64 :=
  Sha512.State.toBytes_length _

end GoBk.Hash
