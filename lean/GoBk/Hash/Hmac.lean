/-
  GoBk.Hash.Hmac — HMAC-SHA256, HMAC-SHA512 (RFC 2104, Go `crypto/hmac`) and
  PBKDF2-HMAC-SHA512 (RFC 2898, `golang.org/x/crypto/pbkdf2.Key(…, sha512.New)`).
  Core Lean only.
-/
import GoBk.Hash.Sha256
import GoBk.Hash.Sha512

namespace GoBk.Hash

/-- HMAC key block: keys longer than the block size are hashed, then zero-padded to `blk`. -/
def hmacKeyBlock (h : Bytes → Bytes) (blk : Nat) (key : Bytes) : Bytes :=
  let k := if key.length > blk then h key else key
  k ++ List.replicate (blk - k.length) 0

def xorConst (c : UInt8) (b : Bytes) : Bytes := b.map (· ^^^ c)

namespace Sha256

/-- chaining states after absorbing `key ⊕ ipad` and `key ⊕ opad`. -/
def hmacStates (key : Bytes) : State × State :=
  let kb := hmacKeyBlock (fun b => (finishFrom init 0 b).toBytes) 64 key
  (blocks (xorConst 0x36 kb).toByteArray 1 0 init, blocks (xorConst 0x5c kb).toByteArray 1 0 init)

def hmacWith (st : State × State) (msg : Bytes) : State :=
  finishFrom st.2 64 (finishFrom st.1 64 msg).toBytes

end Sha256

namespace Sha512

/-- chaining states after absorbing `key ⊕ ipad` and `key ⊕ opad`. -/
def hmacStates (key : Bytes) : State × State :=
  let kb := hmacKeyBlock (fun b => (finishFrom init 0 b).toBytes) 128 key
  (blocks (xorConst 0x36 kb).toByteArray 1 0 init, blocks (xorConst 0x5c kb).toByteArray 1 0 init)

def hmacWith (st : State × State) (msg : Bytes) : State :=
  finishFrom st.2 128 (finishFrom st.1 128 msg).toBytes

/-- the single padded block `digest ‖ 0x80 ‖ 0… ‖ len` for a 64-byte message following a
    128-byte prefix (total 192 bytes = 1536 bits). -/
@[inline] def digestBlock (u : State) : Array UInt64 :=
  ((((((((((((((((Array.mkEmpty 80 : Array UInt64).push u.a).push u.b).push u.c).push u.d).push
    u.e).push u.f).push u.g).push u.h).push 0x8000000000000000).push 0).push 0).push 0).push
    0).push 0).push 0).push 1536

/-- `HMAC(key, u)` for a 64-byte `u` given as a state, with precomputed ipad/opad states:
    exactly two compressions. -/
@[inline] def hmacDigest (ist ost u : State) : State :=
  compress ost (digestBlock (compress ist (digestBlock u)))

@[inline] def State.xor (x y : State) : State :=
  ⟨x.a ^^^ y.a, x.b ^^^ y.b, x.c ^^^ y.c, x.d ^^^ y.d,
   x.e ^^^ y.e, x.f ^^^ y.f, x.g ^^^ y.g, x.h ^^^ y.h⟩

/-- `n` further PBKDF2 iterations: `u ← HMAC(u)`, `t ← t ⊕ u`. -/
def pbkdf2Iter (ist ost : State) : Nat → State → State → State
  | 0, _, t => t
  | n+1, u, t =>
    let u' := hmacDigest ist ost u
    pbkdf2Iter ist ost n u' (t.xor u')

def be32Bytes (n : Nat) : Bytes :=
  [UInt8.ofNat (n >>> 24), UInt8.ofNat (n >>> 16), UInt8.ofNat (n >>> 8), UInt8.ofNat n]

/-- blocks `T_i ‖ T_{i+1} ‖ …` (`n` of them). -/
def pbkdf2Blocks (st : State × State) (salt : Bytes) (iter : Nat) : Nat → Nat → Bytes
  | 0, _ => []
  | n+1, i =>
    let u1 := hmacWith st (salt ++ be32Bytes i)
    (pbkdf2Iter st.1 st.2 (iter - 1) u1 u1).toBytes ++ pbkdf2Blocks st salt iter n (i + 1)

end Sha512

/-- HMAC-SHA256 (Go `hmac.New(sha256.New, key)`). -/
def hmacSha256 (key msg : Bytes) : Bytes := (Sha256.hmacWith (Sha256.hmacStates key) msg).toBytes

/-- HMAC-SHA512 (Go `hmac.New(sha512.New, key)`). -/
def hmacSha512 (key msg : Bytes) : Bytes := (Sha512.hmacWith (Sha512.hmacStates key) msg).toBytes

theorem hmacSha256_length (key msg : Bytes) : (hmacSha256 key msg).length = 32 :=
  Sha256.State.toBytes_length _

theorem hmacSha512_length (key msg : Bytes) : (hmacSha512 key msg).length = 64 :=
  Sha512.State.toBytes_length _

/-- `pbkdf2.Key(password, salt, iter, dkLen, sha512.New)`. -/
def pbkdf2HmacSha512 (password salt : Bytes) (iter dkLen : Nat) : Bytes :=
  (Sha512.pbkdf2Blocks (Sha512.hmacStates password) salt iter ((dkLen + 63) / 64) 1).take dkLen

theorem Sha512.pbkdf2Blocks_length (st : Sha512.State × Sha512.State) (salt : Bytes) (iter n i : Nat) :
    (Sha512.pbkdf2Blocks st salt iter n i).length = 64 * n := by
  induction n generalizing i with
  | zero => rfl
  | succ n ih =>
    simp only [Sha512.pbkdf2Blocks, List.length_append, Sha512.State.toBytes_length, ih]
    omega

theorem pbkdf2HmacSha512_length (password salt : Bytes) (iter dkLen : Nat) :
    (pbkdf2HmacSha512 password salt iter dkLen).length = dkLen := by
  simp only [pbkdf2HmacSha512, List.length_take, Sha512.pbkdf2Blocks_length]
  omega

end GoBk.Hash
