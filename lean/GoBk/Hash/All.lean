/-
  GoBk.Hash.All — umbrella import for the executable hash / cipher library
  (sha256, sha512, ripemd160, hmacSha256, hmacSha512, pbkdf2HmacSha512,
   AES + CBC + CFB, base64).  Core Lean only.
-/
import GoBk.Hash.Sha256
import GoBk.Hash.Sha512
import GoBk.Hash.Ripemd160
import GoBk.Hash.Hmac
import GoBk.Hash.Aes
import GoBk.Hash.Base64
