import GoBk.Model.Wif
import GoBk.Proofs.BytesLemmas
import GoBk.Proofs.Base58Lemmas
/-
  Lemmas for C14 (second half): `DecodeWIF` on the decoded bytes, its exact acceptance condition,
  and `DecodeWIF ∘ WIF.String`.  Core Lean only.
-/
namespace GoBk.Proofs.WifL
open GoBk Bytes

/-- `DecodeWIF` after the base58 decoding step -/
def wifBytes (pr : Prims) (decoded : Bytes) : Option (Nat × Bool × UInt8) :=
  let n := decoded.length
  let kl := Gen.k_privKeyBytesLen
  let comp : Option Bool :=
    if n == 1 + kl + 1 + 4 then
      (if decoded.getD 33 0 != UInt8.ofNat Gen.k_compressMagic then none else some true)
    else if n == 1 + kl + 4 then some false
    else none
  match comp with
  | none => none
  | some compress =>
    let tosum := if compress then decoded.take (1 + kl + 1) else decoded.take (1 + kl)
    let cksum := (pr.sha256d tosum).take 4
    if cksum != decoded.drop (n - 4) then none else
    some (beNat ((decoded.drop 1).take kl), compress, decoded.headD 0)

theorem decodeWIF_eq (pr : Prims) (s : Bytes) : Wif.decodeWIF pr s = wifBytes pr (Base58.decode s) := rfl

/-- the length / marker test -/
def compOf (b : Bytes) : Option Bool :=
  if b.length = 38 then (if b.getD 33 0 = 1 then some true else none)
  else if b.length = 37 then some false else none

/-- the checksum test and the result -/
def finish (pr : Prims) (b : Bytes) (c : Bool) : Option (Nat × Bool × UInt8) :=
  if (pr.sha256d (b.take (if c then 34 else 33))).take 4 = b.drop (b.length - 4) then
    some (beNat ((b.drop 1).take 32), c, b.headD 0)
  else none

theorem wifBytes_eq (pr : Prims) (b : Bytes) :
    wifBytes pr b = match compOf b with
      | none => none
      | some c => finish pr b c := by
  unfold wifBytes compOf finish
  have hm : UInt8.ofNat Gen.k_compressMagic = 1 := rfl
  simp only [Gen.k_privKeyBytesLen, hm]
  by_cases h38 : b.length = 38
  · simp only [h38, if_true]
    by_cases hmk : b.getD 33 0 = 1
    · simp only [List.getD_eq_getElem?_getD] at hmk; simp [hmk]
    · simp only [List.getD_eq_getElem?_getD] at hmk; simp [hmk]
  · have e38 : (b.length == 1 + 32 + 1 + 4) = false := by simp [h38]
    simp only [e38, h38, if_false]
    by_cases h37 : b.length = 37
    · simp [h37]
    · have e37 : (b.length == 1 + 32 + 4) = false := by simp [h37]
      simp [e37, h37]

theorem compOf_eq_some (b : Bytes) (c : Bool) :
    compOf b = some c ↔
      (b.length = 37 ∧ c = false) ∨ (b.length = 38 ∧ c = true ∧ b.getD 33 0 = 1) := by
  unfold compOf
  by_cases h38 : b.length = 38
  · rw [if_pos h38]
    by_cases hmk : b.getD 33 0 = 1
    · rw [if_pos hmk]
      constructor
      · intro h; cases h; exact Or.inr ⟨h38, rfl, hmk⟩
      · rintro (⟨h, _⟩ | ⟨_, rfl, _⟩)
        · omega
        · rfl
    · rw [if_neg hmk]
      constructor
      · intro h; cases h
      · rintro (⟨h, _⟩ | ⟨_, _, h⟩)
        · omega
        · exact absurd h hmk
  · rw [if_neg h38]
    by_cases h37 : b.length = 37
    · rw [if_pos h37]
      constructor
      · intro h; cases h; exact Or.inl ⟨h37, rfl⟩
      · rintro (⟨_, rfl⟩ | ⟨h, _⟩)
        · rfl
        · omega
    · rw [if_neg h37]
      constructor
      · intro h; cases h
      · rintro (⟨h, _⟩ | ⟨h, _⟩) <;> omega

/-- exact acceptance condition of `DecodeWIF` on the decoded bytes -/
theorem wifBytes_eq_some_iff (pr : Prims) (b : Bytes) (d : Nat) (c : Bool) (net : UInt8) :
    wifBytes pr b = some (d, c, net) ↔
      ((b.length = 37 ∧ c = false) ∨ (b.length = 38 ∧ c = true ∧ b.getD 33 0 = 1)) ∧
      b.drop (b.length - 4) = (pr.sha256d (b.take (b.length - 4))).take 4 ∧
      net = b.headD 0 ∧ d = beNat ((b.drop 1).take 32) := by
  rw [wifBytes_eq]
  constructor
  · intro h
    cases hc : compOf b with
    | none => rw [hc] at h; cases h
    | some c' =>
      rw [hc] at h
      have h' : finish pr b c' = some (d, c, net) := h
      unfold finish at h'
      by_cases hck : (pr.sha256d (b.take (if c' then 34 else 33))).take 4 = b.drop (b.length - 4)
      · rw [if_pos hck] at h'
        simp only [Option.some.injEq, Prod.mk.injEq] at h'
        obtain ⟨rfl, rfl, rfl⟩ := h'
        have hcc := (compOf_eq_some b c').1 hc
        refine ⟨hcc, ?_, rfl, rfl⟩
        rcases hcc with ⟨hl, rfl⟩ | ⟨hl, rfl, _⟩
        · rw [hl]; rw [hl] at hck; exact hck.symm
        · rw [hl]; rw [hl] at hck; exact hck.symm
      · rw [if_neg hck] at h'; cases h'
  · rintro ⟨hcc, hck, rfl, rfl⟩
    rw [(compOf_eq_some b c).2 hcc]
    show finish pr b c = _
    unfold finish
    have : (pr.sha256d (b.take (if c then 34 else 33))).take 4 = b.drop (b.length - 4) := by
      rcases hcc with ⟨hl, rfl⟩ | ⟨hl, rfl, _⟩
      · rw [hl] at hck; rw [hl]; exact hck.symm
      · rw [hl] at hck; rw [hl]; exact hck.symm
    rw [if_pos this]

theorem wifBytes_eq_none_iff (pr : Prims) (b : Bytes) :
    wifBytes pr b = none ↔
      ¬ ((b.length = 37 ∨ (b.length = 38 ∧ b.getD 33 0 = 1)) ∧
         b.drop (b.length - 4) = (pr.sha256d (b.take (b.length - 4))).take 4) := by
  constructor
  · rintro hn ⟨hl, hck⟩
    rcases hl with hl | ⟨hl, hm⟩
    · have := (wifBytes_eq_some_iff pr b _ false _).2 ⟨Or.inl ⟨hl, rfl⟩, hck, rfl, rfl⟩
      rw [hn] at this; cases this
    · have := (wifBytes_eq_some_iff pr b _ true _).2 ⟨Or.inr ⟨hl, rfl, hm⟩, hck, rfl, rfl⟩
      rw [hn] at this; cases this
  · intro hn
    cases h : wifBytes pr b with
    | none => rfl
    | some x =>
      obtain ⟨d, c, net⟩ := x
      obtain ⟨hcc, hck, _, _⟩ := (wifBytes_eq_some_iff pr b d c net).1 h
      exfalso; apply hn
      refine ⟨?_, hck⟩
      rcases hcc with ⟨hl, _⟩ | ⟨hl, _, hm⟩
      · exact Or.inl hl
      · exact Or.inr ⟨hl, hm⟩

/-! ### the bytes `WIF.String` encodes -/

/-- `netID ‖ 32-byte key ‖ [01 if compressed]` -/
def wifBody (d : Nat) (c : Bool) (net : UInt8) : Bytes :=
  [net] ++ natBEpad 32 d ++ (if c then [0x01] else [])

/-- body ‖ first four bytes of its double SHA-256 -/
def wifPayload (pr : Prims) (d : Nat) (c : Bool) (net : UInt8) : Bytes :=
  wifBody d c net ++ (pr.sha256d (wifBody d c net)).take 4

theorem wifString_eq (pr : Prims) (d : Nat) (c : Bool) (net : UInt8) :
    Wif.wifString pr d c net = Base58.encode (wifPayload pr d c net) := by
  unfold Wif.wifString wifPayload wifBody
  cases c <;> simp [Gen.k_privKeyBytesLen, Gen.k_compressMagic]

theorem wifBody_length (d : Nat) (hd : d < 2 ^ 256) (c : Bool) (net : UInt8) :
    (wifBody d c net).length = if c then 34 else 33 := by
  have hl : (natBEpad 32 d).length = 32 := natBEpad_length _ _ (by
    have : (256 : Nat) ^ 32 = 2 ^ 256 := by decide
    omega)
  unfold wifBody
  cases c <;> simp [hl]

theorem wifBytes_wifPayload (pr : Prims) (h : ∀ x, (pr.sha256 x).length = 32) (d : Nat)
    (hd : d < 2 ^ 256) (c : Bool) (net : UInt8) :
    wifBytes pr (wifPayload pr d c net) = some (d, c, net) := by
  have hl : (natBEpad 32 d).length = 32 := natBEpad_length _ _ (by
    have : (256 : Nat) ^ 32 = 2 ^ 256 := by decide
    omega)
  have hbl := wifBody_length d hd c net
  have hck : ((pr.sha256d (wifBody d c net)).take 4).length = 4 := by
    simp [Prims.sha256d, h]
  have hlen : (wifPayload pr d c net).length = (wifBody d c net).length + 4 := by
    simp [wifPayload, hck]
  have htake : (wifPayload pr d c net).take ((wifPayload pr d c net).length - 4) = wifBody d c net := by
    rw [hlen, Nat.add_sub_cancel]; exact List.take_left
  have hdrop : (wifPayload pr d c net).drop ((wifPayload pr d c net).length - 4) =
      (pr.sha256d (wifBody d c net)).take 4 := by
    rw [hlen, Nat.add_sub_cancel]; exact List.drop_left
  rw [wifBytes_eq_some_iff]
  refine ⟨?_, by rw [hdrop, htake], ?_, ?_⟩
  · cases c
    · left; rw [hlen, hbl]; exact ⟨rfl, rfl⟩
    · right; rw [hlen, hbl]
      refine ⟨rfl, rfl, ?_⟩
      show ((([net] ++ natBEpad 32 d ++ [0x01]) ++ _ : Bytes)).getD 33 0 = 1
      rw [List.getD_eq_getElem?_getD, List.getElem?_append_left (by simp [hl]),
        List.getElem?_append_right (by simp [hl])]
      simp [hl]
  · simp [wifPayload, wifBody]
  · have : ((wifPayload pr d c net).drop 1).take 32 = natBEpad 32 d := by
      simp only [wifPayload, wifBody, List.cons_append, List.nil_append, List.drop_succ_cons,
        List.drop_zero, List.append_assoc]
      exact List.take_left' hl
    rw [this, beNat_natBEpad]

/-- conversely, accepted bytes ARE the payload of their result -/
theorem wifBytes_some_imp (pr : Prims) (b : Bytes) (d : Nat) (c : Bool) (net : UInt8)
    (h : wifBytes pr b = some (d, c, net)) : b = wifPayload pr d c net ∧ d < 2 ^ 256 := by
  obtain ⟨hcc, hck, rfl, rfl⟩ := (wifBytes_eq_some_iff pr b d c net).1 h
  have hlen32 : ((b.drop 1).take 32).length = 32 := by
    rcases hcc with ⟨hl, _⟩ | ⟨hl, _, _⟩ <;> simp [hl]
  have hpad : natBEpad 32 (beNat ((b.drop 1).take 32)) = (b.drop 1).take 32 := by
    have := natBEpad_beNat ((b.drop 1).take 32)
    rwa [hlen32] at this
  have hlt : beNat ((b.drop 1).take 32) < 2 ^ 256 := by
    have := beNat_lt ((b.drop 1).take 32)
    rw [hlen32] at this
    have e : (256 : Nat) ^ 32 = 2 ^ 256 := by decide
    omega
  refine ⟨?_, hlt⟩
  have hne : b ≠ [] := by
    intro e; subst e
    rcases hcc with ⟨hl, _⟩ | ⟨hl, _, _⟩ <;> simp at hl
  obtain ⟨x, r, rfl⟩ := List.exists_cons_of_ne_nil hne
  simp only [List.headD_cons, List.drop_succ_cons, List.drop_zero] at hpad hck ⊢
  have hbody : (x :: r).take ((x :: r).length - 4) = wifBody (beNat (r.take 32)) c x := by
    unfold wifBody
    rw [hpad]
    rcases hcc with ⟨hl, rfl⟩ | ⟨hl, rfl, hm⟩
    · have hr : r.length = 36 := by simpa using hl
      rw [hl]
      simp only [Bool.false_eq_true, if_false, List.append_nil, List.cons_append, List.nil_append]
      show x :: r.take 32 = x :: r.take 32
      rfl
    · have hr : r.length = 37 := by simpa using hl
      rw [hl]
      simp only [if_true, List.cons_append, List.nil_append]
      show x :: r.take 33 = x :: (r.take 32 ++ [1])
      congr 1
      have h33 : r.getD 32 0 = 1 := by simpa using hm
      rw [List.take_add_one]
      congr 1
      rw [List.getD_eq_getElem?_getD] at h33
      have hlt : 32 < r.length := by omega
      rw [List.getElem?_eq_getElem hlt] at h33 ⊢
      simp only [Option.getD_some] at h33
      simp [h33]
  unfold wifPayload
  rw [← hbody, ← hck]
  exact (List.take_append_drop _ _).symm

end GoBk.Proofs.WifL
