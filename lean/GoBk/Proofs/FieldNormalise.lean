/-
  GoBk.Proofs.FieldNormalise — C10, first half: `Normalise` (generated `GoBk.Gen.Field.normalise`).

  * `normalise_nowrap`     no 32-bit intermediate of Normalise wraps when every input word is
                           ≤ 2^32 - 2^21 (machine result = exact twin, word by word);
  * `normalise_canonical`  the result is the canonical representation of `f.val % P`;
  * `normalise_of_magLe`   the same for `MagLe 32` (indeed `MagLe 62`);
  * `canonical_unique`, `equals_iff`, `isZero_iff`, `isOdd_iff`  — Equals / IsZero / IsOdd on
    canonical representations decide equality / zero / parity of the represented integers.
  Core Lean only.
-/
import GoBk.Proofs.FieldDefs
import GoBk.Proofs.FieldTactics

set_option linter.unusedSimpArgs false
set_option linter.unusedVariables false

namespace GoBk.Proofs.Field
open GoBk.Gen.Field

/-! ### no wrap-around -/

/-- every word ≤ 2^32 - 2^21 = 4292870144 -/
def NormPre (f : FV) : Prop :=
  f.n0.toNat ≤ 4292870144 ∧ f.n1.toNat ≤ 4292870144 ∧ f.n2.toNat ≤ 4292870144 ∧
  f.n3.toNat ≤ 4292870144 ∧ f.n4.toNat ≤ 4292870144 ∧ f.n5.toNat ≤ 4292870144 ∧
  f.n6.toNat ≤ 4292870144 ∧ f.n7.toNat ≤ 4292870144 ∧ f.n8.toNat ≤ 4292870144 ∧
  f.n9.toNat ≤ 4292870144

instance (f : FV) : Decidable (NormPre f) := by unfold NormPre; infer_instance

theorem normPre_bound : (4292870144 : Nat) = 2^32 - 2^21 := by
  simp only [Nat.reducePow, Nat.reduceSub]

theorem MagLe.normPre {f : FV} (h : MagLe 62 f) : NormPre f := by
  unfold MagLe at h; unfold NormPre; omega

set_option maxHeartbeats 1000000 in
/-- No `uint32` intermediate of `Normalise` wraps: every `let` of the machine version has the
value of the corresponding `let` of the exact version (lock-step simulation, `sim_lets`). -/
theorem normalise_nowrap (f : FV) (h : NormPre f) : (normalise f).toN = normalise_exact f.toN := by
  rcases f with ⟨a0,a1,a2,a3,a4,a5,a6,a7,a8,a9⟩
  obtain ⟨h0,h1,h2,h3,h4,h5,h6,h7,h8,h9⟩ := h
  simp only at h0 h1 h2 h3 h4 h5 h6 h7 h8 h9
  unfold normalise normalise_exact
  simp -zeta only [FV.toN, Nat.and_zero, Nat.or_zero, or_one_eq]
  extract_lets -merge
  lets_to_eqs
  sim_lets using
    first | omega | (split <;> (try split) <;> omega)

/-! ### the exact chain computes `val % P` canonically (pure `Nat` reasoning) -/

theorem and_eq_mask {x y : Nat} (hx : x ≤ 67108863) (hy : y ≤ 67108863) :
    x &&& y = 67108863 ↔ x = 67108863 ∧ y = 67108863 := by
  constructor
  · intro h
    have h1 : x &&& y ≤ x := Nat.and_le_left
    have h2 : x &&& y ≤ y := Nat.and_le_right
    omega
  · rintro ⟨rfl, rfl⟩; exact Nat.and_self _

theorem and7_eq_mask {x2 x3 x4 x5 x6 x7 x8 : Nat}
    (h2 : x2 ≤ 67108863) (h3 : x3 ≤ 67108863) (h4 : x4 ≤ 67108863) (h5 : x5 ≤ 67108863)
    (h6 : x6 ≤ 67108863) (h7 : x7 ≤ 67108863) (h8 : x8 ≤ 67108863) :
    ((((((x2 &&& x3) &&& x4) &&& x5) &&& x6) &&& x7) &&& x8) = 67108863 ↔
    x2 = 67108863 ∧ x3 = 67108863 ∧ x4 = 67108863 ∧ x5 = 67108863 ∧ x6 = 67108863 ∧
    x7 = 67108863 ∧ x8 = 67108863 := by
  have l3 : x2 &&& x3 ≤ 67108863 := Nat.le_trans Nat.and_le_right h3
  have l4 : x2 &&& x3 &&& x4 ≤ 67108863 := Nat.le_trans Nat.and_le_right h4
  have l5 : x2 &&& x3 &&& x4 &&& x5 ≤ 67108863 := Nat.le_trans Nat.and_le_right h5
  have l6 : x2 &&& x3 &&& x4 &&& x5 &&& x6 ≤ 67108863 := Nat.le_trans Nat.and_le_right h6
  have l7 : x2 &&& x3 &&& x4 &&& x5 &&& x6 &&& x7 ≤ 67108863 := Nat.le_trans Nat.and_le_right h7
  rw [and_eq_mask l7 h8, and_eq_mask l6 h7, and_eq_mask l5 h6, and_eq_mask l4 h5, and_eq_mask l3 h4,
    and_eq_mask h2 h3]
  simp only [and_assoc]

/-- pass 1 of Normalise: fold the overflow `m = n9 >> 22` back (value decreases by `m·P`) and
propagate carries; afterwards words 0..8 < 2^26 and word 9 < 2^22 + 64. -/
theorem norm_pass1 {a0 a1 a2 a3 a4 a5 a6 a7 a8 a9 : Nat}
    (h0 : a0 ≤ 4292870144) (h1 : a1 ≤ 4292870144) (h2 : a2 ≤ 4292870144) (h3 : a3 ≤ 4292870144)
    (h4 : a4 ≤ 4292870144) (h5 : a5 ≤ 4292870144) (h6 : a6 ≤ 4292870144) (h7 : a7 ≤ 4292870144)
    (h8 : a8 ≤ 4292870144) (h9 : a9 ≤ 4292870144)
    {t9_0 m_0 t9_1 t0_0 t1_0 t0_1 t2_0 t1_1 t3_0 t2_1 t4_0 t3_1 t5_0 t4_1 t6_0 t5_1 t7_0 t6_1 t8_0 t7_1 t9_2 t8_1 : Nat}
    (e0 : t9_0 = a9)
    (e1 : m_0 = t9_0 / 4194304)
    (e2 : t9_1 = t9_0 % 4194304)
    (e3 : t0_0 = a0 + (m_0 * 977))
    (e4 : t1_0 = ((t0_0 / 67108864) + a1) + (m_0 * 64))
    (e5 : t0_1 = t0_0 % 67108864)
    (e6 : t2_0 = (t1_0 / 67108864) + a2)
    (e7 : t1_1 = t1_0 % 67108864)
    (e8 : t3_0 = (t2_0 / 67108864) + a3)
    (e9 : t2_1 = t2_0 % 67108864)
    (e10 : t4_0 = (t3_0 / 67108864) + a4)
    (e11 : t3_1 = t3_0 % 67108864)
    (e12 : t5_0 = (t4_0 / 67108864) + a5)
    (e13 : t4_1 = t4_0 % 67108864)
    (e14 : t6_0 = (t5_0 / 67108864) + a6)
    (e15 : t5_1 = t5_0 % 67108864)
    (e16 : t7_0 = (t6_0 / 67108864) + a7)
    (e17 : t6_1 = t6_0 % 67108864)
    (e18 : t8_0 = (t7_0 / 67108864) + a8)
    (e19 : t7_1 = t7_0 % 67108864)
    (e20 : t9_2 = (t8_0 / 67108864) + t9_1)
    (e21 : t8_1 = t8_0 % 67108864) :
    t0_1 ≤ 67108863 ∧ t1_1 ≤ 67108863 ∧ t2_1 ≤ 67108863 ∧ t3_1 ≤ 67108863 ∧ t4_1 ≤ 67108863 ∧
    t5_1 ≤ 67108863 ∧ t6_1 ≤ 67108863 ∧ t7_1 ≤ 67108863 ∧ t8_1 ≤ 67108863 ∧ t9_2 ≤ 4194367 ∧
    t0_1 + t1_1 * 67108864 + t2_1 * 4503599627370496 + t3_1 * 302231454903657293676544
      + t4_1 * 20282409603651670423947251286016 + t5_1 * 1361129467683753853853498429727072845824
      + t6_1 * 91343852333181432387730302044767688728495783936
      + t7_1 * 6129982163463555433433388108601236734474956488734408704
      + t8_1 * 411376139330301510538742295639337626245683966408394965837152256
      + t9_2 * 27606985387162255149739023449108101809804435888681546220650096895197184
      + m_0 * 115792089237316195423570985008687907853269984665640564039457584007908834671663
    = a0 + a1 * 67108864 + a2 * 4503599627370496 + a3 * 302231454903657293676544
      + a4 * 20282409603651670423947251286016 + a5 * 1361129467683753853853498429727072845824
      + a6 * 91343852333181432387730302044767688728495783936
      + a7 * 6129982163463555433433388108601236734474956488734408704
      + a8 * 411376139330301510538742295639337626245683966408394965837152256
      + a9 * 27606985387162255149739023449108101809804435888681546220650096895197184 := by
  omega

/-- the constant-time flag of pass 2: `m = 1` iff the pass-1 value is ≥ P. -/
theorem norm_flag {t0_1 t1_1 t2_1 t3_1 t4_1 t5_1 t6_1 t7_1 t8_1 t9_2 m_1 m_2 m_3 m_4 m_5 : Nat}
    (b2 : t2_1 ≤ 67108863) (b3 : t3_1 ≤ 67108863) (b4 : t4_1 ≤ 67108863) (b5 : t5_1 ≤ 67108863)
    (b6 : t6_1 ≤ 67108863) (b7 : t7_1 ≤ 67108863) (b8 : t8_1 ≤ 67108863)
    (e22 : m_1 = 1)
    (e23 : m_2 = if t9_2 = 4194303 then (m_1 % 2) else (m_1 &&& 0))
    (e24 : m_3 = if ((((((t2_1 &&& t3_1) &&& t4_1) &&& t5_1) &&& t6_1) &&& t7_1) &&& t8_1) = 67108863 then (m_2 % 2) else (m_2 &&& 0))
    (e25 : m_4 = if ((((t0_1 + 977) / 67108864) + t1_1) + 64) > 67108863 then (m_3 % 2) else (m_3 &&& 0))
    (e26 : m_5 = if (t9_2 / 4194304) ≠ 0 then (m_4 ||| 1) else (m_4 ||| 0)) :
    (m_5 = 1 ∧ (t9_2 ≥ 4194304 ∨ (t9_2 = 4194303 ∧ t2_1 = 67108863 ∧ t3_1 = 67108863 ∧
        t4_1 = 67108863 ∧ t5_1 = 67108863 ∧ t6_1 = 67108863 ∧ t7_1 = 67108863 ∧ t8_1 = 67108863 ∧
        (t0_1 + 977) / 67108864 + t1_1 + 64 > 67108863))) ∨
    (m_5 = 0 ∧ t9_2 < 4194304 ∧ ¬ (t9_2 = 4194303 ∧ t2_1 = 67108863 ∧ t3_1 = 67108863 ∧
        t4_1 = 67108863 ∧ t5_1 = 67108863 ∧ t6_1 = 67108863 ∧ t7_1 = 67108863 ∧ t8_1 = 67108863 ∧
        (t0_1 + 977) / 67108864 + t1_1 + 64 > 67108863)) := by
  subst e22
  have hc2 := and7_eq_mask b2 b3 b4 b5 b6 b7 b8
  by_cases c1 : t9_2 = 4194303 <;> (first | rw [if_pos c1] at e23 | rw [if_neg c1] at e23) <;>
  by_cases c2 : ((((((t2_1 &&& t3_1) &&& t4_1) &&& t5_1) &&& t6_1) &&& t7_1) &&& t8_1) = 67108863 <;>
  (first | rw [if_pos c2] at e24 | rw [if_neg c2] at e24) <;>
  by_cases c3 : (t0_1 + 977) / 67108864 + t1_1 + 64 > 67108863 <;>
  (first | rw [if_pos c3] at e25 | rw [if_neg c3] at e25) <;>
  by_cases c4 : t9_2 / 4194304 ≠ 0 <;>
  (first | rw [if_pos c4] at e26 | rw [if_neg c4] at e26) <;>
  (try simp only [Nat.and_zero, Nat.or_zero, or_one_eq] at e23 e24 e25 e26) <;>
  omega

/-- pass 2 of Normalise: subtract P once iff the flag is set; the result is < P and canonical. -/
theorem norm_pass2 {t0_1 t1_1 t2_1 t3_1 t4_1 t5_1 t6_1 t7_1 t8_1 t9_2 m_5 : Nat}
    (b0 : t0_1 ≤ 67108863) (b1 : t1_1 ≤ 67108863)
    (b2 : t2_1 ≤ 67108863) (b3 : t3_1 ≤ 67108863) (b4 : t4_1 ≤ 67108863) (b5 : t5_1 ≤ 67108863)
    (b6 : t6_1 ≤ 67108863) (b7 : t7_1 ≤ 67108863) (b8 : t8_1 ≤ 67108863) (b9 : t9_2 ≤ 4194367)
    (hflag : (m_5 = 1 ∧ (t9_2 ≥ 4194304 ∨ (t9_2 = 4194303 ∧ t2_1 = 67108863 ∧ t3_1 = 67108863 ∧
        t4_1 = 67108863 ∧ t5_1 = 67108863 ∧ t6_1 = 67108863 ∧ t7_1 = 67108863 ∧ t8_1 = 67108863 ∧
        (t0_1 + 977) / 67108864 + t1_1 + 64 > 67108863))) ∨
      (m_5 = 0 ∧ t9_2 < 4194304 ∧ ¬ (t9_2 = 4194303 ∧ t2_1 = 67108863 ∧ t3_1 = 67108863 ∧
        t4_1 = 67108863 ∧ t5_1 = 67108863 ∧ t6_1 = 67108863 ∧ t7_1 = 67108863 ∧ t8_1 = 67108863 ∧
        (t0_1 + 977) / 67108864 + t1_1 + 64 > 67108863)))
    {t0_2 t1_2 t0_3 t2_2 t1_3 t3_2 t2_3 t4_2 t3_3 t5_2 t4_3 t6_2 t5_3 t7_2 t6_3 t8_2 t7_3 t9_3 t8_3 t9_4 : Nat}
    (e27 : t0_2 = t0_1 + (m_5 * 977))
    (e28 : t1_2 = ((t0_2 / 67108864) + t1_1) + (m_5 * 64))
    (e29 : t0_3 = t0_2 % 67108864)
    (e30 : t2_2 = (t1_2 / 67108864) + t2_1)
    (e31 : t1_3 = t1_2 % 67108864)
    (e32 : t3_2 = (t2_2 / 67108864) + t3_1)
    (e33 : t2_3 = t2_2 % 67108864)
    (e34 : t4_2 = (t3_2 / 67108864) + t4_1)
    (e35 : t3_3 = t3_2 % 67108864)
    (e36 : t5_2 = (t4_2 / 67108864) + t5_1)
    (e37 : t4_3 = t4_2 % 67108864)
    (e38 : t6_2 = (t5_2 / 67108864) + t6_1)
    (e39 : t5_3 = t5_2 % 67108864)
    (e40 : t7_2 = (t6_2 / 67108864) + t7_1)
    (e41 : t6_3 = t6_2 % 67108864)
    (e42 : t8_2 = (t7_2 / 67108864) + t8_1)
    (e43 : t7_3 = t7_2 % 67108864)
    (e44 : t9_3 = (t8_2 / 67108864) + t9_2)
    (e45 : t8_3 = t8_2 % 67108864)
    (e46 : t9_4 = t9_3 % 4194304) :
    t0_3 < 67108864 ∧ t1_3 < 67108864 ∧ t2_3 < 67108864 ∧ t3_3 < 67108864 ∧ t4_3 < 67108864 ∧
    t5_3 < 67108864 ∧ t6_3 < 67108864 ∧ t7_3 < 67108864 ∧ t8_3 < 67108864 ∧ t9_4 < 4194304 ∧
    (t0_3 + t1_3 * 67108864 + t2_3 * 4503599627370496 + t3_3 * 302231454903657293676544 + t4_3 * 20282409603651670423947251286016 + t5_3 * 1361129467683753853853498429727072845824 + t6_3 * 91343852333181432387730302044767688728495783936 + t7_3 * 6129982163463555433433388108601236734474956488734408704 + t8_3 * 411376139330301510538742295639337626245683966408394965837152256 + t9_4 * 27606985387162255149739023449108101809804435888681546220650096895197184) + m_5 * 115792089237316195423570985008687907853269984665640564039457584007908834671663 = (t0_1 + t1_1 * 67108864 + t2_1 * 4503599627370496 + t3_1 * 302231454903657293676544 + t4_1 * 20282409603651670423947251286016 + t5_1 * 1361129467683753853853498429727072845824 + t6_1 * 91343852333181432387730302044767688728495783936 + t7_1 * 6129982163463555433433388108601236734474956488734408704 + t8_1 * 411376139330301510538742295639337626245683966408394965837152256 + t9_2 * 27606985387162255149739023449108101809804435888681546220650096895197184) ∧
    (t0_3 + t1_3 * 67108864 + t2_3 * 4503599627370496 + t3_3 * 302231454903657293676544 + t4_3 * 20282409603651670423947251286016 + t5_3 * 1361129467683753853853498429727072845824 + t6_3 * 91343852333181432387730302044767688728495783936 + t7_3 * 6129982163463555433433388108601236734474956488734408704 + t8_3 * 411376139330301510538742295639337626245683966408394965837152256 + t9_4 * 27606985387162255149739023449108101809804435888681546220650096895197184) < 115792089237316195423570985008687907853269984665640564039457584007908834671663 := by
  rcases hflag with ⟨hm, h | h⟩ | ⟨hm, h⟩ <;> subst hm <;> omega

set_option maxHeartbeats 1000000 in
/-- the exact twin of Normalise returns the canonical representation of `val % P`. -/
theorem normalise_exact_spec (a : FN)
    (h0 : a.n0 ≤ 4292870144) (h1 : a.n1 ≤ 4292870144) (h2 : a.n2 ≤ 4292870144)
    (h3 : a.n3 ≤ 4292870144) (h4 : a.n4 ≤ 4292870144) (h5 : a.n5 ≤ 4292870144)
    (h6 : a.n6 ≤ 4292870144) (h7 : a.n7 ≤ 4292870144) (h8 : a.n8 ≤ 4292870144)
    (h9 : a.n9 ≤ 4292870144) :
    (normalise_exact a).n0 < 67108864 ∧ (normalise_exact a).n1 < 67108864 ∧
    (normalise_exact a).n2 < 67108864 ∧ (normalise_exact a).n3 < 67108864 ∧
    (normalise_exact a).n4 < 67108864 ∧ (normalise_exact a).n5 < 67108864 ∧
    (normalise_exact a).n6 < 67108864 ∧ (normalise_exact a).n7 < 67108864 ∧
    (normalise_exact a).n8 < 67108864 ∧ (normalise_exact a).n9 < 4194304 ∧
    (normalise_exact a).val = a.val % P := by
  rcases a with ⟨a0,a1,a2,a3,a4,a5,a6,a7,a8,a9⟩
  simp only at h0 h1 h2 h3 h4 h5 h6 h7 h8 h9
  unfold normalise_exact
  extract_lets -merge
  lets_to_eqs
  obtain ⟨b0,b1,b2,b3,b4,b5,b6,b7,b8,b9,hv1⟩ :=
    norm_pass1 h0 h1 h2 h3 h4 h5 h6 h7 h8 h9 hlet_0 hlet_1 hlet_2 hlet_3 hlet_4 hlet_5 hlet_6 hlet_7 hlet_8 hlet_9 hlet_10 hlet_11 hlet_12 hlet_13 hlet_14 hlet_15 hlet_16 hlet_17 hlet_18 hlet_19 hlet_20 hlet_21
  have fl := norm_flag b2 b3 b4 b5 b6 b7 b8 hlet_22 hlet_23 hlet_24 hlet_25 hlet_26
  obtain ⟨c0,c1,c2,c3,c4,c5,c6,c7,c8,c9,hv2,hlt⟩ :=
    norm_pass2 b0 b1 b2 b3 b4 b5 b6 b7 b8 b9 fl hlet_27 hlet_28 hlet_29 hlet_30 hlet_31 hlet_32 hlet_33 hlet_34 hlet_35 hlet_36 hlet_37 hlet_38 hlet_39 hlet_40 hlet_41 hlet_42 hlet_43 hlet_44 hlet_45 hlet_46
  subst hlet_47 hlet_48 hlet_49 hlet_50 hlet_51 hlet_52 hlet_53 hlet_54 hlet_55 hlet_56
  simp only [FN.val, P_eq, Nat.reducePow]
  refine ⟨c0,c1,c2,c3,c4,c5,c6,c7,c8,c9,?_⟩
  omega

/-- **C10, Normalise.**  If every word is ≤ 2^32 - 2^21 then `Normalise` returns the canonical
representation of the same value mod P: words 0..8 < 2^26, word 9 < 2^22 and value `f.val % P`
(hence < P). -/
theorem normalise_canonical (f : FV) (h : NormPre f) :
    (normalise f).val = f.val % P ∧ Canon (normalise f) := by
  have hw := normalise_nowrap f h
  obtain ⟨h0,h1,h2,h3,h4,h5,h6,h7,h8,h9⟩ := h
  have hs := normalise_exact_spec f.toN h0 h1 h2 h3 h4 h5 h6 h7 h8 h9
  rw [← hw] at hs
  obtain ⟨c0,c1,c2,c3,c4,c5,c6,c7,c8,c9,hv⟩ := hs
  exact ⟨hv, c0, c1, c2, c3, c4, c5, c6, c7, c8, c9⟩

theorem normalise_val_lt (f : FV) (h : NormPre f) : (normalise f).val < P := by
  rw [(normalise_canonical f h).1]
  exact Nat.mod_lt _ (by rw [P_eq]; decide)

/-- the documented use: magnitude up to 32 (in fact up to 62). -/
theorem normalise_of_magLe (f : FV) (h : MagLe 32 f) :
    (normalise f).val = f.val % P ∧ Canon (normalise f) ∧ (normalise f).val < P :=
  have hp := (h.mono (by decide : 32 ≤ 62)).normPre
  ⟨(normalise_canonical f hp).1, (normalise_canonical f hp).2, normalise_val_lt f hp⟩

theorem normalise_of_magLe62 (f : FV) (h : MagLe 62 f) :
    (normalise f).val = f.val % P ∧ Canon (normalise f) ∧ (normalise f).val < P :=
  ⟨(normalise_canonical f h.normPre).1, (normalise_canonical f h.normPre).2, normalise_val_lt f h.normPre⟩

/-- non-vacuity: `exB` has magnitude 2 and is not canonical; the value P itself (all-ones words,
the boundary of the final conditional subtraction) normalises to zero. -/
example : (normalise exB).val = exB.val % P ∧ Canon (normalise exB) :=
  normalise_canonical exB (by decide)
def exP : FV := ⟨0x3fffc2f, 0x3ffffbf, 0x3ffffff, 0x3ffffff, 0x3ffffff, 0x3ffffff, 0x3ffffff, 0x3ffffff, 0x3ffffff, 0x3fffff⟩
example : normalise exP = zero := by decide
example : (normalise exP).val = exP.val % P := (normalise_canonical exP (by decide)).1

/-! ### canonical representations are unique; Equals / IsZero / IsOdd -/

/-- a canonical representation is determined by its value (mixed-radix uniqueness). -/
theorem canonical_unique {f g : FV} (hf : Canon f) (hg : Canon g) (h : f.val = g.val) : f = g := by
  rcases f with ⟨a0,a1,a2,a3,a4,a5,a6,a7,a8,a9⟩
  rcases g with ⟨b0,b1,b2,b3,b4,b5,b6,b7,b8,b9⟩
  simp only [Canon] at hf hg
  simp only [FV.val, Nat.reducePow] at h
  have e : a0.toNat = b0.toNat ∧ a1.toNat = b1.toNat ∧ a2.toNat = b2.toNat ∧ a3.toNat = b3.toNat ∧
      a4.toNat = b4.toNat ∧ a5.toNat = b5.toNat ∧ a6.toNat = b6.toNat ∧ a7.toNat = b7.toNat ∧
      a8.toNat = b8.toNat ∧ a9.toNat = b9.toNat := by omega
  obtain ⟨e0,e1,e2,e3,e4,e5,e6,e7,e8,e9⟩ := e
  rw [UInt32.toNat_inj] at e0 e1 e2 e3 e4 e5 e6 e7 e8 e9
  subst e0 e1 e2 e3 e4 e5 e6 e7 e8 e9
  rfl

/-- `Equals` is word-wise equality (no hypothesis needed). -/
theorem equals_eq (f g : FV) : equals f g = true ↔ f = g := by
  rcases f with ⟨a0,a1,a2,a3,a4,a5,a6,a7,a8,a9⟩
  rcases g with ⟨b0,b1,b2,b3,b4,b5,b6,b7,b8,b9⟩
  simp only [equals, decide_eq_true_eq, UInt32.or_eq_zero_iff, UInt32.xor_eq_zero_iff, FV.mk.injEq,
    and_assoc]

/-- on canonical operands `Equals` decides equality of the represented integers. -/
theorem equals_iff {f g : FV} (hf : Canon f) (hg : Canon g) : equals f g = true ↔ f.val = g.val := by
  rw [equals_eq]
  exact ⟨fun h => h ▸ rfl, canonical_unique hf hg⟩

/-- … and hence, for normalised values, equality of field elements. -/
theorem equals_normalise_iff (f g : FV) (hf : NormPre f) (hg : NormPre g) :
    equals (normalise f) (normalise g) = true ↔ f.val % P = g.val % P := by
  rw [equals_iff (normalise_canonical f hf).2 (normalise_canonical g hg).2,
    (normalise_canonical f hf).1, (normalise_canonical g hg).1]

/-- `IsZero` holds exactly for the all-zero word vector … -/
theorem isZero_eq (f : FV) : isZero f = true ↔ f = zero := by
  rcases f with ⟨a0,a1,a2,a3,a4,a5,a6,a7,a8,a9⟩
  simp only [isZero, zero, decide_eq_true_eq, UInt32.or_eq_zero_iff, FV.mk.injEq, and_assoc]

theorem val_eq_zero_iff (f : FV) : f.val = 0 ↔ f = zero := by
  rcases f with ⟨a0,a1,a2,a3,a4,a5,a6,a7,a8,a9⟩
  simp only [FV.val, Nat.reducePow, zero, FV.mk.injEq, ← UInt32.toNat_inj, UInt32.toNat_ofNat,
    Nat.reduceMod]
  omega

/-- … i.e. (for *any* representation) exactly when the represented integer is 0; on canonical
(normalised) values this is "the field element is zero". -/
theorem isZero_iff (f : FV) : isZero f = true ↔ f.val = 0 := by
  rw [isZero_eq, val_eq_zero_iff]

theorem isZero_normalise_iff (f : FV) (hf : NormPre f) :
    isZero (normalise f) = true ↔ f.val % P = 0 := by
  rw [isZero_iff, (normalise_canonical f hf).1]

/-- `IsOdd` is the parity of the represented integer (needs nothing: 2 | 2^26). -/
theorem isOdd_iff (f : FV) : isOdd f = true ↔ f.val % 2 = 1 := by
  rcases f with ⟨a0,a1,a2,a3,a4,a5,a6,a7,a8,a9⟩
  simp only [isOdd, decide_eq_true_eq, ← UInt32.toNat_inj, UInt32.toNat_and, UInt32.toNat_ofNat,
    Nat.reduceMod, and_mask1, FV.val, Nat.reducePow]
  omega

/-- on a normalised value `IsOdd` is the parity of the field element's representative in [0,P). -/
theorem isOdd_normalise_iff (f : FV) (hf : NormPre f) :
    isOdd (normalise f) = true ↔ (f.val % P) % 2 = 1 := by
  rw [isOdd_iff, (normalise_canonical f hf).1]

example : equals (normalise exP) zero = true ∧ isZero (normalise exP) = true := by decide
example : isOdd exA = false ∧ ¬ (exA.val % 2 = 1) := by
  refine ⟨by decide, fun h => ?_⟩
  have h' := (isOdd_iff exA).mpr h
  exact absurd h' (by decide)
example : equals exA exB = false := by decide

#print axioms normalise_nowrap
#print axioms normalise_canonical
#print axioms normalise_of_magLe
#print axioms canonical_unique
#print axioms equals_eq
#print axioms equals_iff
#print axioms isZero_eq
#print axioms isZero_iff
#print axioms isOdd_iff

end GoBk.Proofs.Field
