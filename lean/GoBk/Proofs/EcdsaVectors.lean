import GoBk.Model.Ecdsa
import GoBk.Model.RealPrims
/-
  Concrete evaluations of the ECDSA models with the real primitives (HMAC-SHA256 from `GoBk.Hash`),
  checked by the kernel.  They serve as non-vacuity witnesses for the hypotheses of the property
  theorems in Props/C02 and Props/C12, and reproduce the well-known RFC 6979 secp256k1 test vector
  (private key 1, message "Satoshi Nakamoto").  Core Lean only.
-/
namespace GoBk.Proofs
open GoBk GoBk.Spec GoBk.Bytes

/-- SHA-256("Satoshi Nakamoto") -/
def hSat : Bytes := [160, 220, 101, 255, 202, 121, 152, 115, 203, 234, 10, 194, 116, 1, 91, 149,
  38, 80, 93, 170, 174, 211, 133, 21, 84, 37, 247, 51, 119, 4, 136, 62]

def rSat : Nat := 0x934b1ea10a4b3c1757e2b0c017d0b6143ce3c9a7e6a4a49860d7a6ab210ee3d8
def sSat : Nat := 0x2442ce9d2b916064108014783e923ec36b49743e2ffa1c4496f01a512aafd9e5

set_option maxRecDepth 100000 in
theorem sign_vector : Ecdsa.sign realPrims 1 1 hSat = some (rSat, sSat) := by decide +kernel

set_option maxRecDepth 100000 in
theorem compactLoop_vector :
    Ecdsa.compactLoop rSat sSat hSat (smul 1 G) true ((Gen.c_H + 1) * 2) 0 =
      some ([32] ++ natBEpad 32 rSat ++ natBEpad 32 sSat) := by decide +kernel

theorem signCompact_vector :
    Ecdsa.signCompact realPrims 1 1 (smul 1 G) hSat true =
      some ([32] ++ natBEpad 32 rSat ++ natBEpad 32 sSat) := by
  unfold Ecdsa.signCompact
  rw [sign_vector]
  exact compactLoop_vector

end GoBk.Proofs

#print axioms GoBk.Proofs.sign_vector
#print axioms GoBk.Proofs.signCompact_vector
