import GoBk.Gen.Consts
import GoBk.Spec.Secp
/-
  The curve constants regenerated from /repo (`GoBk.Gen.Consts`, emitted by the translator from
  `bec.S256()`) are the SEC 2 domain parameters of secp256k1 stated in `GoBk.Spec.Secp`.
  Core Lean only.
-/
namespace GoBk.Proofs

theorem cN : Gen.c_N = Spec.N := by decide
theorem cP : Gen.c_P = Spec.P := by decide
theorem cGx : Gen.c_Gx = Spec.Gx := by decide
theorem cGy : Gen.c_Gy = Spec.Gy := by decide
theorem cB : Gen.c_B = Spec.B := by decide
theorem cH : Gen.c_H = 1 := by decide
theorem cBitSize : Gen.c_BitSize = 256 := by decide

/-- all regenerated domain parameters agree with the specification -/
theorem consts_eq_spec :
    Gen.c_P = Spec.P ∧ Gen.c_N = Spec.N ∧ Gen.c_B = Spec.B ∧ (Gen.c_Gx, Gen.c_Gy) = Spec.G ∧
      Gen.c_H = 1 ∧ Gen.c_BitSize = 256 := by decide

end GoBk.Proofs

#print axioms GoBk.Proofs.consts_eq_spec
