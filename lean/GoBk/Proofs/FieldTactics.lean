/-
  GoBk.Proofs.FieldTactics — proof automation shared by the Field*.lean files.
  (core Lean only; no axioms are introduced by anything here: tactics only build ordinary terms)
-/
import Lean
import GoBk.Gen.Field

open Lean Elab Tactic Meta

set_option linter.unusedSimpArgs false
set_option linter.unusedVariables false

namespace GoBk.Proofs.Field

/-! ### numeral forms of the masks (the translator writes masks and powers as decimal numerals) -/

theorem and_mask26 (x : Nat) : x &&& 67108863 = x % 67108864 := Nat.and_two_pow_sub_one_eq_mod x 26
theorem and_mask22 (x : Nat) : x &&& 4194303 = x % 4194304 := Nat.and_two_pow_sub_one_eq_mod x 22
theorem and_mask8 (x : Nat) : x &&& 255 = x % 256 := Nat.and_two_pow_sub_one_eq_mod x 8
theorem and_mask6 (x : Nat) : x &&& 63 = x % 64 := Nat.and_two_pow_sub_one_eq_mod x 6
theorem and_mask4 (x : Nat) : x &&& 15 = x % 16 := Nat.and_two_pow_sub_one_eq_mod x 4
theorem and_mask2 (x : Nat) : x &&& 3 = x % 4 := Nat.and_two_pow_sub_one_eq_mod x 2
theorem and_mask1 (x : Nat) : x &&& 1 = x % 2 := Nat.and_two_pow_sub_one_eq_mod x 1

theorem or_one_eq (x : Nat) : x ||| 1 = x / 2 * 2 + 1 := by
  have h := Nat.shiftLeft_add_eq_or_of_lt (a := x / 2) (i := 1) (b := 1) (by decide)
  have h2 := Nat.shiftLeft_add_eq_or_of_lt (a := x / 2) (i := 1) (b := x % 2) (by omega)
  simp only [Nat.shiftLeft_eq] at h h2
  have hx : x = x / 2 * 2 ^ 1 + x % 2 := by omega
  rcases Nat.mod_two_eq_zero_or_one x with h0 | h1
  · rw [h0] at h2 hx
    conv => lhs; rw [hx]
    simp only [Nat.add_zero]
    omega
  · rw [h1] at h2 hx
    conv => lhs; rw [hx, h2, Nat.or_assoc, Nat.or_self]
    omega

/-- `omega` does not look inside `if`; this is the case split it needs. -/
theorem ite_cases {c : Prop} [Decidable c] (A B : Nat) :
    (c ∧ (if c then A else B) = A) ∨ (¬c ∧ (if c then A else B) = B) := by
  by_cases h : c
  · exact Or.inl ⟨h, if_pos h⟩
  · exact Or.inr ⟨h, if_neg h⟩

/-- `2 * uint64(x)` (SquareVal) does not wrap -/
theorem two_mul_toNat_mod (x : UInt32) : 2 * x.toNat % 18446744073709551616 = 2 * x.toNat :=
  Nat.mod_eq_of_lt (by have := x.toNat_lt; omega)

/-- pushes `toNat` through every machine operation the translator emits, leaving `% 2^w`
wherever Go arithmetic could wrap (`push_toNat_star` also rewrites with all hypotheses). -/
macro "push_toNat" " [" extra:Lean.Parser.Tactic.simpLemma,* "]" loc:(Lean.Parser.Tactic.location)? : tactic =>
  `(tactic| simp only [GoBk.Gen.Field.FV.toN,
      UInt32.toNat_add, UInt32.toNat_mul, UInt32.toNat_sub, UInt32.toNat_and, UInt32.toNat_or,
      UInt32.toNat_xor, UInt32.toNat_shiftRight, UInt32.toNat_shiftLeft, UInt32.toNat_ofNat,
      UInt32.toNat_ofNat', UInt32.toNat_toUInt64, UInt64.toNat_toUInt32,
      UInt64.toNat_add, UInt64.toNat_mul, UInt64.toNat_sub, UInt64.toNat_and, UInt64.toNat_or,
      UInt64.toNat_shiftRight, UInt64.toNat_shiftLeft, UInt64.toNat_ofNat,
      apply_ite UInt32.toNat, apply_ite UInt64.toNat,
      ← UInt32.toNat_inj, ← UInt64.toNat_inj, UInt32.lt_iff_toNat_lt, UInt32.le_iff_toNat_le,
      UInt64.lt_iff_toNat_lt, UInt64.le_iff_toNat_le, gt_iff_lt, ge_iff_le, ne_eq,
      Nat.shiftRight_eq_div_pow, Nat.shiftLeft_eq,
      and_mask26, and_mask22, and_mask1, Nat.and_zero, Nat.or_zero, or_one_eq, two_mul_toNat_mod,
      Nat.reducePow, Nat.reduceMod, Nat.reduceMul, $extra,*] $[$loc]?)

/-- `have name : type := val` at the meta level.  Unlike `MVarId.assert`+`intro` the result keeps
the β-redex `(fun h => rest) val`, so `instantiateMVars` never substitutes `val` into `rest`
(that substitution is exponential for long chains of hypotheses that use each other). -/
def haveRedex (g : MVarId) (name : Name) (type val : Expr) : MetaM (FVarId × MVarId) :=
  g.withContext do
    let tgt ← g.getType
    let tag ← g.getTag
    withLocalDeclD name type fun h => do
      let rest ← mkFreshExprSyntheticOpaqueMVar tgt tag
      let lam ← mkLambdaFVars #[h] rest
      g.assign (mkApp lam val)
      pure (h.fvarId!, rest.mvarId!)

/--
`lets_to_eqs`: every let-variable `z := v` of the local context (use `extract_lets -merge` first)
becomes an ordinary variable `z` together with a hypothesis `hlet_k : z = v` (k = position).
Afterwards nothing in the context has a hidden value, so `omega`/`simp` see exactly the stated
equations.
-/
elab "lets_to_eqs" : tactic => do
  let g ← getMainGoal
  let first? ← g.withContext do
    let mut r : Option FVarId := none
    for d in (← getLCtx) do
      if r.isNone && !d.isImplementationDetail && d.isLet then r := some d.fvarId
    pure r
  let some first := first? | return
  let (reverted, g) ← g.revertFrom first
  let mut g := g
  let mut idx := 0
  for _ in [0:reverted.size] do
    let ty ← instantiateMVars (← g.getType)
    match ty with
    | .letE n t v b _ =>
      -- (fun z (hz : z = v) => ?rest) v rfl, keeping the redex (see `haveRedex`)
      let g2 ← g.withContext do
        let tag ← g.getTag
        withLocalDeclD n t fun z => do
          withLocalDeclD (Name.mkSimple s!"hlet_{idx}") (← mkEq z v) fun hz => do
            let rest ← mkFreshExprSyntheticOpaqueMVar (b.instantiate1 z) tag
            let lam ← mkLambdaFVars #[z, hz] rest
            g.assign (mkApp2 lam v (← mkEqRefl v))
            pure rest.mvarId!
      g := g2
      idx := idx + 1
    | _ =>
      let (_, g1) ← g.intro1P
      g := g1
  replaceMainGoal [g]

/-- the `toNat` function of a machine integer type -/
def toNatFn? (ty : Expr) : Option Name :=
  if ty.isConstOf ``UInt32 then some ``UInt32.toNat
  else if ty.isConstOf ``UInt64 then some ``UInt64.toNat
  else if ty.isConstOf ``UInt8 then some ``UInt8.toNat
  else none

/-- numeral of a `Nat` literal expression -/
def natLit? (e : Expr) : Option Nat :=
  match e.nat? with
  | some n => some n
  | none => e.rawNatLit?

/-- a product of two non-literal factors met by `ubound`: `(a, bound a, b, bound b)` -/
abbrev ProdFact := Expr × Nat × Expr × Nat

/-- Upper bound of a `Nat` expression by interval arithmetic.  `tbl` maps atoms (and products that
`omega` cannot bound itself) to bounds taken from hypotheses `e ≤ n` / `e < n`.  Products of two
non-literal factors that are not in `tbl` are recorded in the state: the caller proves
`a * b ≤ bound a * bound b` by `Nat.mul_le_mul` and adds it as a hypothesis for `omega`.
The result is only a *guess*: it is verified afterwards by `omega`. -/
partial def ubound (tbl : Array (Expr × Nat)) (e : Expr) : StateT (Array ProdFact) MetaM Nat := do
  let e ← instantiateMVars e
  if let some n := natLit? e then return n
  for (a, b) in tbl do
    if a == e then return b
  match_expr e with
  | HAdd.hAdd _ _ _ _ a b => return (← ubound tbl a) + (← ubound tbl b)
  | HMul.hMul _ _ _ _ a b =>
    let na ← ubound tbl a
    let nb ← ubound tbl b
    if (natLit? a).isNone && (natLit? b).isNone then
      unless (← get).any (fun (a', _, b', _) => a' == a && b' == b) do
        modify (·.push (a, na, b, nb))
    return na * nb
  | HSub.hSub _ _ _ _ a _ => ubound tbl a
  | HDiv.hDiv _ _ _ _ a b =>
    match natLit? b with
    | some n => return (← ubound tbl a) / n
    | none => ubound tbl a
  | HMod.hMod _ _ _ _ a b =>
    match natLit? b with
    | some n => return min (← ubound tbl a) (n - 1)
    | none => ubound tbl a
  | ite _ _ _ a b => return max (← ubound tbl a) (← ubound tbl b)
  | _ => throwError "sim_lets: no bound known for{indentExpr e}"

/--
`sim_lets using tac`: lock-step simulation of a machine-integer `let` chain by its exact twin.

After `extract_lets -merge; lets_to_eqs` the context contains `hlet_i : z = v` for the machine
lets (`z : UInt32/UInt64`) and, in the same order, for the exact lets (`z : Nat`), and hypotheses
`e ≤ n` (or `e < n`) bounding the inputs (and products of inputs).  For the k-th pair `hx : x = v`,
`hy : y = w` the tactic

* proves `toNat v = w` by `simp only [toNat lemmas, hsim_0 … hsim_(k-1)]` followed by `tac`, in a
  context that contains only *bounds* (`hle_j : y_j ≤ B_j`) for the earlier exact variables, and
  adds `hsim_k : x.toNat = y`;
* guesses a numeric bound `B_k` for `w` by interval arithmetic, has `omega` check it from `hy` and
  the earlier bounds, and adds `hle_k : y ≤ B_k`.

So each step is a small `omega` problem.  Finally the goal is rewritten with all `hsim_k`.
-/
elab "sim_lets" lim:(num)? " using " tac:tacticSeq : tactic => do
  let g ← getMainGoal
  let (ms, ns, tbl0, bhyps0) ← g.withContext do
    let mut ms : Array (FVarId × FVarId × Expr × Name) := #[]
    let mut ns : Array (FVarId × FVarId × Expr) := #[]
    let mut tbl : Array (Expr × Nat) := #[]
    let mut bhyps : Array (Expr × FVarId) := #[]
    for d in (← getLCtx) do
      if d.isImplementationDetail then continue
      let ty ← instantiateMVars d.type
      if (toString d.userName).startsWith "hlet_" then
        let some (_, lhs, rhs) := ty.eq? | continue
        let .fvar z := lhs | continue
        let zty ← instantiateMVars (← z.getType)
        if let some fn := toNatFn? zty then ms := ms.push (z, d.fvarId, rhs, fn)
        else if zty.isConstOf ``Nat then ns := ns.push (z, d.fvarId, rhs)
      else
        match_expr ty with
        | LE.le α _ a b =>
          if α.isConstOf ``Nat then if let some n := natLit? b then
            tbl := tbl.push (a, n); bhyps := bhyps.push (a, d.fvarId)
        | LT.lt α _ a b =>
          if α.isConstOf ``Nat then if let some n := natLit? b then
            tbl := tbl.push (a, n - 1); bhyps := bhyps.push (a, d.fvarId)
        | _ => pure ()
    return (ms, ns, tbl, bhyps)
  if ms.size != ns.size then
    throwError "sim_lets: {ms.size} machine lets but {ns.size} exact lets"
  let limit := match lim with | some n => min n.getNat ms.size | none => ms.size
  let mut hsims : Array (Ident × FVarId × FVarId) := #[]  -- (name, hypothesis, machine variable)
  let mut tbl := tbl0
  let mut bhyps := bhyps0  -- (bounded expression, hypothesis): only the relevant ones are kept per step
  let allEqs : Array FVarId := (ms.map fun (_, h, _, _) => h) ++ (ns.map fun (_, h, _) => h)
  for i in [0:limit] do
    let t0 ← IO.monoMsNow
    let g ← getMainGoal
    let hsimsNow := hsims
    let tblNow := tbl
    let yvNow := ns[i]!.2.2
    let xvNow := ms[i]!.2.2.1
    -- bound of the exact value; new product facts are added as hypotheses first
    let (bnd, prods) ← g.withContext do (ubound tblNow ns[i]!.2.2).run #[]
    let mut g := g
    let bhypsNow := bhyps
    for (a, na, b, nb) in prods do
      let (gNew, entry, hpf) ← g.withContext do
        let prove (e : Expr) (n : Nat) : TacticM Expr := do
          let le ← mkAppM ``LE.le #[e, mkNatLit n]
          let m ← mkFreshExprSyntheticOpaqueMVar le
          let irrelevant := (bhypsNow.filter fun (l, _) => !(l.occurs e)).map (·.2)
          let mg ← m.mvarId!.tryClearMany (allEqs ++ irrelevant ++ hsimsNow.map (·.2.1))
          let rest ← try Tactic.run mg (withoutRecover (evalTactic (← `(tactic| omega))))
            catch err => throwError "sim_lets: cannot bound the factor{indentExpr e}\nby {n}\n{err.toMessageData}"
          unless rest.isEmpty do throwError "sim_lets: factor bound not closed"
          pure m
        let pa ← prove a na
        let pb ← prove b nb
        let prod ← mkAppM ``HMul.hMul #[a, b]
        let ty ← mkAppM ``LE.le #[prod, mkNatLit (na * nb)]
        let prf ← mkAppM ``Nat.mul_le_mul #[pa, pb]
        let (hp, gNew) ← haveRedex g (Name.mkSimple s!"hprod_{i}") ty prf
        pure (gNew, (prod, na * nb), hp)
      g := gNew
      tbl := tbl.push entry
      bhyps := bhyps.push (entry.1, hpf)
    let bhypsNow2 := bhyps
    let (g'', hsimF, hleF) ← g.withContext do
      let (x, hx, xv, toNat) := ms[i]!
      let (y, hy, yv) := ns[i]!
      let stmtU ← mkEq (mkApp (mkConst toNat) xv) yv
      let stmt ← mkEq (mkApp (mkConst toNat) (mkFVar x)) (mkFVar y)
      let pf ← mkFreshExprSyntheticOpaqueMVar stmtU
      let irrelevant := (bhypsNow2.filter fun (l, _) => !(l.occurs yvNow)).map (·.2)
      let relSims := hsimsNow.filter fun (_, _, xj) => (mkFVar xj).occurs xvNow
      let irrSims := (hsimsNow.filter fun (_, _, xj) => !(mkFVar xj).occurs xvNow).map (·.2.1)
      let stepGoal ← pf.mvarId!.tryClearMany (allEqs ++ irrelevant ++ irrSims)
      let lemmas ← relSims.mapM fun (h, _, _) => `(Lean.Parser.Tactic.simpLemma| $h:ident)
      let rest ← try
          Tactic.run stepGoal (withoutRecover (evalTactic (← `(tactic|
            first
            | rfl
            | (push_toNat [$lemmas,*] <;> ($tac))
            | ($tac)))))
        catch e =>
          throwError "sim_lets: step {i} ({(← x.getDecl).userName}) failed on\n{stepGoal}\n{e.toMessageData}"
      unless rest.isEmpty do
        throwError "sim_lets: step {i} ({(← x.getDecl).userName}) not closed:\n{goalsToMessageData rest}"
      let tA ← IO.monoMsNow
      let p1 ← mkCongrArg (mkConst toNat) (mkFVar hx)
      let full ← mkEqTrans p1 (← mkEqTrans pf (← mkEqSymm (mkFVar hy)))
      let (hsimF, g'') ← haveRedex g (Name.mkSimple s!"hsim_{i}") stmt full
      -- bound for y
      let tC ← IO.monoMsNow
      let g4 ← g''.withContext do
        let le ← mkAppM ``LE.le #[mkFVar y, mkNatLit bnd]
        let bpf ← mkFreshExprSyntheticOpaqueMVar le
        let others := allEqs.filter (· != hy)
        let bgoal ← bpf.mvarId!.tryClearMany (others ++ irrelevant ++ hsimsNow.map (·.2.1) ++ #[hsimF])
        let hyId := mkIdent (← hy.getUserName)
        let rest ← try
            Tactic.run bgoal (withoutRecover (evalTactic (← `(tactic|
              first
              | omega
              | (subst $hyId:ident; split <;> omega)))))
          catch e =>
            throwError "sim_lets: bound {bnd} of step {i} ({(← y.getDecl).userName}) failed on\n{bgoal}\n{e.toMessageData}"
        unless rest.isEmpty do throwError "sim_lets: bound of step {i} not closed"
        let tD ← IO.monoMsNow
        let (hleF, g4) ← haveRedex g'' (Name.mkSimple s!"hle_{i}") le bpf
        if tD - t0 > 3000 then
          logInfo m!"sim_lets step {i}: sim {tA - t0} ms, bound {tD - tC} ms"
        pure (g4, hleF)
      pure (g4.1, hsimF, g4.2)
    replaceMainGoal [g'']
    hsims := hsims.push (mkIdent (Name.mkSimple s!"hsim_{i}"), hsimF, ms[i]!.1)
    tbl := tbl.push (mkFVar ns[i]!.1, bnd)
    bhyps := bhyps.push (mkFVar ns[i]!.1, hleF)
  if limit == ms.size then
    let lemmas ← hsims.mapM fun (h, _, _) => `(Lean.Parser.Tactic.simpLemma| $h:ident)
    evalTactic (← `(tactic| try simp only [GoBk.Gen.Field.FV.toN, $lemmas,*]))

end GoBk.Proofs.Field
