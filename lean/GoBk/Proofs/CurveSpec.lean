/-
  GoBk.Proofs.CurveSpec — the executable affine reference group law of `GoBk.Spec.Secp`
  is Mathlib's group law on the Weierstrass curve `E : y² = x³ + 7` over `ZMod P`.
  `enc : E.Point → Pt` is injective with image `{a | valid a}`, and commutes with
  `pneg`, `pdouble`, `padd`, `smul`.  The group axioms are then transported to `Pt`
  (for `valid` points), and `liftX` (SEC1 decompression) is characterised.
  Everything is in namespace `GoBk.Proofs`.
-/
import Mathlib.AlgebraicGeometry.EllipticCurve.Affine.Point
import Mathlib.FieldTheory.Finite.Basic
import GoBk.Proofs.Prime

namespace GoBk.Proofs
open GoBk.Spec

abbrev F := ZMod P

theorem P_pos : 0 < P := P_prime.pos
theorem P_odd : P % 2 = 1 := by decide
instance : NeZero P := ⟨P_prime.ne_zero⟩

/-! ### casting the `Nat` arithmetic of the spec into `ZMod P` -/

theorem val_eq_of_cast {n : ℕ} {z : F} (h : (n : F) = z) : n % P = z.val := by
  rw [← h, ZMod.val_natCast]

theorem cast_P_sub (x : F) : ((P - x.val : ℕ) : F) = -x := by
  rw [Nat.cast_sub (ZMod.val_lt x).le, ZMod.natCast_self, ZMod.natCast_zmod_val, zero_sub]

theorem cast_powMod (b e : ℕ) : ((powMod b e P : ℕ) : F) = (b : F) ^ e := by
  rw [powMod_eq, ZMod.natCast_mod, Nat.cast_pow]

theorem cast_invMod (a : ℕ) : ((invMod a P : ℕ) : F) = ((a : F))⁻¹ := by
  unfold invMod
  rw [cast_powMod]
  by_cases h : (a : F) = 0
  · rw [h, inv_zero, zero_pow]
    decide
  · have h1 := ZMod.pow_card_sub_one_eq_one h
    have hP : P - 1 = (P - 2) + 1 := by decide
    rw [hP, pow_succ] at h1
    exact eq_inv_of_mul_eq_one_left h1

theorem invMod_spec (a : ℕ) (h : a % P ≠ 0) : (a * invMod a P) % P = 1 := by
  have ha : (a : F) ≠ 0 := by
    rw [Ne, ZMod.natCast_eq_zero_iff, Nat.dvd_iff_mod_eq_zero]; exact h
  have : ((a * invMod a P : ℕ) : F) = 1 := by
    rw [Nat.cast_mul, cast_invMod, mul_inv_cancel₀ ha]
  rw [val_eq_of_cast this, ZMod.val_one]


theorem natCast_ne_zero' {n : ℕ} (h0 : 0 < n) (h : n < P) : (n : F) ≠ 0 := by
  rw [Ne, ZMod.natCast_eq_zero_iff]
  exact Nat.not_dvd_of_pos_of_lt h0 h

theorem two_ne_zero' : (2 : F) ≠ 0 := by
  have := natCast_ne_zero' (n := 2) (by decide) (by decide); simpa using this
theorem three_ne_zero' : (3 : F) ≠ 0 := by
  have := natCast_ne_zero' (n := 3) (by decide) (by decide); simpa using this
theorem seven_ne_zero' : (7 : F) ≠ 0 := by
  have := natCast_ne_zero' (n := 7) (by decide) (by decide); simpa using this

/-! ### the curve -/

def E : WeierstrassCurve.Affine F := { a₁ := 0, a₂ := 0, a₃ := 0, a₄ := 0, a₆ := 7 }

open WeierstrassCurve.Affine

theorem E_equation_iff (x y : F) : E.Equation x y ↔ y ^ 2 = x ^ 3 + 7 := by
  rw [WeierstrassCurve.Affine.equation_iff]; simp [E]

theorem E_nonsingular_iff (x y : F) : E.Nonsingular x y ↔ y ^ 2 = x ^ 3 + 7 := by
  rw [WeierstrassCurve.Affine.nonsingular_iff, E_equation_iff]
  refine ⟨fun h => h.1, fun h => ⟨h, ?_⟩⟩
  simp only [E, zero_mul, mul_zero, add_zero, sub_zero]
  by_cases hy : y = 0
  · left
    subst hy
    have hx : x ≠ 0 := by
      rintro rfl
      simp at h
      exact seven_ne_zero' h.symm
    exact (mul_ne_zero three_ne_zero' (pow_ne_zero 2 hx)).symm
  · right
    intro h2
    have : 2 * y = 0 := by linear_combination h2
    rcases mul_eq_zero.1 this with h | h
    · exact two_ne_zero' h
    · exact hy h

theorem E_negY (x y : F) : E.negY x y = -y := by simp [E]

theorem E_addX (x₁ x₂ ℓ : F) : E.addX x₁ x₂ ℓ = ℓ ^ 2 - x₁ - x₂ := by simp [E]

theorem E_addY (x₁ x₂ y₁ ℓ : F) :
    E.addY x₁ x₂ y₁ ℓ = ℓ * (x₁ - (ℓ ^ 2 - x₁ - x₂)) - y₁ := by
  simp [WeierstrassCurve.Affine.addY, E]; ring

/-! ### encoding Mathlib points as spec points -/

def enc : E.Point → Pt
  | .zero => (0, 0)
  | .some x y _ => (x.val, y.val)

@[simp] theorem enc_zero : enc 0 = inf := rfl
@[simp] theorem enc_some {x y : F} (h : E.Nonsingular x y) : enc (.some x y h) = (x.val, y.val) := rfl

theorem isInf_iff (a : Pt) : isInf a = true ↔ a = inf := by
  obtain ⟨x, y⟩ := a
  simp [isInf, inf]

theorem isInf_val {x y : F} (h : E.Nonsingular x y) : isInf (x.val, y.val) = false := by
  rw [Bool.eq_false_iff, Ne, isInf_iff]
  intro h0
  simp only [inf, Prod.mk.injEq, ZMod.val_eq_zero] at h0
  obtain ⟨rfl, rfl⟩ := h0
  rw [E_nonsingular_iff] at h
  simp at h
  exact seven_ne_zero' h.symm

theorem enc_eq_inf_iff (Q : E.Point) : enc Q = inf ↔ Q = 0 := by
  rcases Q with _ | ⟨x, y, h⟩
  · exact ⟨fun _ => rfl, fun _ => rfl⟩
  · refine ⟨fun h0 => ?_, fun h0 => by cases h0⟩
    have := isInf_val h
    rw [enc_some, ← isInf_iff] at h0
    rw [h0] at this; cases this

theorem enc_injective : Function.Injective enc := by
  rintro (_ | ⟨x₁, y₁, h₁⟩) (_ | ⟨x₂, y₂, h₂⟩) h
  · rfl
  · exact ((enc_eq_inf_iff _).1 h.symm).symm
  · exact (enc_eq_inf_iff _).1 h
  · simp only [enc_some, Prod.mk.injEq] at h
    have hx := ZMod.val_injective P h.1
    have hy := ZMod.val_injective P h.2
    subst hx hy
    rfl

theorem onCurve_cast (x y : ℕ) : onCurve (x, y) = true ↔ (y : F) ^ 2 = (x : F) ^ 3 + 7 := by
  simp only [onCurve, B, beq_iff_eq]
  rw [← ZMod.natCast_eq_natCast_iff']
  push_cast
  constructor <;> intro h <;> linear_combination h

theorem onCurve_iff (x y : ℕ) : onCurve (x, y) = true ↔ y ^ 2 ≡ x ^ 3 + 7 [MOD P] := by
  rw [onCurve_cast, ← ZMod.natCast_eq_natCast_iff]
  push_cast
  rfl

theorem valid_enc (Q : E.Point) : valid (enc Q) = true := by
  rcases Q with _ | ⟨x, y, h⟩
  · rfl
  · simp only [enc_some, valid, isInf_val h, Bool.false_or, Bool.and_eq_true]
    refine ⟨⟨decide_eq_true (ZMod.val_lt x), decide_eq_true (ZMod.val_lt y)⟩, ?_⟩
    rw [onCurve_cast, ZMod.natCast_zmod_val, ZMod.natCast_zmod_val]
    exact (E_nonsingular_iff x y).1 h

theorem valid_iff (a : Pt) : valid a = true ↔ ∃ Q, enc Q = a := by
  constructor
  · intro h
    by_cases hi : isInf a = true
    · exact ⟨0, ((isInf_iff a).1 hi).symm⟩
    · obtain ⟨x, y⟩ := a
      rw [Bool.not_eq_true] at hi
      simp only [valid, hi, Bool.false_or, Bool.and_eq_true, decide_eq_true_eq] at h
      obtain ⟨⟨hx, hy⟩, hc⟩ := h
      rw [onCurve_cast] at hc
      refine ⟨.some (x : F) (y : F) ((E_nonsingular_iff _ _).2 hc), ?_⟩
      simp only [enc_some, ZMod.val_natCast, Nat.mod_eq_of_lt hx, Nat.mod_eq_of_lt hy]
  · rintro ⟨Q, rfl⟩
    exact valid_enc Q


/-! ### the group law -/

theorem pneg_enc (Q : E.Point) : pneg (enc Q) = enc (-Q) := by
  rcases Q with _ | ⟨x, y, h⟩
  · rfl
  · rw [Point.neg_some]
    simp only [enc_some, pneg, isInf_val h, Bool.false_eq_true, if_false, E_negY, ZMod.neg_val']

/-- the common part of the chord and tangent formulas -/
theorem chord_cast (x₁ y₁ x₂ : F) (l : ℕ) (ℓ : F) (hl : (l : F) = ℓ) :
    ((l * l + (P - x₁.val) + (P - x₂.val)) % P,
      (l * (x₁.val + (P - (l * l + (P - x₁.val) + (P - x₂.val)) % P)) + (P - y₁.val)) % P)
    = ((E.addX x₁ x₂ ℓ).val, (E.addY x₁ x₂ y₁ ℓ).val) := by
  have hx : (l * l + (P - x₁.val) + (P - x₂.val)) % P = (E.addX x₁ x₂ ℓ).val := by
    apply val_eq_of_cast
    simp only [Nat.cast_add, Nat.cast_mul, cast_P_sub, hl, E_addX]
    ring
  rw [hx]
  congr 1
  apply val_eq_of_cast
  simp only [Nat.cast_add, Nat.cast_mul, cast_P_sub, hl, E_addY, E_addX, ZMod.natCast_zmod_val]
  ring

theorem slope_cast_ne {x₁ x₂ : F} (y₁ y₂ : F) (hx : x₁ ≠ x₂) :
    (((y₂.val + (P - y₁.val)) % P * invMod ((x₂.val + (P - x₁.val)) % P) P % P : ℕ) : F)
      = E.slope x₁ x₂ y₁ y₂ := by
  rw [slope_of_X_ne hx]
  simp only [Nat.cast_add, Nat.cast_mul, cast_P_sub, cast_invMod, ZMod.natCast_mod,
    ZMod.natCast_zmod_val]
  rw [← neg_sub y₂ y₁, ← neg_sub x₂ x₁, neg_div_neg_eq, div_eq_mul_inv, sub_eq_add_neg,
    sub_eq_add_neg]

theorem slope_cast_dbl (x : F) {y : F} (hy : y ≠ 0) :
    (((3 * x.val * x.val) % P * invMod (2 * y.val % P) P % P : ℕ) : F) = E.slope x x y y := by
  have hne : y ≠ E.negY x y := by
    rw [E_negY]
    intro h2
    have : 2 * y = 0 := by linear_combination h2
    rcases mul_eq_zero.1 this with h | h
    · exact two_ne_zero' h
    · exact hy h
  rw [slope_of_Y_ne rfl hne, E_negY]
  simp only [Nat.cast_mul, cast_invMod, ZMod.natCast_mod, ZMod.natCast_zmod_val, Nat.cast_ofNat, E]
  rw [div_eq_mul_inv]
  congr 1
  · ring
  · congr 1; ring

theorem pdouble_enc (Q : E.Point) : pdouble (enc Q) = enc (Q + Q) := by
  rcases Q with _ | ⟨x, y, h⟩
  · rfl
  · by_cases hy : y = 0
    · subst hy
      rw [Point.add_self_of_Y_eq (by simp [E])]
      simp [pdouble, inf]
    · have hne : y ≠ E.negY x y := by
        rw [E_negY]
        intro h2
        have : 2 * y = 0 := by linear_combination h2
        rcases mul_eq_zero.1 this with h | h
        · exact two_ne_zero' h
        · exact hy h
      rw [Point.add_self_of_Y_ne hne]
      have hy' : (y.val == 0) = false := by
        rw [beq_eq_false_iff_ne, Ne, ZMod.val_eq_zero]; exact hy
      simp only [enc_some, pdouble, isInf_val h, hy', Bool.or_self, Bool.false_eq_true, if_false]
      rw [← chord_cast x y x _ _ (slope_cast_dbl x hy)]
      simp only [two_mul, Nat.add_assoc]

theorem padd_enc (Q R : E.Point) : padd (enc Q) (enc R) = enc (Q + R) := by
  rcases Q with _ | ⟨x₁, y₁, h₁⟩
  · rw [← Point.zero_def, zero_add]; rfl
  rcases R with _ | ⟨x₂, y₂, h₂⟩
  · rw [← Point.zero_def, add_zero]
    simp only [enc_some, enc_zero, padd, isInf_val h₁, Bool.false_eq_true, if_false]
    rfl
  simp only [enc_some, padd, isInf_val h₁, isInf_val h₂, Bool.false_eq_true, if_false]
  by_cases hx : x₁ = x₂
  · subst hx
    simp only [beq_self_eq_true, if_true]
    by_cases hy : y₁ = y₂
    · subst hy
      simp only [beq_self_eq_true, if_true]
      exact pdouble_enc (.some x₁ y₁ h₁)
    · have hy' : (y₁.val == y₂.val) = false := by
        rw [beq_eq_false_iff_ne]; exact fun h => hy (ZMod.val_injective P h)
      simp only [hy', Bool.false_eq_true, if_false]
      have hneg : y₁ = E.negY x₁ y₂ := by
        rcases Y_eq_of_X_eq h₁.1 h₂.1 rfl with h | h
        · exact absurd h hy
        · exact h
      rw [Point.add_of_Y_eq rfl hneg]
      rfl
  · have hx' : (x₁.val == x₂.val) = false := by
      rw [beq_eq_false_iff_ne]; exact fun h => hx (ZMod.val_injective P h)
    simp only [hx', Bool.false_eq_true, if_false]
    rw [Point.add_of_X_ne hx, enc_some]
    exact chord_cast x₁ y₁ x₂ _ _ (slope_cast_ne y₁ y₂ hx)


/-! ### scalar multiplication -/

theorem smulAux_enc (Q : E.Point) :
    ∀ fuel k, k < 2 ^ fuel → smulAux (enc Q) fuel k = enc (k • Q) := by
  intro fuel
  induction fuel with
  | zero =>
    intro k hk
    have : k = 0 := by omega
    subst this
    simp [smulAux]
  | succ fuel ih =>
    intro k hk
    unfold smulAux
    by_cases h0 : k = 0
    · subst h0; simp
    · rw [if_neg h0]
      have hk2 : k / 2 < 2 ^ fuel := by rw [pow_succ] at hk; omega
      simp only [ih _ hk2, pdouble_enc]
      have hsplit : k • Q = (k / 2) • Q + (k / 2) • Q + (k % 2) • Q := by
        rw [← add_nsmul, ← add_nsmul]; congr 1; omega
      by_cases h1 : k % 2 = 1
      · rw [if_pos h1, padd_enc, hsplit, h1, one_nsmul]
      · rw [if_neg h1, hsplit, (by omega : k % 2 = 0), zero_nsmul, add_zero]

theorem smul_enc (k : ℕ) (Q : E.Point) : smul k (enc Q) = enc (k • Q) :=
  smulAux_enc Q _ _ Nat.lt_log2_self

/-! ### corollaries stated purely on `Pt` -/

section PtLevel
variable {a b c : Pt}

theorem valid_inf : valid inf = true := rfl

theorem valid_pneg (ha : valid a = true) : valid (pneg a) = true := by
  obtain ⟨Q, rfl⟩ := (valid_iff a).1 ha
  rw [pneg_enc]; exact valid_enc _

theorem valid_pdouble (ha : valid a = true) : valid (pdouble a) = true := by
  obtain ⟨Q, rfl⟩ := (valid_iff a).1 ha
  rw [pdouble_enc]; exact valid_enc _

theorem valid_padd (ha : valid a = true) (hb : valid b = true) : valid (padd a b) = true := by
  obtain ⟨Q, rfl⟩ := (valid_iff a).1 ha
  obtain ⟨R, rfl⟩ := (valid_iff b).1 hb
  rw [padd_enc]; exact valid_enc _

theorem valid_smul (k : ℕ) (ha : valid a = true) : valid (smul k a) = true := by
  obtain ⟨Q, rfl⟩ := (valid_iff a).1 ha
  rw [smul_enc]; exact valid_enc _

theorem pdouble_eq_padd (ha : valid a = true) : pdouble a = padd a a := by
  obtain ⟨Q, rfl⟩ := (valid_iff a).1 ha
  rw [pdouble_enc, padd_enc]

theorem padd_comm (ha : valid a = true) (hb : valid b = true) : padd a b = padd b a := by
  obtain ⟨Q, rfl⟩ := (valid_iff a).1 ha
  obtain ⟨R, rfl⟩ := (valid_iff b).1 hb
  rw [padd_enc, padd_enc, add_comm]

theorem padd_assoc (ha : valid a = true) (hb : valid b = true) (hc : valid c = true) :
    padd (padd a b) c = padd a (padd b c) := by
  obtain ⟨Q, rfl⟩ := (valid_iff a).1 ha
  obtain ⟨R, rfl⟩ := (valid_iff b).1 hb
  obtain ⟨S, rfl⟩ := (valid_iff c).1 hc
  simp only [padd_enc, add_assoc]

theorem inf_padd (a : Pt) : padd inf a = a := rfl

theorem padd_inf (a : Pt) : padd a inf = a := by
  unfold padd
  by_cases h : isInf a = true
  · rw [if_pos h]; exact ((isInf_iff a).1 h).symm
  · rw [if_neg h]; rfl

theorem padd_pneg (ha : valid a = true) : padd a (pneg a) = inf := by
  obtain ⟨Q, rfl⟩ := (valid_iff a).1 ha
  rw [pneg_enc, padd_enc, add_neg_cancel, enc_zero]

theorem pneg_padd (ha : valid a = true) : padd (pneg a) a = inf := by
  obtain ⟨Q, rfl⟩ := (valid_iff a).1 ha
  rw [pneg_enc, padd_enc, neg_add_cancel, enc_zero]

theorem pneg_pneg (ha : valid a = true) : pneg (pneg a) = a := by
  obtain ⟨Q, rfl⟩ := (valid_iff a).1 ha
  rw [pneg_enc, pneg_enc, neg_neg]

theorem pneg_padd_distrib (ha : valid a = true) (hb : valid b = true) :
    pneg (padd a b) = padd (pneg a) (pneg b) := by
  obtain ⟨Q, rfl⟩ := (valid_iff a).1 ha
  obtain ⟨R, rfl⟩ := (valid_iff b).1 hb
  simp only [padd_enc, pneg_enc, neg_add]

theorem smul_zero' (a : Pt) : smul 0 a = inf := rfl

theorem smul_inf (k : ℕ) : smul k inf = inf := by
  rw [← enc_zero, smul_enc, nsmul_zero]

theorem smul_one' (ha : valid a = true) : smul 1 a = a := by
  obtain ⟨Q, rfl⟩ := (valid_iff a).1 ha
  rw [smul_enc, one_nsmul]

theorem smul_two (ha : valid a = true) : smul 2 a = pdouble a := by
  obtain ⟨Q, rfl⟩ := (valid_iff a).1 ha
  rw [smul_enc, pdouble_enc, two_nsmul]

theorem smul_add (j k : ℕ) (ha : valid a = true) :
    smul (j + k) a = padd (smul j a) (smul k a) := by
  obtain ⟨Q, rfl⟩ := (valid_iff a).1 ha
  simp only [smul_enc, padd_enc, add_nsmul]

theorem smul_succ (k : ℕ) (ha : valid a = true) : smul (k + 1) a = padd (smul k a) a := by
  rw [smul_add k 1 ha, smul_one' ha]

theorem smul_smul (j k : ℕ) (ha : valid a = true) : smul j (smul k a) = smul (j * k) a := by
  obtain ⟨Q, rfl⟩ := (valid_iff a).1 ha
  simp only [smul_enc, mul_nsmul']

theorem smul_padd (k : ℕ) (ha : valid a = true) (hb : valid b = true) :
    smul k (padd a b) = padd (smul k a) (smul k b) := by
  obtain ⟨Q, rfl⟩ := (valid_iff a).1 ha
  obtain ⟨R, rfl⟩ := (valid_iff b).1 hb
  simp only [smul_enc, padd_enc, nsmul_add]

theorem smul_pneg (k : ℕ) (ha : valid a = true) : smul k (pneg a) = pneg (smul k a) := by
  obtain ⟨Q, rfl⟩ := (valid_iff a).1 ha
  simp only [smul_enc, pneg_enc, neg_nsmul]

end PtLevel

/-! ### point decompression -/

theorem sq_eq_iff (y z : ℕ) : y * y % P = z * z % P ↔ ((y : F) = z ∨ (y : F) = -z) := by
  rw [← ZMod.natCast_eq_natCast_iff', Nat.cast_mul, Nat.cast_mul, ← sq, ← sq, sq_eq_sq_iff_eq_or_eq_neg]

theorem sqrtCand_lt (c : ℕ) : sqrtCand c < P := by
  rw [sqrtCand, powMod_eq]; exact Nat.mod_lt _ P_pos

/-- `P ≡ 3 (mod 4)`: the candidate root squares to `c` whenever `c` is a square. -/
theorem sqrtCand_sq {c y : ℕ} (h : y * y % P = c % P) :
    sqrtCand c * sqrtCand c % P = c % P := by
  rw [← ZMod.natCast_eq_natCast_iff'] at h ⊢
  rw [Nat.cast_mul] at h
  rw [Nat.cast_mul, sqrtCand, cast_powMod, ← h, ← pow_two, ← pow_two, ← pow_mul, ← pow_mul,
    show 2 * ((P + 1) / 4 * 2) = P + 1 by decide, pow_succ, ZMod.pow_card, pow_two]

theorem neg_sqrt_val {y0 : ℕ} (h0 : y0 < P) : ((-(y0 : F)).val) = (P - y0) % P := by
  rw [ZMod.neg_val', ZMod.val_natCast, Nat.mod_eq_of_lt h0]

theorem liftX_core (y0 : ℕ) (odd : Bool) (y : ℕ) (hy0 : y0 < P) :
    (if ((if (y0 % 2 == 1) == odd then y0 else (P - y0) % P) % 2 == 1) == odd
        then some (if (y0 % 2 == 1) == odd then y0 else (P - y0) % P) else none) = some y ↔
      (y = y0 ∨ y = (P - y0) % P) ∧ (y % 2 == 1) = odd := by
  have hP := P_odd
  have hpos := P_pos
  have hmod : (P - y0) % P = if y0 = 0 then 0 else P - y0 := by
    split
    · subst_vars; simp
    · exact Nat.mod_eq_of_lt (by omega)
  rw [hmod]
  cases odd <;> rcases Nat.mod_two_eq_zero_or_one y0 with h | h <;>
    by_cases hz : y0 = 0 <;> simp [h, hz] <;> omega

theorem liftX_spec (x : ℕ) (odd : Bool) (y : ℕ) :
    liftX x odd = some y ↔
      x < P ∧ y < P ∧ onCurve (x, y) = true ∧ (y % 2 == 1) = odd := by
  unfold liftX
  by_cases hx : x ≥ P
  · rw [if_pos hx]
    constructor
    · intro h; cases h
    · intro h; omega
  rw [if_neg hx]
  dsimp only
  have hxlt : x < P := by omega
  have hy0 : sqrtCand ((x * x * x + B) % P) < P := sqrtCand_lt _
  have hcurve : ∀ y, onCurve (x, y) = true ↔ y * y % P = (x * x * x + B) % P := by
    intro y; simp [onCurve]
  generalize hc : (x * x * x + B) % P = c at *
  have hcc : c % P = c := by rw [← hc, Nat.mod_mod]
  generalize hy : sqrtCand c = y0 at *
  simp only [hcurve]
  by_cases hsq : y0 * y0 % P = c
  · have hne : (y0 * y0 % P != c) = false := by simp [hsq]
    simp only [hne, Bool.false_eq_true, if_false]
    rw [liftX_core y0 odd y hy0]
    have hneg : (P - y0) % P * ((P - y0) % P) % P = c := by
      rw [← hsq, sq_eq_iff, ← neg_sqrt_val hy0, ZMod.natCast_zmod_val]
      exact Or.inr rfl
    constructor
    · rintro ⟨h | h, hp⟩
      · subst h; exact ⟨hxlt, hy0, hsq, hp⟩
      · subst h; exact ⟨hxlt, Nat.mod_lt _ P_pos, hneg, hp⟩
    · rintro ⟨_, hylt, hyc, hp⟩
      refine ⟨?_, hp⟩
      rw [← hsq, sq_eq_iff] at hyc
      rcases hyc with h | h
      · left
        have := congrArg ZMod.val h
        rwa [ZMod.val_natCast, ZMod.val_natCast, Nat.mod_eq_of_lt hylt, Nat.mod_eq_of_lt hy0] at this
      · right
        have := congrArg ZMod.val h
        rwa [ZMod.val_natCast, neg_sqrt_val hy0, Nat.mod_eq_of_lt hylt] at this
  · have hne : (y0 * y0 % P != c) = true := by simp [hsq]
    simp only [hne, if_true]
    constructor
    · intro h; cases h
    · rintro ⟨_, _, hyc, _⟩
      exfalso
      apply hsq
      rw [← hy]
      have := sqrtCand_sq (c := c) (y := y) (by rw [hcc]; exact hyc)
      rwa [hcc] at this

end GoBk.Proofs

#print axioms GoBk.Proofs.invMod_spec
#print axioms GoBk.Proofs.enc_injective
#print axioms GoBk.Proofs.valid_enc
#print axioms GoBk.Proofs.valid_iff
#print axioms GoBk.Proofs.onCurve_iff
#print axioms GoBk.Proofs.onCurve_cast
#print axioms GoBk.Proofs.pneg_enc
#print axioms GoBk.Proofs.pdouble_enc
#print axioms GoBk.Proofs.padd_enc
#print axioms GoBk.Proofs.smul_enc
#print axioms GoBk.Proofs.valid_padd
#print axioms GoBk.Proofs.valid_smul
#print axioms GoBk.Proofs.padd_comm
#print axioms GoBk.Proofs.padd_assoc
#print axioms GoBk.Proofs.padd_inf
#print axioms GoBk.Proofs.padd_pneg
#print axioms GoBk.Proofs.smul_add
#print axioms GoBk.Proofs.smul_smul
#print axioms GoBk.Proofs.smul_padd
#print axioms GoBk.Proofs.liftX_spec
