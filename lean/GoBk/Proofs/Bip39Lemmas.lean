import GoBk.Model.Bip39
import GoBk.Proofs.BytesLemmas
/-
  Lemmas about the BIP39 model (/repo/bip39/bip39.go): facts about the REGENERATED word list
  (kernel computations), `sort.SearchStrings`, `strings.Fields`, the bit-string slicing.
-/
namespace GoBk.Bip39
open GoBk Bytes

/-! ### facts about the regenerated list (closed kernel computations) -/

/-- adjacent pairs strictly increasing w.r.t. Go's string `<` -/
def sortedB : List Bytes → Bool
  | a :: b :: rest => bytesLt a b && sortedB (b :: rest)
  | _ => true

def isLower (c : UInt8) : Bool := 97 ≤ c && c ≤ 122

set_option maxRecDepth 100000 in
theorem english_length : Gen.english.length = 2048 := by decide +kernel

set_option maxRecDepth 100000 in
theorem english_sortedB : sortedB Gen.english = true := by decide +kernel

set_option maxRecDepth 100000 in
theorem english_lowerB : Gen.english.all (fun w => !w.isEmpty && w.all isLower) = true := by
  decide +kernel

/-! ### `bytesLt` is a strict total order -/

theorem bytesLt_irrefl : ∀ a : Bytes, bytesLt a a = false
  | [] => rfl
  | x :: xs => by
    have : ¬ x < x := by simp
    simp [bytesLt, this, bytesLt_irrefl xs]

theorem bytesLt_trans : ∀ a b c : Bytes, bytesLt a b = true → bytesLt b c = true → bytesLt a c = true
  | [], [], _, h, _ => by simp [bytesLt] at h
  | [], _ :: _, [], _, h => by simp [bytesLt] at h
  | [], _ :: _, _ :: _, _, _ => by simp [bytesLt]
  | _ :: _, [], _, h, _ => by simp [bytesLt] at h
  | _ :: _, _ :: _, [], _, h => by simp [bytesLt] at h
  | x :: xs, y :: ys, z :: zs, h1, h2 => by
    simp only [bytesLt] at h1 h2 ⊢
    simp only [UInt8.lt_iff_toNat_lt] at h1 h2 ⊢
    by_cases hxy : x.toNat < y.toNat
    · by_cases hyz : y.toNat < z.toNat
      · have : x.toNat < z.toNat := by omega
        simp [this]
      · simp only [hyz, if_false] at h2
        by_cases hzy : z.toNat < y.toNat
        · simp [hzy] at h2
        · have : x.toNat < z.toNat := by omega
          simp [this]
    · simp only [hxy, if_false] at h1
      by_cases hyx : y.toNat < x.toNat
      · simp [hyx] at h1
      · simp only [hyx, if_false] at h1
        have hxy' : x.toNat = y.toNat := by omega
        by_cases hyz : y.toNat < z.toNat
        · have : x.toNat < z.toNat := by omega
          simp [this]
        · simp only [hyz, if_false] at h2
          by_cases hzy : z.toNat < y.toNat
          · simp [hzy] at h2
          · simp only [hzy, if_false] at h2
            have h3 : ¬ x.toNat < z.toNat := by omega
            have h4 : ¬ z.toNat < x.toNat := by omega
            simp only [h3, h4, if_false]
            exact bytesLt_trans xs ys zs h1 h2

theorem bytesLt_total : ∀ a b : Bytes, bytesLt a b = false → bytesLt b a = false → a = b
  | [], [], _, _ => rfl
  | [], _ :: _, h, _ => by simp [bytesLt] at h
  | _ :: _, [], _, h => by simp [bytesLt] at h
  | x :: xs, y :: ys, h1, h2 => by
    simp only [bytesLt, UInt8.lt_iff_toNat_lt] at h1 h2
    by_cases hxy : x.toNat < y.toNat
    · simp [hxy] at h1
    · by_cases hyx : y.toNat < x.toNat
      · simp [hyx] at h2
      · simp only [hxy, hyx, if_false] at h1 h2
        have : x = y := UInt8.toNat_inj.mp (by omega)
        rw [this, bytesLt_total xs ys h1 h2]

theorem bytesLt_asymm (a b : Bytes) (h : bytesLt a b = true) : bytesLt b a = false := by
  cases hb : bytesLt b a with
  | false => rfl
  | true =>
    have := bytesLt_trans a b a h hb
    rw [bytesLt_irrefl] at this
    exact absurd this (by decide)

/-! ### from the Boolean checks to statements about `wordAt` -/

theorem wordAt_eq (i : Nat) (h : i < Gen.english.length) : wordAt i = Gen.english[i] := by
  unfold wordAt; simp [List.getD_eq_getElem?_getD, h]

theorem wordAt_mem (i : Nat) (h : i < 2048) : wordAt i ∈ Gen.english := by
  rw [wordAt_eq i (by rw [english_length]; exact h)]
  exact List.getElem_mem _

theorem mem_english_iff (w : Bytes) : w ∈ Gen.english ↔ ∃ i, i < 2048 ∧ wordAt i = w := by
  constructor
  · intro h
    obtain ⟨i, hi, rfl⟩ := List.getElem_of_mem h
    exact ⟨i, by rw [← english_length]; exact hi, wordAt_eq i hi⟩
  · rintro ⟨i, hi, rfl⟩; exact wordAt_mem i hi

theorem sortedB_adjacent : ∀ (l : List Bytes), sortedB l = true →
    ∀ i, i + 1 < l.length → bytesLt (l.getD i []) (l.getD (i + 1) []) = true
  | [], _, i, h => by simp at h
  | [_], _, i, h => by simp at h
  | a :: b :: rest, hs, i, hi => by
    simp only [sortedB, Bool.and_eq_true] at hs
    cases i with
    | zero => simpa using hs.1
    | succ i =>
      have := sortedB_adjacent (b :: rest) hs.2 i (by simpa using hi)
      simpa using this

/-- the list is strictly increasing: adjacent form -/
theorem english_sorted_adjacent (i : Nat) (h : i + 1 < 2048) :
    bytesLt (wordAt i) (wordAt (i + 1)) = true :=
  sortedB_adjacent Gen.english english_sortedB i (by rw [english_length]; exact h)

/-- the list is strictly increasing: any two positions -/
theorem english_sorted (i j : Nat) (hij : i < j) (hj : j < 2048) :
    bytesLt (wordAt i) (wordAt j) = true := by
  induction j with
  | zero => omega
  | succ j ih =>
    by_cases h : i = j
    · subst h; exact english_sorted_adjacent i hj
    · exact bytesLt_trans _ _ _ (ih (by omega) (by omega)) (english_sorted_adjacent j hj)

theorem english_sorted_pairwise : Gen.english.Pairwise (fun a b => bytesLt a b = true) := by
  rw [List.pairwise_iff_getElem]
  intro i j hi hj hij
  rw [← wordAt_eq i hi, ← wordAt_eq j hj]
  exact english_sorted i j hij (by rw [← english_length]; exact hj)

theorem english_nodup : Gen.english.Nodup := by
  refine english_sorted_pairwise.imp ?_
  intro a b h hab
  subst hab
  rw [bytesLt_irrefl] at h
  exact absurd h (by decide)

theorem wordAt_inj (i j : Nat) (hi : i < 2048) (hj : j < 2048) (h : wordAt i = wordAt j) : i = j := by
  by_cases hlt : i < j
  · have := english_sorted i j hlt hj
    rw [h, bytesLt_irrefl] at this; exact absurd this (by decide)
  · by_cases hgt : j < i
    · have := english_sorted j i hgt hi
      rw [h, bytesLt_irrefl] at this; exact absurd this (by decide)
    · omega

/-- every list word is non-empty and consists of the ASCII letters a–z only -/
theorem english_lower (w : Bytes) (h : w ∈ Gen.english) : w ≠ [] ∧ ∀ c ∈ w, isLower c = true := by
  have := List.all_eq_true.mp english_lowerB w h
  simp only [Bool.and_eq_true, Bool.not_eq_true', List.isEmpty_eq_false_iff, List.all_eq_true] at this
  exact this

theorem english_nonempty (w : Bytes) (h : w ∈ Gen.english) : w ≠ [] := (english_lower w h).1

/-! ### `sort.Search` / `sort.SearchStrings` -/

/-- binary search on a monotone predicate returns the least index satisfying it (or `j`) -/
theorem searchAux_spec (f : Nat → Bool) (n : Nat)
    (hmono : ∀ a b, a ≤ b → b < n → f a = true → f b = true) :
    ∀ fuel i j, i ≤ j → j ≤ n → j - i < fuel →
      (∀ k, k < i → f k = false) → (∀ k, j ≤ k → k < n → f k = true) →
      i ≤ searchAux f fuel i j ∧ searchAux f fuel i j ≤ j ∧
      (∀ k, k < searchAux f fuel i j → f k = false) ∧
      (∀ k, searchAux f fuel i j ≤ k → k < n → f k = true) := by
  intro fuel
  induction fuel with
  | zero => intro i j _ _ h; omega
  | succ fuel ih =>
    intro i j hij hjn hfuel hlo hhi
    unfold searchAux
    by_cases hlt : i < j
    · simp only [hlt, if_true]
      have hh : i ≤ (i + j) / 2 ∧ (i + j) / 2 < j := by omega
      cases hf : f ((i + j) / 2) with
      | false =>
        simp only [Bool.not_false, if_true]
        have hlo' : ∀ k, k < (i + j) / 2 + 1 → f k = false := by
          intro k hk
          cases hfk : f k with
          | false => rfl
          | true =>
            have := hmono k ((i + j) / 2) (by omega) (by omega) hfk
            rw [hf] at this; exact absurd this (by decide)
        have := ih ((i + j) / 2 + 1) j (by omega) hjn (by omega) hlo' hhi
        exact ⟨by omega, this.2.1, this.2.2.1, this.2.2.2⟩
      | true =>
        simp only [Bool.not_true, Bool.false_eq_true, if_false]
        have hhi' : ∀ k, (i + j) / 2 ≤ k → k < n → f k = true := by
          intro k hk hkn
          exact hmono _ k hk hkn hf
        have := ih i ((i + j) / 2) (by omega) (by omega) (by omega) hlo hhi'
        exact ⟨this.1, by omega, this.2.2.1, this.2.2.2⟩
    · simp only [hlt, if_false]
      have : i = j := by omega
      subst this
      exact ⟨Nat.le_refl _, Nat.le_refl _, hlo, hhi⟩

/-- the predicate handed to `sort.Search` by `SearchStrings`: `English[h] >= w` -/
def geWord (w : Bytes) (h : Nat) : Bool := !(bytesLt (wordAt h) w)

theorem searchStrings_eq (w : Bytes) : searchStrings w = searchAux (geWord w) 2049 0 2048 := by
  unfold searchStrings
  simp only [english_length]
  rfl

theorem geWord_mono (w : Bytes) (a b : Nat) (hab : a ≤ b) (hb : b < 2048)
    (h : geWord w a = true) : geWord w b = true := by
  unfold geWord at h ⊢
  by_cases hab' : a = b
  · subst hab'; exact h
  · have hlt := english_sorted a b (by omega) hb
    cases hbw : bytesLt (wordAt b) w with
    | false => rfl
    | true =>
      have := bytesLt_trans _ _ _ hlt hbw
      rw [this] at h; exact absurd h (by decide)

/-- `sort.SearchStrings(English, w)` is the least index whose word is `>= w` bytewise
(2048 if there is none) -/
theorem searchStrings_spec (w : Bytes) :
    searchStrings w ≤ 2048 ∧
    (∀ k, k < searchStrings w → bytesLt (wordAt k) w = true) ∧
    (∀ k, searchStrings w ≤ k → k < 2048 → bytesLt (wordAt k) w = false) := by
  rw [searchStrings_eq]
  have := searchAux_spec (geWord w) 2048 (geWord_mono w) 2049 0 2048 (by omega) (by omega) (by omega)
    (by intro k hk; omega) (by intro k h1 h2; omega)
  refine ⟨this.2.1, ?_, ?_⟩
  · intro k hk
    have := this.2.2.1 k hk
    unfold geWord at this
    simpa using this
  · intro k hk hk2
    have := this.2.2.2 k hk hk2
    unfold geWord at this
    simpa using this

theorem searchStrings_wordAt (k : Nat) (hk : k < 2048) : searchStrings (wordAt k) = k := by
  obtain ⟨_, h2, h3⟩ := searchStrings_spec (wordAt k)
  by_cases hlt : k < searchStrings (wordAt k)
  · have := h2 k hlt
    rw [bytesLt_irrefl] at this; exact absurd this (by decide)
  · by_cases hgt : searchStrings (wordAt k) < k
    · have h4 := h3 (searchStrings (wordAt k)) (Nat.le_refl _) (by omega)
      have h5 := english_sorted _ k hgt hk
      rw [h5] at h4; exact absurd h4 (by decide)
    · omega

/-- the test `idx < len(English) && English[idx] == w` succeeds exactly for the list words -/
theorem member_iff (w : Bytes) :
    (searchStrings w < 2048 ∧ wordAt (searchStrings w) = w) ↔ w ∈ Gen.english := by
  constructor
  · rintro ⟨h1, h2⟩
    rw [← h2]; exact wordAt_mem _ h1
  · intro h
    obtain ⟨k, hk, rfl⟩ := (mem_english_iff w).mp h
    rw [searchStrings_wordAt k hk]
    exact ⟨hk, rfl⟩

/-- the Boolean test used by the model -/
theorem memberB_iff (w : Bytes) :
    (decide (searchStrings w < Gen.english.length) && wordAt (searchStrings w) == w) = true ↔
      w ∈ Gen.english := by
  rw [english_length, ← member_iff]
  simp

/-! ### `strings.Fields` -/

/-- bytes at which the UTF-8 encoding of a Unicode white-space rune can start -/
def spaceStart (c : UInt8) : Bool :=
  c == 9 || c == 10 || c == 11 || c == 12 || c == 13 || c == 32 ||
  c == 0xc2 || c == 0xe1 || c == 0xe2 || c == 0xe3

/-- the six ASCII white-space bytes -/
def asciiSpace (c : UInt8) : Bool :=
  c == 9 || c == 10 || c == 11 || c == 12 || c == 13 || c == 32

theorem spaceWidth_of_not_start (c : UInt8) (rest : Bytes) (h : spaceStart c = false) :
    spaceWidth (c :: rest) = 0 := by
  unfold spaceWidth
  split <;> simp_all [spaceStart]

theorem spaceWidth_of_asciiSpace (c : UInt8) (rest : Bytes) (h : asciiSpace c = true) :
    spaceWidth (c :: rest) = 1 := by
  simp only [asciiSpace, Bool.or_eq_true, beq_iff_eq] at h
  rcases h with ((((h | h) | h) | h) | h) | h <;> subst h <;> rfl

theorem isLower_not_spaceStart (c : UInt8) (h : isLower c = true) : spaceStart c = false := by
  simp only [isLower, Bool.and_eq_true, decide_eq_true_eq, UInt8.le_iff_toNat_le] at h
  have h1 : (97 : UInt8).toNat = 97 := rfl
  have h2 : (122 : UInt8).toNat = 122 := rfl
  rw [h1, h2] at h
  simp only [spaceStart, Bool.or_eq_false_iff, beq_eq_false_iff_ne, ne_eq]
  refine ⟨⟨⟨⟨⟨⟨⟨⟨⟨?_, ?_⟩, ?_⟩, ?_⟩, ?_⟩, ?_⟩, ?_⟩, ?_⟩, ?_⟩, ?_⟩ <;>
    (intro hc; subst hc; revert h; decide)

/-- no list word contains a byte at which `spaceWidth` could fire -/
theorem english_no_space (w : Bytes) (h : w ∈ Gen.english) : ∀ c ∈ w, spaceStart c = false :=
  fun c hc => isLower_not_spaceStart c ((english_lower w h).2 c hc)

theorem fieldsAux_nil (fuel : Nat) (cur : Bytes) (acc : List Bytes) :
    fieldsAux fuel [] cur acc = (if cur.isEmpty then acc else cur.reverse :: acc).reverse := by
  cases fuel <;> rfl

/-- consuming a run of non-space bytes -/
theorem fieldsAux_word (w : Bytes) (hw : ∀ c ∈ w, spaceStart c = false) :
    ∀ (fuel : Nat) (rest cur : Bytes) (acc : List Bytes), w.length ≤ fuel →
      fieldsAux fuel (w ++ rest) cur acc = fieldsAux (fuel - w.length) rest (w.reverse ++ cur) acc := by
  induction w with
  | nil => intro fuel rest cur acc _; simp
  | cons c w ih =>
    intro fuel rest cur acc hf
    obtain ⟨f, rfl⟩ : ∃ f, fuel = f + 1 := ⟨fuel - 1, by simp at hf; omega⟩
    have hc := spaceWidth_of_not_start c (w ++ rest) (hw c (by simp))
    rw [List.cons_append, fieldsAux]
    simp only [hc, beq_self_eq_true, if_true]
    rw [ih (fun c hc => hw c (by simp [hc])) f rest (c :: cur) acc (by simp at hf; omega)]
    simp

/-- consuming one ASCII space -/
theorem fieldsAux_space (fuel : Nat) (rest cur : Bytes) (acc : List Bytes) :
    fieldsAux (fuel + 1) (32 :: rest) cur acc =
      fieldsAux fuel rest [] (if cur.isEmpty then acc else cur.reverse :: acc) := by
  rw [fieldsAux]
  have : spaceWidth (32 :: rest) = 1 := rfl
  simp [this]

theorem fieldsAux_intercalate (ws : List Bytes) :
    ∀ (w : Bytes) (acc : List Bytes) (fuel : Nat),
      (∀ v ∈ w :: ws, v ≠ [] ∧ ∀ c ∈ v, spaceStart c = false) →
      (List.intercalate [32] (w :: ws)).length ≤ fuel →
      fieldsAux fuel (List.intercalate [32] (w :: ws)) [] acc = acc.reverse ++ (w :: ws) := by
  induction ws with
  | nil =>
    intro w acc fuel h hf
    have hw := h w (by simp)
    have hi : List.intercalate [32] [w] = w ++ [] := by simp [List.intercalate, List.intersperse]
    rw [hi] at hf ⊢
    rw [fieldsAux_word w hw.2 fuel [] [] acc (by simpa using hf), fieldsAux_nil]
    have : (w.reverse ++ []).isEmpty = false := by
      cases w with
      | nil => exact absurd rfl hw.1
      | cons a b => simp
    simp [hw.1]
  | cons w' ws ih =>
    intro w acc fuel h hf
    have hw := h w (by simp)
    rw [List.intercalate_cons_cons, List.append_assoc] at hf ⊢
    simp only [List.length_append, List.length_cons, List.length_nil] at hf
    rw [fieldsAux_word w hw.2 fuel _ [] acc (by omega)]
    obtain ⟨f, hf'⟩ : ∃ f, fuel - w.length = f + 1 := ⟨fuel - w.length - 1, by omega⟩
    rw [hf', List.singleton_append, fieldsAux_space]
    have : (w.reverse ++ []).isEmpty = false := by
      cases w with
      | nil => exact absurd rfl hw.1
      | cons a b => simp
    simp only [this, Bool.false_eq_true, if_false]
    rw [ih w' _ f (fun v hv => h v (by simp at hv ⊢; right; exact hv)) (by omega)]
    simp

/-- `strings.Fields(strings.Join(ws, " ")) = ws` for non-empty words free of space-rune starts -/
theorem fields_intercalate (ws : List Bytes)
    (h : ∀ v ∈ ws, v ≠ [] ∧ ∀ c ∈ v, spaceStart c = false) :
    fields (List.intercalate [32] ws) = ws := by
  unfold fields
  cases ws with
  | nil => simp [List.intercalate, fieldsAux]
  | cons w ws =>
    rw [fieldsAux_intercalate ws w [] _ h (by omega)]
    simp

theorem fields_intercalate_english (ws : List Bytes) (h : ∀ v ∈ ws, v ∈ Gen.english) :
    fields (List.intercalate [32] ws) = ws :=
  fields_intercalate ws fun v hv => ⟨english_nonempty v (h v hv), english_no_space v (h v hv)⟩

/-- every byte accumulated into a field is not an ASCII white-space byte, fields are non-empty -/
theorem fieldsAux_inv : ∀ (fuel : Nat) (s cur : Bytes) (acc : List Bytes),
    (∀ c ∈ cur, asciiSpace c = false) →
    (∀ f ∈ acc, f ≠ [] ∧ ∀ c ∈ f, asciiSpace c = false) →
    ∀ f ∈ fieldsAux fuel s cur acc, f ≠ [] ∧ ∀ c ∈ f, asciiSpace c = false := by
  have hfin : ∀ (cur : Bytes) (acc : List Bytes), (∀ c ∈ cur, asciiSpace c = false) →
      (∀ f ∈ acc, f ≠ [] ∧ ∀ c ∈ f, asciiSpace c = false) →
      ∀ f ∈ (if cur.isEmpty then acc else cur.reverse :: acc),
        f ≠ [] ∧ ∀ c ∈ f, asciiSpace c = false := by
    intro cur acc hcur hacc f hf
    cases cur with
    | nil => simpa using hacc f (by simpa using hf)
    | cons a b =>
      simp only [List.isEmpty_cons, Bool.false_eq_true, if_false, List.mem_cons] at hf
      rcases hf with rfl | hf
      · refine ⟨by simp, ?_⟩
        intro c hc
        exact hcur c (by simp at hc ⊢; exact hc.symm)
      · exact hacc f hf
  intro fuel
  induction fuel with
  | zero =>
    intro s cur acc hcur hacc f hf
    rw [fieldsAux] at hf
    exact hfin cur acc hcur hacc f (by simpa using hf)
  | succ fuel ih =>
    intro s cur acc hcur hacc f hf
    cases s with
    | nil =>
      rw [fieldsAux_nil] at hf
      exact hfin cur acc hcur hacc f (by simpa using hf)
    | cons c rest =>
      rw [fieldsAux] at hf
      by_cases hw : spaceWidth (c :: rest) = 0
      · simp only [hw, beq_self_eq_true, if_true] at hf
        refine ih rest (c :: cur) acc ?_ hacc f hf
        intro d hd
        rcases List.mem_cons.mp hd with rfl | hd
        · cases hd' : asciiSpace d with
          | false => rfl
          | true => rw [spaceWidth_of_asciiSpace d rest hd'] at hw; exact absurd hw (by decide)
        · exact hcur d hd
      · have : (spaceWidth (c :: rest) == 0) = false := by simpa using hw
        simp only [this, Bool.false_eq_true, if_false] at hf
        exact ih _ [] _ (by simp) (hfin cur acc hcur hacc) f hf

/-- every field returned by `strings.Fields` is non-empty and contains no ASCII white space -/
theorem fields_nonempty_nospace (s : Bytes) :
    ∀ f ∈ fields s, f ≠ [] ∧ ∀ c ∈ f, asciiSpace c = false :=
  fieldsAux_inv _ s [] [] (by simp) (by simp)

theorem fields_no_space32 (s : Bytes) (f : Bytes) (h : f ∈ fields s) : (32 : UInt8) ∉ f := by
  intro h32
  have := (fields_nonempty_nospace s f h).2 32 h32
  exact absurd this (by decide)

/-! ### bit strings -/

theorem bitsToNat_foldl (bs : List Bool) (acc : Nat) :
    bs.foldl (fun acc b => acc * 2 + (if b then 1 else 0)) acc = acc * 2 ^ bs.length + bitsToNat bs := by
  induction bs generalizing acc with
  | nil => simp [bitsToNat]
  | cons b bs ih =>
    unfold bitsToNat
    simp only [List.foldl_cons, List.length_cons]
    rw [ih, ih (0 * 2 + _)]
    simp [Nat.pow_succ, Nat.add_mul, Nat.mul_assoc, Nat.mul_comm 2, Nat.add_assoc]

theorem bitsToNat_append (a b : List Bool) :
    bitsToNat (a ++ b) = bitsToNat a * 2 ^ b.length + bitsToNat b := by
  unfold bitsToNat
  rw [List.foldl_append, bitsToNat_foldl]
  rfl

theorem bitsToNat_lt (bs : List Bool) : bitsToNat bs < 2 ^ bs.length := by
  induction bs with
  | nil => simp [bitsToNat]
  | cons b bs ih =>
    rw [show b :: bs = [b] ++ bs from rfl, bitsToNat_append]
    have : bitsToNat [b] ≤ 1 := by cases b <;> simp [bitsToNat]
    have h2 : bitsToNat [b] * 2 ^ bs.length ≤ 1 * 2 ^ bs.length := Nat.mul_le_mul_right _ this
    have h3 : 2 ^ ([b] ++ bs).length = 2 * 2 ^ bs.length := by
      simp only [List.length_append, List.length_cons, List.length_nil]
      rw [show 0 + 1 + bs.length = bs.length + 1 by omega, Nat.pow_succ]; omega
    rw [h3]
    omega

theorem bitsOfByte_length (b : UInt8) : (bitsOfByte b).length = 8 := by simp [bitsOfByte]

private theorem bitsOfByte_aux : ∀ n, n < 256 → bitsToNat (bitsOfByte (UInt8.ofNat n)) = n := by
  decide +kernel

theorem bitsToNat_bitsOfByte (b : UInt8) : bitsToNat (bitsOfByte b) = b.toNat := by
  have := bitsOfByte_aux b.toNat b.toNat_lt
  simpa using this

theorem flatMap_bits_length (bs : Bytes) : (bs.flatMap bitsOfByte).length = 8 * bs.length := by
  induction bs with
  | nil => rfl
  | cons b bs ih => simp [List.flatMap_cons, bitsOfByte_length, ih]; omega

/-- the bit string of a byte string denotes its big-endian value -/
theorem bitsToNat_flatMap (bs : Bytes) : bitsToNat (bs.flatMap bitsOfByte) = beNat bs := by
  induction bs with
  | nil => rfl
  | cons b bs ih =>
    rw [List.flatMap_cons, bitsToNat_append, ih, beNat_cons, flatMap_bits_length,
      bitsToNat_bitsOfByte, Nat.pow_mul]

theorem bitsToNat_take (bs : List Bool) (k : Nat) (h : k ≤ bs.length) :
    bitsToNat (bs.take k) = bitsToNat bs / 2 ^ (bs.length - k) := by
  conv => rhs; rw [← List.take_append_drop k bs, bitsToNat_append]
  have hl : (bs.drop k).length = bs.length - k := by simp
  have := bitsToNat_lt (bs.drop k)
  rw [hl] at this ⊢
  rw [List.length_append, List.length_take, List.length_drop, Nat.min_eq_left h,
    show k + (bs.length - k) - k = bs.length - k by omega] 
  rw [Nat.mul_comm, Nat.mul_add_div (Nat.two_pow_pos _), Nat.div_eq_of_lt this]
  rfl

theorem bitsToNat_drop (bs : List Bool) (k : Nat) (h : k ≤ bs.length) :
    bitsToNat (bs.drop k) = bitsToNat bs % 2 ^ (bs.length - k) := by
  conv => rhs; rw [← List.take_append_drop k bs, bitsToNat_append]
  have hl : (bs.drop k).length = bs.length - k := by simp
  have := bitsToNat_lt (bs.drop k)
  rw [hl] at this ⊢
  rw [List.length_append, List.length_take, List.length_drop, Nat.min_eq_left h,
    show k + (bs.length - k) - k = bs.length - k by omega] 
  rw [Nat.mul_comm, Nat.mul_add_mod, Nat.mod_eq_of_lt this]

theorem groups_eq (n : Nat) : ∀ bs : List Bool,
    groups n bs = (List.range n).map (fun j => bitsToNat ((bs.drop (11 * j)).take 11)) := by
  induction n with
  | zero => intro bs; rfl
  | succ n ih =>
    intro bs
    rw [groups, ih, List.range_succ_eq_map]
    simp only [List.map_cons, List.map_map, Nat.mul_zero, List.drop_zero, List.cons.injEq, true_and]
    apply List.map_congr_left
    intro j _
    simp only [Function.comp, List.drop_drop]
    rw [show 11 + 11 * j = 11 * (j + 1) by omega]

/-- the `j`-th 11-bit group as a shift and a mask -/
theorem group_val (bs : List Bool) (j : Nat) (h : 11 * (j + 1) ≤ bs.length) :
    bitsToNat ((bs.drop (11 * j)).take 11) = (bitsToNat bs >>> (bs.length - 11 * (j + 1))) % 2048 := by
  rw [bitsToNat_take _ 11 (by simp; omega), bitsToNat_drop _ _ (by omega), List.length_drop,
    Nat.shiftRight_eq_div_pow]
  have e1 : bs.length - 11 * j = (bs.length - 11 * (j + 1)) + 11 := by omega
  have e2 : bs.length - 11 * j - 11 = bs.length - 11 * (j + 1) := by omega
  rw [e2, e1, Nat.pow_add, Nat.mod_mul_right_div_self]

theorem group_lt (bs : List Bool) : bitsToNat (bs.take 11) < 2048 := by
  have := bitsToNat_lt (bs.take 11)
  have h2 : (bs.take 11).length ≤ 11 := by simp; omega
  calc _ < 2 ^ (bs.take 11).length := this
    _ ≤ 2 ^ 11 := Nat.pow_le_pow_right (by decide) h2

theorem groups_lt (n : Nat) : ∀ (bs : List Bool), ∀ i ∈ groups n bs, i < 2048 := by
  induction n with
  | zero => intro bs i h; simp [groups] at h
  | succ n ih =>
    intro bs i h
    rw [groups] at h
    rcases List.mem_cons.mp h with rfl | h
    · exact group_lt bs
    · exact ih _ i h

theorem groups_length (n : Nat) : ∀ (bs : List Bool), (groups n bs).length = n := by
  induction n with
  | zero => intro bs; rfl
  | succ n ih => intro bs; simp [groups, ih]


/-! ### `Mnemonic` -/

theorem ofString_empty : Bytes.ofString "" = [] := by decide +kernel

theorem mnemonicSalt_eq (pass : Bytes) :
    mnemonicSalt pass = [109, 110, 101, 109, 111, 110, 105, 99] ++ pass := by
  unfold mnemonicSalt
  have : "mnemonic".toUTF8.toList = [109, 110, 101, 109, 111, 110, 105, 99] := by decide +kernel
  rw [this]

/-- the length test of `Mnemonic` -/
theorem entropy_len_test (n : Nat) :
    ((n * 8) % 32 != 0 || n * 8 < 128 || n * 8 > 256) = false ↔ n ∈ [16, 20, 24, 28, 32] := by
  simp only [List.mem_cons, List.not_mem_nil, or_false, Bool.or_eq_false_iff, bne_eq_false_iff_eq,
    decide_eq_false_iff_not]
  omega

/-- the arithmetic BIP39 word indices of `ent` with first hash byte `h0` -/
def specIndices (ent : Bytes) (h0 : UInt8) : List Nat :=
  let cs := ent.length * 8 / 32
  let ms := ent.length * 8 + cs
  let V := beNat ent * 2 ^ cs + h0.toNat >>> (8 - cs)
  (List.range (ms / 11)).map (fun j => (V >>> (11 * (ms / 11 - 1 - j))) % 2048)

private theorem shift_helper (E H c k m : Nat) (hc : c ≤ 8) (hm : m = (8 - c) + k) :
    (E * 256 + H) / 2 ^ m % 2048 = (E * 2 ^ c + H / 2 ^ (8 - c)) / 2 ^ k % 2048 := by
  have h256 : 256 = 2 ^ c * 2 ^ (8 - c) := by
    rw [← Nat.pow_add, show c + (8 - c) = 8 by omega]
  have e : E * 2 ^ c + H / 2 ^ (8 - c) = (E * 256 + H) / 2 ^ (8 - c) := by
    rw [h256, ← Nat.mul_assoc, Nat.mul_comm (E * 2 ^ c), Nat.mul_add_div (Nat.two_pow_pos _)]
  rw [e, Nat.div_div_eq_div_mul, ← Nat.pow_add, hm]

theorem groups_eq_specIndices (ent : Bytes) (h0 : UInt8) (h : ent.length ∈ [16, 20, 24, 28, 32]) :
    groups ((ent.length * 8 + ent.length * 8 / 32) / 11) ((ent ++ [h0]).flatMap bitsOfByte) =
      specIndices ent h0 := by
  rw [groups_eq]
  unfold specIndices
  apply List.map_congr_left
  intro j hj
  rw [List.mem_range] at hj
  have hlen : ((ent ++ [h0]).flatMap bitsOfByte).length = 8 * ent.length + 8 := by
    rw [flatMap_bits_length]; simp; omega
  have hB : bitsToNat ((ent ++ [h0]).flatMap bitsOfByte) = beNat ent * 256 + h0.toNat := by
    rw [bitsToNat_flatMap, beNat_concat]
  simp only [List.mem_cons, List.not_mem_nil, or_false] at h
  rw [group_val _ j (by rw [hlen]; omega), hlen, hB]
  simp only [Nat.shiftRight_eq_div_pow]
  apply shift_helper <;> omega

/-- the BIP39 sentence of `ent` with first hash byte `h0` -/
def specSentence (ent : Bytes) (h0 : UInt8) : Bytes :=
  List.intercalate [32] ((specIndices ent h0).map wordAt)

theorem mnemonic_of_len (pr : Prims) (ent pass : Bytes) (h : ent.length ∈ [16, 20, 24, 28, 32]) :
    mnemonic pr ent pass =
      some (specSentence ent ((pr.sha256 ent).headD 0),
            pr.pbkdf2_512 (specSentence ent ((pr.sha256 ent).headD 0)) (mnemonicSalt pass) 2048 64) := by
  have ht := (entropy_len_test ent.length).mpr h
  unfold mnemonic
  simp only [ht, Bool.false_eq_true, if_false, ofString_empty, List.nil_append,
    groups_eq_specIndices ent _ h]
  rfl

theorem mnemonic_of_bad_len (pr : Prims) (ent pass : Bytes) (h : ent.length ∉ [16, 20, 24, 28, 32]) :
    mnemonic pr ent pass = none := by
  have ht : ((ent.length * 8) % 32 != 0 || ent.length * 8 < 128 || ent.length * 8 > 256) = true := by
    cases hc : ((ent.length * 8) % 32 != 0 || ent.length * 8 < 128 || ent.length * 8 > 256) with
    | true => rfl
    | false => exact absurd ((entropy_len_test _).mp hc) h
  unfold mnemonic
  simp only [ht, if_true]

theorem specIndices_length (ent : Bytes) (h0 : UInt8) :
    (specIndices ent h0).length = (ent.length * 8 + ent.length * 8 / 32) / 11 := by
  simp [specIndices]

theorem specIndices_lt (ent : Bytes) (h0 : UInt8) : ∀ i ∈ specIndices ent h0, i < 2048 := by
  intro i hi
  simp only [specIndices, List.mem_map] at hi
  obtain ⟨j, _, rfl⟩ := hi
  exact Nat.mod_lt _ (by decide)

/-! ### `MnemonicToSeed` -/

theorem word_count_test (n : Nat) :
    (n % 3 != 0 || n < 12 || n > 24) = false ↔ n ∈ [12, 15, 18, 21, 24] := by
  simp only [List.mem_cons, List.not_mem_nil, or_false, Bool.or_eq_false_iff, bne_eq_false_iff_eq,
    decide_eq_false_iff_not]
  omega

theorem mnemonicToSeed_eq_some_iff (pr : Prims) (s pass seed : Bytes) :
    mnemonicToSeed pr s pass = some seed ↔
      (fields s).length ∈ [12, 15, 18, 21, 24] ∧ (∀ w ∈ fields s, w ∈ Gen.english) ∧
      seed = pr.pbkdf2_512 s (mnemonicSalt pass) 2048 64 := by
  unfold mnemonicToSeed
  simp only
  cases hc : ((fields s).length % 3 != 0 || (fields s).length < 12 || (fields s).length > 24) with
  | true =>
    have : (fields s).length ∉ [12, 15, 18, 21, 24] := by
      intro h; rw [(word_count_test _).mpr h] at hc; exact absurd hc (by decide)
    simp [this]
  | false =>
    have hcnt := (word_count_test _).mp hc
    simp only [Bool.false_eq_true, if_false, hcnt, true_and]
    by_cases hall : ∀ w ∈ fields s, w ∈ Gen.english
    · have : (fields s).all (fun w => decide (searchStrings w < Gen.english.length) &&
          wordAt (searchStrings w) == w) = true := by
        rw [List.all_eq_true]; intro w hw; exact (memberB_iff w).mpr (hall w hw)
      rw [if_pos this]
      simp only [Option.some.injEq]
      exact ⟨fun h => ⟨hall, h.symm⟩, fun h => h.2.symm⟩
    · have : ¬ ((fields s).all (fun w => decide (searchStrings w < Gen.english.length) &&
          wordAt (searchStrings w) == w) = true) := by
        rw [List.all_eq_true]; intro h; apply hall; intro w hw; exact (memberB_iff w).mp (h w hw)
      rw [if_neg this]
      simp [hall]

theorem mnemonicToSeed_specSentence (pr : Prims) (ent pass : Bytes) (h0 : UInt8)
    (h : ent.length ∈ [16, 20, 24, 28, 32]) :
    mnemonicToSeed pr (specSentence ent h0) pass =
      some (pr.pbkdf2_512 (specSentence ent h0) (mnemonicSalt pass) 2048 64) := by
  have hmem : ∀ v ∈ (specIndices ent h0).map wordAt, v ∈ Gen.english := by
    intro v hv
    obtain ⟨i, hi, rfl⟩ := List.mem_map.mp hv
    exact wordAt_mem i (specIndices_lt ent h0 i hi)
  have hf : fields (specSentence ent h0) = (specIndices ent h0).map wordAt :=
    fields_intercalate_english _ hmem
  rw [mnemonicToSeed_eq_some_iff, hf]
  refine ⟨?_, hmem, rfl⟩
  rw [List.length_map, specIndices_length]
  simp only [List.mem_cons, List.not_mem_nil, or_false] at h ⊢
  omega

end GoBk.Bip39
