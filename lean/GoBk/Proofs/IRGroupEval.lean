/-
  GoBk.Proofs.IRGroupEval — PROGRAM-DEPENDENT part: the algebraic evaluator of Proofs/IRAlg.lean is
  run (by `simp only`, macro `ir_eval`) on the regenerated `GoBk.Gen.CurveIR.prog`, and the results
  are matched with the Jacobian group-law model of Proofs/FastCurve.lean (`jaddF_rep`,
  `jdoubleF_rep`).  These proofs depend on the current text of Gen/CurveIR.lean (a rewrite of a Go
  formula breaks them, which the framework reports).

  * `InRep x y z bx bY bz Q` / `ARep x y z lx ly lz Q`: representation of a point by field values
    and literal-zero flags, for inputs / outputs.
  * `dblJ_acc_alg`, `dblJ_dist_alg`: doubleJacobian (in place / distinct outputs): `y` or `z`
    literally zero ⇒ ∞; `z = 1` variant; generic variant — all equal `jdoubleF`.
  * `addJ_acc_alg`, `addJ_dist_alg`: addJacobian (accumulator / nine distinct pointers), ALL dispatch
    cases: first/second operand ∞ (copy); `z1=z2=1`, `z1=z2`, `z2=1`, generic; in each: equal points
    (doubleJacobian fallback, itself `z=1`/generic), opposite points (`(0,0,0)`), chord formula =
    `jaddF` up to the scaling `(μ²X, μ³Y, μZ)` of the representative (μ = 2, or `z1⁻³` for `z1=z2`).
    Every `z3` of a finite result is proved `≠ 0` in `F` (`dbl_core`, `add_leaf_fin`).
  * `toAff_alg`, `onCurve_alg`: fieldJacobianToBigAffine, IsOnCurve.
  * `addJ_acc_zero_alg`, `dblJ_acc_zero_alg`: `x ≡ y ≡ 0` is preserved (degenerate base point (0,0)).

  Kernel note: `ir_eval` is `simp -implicitDefEqProofs only […]`: with implicit `rfl`-steps the kernel
  re-evaluates the whole run by unfolding, without sharing (ran > 15 min / 18 GB); with explicit
  proof terms every step is checked locally (whole file: ~40 s).  Never pass an equation between
  field VARIABLES (`z = c1`) as a simp lemma to `ir_eval` (unifier runaway in `ZMod P`); branches are
  selected afterwards with `rw [if_pos h]` / `rw [if_neg h]`.

  not yet proved: — (all dispatch cases are proved).
-/
import GoBk.Proofs.IRAlg
import GoBk.Gen.CurveIR

set_option linter.unusedSimpArgs false

namespace GoBk.IRGroup
open GoBk.IR GoBk.IRA GoBk.IRAlg GoBk.Gen.Field GoBk.Gen.CurveIR GoBk.Proofs GoBk.Spec
open WeierstrassCurve.Affine

theorem prog0 : prog[0]? = some addZ1AndZ2EqualsOne := rfl
theorem prog1 : prog[1]? = some addZ1EqualsZ2 := rfl
theorem prog2 : prog[2]? = some addZ2EqualsOne := rfl
theorem prog3 : prog[3]? = some addGeneric := rfl
theorem prog4 : prog[4]? = some addJacobian := rfl
theorem prog5 : prog[5]? = some doubleZ1EqualsOne := rfl
theorem prog6 : prog[6]? = some doubleGeneric := rfl
theorem prog7 : prog[7]? = some doubleJacobian := rfl
theorem prog8 : prog[8]? = some fieldJacobianToBigAffine := rfl
theorem prog9 : prog[9]? = some isOnCurve := rfl

/-- run the algebraic evaluator on the goal; extra facts decide branches -/
macro "ir_eval" " [" ts:Lean.Parser.Tactic.simpLemma,* "]" : tactic =>
  `(tactic| simp -implicitDefEqProofs only [algBlock_nil, algBlock_cons, algStmt_ite, algStmt_op, algStmt_setFlag, algStmt_ret, algStmt_call,
    andThen_false, andThen_true, andThen_none, andThen_ite, iteA_some, iteA_none, iteA_ite,
    algCall_succ, condA, lzA, opF, AS.set, AS.getV, AS.getZ, AS.alloc, Frame.addr,
    addZ1AndZ2EqualsOne, addZ1AndZ2EqualsOne_body, addZ1EqualsZ2, addZ1EqualsZ2_body, addZ2EqualsOne, addZ2EqualsOne_body,
    addGeneric, addGeneric_body, addJacobian, addJacobian_body,
    doubleJacobian_body, doubleJacobian, doubleGeneric, doubleGeneric_body, doubleZ1EqualsOne, doubleZ1EqualsOne_body,
    fieldJacobianToBigAffine, fieldJacobianToBigAffine_body, isOnCurve, isOnCurve_body,
    prog0, prog1, prog2, prog3, prog4, prog5, prog6, prog7, prog8, prog9,
    fn_addZ1AndZ2EqualsOne, fn_addZ1EqualsZ2, fn_addZ2EqualsOne, fn_addGeneric, fn_addJacobian,
    fn_doubleGeneric, fn_doubleZ1EqualsOne, fn_doubleJacobian, bind_ite, ite_some_and, ite_some_or,
    isZero_setInt0, isZero_setInt1,
    List.getD_cons_zero, List.getD_cons_succ, List.set_cons_zero, List.set_cons_succ, List.length_cons, List.length_nil,
    List.map_cons, List.map_nil, List.cons_append, List.nil_append, List.replicate_succ, List.replicate_zero,
    List.append_nil, Option.bind_some, Option.map_some, Option.bind_none, if_true, if_false, Bool.false_eq_true,
    Nat.reduceAdd, Nat.reduceLT, Nat.reduceEqDiff, Nat.reduceSucc, reduceIte, Bool.not_true, Bool.not_false,
    Bool.or_false, Bool.false_or, Bool.or_true, Bool.true_or, Bool.and_false, Bool.false_and, Bool.and_true, Bool.true_and,
    decide_eq_true_eq, Bool.and_eq_true, Bool.or_eq_true, $ts,*])

/-! ## representation predicates at the algebraic level -/

/-- input triple: values `x y z`, literal-zero flags `bx bY bz` (a true flag forces the value `0`);
either the code's infinity test `(x.IsZero() && y.IsZero()) || z.IsZero()` holds and `Q = 0`, or
`z ≠ 0` and `(x,y,z)` represents `Q` -/
def InRep (x y z : F) (bx bY bz : Bool) (Q : E.Point) : Prop :=
  (bx = true → x = 0) ∧ (bY = true → y = 0) ∧ (bz = true → z = 0) ∧
  ((((bx && bY) || bz) = true ∧ Q = 0) ∨ (z ≠ 0 ∧ RepF (x, y, z) Q))

/-- output triple: either known literally zero where the code looks, and `Q = 0`; or `z ≠ 0` and
`(x,y,z)` represents `Q` -/
def ARep (x y z : F) (lx ly lz : Option Bool) (Q : E.Point) : Prop :=
  (Q = 0 ∧ ((lx = some true ∧ ly = some true) ∨ lz = some true)) ∨ (z ≠ 0 ∧ RepF (x, y, z) Q)

theorem repF_congr {a b c a' b' c' : F} {Q : E.Point} (h : RepF (a, b, c) Q)
    (ha : a' = a) (hb : b' = b) (hc : c' = c) : RepF (a', b', c') Q := by
  subst ha hb hc; exact h

theorem repF_fin {x y z : F} {Q : E.Point} (h : RepF (x, y, z) Q) (hz : z ≠ 0) :
    ∃ hns, Q = Point.some (x / z ^ 2) (y / z ^ 3) hns := by
  rcases h with ⟨h0, _⟩ | ⟨_, h⟩
  · exact absurd h0 hz
  · exact h

theorem repF_ne_zero {x y z : F} {Q : E.Point} (h : RepF (x, y, z) Q) (hz : z ≠ 0) : Q ≠ 0 := by
  obtain ⟨hns, rfl⟩ := repF_fin h hz
  exact Point.some_ne_zero _

/-- no point of order 2: a finite point has `y ≠ 0` -/
theorem repF_y_ne {x y z : F} {Q : E.Point} (h : RepF (x, y, z) Q) (hz : z ≠ 0) : y ≠ 0 := by
  intro hy
  subst hy
  have hd := jdoubleF_rep h
  simp only [jdoubleF, zero_mul, mul_zero] at hd
  rcases hd with ⟨_, hd⟩ | ⟨hd, _⟩
  · exact repF_ne_zero h hz (no_two_torsion Q hd)
  · exact hd rfl

theorem repF_xy_ne {x y z : F} {Q : E.Point} (h : RepF (x, y, z) Q) (hz : z ≠ 0) : ¬ (x = 0 ∧ y = 0) := by
  rintro ⟨rfl, rfl⟩
  exact repF_y_ne h hz rfl

/-- scaling a Jacobian triple by `μ ≠ 0` -/
theorem repF_scale {X Y Z X' Y' Z' : F} {Q : E.Point} (μ : F) (hμ : μ ≠ 0) (h : RepF (X', Y', Z') Q)
    (hX : X = μ ^ 2 * X') (hY : Y = μ ^ 3 * Y') (hZ : Z = μ * Z') : RepF (X, Y, Z) Q := by
  subst hX hY hZ
  rcases h with ⟨h0, hq⟩ | ⟨h0, hns, hq⟩
  · left
    simp only at h0 ⊢
    exact ⟨by rw [h0, mul_zero], hq⟩
  · right
    simp only at h0 hns hq ⊢
    refine ⟨mul_ne_zero hμ h0, ?_⟩
    rw [hq]
    exact some_congr hns (by field_simp) (by field_simp)

theorem repF_unscale {X Y Z X' Y' Z' : F} {Q : E.Point} (ν : F) (hν : ν ≠ 0) (h : RepF (X', Y', Z') Q)
    (hX : X' = ν ^ 2 * X) (hY : Y' = ν ^ 3 * Y) (hZ : Z' = ν * Z) : RepF (X, Y, Z) Q := by
  refine repF_scale ν⁻¹ (inv_ne_zero hν) h ?_ ?_ ?_
  · rw [hX]; field_simp
  · rw [hY]; field_simp
  · rw [hZ]; field_simp

theorem InRep.fin_facts {x y z : F} {bx bY bz : Bool} {Q : E.Point}
    (h : InRep x y z bx bY bz Q) (hz : z ≠ 0) (hr : RepF (x, y, z) Q) :
    bz = false ∧ bY = false ∧ (bx && bY) = false ∧ y ≠ 0 := by
  obtain ⟨kx, ky, kz, _⟩ := h
  have hy := repF_y_ne hr hz
  have e1 : bz = false := by cases bz; rfl; exact absurd (kz rfl) hz
  have e2 : bY = false := by cases bY; rfl; exact absurd (ky rfl) hy
  exact ⟨e1, e2, by rw [e2, Bool.and_false], hy⟩

/-! ## doubleJacobian -/

theorem dbl_core {x y z : F} {Q : E.Point} (hz : z ≠ 0) (hr : RepF (x, y, z) Q) {X Y Z : F}
    (hX : X = (jdoubleF (x, y, z)).1) (hY : Y = (jdoubleF (x, y, z)).2.1) (hZ : Z = (jdoubleF (x, y, z)).2.2)
    (lx ly lz : Option Bool) : ARep X Y Z lx ly lz (Q + Q) := by
  have hy := repF_y_ne hr hz
  right
  refine ⟨?_, repF_congr (jdoubleF_rep hr) hX hY hZ⟩
  rw [hZ]
  simp only [jdoubleF]
  exact mul_ne_zero two_ne_zero' (mul_ne_zero hy hz)


theorem InRep.toARep {x y z : F} {bx bY bz : Bool} {Q : E.Point} (h : InRep x y z bx bY bz Q) :
    ARep x y z (some bx) (some bY) (some bz) Q := by
  obtain ⟨-, -, -, ⟨hb, hQ⟩ | ⟨hz, hr⟩⟩ := h
  · left
    refine ⟨hQ, ?_⟩
    cases bx <;> cases bY <;> cases bz <;> simp_all
  · exact Or.inr ⟨hz, hr⟩

theorem InRep.inf_test {x y z : F} {bx bY bz : Bool} {Q : E.Point} (h : InRep x y z bx bY bz Q)
    (hz : z ≠ 0) (hr : RepF (x, y, z) Q) : ¬((bx = true ∧ bY = true) ∨ bz = true) := by
  obtain ⟨e1, e2, -, -⟩ := h.fin_facts hz hr
  rw [e1, e2]
  simp

/-! ## addJacobian: the three kinds of leaves -/

section AddLeaves
variable {x1 y1 z1 x2 y2 z2 : F} {Q R : E.Point}

/-- `u1 = u2`, `s1 ≠ s2`: the points are inverse to each other -/
theorem add_leaf_zero (hz1 : z1 ≠ 0) (hz2 : z2 ≠ 0) (hp : RepF (x1, y1, z1) Q) (hq : RepF (x2, y2, z2) R)
    (hH : x2 * (z1 * z1) - x1 * (z2 * z2) = 0)
    (hr : y2 * (z1 * (z1 * z1)) - y1 * (z2 * (z2 * z2)) ≠ 0) : Q + R = 0 := by
  have h := jaddF_rep hp hq
  simp only [jaddF, if_neg hz1, if_neg hz2, if_pos hH, if_neg hr] at h
  rcases h with ⟨_, h⟩ | ⟨h, _⟩
  · exact h
  · exact absurd rfl h

/-- `u1 = u2`, `s1 = s2`: the points are equal -/
theorem add_leaf_dbl (hz1 : z1 ≠ 0) (hz2 : z2 ≠ 0) (hp : RepF (x1, y1, z1) Q) (hq : RepF (x2, y2, z2) R)
    (hH : x2 * (z1 * z1) - x1 * (z2 * z2) = 0)
    (hr : y2 * (z1 * (z1 * z1)) - y1 * (z2 * (z2 * z2)) = 0) : Q + R = Q + Q := by
  have h := jaddF_rep hp hq
  simp only [jaddF, if_neg hz1, if_neg hz2, if_pos hH, if_pos hr] at h
  have h' := jdoubleF_rep hp
  have hy := repF_y_ne hp hz1
  have hz3 : (jdoubleF (x1, y1, z1)).2.2 ≠ 0 := by
    simp only [jdoubleF]
    exact mul_ne_zero two_ne_zero' (mul_ne_zero hy hz1)
  obtain ⟨n1, e1⟩ := repF_fin (x := (jdoubleF (x1, y1, z1)).1) (y := (jdoubleF (x1, y1, z1)).2.1) h hz3
  obtain ⟨n2, e2⟩ := repF_fin (x := (jdoubleF (x1, y1, z1)).1) (y := (jdoubleF (x1, y1, z1)).2.1) h' hz3
  rw [e1, e2]

/-- `u1 ≠ u2`: the chord formula, up to the scaling `μ` of the Jacobian representative -/
theorem add_leaf_fin (hz1 : z1 ≠ 0) (hz2 : z2 ≠ 0) (hp : RepF (x1, y1, z1) Q) (hq : RepF (x2, y2, z2) R)
    (hH : x2 * (z1 * z1) - x1 * (z2 * z2) ≠ 0) (μ : F) (hμ : μ ≠ 0) {X Y Z : F}
    (hX : X = μ ^ 2 * (jaddF (x1, y1, z1) (x2, y2, z2)).1)
    (hY : Y = μ ^ 3 * (jaddF (x1, y1, z1) (x2, y2, z2)).2.1)
    (hZ : Z = μ * (jaddF (x1, y1, z1) (x2, y2, z2)).2.2) (lx ly lz : Option Bool) :
    ARep X Y Z lx ly lz (Q + R) := by
  have h := jaddF_rep hp hq
  have hz3 : (jaddF (x1, y1, z1) (x2, y2, z2)).2.2 ≠ 0 := by
    simp only [jaddF, if_neg hz1, if_neg hz2, if_neg hH]
    exact mul_ne_zero (mul_ne_zero hz1 hz2) hH
  right
  refine ⟨?_, repF_scale μ hμ h hX hY hZ⟩
  rw [hZ]
  exact mul_ne_zero hμ hz3

theorem add_leaf_fin' (hz1 : z1 ≠ 0) (hz2 : z2 ≠ 0) (hp : RepF (x1, y1, z1) Q) (hq : RepF (x2, y2, z2) R)
    (hH : x2 * (z1 * z1) - x1 * (z2 * z2) ≠ 0) (ν : F) (hν : ν ≠ 0) {X Y Z : F}
    (hX : (jaddF (x1, y1, z1) (x2, y2, z2)).1 = ν ^ 2 * X)
    (hY : (jaddF (x1, y1, z1) (x2, y2, z2)).2.1 = ν ^ 3 * Y)
    (hZ : (jaddF (x1, y1, z1) (x2, y2, z2)).2.2 = ν * Z) (lx ly lz : Option Bool) :
    ARep X Y Z lx ly lz (Q + R) := by
  refine add_leaf_fin hz1 hz2 hp hq hH ν⁻¹ (inv_ne_zero hν) ?_ ?_ ?_ lx ly lz
  · rw [hX]; field_simp
  · rw [hY]; field_simp
  · rw [hZ]; field_simp

theorem arep_zero {X Y Z : F} {S : E.Point} (h : S = 0) :
    ARep X Y Z (some true) (some true) (some true) S := Or.inl ⟨h, Or.inr rfl⟩

end AddLeaves

theorem cancel_sq {a b z : F} (hz : z ≠ 0) (h : b * (z * z) - a * (z * z) = 0) : a = b := by
  have h' : (b - a) * (z * z) = 0 := by linear_combination h
  rcases mul_eq_zero.1 h' with h0 | h0
  · linear_combination -h0
  · exact absurd h0 (mul_ne_zero hz hz)

theorem cancel_cube {a b z : F} (hz : z ≠ 0) (h : b * (z * (z * z)) - a * (z * (z * z)) = 0) : a = b := by
  have h' : (b - a) * (z * (z * z)) = 0 := by linear_combination h
  rcases mul_eq_zero.1 h' with h0 | h0
  · linear_combination -h0
  · exact absurd h0 (mul_ne_zero hz (mul_ne_zero hz hz))

macro "getv_ring" " [" ts:Lean.Parser.Tactic.simpLemma,* "]" : tactic =>
  `(tactic| (simp only [jaddF, jdoubleF, AS.getV, List.getD_cons_zero, List.getD_cons_succ, $ts,*]; push_cast; ring))


/-! ## doubleJacobian (in place, and with distinct outputs) -/

set_option maxHeartbeats 1000000 in
theorem dblJ_acc_alg (c1 c7 cb x y z : F) (bx bY bz : Bool) (fl : Nat → Bool) (Q : E.Point)
    (hc1 : c1 = 1) (h : InRep x y z bx bY bz Q) :
    ∃ r, algBlock (algCall prog 8) ⟨[c1,c7,cb,x,y,z,x,y,z],
        [none,none,none,some bx,some bY,some bz, some bx, some bY, some bz]⟩
        {params := [3,4,5,3,4,5], locBase := 9, flags := fl} doubleJacobian_body = some r ∧
      ARep (r.st.getV 3) (r.st.getV 4) (r.st.getV 5) (r.st.getZ 3) (r.st.getZ 4) (r.st.getZ 5) (Q + Q) := by
  have h' := h
  obtain ⟨kx, ky, kz, hh⟩ := h
  rcases hh with ⟨hb, hQ⟩ | ⟨hz, hr⟩
  · subst hQ
    have hb' : bY = true ∨ bz = true := by
      cases bx <;> cases bY <;> cases bz <;> simp_all
    ir_eval []
    rw [if_pos hb']
    refine ⟨_, rfl, ?_⟩
    left
    exact ⟨add_zero 0, Or.inr rfl⟩
  · obtain ⟨ebz, ebY, -, hy⟩ := h'.fin_facts hz hr
    subst ebz ebY
    ir_eval []
    by_cases hz1 : z = c1
    · rw [if_pos hz1]
      refine ⟨_, rfl, ?_⟩
      subst hz1 hc1
      refine dbl_core hz hr ?_ ?_ ?_ _ _ _ <;>
        getv_ring []
    · rw [if_neg hz1]
      refine ⟨_, rfl, ?_⟩
      refine dbl_core hz hr ?_ ?_ ?_ _ _ _ <;>
        getv_ring []

set_option maxHeartbeats 1000000 in
theorem dblJ_dist_alg (c1 c7 cb x y z : F) (bx bY bz : Bool) (o1 o2 o3 : F) (bo1 bo2 bo3 : Bool) (fl : Nat → Bool) (Q : E.Point)
    (hc1 : c1 = 1) (h : InRep x y z bx bY bz Q) :
    ∃ r, algBlock (algCall prog 8) ⟨[c1,c7,cb,x,y,z,o1,o2,o3],
        [none,none,none,some bx,some bY,some bz, some bo1, some bo2, some bo3]⟩
        {params := [3,4,5,6,7,8], locBase := 9, flags := fl} doubleJacobian_body = some r ∧
      ARep (r.st.getV 6) (r.st.getV 7) (r.st.getV 8) (r.st.getZ 6) (r.st.getZ 7) (r.st.getZ 8) (Q + Q) := by
  have h' := h
  obtain ⟨kx, ky, kz, hh⟩ := h
  rcases hh with ⟨hb, hQ⟩ | ⟨hz, hr⟩
  · subst hQ
    have hb' : bY = true ∨ bz = true := by
      cases bx <;> cases bY <;> cases bz <;> simp_all
    ir_eval []
    rw [if_pos hb']
    refine ⟨_, rfl, ?_⟩
    left
    exact ⟨add_zero 0, Or.inr rfl⟩
  · obtain ⟨ebz, ebY, -, hy⟩ := h'.fin_facts hz hr
    subst ebz ebY
    ir_eval []
    by_cases hz1 : z = c1
    · rw [if_pos hz1]
      refine ⟨_, rfl, ?_⟩
      subst hz1 hc1
      refine dbl_core hz hr ?_ ?_ ?_ _ _ _ <;>
        getv_ring []
    · rw [if_neg hz1]
      refine ⟨_, rfl, ?_⟩
      refine dbl_core hz hr ?_ ?_ ?_ _ _ _ <;>
        getv_ring []

/-! ## addJacobian (accumulator pattern, and with distinct outputs) -/

set_option maxHeartbeats 4000000 in
theorem addJ_acc_alg (c1 c7 cb x1 y1 z1 x2 y2 z2 : F) (b1x b1y b1z b2x b2y b2z : Bool) (fl : Nat → Bool)
    (Q R : E.Point) (hc1 : c1 = 1)
    (h1 : InRep x1 y1 z1 b1x b1y b1z Q) (h2 : InRep x2 y2 z2 b2x b2y b2z R) :
    ∃ r, algBlock (algCall prog 8) ⟨[c1,c7,cb,x1,y1,z1,x2,y2,z2,x1,y1,z1],
        [none,none,none,some b1x,some b1y,some b1z, some b2x, some b2y, some b2z, some b1x,some b1y,some b1z]⟩
        {params := [3,4,5,6,7,8,3,4,5], locBase := 12, flags := fl} addJacobian_body = some r ∧
      ARep (r.st.getV 3) (r.st.getV 4) (r.st.getV 5) (r.st.getZ 3) (r.st.getZ 4) (r.st.getZ 5) (Q + R) := by
  subst hc1
  have a1 := h1.toARep
  have a2 := h2.toARep
  have h1' := h1
  have h2' := h2
  obtain ⟨k1x, k1y, k1z, ⟨hb1, hQ⟩ | ⟨hz1, hp⟩⟩ := h1
  · -- first point at infinity: copy the second
    subst hQ
    have hb1' : (b1x = true ∧ b1y = true) ∨ b1z = true := by simpa using hb1
    ir_eval [hb1']
    refine ⟨_, rfl, ?_⟩
    rw [zero_add]
    exact a2
  have hn1 := h1'.inf_test hz1 hp
  obtain ⟨k2x, k2y, k2z, ⟨hb2, hR⟩ | ⟨hz2, hq⟩⟩ := h2
  · subst hR
    have hb2' : (b2x = true ∧ b2y = true) ∨ b2z = true := by simpa using hb2
    ir_eval [hn1, hb2']
    refine ⟨_, rfl, ?_⟩
    rw [add_zero]
    exact a1
  have hn2 := h2'.inf_test hz2 hq
  obtain ⟨-, e1y, -, hy1⟩ := h1'.fin_facts hz1 hp
  have hyz : ¬(y1 = 0 ∨ z1 = 0) := not_or.2 ⟨hy1, hz1⟩
  have hbyz : ¬(b1y = true ∨ z1 = 0) := by rw [e1y]; simpa using hz1
  ir_eval [hn1, hn2]
  by_cases hA : z1 = 1 ∧ z2 = 1
  · -- addZ1AndZ2EqualsOne
    rw [if_pos hA]
    obtain ⟨e1, e2⟩ := hA
    by_cases hX : x1 = x2
    · rw [if_pos hX]
      by_cases hY : y1 = y2
      · rw [if_pos hY, if_neg hyz, if_pos e1]
        refine ⟨_, rfl, ?_⟩
        subst e1 e2 hX hY
        rw [add_leaf_dbl hz1 hz2 hp hq (by ring) (by ring)]
        refine dbl_core hz1 hp ?_ ?_ ?_ _ _ _ <;> getv_ring []
      · rw [if_neg hY]
        refine ⟨_, rfl, ?_⟩
        subst e1 e2 hX
        exact arep_zero (add_leaf_zero hz1 hz2 hp hq (by ring) (fun h => hY (by linear_combination -h)))
    · rw [if_neg hX]
      refine ⟨_, rfl, ?_⟩
      subst e1 e2
      have hH : x2 * ((1:F) * 1) - x1 * ((1:F) * 1) ≠ 0 := fun h => hX (by linear_combination -h)
      exact add_leaf_fin hz1 hz2 hp hq hH 2 two_ne_zero'
        (by getv_ring [if_neg hz1, if_neg hH]) (by getv_ring [if_neg hz1, if_neg hH])
        (by getv_ring [if_neg hz1, if_neg hH]) _ _ _
  rw [if_neg hA]
  by_cases hB : z1 = z2
  · -- addZ1EqualsZ2
    rw [if_pos hB]
    have hz1c : ¬ z1 = 1 := fun h => hA ⟨h, hB ▸ h⟩
    by_cases hX : x1 = x2
    · rw [if_pos hX]
      by_cases hY : y1 = y2
      · rw [if_pos hY, if_neg hyz, if_neg hz1c]
        refine ⟨_, rfl, ?_⟩
        subst hB hX hY
        rw [add_leaf_dbl hz1 hz2 hp hq (by ring) (by ring)]
        refine dbl_core hz1 hp ?_ ?_ ?_ _ _ _ <;> getv_ring []
      · rw [if_neg hY]
        refine ⟨_, rfl, ?_⟩
        subst hB hX
        exact arep_zero (add_leaf_zero hz1 hz2 hp hq (by ring) (fun h => hY (cancel_cube hz1 h)))
    · rw [if_neg hX]
      refine ⟨_, rfl, ?_⟩
      subst hB
      have hH : x2 * (z1 * z1) - x1 * (z1 * z1) ≠ 0 := fun h => hX (cancel_sq hz1 h)
      exact add_leaf_fin' hz1 hz2 hp hq hH (z1 * z1 * z1) (mul_ne_zero (mul_ne_zero hz1 hz1) hz1)
        (by getv_ring [if_neg hz1, if_neg hH]) (by getv_ring [if_neg hz1, if_neg hH])
        (by getv_ring [if_neg hz1, if_neg hH]) _ _ _
  rw [if_neg hB]
  by_cases hC : z2 = 1
  · -- addZ2EqualsOne
    rw [if_pos hC]
    have hz1c : ¬ z1 = 1 := fun h => hA ⟨h, hC⟩
    by_cases hX : x1 = x2 * (z1 * z1)
    · rw [if_pos hX]
      by_cases hY : y1 = y2 * (z1 * z1) * z1
      · rw [if_pos hY, if_neg hyz, if_neg hz1c]
        refine ⟨_, rfl, ?_⟩
        subst hC
        rw [add_leaf_dbl hz1 hz2 hp hq (by rw [hX]; ring) (by rw [hY]; ring)]
        refine dbl_core hz1 hp ?_ ?_ ?_ _ _ _ <;> getv_ring []
      · rw [if_neg hY]
        refine ⟨_, rfl, ?_⟩
        subst hC
        exact arep_zero (add_leaf_zero hz1 hz2 hp hq (by rw [hX]; ring)
          (fun h => hY (by linear_combination -h)))
    · rw [if_neg hX]
      refine ⟨_, rfl, ?_⟩
      subst hC
      have hH : x2 * (z1 * z1) - x1 * ((1:F) * 1) ≠ 0 := fun h => hX (by linear_combination -h)
      exact add_leaf_fin hz1 hz2 hp hq hH 2 two_ne_zero'
        (by getv_ring [if_neg hz1, if_neg hz2, if_neg hH]) (by getv_ring [if_neg hz1, if_neg hz2, if_neg hH])
        (by getv_ring [if_neg hz1, if_neg hz2, if_neg hH]) _ _ _
  -- addGeneric
  rw [if_neg hC]
  by_cases hX : x1 * (z2 * z2) = x2 * (z1 * z1)
  · rw [if_pos hX]
    by_cases hY : y1 * (z2 * z2) * z2 = y2 * (z1 * z1) * z1
    · rw [if_pos hY, if_neg hbyz]
      have hH : x2 * (z1 * z1) - x1 * (z2 * z2) = 0 := by linear_combination -hX
      have hr : y2 * (z1 * (z1 * z1)) - y1 * (z2 * (z2 * z2)) = 0 := by linear_combination -hY
      by_cases hz1c : z1 = 1
      · rw [if_pos hz1c]
        refine ⟨_, rfl, ?_⟩
        rw [add_leaf_dbl hz1 hz2 hp hq hH hr]
        subst hz1c
        refine dbl_core hz1 hp ?_ ?_ ?_ _ _ _ <;> getv_ring []
      · rw [if_neg hz1c]
        refine ⟨_, rfl, ?_⟩
        rw [add_leaf_dbl hz1 hz2 hp hq hH hr]
        refine dbl_core hz1 hp ?_ ?_ ?_ _ _ _ <;> getv_ring []
    · rw [if_neg hY]
      refine ⟨_, rfl, ?_⟩
      exact arep_zero (add_leaf_zero hz1 hz2 hp hq (by linear_combination -hX)
        (fun h => hY (by linear_combination -h)))
  · rw [if_neg hX]
    refine ⟨_, rfl, ?_⟩
    have hH : x2 * (z1 * z1) - x1 * (z2 * z2) ≠ 0 := fun h => hX (by linear_combination -h)
    exact add_leaf_fin hz1 hz2 hp hq hH 2 two_ne_zero'
      (by getv_ring [if_neg hz1, if_neg hz2, if_neg hH]) (by getv_ring [if_neg hz1, if_neg hz2, if_neg hH])
      (by getv_ring [if_neg hz1, if_neg hz2, if_neg hH]) _ _ _

set_option maxHeartbeats 4000000 in
theorem addJ_dist_alg (c1 c7 cb x1 y1 z1 x2 y2 z2 : F) (b1x b1y b1z b2x b2y b2z : Bool) (o1 o2 o3 : F) (bo1 bo2 bo3 : Bool) (fl : Nat → Bool)
    (Q R : E.Point) (hc1 : c1 = 1)
    (h1 : InRep x1 y1 z1 b1x b1y b1z Q) (h2 : InRep x2 y2 z2 b2x b2y b2z R) :
    ∃ r, algBlock (algCall prog 8) ⟨[c1,c7,cb,x1,y1,z1,x2,y2,z2,o1,o2,o3],
        [none,none,none,some b1x,some b1y,some b1z, some b2x, some b2y, some b2z, some bo1,some bo2,some bo3]⟩
        {params := [3,4,5,6,7,8,9,10,11], locBase := 12, flags := fl} addJacobian_body = some r ∧
      ARep (r.st.getV 9) (r.st.getV 10) (r.st.getV 11) (r.st.getZ 9) (r.st.getZ 10) (r.st.getZ 11) (Q + R) := by
  subst hc1
  have a1 := h1.toARep
  have a2 := h2.toARep
  have h1' := h1
  have h2' := h2
  obtain ⟨k1x, k1y, k1z, ⟨hb1, hQ⟩ | ⟨hz1, hp⟩⟩ := h1
  · -- first point at infinity: copy the second
    subst hQ
    have hb1' : (b1x = true ∧ b1y = true) ∨ b1z = true := by simpa using hb1
    ir_eval [hb1']
    refine ⟨_, rfl, ?_⟩
    rw [zero_add]
    exact a2
  have hn1 := h1'.inf_test hz1 hp
  obtain ⟨k2x, k2y, k2z, ⟨hb2, hR⟩ | ⟨hz2, hq⟩⟩ := h2
  · subst hR
    have hb2' : (b2x = true ∧ b2y = true) ∨ b2z = true := by simpa using hb2
    ir_eval [hn1, hb2']
    refine ⟨_, rfl, ?_⟩
    rw [add_zero]
    exact a1
  have hn2 := h2'.inf_test hz2 hq
  obtain ⟨-, e1y, -, hy1⟩ := h1'.fin_facts hz1 hp
  have hyz : ¬(y1 = 0 ∨ z1 = 0) := not_or.2 ⟨hy1, hz1⟩
  have hbyz : ¬(b1y = true ∨ z1 = 0) := by rw [e1y]; simpa using hz1
  ir_eval [hn1, hn2]
  by_cases hA : z1 = 1 ∧ z2 = 1
  · -- addZ1AndZ2EqualsOne
    rw [if_pos hA]
    obtain ⟨e1, e2⟩ := hA
    by_cases hX : x1 = x2
    · rw [if_pos hX]
      by_cases hY : y1 = y2
      · rw [if_pos hY, if_neg hyz, if_pos e1]
        refine ⟨_, rfl, ?_⟩
        subst e1 e2 hX hY
        rw [add_leaf_dbl hz1 hz2 hp hq (by ring) (by ring)]
        refine dbl_core hz1 hp ?_ ?_ ?_ _ _ _ <;> getv_ring []
      · rw [if_neg hY]
        refine ⟨_, rfl, ?_⟩
        subst e1 e2 hX
        exact arep_zero (add_leaf_zero hz1 hz2 hp hq (by ring) (fun h => hY (by linear_combination -h)))
    · rw [if_neg hX]
      refine ⟨_, rfl, ?_⟩
      subst e1 e2
      have hH : x2 * ((1:F) * 1) - x1 * ((1:F) * 1) ≠ 0 := fun h => hX (by linear_combination -h)
      exact add_leaf_fin hz1 hz2 hp hq hH 2 two_ne_zero'
        (by getv_ring [if_neg hz1, if_neg hH]) (by getv_ring [if_neg hz1, if_neg hH])
        (by getv_ring [if_neg hz1, if_neg hH]) _ _ _
  rw [if_neg hA]
  by_cases hB : z1 = z2
  · -- addZ1EqualsZ2
    rw [if_pos hB]
    have hz1c : ¬ z1 = 1 := fun h => hA ⟨h, hB ▸ h⟩
    by_cases hX : x1 = x2
    · rw [if_pos hX]
      by_cases hY : y1 = y2
      · rw [if_pos hY, if_neg hyz, if_neg hz1c]
        refine ⟨_, rfl, ?_⟩
        subst hB hX hY
        rw [add_leaf_dbl hz1 hz2 hp hq (by ring) (by ring)]
        refine dbl_core hz1 hp ?_ ?_ ?_ _ _ _ <;> getv_ring []
      · rw [if_neg hY]
        refine ⟨_, rfl, ?_⟩
        subst hB hX
        exact arep_zero (add_leaf_zero hz1 hz2 hp hq (by ring) (fun h => hY (cancel_cube hz1 h)))
    · rw [if_neg hX]
      refine ⟨_, rfl, ?_⟩
      subst hB
      have hH : x2 * (z1 * z1) - x1 * (z1 * z1) ≠ 0 := fun h => hX (cancel_sq hz1 h)
      exact add_leaf_fin' hz1 hz2 hp hq hH (z1 * z1 * z1) (mul_ne_zero (mul_ne_zero hz1 hz1) hz1)
        (by getv_ring [if_neg hz1, if_neg hH]) (by getv_ring [if_neg hz1, if_neg hH])
        (by getv_ring [if_neg hz1, if_neg hH]) _ _ _
  rw [if_neg hB]
  by_cases hC : z2 = 1
  · -- addZ2EqualsOne
    rw [if_pos hC]
    have hz1c : ¬ z1 = 1 := fun h => hA ⟨h, hC⟩
    by_cases hX : x1 = x2 * (z1 * z1)
    · rw [if_pos hX]
      by_cases hY : y1 = y2 * (z1 * z1) * z1
      · rw [if_pos hY, if_neg hyz, if_neg hz1c]
        refine ⟨_, rfl, ?_⟩
        subst hC
        rw [add_leaf_dbl hz1 hz2 hp hq (by rw [hX]; ring) (by rw [hY]; ring)]
        refine dbl_core hz1 hp ?_ ?_ ?_ _ _ _ <;> getv_ring []
      · rw [if_neg hY]
        refine ⟨_, rfl, ?_⟩
        subst hC
        exact arep_zero (add_leaf_zero hz1 hz2 hp hq (by rw [hX]; ring)
          (fun h => hY (by linear_combination -h)))
    · rw [if_neg hX]
      refine ⟨_, rfl, ?_⟩
      subst hC
      have hH : x2 * (z1 * z1) - x1 * ((1:F) * 1) ≠ 0 := fun h => hX (by linear_combination -h)
      exact add_leaf_fin hz1 hz2 hp hq hH 2 two_ne_zero'
        (by getv_ring [if_neg hz1, if_neg hz2, if_neg hH]) (by getv_ring [if_neg hz1, if_neg hz2, if_neg hH])
        (by getv_ring [if_neg hz1, if_neg hz2, if_neg hH]) _ _ _
  -- addGeneric
  rw [if_neg hC]
  by_cases hX : x1 * (z2 * z2) = x2 * (z1 * z1)
  · rw [if_pos hX]
    by_cases hY : y1 * (z2 * z2) * z2 = y2 * (z1 * z1) * z1
    · rw [if_pos hY, if_neg hbyz]
      have hH : x2 * (z1 * z1) - x1 * (z2 * z2) = 0 := by linear_combination -hX
      have hr : y2 * (z1 * (z1 * z1)) - y1 * (z2 * (z2 * z2)) = 0 := by linear_combination -hY
      by_cases hz1c : z1 = 1
      · rw [if_pos hz1c]
        refine ⟨_, rfl, ?_⟩
        rw [add_leaf_dbl hz1 hz2 hp hq hH hr]
        subst hz1c
        refine dbl_core hz1 hp ?_ ?_ ?_ _ _ _ <;> getv_ring []
      · rw [if_neg hz1c]
        refine ⟨_, rfl, ?_⟩
        rw [add_leaf_dbl hz1 hz2 hp hq hH hr]
        refine dbl_core hz1 hp ?_ ?_ ?_ _ _ _ <;> getv_ring []
    · rw [if_neg hY]
      refine ⟨_, rfl, ?_⟩
      exact arep_zero (add_leaf_zero hz1 hz2 hp hq (by linear_combination -hX)
        (fun h => hY (by linear_combination -h)))
  · rw [if_neg hX]
    refine ⟨_, rfl, ?_⟩
    have hH : x2 * (z1 * z1) - x1 * (z2 * z2) ≠ 0 := fun h => hX (by linear_combination -h)
    exact add_leaf_fin hz1 hz2 hp hq hH 2 two_ne_zero'
      (by getv_ring [if_neg hz1, if_neg hz2, if_neg hH]) (by getv_ring [if_neg hz1, if_neg hz2, if_neg hH])
      (by getv_ring [if_neg hz1, if_neg hz2, if_neg hH]) _ _ _

/-! ## fieldJacobianToBigAffine, IsOnCurve -/

set_option maxHeartbeats 1000000 in
theorem toAff_alg (c1 c7 cb x y z : F) (bx bY bz : Bool) (fl : Nat → Bool) :
    ∃ r, algBlock (algCall prog 8) ⟨[c1,c7,cb,x,y,z,0,0],
        [none,none,none,some bx,some bY,some bz, some true, some true]⟩
        {params := [3,4,5], locBase := 6, flags := fl} fieldJacobianToBigAffine_body = some r ∧
      r.st.getV 3 = x * (z⁻¹ * z⁻¹) ∧ r.st.getV 4 = y * (z⁻¹ * z⁻¹ * z⁻¹) := by
  ir_eval []
  exact ⟨_, rfl, rfl, rfl⟩

set_option maxHeartbeats 1000000 in
theorem onCurve_alg (c1 c7 cb x y : F) (bx bY : Bool) (fl : Nat → Bool) :
    ∃ r, algBlock (algCall prog 8) ⟨[c1,c7,cb,x,y,0,0],
        [none,none,none,some bx,some bY, some true, some true]⟩
        {params := [3,4], locBase := 5, flags := fl} isOnCurve_body = some r ∧
      r.fr.flags 0 = decide (y * y = x * x * x + ((7 : ℕ) : F)) := by
  ir_eval []
  exact ⟨_, rfl, rfl⟩

/-! ## the degenerate operand `(0,0)`: x ≡ y ≡ 0 is preserved (for `ScalarMult(0,0,k)`) -/

/-- the evaluator succeeds and the cells `i`, `j` of the result hold the value `0` -/
def ZeroOut (i j : Nat) (e : Option AOutS) : Prop := ∃ r, e = some r ∧ r.st.getV i = 0 ∧ r.st.getV j = 0

theorem zeroOut_ite {i j : Nat} {c : Prop} [Decidable c] {a b : Option AOutS}
    (h1 : c → ZeroOut i j a) (h2 : ¬c → ZeroOut i j b) : ZeroOut i j (if c then a else b) := by
  split
  · exact h1 ‹_›
  · exact h2 ‹_›

theorem zeroOut_some {i j : Nat} {r : AOutS} (h1 : r.st.getV i = 0) (h2 : r.st.getV j = 0) :
    ZeroOut i j (some r) := ⟨r, rfl, h1, h2⟩

macro "zero_leaves" : tactic =>
  `(tactic| repeat' (first | (apply zeroOut_ite <;> intro _) | (apply zeroOut_some <;> first | getv_ring [] | rfl)))

set_option maxHeartbeats 4000000 in
theorem addJ_acc_zero_alg (c1 c7 cb z1 z2 : F) (b1x b1y b1z b2x b2y b2z : Bool) (fl : Nat → Bool) :
    ZeroOut 3 4 (algBlock (algCall prog 8) ⟨[c1,c7,cb,0,0,z1,0,0,z2,0,0,z1],
        [none,none,none,some b1x,some b1y,some b1z, some b2x, some b2y, some b2z, some b1x,some b1y,some b1z]⟩
        {params := [3,4,5,6,7,8,3,4,5], locBase := 12, flags := fl} addJacobian_body) := by
  ir_eval []
  zero_leaves

set_option maxHeartbeats 4000000 in
theorem dblJ_acc_zero_alg (c1 c7 cb z : F) (bx bY bz : Bool) (fl : Nat → Bool) :
    ZeroOut 3 4 (algBlock (algCall prog 8) ⟨[c1,c7,cb,0,0,z,0,0,z],
        [none,none,none,some bx,some bY,some bz, some bx, some bY, some bz]⟩
        {params := [3,4,5,3,4,5], locBase := 9, flags := fl} doubleJacobian_body) := by
  ir_eval []
  zero_leaves


end GoBk.IRGroup
