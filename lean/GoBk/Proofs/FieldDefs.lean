/-
  GoBk.Proofs.FieldDefs — value, prime, magnitude and canonicity for the generated field model
  (`GoBk.Gen.Field`, regenerated from bec/field.go by /verif/translator).

  ## The magnitude predicate (read this first)

  A `fieldVal` is 10 words in base 2^26 (word 9 carries the top 22 bits).  The Go comments speak of
  a "magnitude" m: informally "every word is at most m times its normalised maximum".  The precise
  predicate under which *all* theorems of C09/C10 hold simultaneously and are inductive is

      MagLe m f  :=  (∀ i < 9, f.nᵢ ≤ m · (2^26 + 2^20))  ∧  f.n₉ ≤ m · 2^22

  i.e. there is a slack of 2^20 per unit of magnitude in words 0..8.  The slack is real: `Mul2` and
  `SquareVal` fold the final carry into word 2 *without* renormalising it, so their output word 2
  can exceed 2^26 - 1 (by up to about 2^19.3); their output is "magnitude 1" only for this relaxed
  predicate (`mul2_sound`, `squareVal_sound` prove `MagLe 1`).  With this predicate:

    * `Add`/`Add2`     : `MagLe ma a → MagLe mb b → ma + mb ≤ 63 → …  MagLe (ma+mb)`
    * `AddInt ui`      : `MagLe m f → m + 1 ≤ 63 → ui ≤ 2^26+2^20 → … MagLe (m+1)`
    * `MulInt k`       : `MagLe m f → k·m ≤ 63 → … MagLe (k·m)`     (63·(2^26+2^20) < 2^32 ≤ 64·(…))
    * `NegateVal v m`  : `MagLe m v → m ≤ 63 → … MagLe (m+1)`; 63 is the largest possible m: the
                         subtraction `(m+1)·(2^26-1) - nᵢ` must not underflow for nᵢ = m·(2^26+2^20)
                         (⇔ m·(2^20+1) ≤ 2^26-1 ⇔ m ≤ 63) and `(m+1)·(2^26-1)` must fit 32 bits
                         (⇔ m ≤ 63); see `negateVal_64_wraps`.
    * `Mul2`/`SquareVal`: `MagLe 8` operands, result `MagLe 1`.
    * `Normalise`      : every word ≤ 2^32 - 2^21 (this contains `MagLe 62`, hence `MagLe 32`).

  The curve code uses Negate with m ≤ 18, MulInt with products ≤ 17 and normalises at ≤ 18.

  Core Lean only.
-/
import GoBk.Gen.Field

set_option linter.unusedSimpArgs false
set_option linter.unusedVariables false

namespace GoBk.Proofs.Field
open GoBk.Gen.Field

/-- the secp256k1 field prime -/
def P : Nat := 2^256 - 2^32 - 977

theorem P_eq : P = 115792089237316195423570985008687907853269984665640564039457584007908834671663 := by
  simp only [P, Nat.reducePow, Nat.reduceSub]

/-- value of a word vector: Σ nᵢ·2^(26 i) -/
def _root_.GoBk.Gen.Field.FN.val (a : FN) : Nat :=
  a.n0 + a.n1 * 2^26 + a.n2 * 2^52 + a.n3 * 2^78 + a.n4 * 2^104 + a.n5 * 2^130 + a.n6 * 2^156
    + a.n7 * 2^182 + a.n8 * 2^208 + a.n9 * 2^234

/-- value of a field representation: Σ nᵢ·2^(26 i) -/
def _root_.GoBk.Gen.Field.FV.val (f : FV) : Nat :=
  f.n0.toNat + f.n1.toNat * 2^26 + f.n2.toNat * 2^52 + f.n3.toNat * 2^78 + f.n4.toNat * 2^104
    + f.n5.toNat * 2^130 + f.n6.toNat * 2^156 + f.n7.toNat * 2^182 + f.n8.toNat * 2^208
    + f.n9.toNat * 2^234

theorem val_toN (f : FV) : f.toN.val = f.val := rfl

/-- per-unit word bound for words 0..8: 2^26 + 2^20 -/
theorem wordUnit_eq : (68157440 : Nat) = 2^26 + 2^20 := by simp only [Nat.reducePow, Nat.reduceAdd]
/-- per-unit word bound for word 9: 2^22 -/
theorem topUnit_eq : (4194304 : Nat) = 2^22 := by simp only [Nat.reducePow]

/-- magnitude at most `m` (see the header): words 0..8 ≤ m·(2^26+2^20), word 9 ≤ m·2^22. -/
def MagLe (m : Nat) (f : FV) : Prop :=
  f.n0.toNat ≤ 68157440 * m ∧ f.n1.toNat ≤ 68157440 * m ∧ f.n2.toNat ≤ 68157440 * m ∧
  f.n3.toNat ≤ 68157440 * m ∧ f.n4.toNat ≤ 68157440 * m ∧ f.n5.toNat ≤ 68157440 * m ∧
  f.n6.toNat ≤ 68157440 * m ∧ f.n7.toNat ≤ 68157440 * m ∧ f.n8.toNat ≤ 68157440 * m ∧
  f.n9.toNat ≤ 4194304 * m

instance (m : Nat) (f : FV) : Decidable (MagLe m f) := by unfold MagLe; infer_instance

theorem MagLe.mono {m m' : Nat} {f : FV} (h : MagLe m f) (hm : m ≤ m') : MagLe m' f := by
  unfold MagLe at *
  omega

/-- canonical (normalised) representation: words 0..8 < 2^26, word 9 < 2^22. -/
def Canon (f : FV) : Prop :=
  f.n0.toNat < 67108864 ∧ f.n1.toNat < 67108864 ∧ f.n2.toNat < 67108864 ∧ f.n3.toNat < 67108864 ∧
  f.n4.toNat < 67108864 ∧ f.n5.toNat < 67108864 ∧ f.n6.toNat < 67108864 ∧ f.n7.toNat < 67108864 ∧
  f.n8.toNat < 67108864 ∧ f.n9.toNat < 4194304

instance (f : FV) : Decidable (Canon f) := by unfold Canon; infer_instance

theorem Canon.magLe {f : FV} (h : Canon f) : MagLe 1 f := by
  unfold Canon at h; unfold MagLe; omega

theorem Canon.val_lt {f : FV} (h : Canon f) : f.val < 2^256 := by
  unfold Canon at h; unfold FV.val; omega

/-- a concrete non-trivial value used in the non-vacuity examples -/
def exA : FV := ⟨0x3fffc2e, 0x3ffffbf, 0x3ffffff, 12345, 0x3ffffff, 7, 0x2aaaaaa, 0x3ffffff, 1, 0x3fffff⟩
/-- a second one (not canonical: magnitude 2) -/
def exB : FV := ⟨0x7fff85e, 5, 0x4100000, 0x7ffffff, 0, 99, 0x1555555, 0x3ffffff, 0x4000000, 0x7ffffe⟩

example : Canon exA := by decide
example : MagLe 2 exB ∧ ¬ MagLe 1 exB := by decide

end GoBk.Proofs.Field
