import GoBk.Model.XKeyStore
import GoBk.Spec.Bip32
import GoBk.Proofs.BytesLemmas
import GoBk.Proofs.KeyLemmas
import GoBk.Proofs.Base58Lemmas
/-
  Lemmas for C04, C08 (extended-key strings) and C18 (value-level facts about `SetNet`/`Zero`):
  `Child` in stages, well-formedness `WF` and its closure, `String`/`NewKeyFromString` round trip,
  correspondence with the BIP-0032 functions of `GoBk.Spec.Bip32`, `Neuter`/`Child` commutation.
-/
namespace GoBk.Bip32
open GoBk Bytes Spec

/-! ### `Child` in stages -/

/-- the 33-byte key field of the HMAC input -/
def childData33 (k : XKey) (i : Nat) : Bytes :=
  if i ≥ Gen.k_hardenedKeyStart then
    ((List.replicate (if 33 - k.key.length < 1 then 1 else 33 - k.key.length) 0 ++ k.key) ++
      List.replicate 33 0).take 33
  else (k.pubKeyBytes ++ List.replicate 33 0).take 33

/-- `I = HMAC-SHA512(chain code, data ‖ ser32(i))` -/
def childI (pr : Prims) (k : XKey) (i : Nat) : Bytes := pr.hmac512 k.chainCode (childData33 k i ++ be32 i)
def childIL (pr : Prims) (k : XKey) (i : Nat) : Bytes := (childI pr k i).take 32
def childCC (pr : Prims) (k : XKey) (i : Nat) : Bytes := (childI pr k i).drop 32
def childFP (pr : Prims) (k : XKey) : Bytes := (pr.hash160 k.pubKeyBytes).take 4

def childPriv (pr : Prims) (k : XKey) (i : Nat) : XKey :=
  { key := natBE ((beNat (childIL pr k i) + beNat k.key) % N), chainCode := childCC pr k i,
    parentFP := childFP pr k, version := k.version, childNum := i, depth := k.depth + 1, isPrivate := true }

def childPub (pr : Prims) (k : XKey) (i : Nat) : Except Err XKey :=
  if (Curve.scalarBaseMult (childIL pr k i)).1 = 0 || (Curve.scalarBaseMult (childIL pr k i)).2 = 0 then
    .error .invalidChild
  else
    match Ecdsa.parsePubKey k.key with
    | none => .error .badPubKey
    | some pub =>
      .ok { key := Ecdsa.serCompressed (Curve.add (Curve.scalarBaseMult (childIL pr k i)) pub),
            chainCode := childCC pr k i, parentFP := childFP pr k, version := k.version, childNum := i,
            depth := k.depth + 1, isPrivate := false }

theorem child_eq (pr : Prims) (k : XKey) (i : Nat) :
    child pr k i =
      if k.depth == Gen.k_maxUint8 then .error .maxDepth else
      if !k.isPrivate && decide (i ≥ Gen.k_hardenedKeyStart) then .error .hardFromPublic else
      if decide (beNat (childIL pr k i) ≥ N) || decide (beNat (childIL pr k i) = 0) then .error .invalidChild else
      if k.isPrivate then .ok (childPriv pr k i) else childPub pr k i := rfl

theorem pubKeyBytes_setNet (k : XKey) (a b : Bytes) : (setNet k a b).pubKeyBytes = k.pubKeyBytes := rfl

theorem child_setNet (pr : Prims) (k : XKey) (a b : Bytes) (i : Nat) :
    child pr (setNet k a b) i =
      (child pr k i).map (fun c => { c with version := (setNet k a b).version }) := by
  rw [child_eq, child_eq]
  have e1 : childIL pr (setNet k a b) i = childIL pr k i := rfl
  have e2 : (setNet k a b).depth = k.depth := rfl
  have e3 : (setNet k a b).isPrivate = k.isPrivate := rfl
  rw [e1, e2, e3]
  split
  · rfl
  · split
    · rfl
    · split
      · rfl
      · split
        · rfl
        · unfold childPub
          rw [e1]
          have e4 : (setNet k a b).key = k.key := rfl
          rw [e4]
          split
          · rfl
          · split <;> rfl

theorem child_version (pr : Prims) (k c : XKey) (i : Nat) (h : child pr k i = .ok c) :
    c.version = k.version := by
  rw [child_eq] at h
  split at h
  · cases h
  · split at h
    · cases h
    · split at h
      · cases h
      · split at h
        · injection h with h; subst h; rfl
        · unfold childPub at h
          split at h
          · cases h
          · split at h
            · cases h
            · injection h with h; subst h; rfl

theorem child_depth (pr : Prims) (k c : XKey) (i : Nat) (h : child pr k i = .ok c) :
    c.depth = k.depth + 1 ∧ c.childNum = i ∧ c.isPrivate = k.isPrivate ∧ c.chainCode = childCC pr k i ∧
      c.parentFP = childFP pr k := by
  rw [child_eq] at h
  split at h
  · cases h
  · split at h
    · cases h
    · split at h
      · cases h
      · split at h
        · rename_i hp; injection h with h; subst h; exact ⟨rfl, rfl, hp.symm, rfl, rfl⟩
        · rename_i hp
          unfold childPub at h
          split at h
          · cases h
          · split at h
            · cases h
            · injection h with h; subst h
              exact ⟨rfl, rfl, by simpa using hp, rfl, rfl⟩

/-! ### `SetNet` and `Zero` at value level (C18) -/

theorem setNet_eq (k : XKey) (a b : Bytes) :
    setNet k a b = { k with version := if k.isPrivate then a else b } := rfl

theorem toString_zero (pr : Prims) (k : XKey) : toString pr (zero k) = zeroedString := rfl

theorem zero_isPrivate (k : XKey) : (zero k).isPrivate = false := rfl


open GoBk.Proofs GoBk.Proofs.KeyBytes

/-! ### constants -/

theorem N_eq : Bip32.N = Spec.N := c_N_eq
theorem masterKey_eq : Gen.masterKey = Spec.Bip32.seedKey := by decide
theorem hardenedStart_eq : Gen.k_hardenedKeyStart = 2 ^ 31 := rfl

/-! ### curve facts: a finite point of secp256k1 has no zero coordinate -/

theorem seven_nonresidue : powMod 7 ((P - 1) / 2) P = P - 1 := by decide +kernel

theorem valid_coords_ne_zero {a : Pt} (hv : valid a = true) (hne : a ≠ inf) : a.1 ≠ 0 ∧ a.2 ≠ 0 := by
  obtain ⟨x, y⟩ := a
  have hon := onCurve_of_valid hv hne
  constructor
  · rintro (rfl : x = 0)
    rw [onCurve_cast] at hon
    have h7 : (y : F) ^ 2 = 7 := by rw [hon]; simp
    have hy0 : (y : F) ≠ 0 := by
      intro e; rw [e] at h7; simp at h7; exact seven_ne_zero' h7.symm
    have h1 : (7 : F) ^ ((P - 1) / 2) = 1 := by
      rw [← h7, ← pow_mul, show 2 * ((P - 1) / 2) = P - 1 by decide]
      exact ZMod.pow_card_sub_one_eq_one hy0
    have h2 : ((powMod 7 ((P - 1) / 2) P : ℕ) : F) = 1 := by
      rw [cast_powMod]; exact_mod_cast h1
    rw [seven_nonresidue, Nat.cast_sub (by decide : 1 ≤ P), ZMod.natCast_self] at h2
    have : (2 : F) = 0 := by
      have h3 : (0 : F) - ((1 : ℕ) : F) = 1 := h2
      rw [Nat.cast_one] at h3
      linear_combination -h3
    exact two_ne_zero' this
  · rintro (rfl : y = 0)
    have hd : pdouble (x, 0) = inf := by simp [pdouble]
    rw [pdouble_eq_padd hv] at hd
    obtain ⟨Q, hQ⟩ := (valid_iff _).1 hv
    rw [← hQ, padd_enc, enc_eq_inf_iff] at hd
    have := no_two_torsion Q hd
    rw [this] at hQ
    exact hne hQ.symm

theorem smul_G_ne_inf' {n : Nat} (h1 : 1 ≤ n) (h2 : n < Spec.N) : smul n G ≠ inf := by
  intro e
  have := Nat.le_of_dvd (by omega) ((smul_G_eq_inf_iff n).1 e)
  omega

theorem smul_G_coords_ne_zero {n : Nat} (h1 : 1 ≤ n) (h2 : n < Spec.N) :
    (smul n G).1 ≠ 0 ∧ (smul n G).2 ≠ 0 :=
  valid_coords_ne_zero (valid_smul n valid_G) (smul_G_ne_inf' h1 h2)


/-! ### byte-level facts -/

theorem take_append_len {α} (a r : List α) (n : Nat) (h : a.length = n) : (a ++ r).take n = a := by
  subst h; simp

theorem drop_append_len {α} (a r : List α) (n : Nat) (h : a.length = n) : (a ++ r).drop n = r := by
  subst h; simp

theorem be32_eq_ser32 (i : Nat) (h : i < 2 ^ 32) : be32 i = Spec.Bip32.ser32 i := by
  unfold be32 Spec.Bip32.ser32; rw [Nat.mod_eq_of_lt h]

theorem be32_length (i : Nat) : (be32 i).length = 4 :=
  natBEpad_length 4 _ (by have := Nat.mod_lt i (show 0 < 2 ^ 32 by decide); omega)

theorem beNat_be32 (i : Nat) (h : i < 2 ^ 32) : beNat (be32 i) = i := by
  unfold be32; rw [beNat_natBEpad, Nat.mod_eq_of_lt h]

/-- a string of at most 32 bytes, left-padded to 32, is `ser256` of its value -/
theorem padLeft32_eq_ser256 (key : Bytes) (h : key.length ≤ 32) :
    padLeft 32 key = Spec.Bip32.ser256 (beNat key) := by
  have hl := padLeft_length_of_le 32 key h
  have := natBEpad_beNat (padLeft 32 key)
  rw [hl, beNat_padLeft] at this
  exact this.symm

theorem serCompressed_eq_serP (q : Pt) : Ecdsa.serCompressed q = Spec.Bip32.serP q := by
  unfold Ecdsa.serCompressed Spec.Bip32.serP Spec.Bip32.ser256
  have : q.2 % 2 = 0 ∨ q.2 % 2 = 1 := by omega
  rcases this with h | h <;> simp [h]

theorem serCompressed_length {q : Pt} (hv : valid q = true) : (Ecdsa.serCompressed q).length = 33 := by
  simp [Ecdsa.serCompressed, natBEpad32_length_of_lt_P (valid_lt hv).1]

theorem parse_serCompressed {q : Pt} (hv : valid q = true) (hne : q ≠ inf) :
    Ecdsa.parsePubKey (Ecdsa.serCompressed q) = some q := by
  rw [parsePubKey_iff_sec1]
  refine ⟨(valid_lt hv).1, (valid_lt hv).2, onCurve_of_valid hv hne, Or.inr (Or.inr ?_)⟩
  unfold Ecdsa.serCompressed
  by_cases hp : q.2 % 2 = 1
  · rw [parity_odd hp]; simp [hp]
  · rw [parity_even hp]; simp [hp]

/-- a 33-byte string that parses is the compressed form of the parsed point -/
theorem eq_serCompressed_of_parse {b : Bytes} {q : Pt} (h : Ecdsa.parsePubKey b = some q)
    (hl : b.length = 33) : b = Ecdsa.serCompressed q ∧ valid q = true ∧ q ≠ inf := by
  obtain ⟨hx, hy, hon, hb⟩ := (parsePubKey_iff_sec1 b q).1 h
  have lx := natBEpad32_length_of_lt_P hx
  have ly := natBEpad32_length_of_lt_P hy
  refine ⟨?_, valid_of_onCurve hx hy hon, ne_inf_of_onCurve hon⟩
  rcases hb with rfl | rfl | rfl
  · simp [lx, ly] at hl
  · simp [lx, ly] at hl
  · unfold Ecdsa.serCompressed
    by_cases hp : q.2 % 2 = 1
    · rw [parity_odd hp]; simp [hp]
    · rw [parity_even hp]; simp [hp]

theorem pubKeyBytes_priv (k : XKey) (h : k.isPrivate = true) :
    k.pubKeyBytes = Ecdsa.serCompressed (smul (beNat k.key) G) := by
  unfold XKey.pubKeyBytes; rw [h]; simp only [Bool.not_true, Bool.false_eq_true, if_false]
  rw [scalarBaseMult_eq]

theorem pubKeyBytes_pub (k : XKey) (h : k.isPrivate = false) : k.pubKeyBytes = k.key := by
  unfold XKey.pubKeyBytes; rw [h]; rfl

/-! ### the HMAC input of `Child` -/

theorem childData33_hardened (k : XKey) (i : Nat) (hl : k.key.length ≤ 32) (hi : i ≥ 2 ^ 31) :
    childData33 k i = 0 :: padLeft 32 k.key := by
  unfold childData33
  rw [if_pos (by rw [hardenedStart_eq]; exact hi), if_neg (by omega)]
  have e : List.replicate (33 - k.key.length) (0 : UInt8) = 0 :: List.replicate (32 - k.key.length) 0 := by
    rw [show 33 - k.key.length = (32 - k.key.length) + 1 by omega, List.replicate_succ]
  rw [e]
  apply take_append_len
  simp; omega

theorem childData33_normal (k : XKey) (i : Nat) (hl : k.pubKeyBytes.length = 33) (hi : i < 2 ^ 31) :
    childData33 k i = k.pubKeyBytes := by
  unfold childData33
  rw [if_neg (by rw [hardenedStart_eq]; omega)]
  exact take_append_len _ _ _ hl


/-! ### well-formed extended keys -/

/-- the shape every key produced by `NewMaster`, `Child`, `Neuter`, `NewKeyFromString` has
(for `Child` up to the degenerate zero key, see `child_WF`) -/
def WF (k : XKey) : Prop :=
  k.version.length = 4 ∧ k.chainCode.length = 32 ∧ k.parentFP.length = 4 ∧ k.depth < 256 ∧
  k.childNum < 2 ^ 32 ∧
  (k.isPrivate = true → 1 ≤ beNat k.key ∧ beNat k.key < N ∧ k.key.length ≤ 32) ∧
  (k.isPrivate = false → k.key.length = 33 ∧ (Ecdsa.parsePubKey k.key).isSome = true)

instance (k : XKey) : Decidable (WF k) := by unfold WF; exact inferInstance

theorem WF.pub_point {k : XKey} (h : WF k) (hp : k.isPrivate = false) :
    ∃ K, Ecdsa.parsePubKey k.key = some K ∧ k.key = Ecdsa.serCompressed K ∧ valid K = true ∧ K ≠ inf := by
  obtain ⟨hl, hs⟩ := h.2.2.2.2.2.2 hp
  obtain ⟨K, hK⟩ := Option.isSome_iff_exists.1 hs
  exact ⟨K, hK, eq_serCompressed_of_parse hK hl⟩

theorem WF.pubKeyBytes_length {k : XKey} (h : WF k) : k.pubKeyBytes.length = 33 := by
  cases hp : k.isPrivate
  · rw [pubKeyBytes_pub k hp]; exact (h.2.2.2.2.2.2 hp).1
  · rw [pubKeyBytes_priv k hp]; exact serCompressed_length (valid_smul _ valid_G)

/-! ### `Child`: refusals -/

theorem child_depth_255 (pr : Prims) (k : XKey) (i : Nat) (h : k.depth = 255) :
    child pr k i = .error .maxDepth := by
  rw [child_eq, if_pos (by rw [h]; rfl)]

theorem child_hardened_from_public (pr : Prims) (k : XKey) (i : Nat) (hd : k.depth ≠ 255)
    (hp : k.isPrivate = false) (hi : i ≥ 2 ^ 31) : child pr k i = .error .hardFromPublic := by
  rw [child_eq, if_neg (by simpa [Gen.k_maxUint8] using hd), if_pos (by have : 2147483648 ≤ i := hi; simp [hp, hardenedStart_eq, this])]

theorem child_hardened_from_public_fails (pr : Prims) (k : XKey) (i : Nat)
    (hp : k.isPrivate = false) (hi : i ≥ 2 ^ 31) : (child pr k i).toOption = none := by
  by_cases hd : k.depth = 255
  · rw [child_depth_255 pr k i hd]; rfl
  · rw [child_hardened_from_public pr k i hd hp hi]; rfl

/-! ### `Child` on a private key is `CKDpriv` -/

theorem childI_priv (pr : Prims) (k : XKey) (i : Nat) (h : WF k) (hp : k.isPrivate = true) (hi : i < 2 ^ 32) :
    childI pr k i = Spec.Bip32.ckdPrivI pr.hmac512 (beNat k.key) k.chainCode i := by
  unfold childI Spec.Bip32.ckdPrivI
  have hl := (h.2.2.2.2.2.1 hp).2.2
  by_cases hh : i ≥ 2 ^ 31
  · rw [if_pos hh, childData33_hardened k i hl hh, padLeft32_eq_ser256 _ hl, be32_eq_ser32 i hi]; rfl
  · rw [if_neg hh, childData33_normal k i h.pubKeyBytes_length (by omega), pubKeyBytes_priv k hp,
      serCompressed_eq_serP, be32_eq_ser32 i hi]; rfl

theorem childFP_priv (pr : Prims) (k : XKey) (hp : k.isPrivate = true) :
    childFP pr k = Spec.Bip32.fingerprint pr.hash160 (Spec.Bip32.point (beNat k.key)) := by
  unfold childFP Spec.Bip32.fingerprint
  rw [pubKeyBytes_priv k hp, serCompressed_eq_serP]; rfl

/-- **`Child` on a private key**, complete: with `I = HMAC-SHA512(c_par, …)` exactly as in
`CKDpriv`, the call fails iff `parse256(I_L) ≥ n` or `parse256(I_L) = 0`, and otherwise returns
`k_i = (parse256(I_L) + k_par) mod n` (stored as minimal big-endian bytes), `c_i = I_R`, depth+1,
child number `i`, the parent's fingerprint and the parent's version. -/
theorem child_priv_eq (pr : Prims) (k : XKey) (i : Nat) (h : WF k) (hp : k.isPrivate = true)
    (hd : k.depth ≠ 255) (hi : i < 2 ^ 32) :
    child pr k i =
      (let I := Spec.Bip32.ckdPrivI pr.hmac512 (beNat k.key) k.chainCode i
       let IL := Spec.Bip32.parse256 (I.take 32)
       if IL ≥ Spec.N ∨ IL = 0 then .error .invalidChild
       else .ok { key := natBE ((IL + beNat k.key) % Spec.N), chainCode := I.drop 32,
                  parentFP := Spec.Bip32.fingerprint pr.hash160 (Spec.Bip32.point (beNat k.key)),
                  version := k.version, childNum := i, depth := k.depth + 1, isPrivate := true }) := by
  rw [child_eq, if_neg (by simpa [Gen.k_maxUint8] using hd), if_neg (by simp [hp])]
  simp only [hp, if_true]
  unfold childPriv childIL childCC
  rw [childI_priv pr k i h hp hi, childFP_priv pr k hp, N_eq]
  generalize Spec.Bip32.ckdPrivI pr.hmac512 (beNat k.key) k.chainCode i = I
  by_cases hc : beNat (I.take 32) ≥ Spec.N ∨ beNat (I.take 32) = 0
  · rw [if_pos (by simpa using hc)]; exact (if_pos hc).symm
  · rw [if_neg (by simpa using hc)]; exact (if_neg hc).symm


/-- agreement with `CKDpriv` where BIP-0032 defines a key and `I_L ≠ 0` -/
theorem child_of_ckdPriv (pr : Prims) (k : XKey) (i : Nat) (h : WF k) (hp : k.isPrivate = true)
    (hd : k.depth ≠ 255) (hi : i < 2 ^ 32) (ki : Nat) (ci : Bytes)
    (hs : Spec.Bip32.ckdPriv pr.hmac512 (beNat k.key) k.chainCode i = some (ki, ci))
    (h0 : Spec.Bip32.parse256 ((Spec.Bip32.ckdPrivI pr.hmac512 (beNat k.key) k.chainCode i).take 32) ≠ 0) :
    child pr k i = .ok { key := natBE ki, chainCode := ci,
                         parentFP := Spec.Bip32.fingerprint pr.hash160 (Spec.Bip32.point (beNat k.key)),
                         version := k.version, childNum := i, depth := k.depth + 1, isPrivate := true } := by
  rw [child_priv_eq pr k i h hp hd hi]
  unfold Spec.Bip32.ckdPriv at hs
  simp only [] at hs ⊢
  split at hs
  · cases hs
  · rename_i hc
    injection hs with hs
    injection hs with e1 e2
    rw [if_neg (by intro hx; rcases hx with hx | hx; exact hc (Or.inl hx); exact h0 hx), e1, e2]

/-- conversely every non-degenerate key returned by `Child` is the `CKDpriv` child -/
theorem ckdPriv_of_child (pr : Prims) (k c : XKey) (i : Nat) (h : WF k) (hp : k.isPrivate = true)
    (hi : i < 2 ^ 32) (hc : child pr k i = .ok c) (hne : beNat c.key ≠ 0) :
    Spec.Bip32.ckdPriv pr.hmac512 (beNat k.key) k.chainCode i = some (beNat c.key, c.chainCode) := by
  have hd : k.depth ≠ 255 := by
    intro e; rw [child_depth_255 pr k i e] at hc; cases hc
  rw [child_priv_eq pr k i h hp hd hi] at hc
  simp only [] at hc
  split at hc
  · cases hc
  · rename_i hcond
    injection hc with hc
    subst hc
    simp only [beNat_natBE] at hne ⊢
    unfold Spec.Bip32.ckdPriv
    simp only []
    rw [if_neg (by intro hx; rcases hx with hx | hx; exact hcond (Or.inl hx); exact hne hx)]

/-- `parse256(I_L) ≥ n`: both BIP-0032 and the code refuse -/
theorem child_priv_refuses (pr : Prims) (k : XKey) (i : Nat) (h : WF k) (hp : k.isPrivate = true)
    (hd : k.depth ≠ 255) (hi : i < 2 ^ 32)
    (hge : Spec.Bip32.parse256 ((Spec.Bip32.ckdPrivI pr.hmac512 (beNat k.key) k.chainCode i).take 32) ≥ Spec.N) :
    child pr k i = .error .invalidChild ∧
      Spec.Bip32.ckdPriv pr.hmac512 (beNat k.key) k.chainCode i = none := by
  constructor
  · rw [child_priv_eq pr k i h hp hd hi]; simp only []; rw [if_pos (Or.inl hge)]
  · unfold Spec.Bip32.ckdPriv; simp only []; rw [if_pos (Or.inl hge)]

/-! ### `Child` on a public key is `CKDpub` -/

theorem childI_pub (pr : Prims) (k : XKey) (i : Nat) (K : Pt) (hl : k.key.length = 33) (hp : k.isPrivate = false)
    (hK : Ecdsa.parsePubKey k.key = some K) (hi : i < 2 ^ 31) :
    childI pr k i = pr.hmac512 k.chainCode (Spec.Bip32.serP K ++ Spec.Bip32.ser32 i) := by
  unfold childI
  rw [childData33_normal k i (by rw [pubKeyBytes_pub k hp]; exact hl) hi, pubKeyBytes_pub k hp,
    (eq_serCompressed_of_parse hK hl).1, serCompressed_eq_serP, be32_eq_ser32 i (by omega)]

/-- **`Child` on a public key**, complete (normal index): `I` as in `CKDpub`; the call fails iff
`parse256(I_L) ≥ n` or `parse256(I_L) = 0` and otherwise returns `K_i = point(parse256(I_L)) + K_par`
in compressed form, `c_i = I_R`.  (The code's additional test "`I_L·G` has a zero coordinate" can
never fire: no finite point of secp256k1 has a zero coordinate — `valid_coords_ne_zero`.) -/
theorem child_pub_eq' (pr : Prims) (k : XKey) (i : Nat) (K : Pt) (hl : k.key.length = 33) (hp : k.isPrivate = false)
    (hK : Ecdsa.parsePubKey k.key = some K) (hd : k.depth ≠ 255) (hi : i < 2 ^ 31) :
    child pr k i =
      (let I := pr.hmac512 k.chainCode (Spec.Bip32.serP K ++ Spec.Bip32.ser32 i)
       let IL := Spec.Bip32.parse256 (I.take 32)
       if IL ≥ Spec.N ∨ IL = 0 then .error .invalidChild
       else .ok { key := Spec.Bip32.serP (padd (Spec.Bip32.point IL) K), chainCode := I.drop 32,
                  parentFP := Spec.Bip32.fingerprint pr.hash160 K,
                  version := k.version, childNum := i, depth := k.depth + 1, isPrivate := false }) := by
  rw [child_eq, if_neg (by simpa [Gen.k_maxUint8] using hd),
    if_neg (by have : ¬ 2147483648 ≤ i := by omega
               simp [hp, hardenedStart_eq, this])]
  simp only [hp, Bool.false_eq_true, if_false]
  unfold childPub childIL childCC childFP
  rw [childI_pub pr k i K hl hp hK hi, N_eq, hK, pubKeyBytes_pub k hp]
  simp only []
  rw [(eq_serCompressed_of_parse hK hl).1, serCompressed_eq_serP]
  generalize pr.hmac512 k.chainCode (Spec.Bip32.serP K ++ Spec.Bip32.ser32 i) = I
  by_cases hc : beNat (I.take 32) ≥ Spec.N ∨ beNat (I.take 32) = 0
  · rw [if_pos (by simpa using hc)]; exact (if_pos hc).symm
  · rw [if_neg (by simpa using hc)]
    refine Eq.trans ?_ (if_neg hc).symm
    have hr : 1 ≤ beNat (I.take 32) ∧ beNat (I.take 32) < Spec.N := by omega
    rw [scalarBaseMult_eq]
    have hz := smul_G_coords_ne_zero hr.1 hr.2
    rw [if_neg (by simp [hz.1, hz.2]), Curve.add_def, serCompressed_eq_serP]
    rfl


theorem child_pub_eq (pr : Prims) (k : XKey) (i : Nat) (K : Pt) (h : WF k) (hp : k.isPrivate = false)
    (hK : Ecdsa.parsePubKey k.key = some K) (hd : k.depth ≠ 255) (hi : i < 2 ^ 31) :
    child pr k i =
      (let I := pr.hmac512 k.chainCode (Spec.Bip32.serP K ++ Spec.Bip32.ser32 i)
       let IL := Spec.Bip32.parse256 (I.take 32)
       if IL ≥ Spec.N ∨ IL = 0 then .error .invalidChild
       else .ok { key := Spec.Bip32.serP (padd (Spec.Bip32.point IL) K), chainCode := I.drop 32,
                  parentFP := Spec.Bip32.fingerprint pr.hash160 K,
                  version := k.version, childNum := i, depth := k.depth + 1, isPrivate := false }) :=
  child_pub_eq' pr k i K (h.2.2.2.2.2.2 hp).1 hp hK hd hi

/-- agreement with `CKDpub` where BIP-0032 defines a key and `I_L ≠ 0` -/
theorem child_of_ckdPub (pr : Prims) (k : XKey) (i : Nat) (K : Pt) (h : WF k) (hp : k.isPrivate = false)
    (hK : Ecdsa.parsePubKey k.key = some K) (hd : k.depth ≠ 255) (Ki : Pt) (ci : Bytes)
    (hs : Spec.Bip32.ckdPub pr.hmac512 K k.chainCode i = some (Ki, ci))
    (h0 : Spec.Bip32.parse256 ((pr.hmac512 k.chainCode (Spec.Bip32.serP K ++ Spec.Bip32.ser32 i)).take 32) ≠ 0) :
    child pr k i = .ok { key := Spec.Bip32.serP Ki, chainCode := ci,
                         parentFP := Spec.Bip32.fingerprint pr.hash160 K,
                         version := k.version, childNum := i, depth := k.depth + 1, isPrivate := false } := by
  unfold Spec.Bip32.ckdPub at hs
  split at hs
  · cases hs
  · rename_i hi
    rw [child_pub_eq pr k i K h hp hK hd (by omega)]
    simp only [] at hs ⊢
    split at hs
    · cases hs
    · rename_i hc
      injection hs with hs
      injection hs with e1 e2
      rw [if_neg (by intro hx; rcases hx with hx | hx; exact hc (Or.inl hx); exact h0 hx), e1, e2]

/-- conversely every non-degenerate key returned by `Child` on a public key is the `CKDpub` child -/
theorem ckdPub_of_child (pr : Prims) (k c : XKey) (i : Nat) (K : Pt) (h : WF k) (hp : k.isPrivate = false)
    (hK : Ecdsa.parsePubKey k.key = some K) (hc : child pr k i = .ok c)
    (hne : c.key ≠ Spec.Bip32.serP inf) :
    ∃ Ki, Spec.Bip32.ckdPub pr.hmac512 K k.chainCode i = some (Ki, c.chainCode) ∧
      c.key = Spec.Bip32.serP Ki := by
  have hd : k.depth ≠ 255 := by
    intro e; rw [child_depth_255 pr k i e] at hc; cases hc
  have hi : i < 2 ^ 31 := by
    apply Decidable.byContradiction; intro hi
    rw [child_hardened_from_public pr k i hd hp (by omega)] at hc; cases hc
  rw [child_pub_eq pr k i K h hp hK hd hi] at hc
  simp only [] at hc
  split at hc
  · cases hc
  · rename_i hcond
    injection hc with hc
    subst hc
    simp only [] at hne ⊢
    refine ⟨_, ?_, rfl⟩
    unfold Spec.Bip32.ckdPub
    rw [if_neg (by omega)]
    simp only []
    rw [if_neg (by
      intro hx; rcases hx with hx | hx
      · exact hcond (Or.inl hx)
      · apply hne; rw [hx])]

/-! ### `NewMaster` is BIP-0032 master key generation -/

theorem newMaster_seed_len (pr : Prims) (seed v : Bytes) (h : seed.length < 16 ∨ seed.length > 64) :
    newMaster pr seed v = .error .invalidSeedLen := by
  unfold newMaster
  rw [if_pos (by rcases h with h | h <;> simp [Gen.k_minSeedBytes, Gen.k_maxSeedBytes, h])]

theorem newMaster_eq (pr : Prims) (seed v : Bytes) :
    newMaster pr seed v =
      if seed.length < 16 ∨ seed.length > 64 then .error .invalidSeedLen else
      match Spec.Bip32.master pr.hmac512 seed with
      | none => .error .unusableSeed
      | some (_, c) => .ok { key := (pr.hmac512 Spec.Bip32.seedKey seed).take 32, chainCode := c,
                             parentFP := [0, 0, 0, 0], version := v, childNum := 0, depth := 0,
                             isPrivate := true } := by
  by_cases hl : seed.length < 16 ∨ seed.length > 64
  · rw [newMaster_seed_len pr seed v hl, if_pos hl]
  · rw [if_neg hl]
    unfold newMaster Spec.Bip32.master
    have hl' : 16 ≤ seed.length ∧ seed.length ≤ 64 := by omega
    have hb : (decide (seed.length < Gen.k_minSeedBytes) || decide (seed.length > Gen.k_maxSeedBytes)) = false := by
      have h1 : ¬ seed.length < Gen.k_minSeedBytes := by simp [Gen.k_minSeedBytes]; omega
      have h2 : ¬ seed.length > Gen.k_maxSeedBytes := by simp [Gen.k_maxSeedBytes]; omega
      simp [h1, h2]
    rw [hb, if_neg hl, masterKey_eq, N_eq]
    simp only [Bool.false_eq_true, if_false]
    generalize pr.hmac512 Spec.Bip32.seedKey seed = I
    by_cases hc : Spec.Bip32.parse256 (I.take 32) = 0 ∨ Spec.Bip32.parse256 (I.take 32) ≥ Spec.N
    · have hc' : beNat (I.take 32) = 0 ∨ beNat (I.take 32) ≥ Spec.N := hc
      rw [if_pos (by rcases hc' with hc' | hc' <;> simp [hc']), if_pos hc]
    · have hc' : ¬ (beNat (I.take 32) = 0 ∨ beNat (I.take 32) ≥ Spec.N) := hc
      rw [if_neg (by simp; omega), if_neg hc]

/-- the stored master key bytes are `ser256` of the BIP-0032 master secret -/
theorem newMaster_key (pr : Prims) (ok : PrimsOK pr) (seed v : Bytes) (m : XKey)
    (h : newMaster pr seed v = .ok m) :
    ∃ k c, Spec.Bip32.master pr.hmac512 seed = some (k, c) ∧ m.key = Spec.Bip32.ser256 k ∧
      m.chainCode = c ∧ c.length = 32 ∧ 1 ≤ k ∧ k < Spec.N := by
  rw [newMaster_eq] at h
  split at h
  · cases h
  · cases hm : Spec.Bip32.master pr.hmac512 seed with
    | none => rw [hm] at h; cases h
    | some kc =>
      obtain ⟨k, c⟩ := kc
      rw [hm] at h
      injection h with h
      subst h
      refine ⟨k, c, rfl, ?_, rfl, ?_⟩
      · unfold Spec.Bip32.master at hm
        split at hm
        · cases hm
        · simp only [] at hm
          split at hm
          · cases hm
          · injection hm with hm; injection hm with e1 e2
            subst e1
            have hl : ((pr.hmac512 Spec.Bip32.seedKey seed).take 32).length = 32 := by
              rw [List.length_take, ok.hmac512_len]; rfl
            have := natBEpad_beNat ((pr.hmac512 Spec.Bip32.seedKey seed).take 32)
            rw [hl] at this
            exact this.symm
      · unfold Spec.Bip32.master at hm
        split at hm
        · cases hm
        · simp only [] at hm
          split at hm
          · cases hm
          · rename_i hc
            injection hm with hm; injection hm with e1 e2
            subst e1 e2
            refine ⟨?_, ?_, ?_⟩
            · rw [List.length_drop, ok.hmac512_len]
            · omega
            · omega

/-! ### `Neuter` -/

theorem lookup_mem (reg : Registry) (v w : Bytes) (h : reg.lookup v = some w) : (v, w) ∈ reg ∧ v.length = 4 := by
  unfold Registry.lookup at h
  split at h
  · cases h
  · rename_i hl
    cases hf : reg.find? (·.1 == v) with
    | none => rw [hf] at h; cases h
    | some p =>
      rw [hf] at h
      simp only [Option.map_some, Option.some.injEq] at h
      have h1 := List.find?_some hf
      have h2 := List.mem_of_find?_eq_some hf
      simp only [beq_iff_eq] at h1
      obtain ⟨a, b⟩ := p
      simp only at h1 h
      subst h1 h
      exact ⟨h2, by simpa using hl⟩

/-- if private ids are registered once, a registered pair is what `lookup` returns -/
theorem lookup_of_mem (reg : Registry) (v w : Bytes) (hl : v.length = 4) (hm : (v, w) ∈ reg)
    (hnd : (reg.map (·.1)).Nodup) : reg.lookup v = some w := by
  unfold Registry.lookup
  rw [if_neg (by simp [hl])]
  induction reg with
  | nil => cases hm
  | cons p reg ih =>
    rw [List.find?_cons]
    by_cases hp : p.1 = v
    · have : (p.1 == v) = true := by simpa using hp
      rw [this]
      simp only [Option.map_some, Option.some.injEq]
      rcases List.mem_cons.1 hm with e | hm'
      · rw [← e]
      · exfalso
        simp only [List.map_cons, List.nodup_cons] at hnd
        apply hnd.1
        rw [hp]
        exact List.mem_map.2 ⟨(v, w), hm', rfl⟩
    · have : (p.1 == v) = false := by simpa using hp
      rw [this]
      rcases List.mem_cons.1 hm with e | hm'
      · exact absurd (by rw [← e]) hp
      · simp only [List.map_cons, List.nodup_cons] at hnd
        exact ih hm' hnd.2

/-- **`Neuter`** on a private key: `N((k, c)) = (point(k), c)` with the same depth, child number
and parent fingerprint, and the public version registered for the key's private version. -/
theorem neuter_priv (reg : Registry) (k c : XKey) (hp : k.isPrivate = true) (h : neuter reg k = .ok c) :
    reg.lookup k.version = some c.version ∧
    c.key = Spec.Bip32.serP (Spec.Bip32.point (beNat k.key)) ∧ c.chainCode = k.chainCode ∧
    c.parentFP = k.parentFP ∧ c.depth = k.depth ∧ c.childNum = k.childNum ∧ c.isPrivate = false := by
  unfold neuter at h
  rw [if_neg (by simp [hp])] at h
  cases hl : reg.lookup k.version with
  | none => rw [hl] at h; cases h
  | some v =>
    rw [hl] at h
    injection h with h
    subst h
    refine ⟨rfl, ?_, rfl, rfl, rfl, rfl, rfl⟩
    show k.pubKeyBytes = _
    rw [pubKeyBytes_priv k hp, serCompressed_eq_serP]; rfl

theorem neuter_priv_ok (reg : Registry) (k : XKey) (v : Bytes) (hp : k.isPrivate = true)
    (hl : reg.lookup k.version = some v) :
    neuter reg k = .ok { key := k.pubKeyBytes, chainCode := k.chainCode, parentFP := k.parentFP, version := v,
                         childNum := k.childNum, depth := k.depth, isPrivate := false } := by
  unfold neuter
  rw [if_neg (by simp [hp]), hl]

theorem neuter_pub (reg : Registry) (k : XKey) (hp : k.isPrivate = false) : neuter reg k = .ok k := by
  unfold neuter; rw [if_pos (by simp [hp])]

theorem neuter_unknown (reg : Registry) (k : XKey) (hp : k.isPrivate = true)
    (h : ∀ w, (k.version, w) ∉ reg) : neuter reg k = .error .unknownHDKeyID := by
  unfold neuter
  rw [if_neg (by simp [hp])]
  cases hl : reg.lookup k.version with
  | none => rfl
  | some v => exact absurd (lookup_mem reg _ _ hl).1 (h v)

/-! ### `ECPrivKey` / `ECPubKey` -/

theorem ecPrivKey_priv (k : XKey) (hp : k.isPrivate = true) : ecPrivKey k = some (beNat k.key) := by
  unfold ecPrivKey; rw [if_pos hp]

theorem ecPrivKey_pub (k : XKey) (hp : k.isPrivate = false) : ecPrivKey k = none := by
  unfold ecPrivKey; rw [if_neg (by simp [hp])]

theorem ecPubKey_priv (k : XKey) (h : WF k) (hp : k.isPrivate = true) :
    ecPubKey k = some (Spec.Bip32.point (beNat k.key)) := by
  unfold ecPubKey
  obtain ⟨h1, h2, _⟩ := h.2.2.2.2.2.1 hp
  rw [pubKeyBytes_priv k hp]
  rw [N_eq] at h2
  exact parse_serCompressed (valid_smul _ valid_G) (smul_G_ne_inf' h1 h2)

theorem ecPubKey_pub (k : XKey) (K : Pt) (hp : k.isPrivate = false) (hK : Ecdsa.parsePubKey k.key = some K) :
    ecPubKey k = some K := by
  unfold ecPubKey; rw [pubKeyBytes_pub k hp, hK]


/-! ### closure of `WF` -/

theorem hash160_len (pr : Prims) (ok : PrimsOK pr) (b : Bytes) : (pr.hash160 b).length = 20 :=
  ok.ripemd160_len _

theorem childFP_length (pr : Prims) (ok : PrimsOK pr) (k : XKey) : (childFP pr k).length = 4 := by
  unfold childFP; rw [List.length_take, hash160_len pr ok]; rfl

theorem childCC_length (pr : Prims) (ok : PrimsOK pr) (k : XKey) (i : Nat) : (childCC pr k i).length = 32 := by
  unfold childCC childI; rw [List.length_drop, ok.hmac512_len]

theorem newMaster_WF (pr : Prims) (ok : PrimsOK pr) (seed v : Bytes) (m : XKey) (hv : v.length = 4)
    (h : newMaster pr seed v = .ok m) : WF m := by
  obtain ⟨k, c, hm, hk, hc, hcl, h1, h2⟩ := newMaster_key pr ok seed v m h
  rw [newMaster_eq] at h
  split at h
  · cases h
  · rw [hm] at h
    injection h with h
    have hkey : beNat m.key = k := by rw [hk]; exact beNat_natBEpad _ _
    have hkl : m.key.length = 32 := by
      rw [hk]; exact natBEpad_length 32 k (Nat.lt_trans h2 N_lt_pow)
    subst h
    refine ⟨hv, hcl, rfl, Nat.zero_lt_succ _, Nat.pow_pos (by decide), fun _ => ⟨?_, ?_, ?_⟩, fun hp => by cases hp⟩
    · rw [hkey]; exact h1
    · rw [hkey, N_eq]; exact h2
    · rw [hkl]

/-- the two "invalid key" outcomes of BIP-0032 that `Child` does not detect: the zero private key
and the point at infinity (probability about 2⁻¹²⁷ each; no input reaching them can be
constructed without inverting HMAC-SHA512) -/
def Degenerate (c : XKey) : Prop :=
  (c.isPrivate = true ∧ c.key = []) ∨ (c.isPrivate = false ∧ c.key = Ecdsa.serCompressed inf)

theorem child_priv_key (pr : Prims) (k c : XKey) (i : Nat) (h : WF k) (hp : k.isPrivate = true)
    (hi : i < 2 ^ 32) (hc : child pr k i = .ok c) :
    ∃ IL, 1 ≤ IL ∧ IL < Spec.N ∧ c.key = natBE ((IL + beNat k.key) % Spec.N) := by
  have hd : k.depth ≠ 255 := by
    intro e; rw [child_depth_255 pr k i e] at hc; cases hc
  rw [child_priv_eq pr k i h hp hd hi] at hc
  simp only [] at hc
  split at hc
  · cases hc
  · rename_i hcond
    injection hc with hc
    subst hc
    exact ⟨_, by omega, by omega, rfl⟩

theorem child_pub_key (pr : Prims) (k c : XKey) (i : Nat) (K : Pt) (h : WF k) (hp : k.isPrivate = false)
    (hK : Ecdsa.parsePubKey k.key = some K) (hc : child pr k i = .ok c) :
    ∃ IL, 1 ≤ IL ∧ IL < Spec.N ∧ c.key = Ecdsa.serCompressed (padd (smul IL G) K) := by
  have hd : k.depth ≠ 255 := by
    intro e; rw [child_depth_255 pr k i e] at hc; cases hc
  have hi : i < 2 ^ 31 := by
    apply Decidable.byContradiction; intro hi
    rw [child_hardened_from_public pr k i hd hp (by omega)] at hc; cases hc
  rw [child_pub_eq pr k i K h hp hK hd hi] at hc
  simp only [] at hc
  split at hc
  · cases hc
  · rename_i hcond
    injection hc with hc
    subst hc
    exact ⟨_, by omega, by omega, (serCompressed_eq_serP _).symm⟩

theorem child_WF (pr : Prims) (ok : PrimsOK pr) (k c : XKey) (i : Nat) (h : WF k) (hi : i < 2 ^ 32)
    (hc : child pr k i = .ok c) (hnd : ¬ Degenerate c) : WF c := by
  obtain ⟨e1, e2, e3, e4, e5⟩ := child_depth pr k c i hc
  have ev := child_version pr k c i hc
  have hd : k.depth ≠ 255 := by
    intro e; rw [child_depth_255 pr k i e] at hc; cases hc
  refine ⟨by rw [ev]; exact h.1, by rw [e4]; exact childCC_length pr ok k i,
    by rw [e5]; exact childFP_length pr ok k, by have := h.2.2.2.1; omega, by omega, ?_, ?_⟩
  · intro hpc
    have hp : k.isPrivate = true := by rw [← e3]; exact hpc
    obtain ⟨IL, _, _, hkey⟩ := child_priv_key pr k c i h hp hi hc
    have hlt : (IL + beNat k.key) % Spec.N < Spec.N := Nat.mod_lt _ N_pos
    generalize (IL + beNat k.key) % Spec.N = ki at hkey hlt
    rw [hkey, beNat_natBE, N_eq]
    refine ⟨?_, hlt, natBE_length_le ki 32 (Nat.lt_trans hlt N_lt_pow)⟩
    apply Nat.pos_of_ne_zero
    intro e
    apply hnd; left
    exact ⟨hpc, by rw [hkey, e]; rfl⟩
  · intro hpc
    have hp : k.isPrivate = false := by rw [← e3]; exact hpc
    obtain ⟨K, hK, _, hKv, hKne⟩ := h.pub_point hp
    obtain ⟨IL, _, _, hkey⟩ := child_pub_key pr k c i K h hp hK hc
    have hv : valid (padd (smul IL G) K) = true := valid_padd (valid_smul _ valid_G) hKv
    have hne : padd (smul IL G) K ≠ inf := by
      intro e
      apply hnd; right
      exact ⟨hpc, by rw [hkey, e]⟩
    rw [hkey]
    exact ⟨serCompressed_length hv, by rw [parse_serCompressed hv hne]; rfl⟩

theorem neuter_WF (reg : Registry) (k c : XKey) (h : WF k) (hreg : ∀ p ∈ reg, p.2.length = 4)
    (hc : neuter reg k = .ok c) : WF c := by
  cases hp : k.isPrivate
  · rw [neuter_pub reg k hp] at hc; injection hc with hc; subst hc; exact h
  · obtain ⟨h1, h2, h3, h4, h5, h6, h7⟩ := neuter_priv reg k c hp hc
    obtain ⟨b1, b2, _⟩ := h.2.2.2.2.2.1 hp
    rw [N_eq] at b2
    have hv : valid (smul (beNat k.key) G) = true := valid_smul _ valid_G
    refine ⟨hreg _ (lookup_mem reg _ _ h1).1, by rw [h3]; exact h.2.1, by rw [h4]; exact h.2.2.1,
      by rw [h5]; exact h.2.2.2.1, by rw [h6]; exact h.2.2.2.2.1,
      ⟨fun e => (by rw [h7] at e; cases e), fun _ => ?_⟩⟩
    rw [h2, ← serCompressed_eq_serP]
    exact ⟨serCompressed_length hv, by
      rw [show Spec.Bip32.point (beNat k.key) = smul (beNat k.key) G from rfl,
        parse_serCompressed hv (smul_G_ne_inf' b1 b2)]; rfl⟩


/-! ### `String` and `NewKeyFromString` in stages -/

/-- the 78-byte payload that `String()` encodes -/
def serPayload (k : XKey) : Bytes :=
  k.version ++ [UInt8.ofNat k.depth] ++ k.parentFP ++ be32 k.childNum ++ k.chainCode ++
    (if k.isPrivate then [0x00] ++ padLeft 32 k.key else k.pubKeyBytes)

theorem toString_eq (pr : Prims) (k : XKey) :
    toString pr k = if k.key.isEmpty then zeroedString
      else Base58.encode (serPayload k ++ (pr.sha256d (serPayload k)).take 4) := by
  unfold toString serPayload
  cases k.isPrivate <;> simp [List.append_assoc]

/-- the key assembled from the six fields of a payload -/
def buildKey (v : Bytes) (d : UInt8) (fp cn cc kd : Bytes) : Except Err XKey :=
  if kd.headD 1 == 0x00 then
    (if beNat (kd.drop 1) ≥ N || beNat (kd.drop 1) = 0 then .error .unusableSeed else
     .ok { key := kd.drop 1, chainCode := cc, parentFP := fp, version := v, childNum := beNat cn,
           depth := d.toNat, isPrivate := true })
  else
    match Ecdsa.parsePubKey kd with
    | none => .error .badPubKey
    | some _ => .ok { key := kd, chainCode := cc, parentFP := fp, version := v, childNum := beNat cn,
                      depth := d.toNat, isPrivate := false }

def parsePayload (p : Bytes) : Except Err XKey :=
  buildKey (p.take 4) (p.getD 4 0) ((p.drop 5).take 4) ((p.drop 9).take 4) ((p.drop 13).take 32)
    ((p.drop 45).take 33)

theorem fromString_eq (pr : Prims) (s : Bytes) :
    fromString pr s =
      if (Base58.decode s).length ≠ 82 then .error .invalidKeyLen else
      if (Base58.decode s).drop 78 ≠ (pr.sha256d ((Base58.decode s).take 78)).take 4 then .error .badChecksum else
      parsePayload ((Base58.decode s).take 78) := by
  unfold fromString
  simp only []
  generalize Base58.decode s = d
  by_cases hl : d.length = 82
  · have h1 : (d.length != Gen.k_serializedKeyLen + 4) = false := by simp [hl, Gen.k_serializedKeyLen]
    have h2 : ¬ d.length ≠ 82 := by omega
    have e78 : d.length - 4 = 78 := by omega
    rw [h1, if_neg h2, e78]
    simp only [Bool.false_eq_true, if_false]
    by_cases hc : d.drop 78 = (pr.sha256d (d.take 78)).take 4
    · have h3 : (d.drop 78 != (pr.sha256d (d.take 78)).take 4) = false := by simp [hc]
      rw [h3, if_neg (not_not.mpr hc)]; rfl
    · have h3 : (d.drop 78 != (pr.sha256d (d.take 78)).take 4) = true := by simpa using hc
      rw [h3, if_pos hc]; rfl
  · rw [if_pos (by simpa [Gen.k_serializedKeyLen] using hl), if_pos hl]

/-- field extraction from a concatenation of fields with the right lengths -/
theorem parsePayload_append (v fp cn cc kd : Bytes) (d : UInt8) (hv : v.length = 4) (hfp : fp.length = 4)
    (hcn : cn.length = 4) (hcc : cc.length = 32) (hkd : kd.length = 33) :
    parsePayload (v ++ [d] ++ fp ++ cn ++ cc ++ kd) = buildKey v d fp cn cc kd := by
  unfold parsePayload
  have e : v ++ [d] ++ fp ++ cn ++ cc ++ kd = v ++ (d :: (fp ++ (cn ++ (cc ++ kd)))) := by simp
  rw [e]
  have t1 : (v ++ (d :: (fp ++ (cn ++ (cc ++ kd))))).take 4 = v := take_append_len _ _ _ hv
  have t2 : (v ++ (d :: (fp ++ (cn ++ (cc ++ kd))))).getD 4 0 = d := by
    rw [← hv]; simp
  have d5 : (v ++ (d :: (fp ++ (cn ++ (cc ++ kd))))).drop 5 = fp ++ (cn ++ (cc ++ kd)) := by
    have : (v ++ [d] ++ (fp ++ (cn ++ (cc ++ kd)))).drop 5 = fp ++ (cn ++ (cc ++ kd)) :=
      drop_append_len _ _ _ (by simp [hv])
    simpa using this
  have d9 : (v ++ (d :: (fp ++ (cn ++ (cc ++ kd))))).drop 9 = cn ++ (cc ++ kd) := by
    have : (v ++ [d] ++ fp ++ (cn ++ (cc ++ kd))).drop 9 = cn ++ (cc ++ kd) :=
      drop_append_len _ _ _ (by simp [hv, hfp])
    simpa using this
  have d13 : (v ++ (d :: (fp ++ (cn ++ (cc ++ kd))))).drop 13 = cc ++ kd := by
    have : (v ++ [d] ++ fp ++ cn ++ (cc ++ kd)).drop 13 = cc ++ kd :=
      drop_append_len _ _ _ (by simp [hv, hfp, hcn])
    simpa using this
  have d45 : (v ++ (d :: (fp ++ (cn ++ (cc ++ kd))))).drop 45 = kd := by
    have : (v ++ [d] ++ fp ++ cn ++ cc ++ kd).drop 45 = kd :=
      drop_append_len _ _ _ (by simp [hv, hfp, hcn, hcc])
    simpa using this
  rw [t1, t2, d5, d9, d13, d45, take_append_len _ _ _ hfp, take_append_len _ _ _ hcn,
    take_append_len _ _ _ hcc, List.take_of_length_le (by omega)]


/-! ### `NewKeyFromString(k.String())` -/

/-- the key that `NewKeyFromString(k.String())` returns: `k` with its private key bytes left-padded
to 32 bytes (`Child` stores a child's private key as minimal big-endian bytes) -/
def normalize (k : XKey) : XKey := if k.isPrivate then { k with key := padLeft 32 k.key } else k

theorem normalize_pub (k : XKey) (hp : k.isPrivate = false) : normalize k = k := by
  unfold normalize; rw [if_neg (by simp [hp])]

theorem normalize_priv (k : XKey) (hp : k.isPrivate = true) :
    normalize k = { k with key := padLeft 32 k.key } := by
  unfold normalize; rw [if_pos hp]

theorem normalize_of_len (k : XKey) (h : k.isPrivate = true → k.key.length = 32) : normalize k = k := by
  cases hp : k.isPrivate
  · exact normalize_pub k hp
  · rw [normalize_priv k hp, padLeft_of_ge 32 k.key (Nat.le_of_eq (h hp).symm)]

theorem keyData_length (k : XKey) (h : WF k) :
    (if k.isPrivate then [0x00] ++ padLeft 32 k.key else k.pubKeyBytes).length = 33 := by
  cases hp : k.isPrivate
  · simp only [Bool.false_eq_true, if_false]; exact h.pubKeyBytes_length
  · simp only [if_true]
    have := padLeft_length_of_le 32 k.key (h.2.2.2.2.2.1 hp).2.2
    simp [this]

theorem serPayload_length (k : XKey) (h : WF k) : (serPayload k).length = 78 := by
  unfold serPayload
  simp only [List.length_append, keyData_length k h, h.1, h.2.1, h.2.2.1, be32_length, List.length_cons,
    List.length_nil]

theorem ofNat_toNat_lt (n : Nat) (h : n < 256) : (UInt8.ofNat n).toNat = n := by
  simp [UInt8.toNat_ofNat']; omega

theorem serCompressed_headD (q : Pt) : (Ecdsa.serCompressed q).headD 1 ≠ 0 := by
  unfold Ecdsa.serCompressed
  by_cases hp : (q.2 % 2 == 1) = true <;> simp [hp]

theorem buildKey_of_WF (k : XKey) (h : WF k) :
    buildKey k.version (UInt8.ofNat k.depth) k.parentFP (be32 k.childNum) k.chainCode
      (if k.isPrivate then [0x00] ++ padLeft 32 k.key else k.pubKeyBytes) = .ok (normalize k) := by
  unfold buildKey
  have hd := ofNat_toNat_lt k.depth h.2.2.2.1
  have hc := beNat_be32 k.childNum h.2.2.2.2.1
  cases hp : k.isPrivate
  · obtain ⟨K, hK, hkey, _, _⟩ := h.pub_point hp
    simp only [Bool.false_eq_true, if_false]
    rw [pubKeyBytes_pub k hp, normalize_pub k hp]
    have hh : (k.key.headD 1 == 0) = false := by
      rw [hkey]; simpa using serCompressed_headD K
    rw [hh, hK, hd, hc]
    simp only [Bool.false_eq_true, if_false]
    cases k; simp_all
  · obtain ⟨b1, b2, b3⟩ := h.2.2.2.2.2.1 hp
    simp only [if_true]
    rw [normalize_priv k hp]
    simp only [List.singleton_append, List.headD_cons, List.drop_succ_cons, List.drop_zero, beq_self_eq_true,
      if_true, beNat_padLeft]
    rw [if_neg (by simp; omega), hd, hc]
    cases k; simp_all

/-- **round trip**: for every well-formed key, `NewKeyFromString(k.String())` succeeds and returns
`k` up to left-padding of the private key bytes -/
theorem fromString_toString (pr : Prims) (ok : PrimsOK pr) (k : XKey) (h : WF k) :
    fromString pr (toString pr k) = .ok (normalize k) := by
  have hne : k.key.isEmpty = false := by
    cases hp : k.isPrivate
    · have := (h.2.2.2.2.2.2 hp).1
      cases hk : k.key with
      | nil => rw [hk] at this; cases this
      | cons a b => rfl
    · have := (h.2.2.2.2.2.1 hp).1
      cases hk : k.key with
      | nil => rw [hk] at this; simp at this
      | cons a b => rfl
  have hl := serPayload_length k h
  have hck : ((pr.sha256d (serPayload k)).take 4).length = 4 := by
    rw [List.length_take]; unfold Prims.sha256d; rw [ok.sha256_len]; rfl
  rw [toString_eq, hne]
  simp only [Bool.false_eq_true, if_false]
  rw [fromString_eq, Base58.decode_encode]
  rw [if_neg (by simp [hl, hck]), take_append_len _ _ _ hl, drop_append_len _ _ _ hl, if_neg (by simp)]
  unfold serPayload
  rw [parsePayload_append _ _ _ _ _ _ h.1 h.2.2.1 (be32_length _) h.2.1 (keyData_length k h)]
  exact buildKey_of_WF k h


/-! ### the re-imported key behaves like the original -/

theorem padLeft_padLeft (n : Nat) (b : Bytes) : padLeft n (padLeft n b) = padLeft n b := by
  apply padLeft_of_ge; rw [padLeft_length]; omega

theorem normalize_fields (k : XKey) :
    (normalize k).chainCode = k.chainCode ∧ (normalize k).parentFP = k.parentFP ∧
    (normalize k).version = k.version ∧ (normalize k).childNum = k.childNum ∧
    (normalize k).depth = k.depth ∧ (normalize k).isPrivate = k.isPrivate ∧
    beNat (normalize k).key = beNat k.key := by
  cases hp : k.isPrivate
  · rw [normalize_pub k hp]; exact ⟨rfl, rfl, rfl, rfl, rfl, hp, rfl⟩
  · rw [normalize_priv k hp]; exact ⟨rfl, rfl, rfl, rfl, rfl, hp, beNat_padLeft _ _⟩

theorem normalize_pubKeyBytes (k : XKey) : (normalize k).pubKeyBytes = k.pubKeyBytes := by
  cases hp : k.isPrivate
  · rw [normalize_pub k hp]
  · rw [pubKeyBytes_priv k hp, pubKeyBytes_priv _ ((normalize_fields k).2.2.2.2.2.1.trans hp),
      (normalize_fields k).2.2.2.2.2.2]

theorem normalize_serPayload (k : XKey) : serPayload (normalize k) = serPayload k := by
  cases hp : k.isPrivate
  · rw [normalize_pub k hp]
  · rw [normalize_priv k hp]; unfold serPayload; simp only [hp, if_true, padLeft_padLeft]

/-- (for a key with empty key bytes — a zeroed key — the statement is false: `String()` prints
"zeroed extended key" for it but not for 32 zero bytes) -/
theorem normalize_toString (pr : Prims) (k : XKey) (hne : k.key ≠ []) :
    toString pr (normalize k) = toString pr k := by
  rw [toString_eq, toString_eq, normalize_serPayload]
  cases hp : k.isPrivate
  · rw [normalize_pub k hp]
  · rw [normalize_priv k hp]
    have : (padLeft 32 k.key).isEmpty = k.key.isEmpty := by
      cases hk : k.key with
      | nil => exact absurd hk hne
      | cons a b => simp [padLeft]
    simp only [this]

theorem normalize_idem (k : XKey) : normalize (normalize k) = normalize k := by
  cases hp : k.isPrivate
  · rw [normalize_pub k hp, normalize_pub k hp]
  · rw [normalize_priv k hp]
    have := normalize_priv { k with key := padLeft 32 k.key } hp
    rw [this]; simp only [padLeft_padLeft]

theorem normalize_WF (k : XKey) (h : WF k) : WF (normalize k) := by
  cases hp : k.isPrivate
  · rw [normalize_pub k hp]; exact h
  · rw [normalize_priv k hp]
    obtain ⟨b1, b2, b3⟩ := h.2.2.2.2.2.1 hp
    refine ⟨h.1, h.2.1, h.2.2.1, h.2.2.2.1, h.2.2.2.2.1, fun _ => ?_, fun e => ?_⟩
    · simp only [beNat_padLeft]
      exact ⟨b1, b2, Nat.le_of_eq (padLeft_length_of_le 32 k.key b3)⟩
    · exact absurd (hp.symm.trans e) (by decide)

theorem normalize_childData33 (k : XKey) (i : Nat) (h : WF k) : childData33 (normalize k) i = childData33 k i := by
  cases hp : k.isPrivate
  · rw [normalize_pub k hp]
  · by_cases hi : i ≥ 2 ^ 31
    · have hl := (h.2.2.2.2.2.1 hp).2.2
      have hl' := ((normalize_WF k h).2.2.2.2.2.1 ((normalize_fields k).2.2.2.2.2.1.trans hp)).2.2
      rw [childData33_hardened k i hl hi, childData33_hardened _ i hl' hi, normalize_priv k hp]
      simp only [padLeft_padLeft]
    · rw [childData33_normal k i h.pubKeyBytes_length (by omega),
        childData33_normal _ i (normalize_WF k h).pubKeyBytes_length (by omega), normalize_pubKeyBytes]

/-- the re-imported key has exactly the same children as the original -/
theorem normalize_child (pr : Prims) (k : XKey) (i : Nat) (h : WF k) :
    child pr (normalize k) i = child pr k i := by
  obtain ⟨f1, f2, f3, f4, f5, f6, f7⟩ := normalize_fields k
  have eI : childI pr (normalize k) i = childI pr k i := by
    unfold childI; rw [normalize_childData33 k i h, f1]
  have eIL : childIL pr (normalize k) i = childIL pr k i := by unfold childIL; rw [eI]
  have eCC : childCC pr (normalize k) i = childCC pr k i := by unfold childCC; rw [eI]
  have eFP : childFP pr (normalize k) = childFP pr k := by unfold childFP; rw [normalize_pubKeyBytes]
  have e1 : childPriv pr (normalize k) i = childPriv pr k i := by
    unfold childPriv; rw [eIL, eCC, eFP, f3, f5, f7]
  cases hp : k.isPrivate
  · rw [normalize_pub k hp]
  · have hp' : (normalize k).isPrivate = true := f6.trans hp
    rw [child_eq, child_eq, f5, eIL, e1, hp', hp, if_pos (rfl : true = true), if_pos (rfl : true = true)]

theorem normalize_address (pr : Prims) (k : XKey) (a : UInt8) : address pr (normalize k) a = address pr k a := by
  unfold address; rw [normalize_pubKeyBytes]

theorem normalize_ecPubKey (k : XKey) : ecPubKey (normalize k) = ecPubKey k := by
  unfold ecPubKey; rw [normalize_pubKeyBytes]

theorem normalize_ecPrivKey (k : XKey) : ecPrivKey (normalize k) = ecPrivKey k := by
  obtain ⟨_, _, _, _, _, f6, f7⟩ := normalize_fields k
  unfold ecPrivKey; rw [f6, f7]

theorem normalize_parentFingerprint (k : XKey) : parentFingerprint (normalize k) = parentFingerprint k := by
  unfold parentFingerprint; rw [(normalize_fields k).2.1]

theorem normalize_neuter (reg : Registry) (k : XKey) : neuter reg (normalize k) = neuter reg k := by
  cases hp : k.isPrivate
  · rw [normalize_pub k hp]
  · obtain ⟨f1, f2, f3, f4, f5, f6, f7⟩ := normalize_fields k
    unfold neuter
    rw [f6, hp, f3, normalize_pubKeyBytes, f1, f2, f4, f5]
    simp only [Bool.not_true, Bool.false_eq_true, if_false]

/-! ### what `NewKeyFromString` accepts -/

theorem buildKey_ok (v : Bytes) (d : UInt8) (fp cn cc kd : Bytes) (k : XKey) :
    buildKey v d fp cn cc kd = .ok k ↔
      (kd.headD 1 = 0 ∧ 1 ≤ beNat (kd.drop 1) ∧ beNat (kd.drop 1) < Spec.N ∧
         k = { key := kd.drop 1, chainCode := cc, parentFP := fp, version := v, childNum := beNat cn,
               depth := d.toNat, isPrivate := true }) ∨
      (kd.headD 1 ≠ 0 ∧ (Ecdsa.parsePubKey kd).isSome = true ∧
         k = { key := kd, chainCode := cc, parentFP := fp, version := v, childNum := beNat cn,
               depth := d.toNat, isPrivate := false }) := by
  unfold buildKey
  rw [N_eq]
  by_cases hh : kd.headD 1 = 0
  · have : (kd.headD 1 == 0) = true := by simpa using hh
    rw [this]; simp only [if_true]
    by_cases hr : 1 ≤ beNat (kd.drop 1) ∧ beNat (kd.drop 1) < Spec.N
    · rw [if_neg (by simp only [Bool.or_eq_true, decide_eq_true_eq]; omega)]
      constructor
      · intro e; injection e with e; exact Or.inl ⟨hh, hr.1, hr.2, e.symm⟩
      · rintro (⟨_, _, _, e⟩ | ⟨h1, _⟩)
        · rw [e]
        · exact absurd hh h1
    · rw [if_pos (by simp only [Bool.or_eq_true, decide_eq_true_eq]; omega)]
      constructor
      · intro e; cases e
      · rintro (⟨_, h1, h2, _⟩ | ⟨h1, _⟩)
        · exact absurd ⟨h1, h2⟩ hr
        · exact absurd hh h1
  · have : (kd.headD 1 == 0) = false := by simpa using hh
    rw [this]; simp only [Bool.false_eq_true, if_false]
    cases hp : Ecdsa.parsePubKey kd with
    | none =>
      simp only []
      constructor
      · intro e; cases e
      · rintro (⟨h1, _⟩ | ⟨_, h1, _⟩)
        · exact absurd h1 hh
        · cases h1
    | some K =>
      simp only []
      constructor
      · intro e; injection e with e; exact Or.inr ⟨hh, rfl, e.symm⟩
      · rintro (⟨h1, _⟩ | ⟨_, _, e⟩)
        · exact absurd h1 hh
        · rw [e]

/-- **acceptance**: `NewKeyFromString(s)` returns `k` iff `s` decodes to 82 bytes whose last four are
the first four bytes of the double SHA-256 of the first 78, and the key field (bytes 45..77) is either
`0x00 ‖ d` with `1 ≤ d < n` (then `k` is the private key with those 32 bytes) or — first byte not
zero — a valid compressed public key (then `k` is that public key); the other fields are copied. -/
theorem fromString_ok_iff (pr : Prims) (s : Bytes) (k : XKey) :
    fromString pr s = .ok k ↔
      (Base58.decode s).length = 82 ∧
      (Base58.decode s).drop 78 = (pr.sha256d ((Base58.decode s).take 78)).take 4 ∧
      parsePayload ((Base58.decode s).take 78) = .ok k := by
  rw [fromString_eq]
  by_cases hl : (Base58.decode s).length = 82
  · rw [if_neg (not_not.mpr hl)]
    by_cases hc : (Base58.decode s).drop 78 = (pr.sha256d ((Base58.decode s).take 78)).take 4
    · rw [if_neg (not_not.mpr hc)]
      exact ⟨fun e => ⟨hl, hc, e⟩, fun e => e.2.2⟩
    · rw [if_pos hc]
      exact ⟨fun e => (by cases e), fun e => absurd e.2.1 hc⟩
  · rw [if_pos hl]
    exact ⟨fun e => (by cases e), fun e => absurd e.1 hl⟩

theorem fromString_wrong_length (pr : Prims) (s : Bytes) (h : (Base58.decode s).length ≠ 82) :
    fromString pr s = .error .invalidKeyLen := by
  rw [fromString_eq, if_pos h]

theorem fromString_wrong_checksum (pr : Prims) (s : Bytes) (hl : (Base58.decode s).length = 82)
    (h : (Base58.decode s).drop 78 ≠ (pr.sha256d ((Base58.decode s).take 78)).take 4) :
    fromString pr s = .error .badChecksum := by
  rw [fromString_eq, if_neg (not_not.mpr hl), if_pos h]

theorem fromString_WF (pr : Prims) (s : Bytes) (k : XKey) (h : fromString pr s = .ok k) :
    WF k ∧ (k.isPrivate = true → k.key.length = 32) := by
  obtain ⟨hl, _, hp⟩ := (fromString_ok_iff pr s k).1 h
  generalize hpl : (Base58.decode s).take 78 = p at hp
  have hpl' : p.length = 78 := by rw [← hpl, List.length_take, hl]; rfl
  unfold parsePayload at hp
  have l1 : (p.take 4).length = 4 := by rw [List.length_take]; omega
  have l2 : ((p.drop 5).take 4).length = 4 := by rw [List.length_take, List.length_drop]; omega
  have l3 : ((p.drop 9).take 4).length = 4 := by rw [List.length_take, List.length_drop]; omega
  have l4 : ((p.drop 13).take 32).length = 32 := by rw [List.length_take, List.length_drop]; omega
  have l5 : ((p.drop 45).take 33).length = 33 := by rw [List.length_take, List.length_drop]; omega
  have hcn : beNat ((p.drop 9).take 4) < 2 ^ 32 := by
    have := beNat_lt ((p.drop 9).take 4); rw [l3] at this; exact this
  have hdp : (p.getD 4 0).toNat < 256 := (p.getD 4 0).toNat_lt
  rcases (buildKey_ok _ _ _ _ _ _ k).1 hp with ⟨_, h1, h2, rfl⟩ | ⟨_, h1, rfl⟩
  · have l6 : (((p.drop 45).take 33).drop 1).length = 32 := by rw [List.length_drop, l5]
    refine ⟨⟨l1, l4, l2, hdp, hcn, fun _ => ⟨h1, by rw [N_eq]; exact h2, Nat.le_of_eq l6⟩,
      fun e => (by cases e)⟩, fun _ => l6⟩
  · exact ⟨⟨l1, l4, l2, hdp, hcn, fun e => (by cases e), fun _ => ⟨l5, h1⟩⟩, fun e => (by cases e)⟩

/-- keys produced by `NewKeyFromString` are fixed points of the round trip -/
theorem fromString_toString_of_fromString (pr : Prims) (ok : PrimsOK pr) (s : Bytes) (k : XKey)
    (h : fromString pr s = .ok k) : fromString pr (toString pr k) = .ok k := by
  obtain ⟨hw, hl⟩ := fromString_WF pr s k h
  rw [fromString_toString pr ok k hw, normalize_of_len k hl]


/-! ### public derivation commutes with private derivation -/

/-- `Neuter(Child_i(k)) = Child_i(Neuter(k))` for a normal index `i`: whenever the private
derivation succeeds, the public derivation from the neutered parent succeeds and yields the
neutered child.  (No side condition on the child: in the degenerate case `(I_L + k) mod n = 0` both
sides carry the "compressed encoding" of `(0,0)`.) -/
theorem neuter_child_comm (pr : Prims) (reg : Registry) (k c nk : XKey) (i : Nat) (h : WF k)
    (hp : k.isPrivate = true) (hi : i < 2 ^ 31) (hc : child pr k i = .ok c)
    (hnk : neuter reg k = .ok nk) : ∃ c', child pr nk i = .ok c' ∧ neuter reg c = .ok c' := by
  have hd : k.depth ≠ 255 := by
    intro e; rw [child_depth_255 pr k i e] at hc; cases hc
  obtain ⟨n1, n2, n3, n4, n5, n6, n7⟩ := neuter_priv reg k nk hp hnk
  obtain ⟨b1, b2, b3⟩ := h.2.2.2.2.2.1 hp
  rw [N_eq] at b2
  -- the neutered parent
  have hKv : valid (smul (beNat k.key) G) = true := valid_smul _ valid_G
  have hKne : smul (beNat k.key) G ≠ inf := smul_G_ne_inf' b1 b2
  have hnkkey : nk.key = Ecdsa.serCompressed (smul (beNat k.key) G) := by
    rw [n2, ← serCompressed_eq_serP]; rfl
  have hnkl : nk.key.length = 33 := by rw [hnkkey]; exact serCompressed_length hKv
  have hnkK : Ecdsa.parsePubKey nk.key = some (smul (beNat k.key) G) := by
    rw [hnkkey]; exact parse_serCompressed hKv hKne
  -- the private child
  rw [child_priv_eq pr k i h hp hd (by omega)] at hc
  have hI : Spec.Bip32.ckdPrivI pr.hmac512 (beNat k.key) k.chainCode i =
      pr.hmac512 k.chainCode (Spec.Bip32.serP (smul (beNat k.key) G) ++ Spec.Bip32.ser32 i) := by
    unfold Spec.Bip32.ckdPrivI; rw [if_neg (by omega)]; rfl
  rw [hI] at hc
  -- the public child of the neutered parent
  rw [child_pub_eq' pr nk i _ hnkl n7 hnkK (by rw [n5]; exact hd) hi, n3]
  generalize pr.hmac512 k.chainCode (Spec.Bip32.serP (smul (beNat k.key) G) ++ Spec.Bip32.ser32 i) = I at hc ⊢
  simp only [] at hc ⊢
  split at hc
  · cases hc
  · rename_i hcond
    rw [if_neg hcond]
    injection hc with hc
    subst hc
    refine ⟨_, rfl, ?_⟩
    refine (neuter_priv_ok reg _ nk.version ?_ ?_).trans ?_
    · rfl
    · exact n1
    · have e1 : ∀ c : XKey, c.isPrivate = true →
          beNat c.key = (Spec.Bip32.parse256 (List.take 32 I) + beNat k.key) % Spec.N →
          c.pubKeyBytes = Spec.Bip32.serP
            (padd (Spec.Bip32.point (Spec.Bip32.parse256 (List.take 32 I))) (smul (beNat k.key) G)) := by
        intro c cp ck
        rw [pubKeyBytes_priv c cp, ck, smul_mod_N _ valid_G, smul_add _ _ valid_G, serCompressed_eq_serP]; rfl
      rw [e1 _ rfl (beNat_natBE _), n5]
      rfl


/-! ### `NewKeyFromString`: complete characterisation and the four refusals -/

/-- the key field (bytes 45..77) of a decoded string -/
def keyField (d : Bytes) : Bytes := ((d.take 78).drop 45).take 33

theorem fromString_iff (pr : Prims) (s : Bytes) (k : XKey) :
    fromString pr s = .ok k ↔
      (Base58.decode s).length = 82 ∧
      (Base58.decode s).drop 78 = (pr.sha256d ((Base58.decode s).take 78)).take 4 ∧
      ((keyField (Base58.decode s)).headD 1 = 0 ∧ 1 ≤ beNat ((keyField (Base58.decode s)).drop 1) ∧
          beNat ((keyField (Base58.decode s)).drop 1) < Spec.N ∧
          k = { key := (keyField (Base58.decode s)).drop 1,
                chainCode := (((Base58.decode s).take 78).drop 13).take 32,
                parentFP := (((Base58.decode s).take 78).drop 5).take 4,
                version := ((Base58.decode s).take 78).take 4,
                childNum := beNat ((((Base58.decode s).take 78).drop 9).take 4),
                depth := (((Base58.decode s).take 78).getD 4 0).toNat, isPrivate := true } ∨
       (keyField (Base58.decode s)).headD 1 ≠ 0 ∧
          (Ecdsa.parsePubKey (keyField (Base58.decode s))).isSome = true ∧
          k = { key := keyField (Base58.decode s),
                chainCode := (((Base58.decode s).take 78).drop 13).take 32,
                parentFP := (((Base58.decode s).take 78).drop 5).take 4,
                version := ((Base58.decode s).take 78).take 4,
                childNum := beNat ((((Base58.decode s).take 78).drop 9).take 4),
                depth := (((Base58.decode s).take 78).getD 4 0).toNat, isPrivate := false }) := by
  rw [fromString_ok_iff]
  unfold parsePayload keyField
  rw [buildKey_ok]

theorem fromString_bad_scalar (pr : Prims) (s : Bytes) (hl : (Base58.decode s).length = 82)
    (hc : (Base58.decode s).drop 78 = (pr.sha256d ((Base58.decode s).take 78)).take 4)
    (h0 : (keyField (Base58.decode s)).headD 1 = 0)
    (hr : beNat ((keyField (Base58.decode s)).drop 1) = 0 ∨ beNat ((keyField (Base58.decode s)).drop 1) ≥ Spec.N) :
    fromString pr s = .error .unusableSeed := by
  rw [fromString_eq, if_neg (not_not.mpr hl), if_neg (not_not.mpr hc)]
  unfold parsePayload buildKey
  unfold keyField at h0 hr
  rw [N_eq]
  have : ((((Base58.decode s).take 78).drop 45).take 33).headD 1 == 0 := by simpa using h0
  rw [if_pos this, if_pos (by simp only [Bool.or_eq_true, decide_eq_true_eq]; omega)]

theorem fromString_bad_pubkey (pr : Prims) (s : Bytes) (hl : (Base58.decode s).length = 82)
    (hc : (Base58.decode s).drop 78 = (pr.sha256d ((Base58.decode s).take 78)).take 4)
    (h0 : (keyField (Base58.decode s)).headD 1 ≠ 0)
    (hp : Ecdsa.parsePubKey (keyField (Base58.decode s)) = none) :
    fromString pr s = .error .badPubKey := by
  rw [fromString_eq, if_neg (not_not.mpr hl), if_neg (not_not.mpr hc)]
  unfold parsePayload buildKey
  unfold keyField at h0 hp
  have : (((((Base58.decode s).take 78).drop 45).take 33).headD 1 == 0) = false := by simpa using h0
  rw [this, hp]
  rfl

/-- `String()` is Base58 of the 78-byte BIP-0032 serialization followed by its 4-byte checksum -/
theorem toString_layout (pr : Prims) (k : XKey) (h : WF k) :
    toString pr k = Base58.encode
      (Spec.Bip32.serialize k.version k.depth k.parentFP k.childNum k.chainCode
          (if k.isPrivate then 0x00 :: Spec.Bip32.ser256 (beNat k.key) else k.key) ++
        (pr.sha256d (Spec.Bip32.serialize k.version k.depth k.parentFP k.childNum k.chainCode
          (if k.isPrivate then 0x00 :: Spec.Bip32.ser256 (beNat k.key) else k.key))).take 4) := by
  have hne : k.key.isEmpty = false := by
    cases hp : k.isPrivate
    · have := (h.2.2.2.2.2.2 hp).1
      cases hk : k.key with
      | nil => rw [hk] at this; cases this
      | cons a b => rfl
    · have := (h.2.2.2.2.2.1 hp).1
      cases hk : k.key with
      | nil => rw [hk] at this; simp at this
      | cons a b => rfl
  rw [toString_eq, hne]
  simp only [Bool.false_eq_true, if_false]
  have e : serPayload k = Spec.Bip32.serialize k.version k.depth k.parentFP k.childNum k.chainCode
      (if k.isPrivate then 0x00 :: Spec.Bip32.ser256 (beNat k.key) else k.key) := by
    unfold serPayload Spec.Bip32.serialize
    rw [be32_eq_ser32 _ h.2.2.2.2.1]
    cases hp : k.isPrivate
    · simp only [Bool.false_eq_true, if_false]; rw [pubKeyBytes_pub k hp]
    · simp only [if_true]
      rw [padLeft32_eq_ser256 _ (h.2.2.2.2.2.1 hp).2.2]; rfl
  rw [e]


/-! ### whole paths of private derivations -/

/-- if BIP-0032 defines the key at the end of a path and the code derives one, they agree
(scalar, chain code) and the depth has grown by the length of the path -/
theorem foldlM_child_priv_spec (pr : Prims) (ok : PrimsOK pr) (is : List Nat) (k c : XKey) (kn : Nat)
    (cn : Bytes) (h : WF k) (hp : k.isPrivate = true) (hi : ∀ i ∈ is, i < 2 ^ 32)
    (hm : is.foldlM (child pr) k = .ok c)
    (hs : Spec.Bip32.ckdPrivPath pr.hmac512 (beNat k.key, k.chainCode) is = some (kn, cn)) :
    beNat c.key = kn ∧ c.chainCode = cn ∧ c.depth = k.depth + is.length ∧ c.isPrivate = true ∧ WF c := by
  induction is generalizing k with
  | nil =>
    injection hm with hm; subst hm
    simp only [Spec.Bip32.ckdPrivPath, Option.some.injEq, Prod.mk.injEq] at hs
    exact ⟨hs.1, hs.2, rfl, hp, h⟩
  | cons i is ih =>
    rw [List.foldlM_cons] at hm
    cases hk : child pr k i with
    | error e => rw [hk] at hm; cases hm
    | ok k1 =>
      rw [hk] at hm
      have hi0 : i < 2 ^ 32 := hi i (by simp)
      simp only [Spec.Bip32.ckdPrivPath] at hs
      cases hc : Spec.Bip32.ckdPriv pr.hmac512 (beNat k.key) k.chainCode i with
      | none => rw [hc] at hs; cases hs
      | some kc' =>
        rw [hc] at hs
        obtain ⟨ki, ci⟩ := kc'
        -- the spec child is non-zero and equals the model child
        obtain ⟨IL, _, _, hkey⟩ := child_priv_key pr k k1 i h hp hi0 hk
        obtain ⟨e1, _, e3, e4, _⟩ := child_depth pr k k1 i hk
        have hd : k.depth ≠ 255 := by
          intro e; rw [child_depth_255 pr k i e] at hk; cases hk
        have hk' := hk
        rw [child_priv_eq pr k i h hp hd hi0] at hk'
        unfold Spec.Bip32.ckdPriv at hc
        simp only [] at hk' hc
        split at hk'
        · cases hk'
        · injection hk' with hk'
          split at hc
          · cases hc
          · rename_i hcond
            injection hc with hc; injection hc with c1 c2
            have hkn : beNat k1.key = ki := by rw [← hk', ← c1]; exact beNat_natBE _
            have hcc : k1.chainCode = ci := by rw [← hk', ← c2]
            have hp1 : k1.isPrivate = true := e3.trans hp
            have hnz : ki ≠ 0 := by
              intro e; apply hcond; right; rw [c1]; exact e
            have hw1 : WF k1 := by
              apply child_WF pr ok k k1 i h hi0 hk
              rintro (⟨_, e⟩ | ⟨e, _⟩)
              · apply hnz; rw [← hkn, e]; rfl
              · rw [hp1] at e; cases e
            have := ih k1 hw1 hp1 (fun j hj => hi j (List.mem_cons_of_mem _ hj)) hm
              (by rw [hkn, hcc]; exact hs)
            obtain ⟨r1, r2, r3, r4, r5⟩ := this
            exact ⟨r1, r2, by rw [r3, e1, List.length_cons]; omega, r4, r5⟩


end GoBk.Bip32

#print axioms GoBk.Bip32.fromString_toString
#print axioms GoBk.Bip32.neuter_child_comm
#print axioms GoBk.Bip32.child_priv_eq
#print axioms GoBk.Bip32.child_pub_eq
#print axioms GoBk.Bip32.valid_coords_ne_zero
