import GoBk.Model.XKeyStore
import GoBk.Spec.Bip32
import GoBk.Proofs.BytesLemmas
import GoBk.Proofs.KeyLemmas
import GoBk.Proofs.Base58Lemmas
/-
  Lemmas for C04, C08 (extended-key strings) and C18 (value-level facts about `SetNet`/`Zero`):
  `Child` in stages, well-formedness `WF` and its closure, `String`/`NewKeyFromString` round trip,
  correspondence with the BIP-0032 functions of `GoBk.Spec.Bip32`, `Neuter`/`Child` commutation.
-/
namespace GoBk.Bip32
open GoBk Bytes Spec

/-! ### `Child` in stages -/

/-- the 33-byte key field of the HMAC input -/
def childData33 (k : XKey) (i : Nat) : Bytes :=
  if i ≥ Gen.k_hardenedKeyStart then
    ((List.replicate (if 33 - k.key.length < 1 then 1 else 33 - k.key.length) 0 ++ k.key) ++
      List.replicate 33 0).take 33
  else (k.pubKeyBytes ++ List.replicate 33 0).take 33

/-- `I = HMAC-SHA512(chain code, data ‖ ser32(i))` -/
def childI (pr : Prims) (k : XKey) (i : Nat) : Bytes := pr.hmac512 k.chainCode (childData33 k i ++ be32 i)
def childIL (pr : Prims) (k : XKey) (i : Nat) : Bytes := (childI pr k i).take 32
def childCC (pr : Prims) (k : XKey) (i : Nat) : Bytes := (childI pr k i).drop 32
def childFP (pr : Prims) (k : XKey) : Bytes := (pr.hash160 k.pubKeyBytes).take 4

def childPriv (pr : Prims) (k : XKey) (i : Nat) : XKey :=
  { key := natBE ((beNat (childIL pr k i) + beNat k.key) % N), chainCode := childCC pr k i,
    parentFP := childFP pr k, version := k.version, childNum := i, depth := k.depth + 1, isPrivate := true }

def childPub (pr : Prims) (k : XKey) (i : Nat) : Except Err XKey :=
  if (Curve.scalarBaseMult (childIL pr k i)).1 = 0 || (Curve.scalarBaseMult (childIL pr k i)).2 = 0 then
    .error .invalidChild
  else
    match Ecdsa.parsePubKey k.key with
    | none => .error .badPubKey
    | some pub =>
      .ok { key := Ecdsa.serCompressed (Curve.add (Curve.scalarBaseMult (childIL pr k i)) pub),
            chainCode := childCC pr k i, parentFP := childFP pr k, version := k.version, childNum := i,
            depth := k.depth + 1, isPrivate := false }

theorem child_eq (pr : Prims) (k : XKey) (i : Nat) :
    child pr k i =
      if k.depth == Gen.k_maxUint8 then .error .maxDepth else
      if !k.isPrivate && decide (i ≥ Gen.k_hardenedKeyStart) then .error .hardFromPublic else
      if decide (beNat (childIL pr k i) ≥ N) || decide (beNat (childIL pr k i) = 0) then .error .invalidChild else
      if k.isPrivate then .ok (childPriv pr k i) else childPub pr k i := rfl

theorem pubKeyBytes_setNet (k : XKey) (a b : Bytes) : (setNet k a b).pubKeyBytes = k.pubKeyBytes := rfl

theorem child_setNet (pr : Prims) (k : XKey) (a b : Bytes) (i : Nat) :
    child pr (setNet k a b) i =
      (child pr k i).map (fun c => { c with version := (setNet k a b).version }) := by
  rw [child_eq, child_eq]
  have e1 : childIL pr (setNet k a b) i = childIL pr k i := rfl
  have e2 : (setNet k a b).depth = k.depth := rfl
  have e3 : (setNet k a b).isPrivate = k.isPrivate := rfl
  rw [e1, e2, e3]
  split
  · rfl
  · split
    · rfl
    · split
      · rfl
      · split
        · rfl
        · unfold childPub
          rw [e1]
          have e4 : (setNet k a b).key = k.key := rfl
          rw [e4]
          split
          · rfl
          · split <;> rfl

theorem child_version (pr : Prims) (k c : XKey) (i : Nat) (h : child pr k i = .ok c) :
    c.version = k.version := by
  rw [child_eq] at h
  split at h
  · cases h
  · split at h
    · cases h
    · split at h
      · cases h
      · split at h
        · injection h with h; subst h; rfl
        · unfold childPub at h
          split at h
          · cases h
          · split at h
            · cases h
            · injection h with h; subst h; rfl

theorem child_depth (pr : Prims) (k c : XKey) (i : Nat) (h : child pr k i = .ok c) :
    c.depth = k.depth + 1 ∧ c.childNum = i ∧ c.isPrivate = k.isPrivate ∧ c.chainCode = childCC pr k i ∧
      c.parentFP = childFP pr k := by
  rw [child_eq] at h
  split at h
  · cases h
  · split at h
    · cases h
    · split at h
      · cases h
      · split at h
        · rename_i hp; injection h with h; subst h; exact ⟨rfl, rfl, hp.symm, rfl, rfl⟩
        · rename_i hp
          unfold childPub at h
          split at h
          · cases h
          · split at h
            · cases h
            · injection h with h; subst h
              exact ⟨rfl, rfl, by simpa using hp, rfl, rfl⟩

/-! ### `SetNet` and `Zero` at value level (C18) -/

theorem setNet_eq (k : XKey) (a b : Bytes) :
    setNet k a b = { k with version := if k.isPrivate then a else b } := rfl

theorem toString_zero (pr : Prims) (k : XKey) : toString pr (zero k) = zeroedString := rfl

theorem zero_isPrivate (k : XKey) : (zero k).isPrivate = false := rfl

end GoBk.Bip32
