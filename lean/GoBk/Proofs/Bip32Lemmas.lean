import GoBk.Model.XKeyStore
import GoBk.Model.XKeyHeap
import GoBk.Spec.Bip32
import GoBk.Proofs.BytesLemmas
import GoBk.Proofs.KeyLemmas
import GoBk.Proofs.Base58Lemmas
/-
  Lemmas for C04, C08 (extended-key strings) and C18 (value-level facts about `SetNet`/`Zero`):
  `Child` in stages, well-formedness `WF` and its closure, `String`/`NewKeyFromString` round trip,
  correspondence with the BIP-0032 functions of `GoBk.Spec.Bip32`, `Neuter`/`Child` commutation;
  and (namespace `GoBk.XKeyHeap`) the heap-level model of C18: slices, `Inv`, its preservation and
  the refinement of `GoBk.Model.XKeyHeap` to the object store `GoBk.Model.XKeyStore`.
-/
namespace GoBk.Bip32
open GoBk Bytes Spec

/-! ### `Child` in stages -/

/-- the 33-byte key field of the HMAC input -/
def childData33 (k : XKey) (i : Nat) : Bytes :=
  if i ≥ Gen.k_hardenedKeyStart then
    ((List.replicate (if 33 - k.key.length < 1 then 1 else 33 - k.key.length) 0 ++ k.key) ++
      List.replicate 33 0).take 33
  else (k.pubKeyBytes ++ List.replicate 33 0).take 33

/-- `I = HMAC-SHA512(chain code, data ‖ ser32(i))` -/
def childI (pr : Prims) (k : XKey) (i : Nat) : Bytes := pr.hmac512 k.chainCode (childData33 k i ++ be32 i)
def childIL (pr : Prims) (k : XKey) (i : Nat) : Bytes := (childI pr k i).take 32
def childCC (pr : Prims) (k : XKey) (i : Nat) : Bytes := (childI pr k i).drop 32
def childFP (pr : Prims) (k : XKey) : Bytes := (pr.hash160 k.pubKeyBytes).take 4

def childPriv (pr : Prims) (k : XKey) (i : Nat) : XKey :=
  { key := natBE ((beNat (childIL pr k i) + beNat k.key) % N), chainCode := childCC pr k i,
    parentFP := childFP pr k, version := k.version, childNum := i, depth := k.depth + 1, isPrivate := true }

def childPub (pr : Prims) (k : XKey) (i : Nat) : Except Err XKey :=
  if (Curve.scalarBaseMult (childIL pr k i)).1 = 0 || (Curve.scalarBaseMult (childIL pr k i)).2 = 0 then
    .error .invalidChild
  else
    match Ecdsa.parsePubKey k.key with
    | none => .error .badPubKey
    | some pub =>
      .ok { key := Ecdsa.serCompressed (Curve.add (Curve.scalarBaseMult (childIL pr k i)) pub),
            chainCode := childCC pr k i, parentFP := childFP pr k, version := k.version, childNum := i,
            depth := k.depth + 1, isPrivate := false }

theorem child_eq (pr : Prims) (k : XKey) (i : Nat) :
    child pr k i =
      if k.depth == Gen.k_maxUint8 then .error .maxDepth else
      if !k.isPrivate && decide (i ≥ Gen.k_hardenedKeyStart) then .error .hardFromPublic else
      if decide (beNat (childIL pr k i) ≥ N) || decide (beNat (childIL pr k i) = 0) then .error .invalidChild else
      if k.isPrivate then .ok (childPriv pr k i) else childPub pr k i := rfl

theorem pubKeyBytes_setNet (k : XKey) (a b : Bytes) : (setNet k a b).pubKeyBytes = k.pubKeyBytes := rfl

theorem child_setNet (pr : Prims) (k : XKey) (a b : Bytes) (i : Nat) :
    child pr (setNet k a b) i =
      (child pr k i).map (fun c => { c with version := (setNet k a b).version }) := by
  rw [child_eq, child_eq]
  have e1 : childIL pr (setNet k a b) i = childIL pr k i := rfl
  have e2 : (setNet k a b).depth = k.depth := rfl
  have e3 : (setNet k a b).isPrivate = k.isPrivate := rfl
  rw [e1, e2, e3]
  split
  · rfl
  · split
    · rfl
    · split
      · rfl
      · split
        · rfl
        · unfold childPub
          rw [e1]
          have e4 : (setNet k a b).key = k.key := rfl
          rw [e4]
          split
          · rfl
          · split <;> rfl

theorem child_version (pr : Prims) (k c : XKey) (i : Nat) (h : child pr k i = .ok c) :
    c.version = k.version := by
  rw [child_eq] at h
  split at h
  · cases h
  · split at h
    · cases h
    · split at h
      · cases h
      · split at h
        · injection h with h; subst h; rfl
        · unfold childPub at h
          split at h
          · cases h
          · split at h
            · cases h
            · injection h with h; subst h; rfl

theorem child_depth (pr : Prims) (k c : XKey) (i : Nat) (h : child pr k i = .ok c) :
    c.depth = k.depth + 1 ∧ c.childNum = i ∧ c.isPrivate = k.isPrivate ∧ c.chainCode = childCC pr k i ∧
      c.parentFP = childFP pr k := by
  rw [child_eq] at h
  split at h
  · cases h
  · split at h
    · cases h
    · split at h
      · cases h
      · split at h
        · rename_i hp; injection h with h; subst h; exact ⟨rfl, rfl, hp.symm, rfl, rfl⟩
        · rename_i hp
          unfold childPub at h
          split at h
          · cases h
          · split at h
            · cases h
            · injection h with h; subst h
              exact ⟨rfl, rfl, by simpa using hp, rfl, rfl⟩

/-! ### `SetNet` and `Zero` at value level (C18) -/

theorem setNet_eq (k : XKey) (a b : Bytes) :
    setNet k a b = { k with version := if k.isPrivate then a else b } := rfl

theorem toString_zero (pr : Prims) (k : XKey) : toString pr (zero k) = zeroedString := rfl

theorem zero_isPrivate (k : XKey) : (zero k).isPrivate = false := rfl


open GoBk.Proofs GoBk.Proofs.KeyBytes

/-! ### constants -/

theorem N_eq : Bip32.N = Spec.N := c_N_eq
theorem masterKey_eq : Gen.masterKey = Spec.Bip32.seedKey := by decide
theorem hardenedStart_eq : Gen.k_hardenedKeyStart = 2 ^ 31 := rfl

/-! ### curve facts: a finite point of secp256k1 has no zero coordinate -/

theorem seven_nonresidue : powMod 7 ((P - 1) / 2) P = P - 1 := by decide +kernel

theorem valid_coords_ne_zero {a : Pt} (hv : valid a = true) (hne : a ≠ inf) : a.1 ≠ 0 ∧ a.2 ≠ 0 := by
  obtain ⟨x, y⟩ := a
  have hon := onCurve_of_valid hv hne
  constructor
  · rintro (rfl : x = 0)
    rw [onCurve_cast] at hon
    have h7 : (y : F) ^ 2 = 7 := by rw [hon]; simp
    have hy0 : (y : F) ≠ 0 := by
      intro e; rw [e] at h7; simp at h7; exact seven_ne_zero' h7.symm
    have h1 : (7 : F) ^ ((P - 1) / 2) = 1 := by
      rw [← h7, ← pow_mul, show 2 * ((P - 1) / 2) = P - 1 by decide]
      exact ZMod.pow_card_sub_one_eq_one hy0
    have h2 : ((powMod 7 ((P - 1) / 2) P : ℕ) : F) = 1 := by
      rw [cast_powMod]; exact_mod_cast h1
    rw [seven_nonresidue, Nat.cast_sub (by decide : 1 ≤ P), ZMod.natCast_self] at h2
    have : (2 : F) = 0 := by
      have h3 : (0 : F) - ((1 : ℕ) : F) = 1 := h2
      rw [Nat.cast_one] at h3
      linear_combination -h3
    exact two_ne_zero' this
  · rintro (rfl : y = 0)
    have hd : pdouble (x, 0) = inf := by simp [pdouble]
    rw [pdouble_eq_padd hv] at hd
    obtain ⟨Q, hQ⟩ := (valid_iff _).1 hv
    rw [← hQ, padd_enc, enc_eq_inf_iff] at hd
    have := no_two_torsion Q hd
    rw [this] at hQ
    exact hne hQ.symm

theorem smul_G_ne_inf' {n : Nat} (h1 : 1 ≤ n) (h2 : n < Spec.N) : smul n G ≠ inf := by
  intro e
  have := Nat.le_of_dvd (by omega) ((smul_G_eq_inf_iff n).1 e)
  omega

theorem smul_G_coords_ne_zero {n : Nat} (h1 : 1 ≤ n) (h2 : n < Spec.N) :
    (smul n G).1 ≠ 0 ∧ (smul n G).2 ≠ 0 :=
  valid_coords_ne_zero (valid_smul n valid_G) (smul_G_ne_inf' h1 h2)


/-! ### byte-level facts -/

theorem take_append_len {α} (a r : List α) (n : Nat) (h : a.length = n) : (a ++ r).take n = a := by
  subst h; simp

theorem drop_append_len {α} (a r : List α) (n : Nat) (h : a.length = n) : (a ++ r).drop n = r := by
  subst h; simp

theorem be32_eq_ser32 (i : Nat) (h : i < 2 ^ 32) : be32 i = Spec.Bip32.ser32 i := by
  unfold be32 Spec.Bip32.ser32; rw [Nat.mod_eq_of_lt h]

theorem be32_length (i : Nat) : (be32 i).length = 4 :=
  natBEpad_length 4 _ (by have := Nat.mod_lt i (show 0 < 2 ^ 32 by decide); omega)

theorem beNat_be32 (i : Nat) (h : i < 2 ^ 32) : beNat (be32 i) = i := by
  unfold be32; rw [beNat_natBEpad, Nat.mod_eq_of_lt h]

/-- a string of at most 32 bytes, left-padded to 32, is `ser256` of its value -/
theorem padLeft32_eq_ser256 (key : Bytes) (h : key.length ≤ 32) :
    padLeft 32 key = Spec.Bip32.ser256 (beNat key) := by
  have hl := padLeft_length_of_le 32 key h
  have := natBEpad_beNat (padLeft 32 key)
  rw [hl, beNat_padLeft] at this
  exact this.symm

theorem serCompressed_eq_serP (q : Pt) : Ecdsa.serCompressed q = Spec.Bip32.serP q := by
  unfold Ecdsa.serCompressed Spec.Bip32.serP Spec.Bip32.ser256
  have : q.2 % 2 = 0 ∨ q.2 % 2 = 1 := by omega
  rcases this with h | h <;> simp [h]

theorem serCompressed_length {q : Pt} (hv : valid q = true) : (Ecdsa.serCompressed q).length = 33 := by
  simp [Ecdsa.serCompressed, natBEpad32_length_of_lt_P (valid_lt hv).1]

theorem parse_serCompressed {q : Pt} (hv : valid q = true) (hne : q ≠ inf) :
    Ecdsa.parsePubKey (Ecdsa.serCompressed q) = some q := by
  rw [parsePubKey_iff_sec1]
  refine ⟨(valid_lt hv).1, (valid_lt hv).2, onCurve_of_valid hv hne, Or.inr (Or.inr ?_)⟩
  unfold Ecdsa.serCompressed
  by_cases hp : q.2 % 2 = 1
  · rw [parity_odd hp]; simp [hp]
  · rw [parity_even hp]; simp [hp]

/-- a 33-byte string that parses is the compressed form of the parsed point -/
theorem eq_serCompressed_of_parse {b : Bytes} {q : Pt} (h : Ecdsa.parsePubKey b = some q)
    (hl : b.length = 33) : b = Ecdsa.serCompressed q ∧ valid q = true ∧ q ≠ inf := by
  obtain ⟨hx, hy, hon, hb⟩ := (parsePubKey_iff_sec1 b q).1 h
  have lx := natBEpad32_length_of_lt_P hx
  have ly := natBEpad32_length_of_lt_P hy
  refine ⟨?_, valid_of_onCurve hx hy hon, ne_inf_of_onCurve hon⟩
  rcases hb with rfl | rfl | rfl
  · simp [lx, ly] at hl
  · simp [lx, ly] at hl
  · unfold Ecdsa.serCompressed
    by_cases hp : q.2 % 2 = 1
    · rw [parity_odd hp]; simp [hp]
    · rw [parity_even hp]; simp [hp]

theorem pubKeyBytes_priv (k : XKey) (h : k.isPrivate = true) :
    k.pubKeyBytes = Ecdsa.serCompressed (smul (beNat k.key) G) := by
  unfold XKey.pubKeyBytes; rw [h]; simp only [Bool.not_true, Bool.false_eq_true, if_false]
  rw [scalarBaseMult_eq]

theorem pubKeyBytes_pub (k : XKey) (h : k.isPrivate = false) : k.pubKeyBytes = k.key := by
  unfold XKey.pubKeyBytes; rw [h]; rfl

/-! ### the HMAC input of `Child` -/

theorem childData33_hardened (k : XKey) (i : Nat) (hl : k.key.length ≤ 32) (hi : i ≥ 2 ^ 31) :
    childData33 k i = 0 :: padLeft 32 k.key := by
  unfold childData33
  rw [if_pos (by rw [hardenedStart_eq]; exact hi), if_neg (by omega)]
  have e : List.replicate (33 - k.key.length) (0 : UInt8) = 0 :: List.replicate (32 - k.key.length) 0 := by
    rw [show 33 - k.key.length = (32 - k.key.length) + 1 by omega, List.replicate_succ]
  rw [e]
  apply take_append_len
  simp; omega

theorem childData33_normal (k : XKey) (i : Nat) (hl : k.pubKeyBytes.length = 33) (hi : i < 2 ^ 31) :
    childData33 k i = k.pubKeyBytes := by
  unfold childData33
  rw [if_neg (by rw [hardenedStart_eq]; omega)]
  exact take_append_len _ _ _ hl


/-! ### well-formed extended keys -/

/-- the shape every key produced by `NewMaster`, `Child`, `Neuter`, `NewKeyFromString` has
(for `Child` up to the degenerate zero key, see `child_WF`) -/
def WF (k : XKey) : Prop :=
  k.version.length = 4 ∧ k.chainCode.length = 32 ∧ k.parentFP.length = 4 ∧ k.depth < 256 ∧
  k.childNum < 2 ^ 32 ∧
  (k.isPrivate = true → 1 ≤ beNat k.key ∧ beNat k.key < N ∧ k.key.length ≤ 32) ∧
  (k.isPrivate = false → k.key.length = 33 ∧ (Ecdsa.parsePubKey k.key).isSome = true)

instance (k : XKey) : Decidable (WF k) := by unfold WF; exact inferInstance

theorem WF.pub_point {k : XKey} (h : WF k) (hp : k.isPrivate = false) :
    ∃ K, Ecdsa.parsePubKey k.key = some K ∧ k.key = Ecdsa.serCompressed K ∧ valid K = true ∧ K ≠ inf := by
  obtain ⟨hl, hs⟩ := h.2.2.2.2.2.2 hp
  obtain ⟨K, hK⟩ := Option.isSome_iff_exists.1 hs
  exact ⟨K, hK, eq_serCompressed_of_parse hK hl⟩

theorem WF.pubKeyBytes_length {k : XKey} (h : WF k) : k.pubKeyBytes.length = 33 := by
  cases hp : k.isPrivate
  · rw [pubKeyBytes_pub k hp]; exact (h.2.2.2.2.2.2 hp).1
  · rw [pubKeyBytes_priv k hp]; exact serCompressed_length (valid_smul _ valid_G)

/-! ### `Child`: refusals -/

theorem child_depth_255 (pr : Prims) (k : XKey) (i : Nat) (h : k.depth = 255) :
    child pr k i = .error .maxDepth := by
  rw [child_eq, if_pos (by rw [h]; rfl)]

theorem child_hardened_from_public (pr : Prims) (k : XKey) (i : Nat) (hd : k.depth ≠ 255)
    (hp : k.isPrivate = false) (hi : i ≥ 2 ^ 31) : child pr k i = .error .hardFromPublic := by
  rw [child_eq, if_neg (by simpa [Gen.k_maxUint8] using hd), if_pos (by have : 2147483648 ≤ i := hi; simp [hp, hardenedStart_eq, this])]

theorem child_hardened_from_public_fails (pr : Prims) (k : XKey) (i : Nat)
    (hp : k.isPrivate = false) (hi : i ≥ 2 ^ 31) : (child pr k i).toOption = none := by
  by_cases hd : k.depth = 255
  · rw [child_depth_255 pr k i hd]; rfl
  · rw [child_hardened_from_public pr k i hd hp hi]; rfl

/-! ### `Child` on a private key is `CKDpriv` -/

theorem childI_priv (pr : Prims) (k : XKey) (i : Nat) (h : WF k) (hp : k.isPrivate = true) (hi : i < 2 ^ 32) :
    childI pr k i = Spec.Bip32.ckdPrivI pr.hmac512 (beNat k.key) k.chainCode i := by
  unfold childI Spec.Bip32.ckdPrivI
  have hl := (h.2.2.2.2.2.1 hp).2.2
  by_cases hh : i ≥ 2 ^ 31
  · rw [if_pos hh, childData33_hardened k i hl hh, padLeft32_eq_ser256 _ hl, be32_eq_ser32 i hi]; rfl
  · rw [if_neg hh, childData33_normal k i h.pubKeyBytes_length (by omega), pubKeyBytes_priv k hp,
      serCompressed_eq_serP, be32_eq_ser32 i hi]; rfl

theorem childFP_priv (pr : Prims) (k : XKey) (hp : k.isPrivate = true) :
    childFP pr k = Spec.Bip32.fingerprint pr.hash160 (Spec.Bip32.point (beNat k.key)) := by
  unfold childFP Spec.Bip32.fingerprint
  rw [pubKeyBytes_priv k hp, serCompressed_eq_serP]; rfl

/-- **`Child` on a private key**, complete: with `I = HMAC-SHA512(c_par, …)` exactly as in
`CKDpriv`, the call fails iff `parse256(I_L) ≥ n` or `parse256(I_L) = 0`, and otherwise returns
`k_i = (parse256(I_L) + k_par) mod n` (stored as minimal big-endian bytes), `c_i = I_R`, depth+1,
child number `i`, the parent's fingerprint and the parent's version. -/
theorem child_priv_eq (pr : Prims) (k : XKey) (i : Nat) (h : WF k) (hp : k.isPrivate = true)
    (hd : k.depth ≠ 255) (hi : i < 2 ^ 32) :
    child pr k i =
      (let I := Spec.Bip32.ckdPrivI pr.hmac512 (beNat k.key) k.chainCode i
       let IL := Spec.Bip32.parse256 (I.take 32)
       if IL ≥ Spec.N ∨ IL = 0 then .error .invalidChild
       else .ok { key := natBE ((IL + beNat k.key) % Spec.N), chainCode := I.drop 32,
                  parentFP := Spec.Bip32.fingerprint pr.hash160 (Spec.Bip32.point (beNat k.key)),
                  version := k.version, childNum := i, depth := k.depth + 1, isPrivate := true }) := by
  rw [child_eq, if_neg (by simpa [Gen.k_maxUint8] using hd), if_neg (by simp [hp])]
  simp only [hp, if_true]
  unfold childPriv childIL childCC
  rw [childI_priv pr k i h hp hi, childFP_priv pr k hp, N_eq]
  generalize Spec.Bip32.ckdPrivI pr.hmac512 (beNat k.key) k.chainCode i = I
  by_cases hc : beNat (I.take 32) ≥ Spec.N ∨ beNat (I.take 32) = 0
  · rw [if_pos (by simpa using hc)]; exact (if_pos hc).symm
  · rw [if_neg (by simpa using hc)]; exact (if_neg hc).symm


/-- agreement with `CKDpriv` where BIP-0032 defines a key and `I_L ≠ 0` -/
theorem child_of_ckdPriv (pr : Prims) (k : XKey) (i : Nat) (h : WF k) (hp : k.isPrivate = true)
    (hd : k.depth ≠ 255) (hi : i < 2 ^ 32) (ki : Nat) (ci : Bytes)
    (hs : Spec.Bip32.ckdPriv pr.hmac512 (beNat k.key) k.chainCode i = some (ki, ci))
    (h0 : Spec.Bip32.parse256 ((Spec.Bip32.ckdPrivI pr.hmac512 (beNat k.key) k.chainCode i).take 32) ≠ 0) :
    child pr k i = .ok { key := natBE ki, chainCode := ci,
                         parentFP := Spec.Bip32.fingerprint pr.hash160 (Spec.Bip32.point (beNat k.key)),
                         version := k.version, childNum := i, depth := k.depth + 1, isPrivate := true } := by
  rw [child_priv_eq pr k i h hp hd hi]
  unfold Spec.Bip32.ckdPriv at hs
  simp only [] at hs ⊢
  split at hs
  · cases hs
  · rename_i hc
    injection hs with hs
    injection hs with e1 e2
    rw [if_neg (by intro hx; rcases hx with hx | hx; exact hc (Or.inl hx); exact h0 hx), e1, e2]

/-- conversely every non-degenerate key returned by `Child` is the `CKDpriv` child -/
theorem ckdPriv_of_child (pr : Prims) (k c : XKey) (i : Nat) (h : WF k) (hp : k.isPrivate = true)
    (hi : i < 2 ^ 32) (hc : child pr k i = .ok c) (hne : beNat c.key ≠ 0) :
    Spec.Bip32.ckdPriv pr.hmac512 (beNat k.key) k.chainCode i = some (beNat c.key, c.chainCode) := by
  have hd : k.depth ≠ 255 := by
    intro e; rw [child_depth_255 pr k i e] at hc; cases hc
  rw [child_priv_eq pr k i h hp hd hi] at hc
  simp only [] at hc
  split at hc
  · cases hc
  · rename_i hcond
    injection hc with hc
    subst hc
    simp only [beNat_natBE] at hne ⊢
    unfold Spec.Bip32.ckdPriv
    simp only []
    rw [if_neg (by intro hx; rcases hx with hx | hx; exact hcond (Or.inl hx); exact hne hx)]

/-- `parse256(I_L) ≥ n`: both BIP-0032 and the code refuse -/
theorem child_priv_refuses (pr : Prims) (k : XKey) (i : Nat) (h : WF k) (hp : k.isPrivate = true)
    (hd : k.depth ≠ 255) (hi : i < 2 ^ 32)
    (hge : Spec.Bip32.parse256 ((Spec.Bip32.ckdPrivI pr.hmac512 (beNat k.key) k.chainCode i).take 32) ≥ Spec.N) :
    child pr k i = .error .invalidChild ∧
      Spec.Bip32.ckdPriv pr.hmac512 (beNat k.key) k.chainCode i = none := by
  constructor
  · rw [child_priv_eq pr k i h hp hd hi]; simp only []; rw [if_pos (Or.inl hge)]
  · unfold Spec.Bip32.ckdPriv; simp only []; rw [if_pos (Or.inl hge)]

/-! ### `Child` on a public key is `CKDpub` -/

theorem childI_pub (pr : Prims) (k : XKey) (i : Nat) (K : Pt) (hl : k.key.length = 33) (hp : k.isPrivate = false)
    (hK : Ecdsa.parsePubKey k.key = some K) (hi : i < 2 ^ 31) :
    childI pr k i = pr.hmac512 k.chainCode (Spec.Bip32.serP K ++ Spec.Bip32.ser32 i) := by
  unfold childI
  rw [childData33_normal k i (by rw [pubKeyBytes_pub k hp]; exact hl) hi, pubKeyBytes_pub k hp,
    (eq_serCompressed_of_parse hK hl).1, serCompressed_eq_serP, be32_eq_ser32 i (by omega)]

/-- **`Child` on a public key**, complete (normal index): `I` as in `CKDpub`; the call fails iff
`parse256(I_L) ≥ n` or `parse256(I_L) = 0` and otherwise returns `K_i = point(parse256(I_L)) + K_par`
in compressed form, `c_i = I_R`.  (The code's additional test "`I_L·G` has a zero coordinate" can
never fire: no finite point of secp256k1 has a zero coordinate — `valid_coords_ne_zero`.) -/
theorem child_pub_eq' (pr : Prims) (k : XKey) (i : Nat) (K : Pt) (hl : k.key.length = 33) (hp : k.isPrivate = false)
    (hK : Ecdsa.parsePubKey k.key = some K) (hd : k.depth ≠ 255) (hi : i < 2 ^ 31) :
    child pr k i =
      (let I := pr.hmac512 k.chainCode (Spec.Bip32.serP K ++ Spec.Bip32.ser32 i)
       let IL := Spec.Bip32.parse256 (I.take 32)
       if IL ≥ Spec.N ∨ IL = 0 then .error .invalidChild
       else .ok { key := Spec.Bip32.serP (padd (Spec.Bip32.point IL) K), chainCode := I.drop 32,
                  parentFP := Spec.Bip32.fingerprint pr.hash160 K,
                  version := k.version, childNum := i, depth := k.depth + 1, isPrivate := false }) := by
  rw [child_eq, if_neg (by simpa [Gen.k_maxUint8] using hd),
    if_neg (by have : ¬ 2147483648 ≤ i := by omega
               simp [hp, hardenedStart_eq, this])]
  simp only [hp, Bool.false_eq_true, if_false]
  unfold childPub childIL childCC childFP
  rw [childI_pub pr k i K hl hp hK hi, N_eq, hK, pubKeyBytes_pub k hp]
  simp only []
  rw [(eq_serCompressed_of_parse hK hl).1, serCompressed_eq_serP]
  generalize pr.hmac512 k.chainCode (Spec.Bip32.serP K ++ Spec.Bip32.ser32 i) = I
  by_cases hc : beNat (I.take 32) ≥ Spec.N ∨ beNat (I.take 32) = 0
  · rw [if_pos (by simpa using hc)]; exact (if_pos hc).symm
  · rw [if_neg (by simpa using hc)]
    refine Eq.trans ?_ (if_neg hc).symm
    have hr : 1 ≤ beNat (I.take 32) ∧ beNat (I.take 32) < Spec.N := by omega
    rw [scalarBaseMult_eq]
    have hz := smul_G_coords_ne_zero hr.1 hr.2
    rw [if_neg (by simp [hz.1, hz.2]), Curve.add_def, serCompressed_eq_serP]
    rfl


theorem child_pub_eq (pr : Prims) (k : XKey) (i : Nat) (K : Pt) (h : WF k) (hp : k.isPrivate = false)
    (hK : Ecdsa.parsePubKey k.key = some K) (hd : k.depth ≠ 255) (hi : i < 2 ^ 31) :
    child pr k i =
      (let I := pr.hmac512 k.chainCode (Spec.Bip32.serP K ++ Spec.Bip32.ser32 i)
       let IL := Spec.Bip32.parse256 (I.take 32)
       if IL ≥ Spec.N ∨ IL = 0 then .error .invalidChild
       else .ok { key := Spec.Bip32.serP (padd (Spec.Bip32.point IL) K), chainCode := I.drop 32,
                  parentFP := Spec.Bip32.fingerprint pr.hash160 K,
                  version := k.version, childNum := i, depth := k.depth + 1, isPrivate := false }) :=
  child_pub_eq' pr k i K (h.2.2.2.2.2.2 hp).1 hp hK hd hi

/-- agreement with `CKDpub` where BIP-0032 defines a key and `I_L ≠ 0` -/
theorem child_of_ckdPub (pr : Prims) (k : XKey) (i : Nat) (K : Pt) (h : WF k) (hp : k.isPrivate = false)
    (hK : Ecdsa.parsePubKey k.key = some K) (hd : k.depth ≠ 255) (Ki : Pt) (ci : Bytes)
    (hs : Spec.Bip32.ckdPub pr.hmac512 K k.chainCode i = some (Ki, ci))
    (h0 : Spec.Bip32.parse256 ((pr.hmac512 k.chainCode (Spec.Bip32.serP K ++ Spec.Bip32.ser32 i)).take 32) ≠ 0) :
    child pr k i = .ok { key := Spec.Bip32.serP Ki, chainCode := ci,
                         parentFP := Spec.Bip32.fingerprint pr.hash160 K,
                         version := k.version, childNum := i, depth := k.depth + 1, isPrivate := false } := by
  unfold Spec.Bip32.ckdPub at hs
  split at hs
  · cases hs
  · rename_i hi
    rw [child_pub_eq pr k i K h hp hK hd (by omega)]
    simp only [] at hs ⊢
    split at hs
    · cases hs
    · rename_i hc
      injection hs with hs
      injection hs with e1 e2
      rw [if_neg (by intro hx; rcases hx with hx | hx; exact hc (Or.inl hx); exact h0 hx), e1, e2]

/-- conversely every non-degenerate key returned by `Child` on a public key is the `CKDpub` child -/
theorem ckdPub_of_child (pr : Prims) (k c : XKey) (i : Nat) (K : Pt) (h : WF k) (hp : k.isPrivate = false)
    (hK : Ecdsa.parsePubKey k.key = some K) (hc : child pr k i = .ok c)
    (hne : c.key ≠ Spec.Bip32.serP inf) :
    ∃ Ki, Spec.Bip32.ckdPub pr.hmac512 K k.chainCode i = some (Ki, c.chainCode) ∧
      c.key = Spec.Bip32.serP Ki := by
  have hd : k.depth ≠ 255 := by
    intro e; rw [child_depth_255 pr k i e] at hc; cases hc
  have hi : i < 2 ^ 31 := by
    apply Decidable.byContradiction; intro hi
    rw [child_hardened_from_public pr k i hd hp (by omega)] at hc; cases hc
  rw [child_pub_eq pr k i K h hp hK hd hi] at hc
  simp only [] at hc
  split at hc
  · cases hc
  · rename_i hcond
    injection hc with hc
    subst hc
    simp only [] at hne ⊢
    refine ⟨_, ?_, rfl⟩
    unfold Spec.Bip32.ckdPub
    rw [if_neg (by omega)]
    simp only []
    rw [if_neg (by
      intro hx; rcases hx with hx | hx
      · exact hcond (Or.inl hx)
      · apply hne; rw [hx])]

/-! ### `NewMaster` is BIP-0032 master key generation -/

theorem newMaster_seed_len (pr : Prims) (seed v : Bytes) (h : seed.length < 16 ∨ seed.length > 64) :
    newMaster pr seed v = .error .invalidSeedLen := by
  unfold newMaster
  rw [if_pos (by rcases h with h | h <;> simp [Gen.k_minSeedBytes, Gen.k_maxSeedBytes, h])]

theorem newMaster_eq (pr : Prims) (seed v : Bytes) :
    newMaster pr seed v =
      if seed.length < 16 ∨ seed.length > 64 then .error .invalidSeedLen else
      match Spec.Bip32.master pr.hmac512 seed with
      | none => .error .unusableSeed
      | some (_, c) => .ok { key := (pr.hmac512 Spec.Bip32.seedKey seed).take 32, chainCode := c,
                             parentFP := [0, 0, 0, 0], version := v, childNum := 0, depth := 0,
                             isPrivate := true } := by
  by_cases hl : seed.length < 16 ∨ seed.length > 64
  · rw [newMaster_seed_len pr seed v hl, if_pos hl]
  · rw [if_neg hl]
    unfold newMaster Spec.Bip32.master
    have hl' : 16 ≤ seed.length ∧ seed.length ≤ 64 := by omega
    have hb : (decide (seed.length < Gen.k_minSeedBytes) || decide (seed.length > Gen.k_maxSeedBytes)) = false := by
      have h1 : ¬ seed.length < Gen.k_minSeedBytes := by simp [Gen.k_minSeedBytes]; omega
      have h2 : ¬ seed.length > Gen.k_maxSeedBytes := by simp [Gen.k_maxSeedBytes]; omega
      simp [h1, h2]
    rw [hb, if_neg hl, masterKey_eq, N_eq]
    simp only [Bool.false_eq_true, if_false]
    generalize pr.hmac512 Spec.Bip32.seedKey seed = I
    by_cases hc : Spec.Bip32.parse256 (I.take 32) = 0 ∨ Spec.Bip32.parse256 (I.take 32) ≥ Spec.N
    · have hc' : beNat (I.take 32) = 0 ∨ beNat (I.take 32) ≥ Spec.N := hc
      rw [if_pos (by rcases hc' with hc' | hc' <;> simp [hc']), if_pos hc]
    · have hc' : ¬ (beNat (I.take 32) = 0 ∨ beNat (I.take 32) ≥ Spec.N) := hc
      rw [if_neg (by simp; omega), if_neg hc]

/-- the stored master key bytes are `ser256` of the BIP-0032 master secret -/
theorem newMaster_key (pr : Prims) (ok : PrimsOK pr) (seed v : Bytes) (m : XKey)
    (h : newMaster pr seed v = .ok m) :
    ∃ k c, Spec.Bip32.master pr.hmac512 seed = some (k, c) ∧ m.key = Spec.Bip32.ser256 k ∧
      m.chainCode = c ∧ c.length = 32 ∧ 1 ≤ k ∧ k < Spec.N := by
  rw [newMaster_eq] at h
  split at h
  · cases h
  · cases hm : Spec.Bip32.master pr.hmac512 seed with
    | none => rw [hm] at h; cases h
    | some kc =>
      obtain ⟨k, c⟩ := kc
      rw [hm] at h
      injection h with h
      subst h
      refine ⟨k, c, rfl, ?_, rfl, ?_⟩
      · unfold Spec.Bip32.master at hm
        split at hm
        · cases hm
        · simp only [] at hm
          split at hm
          · cases hm
          · injection hm with hm; injection hm with e1 e2
            subst e1
            have hl : ((pr.hmac512 Spec.Bip32.seedKey seed).take 32).length = 32 := by
              rw [List.length_take, ok.hmac512_len]; rfl
            have := natBEpad_beNat ((pr.hmac512 Spec.Bip32.seedKey seed).take 32)
            rw [hl] at this
            exact this.symm
      · unfold Spec.Bip32.master at hm
        split at hm
        · cases hm
        · simp only [] at hm
          split at hm
          · cases hm
          · rename_i hc
            injection hm with hm; injection hm with e1 e2
            subst e1 e2
            refine ⟨?_, ?_, ?_⟩
            · rw [List.length_drop, ok.hmac512_len]
            · omega
            · omega

/-! ### `Neuter` -/

theorem lookup_mem (reg : Registry) (v w : Bytes) (h : reg.lookup v = some w) : (v, w) ∈ reg ∧ v.length = 4 := by
  unfold Registry.lookup at h
  split at h
  · cases h
  · rename_i hl
    cases hf : reg.find? (·.1 == v) with
    | none => rw [hf] at h; cases h
    | some p =>
      rw [hf] at h
      simp only [Option.map_some, Option.some.injEq] at h
      have h1 := List.find?_some hf
      have h2 := List.mem_of_find?_eq_some hf
      simp only [beq_iff_eq] at h1
      obtain ⟨a, b⟩ := p
      simp only at h1 h
      subst h1 h
      exact ⟨h2, by simpa using hl⟩

/-- if private ids are registered once, a registered pair is what `lookup` returns -/
theorem lookup_of_mem (reg : Registry) (v w : Bytes) (hl : v.length = 4) (hm : (v, w) ∈ reg)
    (hnd : (reg.map (·.1)).Nodup) : reg.lookup v = some w := by
  unfold Registry.lookup
  rw [if_neg (by simp [hl])]
  induction reg with
  | nil => cases hm
  | cons p reg ih =>
    rw [List.find?_cons]
    by_cases hp : p.1 = v
    · have : (p.1 == v) = true := by simpa using hp
      rw [this]
      simp only [Option.map_some, Option.some.injEq]
      rcases List.mem_cons.1 hm with e | hm'
      · rw [← e]
      · exfalso
        simp only [List.map_cons, List.nodup_cons] at hnd
        apply hnd.1
        rw [hp]
        exact List.mem_map.2 ⟨(v, w), hm', rfl⟩
    · have : (p.1 == v) = false := by simpa using hp
      rw [this]
      rcases List.mem_cons.1 hm with e | hm'
      · exact absurd (by rw [← e]) hp
      · simp only [List.map_cons, List.nodup_cons] at hnd
        exact ih hm' hnd.2

/-- **`Neuter`** on a private key: `N((k, c)) = (point(k), c)` with the same depth, child number
and parent fingerprint, and the public version registered for the key's private version. -/
theorem neuter_priv (reg : Registry) (k c : XKey) (hp : k.isPrivate = true) (h : neuter reg k = .ok c) :
    reg.lookup k.version = some c.version ∧
    c.key = Spec.Bip32.serP (Spec.Bip32.point (beNat k.key)) ∧ c.chainCode = k.chainCode ∧
    c.parentFP = k.parentFP ∧ c.depth = k.depth ∧ c.childNum = k.childNum ∧ c.isPrivate = false := by
  unfold neuter at h
  rw [if_neg (by simp [hp])] at h
  cases hl : reg.lookup k.version with
  | none => rw [hl] at h; cases h
  | some v =>
    rw [hl] at h
    injection h with h
    subst h
    refine ⟨rfl, ?_, rfl, rfl, rfl, rfl, rfl⟩
    show k.pubKeyBytes = _
    rw [pubKeyBytes_priv k hp, serCompressed_eq_serP]; rfl

theorem neuter_priv_ok (reg : Registry) (k : XKey) (v : Bytes) (hp : k.isPrivate = true)
    (hl : reg.lookup k.version = some v) :
    neuter reg k = .ok { key := k.pubKeyBytes, chainCode := k.chainCode, parentFP := k.parentFP, version := v,
                         childNum := k.childNum, depth := k.depth, isPrivate := false } := by
  unfold neuter
  rw [if_neg (by simp [hp]), hl]

theorem neuter_pub (reg : Registry) (k : XKey) (hp : k.isPrivate = false) : neuter reg k = .ok k := by
  unfold neuter; rw [if_pos (by simp [hp])]

theorem neuter_unknown (reg : Registry) (k : XKey) (hp : k.isPrivate = true)
    (h : ∀ w, (k.version, w) ∉ reg) : neuter reg k = .error .unknownHDKeyID := by
  unfold neuter
  rw [if_neg (by simp [hp])]
  cases hl : reg.lookup k.version with
  | none => rfl
  | some v => exact absurd (lookup_mem reg _ _ hl).1 (h v)

/-! ### `ECPrivKey` / `ECPubKey` -/

theorem ecPrivKey_priv (k : XKey) (hp : k.isPrivate = true) : ecPrivKey k = some (beNat k.key) := by
  unfold ecPrivKey; rw [if_pos hp]

theorem ecPrivKey_pub (k : XKey) (hp : k.isPrivate = false) : ecPrivKey k = none := by
  unfold ecPrivKey; rw [if_neg (by simp [hp])]

theorem ecPubKey_priv (k : XKey) (h : WF k) (hp : k.isPrivate = true) :
    ecPubKey k = some (Spec.Bip32.point (beNat k.key)) := by
  unfold ecPubKey
  obtain ⟨h1, h2, _⟩ := h.2.2.2.2.2.1 hp
  rw [pubKeyBytes_priv k hp]
  rw [N_eq] at h2
  exact parse_serCompressed (valid_smul _ valid_G) (smul_G_ne_inf' h1 h2)

theorem ecPubKey_pub (k : XKey) (K : Pt) (hp : k.isPrivate = false) (hK : Ecdsa.parsePubKey k.key = some K) :
    ecPubKey k = some K := by
  unfold ecPubKey; rw [pubKeyBytes_pub k hp, hK]


/-! ### closure of `WF` -/

theorem hash160_len (pr : Prims) (ok : PrimsOK pr) (b : Bytes) : (pr.hash160 b).length = 20 :=
  ok.ripemd160_len _

theorem childFP_length (pr : Prims) (ok : PrimsOK pr) (k : XKey) : (childFP pr k).length = 4 := by
  unfold childFP; rw [List.length_take, hash160_len pr ok]; rfl

theorem childCC_length (pr : Prims) (ok : PrimsOK pr) (k : XKey) (i : Nat) : (childCC pr k i).length = 32 := by
  unfold childCC childI; rw [List.length_drop, ok.hmac512_len]

theorem newMaster_WF (pr : Prims) (ok : PrimsOK pr) (seed v : Bytes) (m : XKey) (hv : v.length = 4)
    (h : newMaster pr seed v = .ok m) : WF m := by
  obtain ⟨k, c, hm, hk, hc, hcl, h1, h2⟩ := newMaster_key pr ok seed v m h
  rw [newMaster_eq] at h
  split at h
  · cases h
  · rw [hm] at h
    injection h with h
    have hkey : beNat m.key = k := by rw [hk]; exact beNat_natBEpad _ _
    have hkl : m.key.length = 32 := by
      rw [hk]; exact natBEpad_length 32 k (Nat.lt_trans h2 N_lt_pow)
    subst h
    refine ⟨hv, hcl, rfl, Nat.zero_lt_succ _, Nat.pow_pos (by decide), fun _ => ⟨?_, ?_, ?_⟩, fun hp => by cases hp⟩
    · rw [hkey]; exact h1
    · rw [hkey, N_eq]; exact h2
    · rw [hkl]

/-- the two "invalid key" outcomes of BIP-0032 that `Child` does not detect: the zero private key
and the point at infinity (probability about 2⁻¹²⁷ each; no input reaching them can be
constructed without inverting HMAC-SHA512) -/
def Degenerate (c : XKey) : Prop :=
  (c.isPrivate = true ∧ c.key = []) ∨ (c.isPrivate = false ∧ c.key = Ecdsa.serCompressed inf)

theorem child_priv_key (pr : Prims) (k c : XKey) (i : Nat) (h : WF k) (hp : k.isPrivate = true)
    (hi : i < 2 ^ 32) (hc : child pr k i = .ok c) :
    ∃ IL, 1 ≤ IL ∧ IL < Spec.N ∧ c.key = natBE ((IL + beNat k.key) % Spec.N) := by
  have hd : k.depth ≠ 255 := by
    intro e; rw [child_depth_255 pr k i e] at hc; cases hc
  rw [child_priv_eq pr k i h hp hd hi] at hc
  simp only [] at hc
  split at hc
  · cases hc
  · rename_i hcond
    injection hc with hc
    subst hc
    exact ⟨_, by omega, by omega, rfl⟩

theorem child_pub_key (pr : Prims) (k c : XKey) (i : Nat) (K : Pt) (h : WF k) (hp : k.isPrivate = false)
    (hK : Ecdsa.parsePubKey k.key = some K) (hc : child pr k i = .ok c) :
    ∃ IL, 1 ≤ IL ∧ IL < Spec.N ∧ c.key = Ecdsa.serCompressed (padd (smul IL G) K) := by
  have hd : k.depth ≠ 255 := by
    intro e; rw [child_depth_255 pr k i e] at hc; cases hc
  have hi : i < 2 ^ 31 := by
    apply Decidable.byContradiction; intro hi
    rw [child_hardened_from_public pr k i hd hp (by omega)] at hc; cases hc
  rw [child_pub_eq pr k i K h hp hK hd hi] at hc
  simp only [] at hc
  split at hc
  · cases hc
  · rename_i hcond
    injection hc with hc
    subst hc
    exact ⟨_, by omega, by omega, (serCompressed_eq_serP _).symm⟩

theorem child_WF (pr : Prims) (ok : PrimsOK pr) (k c : XKey) (i : Nat) (h : WF k) (hi : i < 2 ^ 32)
    (hc : child pr k i = .ok c) (hnd : ¬ Degenerate c) : WF c := by
  obtain ⟨e1, e2, e3, e4, e5⟩ := child_depth pr k c i hc
  have ev := child_version pr k c i hc
  have hd : k.depth ≠ 255 := by
    intro e; rw [child_depth_255 pr k i e] at hc; cases hc
  refine ⟨by rw [ev]; exact h.1, by rw [e4]; exact childCC_length pr ok k i,
    by rw [e5]; exact childFP_length pr ok k, by have := h.2.2.2.1; omega, by omega, ?_, ?_⟩
  · intro hpc
    have hp : k.isPrivate = true := by rw [← e3]; exact hpc
    obtain ⟨IL, _, _, hkey⟩ := child_priv_key pr k c i h hp hi hc
    have hlt : (IL + beNat k.key) % Spec.N < Spec.N := Nat.mod_lt _ N_pos
    generalize (IL + beNat k.key) % Spec.N = ki at hkey hlt
    rw [hkey, beNat_natBE, N_eq]
    refine ⟨?_, hlt, natBE_length_le ki 32 (Nat.lt_trans hlt N_lt_pow)⟩
    apply Nat.pos_of_ne_zero
    intro e
    apply hnd; left
    exact ⟨hpc, by rw [hkey, e]; rfl⟩
  · intro hpc
    have hp : k.isPrivate = false := by rw [← e3]; exact hpc
    obtain ⟨K, hK, _, hKv, hKne⟩ := h.pub_point hp
    obtain ⟨IL, _, _, hkey⟩ := child_pub_key pr k c i K h hp hK hc
    have hv : valid (padd (smul IL G) K) = true := valid_padd (valid_smul _ valid_G) hKv
    have hne : padd (smul IL G) K ≠ inf := by
      intro e
      apply hnd; right
      exact ⟨hpc, by rw [hkey, e]⟩
    rw [hkey]
    exact ⟨serCompressed_length hv, by rw [parse_serCompressed hv hne]; rfl⟩

theorem neuter_WF (reg : Registry) (k c : XKey) (h : WF k) (hreg : ∀ p ∈ reg, p.2.length = 4)
    (hc : neuter reg k = .ok c) : WF c := by
  cases hp : k.isPrivate
  · rw [neuter_pub reg k hp] at hc; injection hc with hc; subst hc; exact h
  · obtain ⟨h1, h2, h3, h4, h5, h6, h7⟩ := neuter_priv reg k c hp hc
    obtain ⟨b1, b2, _⟩ := h.2.2.2.2.2.1 hp
    rw [N_eq] at b2
    have hv : valid (smul (beNat k.key) G) = true := valid_smul _ valid_G
    refine ⟨hreg _ (lookup_mem reg _ _ h1).1, by rw [h3]; exact h.2.1, by rw [h4]; exact h.2.2.1,
      by rw [h5]; exact h.2.2.2.1, by rw [h6]; exact h.2.2.2.2.1,
      ⟨fun e => (by rw [h7] at e; cases e), fun _ => ?_⟩⟩
    rw [h2, ← serCompressed_eq_serP]
    exact ⟨serCompressed_length hv, by
      rw [show Spec.Bip32.point (beNat k.key) = smul (beNat k.key) G from rfl,
        parse_serCompressed hv (smul_G_ne_inf' b1 b2)]; rfl⟩


/-! ### `String` and `NewKeyFromString` in stages -/

/-- the 78-byte payload that `String()` encodes -/
def serPayload (k : XKey) : Bytes :=
  k.version ++ [UInt8.ofNat k.depth] ++ k.parentFP ++ be32 k.childNum ++ k.chainCode ++
    (if k.isPrivate then [0x00] ++ padLeft 32 k.key else k.pubKeyBytes)

theorem toString_eq (pr : Prims) (k : XKey) :
    toString pr k = if k.key.isEmpty then zeroedString
      else Base58.encode (serPayload k ++ (pr.sha256d (serPayload k)).take 4) := by
  unfold toString serPayload
  cases k.isPrivate <;> simp [List.append_assoc]

/-- the key assembled from the six fields of a payload -/
def buildKey (v : Bytes) (d : UInt8) (fp cn cc kd : Bytes) : Except Err XKey :=
  if kd.headD 1 == 0x00 then
    (if beNat (kd.drop 1) ≥ N || beNat (kd.drop 1) = 0 then .error .unusableSeed else
     .ok { key := kd.drop 1, chainCode := cc, parentFP := fp, version := v, childNum := beNat cn,
           depth := d.toNat, isPrivate := true })
  else
    match Ecdsa.parsePubKey kd with
    | none => .error .badPubKey
    | some _ => .ok { key := kd, chainCode := cc, parentFP := fp, version := v, childNum := beNat cn,
                      depth := d.toNat, isPrivate := false }

def parsePayload (p : Bytes) : Except Err XKey :=
  buildKey (p.take 4) (p.getD 4 0) ((p.drop 5).take 4) ((p.drop 9).take 4) ((p.drop 13).take 32)
    ((p.drop 45).take 33)

theorem fromString_eq (pr : Prims) (s : Bytes) :
    fromString pr s =
      if (Base58.decode s).length ≠ 82 then .error .invalidKeyLen else
      if (Base58.decode s).drop 78 ≠ (pr.sha256d ((Base58.decode s).take 78)).take 4 then .error .badChecksum else
      parsePayload ((Base58.decode s).take 78) := by
  unfold fromString
  simp only []
  generalize Base58.decode s = d
  by_cases hl : d.length = 82
  · have h1 : (d.length != Gen.k_serializedKeyLen + 4) = false := by simp [hl, Gen.k_serializedKeyLen]
    have h2 : ¬ d.length ≠ 82 := by omega
    have e78 : d.length - 4 = 78 := by omega
    rw [h1, if_neg h2, e78]
    simp only [Bool.false_eq_true, if_false]
    by_cases hc : d.drop 78 = (pr.sha256d (d.take 78)).take 4
    · have h3 : (d.drop 78 != (pr.sha256d (d.take 78)).take 4) = false := by simp [hc]
      rw [h3, if_neg (not_not.mpr hc)]; rfl
    · have h3 : (d.drop 78 != (pr.sha256d (d.take 78)).take 4) = true := by simpa using hc
      rw [h3, if_pos hc]; rfl
  · rw [if_pos (by simpa [Gen.k_serializedKeyLen] using hl), if_pos hl]

/-- field extraction from a concatenation of fields with the right lengths -/
theorem parsePayload_append (v fp cn cc kd : Bytes) (d : UInt8) (hv : v.length = 4) (hfp : fp.length = 4)
    (hcn : cn.length = 4) (hcc : cc.length = 32) (hkd : kd.length = 33) :
    parsePayload (v ++ [d] ++ fp ++ cn ++ cc ++ kd) = buildKey v d fp cn cc kd := by
  unfold parsePayload
  have e : v ++ [d] ++ fp ++ cn ++ cc ++ kd = v ++ (d :: (fp ++ (cn ++ (cc ++ kd)))) := by simp
  rw [e]
  have t1 : (v ++ (d :: (fp ++ (cn ++ (cc ++ kd))))).take 4 = v := take_append_len _ _ _ hv
  have t2 : (v ++ (d :: (fp ++ (cn ++ (cc ++ kd))))).getD 4 0 = d := by
    rw [← hv]; simp
  have d5 : (v ++ (d :: (fp ++ (cn ++ (cc ++ kd))))).drop 5 = fp ++ (cn ++ (cc ++ kd)) := by
    have : (v ++ [d] ++ (fp ++ (cn ++ (cc ++ kd)))).drop 5 = fp ++ (cn ++ (cc ++ kd)) :=
      drop_append_len _ _ _ (by simp [hv])
    simpa using this
  have d9 : (v ++ (d :: (fp ++ (cn ++ (cc ++ kd))))).drop 9 = cn ++ (cc ++ kd) := by
    have : (v ++ [d] ++ fp ++ (cn ++ (cc ++ kd))).drop 9 = cn ++ (cc ++ kd) :=
      drop_append_len _ _ _ (by simp [hv, hfp])
    simpa using this
  have d13 : (v ++ (d :: (fp ++ (cn ++ (cc ++ kd))))).drop 13 = cc ++ kd := by
    have : (v ++ [d] ++ fp ++ cn ++ (cc ++ kd)).drop 13 = cc ++ kd :=
      drop_append_len _ _ _ (by simp [hv, hfp, hcn])
    simpa using this
  have d45 : (v ++ (d :: (fp ++ (cn ++ (cc ++ kd))))).drop 45 = kd := by
    have : (v ++ [d] ++ fp ++ cn ++ cc ++ kd).drop 45 = kd :=
      drop_append_len _ _ _ (by simp [hv, hfp, hcn, hcc])
    simpa using this
  rw [t1, t2, d5, d9, d13, d45, take_append_len _ _ _ hfp, take_append_len _ _ _ hcn,
    take_append_len _ _ _ hcc, List.take_of_length_le (by omega)]


/-! ### `NewKeyFromString(k.String())` -/

/-- the key that `NewKeyFromString(k.String())` returns: `k` with its private key bytes left-padded
to 32 bytes (`Child` stores a child's private key as minimal big-endian bytes) -/
def normalize (k : XKey) : XKey := if k.isPrivate then { k with key := padLeft 32 k.key } else k

theorem normalize_pub (k : XKey) (hp : k.isPrivate = false) : normalize k = k := by
  unfold normalize; rw [if_neg (by simp [hp])]

theorem normalize_priv (k : XKey) (hp : k.isPrivate = true) :
    normalize k = { k with key := padLeft 32 k.key } := by
  unfold normalize; rw [if_pos hp]

theorem normalize_of_len (k : XKey) (h : k.isPrivate = true → k.key.length = 32) : normalize k = k := by
  cases hp : k.isPrivate
  · exact normalize_pub k hp
  · rw [normalize_priv k hp, padLeft_of_ge 32 k.key (Nat.le_of_eq (h hp).symm)]

theorem keyData_length (k : XKey) (h : WF k) :
    (if k.isPrivate then [0x00] ++ padLeft 32 k.key else k.pubKeyBytes).length = 33 := by
  cases hp : k.isPrivate
  · simp only [Bool.false_eq_true, if_false]; exact h.pubKeyBytes_length
  · simp only [if_true]
    have := padLeft_length_of_le 32 k.key (h.2.2.2.2.2.1 hp).2.2
    simp [this]

theorem serPayload_length (k : XKey) (h : WF k) : (serPayload k).length = 78 := by
  unfold serPayload
  simp only [List.length_append, keyData_length k h, h.1, h.2.1, h.2.2.1, be32_length, List.length_cons,
    List.length_nil]

theorem ofNat_toNat_lt (n : Nat) (h : n < 256) : (UInt8.ofNat n).toNat = n := by
  simp [UInt8.toNat_ofNat']; omega

theorem serCompressed_headD (q : Pt) : (Ecdsa.serCompressed q).headD 1 ≠ 0 := by
  unfold Ecdsa.serCompressed
  by_cases hp : (q.2 % 2 == 1) = true <;> simp [hp]

theorem buildKey_of_WF (k : XKey) (h : WF k) :
    buildKey k.version (UInt8.ofNat k.depth) k.parentFP (be32 k.childNum) k.chainCode
      (if k.isPrivate then [0x00] ++ padLeft 32 k.key else k.pubKeyBytes) = .ok (normalize k) := by
  unfold buildKey
  have hd := ofNat_toNat_lt k.depth h.2.2.2.1
  have hc := beNat_be32 k.childNum h.2.2.2.2.1
  cases hp : k.isPrivate
  · obtain ⟨K, hK, hkey, _, _⟩ := h.pub_point hp
    simp only [Bool.false_eq_true, if_false]
    rw [pubKeyBytes_pub k hp, normalize_pub k hp]
    have hh : (k.key.headD 1 == 0) = false := by
      rw [hkey]; simpa using serCompressed_headD K
    rw [hh, hK, hd, hc]
    simp only [Bool.false_eq_true, if_false]
    cases k; simp_all
  · obtain ⟨b1, b2, b3⟩ := h.2.2.2.2.2.1 hp
    simp only [if_true]
    rw [normalize_priv k hp]
    simp only [List.singleton_append, List.headD_cons, List.drop_succ_cons, List.drop_zero, beq_self_eq_true,
      if_true, beNat_padLeft]
    rw [if_neg (by simp; omega), hd, hc]
    cases k; simp_all

/-- **round trip**: for every well-formed key, `NewKeyFromString(k.String())` succeeds and returns
`k` up to left-padding of the private key bytes -/
theorem fromString_toString (pr : Prims) (ok : PrimsOK pr) (k : XKey) (h : WF k) :
    fromString pr (toString pr k) = .ok (normalize k) := by
  have hne : k.key.isEmpty = false := by
    cases hp : k.isPrivate
    · have := (h.2.2.2.2.2.2 hp).1
      cases hk : k.key with
      | nil => rw [hk] at this; cases this
      | cons a b => rfl
    · have := (h.2.2.2.2.2.1 hp).1
      cases hk : k.key with
      | nil => rw [hk] at this; simp at this
      | cons a b => rfl
  have hl := serPayload_length k h
  have hck : ((pr.sha256d (serPayload k)).take 4).length = 4 := by
    rw [List.length_take]; unfold Prims.sha256d; rw [ok.sha256_len]; rfl
  rw [toString_eq, hne]
  simp only [Bool.false_eq_true, if_false]
  rw [fromString_eq, Base58.decode_encode]
  rw [if_neg (by simp [hl, hck]), take_append_len _ _ _ hl, drop_append_len _ _ _ hl, if_neg (by simp)]
  unfold serPayload
  rw [parsePayload_append _ _ _ _ _ _ h.1 h.2.2.1 (be32_length _) h.2.1 (keyData_length k h)]
  exact buildKey_of_WF k h


/-! ### the re-imported key behaves like the original -/

theorem padLeft_padLeft (n : Nat) (b : Bytes) : padLeft n (padLeft n b) = padLeft n b := by
  apply padLeft_of_ge; rw [padLeft_length]; omega

theorem normalize_fields (k : XKey) :
    (normalize k).chainCode = k.chainCode ∧ (normalize k).parentFP = k.parentFP ∧
    (normalize k).version = k.version ∧ (normalize k).childNum = k.childNum ∧
    (normalize k).depth = k.depth ∧ (normalize k).isPrivate = k.isPrivate ∧
    beNat (normalize k).key = beNat k.key := by
  cases hp : k.isPrivate
  · rw [normalize_pub k hp]; exact ⟨rfl, rfl, rfl, rfl, rfl, hp, rfl⟩
  · rw [normalize_priv k hp]; exact ⟨rfl, rfl, rfl, rfl, rfl, hp, beNat_padLeft _ _⟩

theorem normalize_pubKeyBytes (k : XKey) : (normalize k).pubKeyBytes = k.pubKeyBytes := by
  cases hp : k.isPrivate
  · rw [normalize_pub k hp]
  · rw [pubKeyBytes_priv k hp, pubKeyBytes_priv _ ((normalize_fields k).2.2.2.2.2.1.trans hp),
      (normalize_fields k).2.2.2.2.2.2]

theorem normalize_serPayload (k : XKey) : serPayload (normalize k) = serPayload k := by
  cases hp : k.isPrivate
  · rw [normalize_pub k hp]
  · rw [normalize_priv k hp]; unfold serPayload; simp only [hp, if_true, padLeft_padLeft]

/-- (for a key with empty key bytes — a zeroed key — the statement is false: `String()` prints
"zeroed extended key" for it but not for 32 zero bytes) -/
theorem normalize_toString (pr : Prims) (k : XKey) (hne : k.key ≠ []) :
    toString pr (normalize k) = toString pr k := by
  rw [toString_eq, toString_eq, normalize_serPayload]
  cases hp : k.isPrivate
  · rw [normalize_pub k hp]
  · rw [normalize_priv k hp]
    have : (padLeft 32 k.key).isEmpty = k.key.isEmpty := by
      cases hk : k.key with
      | nil => exact absurd hk hne
      | cons a b => simp [padLeft]
    simp only [this]

theorem normalize_idem (k : XKey) : normalize (normalize k) = normalize k := by
  cases hp : k.isPrivate
  · rw [normalize_pub k hp, normalize_pub k hp]
  · rw [normalize_priv k hp]
    have := normalize_priv { k with key := padLeft 32 k.key } hp
    rw [this]; simp only [padLeft_padLeft]

theorem normalize_WF (k : XKey) (h : WF k) : WF (normalize k) := by
  cases hp : k.isPrivate
  · rw [normalize_pub k hp]; exact h
  · rw [normalize_priv k hp]
    obtain ⟨b1, b2, b3⟩ := h.2.2.2.2.2.1 hp
    refine ⟨h.1, h.2.1, h.2.2.1, h.2.2.2.1, h.2.2.2.2.1, fun _ => ?_, fun e => ?_⟩
    · simp only [beNat_padLeft]
      exact ⟨b1, b2, Nat.le_of_eq (padLeft_length_of_le 32 k.key b3)⟩
    · exact absurd (hp.symm.trans e) (by decide)

theorem normalize_childData33 (k : XKey) (i : Nat) (h : WF k) : childData33 (normalize k) i = childData33 k i := by
  cases hp : k.isPrivate
  · rw [normalize_pub k hp]
  · by_cases hi : i ≥ 2 ^ 31
    · have hl := (h.2.2.2.2.2.1 hp).2.2
      have hl' := ((normalize_WF k h).2.2.2.2.2.1 ((normalize_fields k).2.2.2.2.2.1.trans hp)).2.2
      rw [childData33_hardened k i hl hi, childData33_hardened _ i hl' hi, normalize_priv k hp]
      simp only [padLeft_padLeft]
    · rw [childData33_normal k i h.pubKeyBytes_length (by omega),
        childData33_normal _ i (normalize_WF k h).pubKeyBytes_length (by omega), normalize_pubKeyBytes]

/-- the re-imported key has exactly the same children as the original -/
theorem normalize_child (pr : Prims) (k : XKey) (i : Nat) (h : WF k) :
    child pr (normalize k) i = child pr k i := by
  obtain ⟨f1, f2, f3, f4, f5, f6, f7⟩ := normalize_fields k
  have eI : childI pr (normalize k) i = childI pr k i := by
    unfold childI; rw [normalize_childData33 k i h, f1]
  have eIL : childIL pr (normalize k) i = childIL pr k i := by unfold childIL; rw [eI]
  have eCC : childCC pr (normalize k) i = childCC pr k i := by unfold childCC; rw [eI]
  have eFP : childFP pr (normalize k) = childFP pr k := by unfold childFP; rw [normalize_pubKeyBytes]
  have e1 : childPriv pr (normalize k) i = childPriv pr k i := by
    unfold childPriv; rw [eIL, eCC, eFP, f3, f5, f7]
  cases hp : k.isPrivate
  · rw [normalize_pub k hp]
  · have hp' : (normalize k).isPrivate = true := f6.trans hp
    rw [child_eq, child_eq, f5, eIL, e1, hp', hp, if_pos (rfl : true = true), if_pos (rfl : true = true)]

theorem normalize_address (pr : Prims) (k : XKey) (a : UInt8) : address pr (normalize k) a = address pr k a := by
  unfold address; rw [normalize_pubKeyBytes]

theorem normalize_ecPubKey (k : XKey) : ecPubKey (normalize k) = ecPubKey k := by
  unfold ecPubKey; rw [normalize_pubKeyBytes]

theorem normalize_ecPrivKey (k : XKey) : ecPrivKey (normalize k) = ecPrivKey k := by
  obtain ⟨_, _, _, _, _, f6, f7⟩ := normalize_fields k
  unfold ecPrivKey; rw [f6, f7]

theorem normalize_parentFingerprint (k : XKey) : parentFingerprint (normalize k) = parentFingerprint k := by
  unfold parentFingerprint; rw [(normalize_fields k).2.1]

theorem normalize_neuter (reg : Registry) (k : XKey) : neuter reg (normalize k) = neuter reg k := by
  cases hp : k.isPrivate
  · rw [normalize_pub k hp]
  · obtain ⟨f1, f2, f3, f4, f5, f6, f7⟩ := normalize_fields k
    unfold neuter
    rw [f6, hp, f3, normalize_pubKeyBytes, f1, f2, f4, f5]
    simp only [Bool.not_true, Bool.false_eq_true, if_false]

/-! ### what `NewKeyFromString` accepts -/

theorem buildKey_ok (v : Bytes) (d : UInt8) (fp cn cc kd : Bytes) (k : XKey) :
    buildKey v d fp cn cc kd = .ok k ↔
      (kd.headD 1 = 0 ∧ 1 ≤ beNat (kd.drop 1) ∧ beNat (kd.drop 1) < Spec.N ∧
         k = { key := kd.drop 1, chainCode := cc, parentFP := fp, version := v, childNum := beNat cn,
               depth := d.toNat, isPrivate := true }) ∨
      (kd.headD 1 ≠ 0 ∧ (Ecdsa.parsePubKey kd).isSome = true ∧
         k = { key := kd, chainCode := cc, parentFP := fp, version := v, childNum := beNat cn,
               depth := d.toNat, isPrivate := false }) := by
  unfold buildKey
  rw [N_eq]
  by_cases hh : kd.headD 1 = 0
  · have : (kd.headD 1 == 0) = true := by simpa using hh
    rw [this]; simp only [if_true]
    by_cases hr : 1 ≤ beNat (kd.drop 1) ∧ beNat (kd.drop 1) < Spec.N
    · rw [if_neg (by simp only [Bool.or_eq_true, decide_eq_true_eq]; omega)]
      constructor
      · intro e; injection e with e; exact Or.inl ⟨hh, hr.1, hr.2, e.symm⟩
      · rintro (⟨_, _, _, e⟩ | ⟨h1, _⟩)
        · rw [e]
        · exact absurd hh h1
    · rw [if_pos (by simp only [Bool.or_eq_true, decide_eq_true_eq]; omega)]
      constructor
      · intro e; cases e
      · rintro (⟨_, h1, h2, _⟩ | ⟨h1, _⟩)
        · exact absurd ⟨h1, h2⟩ hr
        · exact absurd hh h1
  · have : (kd.headD 1 == 0) = false := by simpa using hh
    rw [this]; simp only [Bool.false_eq_true, if_false]
    cases hp : Ecdsa.parsePubKey kd with
    | none =>
      simp only []
      constructor
      · intro e; cases e
      · rintro (⟨h1, _⟩ | ⟨_, h1, _⟩)
        · exact absurd h1 hh
        · cases h1
    | some K =>
      simp only []
      constructor
      · intro e; injection e with e; exact Or.inr ⟨hh, rfl, e.symm⟩
      · rintro (⟨h1, _⟩ | ⟨_, _, e⟩)
        · exact absurd h1 hh
        · rw [e]

/-- **acceptance**: `NewKeyFromString(s)` returns `k` iff `s` decodes to 82 bytes whose last four are
the first four bytes of the double SHA-256 of the first 78, and the key field (bytes 45..77) is either
`0x00 ‖ d` with `1 ≤ d < n` (then `k` is the private key with those 32 bytes) or — first byte not
zero — a valid compressed public key (then `k` is that public key); the other fields are copied. -/
theorem fromString_ok_iff (pr : Prims) (s : Bytes) (k : XKey) :
    fromString pr s = .ok k ↔
      (Base58.decode s).length = 82 ∧
      (Base58.decode s).drop 78 = (pr.sha256d ((Base58.decode s).take 78)).take 4 ∧
      parsePayload ((Base58.decode s).take 78) = .ok k := by
  rw [fromString_eq]
  by_cases hl : (Base58.decode s).length = 82
  · rw [if_neg (not_not.mpr hl)]
    by_cases hc : (Base58.decode s).drop 78 = (pr.sha256d ((Base58.decode s).take 78)).take 4
    · rw [if_neg (not_not.mpr hc)]
      exact ⟨fun e => ⟨hl, hc, e⟩, fun e => e.2.2⟩
    · rw [if_pos hc]
      exact ⟨fun e => (by cases e), fun e => absurd e.2.1 hc⟩
  · rw [if_pos hl]
    exact ⟨fun e => (by cases e), fun e => absurd e.1 hl⟩

theorem fromString_wrong_length (pr : Prims) (s : Bytes) (h : (Base58.decode s).length ≠ 82) :
    fromString pr s = .error .invalidKeyLen := by
  rw [fromString_eq, if_pos h]

theorem fromString_wrong_checksum (pr : Prims) (s : Bytes) (hl : (Base58.decode s).length = 82)
    (h : (Base58.decode s).drop 78 ≠ (pr.sha256d ((Base58.decode s).take 78)).take 4) :
    fromString pr s = .error .badChecksum := by
  rw [fromString_eq, if_neg (not_not.mpr hl), if_pos h]

theorem fromString_WF (pr : Prims) (s : Bytes) (k : XKey) (h : fromString pr s = .ok k) :
    WF k ∧ (k.isPrivate = true → k.key.length = 32) := by
  obtain ⟨hl, _, hp⟩ := (fromString_ok_iff pr s k).1 h
  generalize hpl : (Base58.decode s).take 78 = p at hp
  have hpl' : p.length = 78 := by rw [← hpl, List.length_take, hl]; rfl
  unfold parsePayload at hp
  have l1 : (p.take 4).length = 4 := by rw [List.length_take]; omega
  have l2 : ((p.drop 5).take 4).length = 4 := by rw [List.length_take, List.length_drop]; omega
  have l3 : ((p.drop 9).take 4).length = 4 := by rw [List.length_take, List.length_drop]; omega
  have l4 : ((p.drop 13).take 32).length = 32 := by rw [List.length_take, List.length_drop]; omega
  have l5 : ((p.drop 45).take 33).length = 33 := by rw [List.length_take, List.length_drop]; omega
  have hcn : beNat ((p.drop 9).take 4) < 2 ^ 32 := by
    have := beNat_lt ((p.drop 9).take 4); rw [l3] at this; exact this
  have hdp : (p.getD 4 0).toNat < 256 := (p.getD 4 0).toNat_lt
  rcases (buildKey_ok _ _ _ _ _ _ k).1 hp with ⟨_, h1, h2, rfl⟩ | ⟨_, h1, rfl⟩
  · have l6 : (((p.drop 45).take 33).drop 1).length = 32 := by rw [List.length_drop, l5]
    refine ⟨⟨l1, l4, l2, hdp, hcn, fun _ => ⟨h1, by rw [N_eq]; exact h2, Nat.le_of_eq l6⟩,
      fun e => (by cases e)⟩, fun _ => l6⟩
  · exact ⟨⟨l1, l4, l2, hdp, hcn, fun e => (by cases e), fun _ => ⟨l5, h1⟩⟩, fun e => (by cases e)⟩

/-- keys produced by `NewKeyFromString` are fixed points of the round trip -/
theorem fromString_toString_of_fromString (pr : Prims) (ok : PrimsOK pr) (s : Bytes) (k : XKey)
    (h : fromString pr s = .ok k) : fromString pr (toString pr k) = .ok k := by
  obtain ⟨hw, hl⟩ := fromString_WF pr s k h
  rw [fromString_toString pr ok k hw, normalize_of_len k hl]


/-! ### public derivation commutes with private derivation -/

/-- `Neuter(Child_i(k)) = Child_i(Neuter(k))` for a normal index `i`: whenever the private
derivation succeeds, the public derivation from the neutered parent succeeds and yields the
neutered child.  (No side condition on the child: in the degenerate case `(I_L + k) mod n = 0` both
sides carry the "compressed encoding" of `(0,0)`.) -/
theorem neuter_child_comm (pr : Prims) (reg : Registry) (k c nk : XKey) (i : Nat) (h : WF k)
    (hp : k.isPrivate = true) (hi : i < 2 ^ 31) (hc : child pr k i = .ok c)
    (hnk : neuter reg k = .ok nk) : ∃ c', child pr nk i = .ok c' ∧ neuter reg c = .ok c' := by
  have hd : k.depth ≠ 255 := by
    intro e; rw [child_depth_255 pr k i e] at hc; cases hc
  obtain ⟨n1, n2, n3, n4, n5, n6, n7⟩ := neuter_priv reg k nk hp hnk
  obtain ⟨b1, b2, b3⟩ := h.2.2.2.2.2.1 hp
  rw [N_eq] at b2
  -- the neutered parent
  have hKv : valid (smul (beNat k.key) G) = true := valid_smul _ valid_G
  have hKne : smul (beNat k.key) G ≠ inf := smul_G_ne_inf' b1 b2
  have hnkkey : nk.key = Ecdsa.serCompressed (smul (beNat k.key) G) := by
    rw [n2, ← serCompressed_eq_serP]; rfl
  have hnkl : nk.key.length = 33 := by rw [hnkkey]; exact serCompressed_length hKv
  have hnkK : Ecdsa.parsePubKey nk.key = some (smul (beNat k.key) G) := by
    rw [hnkkey]; exact parse_serCompressed hKv hKne
  -- the private child
  rw [child_priv_eq pr k i h hp hd (by omega)] at hc
  have hI : Spec.Bip32.ckdPrivI pr.hmac512 (beNat k.key) k.chainCode i =
      pr.hmac512 k.chainCode (Spec.Bip32.serP (smul (beNat k.key) G) ++ Spec.Bip32.ser32 i) := by
    unfold Spec.Bip32.ckdPrivI; rw [if_neg (by omega)]; rfl
  rw [hI] at hc
  -- the public child of the neutered parent
  rw [child_pub_eq' pr nk i _ hnkl n7 hnkK (by rw [n5]; exact hd) hi, n3]
  generalize pr.hmac512 k.chainCode (Spec.Bip32.serP (smul (beNat k.key) G) ++ Spec.Bip32.ser32 i) = I at hc ⊢
  simp only [] at hc ⊢
  split at hc
  · cases hc
  · rename_i hcond
    rw [if_neg hcond]
    injection hc with hc
    subst hc
    refine ⟨_, rfl, ?_⟩
    refine (neuter_priv_ok reg _ nk.version ?_ ?_).trans ?_
    · rfl
    · exact n1
    · have e1 : ∀ c : XKey, c.isPrivate = true →
          beNat c.key = (Spec.Bip32.parse256 (List.take 32 I) + beNat k.key) % Spec.N →
          c.pubKeyBytes = Spec.Bip32.serP
            (padd (Spec.Bip32.point (Spec.Bip32.parse256 (List.take 32 I))) (smul (beNat k.key) G)) := by
        intro c cp ck
        rw [pubKeyBytes_priv c cp, ck, smul_mod_N _ valid_G, smul_add _ _ valid_G, serCompressed_eq_serP]; rfl
      rw [e1 _ rfl (beNat_natBE _), n5]
      rfl


/-! ### `NewKeyFromString`: complete characterisation and the four refusals -/

/-- the key field (bytes 45..77) of a decoded string -/
def keyField (d : Bytes) : Bytes := ((d.take 78).drop 45).take 33

theorem fromString_iff (pr : Prims) (s : Bytes) (k : XKey) :
    fromString pr s = .ok k ↔
      (Base58.decode s).length = 82 ∧
      (Base58.decode s).drop 78 = (pr.sha256d ((Base58.decode s).take 78)).take 4 ∧
      ((keyField (Base58.decode s)).headD 1 = 0 ∧ 1 ≤ beNat ((keyField (Base58.decode s)).drop 1) ∧
          beNat ((keyField (Base58.decode s)).drop 1) < Spec.N ∧
          k = { key := (keyField (Base58.decode s)).drop 1,
                chainCode := (((Base58.decode s).take 78).drop 13).take 32,
                parentFP := (((Base58.decode s).take 78).drop 5).take 4,
                version := ((Base58.decode s).take 78).take 4,
                childNum := beNat ((((Base58.decode s).take 78).drop 9).take 4),
                depth := (((Base58.decode s).take 78).getD 4 0).toNat, isPrivate := true } ∨
       (keyField (Base58.decode s)).headD 1 ≠ 0 ∧
          (Ecdsa.parsePubKey (keyField (Base58.decode s))).isSome = true ∧
          k = { key := keyField (Base58.decode s),
                chainCode := (((Base58.decode s).take 78).drop 13).take 32,
                parentFP := (((Base58.decode s).take 78).drop 5).take 4,
                version := ((Base58.decode s).take 78).take 4,
                childNum := beNat ((((Base58.decode s).take 78).drop 9).take 4),
                depth := (((Base58.decode s).take 78).getD 4 0).toNat, isPrivate := false }) := by
  rw [fromString_ok_iff]
  unfold parsePayload keyField
  rw [buildKey_ok]

theorem fromString_bad_scalar (pr : Prims) (s : Bytes) (hl : (Base58.decode s).length = 82)
    (hc : (Base58.decode s).drop 78 = (pr.sha256d ((Base58.decode s).take 78)).take 4)
    (h0 : (keyField (Base58.decode s)).headD 1 = 0)
    (hr : beNat ((keyField (Base58.decode s)).drop 1) = 0 ∨ beNat ((keyField (Base58.decode s)).drop 1) ≥ Spec.N) :
    fromString pr s = .error .unusableSeed := by
  rw [fromString_eq, if_neg (not_not.mpr hl), if_neg (not_not.mpr hc)]
  unfold parsePayload buildKey
  unfold keyField at h0 hr
  rw [N_eq]
  have : ((((Base58.decode s).take 78).drop 45).take 33).headD 1 == 0 := by simpa using h0
  rw [if_pos this, if_pos (by simp only [Bool.or_eq_true, decide_eq_true_eq]; omega)]

theorem fromString_bad_pubkey (pr : Prims) (s : Bytes) (hl : (Base58.decode s).length = 82)
    (hc : (Base58.decode s).drop 78 = (pr.sha256d ((Base58.decode s).take 78)).take 4)
    (h0 : (keyField (Base58.decode s)).headD 1 ≠ 0)
    (hp : Ecdsa.parsePubKey (keyField (Base58.decode s)) = none) :
    fromString pr s = .error .badPubKey := by
  rw [fromString_eq, if_neg (not_not.mpr hl), if_neg (not_not.mpr hc)]
  unfold parsePayload buildKey
  unfold keyField at h0 hp
  have : (((((Base58.decode s).take 78).drop 45).take 33).headD 1 == 0) = false := by simpa using h0
  rw [this, hp]
  rfl

/-- `String()` is Base58 of the 78-byte BIP-0032 serialization followed by its 4-byte checksum -/
theorem toString_layout (pr : Prims) (k : XKey) (h : WF k) :
    toString pr k = Base58.encode
      (Spec.Bip32.serialize k.version k.depth k.parentFP k.childNum k.chainCode
          (if k.isPrivate then 0x00 :: Spec.Bip32.ser256 (beNat k.key) else k.key) ++
        (pr.sha256d (Spec.Bip32.serialize k.version k.depth k.parentFP k.childNum k.chainCode
          (if k.isPrivate then 0x00 :: Spec.Bip32.ser256 (beNat k.key) else k.key))).take 4) := by
  have hne : k.key.isEmpty = false := by
    cases hp : k.isPrivate
    · have := (h.2.2.2.2.2.2 hp).1
      cases hk : k.key with
      | nil => rw [hk] at this; cases this
      | cons a b => rfl
    · have := (h.2.2.2.2.2.1 hp).1
      cases hk : k.key with
      | nil => rw [hk] at this; simp at this
      | cons a b => rfl
  rw [toString_eq, hne]
  simp only [Bool.false_eq_true, if_false]
  have e : serPayload k = Spec.Bip32.serialize k.version k.depth k.parentFP k.childNum k.chainCode
      (if k.isPrivate then 0x00 :: Spec.Bip32.ser256 (beNat k.key) else k.key) := by
    unfold serPayload Spec.Bip32.serialize
    rw [be32_eq_ser32 _ h.2.2.2.2.1]
    cases hp : k.isPrivate
    · simp only [Bool.false_eq_true, if_false]; rw [pubKeyBytes_pub k hp]
    · simp only [if_true]
      rw [padLeft32_eq_ser256 _ (h.2.2.2.2.2.1 hp).2.2]; rfl
  rw [e]


/-! ### whole paths of private derivations -/

/-- if BIP-0032 defines the key at the end of a path and the code derives one, they agree
(scalar, chain code) and the depth has grown by the length of the path -/
theorem foldlM_child_priv_spec (pr : Prims) (ok : PrimsOK pr) (is : List Nat) (k c : XKey) (kn : Nat)
    (cn : Bytes) (h : WF k) (hp : k.isPrivate = true) (hi : ∀ i ∈ is, i < 2 ^ 32)
    (hm : is.foldlM (child pr) k = .ok c)
    (hs : Spec.Bip32.ckdPrivPath pr.hmac512 (beNat k.key, k.chainCode) is = some (kn, cn)) :
    beNat c.key = kn ∧ c.chainCode = cn ∧ c.depth = k.depth + is.length ∧ c.isPrivate = true ∧ WF c := by
  induction is generalizing k with
  | nil =>
    injection hm with hm; subst hm
    simp only [Spec.Bip32.ckdPrivPath, Option.some.injEq, Prod.mk.injEq] at hs
    exact ⟨hs.1, hs.2, rfl, hp, h⟩
  | cons i is ih =>
    rw [List.foldlM_cons] at hm
    cases hk : child pr k i with
    | error e => rw [hk] at hm; cases hm
    | ok k1 =>
      rw [hk] at hm
      have hi0 : i < 2 ^ 32 := hi i (by simp)
      simp only [Spec.Bip32.ckdPrivPath] at hs
      cases hc : Spec.Bip32.ckdPriv pr.hmac512 (beNat k.key) k.chainCode i with
      | none => rw [hc] at hs; cases hs
      | some kc' =>
        rw [hc] at hs
        obtain ⟨ki, ci⟩ := kc'
        -- the spec child is non-zero and equals the model child
        obtain ⟨IL, _, _, hkey⟩ := child_priv_key pr k k1 i h hp hi0 hk
        obtain ⟨e1, _, e3, e4, _⟩ := child_depth pr k k1 i hk
        have hd : k.depth ≠ 255 := by
          intro e; rw [child_depth_255 pr k i e] at hk; cases hk
        have hk' := hk
        rw [child_priv_eq pr k i h hp hd hi0] at hk'
        unfold Spec.Bip32.ckdPriv at hc
        simp only [] at hk' hc
        split at hk'
        · cases hk'
        · injection hk' with hk'
          split at hc
          · cases hc
          · rename_i hcond
            injection hc with hc; injection hc with c1 c2
            have hkn : beNat k1.key = ki := by rw [← hk', ← c1]; exact beNat_natBE _
            have hcc : k1.chainCode = ci := by rw [← hk', ← c2]
            have hp1 : k1.isPrivate = true := e3.trans hp
            have hnz : ki ≠ 0 := by
              intro e; apply hcond; right; rw [c1]; exact e
            have hw1 : WF k1 := by
              apply child_WF pr ok k k1 i h hi0 hk
              rintro (⟨_, e⟩ | ⟨e, _⟩)
              · apply hnz; rw [← hkn, e]; rfl
              · rw [hp1] at e; cases e
            have := ih k1 hw1 hp1 (fun j hj => hi j (List.mem_cons_of_mem _ hj)) hm
              (by rw [hkn, hcc]; exact hs)
            obtain ⟨r1, r2, r3, r4, r5⟩ := this
            exact ⟨r1, r2, by rw [r3, e1, List.length_cons]; omega, r4, r5⟩


end GoBk.Bip32

namespace GoBk.XKeyHeap
open GoBk Bytes Bip32 XKeyStore

/-! ### heap model (C18): reading slices -/

/-- the content of array `a` (empty if unallocated) -/
def Heap.arrAt (h : Heap) (a : Nat) : Bytes := h.mem.getD a []

theorem read_def (h : Heap) (s : Slice) : h.read s = ((h.arrAt s.arr).drop s.off).take s.len := rfl

/-- a slice lies inside its (allocated) array -/
def Heap.inBounds (h : Heap) (s : Slice) : Prop :=
  s.len = 0 ∨ (s.arr < h.mem.size ∧ s.off + s.len ≤ (h.arrAt s.arr).length)

theorem read_nil_len (h : Heap) (s : Slice) (hs : s.len = 0) : h.read s = [] := by
  rw [read_def, hs, List.take_zero]

theorem read_length (h : Heap) (s : Slice) (hb : h.inBounds s) : (h.read s).length = s.len := by
  rcases hb with h0 | ⟨_, hl⟩
  · rw [read_nil_len h s h0, h0]; rfl
  · rw [read_def, List.length_take, List.length_drop]; omega

/-- reading depends only on the content of the slice's array -/
theorem read_congr (h h' : Heap) (s : Slice) (he : s.len = 0 ∨ h'.arrAt s.arr = h.arrAt s.arr) :
    h'.read s = h.read s := by
  rcases he with h0 | he
  · rw [read_nil_len _ _ h0, read_nil_len _ _ h0]
  · rw [read_def, read_def, he]

theorem absKey_congr (h h' : Heap) (k : HKey)
    (he : ∀ s ∈ [k.key, k.chainCode, k.parentFP, k.version], h'.read s = h.read s) :
    h'.absKey k = h.absKey k := by
  unfold Heap.absKey
  rw [he k.key (by simp), he k.chainCode (by simp), he k.parentFP (by simp), he k.version (by simp)]

/-- `h'` extends `h`: the arrays of `h` are unchanged, more may have been allocated -/
def Ext (h h' : Heap) : Prop := ∀ a, a < h.mem.size → h'.mem[a]? = h.mem[a]?

theorem Ext.refl (h : Heap) : Ext h h := fun _ _ => rfl
theorem Ext.trans {h1 h2 h3 : Heap} (a : Ext h1 h2) (b : Ext h2 h3) (hs : h1.mem.size ≤ h2.mem.size) :
    Ext h1 h3 := fun x hx => (b x (by omega)).trans (a x hx)

theorem Ext.size {h h' : Heap} (e : Ext h h') : h.mem.size ≤ h'.mem.size := by
  apply Decidable.byContradiction; intro hc
  have hlt : h'.mem.size < h.mem.size := by omega
  have := e h'.mem.size hlt
  rw [Array.getElem?_eq_none (Nat.le_refl _)] at this
  have h2 : h.mem[h'.mem.size]? = some h.mem[h'.mem.size] := Array.getElem?_eq_getElem hlt
  rw [h2] at this; cases this

theorem Ext.arrAt {h h' : Heap} (e : Ext h h') (a : Nat) (ha : a < h.mem.size) : h'.arrAt a = h.arrAt a := by
  unfold Heap.arrAt
  rw [Array.getD_eq_getD_getElem?, Array.getD_eq_getD_getElem?, e a ha]

theorem Ext.read {h h' : Heap} (e : Ext h h') (s : Slice) (hb : h.inBounds s) : h'.read s = h.read s := by
  apply read_congr
  rcases hb with h0 | ⟨ha, _⟩
  · exact Or.inl h0
  · exact Or.inr (e.arrAt _ ha)

theorem Ext.inBounds {h h' : Heap} (e : Ext h h') (s : Slice) (hb : h.inBounds s) : h'.inBounds s := by
  rcases hb with h0 | ⟨ha, hl⟩
  · exact Or.inl h0
  · exact Or.inr ⟨Nat.lt_of_lt_of_le ha e.size, by rw [e.arrAt _ ha]; exact hl⟩

theorem ext_push (h : Heap) (b : Bytes) (objs : Array HKey) (regs : Array (Option Nat)) :
    Ext h { mem := h.mem.push b, objs := objs, regs := regs } := by
  intro a ha
  show (h.mem.push b)[a]? = _
  rw [Array.getElem?_push, if_neg (by omega)]

theorem ext_same_mem (h : Heap) (objs : Array HKey) (regs : Array (Option Nat)) :
    Ext h { mem := h.mem, objs := objs, regs := regs } := fun _ _ => rfl

theorem arrAt_push_new (m : Array Bytes) (b : Bytes) (objs : Array HKey) (regs : Array (Option Nat)) :
    (Heap.mk (m.push b) objs regs).arrAt m.size = b := by
  unfold Heap.arrAt
  show (m.push b).getD m.size [] = b
  rw [Array.getD_eq_getD_getElem?, Array.getElem?_push_size]; rfl

/-! ### writing zeros -/

/-- the array update performed by `zero(b)` on the range `[o, o+n)` -/
def patch (o n : Nat) (b : Bytes) : Bytes := b.take o ++ List.replicate n 0 ++ b.drop (o + n)

theorem patch_length (o n : Nat) (b : Bytes) (h : o + n ≤ b.length) : (patch o n b).length = b.length := by
  unfold patch; simp [List.length_take, List.length_drop]; omega

theorem patch_getElem? (o n : Nat) (b : Bytes) (h : o + n ≤ b.length) (j : Nat) :
    (patch o n b)[j]? = if o ≤ j ∧ j < o + n then some 0 else b[j]? := by
  unfold patch
  have hl : (b.take o).length = o := by rw [List.length_take]; omega
  rw [List.append_assoc, List.getElem?_append, hl]
  by_cases h1 : j < o
  · rw [if_pos h1, if_neg (by omega), List.getElem?_take, if_pos h1]
  · rw [if_neg h1, List.getElem?_append, List.length_replicate]
    by_cases h2 : j - o < n
    · rw [if_pos h2, if_pos (by omega), List.getElem?_replicate, if_pos h2]
    · rw [if_neg h2, if_neg (by omega), List.getElem?_drop]
      congr 1; omega

theorem arrAt_writeZeros (h : Heap) (s : Slice) (a : Nat) :
    (h.writeZeros s).arrAt a = if a = s.arr ∧ a < h.mem.size then patch s.off s.len (h.arrAt a) else h.arrAt a := by
  unfold Heap.arrAt Heap.writeZeros
  simp only [Array.getD_eq_getD_getElem?, Array.getElem?_modify]
  by_cases ha : s.arr = a
  · subst ha
    rw [if_pos rfl]
    by_cases hlt : s.arr < h.mem.size
    · rw [if_pos ⟨rfl, hlt⟩, Array.getElem?_eq_getElem hlt]; rfl
    · rw [if_neg (by omega), Array.getElem?_eq_none (by omega)]; rfl
  · rw [if_neg ha, if_neg (by intro e; exact ha e.1.symm)]

theorem writeZeros_size (h : Heap) (s : Slice) : (h.writeZeros s).mem.size = h.mem.size := by
  unfold Heap.writeZeros; simp [Array.size_modify]

theorem writeZeros_objs (h : Heap) (s : Slice) : (h.writeZeros s).objs = h.objs := rfl
theorem writeZeros_regs (h : Heap) (s : Slice) : (h.writeZeros s).regs = h.regs := rfl

/-- two slices that do not overlap -/
def Slice.disjoint (s t : Slice) : Prop :=
  s.len = 0 ∨ t.len = 0 ∨ s.arr ≠ t.arr ∨ s.off + s.len ≤ t.off ∨ t.off + t.len ≤ s.off

theorem take_drop_ext (b b' : Bytes) (o n : Nat) (h : ∀ i, i < n → b'[o + i]? = b[o + i]?) :
    (b'.drop o).take n = (b.drop o).take n := by
  apply List.ext_getElem?
  intro i
  rw [List.getElem?_take, List.getElem?_take]
  by_cases hi : i < n
  · rw [if_pos hi, if_pos hi, List.getElem?_drop, List.getElem?_drop, h i hi]
  · rw [if_neg hi, if_neg hi]

/-- writing zeros through `s` does not change what a disjoint slice denotes -/
theorem read_writeZeros_disjoint (h : Heap) (s t : Slice) (hs : h.inBounds s) (hd : t.disjoint s) :
    (h.writeZeros s).read t = h.read t := by
  by_cases ht0 : t.len = 0
  · rw [read_nil_len _ _ ht0, read_nil_len _ _ ht0]
  rw [read_def, read_def, arrAt_writeZeros]
  by_cases hc : t.arr = s.arr ∧ t.arr < h.mem.size
  · rw [if_pos hc]
    rcases hs with hs0 | ⟨_, hsl⟩
    · have : patch s.off s.len (h.arrAt t.arr) = h.arrAt t.arr := by
        unfold patch; rw [hs0]; simp
      rw [this]
    · have e := hc.1
      rw [e]
      apply take_drop_ext
      intro i hi
      rw [patch_getElem? _ _ _ hsl, if_neg]
      rcases hd with h1 | h1 | h1 | h1 | h1
      · exact absurd h1 ht0
      · omega
      · exact absurd e h1
      · omega
      · omega
  · rw [if_neg hc]

theorem all_zero_iff (l : Bytes) (n : Nat) : l = List.replicate n 0 ↔ l.length = n ∧ ∀ i, i < n → l[i]? = some 0 := by
  constructor
  · rintro rfl; exact ⟨List.length_replicate .., fun i hi => by rw [List.getElem?_replicate, if_pos hi]⟩
  · rintro ⟨hl, hz⟩
    apply List.ext_getElem?
    intro i
    rw [List.getElem?_replicate]
    by_cases hi : i < n
    · rw [if_pos hi, hz i hi]
    · rw [if_neg hi, List.getElem?_eq_none (by omega)]

/-- a slice reads as zeros -/
def Heap.zeroAt (h : Heap) (t : Slice) : Prop := h.read t = List.replicate t.len 0

theorem inBounds_writeZeros (h : Heap) (s t : Slice) (hs : h.inBounds s) (ht : h.inBounds t) :
    (h.writeZeros s).inBounds t := by
  rcases ht with h0 | ⟨ha, hl⟩
  · exact Or.inl h0
  · refine Or.inr ⟨by rw [writeZeros_size]; exact ha, ?_⟩
    rw [arrAt_writeZeros]
    by_cases hc : t.arr = s.arr ∧ t.arr < h.mem.size
    · rw [if_pos hc]
      rcases hs with hs0 | ⟨_, hsl⟩
      · have : patch s.off s.len (h.arrAt t.arr) = h.arrAt t.arr := by
          unfold patch; rw [hs0]; simp
        rw [this]; exact hl
      · rw [patch_length _ _ _ (by rw [hc.1]; exact hsl)]; exact hl
    · rw [if_neg hc]; exact hl

/-- after `zero(s)` the slice `s` reads as zeros -/
theorem zeroAt_writeZeros_self (h : Heap) (s : Slice) (hs : h.inBounds s) : (h.writeZeros s).zeroAt s := by
  unfold Heap.zeroAt
  rcases hs with hs0 | ⟨ha, hsl⟩
  · rw [read_nil_len _ _ hs0, hs0]; rfl
  · rw [all_zero_iff]
    refine ⟨read_length _ _ (inBounds_writeZeros h s s (Or.inr ⟨ha, hsl⟩) (Or.inr ⟨ha, hsl⟩)), ?_⟩
    intro i hi
    rw [read_def, arrAt_writeZeros, if_pos ⟨rfl, ha⟩, List.getElem?_take, if_pos hi, List.getElem?_drop,
      patch_getElem? _ _ _ hsl, if_pos (by omega)]

/-- … and further `zero(·)` calls keep it so -/
theorem zeroAt_writeZeros (h : Heap) (s t : Slice) (hs : h.inBounds s) (ht : h.inBounds t)
    (hz : h.zeroAt t) : (h.writeZeros s).zeroAt t := by
  unfold Heap.zeroAt at *
  rw [all_zero_iff] at hz ⊢
  refine ⟨read_length _ _ (inBounds_writeZeros h s t hs ht), ?_⟩
  intro i hi
  have h0 := hz.2 i hi
  rw [read_def, List.getElem?_take, if_pos hi, List.getElem?_drop] at h0 ⊢
  rw [arrAt_writeZeros]
  by_cases hc : t.arr = s.arr ∧ t.arr < h.mem.size
  · rw [if_pos hc]
    rcases hs with hs0 | ⟨_, hsl⟩
    · have : patch s.off s.len (h.arrAt t.arr) = h.arrAt t.arr := by
        unfold patch; rw [hs0]; simp
      rw [this]; exact h0
    · rw [patch_getElem? _ _ _ (by rw [hc.1]; exact hsl)]
      split
      · rfl
      · exact h0
  · rw [if_neg hc]; exact h0

/-! ### the network arrays -/

theorem netMem_size (nets : List Net) : (netMem nets).size = 2 * nets.length := by
  unfold netMem
  induction nets with
  | nil => rfl
  | cons n ns ih =>
    simp only [List.flatMap_cons, List.size_toArray, List.length_append, List.length_cons, List.length_nil] at ih ⊢
    omega

theorem netList_getElem? (nets : List Net) (n : Nat) :
    (nets.flatMap fun n => [n.hdPriv, n.hdPub])[2 * n]? = (nets[n]?).map (·.hdPriv) ∧
    (nets.flatMap fun n => [n.hdPriv, n.hdPub])[2 * n + 1]? = (nets[n]?).map (·.hdPub) := by
  induction nets generalizing n with
  | nil => simp
  | cons x xs ih =>
    cases n with
    | zero => simp
    | succ n =>
      have e1 : 2 * (n + 1) = (2 * n) + 2 := by omega
      have e2 : 2 * (n + 1) + 1 = (2 * n + 1) + 2 := by omega
      simp only [List.flatMap_cons, List.cons_append, List.nil_append]
      have e3 : 2 * n + 2 + 1 = (2 * n + 1) + 1 + 1 := by omega
      rw [e1]
      rw [e3, show 2 * n + 2 = (2 * n) + 1 + 1 from rfl]
      simp only [List.getElem?_cons_succ]
      exact ih n

theorem netMem_getElem? (nets : List Net) (n : Nat) :
    (netMem nets)[2 * n]? = (nets[n]?).map (·.hdPriv) ∧ (netMem nets)[2 * n + 1]? = (nets[n]?).map (·.hdPub) := by
  unfold netMem
  rw [List.getElem?_toArray, List.getElem?_toArray]
  exact netList_getElem? nets n

/-! ### the invariant -/

/-- **Inv**: the network arrays are intact; every slice is in bounds; the slices `Zero` writes
through (`key, pubKey, chainCode, parentFP`) lie outside the network arrays, those of DIFFERENT key
records lie in different arrays, and no `version` slice of any record overlaps a writable slice of
any record; registers refer to allocated records; a filled `pubKey` cache holds `pubKeyBytes`. -/
structure Inv (nets : List Net) (h : Heap) : Prop where
  netMem : ∀ a, a < 2 * nets.length → h.mem[a]? = (netMem nets)[a]?
  size : 2 * nets.length ≤ h.mem.size
  bounds : ∀ (id : Nat) k, h.objs[id]? = some k → ∀ s ∈ k.version :: k.writable, h.inBounds s
  wr : ∀ (id : Nat) k, h.objs[id]? = some k → ∀ s ∈ k.writable, s.len = 0 ∨ 2 * nets.length ≤ s.arr
  disj : ∀ (id1 id2 : Nat) k1 k2, h.objs[id1]? = some k1 → h.objs[id2]? = some k2 → id1 ≠ id2 →
    ∀ s1 ∈ k1.writable, ∀ s2 ∈ k2.writable, s1.len = 0 ∨ s2.len = 0 ∨ s1.arr ≠ s2.arr
  verdisj : ∀ (id1 id2 : Nat) k1 k2, h.objs[id1]? = some k1 → h.objs[id2]? = some k2 →
    ∀ s ∈ k2.writable, k1.version.disjoint s
  regs : ∀ (r id : Nat), h.regs[r]? = some (some id) → id < h.objs.size
  cache : ∀ (id : Nat) k, h.objs[id]? = some k → k.isPrivate = true →
    k.pubKey.len = 0 ∨ h.read k.pubKey = (h.absKey k).pubKeyBytes

theorem inv_hempty (nets : List Net) : Inv nets (hempty nets) where
  netMem := fun _ _ => rfl
  size := Nat.le_of_eq (netMem_size nets).symm
  bounds := fun id k h => by simp [hempty] at h
  wr := fun id k h => by simp [hempty] at h
  disj := fun id1 id2 k1 k2 h => by simp [hempty] at h
  verdisj := fun id1 id2 k1 k2 h => by simp [hempty] at h
  regs := fun r id h => by simp [hempty] at h
  cache := fun id k h => by simp [hempty] at h

/-! ### abstraction: registers -/

theorem abs_get (h : Heap) (r : Nat) :
    h.abs.get r = (h.get r).map fun p => (p.1, h.absKey p.2) := by
  unfold State.get Heap.get Heap.abs
  simp only []
  cases hr : h.regs[r]? with
  | none => rfl
  | some x =>
    cases x with
    | none => rfl
    | some id =>
      simp only [Array.getElem?_map]
      cases h.objs[id]? <;> rfl

theorem hget_some {h : Heap} {r id : Nat} {k : HKey} (hg : h.get r = some (id, k)) :
    h.regs[r]? = some (some id) ∧ h.objs[id]? = some k := by
  unfold Heap.get at hg
  split at hg
  · rename_i id' hr
    cases ho : h.objs[id']? with
    | none => rw [ho] at hg; cases hg
    | some k' =>
      rw [ho] at hg
      simp only [Option.map_some, Option.some.injEq, Prod.mk.injEq] at hg
      obtain ⟨rfl, rfl⟩ := hg
      exact ⟨hr, ho⟩
  · cases hg

theorem abs_fail (h : Heap) : h.fail.abs = h.abs.fail := rfl
theorem abs_alias (h : Heap) (id : Nat) : (h.alias id).abs = h.abs.alias id := rfl

theorem Inv.fail {nets : List Net} {h : Heap} (hI : Inv nets h) : Inv nets h.fail where
  netMem := hI.netMem
  size := hI.size
  bounds := hI.bounds
  wr := hI.wr
  disj := hI.disj
  verdisj := hI.verdisj
  regs := fun r id hr => by
    have hr' : (h.regs.push none)[r]? = some (some id) := hr
    rw [Array.getElem?_push] at hr'
    split at hr'
    · cases hr'
    · exact hI.regs r id hr'
  cache := hI.cache

theorem Inv.alias {nets : List Net} {h : Heap} (hI : Inv nets h) (id0 : Nat) (h0 : id0 < h.objs.size) :
    Inv nets (h.alias id0) where
  netMem := hI.netMem
  size := hI.size
  bounds := hI.bounds
  wr := hI.wr
  disj := hI.disj
  verdisj := hI.verdisj
  regs := fun r id hr => by
    have hr' : (h.regs.push (some id0))[r]? = some (some id) := hr
    rw [Array.getElem?_push] at hr'
    split at hr'
    · injection hr' with e; injection e with e; subst e; exact h0
    · exact hI.regs r id hr'
  cache := hI.cache


/-! ### allocation of a new key record -/

theorem absKey_ext {h1 h2 : Heap} (e : Ext h1 h2) (k : HKey)
    (hb : ∀ s ∈ k.version :: k.writable, h1.inBounds s) : h2.absKey k = h1.absKey k := by
  apply absKey_congr
  intro s hs
  apply e.read
  apply hb
  simp only [HKey.writable, List.mem_cons, List.not_mem_nil, or_false] at hs ⊢
  rcases hs with rfl | rfl | rfl | rfl <;> simp

theorem map_absKey_ext {nets : List Net} {h1 h2 : Heap} (hI : Inv nets h1) (e : Ext h1 h2) :
    h1.objs.map h2.absKey = h1.objs.map h1.absKey := by
  apply Array.ext_getElem?
  intro i
  rw [Array.getElem?_map, Array.getElem?_map]
  cases hk : h1.objs[i]? with
  | none => rfl
  | some k => simp only [Option.map_some]; rw [absKey_ext e k (hI.bounds i k hk)]

theorem push_getElem?_some {α} (xs : Array α) (x k : α) (i : Nat) (h : (xs.push x)[i]? = some k) :
    (i = xs.size ∧ k = x) ∨ (i < xs.size ∧ xs[i]? = some k) := by
  rw [Array.getElem?_push] at h
  split at h
  · rename_i hi; injection h with h; exact Or.inl ⟨hi, h.symm⟩
  · right
    refine ⟨?_, h⟩
    rcases Array.getElem?_eq_some_iff.1 h with ⟨hlt, _⟩; exact hlt

theorem inBounds_arr_lt {h : Heap} {s : Slice} (hb : h.inBounds s) (hl : s.len ≠ 0) : s.arr < h.mem.size := by
  rcases hb with h0 | ⟨ha, _⟩
  · exact absurd h0 hl
  · exact ha

/-- **allocation**: pushing a record whose writable slices live in arrays allocated after every
existing record was built, and whose version slice overlaps no writable slice, preserves `Inv` -/
theorem Inv.pushKey {nets : List Net} {h1 h2 : Heap} (hI : Inv nets h1) (e : Ext h1 h2)
    (ho : h2.objs = h1.objs) (hr : h2.regs = h1.regs) (nk : HKey)
    (hw : ∀ s ∈ nk.writable, s.len = 0 ∨ (h1.mem.size ≤ s.arr ∧ h2.inBounds s))
    (hv : h2.inBounds nk.version)
    (hvs : ∀ s ∈ nk.writable, nk.version.disjoint s)
    (hvo : ∀ (id2 : Nat) k2, h1.objs[id2]? = some k2 → ∀ s ∈ k2.writable, nk.version.disjoint s)
    (hc : nk.pubKey.len = 0) : Inv nets (h2.pushKey nk) := by
  have hobjs : (h2.pushKey nk).objs = h1.objs.push nk := by show h2.objs.push nk = _; rw [ho]
  have hmem : (h2.pushKey nk).mem = h2.mem := rfl
  have hib : ∀ s, h2.inBounds s → (h2.pushKey nk).inBounds s := fun s hs => hs
  have old_ver_new_wr : ∀ (id1 : Nat) k1, h1.objs[id1]? = some k1 → ∀ s ∈ nk.writable, k1.version.disjoint s := by
    intro id1 k1 hk1 s hs
    by_cases hv0 : k1.version.len = 0
    · exact Or.inl hv0
    · have := inBounds_arr_lt (hI.bounds id1 k1 hk1 k1.version (by simp)) hv0
      rcases hw s hs with h0 | ⟨hge, _⟩
      · exact Or.inr (Or.inl h0)
      · exact Or.inr (Or.inr (Or.inl (by omega)))
  have new_old_arr : ∀ (id2 : Nat) k2, h1.objs[id2]? = some k2 → ∀ s1 ∈ nk.writable, ∀ s2 ∈ k2.writable,
      s1.len = 0 ∨ s2.len = 0 ∨ s1.arr ≠ s2.arr := by
    intro id2 k2 hk2 s1 hs1 s2 hs2
    by_cases h20 : s2.len = 0
    · exact Or.inr (Or.inl h20)
    · have := inBounds_arr_lt (hI.bounds id2 k2 hk2 s2 (List.mem_cons_of_mem _ hs2)) h20
      rcases hw s1 hs1 with h0 | ⟨hge, _⟩
      · exact Or.inl h0
      · exact Or.inr (Or.inr (by omega))
  refine ⟨?_, ?_, ?_, ?_, ?_, ?_, ?_, ?_⟩
  · intro a ha
    show h2.mem[a]? = _
    rw [e a (Nat.lt_of_lt_of_le ha hI.size)]; exact hI.netMem a ha
  · exact Nat.le_trans hI.size e.size
  · intro id k hk s hs
    rw [hobjs] at hk
    rcases push_getElem?_some _ _ _ _ hk with ⟨_, rfl⟩ | ⟨_, hk'⟩
    · rcases List.mem_cons.1 hs with rfl | hs'
      · exact hv
      · rcases hw s hs' with h0 | ⟨_, hb⟩
        · exact Or.inl h0
        · exact hb
    · exact e.inBounds s (hI.bounds id k hk' s hs)
  · intro id k hk s hs
    rw [hobjs] at hk
    rcases push_getElem?_some _ _ _ _ hk with ⟨_, rfl⟩ | ⟨_, hk'⟩
    · rcases hw s hs with h0 | ⟨hge, _⟩
      · exact Or.inl h0
      · exact Or.inr (Nat.le_trans hI.size hge)
    · exact hI.wr id k hk' s hs
  · intro id1 id2 k1 k2 hk1 hk2 hne s1 hs1 s2 hs2
    rw [hobjs] at hk1 hk2
    rcases push_getElem?_some _ _ _ _ hk1 with ⟨i1, rfl⟩ | ⟨i1, hk1'⟩ <;>
      rcases push_getElem?_some _ _ _ _ hk2 with ⟨i2, rfl⟩ | ⟨i2, hk2'⟩
    · exact absurd (i1.trans i2.symm) hne
    · exact new_old_arr id2 k2 hk2' s1 hs1 s2 hs2
    · rcases new_old_arr id1 k1 hk1' s2 hs2 s1 hs1 with h | h | h
      · exact Or.inr (Or.inl h)
      · exact Or.inl h
      · exact Or.inr (Or.inr (Ne.symm h))
    · exact hI.disj id1 id2 k1 k2 hk1' hk2' hne s1 hs1 s2 hs2
  · intro id1 id2 k1 k2 hk1 hk2 s hs
    rw [hobjs] at hk1 hk2
    rcases push_getElem?_some _ _ _ _ hk1 with ⟨i1, rfl⟩ | ⟨i1, hk1'⟩ <;>
      rcases push_getElem?_some _ _ _ _ hk2 with ⟨i2, rfl⟩ | ⟨i2, hk2'⟩
    · exact hvs s hs
    · exact hvo id2 k2 hk2' s hs
    · exact old_ver_new_wr id1 k1 hk1' s hs
    · exact hI.verdisj id1 id2 k1 k2 hk1' hk2' s hs
  · intro r id hreg
    have hreg' : (h2.regs.push (some h2.objs.size))[r]? = some (some id) := hreg
    have hsz : (h2.pushKey nk).objs.size = h1.objs.size + 1 := by rw [hobjs, Array.size_push]
    rw [hsz]
    rw [Array.getElem?_push] at hreg'
    split at hreg'
    · injection hreg' with e1; injection e1 with e1; rw [← e1, ho]; omega
    · rw [hr] at hreg'; have := hI.regs r id hreg'; omega
  · intro id k hk hp
    rw [hobjs] at hk
    rcases push_getElem?_some _ _ _ _ hk with ⟨_, rfl⟩ | ⟨_, hk'⟩
    · exact Or.inl hc
    · rcases hI.cache id k hk' hp with h0 | h1c
      · exact Or.inl h0
      · right
        have hb := hI.bounds id k hk'
        show h2.read k.pubKey = (h2.absKey k).pubKeyBytes
        rw [absKey_ext e k hb, e.read _ (hb _ (by simp [HKey.writable]))]
        exact h1c

theorem abs_pushKey {nets : List Net} {h1 h2 : Heap} (hI : Inv nets h1) (e : Ext h1 h2)
    (ho : h2.objs = h1.objs) (hr : h2.regs = h1.regs) (nk : HKey) :
    (h2.pushKey nk).abs = h1.abs.newObj (.ok (h2.absKey nk)) := by
  unfold Heap.abs State.newObj Heap.pushKey
  simp only []
  have : (h2.objs.push nk).map (Heap.absKey { mem := h2.mem, objs := h2.objs.push nk, regs := h2.regs.push (some h2.objs.size) })
      = (h1.objs.map h1.absKey).push (h2.absKey nk) := by
    rw [Array.map_push, ho]
    congr 1
    exact map_absKey_ext hI e
  rw [this, hr, ho]
  simp only [Array.size_map]


/-! ### replacing one record (cache fill, SetNet) -/

theorem set_getElem?_some {α} (xs : Array α) (x k : α) (id i : Nat) (h : (xs.set! id x)[i]? = some k) :
    (i = id ∧ k = x ∧ id < xs.size) ∨ (i ≠ id ∧ xs[i]? = some k) := by
  rw [Array.set!_eq_setIfInBounds, Array.getElem?_setIfInBounds] at h
  split at h
  · rename_i hi
    split at h
    · rename_i hlt; injection h with h; exact Or.inl ⟨hi.symm, h.symm, hlt⟩
    · cases h
  · rename_i hi; exact Or.inr ⟨fun e => hi e.symm, h⟩

theorem pubKeyBytes_congr (a b : XKey) (h1 : a.key = b.key) (h2 : a.isPrivate = b.isPrivate) :
    a.pubKeyBytes = b.pubKeyBytes := by
  unfold XKey.pubKeyBytes; rw [h1, h2]

/-- replacing record `id` by one with the same `key, chainCode, parentFP`, whose `pubKey` is either
unchanged or a freshly allocated cache holding `pubKeyBytes`, and whose `version` is either
unchanged, nil, or a slice of a network array -/
theorem Inv.replace {nets : List Net} {h h' : Heap} (hI : Inv nets h) (e : Ext h h') (id : Nat) (k k' : HKey)
    (hk : h.objs[id]? = some k) (hobjs : h'.objs = h.objs.set! id k') (hregs : h'.regs = h.regs)
    (hkey : k'.key = k.key) (hcc : k'.chainCode = k.chainCode) (hfp : k'.parentFP = k.parentFP)
    (hpriv : k'.isPrivate = k.isPrivate)
    (hpub : k'.pubKey = k.pubKey ∨ (h.mem.size ≤ k'.pubKey.arr ∧ h'.inBounds k'.pubKey ∧
        (k.isPrivate = true → h'.read k'.pubKey = (h.absKey k).pubKeyBytes)))
    (hver : k'.version = k.version ∨ k'.version.len = 0 ∨
        (k'.version.arr < 2 * nets.length ∧ h.inBounds k'.version)) : Inv nets h' := by
  have hidlt : id < h.objs.size := by rcases Array.getElem?_eq_some_iff.1 hk with ⟨hlt, _⟩; exact hlt
  -- writable slices of the new record: old ones, or the fresh cache
  have hwr' : ∀ s ∈ k'.writable, s ∈ k.writable ∨ (s = k'.pubKey ∧ h.mem.size ≤ s.arr ∧ h'.inBounds s) := by
    intro s hs
    simp only [HKey.writable, List.mem_cons, List.not_mem_nil, or_false] at hs ⊢
    rcases hs with rfl | rfl | rfl | rfl
    · left; left; exact hkey
    · rcases hpub with hp | ⟨h1, h2, _⟩
      · left; right; left; exact hp
      · right; exact ⟨rfl, h1, h2⟩
    · left; right; right; left; exact hcc
    · left; right; right; right; exact hfp
  have hverib : h'.inBounds k'.version := by
    rcases hver with hv | hv | ⟨_, hv⟩
    · rw [hv]; exact e.inBounds _ (hI.bounds id k hk _ (by simp))
    · exact Or.inl hv
    · exact e.inBounds _ hv
  -- the new version slice is disjoint from every old writable slice
  have hverd : ∀ (id2 : Nat) k2, h.objs[id2]? = some k2 → ∀ s ∈ k2.writable, k'.version.disjoint s := by
    intro id2 k2 hk2 s hs
    rcases hver with hv | hv | ⟨hv, _⟩
    · rw [hv]; exact hI.verdisj id id2 k k2 hk hk2 s hs
    · exact Or.inl hv
    · rcases hI.wr id2 k2 hk2 s hs with h0 | hge
      · exact Or.inr (Or.inl h0)
      · exact Or.inr (Or.inr (Or.inl (by omega)))
  -- any in-bounds slice of the old heap is disjoint from the fresh cache (different array)
  have fresh_disj : ∀ t s : Slice, h.inBounds t → h.mem.size ≤ s.arr → t.disjoint s := by
    intro t s ht hs
    by_cases t0 : t.len = 0
    · exact Or.inl t0
    · have := inBounds_arr_lt ht t0
      exact Or.inr (Or.inr (Or.inl (by omega)))
  have hveribOld : k'.version.len = 0 ∨ k'.version.arr < h.mem.size := by
    rcases hver with hv | hv | ⟨hv, _⟩
    · rw [hv]
      by_cases v0 : k.version.len = 0
      · exact Or.inl v0
      · exact Or.inr (inBounds_arr_lt (hI.bounds id k hk _ (by simp)) v0)
    · exact Or.inl hv
    · exact Or.inr (Nat.lt_of_lt_of_le hv hI.size)
  have lookup : ∀ (i : Nat) x, h'.objs[i]? = some x →
      (i = id ∧ x = k') ∨ (i ≠ id ∧ h.objs[i]? = some x) := by
    intro i x hx
    rw [hobjs] at hx
    rcases set_getElem?_some _ _ _ _ _ hx with ⟨a, b, _⟩ | ⟨a, b⟩
    · exact Or.inl ⟨a, b⟩
    · exact Or.inr ⟨a, b⟩
  refine ⟨?_, ?_, ?_, ?_, ?_, ?_, ?_, ?_⟩
  · intro a ha
    rw [e a (Nat.lt_of_lt_of_le ha hI.size)]; exact hI.netMem a ha
  · exact Nat.le_trans hI.size e.size
  · intro i x hx s hs
    rcases lookup i x hx with ⟨_, rfl⟩ | ⟨_, hx'⟩
    · rcases List.mem_cons.1 hs with rfl | hs'
      · exact hverib
      · rcases hwr' s hs' with hold | ⟨_, _, hb⟩
        · exact e.inBounds _ (hI.bounds id k hk s (List.mem_cons_of_mem _ hold))
        · exact hb
    · exact e.inBounds _ (hI.bounds i x hx' s hs)
  · intro i x hx s hs
    rcases lookup i x hx with ⟨_, rfl⟩ | ⟨_, hx'⟩
    · rcases hwr' s hs with hold | ⟨_, hge, _⟩
      · exact hI.wr id k hk s hold
      · exact Or.inr (Nat.le_trans hI.size hge)
    · exact hI.wr i x hx' s hs
  · intro i1 i2 x1 x2 hx1 hx2 hne s1 hs1 s2 hs2
    rcases lookup i1 x1 hx1 with ⟨a1, rfl⟩ | ⟨a1, hx1'⟩ <;>
      rcases lookup i2 x2 hx2 with ⟨a2, rfl⟩ | ⟨a2, hx2'⟩
    · exact absurd (a1.trans a2.symm) hne
    · rcases hwr' s1 hs1 with hold | ⟨_, hge, _⟩
      · exact hI.disj id i2 k x2 hk hx2' (fun e => a2 e.symm) s1 hold s2 hs2
      · by_cases h20 : s2.len = 0
        · exact Or.inr (Or.inl h20)
        · have := inBounds_arr_lt (hI.bounds i2 x2 hx2' s2 (List.mem_cons_of_mem _ hs2)) h20
          exact Or.inr (Or.inr (by omega))
    · rcases hwr' s2 hs2 with hold | ⟨_, hge, _⟩
      · exact hI.disj i1 id x1 k hx1' hk a1 s1 hs1 s2 hold
      · by_cases h10 : s1.len = 0
        · exact Or.inl h10
        · have := inBounds_arr_lt (hI.bounds i1 x1 hx1' s1 (List.mem_cons_of_mem _ hs1)) h10
          exact Or.inr (Or.inr (by omega))
    · exact hI.disj i1 i2 x1 x2 hx1' hx2' hne s1 hs1 s2 hs2
  · intro i1 i2 x1 x2 hx1 hx2 s hs
    -- version of record i1 against writable slice s of record i2
    have verOld : ∀ (j : Nat) y, h.objs[j]? = some y → ∀ t, h.mem.size ≤ t.arr → y.version.disjoint t :=
      fun j y hy t ht => fresh_disj _ _ (hI.bounds j y hy _ (by simp)) ht
    rcases lookup i1 x1 hx1 with ⟨a1, rfl⟩ | ⟨a1, hx1'⟩ <;>
      rcases lookup i2 x2 hx2 with ⟨a2, rfl⟩ | ⟨a2, hx2'⟩
    · rcases hwr' s hs with hold | ⟨_, hge, _⟩
      · exact hverd id k hk s hold
      · rcases hveribOld with v0 | vlt
        · exact Or.inl v0
        · exact Or.inr (Or.inr (Or.inl (by omega)))
    · exact hverd i2 x2 hx2' s hs
    · rcases hwr' s hs with hold | ⟨_, hge, _⟩
      · exact hI.verdisj i1 id x1 k hx1' hk s hold
      · exact verOld i1 x1 hx1' s hge
    · exact hI.verdisj i1 i2 x1 x2 hx1' hx2' s hs
  · intro r i hreg
    rw [hregs] at hreg
    have := hI.regs r i hreg
    rw [hobjs, Array.set!_eq_setIfInBounds, Array.size_setIfInBounds]; exact this
  · intro i x hx hp
    rcases lookup i x hx with ⟨_, rfl⟩ | ⟨_, hx'⟩
    · have hb := hI.bounds id k hk
      have hpk : (h'.absKey x).pubKeyBytes = (h.absKey k).pubKeyBytes := by
        apply pubKeyBytes_congr
        · show h'.read x.key = h.read k.key
          rw [hkey]; exact e.read _ (hb _ (by simp [HKey.writable]))
        · exact hpriv
      rw [hpk]
      rcases hpub with hpe | ⟨_, _, hrd⟩
      · rw [hpe]
        rcases hI.cache id k hk (hpriv.symm.trans hp) with h0 | hc
        · exact Or.inl h0
        · right; rw [e.read _ (hb _ (by simp [HKey.writable]))]; exact hc
      · exact Or.inr (hrd (hpriv.symm.trans hp))
    · rcases hI.cache i x hx' hp with h0 | hc
      · exact Or.inl h0
      · right
        have hb := hI.bounds i x hx'
        rw [absKey_ext e x hb, e.read _ (hb _ (by simp [HKey.writable]))]
        exact hc


theorem abs_replace {nets : List Net} {h h' : Heap} (hI : Inv nets h) (e : Ext h h') (id : Nat) (k' : HKey)
    (hobjs : h'.objs = h.objs.set! id k') (hregs : h'.regs = h.regs) :
    h'.abs = { objs := h.abs.objs.set! id (h'.absKey k'), regs := h.abs.regs } := by
  unfold Heap.abs
  simp only []
  rw [hregs, hobjs, Array.set!_eq_setIfInBounds, Array.set!_eq_setIfInBounds, Array.map_setIfInBounds]
  congr 2
  exact map_absKey_ext hI e

theorem set_self {α} (xs : Array α) (id : Nat) (x : α) (h : xs[id]? = some x) : xs.set! id x = xs := by
  apply Array.ext_getElem?
  intro i
  rw [Array.set!_eq_setIfInBounds, Array.getElem?_setIfInBounds]
  split
  · rename_i hi; subst hi
    rcases Array.getElem?_eq_some_iff.1 h with ⟨hlt, _⟩
    rw [if_pos hlt, h]
  · rfl

/-- `pubKeyBytes()` (cache fill) keeps the invariant, changes no denoted value, no register and no
version slice -/
theorem cachePub_spec {nets : List Net} {h : Heap} (hI : Inv nets h) (id : Nat) :
    Inv nets (h.cachePub id) ∧ Ext h (h.cachePub id) ∧ (h.cachePub id).abs = h.abs ∧
    (h.cachePub id).regs = h.regs ∧ (h.cachePub id).objs.size = h.objs.size ∧
    (∀ (i : Nat) x, h.objs[i]? = some x → ∃ x', (h.cachePub id).objs[i]? = some x' ∧ x'.version = x.version) := by
  unfold Heap.cachePub
  cases hk : h.objs[id]? with
  | none => exact ⟨hI, Ext.refl h, rfl, rfl, rfl, fun i x hx => ⟨x, hx, rfl⟩⟩
  | some k =>
    simp only []
    split
    · rename_i hcond
      simp only [Bool.and_eq_true, beq_iff_eq] at hcond
      obtain ⟨hp, hl0⟩ := hcond
      generalize hb : (h.absKey k).pubKeyBytes = b
      let k' : HKey := { k with pubKey := ⟨h.mem.size, 0, b.length⟩ }
      let h' : Heap := { h with mem := h.mem.push b, objs := h.objs.set! id k' }
      have e : Ext h h' := ext_push h b _ _
      have hidlt : id < h.objs.size := by rcases Array.getElem?_eq_some_iff.1 hk with ⟨hlt, _⟩; exact hlt
      have hnew : h'.arrAt h.mem.size = b := arrAt_push_new h.mem b _ _
      have hib : h'.inBounds k'.pubKey := by
        right
        refine ⟨?_, ?_⟩
        · show h.mem.size < (h.mem.push b).size; rw [Array.size_push]; omega
        · show 0 + b.length ≤ (h'.arrAt h.mem.size).length; rw [hnew]; omega
      have hrd : h'.read k'.pubKey = b := by
        rw [read_def]; show ((h'.arrAt h.mem.size).drop 0).take b.length = b
        rw [hnew]; simp
      have hinv : Inv nets h' :=
        Inv.replace hI e id k k' hk rfl rfl rfl rfl rfl rfl
          (Or.inr ⟨Nat.le_refl _, hib, fun _ => by rw [hrd, hb]⟩) (Or.inl rfl)
      have habs : h'.abs = h.abs := by
        rw [abs_replace hI e id k' rfl rfl]
        have : h'.absKey k' = h.absKey k := absKey_ext e k (hI.bounds id k hk)
        rw [this]
        show ({ objs := h.abs.objs.set! id (h.absKey k), regs := h.abs.regs } : State) = h.abs
        have hs : h.abs.objs.set! id (h.absKey k) = h.abs.objs := by
          apply set_self
          show (h.objs.map h.absKey)[id]? = _
          rw [Array.getElem?_map, hk]; rfl
        rw [hs]
      refine ⟨hinv, e, habs, rfl, ?_, ?_⟩
      · show (h.objs.set! id k').size = _
        rw [Array.set!_eq_setIfInBounds, Array.size_setIfInBounds]
      · intro i x hx
        show ∃ x', (h.objs.set! id k')[i]? = some x' ∧ _
        rw [Array.set!_eq_setIfInBounds, Array.getElem?_setIfInBounds]
        by_cases hi : id = i
        · subst hi
          rw [if_pos rfl, if_pos hidlt]
          rw [hk] at hx; injection hx with hx; subst hx
          exact ⟨k', rfl, rfl⟩
        · rw [if_neg hi]; exact ⟨x, hx, rfl⟩
    · exact ⟨hI, Ext.refl h, rfl, rfl, rfl, fun i x hx => ⟨x, hx, rfl⟩⟩


/-! ### Zero -/

/-- `zero(·)` through a list of slices, in order -/
def writeAll (h : Heap) (ss : List Slice) : Heap := ss.foldl Heap.writeZeros h

theorem writeAll_cons (h : Heap) (s : Slice) (ss : List Slice) :
    writeAll h (s :: ss) = writeAll (h.writeZeros s) ss := rfl

theorem writeAll_frame (h : Heap) (ss : List Slice) :
    (writeAll h ss).mem.size = h.mem.size ∧ (writeAll h ss).objs = h.objs ∧ (writeAll h ss).regs = h.regs := by
  induction ss generalizing h with
  | nil => exact ⟨rfl, rfl, rfl⟩
  | cons s ss ih =>
    rw [writeAll_cons]
    obtain ⟨a, b, c⟩ := ih (h.writeZeros s)
    exact ⟨a.trans (writeZeros_size h s), b, c⟩

theorem writeAll_inBounds (h : Heap) (ss : List Slice) (hs : ∀ s ∈ ss, h.inBounds s) (t : Slice)
    (ht : h.inBounds t) : (writeAll h ss).inBounds t := by
  induction ss generalizing h with
  | nil => exact ht
  | cons s ss ih =>
    rw [writeAll_cons]
    have hs0 := hs s (by simp)
    exact ih (h.writeZeros s)
      (fun u hu => inBounds_writeZeros h s u hs0 (hs u (List.mem_cons_of_mem _ hu)))
      (inBounds_writeZeros h s t hs0 ht)

theorem writeAll_read (h : Heap) (ss : List Slice) (hs : ∀ s ∈ ss, h.inBounds s) (t : Slice)
    (hd : ∀ s ∈ ss, t.disjoint s) : (writeAll h ss).read t = h.read t := by
  induction ss generalizing h with
  | nil => rfl
  | cons s ss ih =>
    rw [writeAll_cons]
    have hs0 := hs s (by simp)
    rw [ih (h.writeZeros s)
      (fun u hu => inBounds_writeZeros h s u hs0 (hs u (List.mem_cons_of_mem _ hu)))
      (fun u hu => hd u (List.mem_cons_of_mem _ hu))]
    exact read_writeZeros_disjoint h s t hs0 (hd s (by simp))

theorem writeAll_zeroAt (h : Heap) (ss : List Slice) (hs : ∀ s ∈ ss, h.inBounds s) (t : Slice)
    (ht : h.inBounds t) (hz : h.zeroAt t ∨ t ∈ ss) : (writeAll h ss).zeroAt t := by
  induction ss generalizing h with
  | nil =>
    rcases hz with hz | hz
    · exact hz
    · cases hz
  | cons s ss ih =>
    rw [writeAll_cons]
    have hs0 := hs s (by simp)
    apply ih (h.writeZeros s)
      (fun u hu => inBounds_writeZeros h s u hs0 (hs u (List.mem_cons_of_mem _ hu)))
      (inBounds_writeZeros h s t hs0 ht)
    rcases hz with hz | hz
    · exact Or.inl (zeroAt_writeZeros h s t hs0 ht hz)
    · rcases List.mem_cons.1 hz with rfl | hz'
      · exact Or.inl (zeroAt_writeZeros_self h t hs0)
      · exact Or.inr hz'

theorem patch_zero_len (o : Nat) (b : Bytes) : patch o 0 b = b := by
  unfold patch; simp

theorem writeZeros_mem (h : Heap) (s : Slice) (a : Nat) (ha : s.len = 0 ∨ s.arr ≠ a) :
    (h.writeZeros s).mem[a]? = h.mem[a]? := by
  unfold Heap.writeZeros
  simp only [Array.getElem?_modify]
  split
  · rename_i he
    rcases ha with h0 | hne
    · rw [h0]
      cases h.mem[a]? with
      | none => rfl
      | some b => simp only [Option.map_some]; congr 1; exact patch_zero_len _ _
    · exact absurd he hne
  · rfl

theorem writeAll_mem (h : Heap) (ss : List Slice) (a : Nat) (ha : ∀ s ∈ ss, s.len = 0 ∨ s.arr ≠ a) :
    (writeAll h ss).mem[a]? = h.mem[a]? := by
  induction ss generalizing h with
  | nil => rfl
  | cons s ss ih =>
    rw [writeAll_cons, ih _ (fun u hu => ha u (List.mem_cons_of_mem _ hu))]
    exact writeZeros_mem h s a (ha s (by simp))

theorem disjoint_of_arr {s t : Slice} (h : s.len = 0 ∨ t.len = 0 ∨ s.arr ≠ t.arr) : s.disjoint t := by
  rcases h with h | h | h
  · exact Or.inl h
  · exact Or.inr (Or.inl h)
  · exact Or.inr (Or.inr (Or.inl h))

/-- the heap after `Zero()` on record `id` -/
def zeroHeap (h : Heap) (id : Nat) (k : HKey) : Heap :=
  let h1 := (((h.writeZeros k.key).writeZeros k.pubKey).writeZeros k.chainCode).writeZeros k.parentFP
  let k' : HKey := { k with key := Slice.nil, version := Slice.nil, depth := 0, childNum := 0, isPrivate := false }
  { h1 with objs := h1.objs.set! id k' }

theorem zeroHeap_spec {nets : List Net} {h : Heap} (hI : Inv nets h) (id : Nat) (k : HKey)
    (hk : h.objs[id]? = some k) :
    Inv nets (zeroHeap h id k) ∧
    (zeroHeap h id k).abs = { objs := h.abs.objs.set! id (Bip32.zero (h.absKey k)), regs := h.abs.regs } := by
  let k' : HKey := { k with key := Slice.nil, version := Slice.nil, depth := 0, childNum := 0, isPrivate := false }
  have hw : (((h.writeZeros k.key).writeZeros k.pubKey).writeZeros k.chainCode).writeZeros k.parentFP
      = writeAll h k.writable := rfl
  obtain ⟨wsz, wobjs, wregs⟩ := writeAll_frame h k.writable
  have hzh : zeroHeap h id k = { writeAll h k.writable with objs := h.objs.set! id k' } := by
    unfold zeroHeap; simp only []; rw [hw, wobjs]
  have hbk : ∀ s ∈ k.writable, h.inBounds s := fun s hs => hI.bounds id k hk s (List.mem_cons_of_mem _ hs)
  -- frame facts for the new heap
  have rd : ∀ t, (∀ s ∈ k.writable, t.disjoint s) → (zeroHeap h id k).read t = h.read t := by
    intro t ht; rw [hzh]; exact writeAll_read h k.writable hbk t ht
  have ib : ∀ t, h.inBounds t → (zeroHeap h id k).inBounds t := by
    intro t ht; rw [hzh]; exact writeAll_inBounds h k.writable hbk t ht
  have za : ∀ t ∈ k.writable, (zeroHeap h id k).read t = List.replicate t.len 0 := by
    intro t ht; rw [hzh]; exact writeAll_zeroAt h k.writable hbk t (hbk t ht) (Or.inr ht)
  have hobjs : (zeroHeap h id k).objs = h.objs.set! id k' := by rw [hzh]
  have hregs : (zeroHeap h id k).regs = h.regs := by rw [hzh]; exact wregs
  have hsz : (zeroHeap h id k).mem.size = h.mem.size := by rw [hzh]; exact wsz
  have hnm : ∀ a, a < 2 * nets.length → (zeroHeap h id k).mem[a]? = h.mem[a]? := by
    intro a ha
    rw [hzh]
    show (writeAll h k.writable).mem[a]? = _
    exact writeAll_mem h k.writable a (fun s hs => by
      rcases hI.wr id k hk s hs with h0 | hge
      · exact Or.inl h0
      · exact Or.inr (by omega))
  clear hzh hw
  generalize zeroHeap h id k = Z at *
  have lookup : ∀ (i : Nat) x, Z.objs[i]? = some x →
      (i = id ∧ x = k') ∨ (i ≠ id ∧ h.objs[i]? = some x) := by
    intro i x hx
    rw [hobjs] at hx
    rcases set_getElem?_some _ _ _ _ _ hx with ⟨a, b, _⟩ | ⟨a, b⟩
    · exact Or.inl ⟨a, b⟩
    · exact Or.inr ⟨a, b⟩
  have hidlt : id < h.objs.size := by rcases Array.getElem?_eq_some_iff.1 hk with ⟨hlt, _⟩; exact hlt
  -- writable slices of the zeroed record are old ones or nil
  have hwr' : ∀ s ∈ k'.writable, s.len = 0 ∨ s ∈ k.writable := by
    intro s hs
    simp only [HKey.writable, List.mem_cons, List.not_mem_nil, or_false] at hs ⊢
    rcases hs with rfl | rfl | rfl | rfl
    · exact Or.inl rfl
    · exact Or.inr (Or.inr (Or.inl rfl))
    · exact Or.inr (Or.inr (Or.inr (Or.inl rfl)))
    · exact Or.inr (Or.inr (Or.inr (Or.inr rfl)))
  -- other records keep their value
  have other : ∀ (i : Nat) x, i ≠ id → h.objs[i]? = some x →
      Z.absKey x = h.absKey x ∧ Z.read x.pubKey = h.read x.pubKey := by
    intro i x hi hx
    have dw : ∀ t ∈ x.writable, ∀ s ∈ k.writable, t.disjoint s := fun t ht s hs =>
      disjoint_of_arr (hI.disj i id x k hx hk hi t ht s hs)
    refine ⟨?_, rd _ (dw _ (by simp [HKey.writable]))⟩
    apply absKey_congr
    intro t ht
    simp only [List.mem_cons, List.not_mem_nil, or_false] at ht
    rcases ht with rfl | rfl | rfl | rfl
    · exact rd _ (dw _ (by simp [HKey.writable]))
    · exact rd _ (dw _ (by simp [HKey.writable]))
    · exact rd _ (dw _ (by simp [HKey.writable]))
    · exact rd _ (fun s hs => hI.verdisj i id x k hx hk s hs)
  constructor
  · refine ⟨?_, ?_, ?_, ?_, ?_, ?_, ?_, ?_⟩
    · intro a ha
      rw [hnm a ha]; exact hI.netMem a ha
    · rw [hsz]; exact hI.size
    · intro i x hx s hs
      rcases lookup i x hx with ⟨_, rfl⟩ | ⟨_, hx'⟩
      · rcases List.mem_cons.1 hs with rfl | hs'
        · exact Or.inl rfl
        · rcases hwr' s hs' with h0 | hold
          · exact Or.inl h0
          · exact ib s (hbk s hold)
      · exact ib s (hI.bounds i x hx' s hs)
    · intro i x hx s hs
      rcases lookup i x hx with ⟨_, rfl⟩ | ⟨_, hx'⟩
      · rcases hwr' s hs with h0 | hold
        · exact Or.inl h0
        · exact hI.wr id k hk s hold
      · exact hI.wr i x hx' s hs
    · intro i1 i2 x1 x2 hx1 hx2 hne s1 hs1 s2 hs2
      rcases lookup i1 x1 hx1 with ⟨a1, rfl⟩ | ⟨a1, hx1'⟩ <;>
        rcases lookup i2 x2 hx2 with ⟨a2, rfl⟩ | ⟨a2, hx2'⟩
      · exact absurd (a1.trans a2.symm) hne
      · rcases hwr' s1 hs1 with h0 | hold
        · exact Or.inl h0
        · exact hI.disj id i2 k x2 hk hx2' (fun e => a2 e.symm) s1 hold s2 hs2
      · rcases hwr' s2 hs2 with h0 | hold
        · exact Or.inr (Or.inl h0)
        · exact hI.disj i1 id x1 k hx1' hk a1 s1 hs1 s2 hold
      · exact hI.disj i1 i2 x1 x2 hx1' hx2' hne s1 hs1 s2 hs2
    · intro i1 i2 x1 x2 hx1 hx2 s hs
      rcases lookup i1 x1 hx1 with ⟨a1, rfl⟩ | ⟨a1, hx1'⟩
      · exact Or.inl rfl
      · rcases lookup i2 x2 hx2 with ⟨a2, rfl⟩ | ⟨a2, hx2'⟩
        · rcases hwr' s hs with h0 | hold
          · exact Or.inr (Or.inl h0)
          · exact hI.verdisj i1 id x1 k hx1' hk s hold
        · exact hI.verdisj i1 i2 x1 x2 hx1' hx2' s hs
    · intro r i hreg
      rw [hregs] at hreg
      have := hI.regs r i hreg
      rw [hobjs, Array.set!_eq_setIfInBounds, Array.size_setIfInBounds]; exact this
    · intro i x hx hp
      rcases lookup i x hx with ⟨_, rfl⟩ | ⟨hi, hx'⟩
      · cases hp
      · obtain ⟨e1, e2⟩ := other i x hi hx'
        rw [e1, e2]
        exact hI.cache i x hx' hp
  · -- abstraction
    have hzk : Z.absKey k' = Bip32.zero (h.absKey k) := by
      have c1 := za k.chainCode (by simp [HKey.writable])
      have c2 := za k.parentFP (by simp [HKey.writable])
      have l1 := read_length h k.chainCode (hbk _ (by simp [HKey.writable]))
      have l2 := read_length h k.parentFP (hbk _ (by simp [HKey.writable]))
      have e1 : Z.absKey k' =
          { key := Z.read Slice.nil, chainCode := Z.read k.chainCode,
            parentFP := Z.read k.parentFP, version := Z.read Slice.nil,
            childNum := 0, depth := 0, isPrivate := false } := rfl
      have e2 : Bip32.zero (h.absKey k) =
          { key := [], chainCode := List.replicate (h.read k.chainCode).length 0,
            parentFP := List.replicate (h.read k.parentFP).length 0, version := [],
            childNum := 0, depth := 0, isPrivate := false } := rfl
      rw [e1, e2, c1, c2, l1, l2, read_nil_len _ _ rfl]
    unfold Heap.abs
    simp only []
    rw [hregs, hobjs]
    congr 1
    apply Array.ext_getElem?
    intro i
    rw [Array.getElem?_map, Array.set!_eq_setIfInBounds, Array.set!_eq_setIfInBounds,
      Array.getElem?_setIfInBounds, Array.getElem?_setIfInBounds, Array.size_map, Array.getElem?_map]
    by_cases hi : id = i
    · subst hi
      rw [if_pos rfl, if_pos rfl, if_pos hidlt, if_pos hidlt, Option.map_some, hzk]
    · rw [if_neg hi, if_neg hi]
      cases hx : h.objs[i]? with
      | none => rfl
      | some x =>
        simp only [Option.map_some]
        rw [(other i x (fun e => hi e.symm) hx).1]


/-! ### the constructors -/

/-- a version slice that may be given to a new record: the version slice of an existing record, nil,
or a slice of a network array -/
def GoodVersion (nets : List Net) (h : Heap) (v : Slice) : Prop :=
  (∃ (id : Nat) (k : HKey), h.objs[id]? = some k ∧ k.version = v) ∨ v.len = 0 ∨
    (v.arr < 2 * nets.length ∧ h.inBounds v)

theorem GoodVersion.facts {nets : List Net} {h : Heap} (hI : Inv nets h) {v : Slice} (g : GoodVersion nets h v) :
    h.inBounds v ∧ (v.len = 0 ∨ v.arr < h.mem.size) ∧
    (∀ (id2 : Nat) k2, h.objs[id2]? = some k2 → ∀ s ∈ k2.writable, v.disjoint s) := by
  rcases g with ⟨id, k, hk, rfl⟩ | h0 | ⟨hlt, hb⟩
  · have hb := hI.bounds id k hk k.version (by simp)
    refine ⟨hb, ?_, fun id2 k2 hk2 s hs => hI.verdisj id id2 k k2 hk hk2 s hs⟩
    by_cases v0 : k.version.len = 0
    · exact Or.inl v0
    · exact Or.inr (inBounds_arr_lt hb v0)
  · exact ⟨Or.inl h0, Or.inl h0, fun _ _ _ _ _ => Or.inl h0⟩
  · refine ⟨hb, Or.inr (Nat.lt_of_lt_of_le hlt hI.size), fun id2 k2 hk2 s hs => ?_⟩
    rcases hI.wr id2 k2 hk2 s hs with s0 | hge
    · exact Or.inr (Or.inl s0)
    · exact Or.inr (Or.inr (Or.inl (by omega)))

theorem push3_getElem? (m : Array Bytes) (a b c : Bytes) (i : Nat) (hi : i < m.size) :
    (((m.push a).push b).push c)[i]? = m[i]? := by
  rw [Array.getElem?_push, if_neg (by simp only [Array.size_push]; omega), Array.getElem?_push,
    if_neg (by simp only [Array.size_push]; omega), Array.getElem?_push, if_neg (by omega)]

theorem push3_arrAt (m : Array Bytes) (a b c : Bytes) (objs : Array HKey) (regs : Array (Option Nat)) :
    (Heap.mk (((m.push a).push b).push c) objs regs).arrAt m.size = a ∧
    (Heap.mk (((m.push a).push b).push c) objs regs).arrAt (m.size + 1) = b ∧
    (Heap.mk (((m.push a).push b).push c) objs regs).arrAt (m.size + 2) = c := by
  unfold Heap.arrAt
  simp only [Array.getD_eq_getD_getElem?]
  refine ⟨?_, ?_, ?_⟩
  · rw [Array.getElem?_push, if_neg (by simp only [Array.size_push]; omega), Array.getElem?_push,
      if_neg (by simp only [Array.size_push]; omega), Array.getElem?_push_size]; rfl
  · rw [Array.getElem?_push, if_neg (by simp only [Array.size_push]; omega), Array.getElem?_push,
      if_pos (by simp only [Array.size_push])]; rfl
  · rw [Array.getElem?_push, if_pos (by simp only [Array.size_push])]; rfl

/-- three fresh arrays `a, b, c` and a record with `key ⊆ a|b|c …`: the common shape of `Child`
and `Neuter` -/
theorem fresh3_spec {nets : List Net} {h : Heap} (hI : Inv nets h) (a b c : Bytes) (nk : HKey)
    (hv : GoodVersion nets h nk.version) (hc : nk.pubKey.len = 0)
    (hw : ∀ s ∈ nk.writable, s.len = 0 ∨
        (s.arr = h.mem.size ∧ s.off + s.len ≤ a.length) ∨
        (s.arr = h.mem.size + 1 ∧ s.off + s.len ≤ b.length) ∨
        (s.arr = h.mem.size + 2 ∧ s.off + s.len ≤ c.length)) :
    let h2 : Heap := { h with mem := ((h.mem.push a).push b).push c }
    Inv nets (h2.pushKey nk) ∧ (h2.pushKey nk).abs = h.abs.newObj (.ok (h2.absKey nk)) ∧ Ext h h2 := by
  intro h2
  have e : Ext h h2 := fun i hi => push3_getElem? h.mem a b c i hi
  obtain ⟨ea, eb, ec⟩ := push3_arrAt h.mem a b c h.objs h.regs
  have hsz : h2.mem.size = h.mem.size + 3 := by
    show (((h.mem.push a).push b).push c).size = _
    simp only [Array.size_push]
  obtain ⟨vb, vlt, vd⟩ := hv.facts hI
  refine ⟨?_, abs_pushKey hI e rfl rfl nk, e⟩
  apply Inv.pushKey hI e rfl rfl nk
  · intro s hs
    rcases hw s hs with h0 | ⟨h1, h2'⟩ | ⟨h1, h2'⟩ | ⟨h1, h2'⟩
    · exact Or.inl h0
    · exact Or.inr ⟨by omega, Or.inr ⟨by omega, by rw [h1]; show _ ≤ (h2.arrAt h.mem.size).length; rw [ea]; exact h2'⟩⟩
    · exact Or.inr ⟨by omega, Or.inr ⟨by omega, by rw [h1]; show _ ≤ (h2.arrAt (h.mem.size + 1)).length; rw [eb]; exact h2'⟩⟩
    · exact Or.inr ⟨by omega, Or.inr ⟨by omega, by rw [h1]; show _ ≤ (h2.arrAt (h.mem.size + 2)).length; rw [ec]; exact h2'⟩⟩
  · exact e.inBounds _ vb
  · intro s hs
    rcases vlt with v0 | vl
    · exact Or.inl v0
    · rcases hw s hs with h0 | ⟨h1, _⟩ | ⟨h1, _⟩ | ⟨h1, _⟩
      · exact Or.inr (Or.inl h0)
      · exact Or.inr (Or.inr (Or.inl (by omega)))
      · exact Or.inr (Or.inr (Or.inl (by omega)))
      · exact Or.inr (Or.inr (Or.inl (by omega)))
  · exact vd
  · exact hc


theorem read_mk (h : Heap) (a o n : Nat) : h.read ⟨a, o, n⟩ = ((h.arrAt a).drop o).take n := rfl

/-- `Child` (and the last `Child` of a path): the new record denotes `c` with the parent's version -/
theorem newChild_spec {nets : List Net} {h : Heap} (hI : Inv nets h) (v : Slice) (c : XKey)
    (hv : GoodVersion nets h v) :
    Inv nets (h.newChild v c) ∧
    (h.newChild v c).abs = h.abs.newObj (.ok { c with version := h.read v }) := by
  let nk : HKey := { key := ⟨h.mem.size + 1, 0, c.key.length⟩, pubKey := Slice.nil,
                     chainCode := ⟨h.mem.size, 32, c.chainCode.length⟩,
                     parentFP := ⟨h.mem.size + 2, 0, c.parentFP.length⟩, version := v,
                     childNum := c.childNum, depth := c.depth, isPrivate := c.isPrivate }
  have hw : ∀ s ∈ nk.writable, s.len = 0 ∨
        (s.arr = h.mem.size ∧ s.off + s.len ≤ (List.replicate 32 (0 : UInt8) ++ c.chainCode).length) ∨
        (s.arr = h.mem.size + 1 ∧ s.off + s.len ≤ c.key.length) ∨
        (s.arr = h.mem.size + 2 ∧ s.off + s.len ≤ (c.parentFP ++ List.replicate 16 (0 : UInt8)).length) := by
    intro s hs
    simp only [HKey.writable, List.mem_cons, List.not_mem_nil, or_false] at hs
    rcases hs with rfl | rfl | rfl | rfl
    · exact Or.inr (Or.inr (Or.inl ⟨rfl, by show 0 + c.key.length ≤ _; omega⟩))
    · exact Or.inl rfl
    · exact Or.inr (Or.inl ⟨rfl, by show 32 + c.chainCode.length ≤ _; rw [List.length_append, List.length_replicate]⟩)
    · exact Or.inr (Or.inr (Or.inr ⟨rfl, by show 0 + c.parentFP.length ≤ _; rw [List.length_append]; omega⟩))
  obtain ⟨h1, h2, e⟩ := fresh3_spec hI (List.replicate 32 0 ++ c.chainCode) c.key
    (c.parentFP ++ List.replicate 16 0) nk hv rfl hw
  refine ⟨h1, ?_⟩
  show (Heap.pushKey _ nk).abs = _
  rw [h2]
  congr 2
  obtain ⟨ea, eb, ec⟩ := push3_arrAt h.mem (List.replicate 32 0 ++ c.chainCode) c.key
    (c.parentFP ++ List.replicate 16 0) h.objs h.regs
  unfold Heap.absKey
  simp only [nk, read_mk, ea, eb, ec]
  have r1 : ((List.replicate 32 (0 : UInt8) ++ c.chainCode).drop 32).take c.chainCode.length = c.chainCode := by
    rw [List.drop_left' (by simp)]; simp
  have r2 : ((c.parentFP ++ List.replicate 16 (0 : UInt8)).drop 0).take c.parentFP.length = c.parentFP := by
    simp
  have r3 : (c.key.drop 0).take c.key.length = c.key := by simp
  rw [r1, r2, r3, e.read v (hv.facts hI).1]


/-- `Neuter` of a private key: three fresh copies -/
theorem newNeutered_spec {nets : List Net} {h : Heap} (hI : Inv nets h) (v : Slice) (c : XKey)
    (hv : GoodVersion nets h v) :
    Inv nets (h.newNeutered v c) ∧
    (h.newNeutered v c).abs = h.abs.newObj (.ok { c with version := h.read v }) := by
  let nk : HKey := { key := ⟨h.mem.size, 0, c.key.length⟩, pubKey := Slice.nil,
                     chainCode := ⟨h.mem.size + 1, 0, c.chainCode.length⟩,
                     parentFP := ⟨h.mem.size + 2, 0, c.parentFP.length⟩, version := v,
                     childNum := c.childNum, depth := c.depth, isPrivate := c.isPrivate }
  have hw : ∀ s ∈ nk.writable, s.len = 0 ∨
        (s.arr = h.mem.size ∧ s.off + s.len ≤ c.key.length) ∨
        (s.arr = h.mem.size + 1 ∧ s.off + s.len ≤ c.chainCode.length) ∨
        (s.arr = h.mem.size + 2 ∧ s.off + s.len ≤ c.parentFP.length) := by
    intro s hs
    simp only [HKey.writable, List.mem_cons, List.not_mem_nil, or_false] at hs
    rcases hs with rfl | rfl | rfl | rfl
    · exact Or.inr (Or.inl ⟨rfl, by show 0 + c.key.length ≤ _; omega⟩)
    · exact Or.inl rfl
    · exact Or.inr (Or.inr (Or.inl ⟨rfl, by show 0 + c.chainCode.length ≤ _; omega⟩))
    · exact Or.inr (Or.inr (Or.inr ⟨rfl, by show 0 + c.parentFP.length ≤ _; omega⟩))
  obtain ⟨h1, h2, e⟩ := fresh3_spec hI c.key c.chainCode c.parentFP nk hv rfl hw
  refine ⟨h1, ?_⟩
  show (Heap.pushKey _ nk).abs = _
  rw [h2]
  congr 2
  obtain ⟨ea, eb, ec⟩ := push3_arrAt h.mem c.key c.chainCode c.parentFP h.objs h.regs
  unfold Heap.absKey
  simp only [nk, read_mk, ea, eb, ec]
  have r1 : (c.chainCode.drop 0).take c.chainCode.length = c.chainCode := by simp
  have r2 : (c.parentFP.drop 0).take c.parentFP.length = c.parentFP := by simp
  have r3 : (c.key.drop 0).take c.key.length = c.key := by simp
  rw [r1, r2, r3, e.read v (hv.facts hI).1]

/-! ### network version slices -/

theorem netSlice_facts {nets : List Net} {h : Heap} (hI : Inv nets h) (n : Nat) (net : Net)
    (hn : nets[n]? = some net) :
    ((privSlice nets n).arr < 2 * nets.length ∧ h.inBounds (privSlice nets n)) ∧
    h.read (privSlice nets n) = net.hdPriv ∧
    ((pubSlice nets n).arr < 2 * nets.length ∧ h.inBounds (pubSlice nets n)) ∧
    h.read (pubSlice nets n) = net.hdPub := by
  have hlt : n < nets.length := by
    rcases List.getElem?_eq_some_iff.1 hn with ⟨hlt, _⟩; exact hlt
  obtain ⟨m1, m2⟩ := netMem_getElem? nets n
  rw [hn] at m1 m2
  have a1 : h.arrAt (2 * n) = net.hdPriv := by
    unfold Heap.arrAt; rw [Array.getD_eq_getD_getElem?, hI.netMem _ (by omega), m1]; rfl
  have a2 : h.arrAt (2 * n + 1) = net.hdPub := by
    unfold Heap.arrAt; rw [Array.getD_eq_getD_getElem?, hI.netMem _ (by omega), m2]; rfl
  have p1 : privSlice nets n = ⟨2 * n, 0, net.hdPriv.length⟩ := by unfold privSlice; rw [hn]; rfl
  have p2 : pubSlice nets n = ⟨2 * n + 1, 0, net.hdPub.length⟩ := by unfold pubSlice; rw [hn]; rfl
  have hs := hI.size
  have b1 : h.inBounds ⟨2 * n, 0, net.hdPriv.length⟩ :=
    Or.inr ⟨by show 2 * n < _; omega, by show 0 + net.hdPriv.length ≤ (h.arrAt (2 * n)).length; rw [a1]; omega⟩
  have b2 : h.inBounds ⟨2 * n + 1, 0, net.hdPub.length⟩ :=
    Or.inr ⟨by show 2 * n + 1 < _; omega, by show 0 + net.hdPub.length ≤ (h.arrAt (2 * n + 1)).length; rw [a2]; omega⟩
  rw [p1, p2]
  refine ⟨⟨by show 2 * n < _; omega, b1⟩, ?_, ⟨by show 2 * n + 1 < _; omega, b2⟩, ?_⟩
  · rw [read_mk, a1]; simp
  · rw [read_mk, a2]; simp

/-- `SetNet`: only the version slice of the receiver is repointed -/
theorem setNet_spec {nets : List Net} {h : Heap} (hI : Inv nets h) (id n : Nat) (k : HKey) (net : Net)
    (hk : h.objs[id]? = some k) (hn : nets[n]? = some net) :
    let k' : HKey := { k with version := if k.isPrivate then privSlice nets n else pubSlice nets n }
    let h' : Heap := { h with objs := h.objs.set! id k' }
    Inv nets h' ∧
    h'.abs = { objs := h.abs.objs.set! id (Bip32.setNet (h.absKey k) net.hdPriv net.hdPub), regs := h.abs.regs } := by
  intro k' h'
  obtain ⟨g1, r1, g2, r2⟩ := netSlice_facts hI n net hn
  have e : Ext h h' := ext_same_mem h _ _
  have gv : k'.version.arr < 2 * nets.length ∧ h.inBounds k'.version := by
    show (if k.isPrivate then privSlice nets n else pubSlice nets n).arr < _ ∧
      h.inBounds (if k.isPrivate then privSlice nets n else pubSlice nets n)
    cases k.isPrivate
    · exact g2
    · exact g1
  refine ⟨Inv.replace hI e id k k' hk rfl rfl rfl rfl rfl rfl (Or.inl rfl) (Or.inr (Or.inr gv)), ?_⟩
  rw [abs_replace hI e id k' rfl rfl]
  congr 2
  unfold Heap.absKey Bip32.setNet
  show ({ key := h.read k.key, chainCode := h.read k.chainCode, parentFP := h.read k.parentFP,
          version := h.read (if k.isPrivate then privSlice nets n else pubSlice nets n),
          childNum := k.childNum, depth := k.depth, isPrivate := k.isPrivate } : XKey) = _
  cases hp : k.isPrivate
  · simp only [Bool.false_eq_true, if_false, r2]
  · simp only [if_true, r1]


/-! ### NewKeyFromString and NewMaster -/

theorem take_drop_take {α} (d : List α) (t o n : Nat) (h : o + n ≤ t) :
    ((d.take t).drop o).take n = (d.drop o).take n := by
  apply List.ext_getElem?
  intro i
  simp only [List.getElem?_take, List.getElem?_drop]
  by_cases hi : i < n
  · rw [if_pos hi, if_pos hi, if_pos (by omega)]
  · rw [if_neg hi, if_neg hi]

theorem drop_take_drop {α} (d : List α) (o n j : Nat) (h : j ≤ n) :
    ((d.drop o).take n).drop j = (d.drop (o + j)).take (n - j) := by
  apply List.ext_getElem?
  intro i
  simp only [List.getElem?_take, List.getElem?_drop]
  by_cases hi : i < n - j
  · rw [if_pos hi, if_pos (by omega)]; congr 1; omega
  · rw [if_neg hi, if_neg (by omega)]

/-- `NewKeyFromString`: one fresh 82-byte array, five ranges of it -/
theorem newParsed_spec {nets : List Net} {h : Heap} (hI : Inv nets h) (d : Bytes) (c : XKey)
    (hd : d.length = 82) :
    Inv nets (h.newParsed d c) ∧
    (h.newParsed d c).abs = h.abs.newObj (.ok
      { key := if c.isPrivate then (d.drop 46).take 32 else (d.drop 45).take 33,
        chainCode := (d.drop 13).take 32, parentFP := (d.drop 5).take 4, version := (d.drop 0).take 4,
        childNum := c.childNum, depth := c.depth, isPrivate := c.isPrivate }) := by
  let nk : HKey := { key := if c.isPrivate then ⟨h.mem.size, 46, 32⟩ else ⟨h.mem.size, 45, 33⟩,
                     pubKey := Slice.nil, chainCode := ⟨h.mem.size, 13, 32⟩, parentFP := ⟨h.mem.size, 5, 4⟩,
                     version := ⟨h.mem.size, 0, 4⟩,
                     childNum := c.childNum, depth := c.depth, isPrivate := c.isPrivate }
  let h2 : Heap := { h with mem := h.mem.push d }
  have e : Ext h h2 := ext_push h d _ _
  have ea : h2.arrAt h.mem.size = d := arrAt_push_new h.mem d _ _
  have hsz : h2.mem.size = h.mem.size + 1 := by show (h.mem.push d).size = _; rw [Array.size_push]
  have ib : ∀ o n, o + n ≤ 82 → h2.inBounds ⟨h.mem.size, o, n⟩ := by
    intro o n hon
    exact Or.inr ⟨by show h.mem.size < h2.mem.size; omega,
      by show o + n ≤ (h2.arrAt h.mem.size).length; rw [ea, hd]; exact hon⟩
  have hkey : nk.key = ⟨h.mem.size, 46, 32⟩ ∨ nk.key = ⟨h.mem.size, 45, 33⟩ := by
    have : ∀ (b : Bool) (A B : Slice), (if b then A else B) = A ∨ (if b then A else B) = B := by
      intro b A B; cases b
      · exact Or.inr rfl
      · exact Or.inl rfl
    exact this c.isPrivate _ _
  have hw : ∀ s ∈ nk.writable, s.len = 0 ∨
      (s.arr = h.mem.size ∧ 5 ≤ s.off ∧ s.off + s.len ≤ 82) := by
    intro s hs
    simp only [HKey.writable, List.mem_cons, List.not_mem_nil, or_false] at hs
    rcases hs with rfl | rfl | rfl | rfl
    · rcases hkey with hk | hk <;> rw [hk]
      · exact Or.inr ⟨rfl, by show 5 ≤ 46; omega, by show 46 + 32 ≤ 82; omega⟩
      · exact Or.inr ⟨rfl, by show 5 ≤ 45; omega, by show 45 + 33 ≤ 82; omega⟩
    · exact Or.inl rfl
    · exact Or.inr ⟨rfl, by show 5 ≤ 13; omega, by show 13 + 32 ≤ 82; omega⟩
    · exact Or.inr ⟨rfl, by show 5 ≤ 5; omega, by show 5 + 4 ≤ 82; omega⟩
  have hinv : Inv nets (h2.pushKey nk) := by
    apply Inv.pushKey hI e rfl rfl nk
    · intro s hs
      rcases hw s hs with h0 | ⟨h1, _, h3⟩
      · exact Or.inl h0
      · refine Or.inr ⟨by omega, ?_⟩
        have := ib s.off s.len h3
        rw [← h1] at this
        exact this
    · exact ib 0 4 (by decide)
    · intro s hs
      rcases hw s hs with h0 | ⟨_, h2', _⟩
      · exact Or.inr (Or.inl h0)
      · exact Or.inr (Or.inr (Or.inr (Or.inl (by show 0 + 4 ≤ s.off; omega))))
    · intro id2 k2 hk2 s hs
      by_cases s0 : s.len = 0
      · exact Or.inr (Or.inl s0)
      · have := inBounds_arr_lt (hI.bounds id2 k2 hk2 s (List.mem_cons_of_mem _ hs)) s0
        exact Or.inr (Or.inr (Or.inl (by show h.mem.size ≠ s.arr; omega)))
    · rfl
  refine ⟨hinv, ?_⟩
  show (h2.pushKey nk).abs = _
  rw [abs_pushKey hI e rfl rfl nk]
  congr 2
  unfold Heap.absKey
  have rk : h2.read nk.key = if c.isPrivate then (d.drop 46).take 32 else (d.drop 45).take 33 := by
    show h2.read (if c.isPrivate then (⟨h.mem.size, 46, 32⟩ : Slice) else ⟨h.mem.size, 45, 33⟩) = _
    cases c.isPrivate
    · simp only [Bool.false_eq_true, if_false, read_mk, ea]
    · simp only [if_true, read_mk, ea]
  rw [rk]
  simp only [nk, read_mk, ea]

/-- the record that `newParsed_spec` yields is the key `NewKeyFromString` returns -/
theorem parsed_fields (pr : Prims) (s : Bytes) (c : XKey) (h : Bip32.fromString pr s = .ok c) :
    (Base58.decode s).length = 82 ∧
    c = { key := if c.isPrivate then ((Base58.decode s).drop 46).take 32 else ((Base58.decode s).drop 45).take 33,
          chainCode := ((Base58.decode s).drop 13).take 32, parentFP := ((Base58.decode s).drop 5).take 4,
          version := ((Base58.decode s).drop 0).take 4,
          childNum := c.childNum, depth := c.depth, isPrivate := c.isPrivate } := by
  obtain ⟨hl, _, hc⟩ := (Bip32.fromString_iff pr s c).1 h
  refine ⟨hl, ?_⟩
  generalize Base58.decode s = d at *
  have k1 : Bip32.keyField d = (d.drop 45).take 33 := by
    unfold Bip32.keyField; exact take_drop_take d 78 45 33 (by decide)
  have k2 : (Bip32.keyField d).drop 1 = (d.drop 46).take 32 := by
    rw [k1, drop_take_drop d 45 33 1 (by decide)]
  have f1 : ((d.take 78).drop 13).take 32 = (d.drop 13).take 32 := take_drop_take d 78 13 32 (by decide)
  have f2 : ((d.take 78).drop 5).take 4 = (d.drop 5).take 4 := take_drop_take d 78 5 4 (by decide)
  have f3 : (d.take 78).take 4 = (d.drop 0).take 4 := by
    have := take_drop_take d 78 0 4 (by decide)
    simpa using this
  rcases hc with ⟨_, _, _, rfl⟩ | ⟨_, _, rfl⟩
  · simp only [if_true, k2, f1, f2, f3]
  · simp only [Bool.false_eq_true, if_false, k1, f1, f2, f3]

theorem push2_arrAt (m : Array Bytes) (a b : Bytes) (objs : Array HKey) (regs : Array (Option Nat)) :
    (Heap.mk ((m.push a).push b) objs regs).arrAt m.size = a ∧
    (Heap.mk ((m.push a).push b) objs regs).arrAt (m.size + 1) = b := by
  unfold Heap.arrAt
  simp only [Array.getD_eq_getD_getElem?]
  refine ⟨?_, ?_⟩
  · rw [Array.getElem?_push, if_neg (by simp only [Array.size_push]; omega), Array.getElem?_push_size]; rfl
  · rw [Array.getElem?_push, if_pos (by simp only [Array.size_push])]; rfl

/-- `NewMaster`: key and chain code are the two halves of one fresh array -/
theorem newMaster_spec {nets : List Net} {h : Heap} (hI : Inv nets h) (n : Nat) (net : Net) (m : XKey)
    (hn : nets[n]? = some net) :
    Inv nets (h.newMaster nets n m) ∧
    (h.newMaster nets n m).abs = h.abs.newObj (.ok { m with version := net.hdPriv }) := by
  let nk : HKey := { key := ⟨h.mem.size, 0, m.key.length⟩, pubKey := Slice.nil,
                     chainCode := ⟨h.mem.size, m.key.length, m.chainCode.length⟩,
                     parentFP := ⟨h.mem.size + 1, 0, m.parentFP.length⟩, version := privSlice nets n,
                     childNum := m.childNum, depth := m.depth, isPrivate := m.isPrivate }
  let h2 : Heap := { h with mem := (h.mem.push (m.key ++ m.chainCode)).push m.parentFP }
  have e : Ext h h2 := by
    intro i hi
    show ((h.mem.push (m.key ++ m.chainCode)).push m.parentFP)[i]? = _
    rw [Array.getElem?_push, if_neg (by simp only [Array.size_push]; omega), Array.getElem?_push,
      if_neg (by omega)]
  have ea : h2.arrAt h.mem.size = m.key ++ m.chainCode :=
    (push2_arrAt h.mem (m.key ++ m.chainCode) m.parentFP h.objs h.regs).1
  have eb : h2.arrAt (h.mem.size + 1) = m.parentFP :=
    (push2_arrAt h.mem (m.key ++ m.chainCode) m.parentFP h.objs h.regs).2
  have hsz : h2.mem.size = h.mem.size + 2 := by
    show ((h.mem.push (m.key ++ m.chainCode)).push m.parentFP).size = _
    simp only [Array.size_push]
  obtain ⟨g1, r1, _, _⟩ := netSlice_facts hI n net hn
  have gv : GoodVersion nets h (privSlice nets n) := Or.inr (Or.inr g1)
  obtain ⟨vb, vlt, vd⟩ := gv.facts hI
  have hw : ∀ s ∈ nk.writable, s.len = 0 ∨ (h.mem.size ≤ s.arr ∧ h2.inBounds s) := by
    intro s hs
    simp only [HKey.writable, List.mem_cons, List.not_mem_nil, or_false] at hs
    rcases hs with rfl | rfl | rfl | rfl
    · exact Or.inr ⟨Nat.le_refl _, Or.inr ⟨by show h.mem.size < h2.mem.size; omega,
        by show 0 + m.key.length ≤ (h2.arrAt h.mem.size).length; rw [ea, List.length_append]; omega⟩⟩
    · exact Or.inl rfl
    · exact Or.inr ⟨Nat.le_refl _, Or.inr ⟨by show h.mem.size < h2.mem.size; omega,
        Nat.le_of_eq (by show m.key.length + m.chainCode.length = (h2.arrAt h.mem.size).length; rw [ea, List.length_append])⟩⟩
    · exact Or.inr ⟨by show h.mem.size ≤ h.mem.size + 1; omega, Or.inr ⟨by show h.mem.size + 1 < h2.mem.size; omega,
        by show 0 + m.parentFP.length ≤ (h2.arrAt (h.mem.size + 1)).length; rw [eb]; omega⟩⟩
  have hinv : Inv nets (h2.pushKey nk) := by
    apply Inv.pushKey hI e rfl rfl nk hw (e.inBounds _ vb)
    · intro s hs
      rcases vlt with v0 | vl
      · exact Or.inl v0
      · rcases hw s hs with h0 | ⟨hge, _⟩
        · exact Or.inr (Or.inl h0)
        · exact Or.inr (Or.inr (Or.inl (by show (privSlice nets n).arr ≠ s.arr; omega)))
    · exact vd
    · rfl
  refine ⟨hinv, ?_⟩
  show (h2.pushKey nk).abs = _
  rw [abs_pushKey hI e rfl rfl nk]
  congr 2
  unfold Heap.absKey
  simp only [nk, read_mk, ea, eb]
  have q1 : ((m.key ++ m.chainCode).drop 0).take m.key.length = m.key := by simp
  have q2 : ((m.key ++ m.chainCode).drop m.key.length).take m.chainCode.length = m.chainCode := by simp
  have q3 : (m.parentFP.drop 0).take m.parentFP.length = m.parentFP := by simp
  rw [q1, q2, q3, e.read _ vb, r1]


/-! ### refinement: one step -/

/-- `pubKeyBytes()` possibly called -/
theorem cacheIf_spec {nets : List Net} {h : Heap} (hI : Inv nets h) (id : Nat) (b : Bool) :
    let h1 := if b then h.cachePub id else h
    Inv nets h1 ∧ Ext h h1 ∧ h1.abs = h.abs ∧ h1.regs = h.regs ∧
    (∀ (i : Nat) x, h.objs[i]? = some x → ∃ x', h1.objs[i]? = some x' ∧ x'.version = x.version) := by
  cases b
  · exact ⟨hI, Ext.refl h, rfl, rfl, fun i x hx => ⟨x, hx, rfl⟩⟩
  · obtain ⟨a, b, c, d, _, f⟩ := cachePub_spec hI id
    exact ⟨a, b, c, d, f⟩

theorem newObj_error (st : State) (e : Err) : st.newObj (.error e) = st.fail := rfl

/-- the common tail of `Child` and of a non-empty path: allocate the result `res` (computed from the
receiver's value, version inherited) after a possible cache fill -/
theorem derive_spec {nets : List Net} {h : Heap} (hI : Inv nets h) (id : Nat) (k : HKey)
    (hk : h.objs[id]? = some k) (b : Bool) :
    let h1 := if b then h.cachePub id else h
    (∀ e : Err, Inv nets h1.fail ∧ h1.fail.abs = h.abs.newObj (.error e)) ∧
    (∀ c : XKey, c.version = (h.absKey k).version →
      Inv nets (h1.newChild k.version c) ∧ (h1.newChild k.version c).abs = h.abs.newObj (.ok c)) := by
  intro h1
  obtain ⟨i1, e1, a1, r1, v1⟩ := cacheIf_spec hI id b
  constructor
  · intro e
    rw [abs_fail]
    show Inv nets h1.fail ∧ h1.abs.fail = _
    rw [a1]
    exact ⟨i1.fail, rfl⟩
  · intro c hver
    obtain ⟨x', hx', hv'⟩ := v1 id k hk
    have gv : GoodVersion nets h1 k.version := Or.inl ⟨id, x', hx', hv'⟩
    obtain ⟨i2, a2⟩ := newChild_spec i1 k.version c gv
    refine ⟨i2, ?_⟩
    rw [a2]
    show h1.abs.newObj _ = _
    rw [a1]
    have : h1.read k.version = c.version := by
      rw [e1.read _ (hI.bounds id k hk _ (by simp)), hver]; rfl
    rw [this]

theorem derivePathAux_version (pr : Prims) (cs : List Bytes) (k c : XKey)
    (h : Bip32.derivePathAux pr k cs = .ok c) : c.version = k.version := by
  induction cs generalizing k with
  | nil => simp only [Bip32.derivePathAux] at h; injection h with h; rw [h]
  | cons x xs ih =>
    simp only [Bip32.derivePathAux] at h
    split at h
    · cases h
    · split at h
      · cases h
      · rename_i k' hk'
        rw [ih k' h, Bip32.child_version pr k k' _ hk']

theorem deriveChildFromPath_version (pr : Prims) (p : Bytes) (k c : XKey)
    (h : Bip32.deriveChildFromPath pr k p = .ok c) : c.version = k.version := by
  unfold Bip32.deriveChildFromPath at h
  split at h
  · injection h with h; rw [h]
  · exact derivePathAux_version pr _ k c h

/-- the registry lookup of the value level and the array the heap level points at agree -/
theorem lookup_slice {nets : List Net} {h : Heap} (hI : Inv nets h) (v w : Bytes)
    (hl : Registry.lookup (nets.map fun n => (n.hdPriv, n.hdPub)) v = some w) :
    GoodVersion nets h (lookupPubSlice nets v) ∧ h.read (lookupPubSlice nets v) = w := by
  unfold Registry.lookup at hl
  split at hl
  · cases hl
  · have key : ∀ (ns : List Net), ((ns.map fun n => (n.hdPriv, n.hdPub)).find? (·.1 == v)).map (·.2) = some w →
        ∃ n net, ns.findIdx? (fun n => n.hdPriv == v) = some n ∧ ns[n]? = some net ∧ net.hdPub = w := by
      intro ns
      induction ns with
      | nil => intro hh; cases hh
      | cons x xs ih =>
        intro hh
        rw [List.map_cons, List.find?_cons] at hh
        rw [List.findIdx?_cons]
        by_cases hx : (x.hdPriv == v) = true
        · simp only [hx, Option.map_some, Option.some.injEq] at hh
          rw [if_pos hx]
          exact ⟨0, x, rfl, rfl, hh⟩
        · have hx' : (x.hdPriv == v) = false := by simpa using hx
          simp only [hx'] at hh
          obtain ⟨n, net, f1, f2, f3⟩ := ih hh
          rw [if_neg hx, f1]
          exact ⟨n + 1, net, rfl, by simpa using f2, f3⟩
    obtain ⟨n, net, f1, f2, f3⟩ := key nets hl
    unfold lookupPubSlice
    rw [f1]
    obtain ⟨_, _, g2, r2⟩ := netSlice_facts hI n net f2
    exact ⟨Or.inr (Or.inr g2), r2.trans f3⟩

theorem hstep_child {nets : List Net} {h : Heap} (pr : Prims) (hI : Inv nets h) (r i : Nat) :
    (hstep pr nets h (.child r i)).map Heap.abs = step pr nets h.abs (.child r i) ∧
    ∀ h', hstep pr nets h (.child r i) = some h' → Inv nets h' := by
  simp only [hstep, step]
  have hrs : h.abs.regs.size = h.regs.size := rfl
  rw [hrs]
  by_cases hr : r ≥ h.regs.size
  · rw [if_pos hr, if_pos hr]; exact ⟨rfl, fun _ hh => by cases hh⟩
  · rw [if_neg hr, if_neg hr, abs_get]
    cases hg : h.get r with
    | none => exact ⟨rfl, fun h' hh => by injection hh with hh; rw [← hh]; exact hI.fail⟩
    | some p =>
      obtain ⟨id, k⟩ := p
      simp only [Option.map_some]
      obtain ⟨_, hk⟩ := hget_some hg
      obtain ⟨d1, d2⟩ := derive_spec hI id k hk (cacheCond pr (h.absKey k) i)
      cases hres : Bip32.child pr (h.absKey k) i with
      | error e =>
        obtain ⟨x1, x2⟩ := d1 e
        exact ⟨by simp only [Option.map_some]; rw [x2],
          fun h' hh => by injection hh with hh; rw [← hh]; exact x1⟩
      | ok c =>
        obtain ⟨x1, x2⟩ := d2 c (Bip32.child_version pr _ c i hres)
        exact ⟨by simp only [Option.map_some]; rw [x2],
          fun h' hh => by injection hh with hh; rw [← hh]; exact x1⟩


theorem hstep_path {nets : List Net} {h : Heap} (pr : Prims) (hI : Inv nets h) (r : Nat) (p : Bytes) :
    (hstep pr nets h (.path r p)).map Heap.abs = step pr nets h.abs (.path r p) ∧
    ∀ h', hstep pr nets h (.path r p) = some h' → Inv nets h' := by
  simp only [hstep, step]
  have hrs : h.abs.regs.size = h.regs.size := rfl
  rw [hrs]
  by_cases hr : r ≥ h.regs.size
  · rw [if_pos hr, if_pos hr]; exact ⟨rfl, fun _ hh => by cases hh⟩
  · rw [if_neg hr, if_neg hr, abs_get]
    cases hg : h.get r with
    | none => exact ⟨rfl, fun h' hh => by injection hh with hh; rw [← hh]; exact hI.fail⟩
    | some q =>
      obtain ⟨id, k⟩ := q
      simp only [Option.map_some]
      obtain ⟨hreg, hk⟩ := hget_some hg
      have hidlt : id < h.objs.size := hI.regs r id hreg
      by_cases hp : p.isEmpty = true
      · rw [if_pos hp, if_pos hp]
        exact ⟨rfl, fun h' hh => by injection hh with hh; rw [← hh]; exact hI.alias id hidlt⟩
      · rw [if_neg hp, if_neg hp]
        have main : ∀ b : Bool,
            (Option.map Heap.abs
              (match Bip32.deriveChildFromPath pr (h.absKey k) p with
                | .error _ => some (if b then h.cachePub id else h).fail
                | .ok c => some ((if b then h.cachePub id else h).newChild k.version c)) =
              some (h.abs.newObj (Bip32.deriveChildFromPath pr (h.absKey k) p))) ∧
            ∀ h', (match Bip32.deriveChildFromPath pr (h.absKey k) p with
                | .error _ => some (if b then h.cachePub id else h).fail
                | .ok c => some ((if b then h.cachePub id else h).newChild k.version c)) = some h' →
              Inv nets h' := by
          intro b
          obtain ⟨d1, d2⟩ := derive_spec hI id k hk b
          cases hres : Bip32.deriveChildFromPath pr (h.absKey k) p with
          | error e =>
            obtain ⟨x1, x2⟩ := d1 e
            exact ⟨by simp only [Option.map_some]; rw [x2],
              fun h' hh => by injection hh with hh; rw [← hh]; exact x1⟩
          | ok c =>
            obtain ⟨x1, x2⟩ := d2 c (deriveChildFromPath_version pr p _ c hres)
            exact ⟨by simp only [Option.map_some]; rw [x2],
              fun h' hh => by injection hh with hh; rw [← hh]; exact x1⟩
        cases hq : (Bip32.splitOn 47 p).head? >>= Bip32.childIndex with
        | none => exact main false
        | some i => exact main (cacheCond pr (h.absKey k) i)

theorem hstep_neuter {nets : List Net} {h : Heap} (pr : Prims) (hI : Inv nets h) (r : Nat) :
    (hstep pr nets h (.neuter r)).map Heap.abs = step pr nets h.abs (.neuter r) ∧
    ∀ h', hstep pr nets h (.neuter r) = some h' → Inv nets h' := by
  simp only [hstep, step]
  have hrs : h.abs.regs.size = h.regs.size := rfl
  rw [hrs]
  by_cases hr : r ≥ h.regs.size
  · rw [if_pos hr, if_pos hr]; exact ⟨rfl, fun _ hh => by cases hh⟩
  · rw [if_neg hr, if_neg hr, abs_get]
    cases hg : h.get r with
    | none => exact ⟨rfl, fun h' hh => by injection hh with hh; rw [← hh]; exact hI.fail⟩
    | some q =>
      obtain ⟨id, k⟩ := q
      simp only [Option.map_some]
      obtain ⟨hreg, hk⟩ := hget_some hg
      have hidlt : id < h.objs.size := hI.regs r id hreg
      have hpe : (h.absKey k).isPrivate = k.isPrivate := rfl
      rw [hpe]
      cases hp : k.isPrivate
      · simp only [Bool.not_false, if_true]
        exact ⟨rfl, fun h' hh => by injection hh with hh; rw [← hh]; exact hI.alias id hidlt⟩
      · simp only [Bool.not_true, Bool.false_eq_true, if_false]
        cases hres : Bip32.neuter (nets.map fun n => (n.hdPriv, n.hdPub)) (h.absKey k) with
        | error e =>
          exact ⟨rfl, fun h' hh => by injection hh with hh; rw [← hh]; exact hI.fail⟩
        | ok c =>
          simp only [Option.map_some]
          obtain ⟨i1, e1, a1, _, _, _⟩ := cachePub_spec hI id
          have hl := (Bip32.neuter_priv _ (h.absKey k) c (hpe.trans hp) hres).1
          obtain ⟨gv, rv⟩ := lookup_slice i1 _ _ hl
          obtain ⟨i2, a2⟩ := newNeutered_spec i1 (lookupPubSlice nets (h.absKey k).version) c gv
          refine ⟨?_, fun h' hh => by injection hh with hh; rw [← hh]; exact i2⟩
          rw [a2, a1, rv]

theorem hstep_reparse {nets : List Net} {h : Heap} (pr : Prims) (hI : Inv nets h) (r : Nat) :
    (hstep pr nets h (.reparse r)).map Heap.abs = step pr nets h.abs (.reparse r) ∧
    ∀ h', hstep pr nets h (.reparse r) = some h' → Inv nets h' := by
  simp only [hstep, step]
  have hrs : h.abs.regs.size = h.regs.size := rfl
  rw [hrs]
  by_cases hr : r ≥ h.regs.size
  · rw [if_pos hr, if_pos hr]; exact ⟨rfl, fun _ hh => by cases hh⟩
  · rw [if_neg hr, if_neg hr, abs_get]
    cases hg : h.get r with
    | none => exact ⟨rfl, fun h' hh => by injection hh with hh; rw [← hh]; exact hI.fail⟩
    | some q =>
      obtain ⟨id, k⟩ := q
      simp only [Option.map_some]
      cases hres : Bip32.fromString pr (Bip32.toString pr (h.absKey k)) with
      | error e =>
        exact ⟨rfl, fun h' hh => by injection hh with hh; rw [← hh]; exact hI.fail⟩
      | ok c =>
        simp only [Option.map_some]
        obtain ⟨hl, hc⟩ := parsed_fields pr _ c hres
        obtain ⟨i2, a2⟩ := newParsed_spec hI (Base58.decode (Bip32.toString pr (h.absKey k))) c hl
        refine ⟨?_, fun h' hh => by injection hh with hh; rw [← hh]; exact i2⟩
        rw [a2, ← hc]

theorem hstep_setNet {nets : List Net} {h : Heap} (pr : Prims) (hI : Inv nets h) (r n : Nat) :
    (hstep pr nets h (.setNet r n)).map Heap.abs = step pr nets h.abs (.setNet r n) ∧
    ∀ h', hstep pr nets h (.setNet r n) = some h' → Inv nets h' := by
  simp only [hstep, step]
  have hrs : h.abs.regs.size = h.regs.size := rfl
  rw [hrs]
  by_cases hr : r ≥ h.regs.size
  · rw [if_pos hr, if_pos hr]; exact ⟨rfl, fun _ hh => by cases hh⟩
  · rw [if_neg hr, if_neg hr]
    cases hn : nets[n]? with
    | none => exact ⟨rfl, fun _ hh => by cases hh⟩
    | some net =>
      simp only []
      rw [abs_get]
      cases hg : h.get r with
      | none => exact ⟨rfl, fun h' hh => by injection hh with hh; rw [← hh]; exact hI⟩
      | some q =>
        obtain ⟨id, k⟩ := q
        simp only [Option.map_some]
        obtain ⟨_, hk⟩ := hget_some hg
        obtain ⟨i2, a2⟩ := setNet_spec hI id n k net hk hn
        exact ⟨by rw [a2], fun h' hh => by injection hh with hh; rw [← hh]; exact i2⟩

theorem hstep_zero {nets : List Net} {h : Heap} (pr : Prims) (hI : Inv nets h) (r : Nat) :
    (hstep pr nets h (.zero r)).map Heap.abs = step pr nets h.abs (.zero r) ∧
    ∀ h', hstep pr nets h (.zero r) = some h' → Inv nets h' := by
  simp only [hstep, step]
  have hrs : h.abs.regs.size = h.regs.size := rfl
  rw [hrs]
  by_cases hr : r ≥ h.regs.size
  · rw [if_pos hr, if_pos hr]; exact ⟨rfl, fun _ hh => by cases hh⟩
  · rw [if_neg hr, if_neg hr, abs_get]
    cases hg : h.get r with
    | none => exact ⟨rfl, fun h' hh => by injection hh with hh; rw [← hh]; exact hI⟩
    | some q =>
      obtain ⟨id, k⟩ := q
      simp only [Option.map_some]
      obtain ⟨_, hk⟩ := hget_some hg
      obtain ⟨i2, a2⟩ := zeroHeap_spec hI id k hk
      have hz : zeroHeap h id k = _ := rfl
      exact ⟨by show some (zeroHeap h id k).abs = _; rw [a2],
        fun h' hh => by injection hh with hh; rw [← hh]; exact i2⟩

/-- **refinement + invariance, one step**: under `Inv`, a heap step is the value-level step on the
abstraction, and `Inv` is preserved -/
theorem hstep_refines {nets : List Net} {h : Heap} (pr : Prims) (hI : Inv nets h) (op : Op) :
    (hstep pr nets h op).map Heap.abs = step pr nets h.abs op ∧
    ∀ h', hstep pr nets h op = some h' → Inv nets h' := by
  cases op with
  | child r i => exact hstep_child pr hI r i
  | neuter r => exact hstep_neuter pr hI r
  | path r p => exact hstep_path pr hI r p
  | reparse r => exact hstep_reparse pr hI r
  | setNet r n => exact hstep_setNet pr hI r n
  | zero r => exact hstep_zero pr hI r

theorem hrun_refines {nets : List Net} (pr : Prims) (ops : List Op) (h : Heap) (hI : Inv nets h) :
    (hrun pr nets h ops).map Heap.abs = run pr nets h.abs ops ∧
    ∀ h', hrun pr nets h ops = some h' → Inv nets h' := by
  induction ops generalizing h with
  | nil => exact ⟨rfl, fun h' hh => by injection hh with hh; rw [← hh]; exact hI⟩
  | cons op ops ih =>
    obtain ⟨s1, s2⟩ := hstep_refines pr hI op
    simp only [hrun, run]
    cases hs : hstep pr nets h op with
    | none =>
      rw [hs] at s1
      rw [← s1]; exact ⟨rfl, fun _ hh => by cases hh⟩
    | some h1 =>
      rw [hs] at s1
      rw [← s1]
      exact ih h1 (s2 h1 hs)

/-! ### initial heaps -/

theorem abs_hempty (nets : List Net) : (hempty nets).abs = {} := by
  unfold Heap.abs hempty; simp

theorem hinitSeed_spec (pr : Prims) (nets : List Net) (seed : Bytes) (n : Nat) (net : Net)
    (hn : nets[n]? = some net) :
    ∃ h0, hinitSeed pr nets seed n = some h0 ∧ Inv nets h0 ∧
      h0.abs = State.newObj {} (Bip32.newMaster pr seed net.hdPriv) := by
  unfold hinitSeed
  rw [hn]
  simp only []
  cases hm : Bip32.newMaster pr seed net.hdPriv with
  | error e => exact ⟨_, rfl, (inv_hempty nets).fail, by rw [abs_fail, abs_hempty]; rfl⟩
  | ok m =>
    obtain ⟨i2, a2⟩ := newMaster_spec (inv_hempty nets) n net m hn
    refine ⟨_, rfl, i2, ?_⟩
    rw [a2, abs_hempty]
    have : m.version = net.hdPriv := by
      unfold Bip32.newMaster at hm
      split at hm
      · cases hm
      · simp only [] at hm
        split at hm
        · cases hm
        · injection hm with hm; rw [← hm]
    rw [← this]

theorem hinitStr_spec (pr : Prims) (nets : List Net) (s : Bytes) :
    Inv nets (hinitStr pr nets s) ∧ (hinitStr pr nets s).abs = State.newObj {} (Bip32.fromString pr s) := by
  unfold hinitStr
  cases hm : Bip32.fromString pr s with
  | error e => exact ⟨(inv_hempty nets).fail, by show (hempty nets).fail.abs = _; rw [abs_fail, abs_hempty]; rfl⟩
  | ok c =>
    obtain ⟨hl, hc⟩ := parsed_fields pr s c hm
    obtain ⟨i2, a2⟩ := newParsed_spec (inv_hempty nets) (Base58.decode s) c hl
    refine ⟨i2, ?_⟩
    simp only []
    rw [a2, abs_hempty, ← hc]


end GoBk.XKeyHeap

#print axioms GoBk.Bip32.fromString_toString
#print axioms GoBk.Bip32.neuter_child_comm
#print axioms GoBk.Bip32.child_priv_eq
#print axioms GoBk.Bip32.child_pub_eq
#print axioms GoBk.Bip32.valid_coords_ne_zero
#print axioms GoBk.XKeyHeap.hstep_refines
#print axioms GoBk.XKeyHeap.hrun_refines
