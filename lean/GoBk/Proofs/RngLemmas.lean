import GoBk.Model.Envelope
import GoBk.Proofs.EciesLemmas
import GoBk.Proofs.EnvelopeLemmas
/-
  Lemmas for C19: the consumers of the random tape (`GoBk.Rng`, `Ecies.encrypt`, `Ecies.cfbEncrypt`,
  `Envelope.newEnvelope`) return exactly what they read, each call consumes a non-empty prefix of the
  tape, and therefore a tape whose multi-byte reads are pairwise distinct yields pairwise distinct
  random fields over any sequence of calls.

  Definitions used by the statements of Props/C19 (`reads`, `multiReads`, `TapeDistinct`, `Call`,
  `Output`, `step`, `runCalls`, `Field`, `fields`, `rawFields`, `drawn`) are in this file.
-/
namespace GoBk.Proofs.RngL
open GoBk Bytes Spec Rng GoBk.Proofs GoBk.Proofs.KeyBytes GoBk.Proofs.EciesL GoBk.Proofs.EnvelopeL

/-! ### `io.ReadFull` -/

theorem readFull_iff {n : Nat} {t t' : Tape} {b : Bytes} :
    readFull n t = some (b, t') ↔ t = some b :: t' ∧ b.length = n := by
  constructor
  · exact readFull_some
  · rintro ⟨rfl, rfl⟩; simp [readFull]

theorem readFull_cons (b : Bytes) (t : Tape) : readFull b.length (some b :: t) = some (b, t) :=
  readFull_iff.2 ⟨rfl, rfl⟩

theorem readFull_nil (n : Nat) : readFull n [] = none := rfl
theorem readFull_cons_none (n : Nat) (t : Tape) : readFull n (none :: t) = none := rfl

theorem readFull_cons_ne {n : Nat} {b : Bytes} (t : Tape) (h : b.length ≠ n) :
    readFull n (some b :: t) = none := by
  simp [readFull, h]

/-- a read fails iff the tape is exhausted, the next read fails, or it has another length
(the last case does not arise for tapes recorded from a real run) -/
theorem readFull_none_iff {n : Nat} {t : Tape} :
    readFull n t = none ↔
      t = [] ∨ (∃ r, t = none :: r) ∨ ∃ b r, t = some b :: r ∧ b.length ≠ n := by
  cases t with
  | nil => simp [readFull]
  | cons x r =>
    cases x with
    | none => simp [readFull]
    | some b =>
      by_cases h : b.length = n
      · subst h; simp [readFull]
      · simp [readFull, h]

/-! ### the successful multi-byte reads of a tape -/

/-- the successful reads, in order -/
def reads (t : Tape) : List Bytes := t.filterMap id

/-- the successful reads of at least two bytes -/
def multiReads (t : Tape) : List Bytes := (reads t).filter (fun b => decide (2 ≤ b.length))

/-- all successful multi-byte reads of the tape are pairwise distinct byte strings -/
def TapeDistinct (t : Tape) : Prop := (multiReads t).Nodup

instance (t : Tape) : Decidable (TapeDistinct t) := by unfold TapeDistinct; infer_instance

theorem multiReads_append (a b : Tape) : multiReads (a ++ b) = multiReads a ++ multiReads b := by
  simp [multiReads, reads, List.filterMap_append]

theorem multiReads_cons_some (b : Bytes) (t : Tape) (h : 2 ≤ b.length) :
    multiReads (some b :: t) = b :: multiReads t := by
  simp [multiReads, reads, h]

theorem multiReads_suffix {t' t : Tape} (h : t' <:+ t) : (multiReads t').Sublist (multiReads t) := by
  obtain ⟨pre, rfl⟩ := h
  rw [multiReads_append]
  exact List.sublist_append_right _ _

theorem mem_multiReads {b : Bytes} {t : Tape} : b ∈ multiReads t ↔ some b ∈ t ∧ 2 ≤ b.length := by
  simp [multiReads, reads]

theorem TapeDistinct.suffix {t' t : Tape} (h : TapeDistinct t) (hs : t' <:+ t) : TapeDistinct t' :=
  List.Nodup.sublist (multiReads_suffix hs) h

/-! ### `MaybeReadByte` and `randFieldElement` -/

theorem skipMaybeByte_split (t : Tape) :
    ∃ pre, t = pre ++ skipMaybeByte t ∧ (pre = [] ∨ ∃ b, pre = [some b] ∧ b.length = 1) := by
  unfold skipMaybeByte
  split
  · rename_i b rest
    split
    · rename_i h
      exact ⟨[some b], rfl, Or.inr ⟨b, rfl, by simpa using h⟩⟩
    · exact ⟨[], rfl, Or.inl rfl⟩
  · exact ⟨[], rfl, Or.inl rfl⟩
  · exact ⟨[], rfl, Or.inl rfl⟩

/-- a 32-byte read that `randFieldElement` rejects: value 0 or ≥ N -/
def Rejected (x : Option Bytes) : Prop :=
  ∃ b, x = some b ∧ b.length = 32 ∧ ¬ (1 ≤ beNat b ∧ beNat b < N)

theorem genKeyLoop_split : ∀ (fuel : Nat) (t t' : Tape) (k : Nat),
    genKeyLoop fuel t = some (k, t') →
      ∃ pre b, t = pre ++ some b :: t' ∧ b.length = 32 ∧ k = beNat b ∧ 1 ≤ k ∧ k < N ∧
        ∀ x ∈ pre, Rejected x := by
  intro fuel
  induction fuel with
  | zero => intro t t' k h; cases h
  | succ f ih =>
    intro t t' k h
    unfold genKeyLoop at h
    split at h
    · cases h
    · rename_i b rest hr
      obtain ⟨rfl, hl⟩ := readFull_some hr
      dsimp only at h
      split at h
      · rename_i hc
        simp only [Option.some.injEq, Prod.mk.injEq] at h
        obtain ⟨rfl, rfl⟩ := h
        simp only [Bool.and_eq_true, bne_iff_ne, ne_eq, decide_eq_true_eq, c_N_eq] at hc
        exact ⟨[], b, rfl, hl, rfl, by omega, hc.2, by simp⟩
      · rename_i hc
        simp only [Bool.and_eq_true, bne_iff_ne, ne_eq, decide_eq_true_eq, c_N_eq] at hc
        obtain ⟨pre, b', e, hl', hk, h1, h2, hrej⟩ := ih _ _ _ h
        refine ⟨some b :: pre, b', by rw [e]; rfl, hl', hk, h1, h2, ?_⟩
        intro x hx
        rcases List.mem_cons.1 hx with rfl | hx
        · exact ⟨b, rfl, hl, fun hh => hc ⟨by omega, hh.2⟩⟩
        · exact hrej x hx

/-- the loop fails only when a read fails: never by running out of fuel (given `t.length < fuel`) and
never with a default value -/
theorem genKeyLoop_none : ∀ (fuel : Nat) (t : Tape), t.length < fuel → genKeyLoop fuel t = none →
    ∃ pre rest, t = pre ++ rest ∧ (∀ x ∈ pre, Rejected x) ∧ readFull 32 rest = none := by
  intro fuel
  induction fuel with
  | zero => intro t h; omega
  | succ f ih =>
    intro t hf h
    unfold genKeyLoop at h
    split at h
    · rename_i hr
      exact ⟨[], t, rfl, by simp, hr⟩
    · rename_i b rest hr
      obtain ⟨rfl, hl⟩ := readFull_some hr
      dsimp only at h
      split at h
      · cases h
      · rename_i hc
        simp only [Bool.and_eq_true, bne_iff_ne, ne_eq, decide_eq_true_eq, c_N_eq] at hc
        obtain ⟨pre, rest', e, hrej, hr'⟩ := ih rest (by simp at hf; omega) h
        refine ⟨some b :: pre, rest', by rw [e]; rfl, ?_, hr'⟩
        intro x hx
        rcases List.mem_cons.1 hx with rfl | hx
        · exact ⟨b, rfl, hl, fun hh => hc ⟨by omega, hh.2⟩⟩
        · exact hrej x hx

theorem genKeyLoop_of_split : ∀ (pre : Tape) (fuel : Nat) (b : Bytes) (t' : Tape),
    pre.length < fuel → (∀ x ∈ pre, Rejected x) → b.length = 32 → 1 ≤ beNat b → beNat b < N →
    genKeyLoop fuel (pre ++ some b :: t') = some (beNat b, t') := by
  intro pre
  induction pre with
  | nil =>
    intro fuel b t' hf _ hl h1 h2
    obtain ⟨f, rfl⟩ : ∃ f, fuel = f + 1 := ⟨fuel - 1, by simp at hf; omega⟩
    unfold genKeyLoop
    rw [List.nil_append, ← hl, readFull_cons]
    have : (beNat b != 0 && decide (beNat b < Gen.c_N)) = true := by
      simp only [Bool.and_eq_true, bne_iff_ne, ne_eq, decide_eq_true_eq, c_N_eq]
      exact ⟨by omega, h2⟩
    simp only [this, if_true]
  | cons x pre ih =>
    intro fuel b t' hf hrej hl h1 h2
    obtain ⟨f, rfl⟩ : ∃ f, fuel = f + 1 := ⟨fuel - 1, by simp at hf; omega⟩
    obtain ⟨b0, rfl, hl0, hn0⟩ := hrej x List.mem_cons_self
    unfold genKeyLoop
    rw [List.cons_append, ← hl0, readFull_cons]
    have : (beNat b0 != 0 && decide (beNat b0 < Gen.c_N)) = false := by
      rw [Bool.eq_false_iff]
      simp only [ne_eq, Bool.and_eq_true, bne_iff_ne, decide_eq_true_eq, c_N_eq]
      exact fun hh => hn0 ⟨by omega, hh.2⟩
    simp only [this]
    exact ih f b t' (by simp at hf; omega) (fun y hy => hrej y (List.mem_cons_of_mem _ hy)) hl h1 h2

/-! ### `ecdsa.GenerateKey` -/

/-- A successful `GenerateKey` consumed a non-empty prefix of the tape whose LAST read is the
32-byte big-endian form of the key; everything before it is an optional 1-byte read followed by
rejected 32-byte candidates. -/
theorem generateKey_split {t t' : Tape} {d : Nat} {q : Pt}
    (h : generateKey t = some (d, q, t')) :
    ∃ pre b, t = pre ++ some b :: t' ∧ b.length = 32 ∧ d = beNat b ∧ natBEpad 32 d = b ∧
      1 ≤ d ∧ d < N ∧ q = smul d G := by
  unfold generateKey at h
  split at h
  · cases h
  · rename_i d' rest hg
    simp only [Option.some.injEq, Prod.mk.injEq] at h
    obtain ⟨rfl, rfl, rfl⟩ := h
    obtain ⟨pre, b, e, hl, hk, h1, h2, _⟩ := genKeyLoop_split _ _ _ _ hg
    obtain ⟨pre0, e0, _⟩ := skipMaybeByte_split t
    refine ⟨pre0 ++ pre, b, ?_, hl, hk, ?_, h1, h2, KeyBytes.scalarBaseMult_natBE _⟩
    · rw [List.append_assoc, ← e, ← e0]
    · rw [hk, ← hl]; exact natBEpad_beNat b

/-- if the first 32-byte read after the optional byte fails, `GenerateKey` returns an error -/
theorem generateKey_fail_aux {t : Tape} (h : readFull 32 (skipMaybeByte t) = none) :
    generateKey t = none := by
  unfold generateKey genKeyLoop
  rw [h]

/-- `GenerateKey` fails only because a read failed (after possibly some rejected candidates) -/
theorem generateKey_none {t : Tape} (h : generateKey t = none) :
    ∃ pre rest, skipMaybeByte t = pre ++ rest ∧ (∀ x ∈ pre, Rejected x) ∧ readFull 32 rest = none := by
  unfold generateKey at h
  split at h
  · rename_i hg
    refine genKeyLoop_none _ _ ?_ hg
    have := (skipMaybeByte_suffix t).length_le
    omega
  · cases h

/-- every key value in [1, N-1] is produced by the tape that contains its 32-byte form: the key is
the tape content, not a constant -/
theorem generateKey_of_skip {d : Nat} (h1 : 1 ≤ d) (h2 : d < N) {t rest : Tape}
    (hs : skipMaybeByte t = some (natBEpad 32 d) :: rest) :
    generateKey t = some (d, smul d G, rest) := by
  have hl : (natBEpad 32 d).length = 32 :=
    natBEpad_length _ _ (Nat.lt_trans h2 N_lt_pow)
  have hb : beNat (natBEpad 32 d) = d := beNat_natBEpad _ _
  unfold generateKey
  rw [hs]
  have := genKeyLoop_of_split [] (t.length + 1) (natBEpad 32 d) rest
    (by simp) (by simp) hl (by omega) (by omega)
  rw [List.nil_append] at this
  rw [this, hb]
  simp only [KeyBytes.scalarBaseMult_natBE]

theorem generateKey_single {d : Nat} (h1 : 1 ≤ d) (h2 : d < N) (t : Tape) :
    generateKey (some (natBEpad 32 d) :: t) = some (d, smul d G, t) := by
  have hl : (natBEpad 32 d).length = 32 :=
    natBEpad_length _ _ (Nat.lt_trans h2 N_lt_pow)
  exact generateKey_of_skip h1 h2 (by simp [skipMaybeByte, hl])

/-- the same when the runtime's `MaybeReadByte` consumed one byte first -/
theorem generateKey_single_skip {d : Nat} (h1 : 1 ≤ d) (h2 : d < N) (x : UInt8) (t : Tape) :
    generateKey (some [x] :: some (natBEpad 32 d) :: t) = some (d, smul d G, t) :=
  generateKey_of_skip h1 h2 (by simp [skipMaybeByte])

/-! ### `GenerateSeed`, `GenerateEntropy` -/

theorem generateSeed_eq (n : Nat) (t : Tape) :
    generateSeed n t = if n < 16 ∨ 64 < n then none else readFull n t := by
  unfold generateSeed
  by_cases hc : n < 16 ∨ 64 < n
  · rw [if_pos hc, if_pos]
    simp only [Bool.or_eq_true, decide_eq_true_eq]
    exact hc
  · rw [if_neg hc, if_neg]
    simp only [Bool.or_eq_true, decide_eq_true_eq]
    exact hc

theorem generateSeed_iff {n : Nat} {t t' : Tape} {b : Bytes} :
    generateSeed n t = some (b, t') ↔ 16 ≤ n ∧ n ≤ 64 ∧ t = some b :: t' ∧ b.length = n := by
  rw [generateSeed_eq]
  split
  · rename_i hc
    constructor
    · intro h; cases h
    · rintro ⟨h1, h2, _⟩; omega
  · rename_i hc
    rw [readFull_iff]
    constructor
    · rintro ⟨h1, h2⟩; exact ⟨by omega, by omega, h1, h2⟩
    · rintro ⟨_, _, h1, h2⟩; exact ⟨h1, h2⟩

theorem generateSeed_none_iff {n : Nat} {t : Tape} :
    generateSeed n t = none ↔ n < 16 ∨ 64 < n ∨ readFull n t = none := by
  rw [generateSeed_eq]
  split
  · rename_i hc
    simp only [true_iff]
    rcases hc with h | h
    · exact Or.inl h
    · exact Or.inr (Or.inl h)
  · rename_i hc
    constructor
    · intro h; exact Or.inr (Or.inr h)
    · rintro (h | h | h)
      · omega
      · omega
      · exact h

/-- the five entropy sizes of BIP-39 -/
def EntropyBits (bits : Nat) : Prop :=
  bits = 128 ∨ bits = 160 ∨ bits = 192 ∨ bits = 224 ∨ bits = 256

instance (bits : Nat) : Decidable (EntropyBits bits) := by unfold EntropyBits; infer_instance

theorem generateEntropy_eq (bits : Nat) (t : Tape) :
    generateEntropy bits t = if EntropyBits bits then readFull (bits / 8) t else none := by
  unfold generateEntropy
  by_cases hc : EntropyBits bits
  · rw [if_pos hc, if_neg]
    simp only [Bool.or_eq_true, bne_iff_ne, decide_eq_true_eq]
    unfold EntropyBits at hc; omega
  · rw [if_neg hc, if_pos]
    simp only [Bool.or_eq_true, bne_iff_ne, decide_eq_true_eq]
    unfold EntropyBits at hc; omega

theorem generateEntropy_iff {bits : Nat} {t t' : Tape} {b : Bytes} :
    generateEntropy bits t = some (b, t') ↔
      EntropyBits bits ∧ t = some b :: t' ∧ b.length = bits / 8 := by
  rw [generateEntropy_eq]
  split
  · rename_i hc
    rw [readFull_iff]
    exact ⟨fun h => ⟨hc, h⟩, fun h => h.2⟩
  · rename_i hc
    constructor
    · intro h; cases h
    · rintro ⟨h, _⟩; exact absurd h hc

theorem generateEntropy_none_iff {bits : Nat} {t : Tape} :
    generateEntropy bits t = none ↔ ¬ EntropyBits bits ∨ readFull (bits / 8) t = none := by
  rw [generateEntropy_eq]
  split
  · rename_i hc
    exact ⟨fun h => Or.inr h, fun h => h.resolve_left (fun hn => hn hc)⟩
  · rename_i hc
    exact ⟨fun _ => Or.inl hc, fun _ => rfl⟩

/-! ### `bec.Encrypt`, `crypto.Encrypt` -/

/-- `bec.Encrypt` read the ephemeral key and then the IV as two consecutive entries of the tape,
and both are visible in the ciphertext -/
theorem encrypt_split {pr : Prims} {pub : Pt} {msg ct : Bytes} {t t' : Tape}
    (h : Ecies.encrypt pr pub msg t = some (ct, t')) :
    ∃ pre kb iv d, t = pre ++ some kb :: some iv :: t' ∧ kb.length = 32 ∧ iv.length = 16 ∧
      d = beNat kb ∧ natBEpad 32 d = kb ∧ 1 ≤ d ∧ d < N ∧
      ct.take 16 = iv ∧
      (ct.drop 20).take 32 = natBEpad 32 (smul d G).1 ∧
      (ct.drop 54).take 32 = natBEpad 32 (smul d G).2 := by
  obtain ⟨d, iv, t1, hg, hr, hct⟩ := encrypt_some h
  obtain ⟨pre, kb, e, hl, hd, hpad, h1, h2, _⟩ := generateKey_split hg
  obtain ⟨e1, hiv⟩ := readFull_some hr
  have lx := natBEpad32_length_of_lt_P (valid_lt (valid_smulG d)).1
  have ly := natBEpad32_length_of_lt_P (valid_lt (valid_smulG d)).2
  obtain ⟨s1, _, _, s4, _, s6⟩ := layout_slices
    (C := pr.cbcEnc (keyE pr d pub) iv (Ecies.addPKCSPadding msg))
    (T := pr.hmac256 (keyM pr d pub)
              (header iv (natBEpad 32 (smul d G).1) (natBEpad 32 (smul d G).2) ++
                pr.cbcEnc (keyE pr d pub) iv (Ecies.addPKCSPadding msg))) hiv lx ly
  rw [← hct] at s1 s4 s6
  exact ⟨pre, kb, iv, d, by rw [e, e1], hl, hiv, hd, hpad, h1, h2, s1, s4, s6⟩

theorem cfbEncrypt_iff {pr : Prims} {key text ct : Bytes} {t t' : Tape} :
    Ecies.cfbEncrypt pr key text t = some (ct, t') ↔
      ∃ iv, t = some iv :: t' ∧ iv.length = 16 ∧ ct = iv ++ pr.cfbEnc key iv (pr.b64enc text) := by
  unfold Ecies.cfbEncrypt
  simp only
  cases hr : readFull 16 t with
  | none =>
    constructor
    · intro h; cases h
    · rintro ⟨iv, rfl, hl, _⟩
      rw [← hl, readFull_cons] at hr; cases hr
  | some x =>
    obtain ⟨iv, t1⟩ := x
    obtain ⟨rfl, hl⟩ := readFull_some hr
    simp only [Option.some.injEq, Prod.mk.injEq]
    constructor
    · rintro ⟨rfl, rfl⟩; exact ⟨iv, rfl, hl, rfl⟩
    · rintro ⟨iv', e, _, rfl⟩
      simp only [List.cons.injEq, Option.some.injEq] at e
      obtain ⟨rfl, rfl⟩ := e
      exact ⟨rfl, rfl⟩

theorem cfbEncrypt_none_iff {pr : Prims} {key text : Bytes} {t : Tape} :
    Ecies.cfbEncrypt pr key text t = none ↔ readFull 16 t = none := by
  unfold Ecies.cfbEncrypt
  simp only
  cases hr : readFull 16 t with
  | none => simp
  | some x => simp

theorem cfb_take_iv {iv rest : Bytes} (h : iv.length = 16) : (iv ++ rest).take 16 = iv := by
  rw [← h]; exact List.take_left

/-! ### sequences of calls -/

/-- the randomised entry points of the library -/
inductive Call
  | key                                   -- `bec.NewPrivateKey`
  | seed (n : Nat)                        -- `bip32.GenerateSeed(n)`
  | entropy (bits : Nat)                  -- `bip39.GenerateEntropy(bits)`
  | encrypt (pub : Pt) (msg : Bytes)      -- `bec.Encrypt(pub, msg)`
  | cfb (key text : Bytes)                -- `crypto.Encrypt(block(key), text)`
  | envelope (payload : Bytes)            -- `envelope.NewJSONEnvelope` (marshalled payload)

/-- what the caller gets back (`error` = the call returned an error) -/
inductive Output
  | key (d : Nat) (q : Pt)
  | seed (b : Bytes)
  | entropy (b : Bytes)
  | encrypt (ct : Bytes)
  | cfb (ct : Bytes)
  | envelope (sg pk : Bytes)
  | error

/-- one call: its output and the rest of the tape.  (`newEnvelope` does not return the rest of the
tape; it is the one `generateKey` leaves, `Sign` reads no randomness.) -/
def step (pr : Prims) (fuel : Nat) : Call → Tape → Option (Output × Tape)
  | .key, t => (generateKey t).map fun r => (.key r.1 r.2.1, r.2.2)
  | .seed n, t => (generateSeed n t).map fun r => (.seed r.1, r.2)
  | .entropy bits, t => (generateEntropy bits t).map fun r => (.entropy r.1, r.2)
  | .encrypt pub msg, t => (Ecies.encrypt pr pub msg t).map fun r => (.encrypt r.1, r.2)
  | .cfb key text, t => (Ecies.cfbEncrypt pr key text t).map fun r => (.cfb r.1, r.2)
  | .envelope pl, t =>
    match generateKey t, Envelope.newEnvelope pr fuel pl t with
    | some r, some e => some (.envelope e.1 e.2, r.2.2)
    | _, _ => none

/-- a sequence of calls, each consuming the rest of the previous call's tape.  After a failing call
the model does not say where the reader stands; `recover t` is any later position. -/
def runCalls (pr : Prims) (fuel : Nat) (recover : Tape → Tape) : List Call → Tape → List Output
  | [], _ => []
  | c :: cs, t =>
    match step pr fuel c t with
    | some (o, t') => o :: runCalls pr fuel recover cs t'
    | none => .error :: runCalls pr fuel recover cs (recover t)

/-- the random fields a caller can observe in an output -/
inductive Field
  | key (d : Nat)            -- private key value
  | ephPub (xy : Bytes)      -- bytes 20..52 ‖ 54..86 of a `bec.Encrypt` ciphertext: ephemeral public key
  | iv (b : Bytes)           -- first 16 bytes of a ciphertext
  | seed (b : Bytes)
  | entropy (b : Bytes)
  | envPub (pkHex : Bytes)   -- `publicKey` of an envelope (hex of the compressed signing key)
  deriving DecidableEq

def fields : Output → List Field
  | .key d _ => [.key d]
  | .seed b => [.seed b]
  | .entropy b => [.entropy b]
  | .encrypt ct => [.ephPub ((ct.drop 20).take 32 ++ (ct.drop 54).take 32), .iv (ct.take 16)]
  | .cfb ct => [.iv (ct.take 16)]
  | .envelope _ pk => [.envPub pk]
  | .error => []

/-- the random fields that are literally tape reads, as raw byte strings (keys as 32 bytes) -/
def rawFields : Output → List Bytes
  | .key d _ => [natBEpad 32 d]
  | .seed b => [b]
  | .entropy b => [b]
  | .encrypt ct => [ct.take 16]
  | .cfb ct => [ct.take 16]
  | .envelope _ _ => []
  | .error => []

/-- `drawn f b`: the field `f` was produced from the tape read `b` -/
def drawn : Field → Bytes → Prop
  | .key d, b => b = natBEpad 32 d
  | .ephPub xy, b => ∃ d, 1 ≤ d ∧ d < N ∧
      xy = natBEpad 32 (smul d G).1 ++ natBEpad 32 (smul d G).2 ∧ b = natBEpad 32 d
  | .iv x, b => b = x
  | .seed x, b => b = x
  | .entropy x, b => b = x
  | .envPub pk, b => ∃ d, 1 ≤ d ∧ d < N ∧
      pk = Envelope.hexEncode (Ecdsa.serCompressed (smul d G)) ∧ b = natBEpad 32 d

theorem smulG_inj {d d' : Nat} (h1 : d < N) (h2 : d' < N) (h : smul d G = smul d' G) : d = d' := by
  have := (smul_G_eq_smul_G_iff d d').1 h
  rwa [Nat.mod_eq_of_lt h1, Nat.mod_eq_of_lt h2] at this

/-- a field determines the read it was drawn from -/
theorem drawn_functional {f : Field} {b b' : Bytes} (h : drawn f b) (h' : drawn f b') : b = b' := by
  cases f with
  | key d => exact h.trans h'.symm
  | iv x => exact h.trans h'.symm
  | seed x => exact h.trans h'.symm
  | entropy x => exact h.trans h'.symm
  | ephPub xy =>
    obtain ⟨d, _, hd, e, rfl⟩ := h
    obtain ⟨d', _, hd', e', rfl⟩ := h'
    have lx := natBEpad32_length_of_lt_P (valid_lt (valid_smulG d)).1
    have lx' := natBEpad32_length_of_lt_P (valid_lt (valid_smulG d')).1
    obtain ⟨e1, e2⟩ := List.append_inj (e.symm.trans e') (by rw [lx, lx'])
    have : smul d G = smul d' G := Prod.ext (natBEpad_inj _ _ _ e1) (natBEpad_inj _ _ _ e2)
    rw [smulG_inj hd hd' this]
  | envPub pk =>
    obtain ⟨d, h1, hd, e, rfl⟩ := h
    obtain ⟨d', h1', hd', e', rfl⟩ := h'
    have hs := hexEncode_inj (e.symm.trans e')
    have p1 := GoBk.Props.C05.parse_serCompressed _ (valid_smulG d) (smulG_ne_inf h1 hd)
    have p2 := GoBk.Props.C05.parse_serCompressed _ (valid_smulG d') (smulG_ne_inf h1' hd')
    rw [hs, p2] at p1
    rw [smulG_inj hd hd' (Option.some.inj p1).symm]

/-- what one successful call consumed: a non-empty prefix `pre` of the tape, and its random fields are
drawn from distinct positions `ds` of the multi-byte reads in that prefix -/
theorem step_split {pr : Prims} {fuel : Nat} {c : Call} {t t' : Tape} {o : Output}
    (h : step pr fuel c t = some (o, t')) :
    ∃ pre ds, t = pre ++ t' ∧ pre ≠ [] ∧ ds.Sublist (multiReads pre) ∧
      List.Forall₂ drawn (fields o) ds ∧ (rawFields o).Sublist ds := by
  cases c with
  | key =>
    simp only [step, Option.map_eq_some_iff, Prod.mk.injEq] at h
    obtain ⟨⟨d, q, t1⟩, hg, rfl, rfl⟩ := h
    obtain ⟨pre, b, e, hl, _, hpad, _⟩ := generateKey_split hg
    refine ⟨pre ++ [some b], [b], by rw [e]; simp, by simp, ?_, ?_, ?_⟩
    · rw [multiReads_append, multiReads_cons_some b [] (by omega)]
      exact List.sublist_append_right _ _
    · exact List.Forall₂.cons hpad.symm List.Forall₂.nil
    · simp [rawFields, hpad]
  | seed n =>
    simp only [step, Option.map_eq_some_iff, Prod.mk.injEq] at h
    obtain ⟨⟨b, t1⟩, hg, rfl, rfl⟩ := h
    obtain ⟨h16, _, e, hl⟩ := generateSeed_iff.1 hg
    refine ⟨[some b], [b], e, by simp, ?_, List.Forall₂.cons rfl List.Forall₂.nil,
      List.Sublist.refl _⟩
    rw [multiReads_cons_some b [] (by omega)]; exact List.Sublist.refl _
  | entropy bits =>
    simp only [step, Option.map_eq_some_iff, Prod.mk.injEq] at h
    obtain ⟨⟨b, t1⟩, hg, rfl, rfl⟩ := h
    obtain ⟨hb, e, hl⟩ := generateEntropy_iff.1 hg
    unfold EntropyBits at hb
    refine ⟨[some b], [b], e, by simp, ?_, List.Forall₂.cons rfl List.Forall₂.nil,
      List.Sublist.refl _⟩
    rw [multiReads_cons_some b [] (by omega)]; exact List.Sublist.refl _
  | encrypt pub msg =>
    simp only [step, Option.map_eq_some_iff, Prod.mk.injEq] at h
    obtain ⟨⟨ct, t1⟩, hg, rfl, rfl⟩ := h
    obtain ⟨pre, kb, iv, d, e, hl, hiv, _, hpad, h1, h2, s1, s4, s6⟩ := encrypt_split hg
    refine ⟨pre ++ [some kb, some iv], [kb, iv], by rw [e]; simp, by simp, ?_, ?_, ?_⟩
    · rw [multiReads_append, multiReads_cons_some kb _ (by omega),
        multiReads_cons_some iv [] (by omega)]
      exact List.sublist_append_right _ _
    · refine List.Forall₂.cons ⟨d, h1, h2, by rw [s4, s6], hpad.symm⟩
        (List.Forall₂.cons s1.symm List.Forall₂.nil)
    · simp only [rawFields, s1]
      exact List.Sublist.cons _ (List.Sublist.refl _)
  | cfb key text =>
    simp only [step, Option.map_eq_some_iff, Prod.mk.injEq] at h
    obtain ⟨⟨ct, t1⟩, hg, rfl, rfl⟩ := h
    obtain ⟨iv, e, hiv, rfl⟩ := cfbEncrypt_iff.1 hg
    have s1 := cfb_take_iv (rest := pr.cfbEnc key iv (pr.b64enc text)) hiv
    refine ⟨[some iv], [iv], e, by simp, ?_, List.Forall₂.cons s1.symm List.Forall₂.nil, ?_⟩
    · rw [multiReads_cons_some iv [] (by omega)]; exact List.Sublist.refl _
    · simp only [rawFields, s1]; exact List.Sublist.refl _
  | envelope pl =>
    simp only [step] at h
    split at h
    · rename_i r en hg he
      simp only [Option.some.injEq, Prod.mk.injEq] at h
      obtain ⟨rfl, rfl⟩ := h
      obtain ⟨d, q, t1⟩ := r
      obtain ⟨sg, pk⟩ := en
      obtain ⟨d', t2, r', s', hg', _, _, hpk⟩ := newEnvelope_some he
      rw [hg] at hg'
      simp only [Option.some.injEq, Prod.mk.injEq] at hg'
      obtain ⟨rfl, rfl, rfl⟩ := hg'
      obtain ⟨pre, b, e, hl, _, hpad, h1, h2, _⟩ := generateKey_split hg
      refine ⟨pre ++ [some b], [b], by rw [e]; simp, by simp, ?_, ?_, ?_⟩
      · rw [multiReads_append, multiReads_cons_some b [] (by omega)]
        exact List.sublist_append_right _ _
      · exact List.Forall₂.cons ⟨d, h1, h2, hpk, hpad.symm⟩ List.Forall₂.nil
      · simp [rawFields]
    · cases h

theorem forall₂_append {α β} {R : α → β → Prop} {a a' : List α} {b b' : List β}
    (h : List.Forall₂ R a b) (h' : List.Forall₂ R a' b') : List.Forall₂ R (a ++ a') (b ++ b') := by
  induction h with
  | nil => exact h'
  | cons hr _ ih => exact List.Forall₂.cons hr ih

/-- over a whole sequence: all observable random fields are drawn from distinct positions of the
tape's multi-byte reads -/
theorem runCalls_split (pr : Prims) (fuel : Nat) (recover : Tape → Tape)
    (hrec : ∀ t, recover t <:+ t) : ∀ (cs : List Call) (t : Tape),
    ∃ ds, ds.Sublist (multiReads t) ∧
      List.Forall₂ drawn ((runCalls pr fuel recover cs t).flatMap fields) ds ∧
      ((runCalls pr fuel recover cs t).flatMap rawFields).Sublist ds := by
  intro cs
  induction cs with
  | nil => intro t; exact ⟨[], List.nil_sublist _, List.Forall₂.nil, List.Sublist.refl _⟩
  | cons c cs ih =>
    intro t
    unfold runCalls
    cases hs : step pr fuel c t with
    | none =>
      obtain ⟨ds, h1, h2, h3⟩ := ih (recover t)
      refine ⟨ds, h1.trans (multiReads_suffix (hrec t)), ?_, ?_⟩
      · simpa [fields] using h2
      · simpa [rawFields] using h3
    | some x =>
      obtain ⟨o, t'⟩ := x
      obtain ⟨pre, ds0, e, _, hsub0, hd0, hr0⟩ := step_split hs
      obtain ⟨ds, h1, h2, h3⟩ := ih t'
      refine ⟨ds0 ++ ds, ?_, ?_, ?_⟩
      · rw [e, multiReads_append]; exact List.Sublist.append hsub0 h1
      · simp only [List.flatMap_cons]; exact forall₂_append hd0 h2
      · simp only [List.flatMap_cons]; exact List.Sublist.append hr0 h3

theorem nodup_of_forall₂ {fs : List Field} {ds : List Bytes}
    (h : List.Forall₂ drawn fs ds) (hn : ds.Nodup) : fs.Nodup := by
  induction h with
  | nil => exact List.nodup_nil
  | @cons f d fs ds hfd hrest ih =>
    rw [List.nodup_cons] at hn ⊢
    refine ⟨?_, ih hn.2⟩
    intro hmem
    have : ∃ d' ∈ ds, drawn f d' := by
      clear ih hn
      induction hrest with
      | nil => cases hmem
      | @cons f1 d1 fs1 ds1 h1 _ ih1 =>
        rcases List.mem_cons.1 hmem with rfl | hm
        · exact ⟨d1, List.mem_cons_self, h1⟩
        · obtain ⟨d', hd', hdr⟩ := ih1 hm
          exact ⟨d', List.mem_cons_of_mem _ hd', hdr⟩
    obtain ⟨d', hd', hdr⟩ := this
    rw [drawn_functional hfd hdr] at hn
    exact hn.1 hd'

theorem fresh_aux (pr : Prims) (fuel : Nat) (recover : Tape → Tape) (hrec : ∀ t, recover t <:+ t)
    (cs : List Call) (t : Tape) (hd : TapeDistinct t) :
    ((runCalls pr fuel recover cs t).flatMap fields).Nodup ∧
    ((runCalls pr fuel recover cs t).flatMap rawFields).Nodup := by
  obtain ⟨ds, h1, h2, h3⟩ := runCalls_split pr fuel recover hrec cs t
  have hn : ds.Nodup := List.Nodup.sublist h1 hd
  exact ⟨nodup_of_forall₂ h2 hn, List.Nodup.sublist h3 hn⟩

theorem runCalls_length (pr : Prims) (fuel : Nat) (recover : Tape → Tape) :
    ∀ (cs : List Call) (t : Tape), (runCalls pr fuel recover cs t).length = cs.length := by
  intro cs
  induction cs with
  | nil => intro t; rfl
  | cons c cs ih =>
    intro t
    unfold runCalls
    cases step pr fuel c t with
    | none => simp [ih]
    | some x => simp [ih]

/-- `bec.Encrypt` succeeds whenever its two reads do -/
theorem encrypt_of {pr : Prims} {pub : Pt} {msg : Bytes} {t t1 t2 : Tape} {d : Nat} {q : Pt}
    {iv : Bytes} (hg : generateKey t = some (d, q, t1)) (hr : readFull 16 t1 = some (iv, t2)) :
    ∃ ct, Ecies.encrypt pr pub msg t = some (ct, t2) := by
  unfold Ecies.encrypt
  rw [hg]; dsimp only; rw [hr]
  exact ⟨_, rfl⟩

/-- fields of different outputs of a sequence are different; fields of one output are different -/
theorem fresh_pairwise_aux (pr : Prims) (fuel : Nat) (recover : Tape → Tape)
    (hrec : ∀ t, recover t <:+ t) (cs : List Call) (t : Tape) (hd : TapeDistinct t)
    (i j : Nat) (hi : i < (runCalls pr fuel recover cs t).length)
    (hj : j < (runCalls pr fuel recover cs t).length) (hij : i < j) :
    ∀ f ∈ fields (runCalls pr fuel recover cs t)[i],
      ∀ f' ∈ fields (runCalls pr fuel recover cs t)[j], f ≠ f' := by
  have h := (fresh_aux pr fuel recover hrec cs t hd).1
  rw [List.nodup_flatMap] at h
  have := (List.pairwise_iff_getElem.1 h.2) i j hi hj hij
  intro f hf f' hf' e
  subst e
  exact this hf hf'

end GoBk.Proofs.RngL
