/-
  GoBk.Proofs.IRChains — the two long straight-line chains of bec/field.go, `Inverse` and `SqrtVal`
  (regenerated in `GoBk.Gen.Field` as chains of `square`/`mul`/`squareVal`/`mul2`/`setVal`):
  for an operand of magnitude ≤ 8
    * no word wraps anywhere in the chain (`toN = …_exact`),
    * the result has magnitude 1,
    * the result is the operand to the power P-2 (resp. (P+1)/4) modulo P.
  Proof: every intermediate `x` carries `Pow f x X e` (:= `MagLe 1 x`, `x.toN = X`,
  `x.val ≡ f.val^e`); the chain is walked by a tactic loop applying `squareVal_sound` /
  `mul2_sound`; the exponent is collected as a term and checked by `decide`.  The proof does not
  depend on the particular chain, only on its being such a chain with the right exponent.
-/
import GoBk.Proofs.FieldDefs
import GoBk.Proofs.FieldMul

namespace GoBk.Proofs.Field
open GoBk.Gen.Field

/-- `x` is a value of the chain started at `f`: magnitude ≤ 8 (usable as an operand), computed
without wrap-around (`X` is the exact twin's value) and congruent to `f^e`. -/
structure Pow8 (f x : FV) (X : FN) (e : Nat) : Prop where
  mag : MagLe 8 x
  exact : x.toN = X
  val : x.val % P = f.val ^ e % P

/-- the same with magnitude 1 (every computed value of the chain) -/
structure Pow1 (f x : FV) (X : FN) (e : Nat) : Prop where
  mag : MagLe 1 x
  exact : x.toN = X
  val : x.val % P = f.val ^ e % P

theorem Pow1.to8 {f x X e} (h : Pow1 f x X e) : Pow8 f x X e :=
  ⟨h.mag.mono (by decide), h.exact, h.val⟩

theorem Pow8.base {f : FV} (h : MagLe 8 f) : Pow8 f f f.toN 1 :=
  ⟨h, rfl, by rw [Nat.pow_one]⟩

theorem Pow1.cast {f x X X' e e'} (h : Pow1 f x X e) (hX : X = X') (he : e = e') : Pow1 f x X' e' := by
  subst hX; subst he; exact h

theorem pow_mul2 {f a b : FV} {A B : FN} {ea eb : Nat} (ha : Pow8 f a A ea) (hb : Pow8 f b B eb) :
    Pow1 f (mul2 a b) (mul2_exact A B) (ea + eb) := by
  obtain ⟨h1, h2, h3⟩ := mul2_sound a b ha.mag hb.mag
  refine ⟨h3, ?_, ?_⟩
  · rw [h1, ha.exact, hb.exact]
  · rw [h2, Nat.mul_mod, ha.val, hb.val, ← Nat.mul_mod, Nat.pow_add]

theorem pow_mul {f a b : FV} {A B : FN} {ea eb : Nat} (ha : Pow8 f a A ea) (hb : Pow8 f b B eb) :
    Pow1 f (mul a b) (mul_exact A B) (ea + eb) := pow_mul2 ha hb

theorem pow_squareVal {f a : FV} {A : FN} {ea : Nat} (ha : Pow8 f a A ea) :
    Pow1 f (squareVal a) (squareVal_exact A) (ea + ea) := by
  obtain ⟨h1, h2, h3⟩ := squareVal_sound a ha.mag
  refine ⟨h3, ?_, ?_⟩
  · rw [h1, ha.exact]
  · rw [h2, Nat.mul_mod, ha.val, ← Nat.mul_mod, Nat.pow_add]

theorem pow_square {f a : FV} {A : FN} {ea : Nat} (ha : Pow8 f a A ea) :
    Pow1 f (square a) (square_exact A) (ea + ea) := pow_squareVal ha

theorem pow_setVal8 {f a : FV} {A : FN} {ea : Nat} (ha : Pow8 f a A ea) :
    Pow8 f (setVal a) (setVal_exact A) ea := ha

theorem pow_setInt1 (f : FV) : Pow1 f (setInt 1) (setInt_exact 1) 0 :=
  ⟨by decide, by decide, by rw [Nat.pow_zero]; decide⟩

/-- walk a chain: the goal is `Pow1 f t ?X ?e` or `Pow8 f t ?X ?e` -/
syntax "pow_chain" : tactic
macro_rules
  | `(tactic| pow_chain) => `(tactic|
      first
      | with_reducible assumption
      | with_reducible exact pow_setInt1 _
      | (with_reducible apply Pow1.to8; pow_chain)
      | (with_reducible apply pow_square; pow_chain)
      | (with_reducible apply pow_squareVal; pow_chain)
      | (with_reducible apply pow_mul; (pow_chain; pow_chain))
      | (with_reducible apply pow_mul2; (pow_chain; pow_chain))
      | (with_reducible apply pow_setVal8; pow_chain))

set_option maxRecDepth 100000 in
/-- **Inverse**: for an operand of magnitude ≤ 8 the 258-step chain never wraps, returns
magnitude 1 and computes `f^(P-2)` (Fermat inverse). -/
theorem inverse_pow (f : FV) (h : MagLe 8 f) : Pow1 f (inverse f) (inverse_exact f.toN) (P - 2) := by
  have hf := Pow8.base h
  apply Pow1.cast
  case h =>
    unfold inverse
    simp only []
    pow_chain
  case hX => rfl
  case he => decide

set_option maxRecDepth 100000 in
/-- **SqrtVal**: for an operand of magnitude ≤ 8 the chain never wraps, returns magnitude 1 and
computes `f^((P+1)/4)`. -/
theorem sqrtVal_pow (f : FV) (h : MagLe 8 f) :
    Pow1 f (sqrtVal f) (sqrtVal_exact f.toN) ((P + 1) / 4) := by
  have hf := Pow8.base h
  apply Pow1.cast
  case h =>
    unfold sqrtVal
    simp only []
    pow_chain
  case hX => rfl
  case he => decide

theorem inverse_sound (f : FV) (h : MagLe 8 f) :
    (inverse f).toN = inverse_exact f.toN ∧
    (inverse f).val % P = f.val ^ (P - 2) % P ∧
    MagLe 1 (inverse f) :=
  let h := inverse_pow f h
  ⟨h.exact, h.val, h.mag⟩

theorem sqrtVal_sound (f : FV) (h : MagLe 8 f) :
    (sqrtVal f).toN = sqrtVal_exact f.toN ∧
    (sqrtVal f).val % P = f.val ^ ((P + 1) / 4) % P ∧
    MagLe 1 (sqrtVal f) :=
  let h := sqrtVal_pow f h
  ⟨h.exact, h.val, h.mag⟩

/-- the task's `inverse_mag` -/
theorem inverse_mag {f : FV} (h : MagLe 8 f) : MagLe 1 (inverse f) := (inverse_sound f h).2.2
theorem sqrtVal_mag {f : FV} (h : MagLe 8 f) : MagLe 1 (sqrtVal f) := (sqrtVal_sound f h).2.2

example : (inverse exA).val % P = exA.val ^ (P - 2) % P := (inverse_sound exA (by decide)).2.1

end GoBk.Proofs.Field
