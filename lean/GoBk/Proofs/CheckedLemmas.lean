import GoBk.Model.Checked
import GoBk.Proofs.BytesLemmas
import GoBk.Proofs.Base58Lemmas
import GoBk.Proofs.DerLemmas
import GoBk.Proofs.Bip39Lemmas
/-
  Agreement of the checked transcriptions in `GoBk.Model.Checked` with the total models:
  for every decoder `f` named in C15, `fC x = ofOption (f x)` (resp. the analogous statement for
  `Except`/three-valued results).  Since `ofOption _` is never `.panic`, the `_total` theorems of
  Props/C15 follow.  Two agreements need a length fact about a primitive (the `_ne_panic`
  theorems do not): `eciesDecryptC_eq` (CBC decryption preserves the length; unconditional form
  `eciesDecryptC_eq_fit`) and `childC_eq`/`derivePathC_eq` (HMAC-SHA512 returns 64 bytes).
  Not yet proved: nothing listed in the task is missing.
-/
namespace GoBk.Checked
open GoBk Bytes Spec

/-! ### the monad and the primitives -/

@[simp] theorem ok_bind {α β : Type} (a : α) (f : α → Res β) : (Res.ok a >>= f) = f a := rfl
@[simp] theorem err_bind {α β : Type} (f : α → Res β) : ((Res.err : Res α) >>= f) = .err := rfl
@[simp] theorem panic_bind {α β : Type} (f : α → Res β) : ((Res.panic : Res α) >>= f) = .panic := rfl
@[simp] theorem pure_eq {α : Type} (a : α) : (pure a : Res α) = .ok a := rfl

theorem ofOption_ne_panic {α : Type} (o : Option α) : ofOption o ≠ .panic := by
  cases o <;> simp [ofOption]

theorem ofExcept_ne_panic {ε α : Type} (o : Except ε α) : ofExcept o ≠ .panic := by
  cases o <;> simp [ofExcept]

@[simp] theorem ofOption_none {α : Type} : ofOption (none : Option α) = .err := rfl
@[simp] theorem ofOption_some {α : Type} (a : α) : ofOption (some a) = .ok a := rfl

theorem ofOption_ite {α : Type} (c : Prop) [Decidable c] (a b : Option α) :
    ofOption (if c then a else b) = if c then ofOption a else ofOption b := by
  split <;> rfl

theorem idx_ok {α : Type} (l : List α) (i : Nat) (d : α) (h : i < l.length) :
    idx l i = .ok (l.getD i d) := by
  unfold idx
  rw [List.getD_eq_getElem?_getD, List.getElem?_eq_getElem h]
  rfl

theorem idx_ne_panic {α : Type} (l : List α) (i : Nat) (h : i < l.length) : idx l i ≠ .panic := by
  unfold idx; rw [List.getElem?_eq_getElem h]; simp

theorem idxI_ok {α : Type} (l : List α) (i : Int) (d : α) (h0 : 0 ≤ i) (h : i.toNat < l.length) :
    idxI l i = .ok (l.getD i.toNat d) := by
  unfold idxI; rw [if_pos h0]; exact idx_ok l _ d h

theorem slice_ok {α : Type} (l : List α) (i j : Nat) (h1 : i ≤ j) (h2 : j ≤ l.length) :
    slice l i j = .ok ((l.drop i).take (j - i)) := by
  unfold slice; rw [if_pos ⟨h1, h2⟩]

theorem sliceFrom_ok {α : Type} (l : List α) (i : Nat) (h : i ≤ l.length) :
    sliceFrom l i = .ok (l.drop i) := by
  unfold sliceFrom; rw [slice_ok l i _ h (Nat.le_refl _)]
  congr 1
  apply List.take_of_length_le; simp

theorem sliceTo_ok {α : Type} (l : List α) (j : Nat) (h : j ≤ l.length) :
    sliceTo l j = .ok (l.take j) := by
  unfold sliceTo; rw [slice_ok l 0 j (Nat.zero_le _) h]; simp

theorem sliceI_ok {α : Type} (l : List α) (i j : Int) (h0 : 0 ≤ i) (h1 : i ≤ j) (h2 : j ≤ l.length) :
    sliceI l i j = .ok ((l.drop i.toNat).take (j.toNat - i.toNat)) := by
  unfold sliceI; rw [if_pos ⟨h0, by omega⟩]; exact slice_ok l _ _ (by omega) (by omega)

theorem sliceFromI_ok {α : Type} (l : List α) (i : Int) (h0 : 0 ≤ i) (h : i ≤ l.length) :
    sliceFromI l i = .ok (l.drop i.toNat) := by
  unfold sliceFromI; rw [sliceI_ok l i _ h0 h (Int.le_refl _)]
  congr 1
  apply List.take_of_length_le; simp

theorem sliceToI_ok {α : Type} (l : List α) (j : Int) (h0 : 0 ≤ j) (h : j ≤ l.length) :
    sliceToI l j = .ok (l.take j.toNat) := by
  unfold sliceToI; rw [sliceI_ok l 0 j (Int.le_refl _) h0 h]; simp

theorem makeLen_ok (n : Int) (h : 0 ≤ n) : makeLen n = .ok n.toNat := by
  unfold makeLen; rw [if_pos h]

theorem ivCheck_ok (n : Nat) (iv : Bytes) (h : iv.length = n) : ivCheck n iv = .ok () := by
  unfold ivCheck; rw [if_neg (by simpa using h)]

/-! ### `canonicalPadding`, `parseSig` -/

theorem canonicalPaddingC_eq (b : Bytes) (h : b ≠ []) :
    canonicalPaddingC b = .ok (Der.canonicalPadding b) := by
  have hl : 0 < b.length := List.length_pos_iff.mpr h
  unfold canonicalPaddingC Der.canonicalPadding
  rw [idx_ok b 0 0 hl, ok_bind]
  have hh : b.headD 0 = b.getD 0 0 := by cases b <;> rfl
  rw [hh]
  generalize b.getD 0 0 = x
  by_cases h1 : (x &&& 0x80 == 0x80) = true
  · rw [if_pos h1, if_pos h1]; rfl
  · rw [if_neg h1, if_neg h1]
    by_cases h2 : (decide (b.length > 1) && x == 0x00) = true
    · have hl1 : 1 < b.length := by simp at h2; exact h2.1
      rw [if_pos h2, idx_ok b 1 0 hl1, ok_bind, h2, Bool.true_and]
      generalize b.getD 1 0 = y
      split <;> rfl
    · rw [if_neg h2]
      have h2' : (decide (b.length > 1) && x == 0x00) = false := by simpa using h2
      rw [h2', Bool.false_and]
      rfl

theorem rangeCheckC_eq (r sv : Nat) : rangeCheckC r sv = ofOption (Der.rangeCheck r sv) := by
  unfold rangeCheckC Der.rangeCheck
  repeat' split
  all_goals rfl

theorem parseSC_eq (der : Bool) (s : Bytes) (r index : Nat) (h : index + 2 ≤ s.length) :
    parseSC der s r index = ofOption (Der.parseS der s r index) := by
  unfold parseSC Der.parseS
  dsimp only
  rw [idx_ok s index 0 (by omega), ok_bind]
  by_cases h1 : (s.getD index 0 != 0x02) = true
  · rw [if_pos h1, if_pos h1]; rfl
  · rw [if_neg h1, if_neg h1, idx_ok s (index + 1) 0 (by omega), ok_bind]
    generalize (s.getD (index + 1) 0).toNat = sLen
    by_cases h2 : sLen = 0 ∨ sLen > s.length - (index + 1 + 1)
    · have e1 : (decide (sLen = 0) || decide ((sLen : Int) > (s.length : Int) - ((index + 1 + 1 : Nat) : Int))) = true := by
        simp only [Bool.or_eq_true, decide_eq_true_eq]; omega
      have e2 : (decide (sLen = 0) || decide (sLen > s.length - (index + 1 + 1))) = true := by
        simp only [Bool.or_eq_true, decide_eq_true_eq]; exact h2
      rw [if_pos e1, if_pos e2]; rfl
    · have e1 : ¬ (decide (sLen = 0) || decide ((sLen : Int) > (s.length : Int) - ((index + 1 + 1 : Nat) : Int))) = true := by
        simp only [Bool.or_eq_true, decide_eq_true_eq]; omega
      have e2 : ¬ (decide (sLen = 0) || decide (sLen > s.length - (index + 1 + 1))) = true := by
        simp only [Bool.or_eq_true, decide_eq_true_eq]; exact h2
      rw [if_neg e1, if_neg e2, slice_ok s _ _ (by omega) (by omega), ok_bind,
        Nat.add_sub_cancel_left]
      have hne : (s.drop (index + 1 + 1)).take sLen ≠ [] := by
        intro hc
        have := congrArg List.length hc
        simp at this; omega
      rw [canonicalPaddingC_eq _ hne, ok_bind]
      split
      · rfl
      · split
        · rfl
        · exact rangeCheckC_eq _ _

/-! ### `ParsePubKey` -/

theorem parsePubKeyC_eq (b : Bytes) : parsePubKeyC b = ofOption (Ecdsa.parsePubKey b) := by
  unfold parsePubKeyC Ecdsa.parsePubKey
  by_cases h0 : b.length = 0
  · have : b = [] := List.eq_nil_of_length_eq_zero h0
    subst this; rfl
  · have hl : 0 < b.length := by omega
    have e0 : (b.length == 0) = false := by simpa using h0
    have e0' : b.isEmpty = false := by cases b <;> simp_all
    have hh : b.headD 0 = b.getD 0 0 := by cases b <;> rfl
    rw [e0, e0', hh, idx_ok b 0 0 hl]
    simp only [Bool.false_eq_true, if_false, ok_bind]
    generalize b.getD 0 0 = f0
    by_cases h65 : b.length = 65
    · have e65 : (b.length == Gen.k_pubKeyBytesLenUncompressed) = true := by
        rw [h65]; rfl
      rw [e65]
      simp only [if_true]
      split
      · rfl
      · split
        · rfl
        · rw [slice_ok b 1 33 (by omega) (by omega), ok_bind, sliceFrom_ok b 33 (by omega), ok_bind]
          simp only [Nat.add_one_sub_one]
          repeat' split
          all_goals rfl
    · have e65 : (b.length == Gen.k_pubKeyBytesLenUncompressed) = false := by
        have : Gen.k_pubKeyBytesLenUncompressed = 65 := rfl
        rw [this]; simpa using h65
      rw [e65]
      simp only [Bool.false_eq_true, if_false]
      by_cases h33 : b.length = 33
      · have e33 : (b.length == Gen.k_pubKeyBytesLenCompressed) = true := by rw [h33]; rfl
        rw [e33]
        simp only [if_true]
        split
        · rfl
        · rw [slice_ok b 1 33 (by omega) (by omega), ok_bind]
          simp only [Nat.reduceSub]
          split
          · rfl
          · cases Ecdsa.decompressPoint (beNat (List.take 32 (List.drop 1 b))) (f0 &&& 1 == 1) <;> rfl
      · have e33 : (b.length == Gen.k_pubKeyBytesLenCompressed) = false := by
          have : Gen.k_pubKeyBytesLenCompressed = 33 := rfl
          rw [this]; simpa using h33
        rw [e33]
        rfl

/-! ### `ScalarBaseMult` table rows, `PrivKeyFromBytes` -/

theorem tableRowsC_ok (diff : Int) (l : List Nat) (h : ∀ i ∈ l, 0 ≤ diff + i ∧ diff + i < 32) :
    tableRowsC diff l = .ok () := by
  induction l with
  | nil => rfl
  | cons i is ih =>
    unfold tableRowsC
    have hi := h i (by simp)
    have : arrIdx 32 (diff + i) = .ok () := by
      unfold arrIdx; rw [if_pos ⟨hi.1, by exact_mod_cast hi.2⟩]
    rw [this, ok_bind]
    exact ih (fun j hj => h j (by simp [hj]))

theorem moduloReduce_length_le (k : Bytes) : (Curve.moduloReduce k).length ≤ 32 := by
  unfold Curve.moduloReduce
  split
  · apply natBE_length_le
    have hN : Gen.c_N < 256 ^ 32 := by decide
    exact Nat.lt_trans (Nat.mod_lt _ (by decide)) hN
  · omega

theorem scalarBaseMultIdxC_ok (k : Bytes) : scalarBaseMultIdxC k = .ok () := by
  unfold scalarBaseMultIdxC
  have := moduloReduce_length_le k
  apply tableRowsC_ok
  intro i hi
  rw [List.mem_range] at hi
  omega

theorem privKeyFromBytesC_eq (pk : Bytes) : privKeyFromBytesC pk = .ok (Ecdsa.privKeyFromBytes pk) := by
  unfold privKeyFromBytesC
  rw [scalarBaseMultIdxC_ok, ok_bind]
  rfl

theorem parseRC_eq (der : Bool) (s : Bytes) (h : 8 ≤ s.length) :
    parseRC der s = ofOption (Der.parseR der s) := by
  unfold parseRC Der.parseR
  dsimp only
  rw [idx_ok s 2 0 (by omega), ok_bind]
  by_cases h1 : (s.getD 2 0 != 0x02) = true
  · rw [if_pos h1, if_pos h1]; rfl
  · rw [if_neg h1, if_neg h1, idx_ok s (2 + 1) 0 (by omega), ok_bind]
    generalize (s.getD (2 + 1) 0).toNat = rLen
    by_cases h2 : rLen = 0 ∨ rLen > s.length - 4 - 3
    · have e1 : (decide (rLen = 0) || decide ((rLen : Int) > (s.length : Int) - ((2 + 1 + 1 : Nat) : Int) - 3)) = true := by
        simp only [Bool.or_eq_true, decide_eq_true_eq]; omega
      have e2 : (decide (rLen = 0) || decide (rLen > s.length - 4 - 3)) = true := by
        simp only [Bool.or_eq_true, decide_eq_true_eq]; exact h2
      rw [if_pos e1, if_pos e2]; rfl
    · have e1 : ¬ (decide (rLen = 0) || decide ((rLen : Int) > (s.length : Int) - ((2 + 1 + 1 : Nat) : Int) - 3)) = true := by
        simp only [Bool.or_eq_true, decide_eq_true_eq]; omega
      have e2 : ¬ (decide (rLen = 0) || decide (rLen > s.length - 4 - 3)) = true := by
        simp only [Bool.or_eq_true, decide_eq_true_eq]; exact h2
      rw [if_neg e1, if_neg e2, slice_ok s _ _ (by omega) (by omega), ok_bind,
        Nat.add_sub_cancel_left]
      have hne : (s.drop (2 + 1 + 1)).take rLen ≠ [] := by
        intro hc
        have := congrArg List.length hc
        simp at this; omega
      rw [canonicalPaddingC_eq _ hne, ok_bind]
      split
      · rfl
      · exact parseSC_eq der s _ _ (by omega)

theorem parseSigC_eq (sig : Bytes) (der : Bool) :
    parseSigC sig der = ofOption (Der.parseSig sig der) := by
  rw [Der.parseSig_eq]
  unfold parseSigC
  dsimp only
  have hk : Gen.k_minSigLen = 8 := rfl
  rw [hk]
  by_cases h0 : sig.length < 8
  · rw [if_pos h0, if_pos h0]; rfl
  · rw [if_neg h0, if_neg h0, idx_ok sig 0 0 (by omega), ok_bind]
    by_cases h1 : (sig.getD 0 0 != 0x30) = true
    · rw [if_pos h1, if_pos h1]; rfl
    · rw [if_neg h1, if_neg h1, idx_ok sig 1 0 (by omega), ok_bind]
      generalize (sig.getD 1 0 + 2).toNat = tot
      by_cases h2 : (decide (tot > sig.length) || decide (tot < 8)) = true
      · rw [if_pos h2, if_pos h2]; rfl
      · rw [if_neg h2, if_neg h2]
        simp only [Bool.or_eq_true, decide_eq_true_eq, not_or] at h2
        rw [sliceTo_ok sig tot (by omega), ok_bind]
        apply parseRC_eq
        rw [List.length_take]; omega

/-! ### `hashToInt`, `recoverKeyFromSignature`, `RecoverCompact` -/

theorem hashToIntC_eq (h : Bytes) : hashToIntC h = .ok (Ecdsa.hashToInt h) := by
  unfold hashToIntC Ecdsa.hashToInt
  by_cases hl : h.length > 32
  · rw [if_pos hl, if_pos hl, sliceTo_ok h 32 (by omega), ok_bind]
    dsimp only
    split <;> rfl
  · rw [if_neg hl, if_neg hl, pure_eq, ok_bind]
    dsimp only
    split <;> rfl

theorem recoverKeyC_eq (r s : Nat) (msg : Bytes) (iter : Nat) (doChecks : Bool) :
    recoverKeyC r s msg iter doChecks = ofOption (Ecdsa.recoverKey r s msg iter doChecks) := by
  unfold recoverKeyC Ecdsa.recoverKey
  dsimp only
  repeat' split
  all_goals first | rfl | skip
  all_goals simp_all [hashToIntC_eq]

theorem recoverCompactC_eq (sig h : Bytes) :
    recoverCompactC sig h = ofOption (Ecdsa.recoverCompact sig h) := by
  unfold recoverCompactC Ecdsa.recoverCompact
  have hb : (Gen.c_BitSize + 7) / 8 = 32 := rfl
  dsimp only
  rw [hb]
  by_cases hl : sig.length = 65
  · have e : (sig.length != 1 + 32 * 2) = false := by rw [hl]; rfl
    have hh : sig.headD 0 = sig.getD 0 0 := by cases sig <;> rfl
    rw [e, hh]
    simp only [Bool.false_eq_true, if_false]
    rw [idx_ok sig 0 0 (by omega), ok_bind, slice_ok sig 1 (32 + 1) (by omega) (by omega), ok_bind,
      sliceFrom_ok sig (32 + 1) (by omega), ok_bind, recoverKeyC_eq]
    simp only [Nat.add_sub_cancel]
    cases Ecdsa.recoverKey (beNat (List.take 32 (List.drop 1 sig))) (beNat (List.drop (32 + 1) sig)) h
        ((sig.getD 0 0 - 27 &&& ~~~4).toNat) false with
    | none => rfl
    | some q => rfl
  · have e : (sig.length != 1 + 32 * 2) = true := by simpa using hl
    rw [e]; rfl

/-! ### `removePKCSPadding`, `Decrypt` -/

theorem removePKCSPaddingC_eq (src : Bytes) (h : src ≠ []) :
    removePKCSPaddingC src = ofOption (Ecies.removePKCSPadding src) := by
  have hl : 0 < src.length := List.length_pos_iff.mpr h
  unfold removePKCSPaddingC Ecies.removePKCSPadding
  dsimp only
  have hlast : src.getLastD 0 = src.getD (src.length - 1) 0 := by
    rw [List.getLastD_eq_getLast?, List.getLast?_eq_getElem?, List.getD_eq_getElem?_getD]
  rw [idxI_ok src _ 0 (by omega) (by omega), ok_bind, hlast]
  have e : ((src.length : Int) - 1).toNat = src.length - 1 := by omega
  rw [e]
  generalize hp : (src.getD (src.length - 1) 0).toNat = p
  by_cases hc : p > 16 ∨ src.length < 16
  · have e1 : (decide ((p : Int) > 16) || decide ((src.length : Int) < 16)) = true := by
      simp only [Bool.or_eq_true, decide_eq_true_eq]; omega
    have e2 : (decide (p > 16) || decide (src.length < 16)) = true := by
      simp only [Bool.or_eq_true, decide_eq_true_eq]; exact hc
    rw [if_pos e1, if_pos e2]; rfl
  · have e1 : ¬ (decide ((p : Int) > 16) || decide ((src.length : Int) < 16)) = true := by
      simp only [Bool.or_eq_true, decide_eq_true_eq]; omega
    have e2 : ¬ (decide (p > 16) || decide (src.length < 16)) = true := by
      simp only [Bool.or_eq_true, decide_eq_true_eq]; exact hc
    rw [if_neg e1, if_neg e2, sliceToI_ok src _ (by omega) (by omega)]
    have e3 : ((src.length : Int) - (p : Int)).toNat = src.length - p := by omega
    rw [e3]; rfl

/-- the primitives with `cbcDec` replaced by "what is in the fresh destination buffer afterwards" -/
def fitPrims (pr : Prims) : Prims :=
  { pr with cbcDec := fun k iv x => fit x.length (pr.cbcDec k iv x) }

theorem fit_length (n : Nat) (out : Bytes) : (fit n out).length = n := by
  unfold fit; simp

theorem fit_of_length (n : Nat) (out : Bytes) (h : out.length = n) : fit n out = out := by
  unfold fit; rw [List.take_append_of_le_length (by omega), List.take_of_length_le (by omega)]

theorem fitPrims_eq (pr : Prims) (h : ∀ k iv x, (pr.cbcDec k iv x).length = x.length) :
    fitPrims pr = pr := by
  have : (fun k iv x => fit x.length (pr.cbcDec k iv x)) = pr.cbcDec := by
    funext k iv x; exact fit_of_length _ _ (h k iv x)
  unfold fitPrims
  rw [this]

theorem pb_build (x y : Bytes) (hx : x.length = 32) (hy : y.length = 32) :
    let pb1 : Bytes := (0x04 : UInt8) :: (List.replicate 65 0).drop 1
    let pb2 := pb1.take 1 ++ copyInto ((pb1.drop 1).take (33 - 1)) x ++ pb1.drop 33
    pb2.take 33 ++ copyInto (pb2.drop 33) y = [0x04] ++ x ++ y := by
  intro pb1 pb2
  have h1 : copyInto ((pb1.drop 1).take (33 - 1)) x = x := by
    unfold copyInto
    have : ((pb1.drop 1).take (33 - 1)).length = 32 := by simp [pb1]
    rw [this, List.take_of_length_le (by omega), List.drop_eq_nil_of_le (by omega), List.append_nil]
  have h2 : pb2 = [0x04] ++ x ++ List.replicate 32 0 := by
    show pb1.take 1 ++ copyInto ((pb1.drop 1).take (33 - 1)) x ++ pb1.drop 33 = _
    rw [h1]; simp [pb1]
  rw [h2]
  have h3 : ([0x04] ++ x ++ List.replicate 32 (0 : UInt8)).take 33 = [0x04] ++ x := by
    rw [List.take_append_of_le_length (by simp; omega), List.take_of_length_le (by simp; omega)]
  have h4 : ([0x04] ++ x ++ List.replicate 32 (0 : UInt8)).drop 33 = List.replicate 32 0 := by
    rw [List.drop_append_of_le_length (by simp; omega), List.drop_eq_nil_of_le (by simp; omega)]
    rfl
  rw [h3, h4]
  unfold copyInto
  simp only [List.length_replicate]
  rw [List.take_of_length_le (by omega), List.drop_eq_nil_of_le (by simp; omega), List.append_nil]

theorem eciesDecryptC_eq_fit (pr : Prims) (d : Nat) (inp : Bytes) :
    eciesDecryptC pr d inp = ofOption (Ecies.decrypt (fitPrims pr) d inp) := by
  unfold eciesDecryptC Ecies.decrypt
  dsimp only
  by_cases hlen : inp.length < 16 + 70 + 16 + 32
  · rw [if_pos hlen, if_pos hlen]; rfl
  · rw [if_neg hlen, if_neg hlen]
    have hl : 134 ≤ inp.length := by omega
    rw [sliceTo_ok inp 16 (by omega), ok_bind, slice_ok inp 16 (16 + 2) (by omega) (by omega), ok_bind]
    simp only [Nat.reduceAdd]
    by_cases h1 : ((inp.drop 16).take 2 != Gen.ciphCurveBytes) = true
    · rw [if_pos h1, if_pos h1]; rfl
    · rw [if_neg h1, if_neg h1, slice_ok inp 18 20 (by omega) (by omega), ok_bind]
      simp only [Nat.reduceSub]
      by_cases h2 : ((inp.drop 18).take 2 != Gen.ciphCoordLength) = true
      · rw [if_pos h2, if_pos h2]; rfl
      · rw [if_neg h2, if_neg h2, slice_ok inp 20 52 (by omega) (by omega), ok_bind,
          slice_ok inp 52 54 (by omega) (by omega), ok_bind]
        simp only [Nat.reduceSub]
        by_cases h3 : ((inp.drop 52).take 2 != Gen.ciphCoordLength) = true
        · rw [if_pos h3, if_pos h3]; rfl
        · rw [if_neg h3, if_neg h3, slice_ok inp 54 86 (by omega) (by omega), ok_bind]
          simp only [Nat.reduceSub]
          have hx : ((inp.drop 20).take 32).length = 32 := by simp; omega
          have hy : ((inp.drop 54).take 32).length = 32 := by simp; omega
          rw [slice_ok _ 1 33 (by omega) (by simp), ok_bind]
          rw [sliceFrom_ok _ 33 (by simp [copyInto]; omega), ok_bind]
          have hpb := pb_build _ _ hx hy
          dsimp only at hpb
          rw [hpb, parsePubKeyC_eq]
          cases hpk : Ecdsa.parsePubKey ([0x04] ++ (inp.drop 20).take 32 ++ (inp.drop 54).take 32) with
          | none => rfl
          | some pub =>
            simp only [ofOption_some, ok_bind]
            by_cases h4 : (Int.tmod ((inp.length : Int) - 16 - ((86 : Nat) : Int) - 32) 16 != 0) = true
            · rw [if_pos h4, if_pos h4]; rfl
            · rw [if_neg h4, if_neg h4, sliceFromI_ok inp _ (by omega) (by omega), ok_bind,
                sliceToI_ok inp _ (by omega) (by omega), ok_bind]
              have e1 : ((inp.length : Int) - 32).toNat = inp.length - 32 := by omega
              rw [e1]
              have hs : (fitPrims pr).sha512 = pr.sha512 := rfl
              have hm : (fitPrims pr).hmac256 = pr.hmac256 := rfl
              rw [hs, hm]
              by_cases h5 : (inp.drop (inp.length - 32) !=
                  pr.hmac256 ((pr.sha512 (Ecies.sharedSecret d pub)).drop 32) (inp.take (inp.length - 32))) = true
              · rw [if_pos h5, if_pos h5]; rfl
              · rw [if_neg h5, if_neg h5, ivCheck_ok 16 _ (by simp; omega), ok_bind,
                  makeLen_ok _ (by omega), ok_bind,
                  sliceI_ok inp _ _ (by omega) (by omega) (by omega), ok_bind]
                have e2 : (((86 : Nat) : Int)).toNat = 86 := rfl
                have e3 : ((inp.length : Int) - ((86 : Nat) : Int) - 32).toNat = inp.length - 32 - 86 := by omega
                rw [e1, e2, e3]
                have e4 : (inp.drop 86).take (inp.length - 32 - 86) = (inp.take (inp.length - 32)).drop 86 := by
                  rw [List.drop_take]
                rw [e4]
                have hsl : ((inp.take (inp.length - 32)).drop 86).length = inp.length - 32 - 86 := by
                  simp
                have hmod : ((inp.take (inp.length - 32)).drop 86).length % 16 = 0 := by
                  rw [hsl]
                  simp only [bne_iff_ne, ne_eq, Decidable.not_not] at h4
                  rw [Int.tmod_eq_emod_of_nonneg (by omega)] at h4
                  omega
                unfold cryptBlocks
                rw [if_neg (by omega), if_neg (by omega), ok_bind, ← hsl]
                apply removePKCSPaddingC_eq
                intro hc
                have := congrArg List.length hc
                rw [fit_length, hsl] at this
                simp at this; omega

theorem eciesDecryptC_ne_panic (pr : Prims) (d : Nat) (inp : Bytes) :
    eciesDecryptC pr d inp ≠ .panic := by
  rw [eciesDecryptC_eq_fit]; exact ofOption_ne_panic _

theorem eciesDecryptC_eq (pr : Prims) (hdec : ∀ k iv x, (pr.cbcDec k iv x).length = x.length)
    (d : Nat) (inp : Bytes) :
    eciesDecryptC pr d inp = ofOption (Ecies.decrypt pr d inp) := by
  rw [eciesDecryptC_eq_fit, fitPrims_eq pr hdec]

/-! ### `JSONEnvelope.IsValid` -/

/-- the three-valued result of the model as a `Res Bool` -/
def ofEnvRes : Envelope.Res → Res Bool
  | .valid => .ok true
  | .invalid => .ok false
  | .error => .err

theorem ofEnvRes_ne_panic (r : Envelope.Res) : ofEnvRes r ≠ .panic := by
  cases r <;> simp [ofEnvRes]

theorem isValidC_eq (pr : Prims) (payload : Bytes) (sig pk : Option Bytes) (mime : Bytes) :
    isValidC pr payload sig pk mime = ofEnvRes (Envelope.isValid pr payload sig pk mime) := by
  unfold isValidC Envelope.isValid
  cases sig with
  | none => cases pk <;> rfl
  | some sg =>
    cases pk with
    | none => rfl
    | some pkh =>
      simp only [Option.isNone_some, Bool.and_self, Bool.false_eq_true, if_false, Bool.or_self,
        deref, ok_bind]
      cases Envelope.hexDecode pkh with
      | none => rfl
      | some pub =>
        simp only [parsePubKeyC_eq]
        cases Ecdsa.parsePubKey pub with
        | none => rfl
        | some q =>
          simp only [ofOption_some, ok_bind]
          cases Envelope.hexDecode sg with
          | none => rfl
          | some sigBytes =>
            simp only [parseSigC_eq, Der.parseLax]
            cases Der.parseSig sigBytes false with
            | none => rfl
            | some rs =>
              obtain ⟨r, s⟩ := rs
              simp only [ofOption_some, ok_bind]
              generalize (if (mime == Envelope.mimeJSON) = true then
                  some (pr.sha256 (Envelope.stripBackslashes payload))
                else if (mime == Envelope.mimeB64) = true then (pr.b64dec payload).map pr.sha256
                else some (pr.sha256 payload)) = hash
              cases hash with
              | none => rfl
              | some h =>
                simp only [pure_eq]
                cases Ecdsa.verify q h r s <;> rfl

/-
  Agreement of the checked transcriptions of base58 `Decode` / `CheckDecode`, `DecodeWIF` and
  `NewKeyFromString` (GoBk.Model.Checked) with the total models.  Nothing unfinished.
-/

/-! ### `Decode` loops -/

theorem fromDigits_concat (xs : List UInt8) (d : UInt8) :
    Base58.fromDigits (xs ++ [d]) = Base58.fromDigits xs * 58 + d.toNat := by
  simp [Base58.fromDigits, List.foldl_append]

theorem idx_b58 (c : UInt8) : idx Gen.b58 c.toNat = .ok (Base58.b58At c) := by
  unfold Base58.b58At
  exact idx_ok _ _ _ (by rw [Base58.b58_length]; have := c.toNat_lt; omega)

theorem take_succ_getD (b : Bytes) (k : Nat) (h : k < b.length) :
    b.take (k + 1) = b.take k ++ [b.getD k 0] := by
  rw [List.take_add_one, List.getD_eq_getElem?_getD, List.getElem?_eq_getElem h]
  rfl

theorem decodeLoopC_eq (b : Bytes) (k : Nat) :
    ∀ (fuel : Nat) (i : Int) (ans j : Nat), k ≤ b.length → k + 1 ≤ fuel → i = (k : Int) - 1 →
      decodeLoopC b fuel i ans j =
        if ((b.take k).map Base58.b58At).any (· == 255) then .ok none
        else .ok (some (ans + j * Base58.fromDigits ((b.take k).map Base58.b58At))) := by
  induction k with
  | zero =>
    intro fuel i ans j _ hf hi
    obtain ⟨f, rfl⟩ : ∃ f, fuel = f + 1 := ⟨fuel - 1, by omega⟩
    subst hi
    unfold decodeLoopC
    rw [if_neg (by omega)]
    simp [Base58.fromDigits]
  | succ k ih =>
    intro fuel i ans j hk hf hi
    obtain ⟨f, rfl⟩ : ∃ f, fuel = f + 1 := ⟨fuel - 1, by omega⟩
    have hi' : i = (k : Int) := by omega
    subst hi'
    unfold decodeLoopC
    rw [if_pos (by omega), idxI_ok b _ 0 (by omega) (by omega), ok_bind, Int.toNat_natCast,
      idx_b58, ok_bind, take_succ_getD b k (by omega), List.map_append, List.any_append,
      List.map_cons, List.map_nil, fromDigits_concat,
      ih f _ _ _ (by omega) (by omega) rfl]
    generalize b.getD k 0 = c
    generalize List.map Base58.b58At (List.take k b) = ds
    by_cases hc : (Base58.b58At c == 255) = true
    · rw [if_pos hc, if_pos (by simp [hc])]; rfl
    · rw [if_neg hc]
      have hc' : (Base58.b58At c == 255) = false := Bool.eq_false_iff.mpr hc
      by_cases hd : (ds.any (· == 255)) = true
      · rw [if_pos hd, if_pos (by simp [hd])]
      · have hd' : (ds.any (· == 255)) = false := Bool.eq_false_iff.mpr hd
        rw [if_neg hd, if_neg (by simp [hd', hc'])]
        congr 2
        rw [Nat.mul_add, Nat.add_assoc, Nat.mul_assoc, Nat.add_comm (j * _),
          Nat.mul_comm 58]

theorem drop_getD_cons (b : Bytes) (k : Nat) (h : k < b.length) :
    b.drop k = b.getD k 0 :: b.drop (k + 1) := by
  rw [List.drop_eq_getElem_cons h, List.getD_eq_getElem?_getD, List.getElem?_eq_getElem h]
  rfl

theorem numZerosC_eq (b : Bytes) (fuel : Nat) :
    ∀ nz : Nat, nz ≤ b.length → b.length - nz + 1 ≤ fuel →
      numZerosC b fuel nz = .ok (nz + Base58.leadingCount Gen.alphabetIdx0 (b.drop nz)) := by
  induction fuel with
  | zero => intro nz _ h; omega
  | succ f ih =>
    intro nz h1 h2
    unfold numZerosC
    by_cases hlt : nz < b.length
    · rw [if_pos hlt, idx_ok b nz 0 hlt, ok_bind, drop_getD_cons b nz hlt]
      generalize b.getD nz 0 = c
      unfold Base58.leadingCount
      by_cases hc : c = Gen.alphabetIdx0
      · rw [if_neg (by simp [hc]), if_pos hc, ih (nz + 1) (by omega) (by omega)]
        congr 1; omega
      · rw [if_pos (by simpa using hc), if_neg hc]; rfl
    · rw [if_neg hlt]
      have : nz = b.length := by omega
      subst this
      rw [List.drop_length]; rfl

/-! ### `Decode` -/

theorem base58DecodeC_eq (b : Bytes) : base58DecodeC b = .ok (Base58.decode b) := by
  unfold base58DecodeC Base58.decode
  rw [decodeLoopC_eq b b.length _ _ _ _ (Nat.le_refl _) (Nat.le_refl _) rfl, List.take_length]
  dsimp only
  generalize List.map Base58.b58At b = ds
  by_cases hd : (ds.any (· == 255)) = true
  · rw [if_pos hd, if_pos hd]; rfl
  · rw [if_neg hd, if_neg hd, ok_bind]
    dsimp only
    rw [numZerosC_eq b _ 0 (Nat.zero_le _) (by omega), ok_bind, List.drop_zero, Nat.zero_add,
      Nat.zero_add, Nat.one_mul]
    generalize Base58.leadingCount Gen.alphabetIdx0 b = nz
    generalize natBE (Base58.fromDigits ds) = t
    rw [sliceFrom_ok _ _ (by simp), ok_bind]
    simp [copyInto]

/-! ### `CheckDecode` -/

theorem toNat_sub4 (n : Nat) : ((n : Int) - 4).toNat = n - 4 := by omega

theorem headD_eq_getD {α : Type} (l : List α) (d : α) : l.headD d = l.getD 0 d := by
  cases l <;> rfl

theorem checkDecodeC_eq (pr : Prims) (s : Bytes) :
    checkDecodeC pr s = ofOption (Base58.checkDecode pr s) := by
  unfold checkDecodeC Base58.checkDecode
  rw [base58DecodeC_eq, ok_bind]
  dsimp only
  generalize Base58.decode s = d
  by_cases h5 : d.length < 5
  · rw [if_pos h5, if_pos h5]; rfl
  · rw [if_neg h5, if_neg h5, idx_ok d 0 0 (by omega), ok_bind,
      sliceFromI_ok d _ (by omega) (by omega), ok_bind,
      sliceToI_ok d _ (by omega) (by omega), ok_bind, toNat_sub4]
    by_cases hck : (Base58.checksum pr (d.take (d.length - 4)) != d.drop (d.length - 4)) = true
    · rw [if_pos hck, if_pos hck]; rfl
    · rw [if_neg hck, if_neg hck, sliceI_ok d 1 _ (by omega) (by omega) (by omega), ok_bind,
        toNat_sub4, headD_eq_getD, List.drop_take]
      rfl

/-! ### `DecodeWIF` -/

theorem decodeWIFC_eq (pr : Prims) (s : Bytes) :
    decodeWIFC pr s = ofOption (Wif.decodeWIF pr s) := by
  unfold decodeWIFC Wif.decodeWIF
  rw [base58DecodeC_eq, ok_bind]
  dsimp only
  generalize Base58.decode s = d
  have hkl : Gen.k_privKeyBytesLen = 32 := rfl
  rw [hkl]
  by_cases h38 : d.length = 38
  · have e38 : (d.length == 1 + 32 + 1 + 4) = true := by rw [h38]; rfl
    rw [e38]
    simp only [if_true]
    rw [idx_ok d 33 0 (by omega), ok_bind]
    by_cases hm : (d.getD 33 0 != UInt8.ofNat Gen.k_compressMagic) = true
    · rw [if_pos hm, if_pos hm]; rfl
    · rw [if_neg hm, if_neg hm]
      simp only [pure_eq, ok_bind, ↓reduceIte]
      rw [sliceTo_ok d _ (by omega), ok_bind, sliceFromI_ok d _ (by omega) (by omega), ok_bind,
        toNat_sub4]
      by_cases hck : ((pr.sha256d (d.take (1 + 32 + 1))).take 4 != d.drop (d.length - 4)) = true
      · rw [if_pos hck, if_pos hck]; rfl
      · rw [if_neg hck, if_neg hck, idx_ok d 0 0 (by omega), ok_bind,
          slice_ok d 1 (1 + 32) (by omega) (by omega), ok_bind, privKeyFromBytesC_eq, ok_bind,
          headD_eq_getD]
        rfl
  · have e38 : (d.length == 1 + 32 + 1 + 4) = false := by simpa using h38
    rw [e38]
    simp only [Bool.false_eq_true, if_false]
    by_cases h37 : d.length = 37
    · have e37 : (d.length == 1 + 32 + 4) = true := by rw [h37]; rfl
      rw [e37]
      simp only [pure_eq, ok_bind, ↓reduceIte, Bool.false_eq_true]
      rw [sliceTo_ok d _ (by omega), ok_bind, sliceFromI_ok d _ (by omega) (by omega), ok_bind,
        toNat_sub4]
      by_cases hck : ((pr.sha256d (d.take (1 + 32))).take 4 != d.drop (d.length - 4)) = true
      · rw [if_pos hck, if_pos hck]; rfl
      · rw [if_neg hck, if_neg hck, idx_ok d 0 0 (by omega), ok_bind,
          slice_ok d 1 (1 + 32) (by omega) (by omega), ok_bind, privKeyFromBytesC_eq, ok_bind,
          headD_eq_getD]
        rfl
    · have e37 : (d.length == 1 + 32 + 4) = false := by simpa using h37
      rw [e37]
      rfl

/-! ### `NewKeyFromString` -/

theorem fromStringC_eq (pr : Prims) (s : Bytes) :
    fromStringC pr s = ofExcept (Bip32.fromString pr s) := by
  unfold fromStringC Bip32.fromString
  rw [base58DecodeC_eq, ok_bind]
  dsimp only
  generalize Base58.decode s = d
  have hkl : Gen.k_serializedKeyLen = 78 := rfl
  rw [hkl]
  by_cases h82 : (d.length != 78 + 4) = true
  · rw [if_pos h82, if_pos h82]; rfl
  · rw [if_neg h82, if_neg h82]
    have hlen : d.length = 82 := by simpa using h82
    rw [sliceToI_ok d _ (by omega) (by omega), ok_bind,
      sliceFromI_ok d _ (by omega) (by omega), ok_bind, toNat_sub4]
    by_cases hck : (d.drop (d.length - 4) != (pr.sha256d (d.take (d.length - 4))).take 4) = true
    · rw [if_pos hck, if_pos hck]; rfl
    · rw [if_neg hck, if_neg hck]
      have hp : (d.take (d.length - 4)).length = 78 := by rw [List.length_take]; omega
      generalize d.take (d.length - 4) = p at hp
      have hk : ((p.drop 45).take 33).length = 33 := by rw [List.length_take, List.length_drop]; omega
      have hd4 : ((p.drop 4).take 1).getD 0 0 = p.getD 4 0 := by
        simp [List.getD_eq_getElem?_getD, List.getElem?_drop]
      have hcn : beUint32 ((p.drop 9).take 4) = .ok (beNat ((p.drop 9).take 4)) := by
        unfold beUint32
        rw [if_pos (by rw [List.length_take, List.length_drop]; omega), List.take_take, Nat.min_self]
      rw [sliceTo_ok p 4 (by omega), ok_bind, slice_ok p 4 5 (by omega) (by omega), ok_bind]
      simp only [Nat.reduceSub]
      rw [idx_ok _ 0 0 (by rw [List.length_take, List.length_drop]; omega), ok_bind, hd4,
        slice_ok p 5 9 (by omega) (by omega), ok_bind,
        slice_ok p 9 13 (by omega) (by omega), ok_bind]
      simp only [Nat.reduceSub]
      rw [hcn, ok_bind,
        slice_ok p 13 45 (by omega) (by omega), ok_bind,
        slice_ok p 45 78 (by omega) (by omega), ok_bind]
      simp only [Nat.reduceSub]
      rw [idx_ok _ 0 1 (by rw [hk]; omega), ok_bind, headD_eq_getD]
      generalize (p.drop 45).take 33 = kd at hk
      by_cases hpriv : (kd.getD 0 1 == 0) = true
      · rw [if_pos hpriv, if_pos hpriv, sliceFrom_ok kd 1 (by omega), ok_bind]
        by_cases hn : (decide (beNat (kd.drop 1) ≥ Bip32.N) || decide (beNat (kd.drop 1) = 0)) = true
        · rw [if_pos hn, if_pos hn]; rfl
        · rw [if_neg hn, if_neg hn]; rfl
      · rw [if_neg hpriv, if_neg hpriv, parsePubKeyC_eq]
        cases Ecdsa.parsePubKey kd <;> rfl

/-! ### crypto/encryption.go `Decrypt` -/

theorem cfbDecryptC_eq (pr : Prims) (key ct : Bytes) :
    cfbDecryptC pr key ct = ofOption (Ecies.cfbDecrypt pr key ct) := by
  unfold cfbDecryptC Ecies.cfbDecrypt
  by_cases h : ct.length < 16
  · rw [if_pos h, if_pos h]; rfl
  · rw [if_neg h, if_neg h, sliceTo_ok ct 16 (by omega), ok_bind,
      ivCheck_ok 16 _ (by simp; omega), ok_bind,
      makeLen_ok _ (by omega), ok_bind, sliceFrom_ok ct 16 (by omega), ok_bind]
    unfold xorKeyStream
    rw [if_neg (by simp only [List.length_drop]; omega), ok_bind]

/-! ### bip32/derivationpaths.go `DeriveNumber` -/

theorem deriveNumberC_eq (p : Bytes) : deriveNumberC p = ofOption (Bip32.deriveNumber p) := by
  unfold deriveNumberC Bip32.deriveNumber
  dsimp only
  generalize Bip32.splitOn 47 p = ss
  match ss with
  | [] => rfl
  | [_] => rfl
  | [_, _] => rfl
  | _ :: _ :: _ :: _ :: _ =>
    rw [if_pos (by simp)]; rfl
  | [a, b, c] =>
    have e : (([a, b, c] : List Bytes).length != 3) = false := rfl
    rw [e]
    simp only [Bool.false_eq_true, if_false]
    have e0 : idx [a, b, c] 0 = .ok a := rfl
    have e1 : idx [a, b, c] 1 = .ok b := rfl
    have e2 : idx [a, b, c] 2 = .ok c := rfl
    rw [e0, e1, e2]
    simp only [ok_bind]
    cases Bip32.parseUint32 a <;> cases Bip32.parseUint32 b <;> cases Bip32.parseUint32 c <;> rfl

/-! ### bip39/bip39.go `MnemonicToSeed` -/

theorem wordOkC_eq (w : Bytes) :
    wordOkC w = .ok (decide (Bip39.searchStrings w < Gen.english.length) &&
      Bip39.wordAt (Bip39.searchStrings w) == w) := by
  unfold wordOkC
  dsimp only
  generalize Bip39.searchStrings w = i
  by_cases h : i < Gen.english.length
  · rw [if_pos h]
    unfold listIdx
    rw [idx_ok _ _ [] h, ok_bind, pure_eq, decide_eq_true h, Bool.true_and]
    rfl
  · rw [if_neg h, decide_eq_false h, Bool.false_and]
    rfl

theorem wordsLoopC_eq (wl : List Bytes) :
    wordsLoopC wl = .ok (wl.all fun w => decide (Bip39.searchStrings w < Gen.english.length) &&
      Bip39.wordAt (Bip39.searchStrings w) == w) := by
  induction wl with
  | nil => rfl
  | cons w ws ih =>
    unfold wordsLoopC
    rw [wordOkC_eq, ok_bind, List.all_cons]
    generalize (decide (Bip39.searchStrings w < Gen.english.length) &&
      Bip39.wordAt (Bip39.searchStrings w) == w) = b
    cases b
    · rfl
    · rw [if_pos rfl, ih, Bool.true_and]

theorem mnemonicToSeedC_eq (pr : Prims) (words pass : Bytes) :
    mnemonicToSeedC pr words pass = ofOption (Bip39.mnemonicToSeed pr words pass) := by
  unfold mnemonicToSeedC Bip39.mnemonicToSeed
  dsimp only
  split
  · rfl
  · rw [wordsLoopC_eq, ok_bind]
    split <;> rfl

/-! ### bip39/bip39.go `Mnemonic` -/

theorem mnemonicLoopC_eq (bits : List Bool) (ms : Nat) (hms : ms ≤ bits.length) :
    ∀ (fuel j : Nat), (ms - 11 * j) / 11 < fuel →
      mnemonicLoopC bits ms fuel (11 * (j + 1)) =
        .ok ((Bip39.groups ((ms - 11 * j) / 11) (bits.drop (11 * j))).map Bip39.wordAt) := by
  intro fuel
  induction fuel with
  | zero => intro j h; omega
  | succ fuel ih =>
    intro j hf
    unfold mnemonicLoopC
    by_cases h : 11 * (j + 1) ≤ ms
    · rw [if_pos h, sliceI_ok bits _ _ (by omega) (by omega) (by omega), ok_bind]
      have e1 : (((11 * (j + 1) : Nat) : Int) - 11).toNat = 11 * j := by omega
      have e2 : ((11 * (j + 1) : Nat) : Int).toNat - 11 * j = 11 := by omega
      rw [e1, e2]
      have hn : (ms - 11 * j) / 11 = (ms - 11 * (j + 1)) / 11 + 1 := by omega
      have hlt : Bip39.bitsToNat ((bits.drop (11 * j)).take 11) < Gen.english.length := by
        rw [Bip39.english_length]; exact Bip39.group_lt _
      unfold listIdx
      dsimp only
      rw [idx_ok _ _ [] hlt, ok_bind,
        show 11 * (j + 1) + 11 = 11 * ((j + 1) + 1) by omega,
        ih (j + 1) (by omega), ok_bind, pure_eq, hn, Bip39.groups, List.map_cons, List.drop_drop,
        show 11 * j + 11 = 11 * (j + 1) by omega]
      rfl
    · rw [if_neg h]
      have hn : (ms - 11 * j) / 11 = 0 := by omega
      rw [hn]
      rfl

theorem mnemonicC_eq (pr : Prims) (ent pass : Bytes) :
    mnemonicC pr ent pass = ofOption (Bip39.mnemonic pr ent pass) := by
  unfold mnemonicC Bip39.mnemonic
  dsimp only
  by_cases hc : (ent.length * 8 % 32 != 0 || decide (ent.length * 8 < 128) ||
      decide (ent.length * 8 > 256)) = true
  · rw [if_pos hc, if_pos hc]; rfl
  · rw [if_neg hc, if_neg hc]
    have hlen : ent.length ∈ [16, 20, 24, 28, 32] :=
      (Bip39.entropy_len_test _).mp (by simpa using hc)
    simp only [List.mem_cons, List.not_mem_nil, or_false] at hlen
    have hbits : ((ent ++ [(pr.sha256 ent).headD 0]).flatMap Bip39.bitsOfByte).length =
        8 * (ent.length + 1) := by
      rw [Bip39.flatMap_bits_length]; simp
    have := mnemonicLoopC_eq ((ent ++ [(pr.sha256 ent).headD 0]).flatMap Bip39.bitsOfByte)
      (ent.length * 8 + ent.length * 8 / 32) (by rw [hbits]; omega)
      ((ent.length * 8 + ent.length * 8 / 32) / 11 + 1) 0 (by omega)
    rw [Nat.mul_zero, List.drop_zero, Nat.sub_zero] at this
    rw [show (11 : Nat) = 11 * (0 + 1) from rfl, this, ok_bind, Bip39.ofString_empty, List.nil_append]
    rfl

/-! ### `ExtendedKey.Child`, `DeriveChildFromPath` -/

theorem copyInto_length (dst src : Bytes) : (copyInto dst src).length = dst.length := by
  unfold copyInto; simp; omega

/-- the first 33 bytes of `data` after `copy(data[offset:], key)` -/
theorem data_hard (key : Bytes) (o : Nat) (ho1 : 1 ≤ o) (ho : o ≤ 33) :
    ((List.replicate 37 (0 : UInt8)).take o ++ copyInto ((List.replicate 37 (0 : UInt8)).drop o) key).take 33 =
      ((List.replicate o 0 ++ key) ++ List.replicate 33 0).take 33 := by
  unfold copyInto
  simp only [List.take_replicate, List.drop_replicate, List.length_replicate, List.append_assoc,
    List.take_append, List.take_take, List.length_take]
  have e1 : min 33 (min o 37) = min 33 o := by omega
  have e2 : min (33 - min o 37) (37 - o) = 33 - o := by omega
  have e3 : min (33 - min o 37 - min (37 - o) key.length) (37 - o - key.length) = min (33 - o - key.length) 33 := by omega
  rw [e1, e2, e3]

/-- the first 33 bytes of `data` after `copy(data, pub)` -/
theorem data_soft (pub : Bytes) :
    (copyInto (List.replicate 37 (0 : UInt8)) pub).take 33 = (pub ++ List.replicate 33 0).take 33 := by
  unfold copyInto
  simp only [List.take_replicate, List.drop_replicate, List.length_replicate,
    List.take_append, List.take_take, List.length_take]
  have e1 : min 33 37 = 33 := by omega
  have e3 : min (33 - min 37 pub.length) (37 - pub.length) = min (33 - pub.length) 33 := by omega
  rw [e1, e3]

/-- the model's `data` of `Child` -/
def childData (k : Bip32.XKey) (i : Nat) (hardened : Bool) : Bytes :=
  (if hardened then
      let offset := if 33 - k.key.length < 1 then 1 else 33 - k.key.length
      ((List.replicate offset 0 ++ k.key) ++ List.replicate 33 0).take 33
    else ((k.pubKeyBytes) ++ List.replicate 33 0).take 33) ++ Bip32.be32 i

theorem childDataC_tail (d : Bytes) (i : Nat) (hd : d.length = 37) :
    (do let dst ← sliceFrom d 33
        let dst ← putUint32 dst i
        Res.ok (d.take 33 ++ dst) : Res Bytes) = .ok (d.take 33 ++ Bip32.be32 i) := by
  rw [sliceFrom_ok d 33 (by omega), ok_bind]
  unfold putUint32
  rw [if_pos (by simp; omega), ok_bind]
  have : (d.drop 33).drop 4 = [] := by
    apply List.drop_eq_nil_of_le; simp; omega
  rw [this, List.append_nil]

theorem childDataC_eq (k : Bip32.XKey) (i : Nat) (hardened : Bool) :
    childDataC k i hardened = .ok (childData k i hardened) := by
  unfold childDataC childData
  dsimp only
  cases hardened with
  | true =>
    simp only [if_true]
    generalize ho : (if (((33 : Nat) : Int) - (k.key.length : Int)) < 1 then (1 : Int)
      else ((33 : Nat) : Int) - (k.key.length : Int)) = o
    generalize ho' : (if 33 - k.key.length < 1 then 1 else 33 - k.key.length) = o'
    have hoo : o = (o' : Int) := by
      rw [← ho, ← ho']; split <;> split <;> omega
    have ho1 : 1 ≤ o' ∧ o' ≤ 33 := by
      rw [← ho']; split <;> omega
    subst hoo
    rw [sliceFromI_ok _ _ (by omega) (by simp; omega), ok_bind]
    simp only [Int.toNat_natCast, pure_eq, ok_bind]
    rw [childDataC_tail _ i (by simp [copyInto_length]; omega)]
    rw [data_hard k.key o' ho1.1 ho1.2]
  | false =>
    simp only [Bool.false_eq_true, if_false, pure_eq, ok_bind]
    rw [childDataC_tail _ i (by simp [copyInto_length])]
    rw [data_soft]

theorem childFinishC_ne_panic (pr : Prims) (k : Bip32.XKey) (i : Nat) (data : Bytes) :
    childFinishC pr k i data ≠ .panic := by
  unfold childFinishC
  dsimp only
  rw [sliceTo_ok _ _ (by omega), ok_bind, sliceFrom_ok _ _ (by omega), ok_bind]
  split
  · simp
  · split
    · simp
    · split
      · simp
      · rw [parsePubKeyC_eq]
        cases Ecdsa.parsePubKey k.key <;> simp

theorem childC_ne_panic (pr : Prims) (k : Bip32.XKey) (i : Nat) : childC pr k i ≠ .panic := by
  unfold childC
  dsimp only
  split
  · simp
  · split
    · simp
    · rw [childDataC_eq, ok_bind]; exact childFinishC_ne_panic _ _ _ _

theorem childC_eq (pr : Prims) (h512 : ∀ key m, (pr.hmac512 key m).length = 64)
    (k : Bip32.XKey) (i : Nat) : childC pr k i = ofExcept (Bip32.child pr k i) := by
  unfold childC Bip32.child
  dsimp only
  by_cases h1 : (k.depth == Gen.k_maxUint8) = true
  · rw [if_pos h1, if_pos h1]; rfl
  · rw [if_neg h1, if_neg h1]
    by_cases h2 : (!k.isPrivate && decide (i ≥ Gen.k_hardenedKeyStart)) = true
    · rw [if_pos h2, if_pos h2]; rfl
    · rw [if_neg h2, if_neg h2, childDataC_eq, ok_bind]
      have hd : childData k i (decide (i ≥ Gen.k_hardenedKeyStart)) =
          (if i ≥ Gen.k_hardenedKeyStart then
              ((List.replicate (if 33 - k.key.length < 1 then 1 else 33 - k.key.length) 0 ++ k.key) ++
                List.replicate 33 0).take 33
            else ((k.pubKeyBytes) ++ List.replicate 33 0).take 33) ++ Bip32.be32 i := by
        unfold childData
        by_cases hh : i ≥ Gen.k_hardenedKeyStart
        · simp only [hh, decide_true, if_true]
        · simp only [hh, decide_false, Bool.false_eq_true, if_false]
      rw [hd]
      generalize ((if i ≥ Gen.k_hardenedKeyStart then
              ((List.replicate (if 33 - k.key.length < 1 then 1 else 33 - k.key.length) 0 ++ k.key) ++
                List.replicate 33 0).take 33
            else ((k.pubKeyBytes) ++ List.replicate 33 0).take 33) ++ Bip32.be32 i) = data
      unfold childFinishC
      dsimp only
      rw [sliceTo_ok _ _ (by omega), ok_bind, sliceFrom_ok _ _ (by omega), ok_bind, h512]
      by_cases h3 : (decide (beNat ((pr.hmac512 k.chainCode data).take (64 / 2)) ≥ Bip32.N) ||
          decide (beNat ((pr.hmac512 k.chainCode data).take (64 / 2)) = 0)) = true
      · rw [if_pos h3, if_pos h3]; rfl
      · rw [if_neg h3, if_neg h3]
        by_cases h4 : k.isPrivate = true
        · rw [if_pos h4, if_pos h4]; rfl
        · rw [if_neg h4, if_neg h4]
          split
          · rfl
          · rw [parsePubKeyC_eq]
            cases Ecdsa.parsePubKey k.key <;> rfl

theorem derivePathAuxC_ne_panic (pr : Prims) : ∀ (cs : List Bytes) (k : Bip32.XKey),
    derivePathAuxC pr k cs ≠ .panic
  | [], k => by simp [derivePathAuxC]
  | c :: cs, k => by
    unfold derivePathAuxC childIndexC
    cases Bip32.childIndex c with
    | none => simp
    | some i =>
      simp only [ofOption_some, ok_bind]
      cases hc : childC pr k i with
      | panic => exact absurd hc (childC_ne_panic pr k i)
      | err => simp
      | ok k' => simp only [ok_bind]; exact derivePathAuxC_ne_panic pr cs k'

theorem derivePathC_ne_panic (pr : Prims) (k : Bip32.XKey) (p : Bytes) : derivePathC pr k p ≠ .panic := by
  unfold derivePathC
  split
  · simp
  · exact derivePathAuxC_ne_panic pr _ k

theorem derivePathAuxC_eq (pr : Prims) (h512 : ∀ key m, (pr.hmac512 key m).length = 64) :
    ∀ (cs : List Bytes) (k : Bip32.XKey),
      derivePathAuxC pr k cs = ofExcept (Bip32.derivePathAux pr k cs)
  | [], k => rfl
  | c :: cs, k => by
    unfold derivePathAuxC childIndexC Bip32.derivePathAux
    cases Bip32.childIndex c with
    | none => rfl
    | some i =>
      simp only [ofOption_some, ok_bind]
      rw [childC_eq pr h512]
      cases Bip32.child pr k i with
      | error e => rfl
      | ok k' => simp only [ofExcept, ok_bind]; exact derivePathAuxC_eq pr h512 cs k'

theorem derivePathC_eq (pr : Prims) (h512 : ∀ key m, (pr.hmac512 key m).length = 64)
    (k : Bip32.XKey) (p : Bytes) :
    derivePathC pr k p = ofExcept (Bip32.deriveChildFromPath pr k p) := by
  unfold derivePathC Bip32.deriveChildFromPath
  split
  · rfl
  · exact derivePathAuxC_eq pr h512 _ k

end GoBk.Checked
