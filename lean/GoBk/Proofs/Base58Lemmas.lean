import GoBk.Model.Base58
import GoBk.Proofs.BytesLemmas
/-
  Helper lemmas for property C13 (base58 / base58check), core Lean only.
-/
namespace GoBk.Base58
open GoBk Bytes

/-! ### facts about the regenerated tables -/

theorem alphabet_length : Gen.alphabet.length = 58 := by decide
theorem b58_length : Gen.b58.length = 256 := by decide +kernel
theorem b58At_alphaAt : ∀ d, d < 58 → b58At (alphaAt d) = UInt8.ofNat d := by decide +kernel
theorem alphaAt_zero : alphaAt 0 = Gen.alphabetIdx0 := by decide
theorem alphabet_nodup : Gen.alphabet.Nodup := by decide +kernel

private theorem alphaAt_b58At_aux : ∀ n, n < 256 → b58At (UInt8.ofNat n) ≠ 255 →
    alphaAt (b58At (UInt8.ofNat n)).toNat = UInt8.ofNat n ∧ (b58At (UInt8.ofNat n)).toNat < 58 := by
  decide +kernel

theorem alphaAt_b58At (c : UInt8) (h : b58At c ≠ 255) :
    alphaAt (b58At c).toNat = c ∧ (b58At c).toNat < 58 := by
  have := alphaAt_b58At_aux c.toNat c.toNat_lt
  simp only [UInt8.ofNat_toNat] at this
  exact this h

private theorem mem_alphabet_aux : ∀ n, n < 256 →
    (UInt8.ofNat n ∈ Gen.alphabet ↔ b58At (UInt8.ofNat n) ≠ 255) := by
  decide +kernel

theorem mem_alphabet_iff (c : UInt8) : c ∈ Gen.alphabet ↔ b58At c ≠ 255 := by
  have := mem_alphabet_aux c.toNat c.toNat_lt
  simpa only [UInt8.ofNat_toNat] using this

theorem b58At_idx0 : b58At Gen.alphabetIdx0 = 0 := by decide

theorem b58At_eq_zero (c : UInt8) (h : b58At c = 0) : c = Gen.alphabetIdx0 := by
  have := (alphaAt_b58At c (by rw [h]; decide)).1
  rw [h] at this
  rw [← this]; exact alphaAt_zero

theorem alphaAt_eq_idx0 (d : Nat) (hd : d < 58) (h : alphaAt d = Gen.alphabetIdx0) : d = 0 := by
  have := b58At_alphaAt d hd
  rw [h, b58At_idx0] at this
  have := congrArg UInt8.toNat this
  simp at this; omega

theorem alphaAt_mem (d : Nat) (hd : d < 58) : alphaAt d ∈ Gen.alphabet := by
  rw [mem_alphabet_iff, b58At_alphaAt d hd]
  intro e
  have := congrArg UInt8.toNat e
  simp at this; omega

/-! ### base-58 digits, independent of the model's fuel -/

/-- most-significant-first base-58 digits of `n`; empty for 0. -/
def digitsBE (n : Nat) : List Nat :=
  if _h : n = 0 then [] else digitsBE (n / 58) ++ [n % 58]
termination_by n
decreasing_by omega

/-- value of a most-significant-first digit list -/
def ofDigits (ds : List Nat) : Nat := ds.foldl (fun a d => a * 58 + d) 0

@[simp] theorem digitsBE_zero : digitsBE 0 = [] := by rw [digitsBE]; simp

theorem digitsBE_of_ne_zero (n : Nat) (h : n ≠ 0) : digitsBE n = digitsBE (n / 58) ++ [n % 58] := by
  rw [digitsBE]; simp [h]

theorem digitsBE_eq_nil_iff (n : Nat) : digitsBE n = [] ↔ n = 0 := by
  constructor
  · intro h
    by_cases hn : n = 0
    · exact hn
    · rw [digitsBE_of_ne_zero n hn] at h; simp at h
  · intro h; subst h; simp

@[simp] theorem ofDigits_nil : ofDigits [] = 0 := rfl

theorem ofDigits_concat (ds : List Nat) (d : Nat) : ofDigits (ds ++ [d]) = ofDigits ds * 58 + d := by
  simp [ofDigits, List.foldl_append]

theorem ofDigits_foldl (ds : List Nat) (a : Nat) :
    ds.foldl (fun a d => a * 58 + d) a = a * 58 ^ ds.length + ofDigits ds := by
  induction ds generalizing a with
  | nil => simp [ofDigits]
  | cons x xs ih =>
    simp only [List.foldl_cons, ofDigits, List.length_cons]
    rw [ih, ih (0 * 58 + x)]
    simp [Nat.pow_succ, Nat.add_mul, Nat.mul_assoc, Nat.add_assoc, Nat.mul_comm (58 ^ xs.length) 58]

theorem ofDigits_cons (x : Nat) (ds : List Nat) : ofDigits (x :: ds) = x * 58 ^ ds.length + ofDigits ds := by
  simp only [ofDigits, List.foldl_cons]
  rw [ofDigits_foldl]; simp [ofDigits]

theorem ofDigits_append (a b : List Nat) : ofDigits (a ++ b) = ofDigits a * 58 ^ b.length + ofDigits b := by
  simp only [ofDigits, List.foldl_append]
  rw [ofDigits_foldl]; simp [ofDigits]

theorem ofDigits_replicate_zero (k : Nat) : ofDigits (List.replicate k 0) = 0 := by
  induction k with
  | zero => rfl
  | succ k ih => rw [List.replicate_succ, ofDigits_cons, ih]; simp

theorem ofDigits_replicate_zero_append (k : Nat) (ds : List Nat) :
    ofDigits (List.replicate k 0 ++ ds) = ofDigits ds := by
  rw [ofDigits_append, ofDigits_replicate_zero]; simp

/-- `digitsBE n` is a numeral for `n` -/
theorem ofDigits_digitsBE (n : Nat) : ofDigits (digitsBE n) = n := by
  induction n using Nat.strongRecOn with
  | _ n ih =>
    by_cases hn : n = 0
    · subst hn; simp
    · rw [digitsBE_of_ne_zero n hn, ofDigits_concat, ih (n / 58) (by omega)]; omega

theorem digitsBE_foldl (n : Nat) : (digitsBE n).foldl (fun a d => a * 58 + d) 0 = n :=
  ofDigits_digitsBE n

theorem digitsBE_lt (n : Nat) : ∀ d ∈ digitsBE n, d < 58 := by
  induction n using Nat.strongRecOn with
  | _ n ih =>
    by_cases hn : n = 0
    · subst hn; simp
    · rw [digitsBE_of_ne_zero n hn]
      intro d hd
      rcases List.mem_append.mp hd with h | h
      · exact ih (n / 58) (by omega) d h
      · simp at h; omega

theorem digitsBE_head?_ne_zero (n : Nat) : (digitsBE n).head? ≠ some 0 := by
  induction n using Nat.strongRecOn with
  | _ n ih =>
    by_cases hn : n = 0
    · subst hn; simp
    · rw [digitsBE_of_ne_zero n hn]
      by_cases hq : n / 58 = 0
      · rw [hq]; simp; omega
      · have hne : digitsBE (n / 58) ≠ [] := fun h => hq ((digitsBE_eq_nil_iff _).mp h)
        have := ih (n / 58) (by omega)
        cases hb : digitsBE (n / 58) with
        | nil => exact absurd hb hne
        | cons y ys => rw [hb] at this; simpa using this

theorem ofDigits_ge_of_head_ne_zero (x : Nat) (ds : List Nat) (hx : x ≠ 0) :
    58 ^ ds.length ≤ ofDigits (x :: ds) := by
  rw [ofDigits_cons]
  have := Nat.mul_le_mul_right (58 ^ ds.length) (show 1 ≤ x by omega)
  omega

/-- uniqueness of the base-58 numeral: a digit list without leading zero is the `digitsBE` of its value -/
theorem digitsBE_ofDigits (ds : List Nat) (hlt : ∀ d ∈ ds, d < 58) (hh : ds.head? ≠ some 0) :
    digitsBE (ofDigits ds) = ds := by
  induction hl : ds.length generalizing ds with
  | zero => simp at hl; subst hl; simp
  | succ k ih =>
    rcases List.eq_nil_or_concat ds with hb | ⟨ds', x, hb⟩
    · subst hb; simp at hl
    · rw [List.concat_eq_append] at hb
      subst hb
      simp at hl
      have hx : x < 58 := hlt x (by simp)
      have hne : ofDigits (ds' ++ [x]) ≠ 0 := by
        cases ds' with
        | nil => simp at hh; simp [ofDigits]; exact hh
        | cons y ys =>
          simp at hh
          have := ofDigits_ge_of_head_ne_zero y (ys ++ [x]) hh
          have : 0 < 58 ^ (ys ++ [x]).length := Nat.pow_pos (by omega)
          simp only [List.cons_append]; omega
      rw [digitsBE_of_ne_zero _ hne, ofDigits_concat]
      have e1 : (ofDigits ds' * 58 + x) / 58 = ofDigits ds' := by omega
      have e2 : (ofDigits ds' * 58 + x) % 58 = x := by omega
      rw [e1, e2]
      congr 1
      cases ds' with
      | nil => simp
      | cons y ys =>
        apply ih _ _ _ hl
        · intro d hd; exact hlt d (by simp at hd ⊢; rcases hd with h | h <;> simp [h])
        · simpa using hh

/-- the model's fuelled little-endian digit loop computes the reversed numeral -/
theorem digitsLE_eq (fuel n : Nat) (h : n < fuel) : digitsLE fuel n = (digitsBE n).reverse := by
  induction fuel generalizing n with
  | zero => omega
  | succ f ih =>
    simp only [digitsLE]
    by_cases hn : n = 0
    · subst hn; simp
    · rw [if_neg hn, digitsBE_of_ne_zero n hn, ih (n / 58) (by omega)]; simp

/-! ### leadingCount -/

theorem leadingCount_replicate_append (c : UInt8) (k : Nat) (l : Bytes) :
    leadingCount c (List.replicate k c ++ l) = k + leadingCount c l := by
  induction k with
  | zero => simp
  | succ k ih => simp [List.replicate_succ, leadingCount, ih]; omega

theorem leadingCount_eq_zero (c : UInt8) (l : Bytes) (h : l.head? ≠ some c) : leadingCount c l = 0 := by
  cases l with
  | nil => rfl
  | cons x xs =>
    simp at h
    simp [leadingCount, h]

theorem eq_replicate_leadingCount_append (c : UInt8) (l : Bytes) :
    l = List.replicate (leadingCount c l) c ++ l.dropWhile (· = c) := by
  induction l with
  | nil => simp [leadingCount]
  | cons x xs ih =>
    by_cases hx : x = c
    · subst hx
      simp only [leadingCount, if_true, List.replicate_succ, List.cons_append, List.dropWhile_cons,
        decide_true]
      congr 1
    · simp [leadingCount, hx]

theorem dropWhile_head?_ne (c : UInt8) (l : Bytes) : (l.dropWhile (· = c)).head? ≠ some c := by
  induction l with
  | nil => simp
  | cons x xs ih =>
    by_cases hx : x = c
    · subst hx; simpa using ih
    · simp [hx]

/-! ### fromDigits -/

theorem fromDigits_eq (ds : List UInt8) : fromDigits ds = ofDigits (ds.map UInt8.toNat) := by
  simp [fromDigits, ofDigits, List.foldl_map]

/-! ### Encode / Decode -/

theorem encode_eq (b : Bytes) :
    encode b = List.replicate (leadingCount 0 b) Gen.alphabetIdx0 ++ (digitsBE (beNat b)).map alphaAt := by
  simp only [encode]
  rw [digitsLE_eq _ _ (by omega)]
  simp [List.map_reverse]

/-- the digit values of a numeral written with `alphaAt` -/
theorem map_b58At_map_alphaAt (ds : List Nat) (h : ∀ d ∈ ds, d < 58) :
    (ds.map alphaAt).map b58At = ds.map UInt8.ofNat := by
  induction ds with
  | nil => rfl
  | cons x xs ih =>
    simp only [List.map_cons]
    rw [b58At_alphaAt x (h x (by simp)), ih (fun d hd => h d (by simp [hd]))]

theorem map_toNat_map_ofNat (ds : List Nat) (h : ∀ d ∈ ds, d < 58) :
    (ds.map UInt8.ofNat).map UInt8.toNat = ds := by
  induction ds with
  | nil => rfl
  | cons x xs ih =>
    simp only [List.map_cons]
    rw [ih (fun d hd => h d (by simp [hd]))]
    have := h x (by simp)
    congr 1
    simp; omega

theorem decode_valid (s : Bytes) (h : ∀ c ∈ s, b58At c ≠ 255) :
    decode s = List.replicate (leadingCount Gen.alphabetIdx0 s) 0 ++ natBE (fromDigits (s.map b58At)) := by
  simp only [decode]
  rw [if_neg]
  simp only [List.any_eq_true, not_exists, not_and]
  intro d hd
  rcases List.mem_map.mp hd with ⟨c, hc, rfl⟩
  simpa using h c hc

theorem decode_encode (b : Bytes) : decode (encode b) = b := by
  have hlt := digitsBE_lt (beNat b)
  have hvalid : ∀ c ∈ encode b, b58At c ≠ 255 := by
    intro c hc
    rw [← mem_alphabet_iff]
    rw [encode_eq] at hc
    rcases List.mem_append.mp hc with h | h
    · rw [List.mem_replicate] at h; rw [h.2, ← alphaAt_zero]; exact alphaAt_mem 0 (by omega)
    · rcases List.mem_map.mp h with ⟨d, hd, rfl⟩; exact alphaAt_mem d (hlt d hd)
  rw [decode_valid _ hvalid, encode_eq]
  -- leading ones
  have hlc : leadingCount Gen.alphabetIdx0
      (List.replicate (leadingCount 0 b) Gen.alphabetIdx0 ++ (digitsBE (beNat b)).map alphaAt)
      = leadingCount 0 b := by
    rw [leadingCount_replicate_append,
      leadingCount_eq_zero Gen.alphabetIdx0 ((digitsBE (beNat b)).map alphaAt)]; · rfl
    have hh := digitsBE_head?_ne_zero (beNat b)
    cases hd : digitsBE (beNat b) with
    | nil => simp
    | cons x xs =>
      rw [hd] at hh hlt
      simp at hh
      simp only [List.map_cons, List.head?_cons, ne_eq, Option.some.injEq]
      intro e
      exact hh (alphaAt_eq_idx0 x (hlt x (by simp)) e)
  rw [hlc]
  -- value
  have hval : fromDigits
      ((List.replicate (leadingCount 0 b) Gen.alphabetIdx0 ++ (digitsBE (beNat b)).map alphaAt).map b58At)
      = beNat b := by
    rw [fromDigits_eq, List.map_append, List.map_replicate, b58At_idx0, map_b58At_map_alphaAt _ hlt,
      List.map_append, List.map_replicate, map_toNat_map_ofNat _ hlt]
    show ofDigits (List.replicate _ 0 ++ _) = _
    rw [ofDigits_replicate_zero_append, ofDigits_digitsBE]
  rw [hval, natBE_beNat]
  exact (eq_replicate_leadingCount_append 0 b).symm

theorem decode_invalid (s : Bytes) (h : ∃ c ∈ s, c ∉ Gen.alphabet) : decode s = [] := by
  rcases h with ⟨c, hc, hn⟩
  simp only [decode]
  rw [if_pos]
  simp only [List.any_eq_true]
  refine ⟨b58At c, List.mem_map.mpr ⟨c, hc, rfl⟩, ?_⟩
  rw [mem_alphabet_iff] at hn
  simpa using hn

theorem encode_decode (s : Bytes) (h : ∀ c ∈ s, c ∈ Gen.alphabet) : encode (decode s) = s := by
  have hvalid : ∀ c ∈ s, b58At c ≠ 255 := fun c hc => (mem_alphabet_iff c).mp (h c hc)
  rw [decode_valid s hvalid, encode_eq]
  -- notation
  generalize hk : leadingCount Gen.alphabetIdx0 s = k
  have hs := eq_replicate_leadingCount_append Gen.alphabetIdx0 s
  rw [hk] at hs
  generalize ht : s.dropWhile (· = Gen.alphabetIdx0) = t at hs
  have hth : t.head? ≠ some Gen.alphabetIdx0 := by rw [← ht]; exact dropWhile_head?_ne _ _
  have htvalid : ∀ c ∈ t, b58At c ≠ 255 := fun c hc => hvalid c (by rw [hs]; simp [hc])
  -- value of the decoded bytes
  have hv : fromDigits (s.map b58At) = ofDigits ((t.map b58At).map UInt8.toNat) := by
    rw [fromDigits_eq]
    conv => lhs; rw [hs]
    rw [List.map_append, List.map_replicate, b58At_idx0, List.map_append, List.map_replicate]
    exact ofDigits_replicate_zero_append _ _
  rw [beNat_replicate_zero_append, beNat_natBE, leadingCount_replicate_append,
    leadingCount_eq_zero 0 _ (natBE_head?_ne_zero _), Nat.add_zero, hv]
  -- the digit list of `t` is canonical
  have hlt : ∀ d ∈ (t.map b58At).map UInt8.toNat, d < 58 := by
    intro d hd
    simp only [List.map_map, List.mem_map, Function.comp] at hd
    rcases hd with ⟨c, hc, rfl⟩
    exact (alphaAt_b58At c (htvalid c hc)).2
  have hhd : ((t.map b58At).map UInt8.toNat).head? ≠ some 0 := by
    cases t with
    | nil => simp
    | cons x xs =>
      simp only [List.map_cons, List.head?_cons, ne_eq, Option.some.injEq]
      intro e
      have : b58At x = 0 := UInt8.toNat_inj.mp (by simpa using e)
      exact hth (by simp [b58At_eq_zero x this])
  rw [digitsBE_ofDigits _ hlt hhd]
  conv => rhs; rw [hs]
  congr 1
  simp only [List.map_map]
  clear hs hv hlt hhd hth ht
  induction t with
  | nil => rfl
  | cons x xs ih =>
    simp only [List.map_cons, Function.comp]
    rw [(alphaAt_b58At x (htvalid x (by simp))).1]
    congr 1
    exact ih (fun c hc => htvalid c (by simp [hc]))

/-! ### base58check -/

theorem checksum_length (pr : Prims) (h : ∀ x, (pr.sha256 x).length = 32) (b : Bytes) :
    (checksum pr b).length = 4 := by
  simp [checksum, Prims.sha256d, h]

/-- `CheckDecode` characterised on the decoded bytes; only needs the checksum to have 4 bytes. -/
theorem checkDecode_eq_some_iff (pr : Prims) (h4 : ∀ x, (checksum pr x).length = 4)
    (s p : Bytes) (v : UInt8) :
    checkDecode pr s = some (p, v) ↔
      (decode s).length ≥ 5 ∧ decode s = v :: p ++ checksum pr (v :: p) := by
  simp only [checkDecode]
  generalize decode s = d
  constructor
  · intro hh
    split at hh
    · cases hh
    · rename_i hlen
      split at hh
      · cases hh
      · rename_i hck
        simp only [bne_iff_ne, ne_eq, Decidable.not_not] at hck
        simp only [Option.some.injEq, Prod.mk.injEq] at hh
        refine ⟨by omega, ?_⟩
        cases d with
        | nil => simp at hlen
        | cons x xs =>
          simp only [List.length_cons] at hlen hck hh
          have e : xs.length + 1 - 4 = (xs.length - 4) + 1 := by omega
          rw [e] at hck hh
          simp only [List.take_succ_cons, List.drop_succ_cons, List.drop_zero, List.headD_cons] at hck hh
          rcases hh with ⟨rfl, rfl⟩
          rw [hck]
          simp
  · rintro ⟨hlen, hd⟩
    have hl4 := h4 (v :: p)
    have hlen' : d.length = p.length + 5 := by rw [hd]; simp [hl4]
    have e : d.length - 4 = (v :: p).length := by simp; omega
    have htake : d.take (d.length - 4) = v :: p := by
      rw [e]; conv => lhs; rw [hd]
      rw [List.take_left']; rfl
    have hdrop : d.drop (d.length - 4) = checksum pr (v :: p) := by
      rw [e]; conv => lhs; rw [hd]
      rw [List.drop_left']; rfl
    rw [if_neg (by omega), htake, hdrop]
    simp [hd]

theorem checkDecode_checkEncode (pr : Prims) (h4 : ∀ x, (checksum pr x).length = 4)
    (p : Bytes) (v : UInt8) : checkDecode pr (checkEncode pr p v) = some (p, v) := by
  rw [checkDecode_eq_some_iff pr h4]
  simp only [checkEncode, decode_encode]
  refine ⟨?_, by simp⟩
  simp [h4]

end GoBk.Base58
