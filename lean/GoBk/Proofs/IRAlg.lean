/-
  GoBk.Proofs.IRAlg — a PROGRAM-INDEPENDENT algebraic evaluator for the point-arithmetic IR
  (`GoBk.IR`, Model/IR.lean) and its soundness with respect to `execBlock` on SAFE runs
  (`GoBk.IRA.RunSafe`, Proofs/IRSound.lean).  Nothing here depends on the text of `Gen/CurveIR.lean`.

  * abstract state `AS`: for every address (a list, `length = Mem.next`) the value of the cell in
    `F = ZMod P` and, where known, the result of the LITERAL zero test `IsZero` on its words
    (`lz`: `some b` / `none` = unknown).  `lz` is known after `Set` from a known cell, `SetInt`,
    `Normalise` (then it is the field zero test) and for freshly allocated locals.
  * `algStmt` / `algBlock` / `algCall`: the evaluator.  It takes the same control decisions as
    `execBlock`: `Equals` is equality in `F`, `IsZero` is looked up in `lz` (evaluation fails with
    `none` when unknown), flags are the concrete flags of the frame; calls allocate zeroed locals.
  * `Abs s m`: the abstract state describes the memory.
  * `algBlock_sound`, `algCall_sound`, `algRun_sound`: on a safe run the evaluator's result
    describes the result of `execBlock` (memory, frame incl. flags, `returned`).
-/
import GoBk.Proofs.IRSound
import GoBk.Proofs.FastCurve

namespace GoBk.IRAlg
open GoBk.IR GoBk.IRA GoBk.Gen.Field GoBk.Proofs.Field

open GoBk.Proofs (F)

theorem P_eq_spec : GoBk.Proofs.Field.P = GoBk.Spec.P := by decide

/-- the field element represented by a word vector -/
def fv (x : FV) : F := (x.val : F)

/-- the field values of a memory -/
def memF (m : Mem) : Nat → F := fun a => fv (m.get a)

theorem memV_cast (m : Mem) (a : Nat) : ((memV m a : ℕ) : F) = memF m a := by
  unfold memV memF fv
  rw [P_eq_spec]
  exact ZMod.natCast_mod _ _

theorem fv_mod (x : FV) : ((x.val % GoBk.Proofs.Field.P : ℕ) : F) = fv x := by
  unfold fv
  rw [P_eq_spec]
  exact ZMod.natCast_mod _ _

/-- algebraic meaning of an operation in `F` -/
def opF (v : Nat → F) (fr : Frame) (dst : Cell) : Op → F
  | .set src => v (fr.addr src)
  | .setInt k => (k : F)
  | .add src => v (fr.addr dst) + v (fr.addr src)
  | .add2 a b => v (fr.addr a) + v (fr.addr b)
  | .addInt k => v (fr.addr dst) + (k : F)
  | .negate _ => - v (fr.addr dst)
  | .negateVal src _ => - v (fr.addr src)
  | .mulInt k => (k : F) * v (fr.addr dst)
  | .mul src => v (fr.addr dst) * v (fr.addr src)
  | .mul2 a b => v (fr.addr a) * v (fr.addr b)
  | .square => v (fr.addr dst) * v (fr.addr dst)
  | .squareVal src => v (fr.addr src) * v (fr.addr src)
  | .normalise => v (fr.addr dst)
  | .inverse => (v (fr.addr dst))⁻¹
  | .sqrtVal src => v (fr.addr src) ^ ((GoBk.Spec.P + 1) / 4)

theorem pow_P_sub_two (x : F) : x ^ (GoBk.Spec.P - 2) = x⁻¹ := by
  by_cases h : x = 0
  · rw [h, inv_zero, zero_pow]
    decide
  · have h1 := ZMod.pow_card_sub_one_eq_one h
    have hP : GoBk.Spec.P - 1 = (GoBk.Spec.P - 2) + 1 := by decide
    rw [hP, pow_succ] at h1
    exact eq_inv_of_mul_eq_one_left h1

theorem opVal_cast (m : Mem) (fr : Frame) (dst : Cell) (o : Op) :
    ((opVal (memV m) fr dst o : ℕ) : F) = opF (memF m) fr dst o := by
  cases o <;> simp only [opVal, opF]
  case set src => exact memV_cast _ _
  case setInt k => rw [P_eq_spec]; exact ZMod.natCast_mod _ _
  case add src => rw [P_eq_spec, ZMod.natCast_mod, Nat.cast_add, memV_cast, memV_cast]
  case add2 a b => rw [P_eq_spec, ZMod.natCast_mod, Nat.cast_add, memV_cast, memV_cast]
  case addInt k => rw [P_eq_spec, ZMod.natCast_mod, Nat.cast_add, memV_cast]
  case negate k =>
    rw [← memV_cast]; unfold memV
    rw [P_eq_spec, ZMod.natCast_mod, GoBk.Proofs.cast_P_sub_mod, ZMod.natCast_mod]
  case negateVal src k =>
    rw [← memV_cast]; unfold memV
    rw [P_eq_spec, ZMod.natCast_mod, GoBk.Proofs.cast_P_sub_mod, ZMod.natCast_mod]
  case mulInt k => rw [P_eq_spec, ZMod.natCast_mod, Nat.cast_mul, memV_cast]
  case mul src => rw [P_eq_spec, ZMod.natCast_mod, Nat.cast_mul, memV_cast, memV_cast]
  case mul2 a b => rw [P_eq_spec, ZMod.natCast_mod, Nat.cast_mul, memV_cast, memV_cast]
  case square => rw [P_eq_spec, ZMod.natCast_mod, Nat.cast_mul, memV_cast]
  case squareVal src => rw [P_eq_spec, ZMod.natCast_mod, Nat.cast_mul, memV_cast]
  case normalise => exact memV_cast _ _
  case inverse =>
    rw [P_eq_spec, ZMod.natCast_mod, Nat.cast_pow, memV_cast, pow_P_sub_two]
  case sqrtVal src =>
    rw [P_eq_spec, ZMod.natCast_mod, Nat.cast_pow, memV_cast]

/-- a safe operation computes its algebraic meaning in `F` -/
theorem opSafe_fv {m : Mem} {fr : Frame} {dst : Cell} {o : Op} (h : OpSafe m fr dst o) :
    fv (applyOp m fr dst o) = opF (memF m) fr dst o := by
  rw [← fv_mod, h.val, opVal_cast]

/-! ## abstract states -/

structure AS where
  val : List F
  lz : List (Option Bool)

def AS.getV (s : AS) (a : Nat) : F := s.val.getD a 0
def AS.getZ (s : AS) (a : Nat) : Option Bool := s.lz.getD a none
def AS.set (s : AS) (a : Nat) (v : F) (z : Option Bool) : AS := ⟨s.val.set a v, s.lz.set a z⟩
def AS.alloc (s : AS) (n : Nat) : AS :=
  ⟨s.val ++ List.replicate n 0, s.lz ++ List.replicate n (some true)⟩

/-- what is known about the literal zero test of the result of an operation -/
def lzA (s : AS) (fr : Frame) (dst : Cell) : Op → Option Bool
  | .set src => s.getZ (fr.addr src)
  | .setInt k => some (isZero (setInt k))
  | .normalise => some (decide (s.getV (fr.addr dst) = 0))
  | _ => none

/-- value of a condition, if determined by the abstract state (short-circuit evaluation) -/
def condA (s : AS) (fr : Frame) : Cond → Option Bool
  | .isZero c => s.getZ (fr.addr c)
  | .equals a b => some (decide (s.getV (fr.addr a) = s.getV (fr.addr b)))
  | .isOdd _ => none
  | .flag i => some (fr.flags i)
  | .not c => (condA s fr c).map (!·)
  | .and a b => (condA s fr a).bind fun x => if x then condA s fr b else some false
  | .or a b => (condA s fr a).bind fun x => if x then some true else condA s fr b

/-- result of the evaluator: state, frame, `returned` -/
structure AOutS where
  st : AS
  fr : Frame
  returned : Bool

abbrev ACallK := Nat → List Nat → AS → Option AS

mutual
def algStmt (K : ACallK) (s : AS) (fr : Frame) : Stmt → Option AOutS
  | .op dst o =>
    if fr.addr dst < s.val.length then
      some ⟨s.set (fr.addr dst) (opF s.getV fr dst o) (lzA s fr dst o), fr, false⟩
    else none
  | .setFlag i c =>
    (condA s fr c).bind fun v =>
      some ⟨s, { fr with flags := fun j => if j = i then v else fr.flags j }, false⟩
  | .ite c t e => (condA s fr c).bind fun b => if b then algBlock K s fr t else algBlock K s fr e
  | .ret => some ⟨s, fr, true⟩
  | .call f args => (K f (args.map fr.addr) s).bind fun s' => some ⟨s', fr, false⟩
def algBlock (K : ACallK) (s : AS) (fr : Frame) : Block → Option AOutS
  | .nil => some ⟨s, fr, false⟩
  | .cons st rest =>
    (algStmt K s fr st).bind fun o => if o.returned then some o else algBlock K o.st o.fr rest
end

def algCall (prog : Array Fn) : Nat → ACallK
  | 0 => fun _ _ _ => none
  | fuel + 1 => fun f addrs s =>
    match prog[f]? with
    | none => none
    | some fn =>
      (algBlock (algCall prog fuel) (s.alloc fn.nlocals) { params := addrs, locBase := s.val.length }
        fn.body).bind fun o => some o.st

/-! ## the abstract state describes a memory -/

structure Abs (s : AS) (m : Mem) : Prop where
  lenV : s.val.length = m.next
  lenZ : s.lz.length = m.next
  val : ∀ a, fv (m.get a) = s.getV a
  lz : ∀ a b, s.getZ a = some b → isZero (m.get a) = b

theorem Abs.memF_eq {s : AS} {m : Mem} (h : Abs s m) : memF m = s.getV := funext h.val

theorem fv_zero : fv zero = 0 := by
  unfold fv
  have : zero.val = 0 := by decide
  rw [this, Nat.cast_zero]

theorem isZero_zero : isZero zero = true := by decide

theorem Abs.set {s : AS} {m : Mem} (h : Abs s m) {a : Nat} {x : FV} {v : F} {z : Option Bool}
    (ha : a < s.val.length) (hv : fv x = v) (hz : ∀ b, z = some b → isZero x = b) :
    Abs (s.set a v z) (m.set a x) := by
  have haz : a < s.lz.length := by rw [h.lenZ, ← h.lenV]; exact ha
  refine ⟨?_, ?_, ?_, ?_⟩
  · show (s.val.set a v).length = m.next
    rw [List.length_set]; exact h.lenV
  · show (s.lz.set a z).length = m.next
    rw [List.length_set]; exact h.lenZ
  · intro a'
    show fv (if a' = a then x else m.vals a') = (s.val.set a v).getD a' 0
    by_cases e : a' = a
    · subst e
      rw [if_pos rfl, hv, List.getD_eq_getElem?_getD, List.getElem?_set_self ha]
      rfl
    · rw [if_neg e, List.getD_eq_getElem?_getD, List.getElem?_set_ne (fun h => e h.symm),
        ← List.getD_eq_getElem?_getD]
      exact h.val a'
  · intro a' b hb
    show isZero (if a' = a then x else m.vals a') = b
    have hb' : (s.lz.set a z).getD a' none = some b := hb
    by_cases e : a' = a
    · subst e
      rw [List.getD_eq_getElem?_getD, List.getElem?_set_self haz] at hb'
      rw [if_pos rfl]
      exact hz b hb'
    · rw [List.getD_eq_getElem?_getD, List.getElem?_set_ne (fun h => e h.symm),
        ← List.getD_eq_getElem?_getD] at hb'
      rw [if_neg e]
      exact h.lz a' b hb'

theorem getD_append_replicate {α} (l : List α) (n : Nat) (x d : α) (a : Nat) :
    (l ++ List.replicate n x).getD a d =
      if a < l.length then l.getD a d else if a < l.length + n then x else d := by
  rw [List.getD_eq_getElem?_getD]
  by_cases h : a < l.length
  · rw [if_pos h, List.getElem?_append_left h, ← List.getD_eq_getElem?_getD]
  · rw [if_neg h, List.getElem?_append_right (by omega), List.getElem?_replicate]
    by_cases h2 : a < l.length + n
    · rw [if_pos h2, if_pos (by omega)]; rfl
    · rw [if_neg h2, if_neg (by omega)]; rfl

/-- allocation of `n` zeroed locals, as in `execStmt` for calls -/
theorem Abs.alloc {s : AS} {m : Mem} (h : Abs s m) (n : Nat) :
    Abs (s.alloc n)
      { vals := fun a => if m.next ≤ a ∧ a < m.next + n then zero else m.vals a,
        next := m.next + n } := by
  refine ⟨?_, ?_, ?_, ?_⟩
  · show (s.val ++ List.replicate n 0).length = m.next + n
    rw [List.length_append, List.length_replicate, h.lenV]
  · show (s.lz ++ List.replicate n (some true)).length = m.next + n
    rw [List.length_append, List.length_replicate, h.lenZ]
  · intro a
    show fv (if m.next ≤ a ∧ a < m.next + n then zero else m.vals a)
      = (s.val ++ List.replicate n 0).getD a 0
    rw [getD_append_replicate, h.lenV]
    by_cases h1 : a < m.next
    · rw [if_pos h1, if_neg (by omega)]; exact h.val a
    · rw [if_neg h1]
      by_cases h2 : a < m.next + n
      · rw [if_pos h2, if_pos ⟨by omega, h2⟩, fv_zero]
      · rw [if_neg h2, if_neg (by omega)]
        refine (h.val a).trans ?_
        show s.val.getD a 0 = 0
        rw [List.getD_eq_getElem?_getD, List.getElem?_eq_none (by rw [h.lenV]; omega)]
        rfl
  · intro a b hb
    have hb' : (s.lz ++ List.replicate n (some true)).getD a none = some b := hb
    show isZero (if m.next ≤ a ∧ a < m.next + n then zero else m.vals a) = b
    rw [getD_append_replicate, h.lenZ] at hb'
    by_cases h1 : a < m.next
    · rw [if_pos h1] at hb'
      rw [if_neg (by omega)]; exact h.lz a b hb'
    · rw [if_neg h1] at hb'
      by_cases h2 : a < m.next + n
      · rw [if_pos h2] at hb'
        rw [if_pos ⟨by omega, h2⟩, isZero_zero]
        cases hb'; rfl
      · rw [if_neg h2] at hb'; cases hb'

/-! ## soundness -/

theorem lzA_sound {s : AS} {m : Mem} {fr : Frame} {dst : Cell} {o : Op} (h : Abs s m)
    (hs : OpSafe m fr dst o) : ∀ b, lzA s fr dst o = some b → isZero (applyOp m fr dst o) = b := by
  intro b hb
  cases o <;> simp only [lzA] at hb <;> try (cases hb; done)
  case set src => exact h.lz _ _ hb
  case setInt k => cases hb; rfl
  case normalise =>
    cases hb
    have hn := hs.norm rfl
    have hv := opSafe_fv hs
    simp only [opF] at hv
    rw [h.memF_eq] at hv
    rw [← hv]
    rw [Bool.eq_iff_iff, isZero_iff, decide_eq_true_iff]
    unfold fv
    rw [ZMod.natCast_eq_zero_iff]
    constructor
    · intro h0; rw [h0]; exact Nat.dvd_zero _
    · intro hd
      have hlt : (applyOp m fr dst Op.normalise).val < GoBk.Spec.P := by rw [← P_eq_spec]; exact hn.2
      exact Nat.eq_zero_of_dvd_of_lt hd hlt

theorem condA_sound {s : AS} {m : Mem} {fr : Frame} (h : Abs s m) :
    ∀ {c : Cond} {b : Bool}, condA s fr c = some b → CondSafe m fr c → evalCond m fr c = b
  | .isZero c, b, hb, _ => h.lz _ _ hb
  | .equals x y, b, hb, hs => by
    simp only [condA, Option.some.injEq] at hb
    rw [evalCond_equals hs, ← hb]
    congr 1
    rw [← h.val, ← h.val]
    show (memV m (fr.addr x) = memV m (fr.addr y)) = (memF m (fr.addr x) = memF m (fr.addr y))
    rw [← memV_cast, ← memV_cast]
    apply propext
    constructor
    · intro e; rw [e]
    · intro e
      have := (ZMod.natCast_eq_natCast_iff' _ _ _).1 e
      have l1 : memV m (fr.addr x) < GoBk.Spec.P := by
        unfold memV; rw [P_eq_spec]; exact Nat.mod_lt _ GoBk.Proofs.P_pos
      have l2 : memV m (fr.addr y) < GoBk.Spec.P := by
        unfold memV; rw [P_eq_spec]; exact Nat.mod_lt _ GoBk.Proofs.P_pos
      rwa [Nat.mod_eq_of_lt l1, Nat.mod_eq_of_lt l2] at this
  | .isOdd _, b, hb, _ => by simp only [condA] at hb; cases hb
  | .flag i, b, hb, _ => by
    simp only [condA, Option.some.injEq] at hb
    simp only [evalCond]; exact hb
  | .not c, b, hb, hs => by
    simp only [condA, Option.map_eq_some_iff] at hb
    obtain ⟨x, hx, rfl⟩ := hb
    simp only [evalCond]
    rw [condA_sound h hx hs]
  | .and x y, b, hb, hs => by
    simp only [condA, Option.bind_eq_some_iff] at hb
    obtain ⟨vx, hx, hb⟩ := hb
    have ex := condA_sound h hx hs.1
    simp only [evalCond, ex]
    cases vx
    · simp only [Bool.false_eq_true, if_false, Option.some.injEq] at hb
      rw [← hb]; rfl
    · simp only [if_true] at hb
      rw [condA_sound h hb (hs.2 ex)]; rfl
  | .or x y, b, hb, hs => by
    simp only [condA, Option.bind_eq_some_iff] at hb
    obtain ⟨vx, hx, hb⟩ := hb
    have ex := condA_sound h hx hs.1
    simp only [evalCond, ex]
    cases vx
    · simp only [Bool.false_eq_true, if_false] at hb
      rw [condA_sound h hb (hs.2 ex)]; rfl
    · simp only [if_true, Option.some.injEq] at hb
      rw [← hb]; rfl

/-- the evaluator's result describes the concrete result -/
def OutOk (r : AOutS) (o : Out) : Prop := Abs r.st o.mem ∧ o.fr = r.fr ∧ o.returned = r.returned

/-- the call handler `K` is sound for calls executed with call fuel `fuel` -/
def ACallSound (K : ACallK) (prog : Array Fn) (fuel : Nat) : Prop :=
  ∀ (f : Nat) (args : List Cell) (fr : Frame) (s s' : AS) (m : Mem),
    K f (args.map fr.addr) s = some s' → Abs s m → SafeStmt prog fuel m fr (.call f args) →
    Abs s' (execStmt prog fuel m fr (.call f args)).mem

mutual
theorem algStmt_sound {K : ACallK} {prog : Array Fn} {fuel : Nat} (hK : ACallSound K prog fuel) :
    ∀ (st : Stmt) (s : AS) (fr : Frame) (m : Mem) (r : AOutS),
      algStmt K s fr st = some r → Abs s m → SafeStmt prog fuel m fr st →
      OutOk r (execStmt prog fuel m fr st)
  | .op dst o, s, fr, m, r, h, ha, hs => by
    simp only [algStmt] at h
    split at h
    · rename_i hlt
      cases h
      simp only [SafeStmt] at hs
      simp only [execStmt, OutOk, and_true]
      refine ha.set hlt ?_ (lzA_sound ha hs)
      rw [opSafe_fv hs, ha.memF_eq]
    · cases h
  | .setFlag i c, s, fr, m, r, h, ha, hs => by
    simp only [algStmt, Option.bind_eq_some_iff] at h
    obtain ⟨v, hv, h⟩ := h
    cases h
    simp only [SafeStmt] at hs
    simp only [execStmt, OutOk, and_true]
    refine ⟨ha, ?_⟩
    rw [condA_sound ha hv hs]
  | .ite c t e, s, fr, m, r, h, ha, hs => by
    simp only [algStmt, Option.bind_eq_some_iff] at h
    obtain ⟨b, hb, h⟩ := h
    simp only [SafeStmt] at hs
    have ec := condA_sound ha hb hs.1
    have hs2 := hs.2
    simp only [execStmt, ec]
    rw [ec] at hs2
    cases b
    · simp only [Bool.false_eq_true, if_false] at h hs2 ⊢
      exact algBlock_sound hK e s fr m r h ha hs2
    · simp only [if_true] at h hs2 ⊢
      exact algBlock_sound hK t s fr m r h ha hs2
  | .ret, s, fr, m, r, h, ha, _ => by
    simp only [algStmt] at h
    cases h
    simp only [execStmt, OutOk, and_true]
    exact ha
  | .call f args, s, fr, m, r, h, ha, hs => by
    simp only [algStmt, Option.bind_eq_some_iff] at h
    obtain ⟨s', hs', h⟩ := h
    cases h
    obtain ⟨hret, hfr⟩ := execStmt_call_shape prog fuel m fr f args
    exact ⟨hK f args fr s s' m hs' ha hs, hfr, hret⟩
theorem algBlock_sound {K : ACallK} {prog : Array Fn} {fuel : Nat} (hK : ACallSound K prog fuel) :
    ∀ (b : Block) (s : AS) (fr : Frame) (m : Mem) (r : AOutS),
      algBlock K s fr b = some r → Abs s m → SafeBlock prog fuel m fr b →
      OutOk r (execBlock prog fuel m fr b)
  | .nil, s, fr, m, r, h, ha, _ => by
    simp only [algBlock] at h
    cases h
    simp only [execBlock, OutOk, and_true]
    exact ha
  | .cons st rest, s, fr, m, r, h, ha, hs => by
    simp only [algBlock, Option.bind_eq_some_iff] at h
    obtain ⟨o, ho, h⟩ := h
    simp only [SafeBlock] at hs
    obtain ⟨h1, h2, h3⟩ := algStmt_sound hK st s fr m o ho ha hs.1
    have hs2 := hs.2
    simp only [execBlock]
    rw [h3] at hs2 ⊢
    cases hr : o.returned
    · rw [hr] at h hs2
      simp only [Bool.false_eq_true, if_false] at h hs2 ⊢
      rw [h2] at hs2 ⊢
      exact algBlock_sound hK rest o.st o.fr _ r h h1 hs2
    · rw [hr] at h
      simp only [if_true, Option.some.injEq] at h ⊢
      subst h
      exact ⟨h1, h2, h3⟩
end

theorem algCall_sound (prog : Array Fn) : ∀ fuel : Nat, ACallSound (algCall prog fuel) prog fuel
  | 0 => by
    intro f args fr s s' m h _ _
    simp only [algCall] at h
    cases h
  | fuel + 1 => by
    intro f args fr s s' m h ha hs
    simp only [algCall] at h
    split at h
    · cases h
    · rename_i fn hfn
      simp only [Option.bind_eq_some_iff] at h
      obtain ⟨o, ho, h⟩ := h
      cases h
      simp only [SafeStmt, hfn] at hs
      simp only [execStmt, hfn]
      rw [ha.lenV] at ho
      exact (algBlock_sound (algCall_sound prog fuel) fn.body _ _ _ o ho (ha.alloc fn.nlocals) hs).1

/-- **Soundness of the algebraic evaluator**: on a safe run, its result describes the result of
`execBlock` (memory values in `F`, known literal-zero flags, frame and `returned`). -/
theorem algRun_sound {prog : Array Fn} {fuel : Nat} {s : AS} {fr : Frame} {m : Mem} {blk : Block}
    {r : AOutS} (h : algBlock (algCall prog fuel) s fr blk = some r) (ha : Abs s m)
    (hs : RunSafe prog fuel m fr blk) : OutOk r (execBlock prog fuel m fr blk) :=
  algBlock_sound (algCall_sound prog fuel) blk s fr m r h ha hs

/-! ## head-first evaluation support (for `simp only` on closed programs)

`simp` visits arguments before the head, so the `bind`-continuations of `algBlock`/`algStmt` are
restated with the opaque combinators `andThen` / `iteA`, whose continuation is DATA (a `Block`). -/

def andThen (x : Option AOutS) (K : ACallK) (rest : Block) : Option AOutS :=
  x.bind fun o => if o.returned then some o else algBlock K o.st o.fr rest
def iteA (c : Option Bool) (K : ACallK) (s : AS) (fr : Frame) (t e : Block) : Option AOutS :=
  c.bind fun b => if b then algBlock K s fr t else algBlock K s fr e

theorem algBlock_nil (K s fr) : algBlock K s fr .nil = some ⟨s, fr, false⟩ := by simp only [algBlock]
theorem algBlock_cons (K s fr st rest) :
    algBlock K s fr (.cons st rest) = andThen (algStmt K s fr st) K rest := by
  simp only [algBlock, andThen]
theorem algStmt_ite (K s fr c t e) : algStmt K s fr (.ite c t e) = iteA (condA s fr c) K s fr t e := by
  simp only [algStmt, iteA]
theorem algStmt_op (K s fr dst o) : algStmt K s fr (.op dst o) =
    if fr.addr dst < s.val.length then
      some ⟨s.set (fr.addr dst) (opF s.getV fr dst o) (lzA s fr dst o), fr, false⟩
    else none := by simp only [algStmt]
theorem algStmt_setFlag (K s fr i c) : algStmt K s fr (.setFlag i c) =
    (condA s fr c).bind fun v =>
      some ⟨s, { fr with flags := fun j => if j = i then v else fr.flags j }, false⟩ := by
  simp only [algStmt]
theorem algStmt_ret (K s fr) : algStmt K s fr .ret = some ⟨s, fr, true⟩ := by simp only [algStmt]
theorem algStmt_call (K s fr f args) : algStmt K s fr (.call f args) =
    (K f (args.map fr.addr) s).bind fun s' => some ⟨s', fr, false⟩ := by simp only [algStmt]

theorem andThen_false (s fr K rest) : andThen (some ⟨s, fr, false⟩) K rest = algBlock K s fr rest := rfl
theorem andThen_true (s fr K rest) : andThen (some ⟨s, fr, true⟩) K rest = some ⟨s, fr, true⟩ := rfl
theorem andThen_none (K rest) : andThen none K rest = none := rfl
theorem andThen_ite (c : Prop) [Decidable c] (a b K rest) :
    andThen (if c then a else b) K rest = if c then andThen a K rest else andThen b K rest := by
  split <;> rfl
theorem iteA_some (b : Bool) (K s fr t e) :
    iteA (some b) K s fr t e = if b = true then algBlock K s fr t else algBlock K s fr e := by
  cases b <;> rfl
theorem iteA_none (K s fr t e) : iteA none K s fr t e = none := rfl
theorem iteA_ite (c : Prop) [Decidable c] (a b K s fr t e) :
    iteA (if c then a else b) K s fr t e = if c then iteA a K s fr t e else iteA b K s fr t e := by
  split <;> rfl

theorem bind_ite {α β} (c : Prop) [Decidable c] (a b : Option α) (f : α → Option β) :
    (if c then a else b).bind f = if c then a.bind f else b.bind f := by split <;> rfl

/-- short-circuit `&&` / `||` of two determined conditions, as one Boolean -/
theorem ite_some_and (x y : Bool) : (if x = true then some y else some false) = some (x && y) := by
  cases x <;> rfl
theorem ite_some_or (x y : Bool) : (if x = true then some true else some y) = some (x || y) := by
  cases x <;> rfl

theorem algCall_succ (prog : Array Fn) (fuel f : Nat) (addrs : List Nat) (s : AS) :
    algCall prog (fuel+1) f addrs s = match prog[f]? with
      | none => none
      | some fn => (algBlock (algCall prog fuel) (s.alloc fn.nlocals)
          {params := addrs, locBase := s.val.length} fn.body).bind fun o => some o.st := rfl

theorem isZero_setInt0 : isZero (setInt 0) = true := by decide
theorem isZero_setInt1 : isZero (setInt 1) = false := by decide

/-! ## whole functions in the memory layout of `runFn` / `runFnFull` -/

/-- the abstract state describing `initMem consts args nlocals` -/
def initAS (consts : FV × FV × FV) (args : List FV) (nlocals : Nat) : AS :=
  ⟨[fv consts.1, fv consts.2.1, fv consts.2.2] ++ args.map fv ++ List.replicate nlocals 0,
   [none, none, none] ++ args.map (fun x => some (isZero x)) ++ List.replicate nlocals (some true)⟩

theorem getD_map_fv (args : List FV) (a : Nat) : (args.map fv).getD a 0 = fv (args.getD a zero) := by
  rw [List.getD_eq_getElem?_getD, List.getD_eq_getElem?_getD, List.getElem?_map]
  cases args[a]? <;> simp [fv_zero]

theorem abs_init (consts : FV × FV × FV) (args : List FV) (nlocals : Nat) :
    Abs (initAS consts args nlocals) (initMem consts args nlocals) := by
  refine ⟨?_, ?_, ?_, ?_⟩
  · simp [initAS, initMem]; omega
  · simp [initAS, initMem]; omega
  · intro a
    show fv (if a = 0 then consts.1 else if a = 1 then consts.2.1 else if a = 2 then consts.2.2
      else if a < 3 + args.length then args.getD (a - 3) zero else zero) = _
    match a with
    | 0 => rfl
    | 1 => rfl
    | 2 => rfl
    | a + 3 =>
      have e0 : (a + 3 = 0) = False := by simp
      have e1 : (a + 3 = 1) = False := by simp
      have e2 : (a + 3 = 2) = False := by simp
      simp only [e0, e1, e2, if_false, Nat.add_sub_cancel]
      show _ = (([fv consts.1, fv consts.2.1, fv consts.2.2] ++ args.map fv) ++ List.replicate nlocals 0).getD (a + 3) 0
      rw [getD_append_replicate]
      simp only [List.length_append, List.length_cons, List.length_nil, List.length_map]
      by_cases h : a < args.length
      · rw [if_pos (by omega), if_pos (by omega)]
        simp only [List.cons_append, List.nil_append, List.getD_cons_succ]
        rw [getD_map_fv]
      · rw [if_neg (by omega), if_neg (by omega), fv_zero]
        split <;> rfl
  · intro a b hb
    show isZero (if a = 0 then consts.1 else if a = 1 then consts.2.1 else if a = 2 then consts.2.2
      else if a < 3 + args.length then args.getD (a - 3) zero else zero) = b
    have hb' : (([none, none, none] ++ args.map (fun x => some (isZero x))) ++
        List.replicate nlocals (some true)).getD a none = some b := hb
    match a, hb' with
    | 0, hb' => cases hb'
    | 1, hb' => cases hb'
    | 2, hb' => cases hb'
    | a + 3, hb' =>
      have e0 : (a + 3 = 0) = False := by simp
      have e1 : (a + 3 = 1) = False := by simp
      have e2 : (a + 3 = 2) = False := by simp
      simp only [e0, e1, e2, if_false, Nat.add_sub_cancel]
      rw [getD_append_replicate] at hb'
      simp only [List.length_append, List.length_cons, List.length_nil, List.length_map] at hb'
      by_cases h : a < args.length
      · rw [if_pos (by omega)] at hb'
        rw [if_pos (by omega)]
        simp only [List.cons_append, List.nil_append, List.getD_cons_succ] at hb'
        rw [List.getD_eq_getElem?_getD, List.getElem?_map] at hb'
        rw [List.getD_eq_getElem?_getD]
        cases hh : args[a]? with
        | none => rw [hh] at hb'; cases hb'
        | some x => rw [hh] at hb'; simp only [Option.map_some, Option.getD_some, Option.some.injEq] at hb' ⊢; exact hb'
      · rw [if_neg (by omega)] at hb'
        rw [if_neg (by omega), isZero_zero]
        split at hb'
        · cases hb'; rfl
        · cases hb'

/-- **soundness for whole functions**: if the evaluator succeeds on the initial abstract state and
the run is safe, its result describes the final memory / flags of `runFnFull` -/
theorem algFn_sound {prog : Array Fn} {fn : Fn} {consts : FV × FV × FV} {args : List FV}
    {al : List Nat} {flags0 : Nat → Bool} {r : AOutS}
    (h : algBlock (algCall prog 8) (initAS consts args fn.nlocals) (initFrame args.length al flags0)
      fn.body = some r)
    (hs : RunSafe prog 8 (initMem consts args fn.nlocals) (initFrame args.length al flags0) fn.body) :
    OutOk r (runOut prog consts fn args al flags0) :=
  algRun_sound h (abs_init consts args fn.nlocals) hs

end GoBk.IRAlg
