/-
  GoBk.Proofs.IRSound — SOUNDNESS of the magnitude / normalisation analysis
  (`GoBk.IRA.magCheck`, Model/IRAnalysis.lean) with respect to the executable semantics of the
  point-arithmetic IR (`GoBk.IR.execBlock`, Model/IR.lean) over the regenerated word-level field
  operations (`GoBk.Gen.Field`).  Proved ONCE, for arbitrary programs `prog`; nothing here depends
  on the text of `Gen/CurveIR.lean`.

  * `γ ρ m`            concretisation: `ρ.length = m.next`, and for every address `a` with abstract
                       value `v`: `MagLe v.mag (m.get a)` and, if `v.canon`, `Norm (m.get a)`
                       (canonical words and value < P).
  * `OpSafe m fr dst o` for ONE executed operation instance:
        (1) no 32/64-bit word wraps: `(applyOp m fr dst o).toN = applyOpExact … o` (the `_exact`
            Nat twin of the operation applied to the operands' `toN`);
        (2) its algebraic meaning modulo P: `(applyOp …).val % P = opVal (values mod P) … o`
            (+, −, k·, ·, ², identity, `^(P-2)`, `^((P+1)/4)`);
        (3) `Normalise` returns a fully normalised value.
  * `CondSafe m fr c`  every `Equals` / `IsOdd` that is actually evaluated (short-circuit `&&`/`||`)
                       has fully normalised operands.
  * `RunSafe prog fuel m fr blk`  every operation executed by `execBlock prog fuel m fr blk`
                       (including those in callees) is `OpSafe` and every condition evaluated is
                       `CondSafe` (defined by recursion along `execBlock`).
  * `magCheck_sound`   `magCheck prog fuel fr.toA blk ρ = some outs → γ ρ m →
                          RunSafe prog fuel m fr blk ∧
                          ∃ o ∈ outs, o.returned = (execBlock …).returned ∧ γ o.mem (execBlock …).mem`.
  * `magCheckFn_sound`, `magCheckFnOk_sound`  the same for whole functions in the memory layout of
                       `GoBk.IR.runFn` / `runFnFull`.
-/
import GoBk.Model.IRAnalysis
import GoBk.Proofs.FieldLinear
import GoBk.Proofs.FieldMul
import GoBk.Proofs.FieldNormalise
import GoBk.Proofs.IRChains

namespace GoBk.IRA
open GoBk.IR GoBk.Gen.Field GoBk.Proofs.Field

/-! ## concretisation -/

/-- fully normalised: canonical words and value below the prime (what `Normalise` returns) -/
def Norm (x : FV) : Prop := Canon x ∧ x.val < P

instance (x : FV) : Decidable (Norm x) := by unfold Norm; infer_instance

theorem Norm.magLe {x : FV} (h : Norm x) : MagLe 1 x := h.1.magLe

/-- the concrete value `x` is described by the abstract value `v` -/
def Sat (v : AVal) (x : FV) : Prop := MagLe v.mag x ∧ (v.canon = true → Norm x)

instance (v : AVal) (x : FV) : Decidable (Sat v x) := by unfold Sat; infer_instance

/-- concretisation of abstract memories -/
def γ (ρ : AMem) (m : Mem) : Prop :=
  ρ.length = m.next ∧ ∀ a v, ρ[a]? = some v → Sat v (m.get a)

theorem toA_addr (fr : Frame) (c : Cell) : fr.toA.addr c = fr.addr c := by
  cases c <;> rfl

theorem toA_addr_fun (fr : Frame) : fr.toA.addr = fr.addr := funext (toA_addr fr)

theorem zero_magLe : MagLe 0 zero := by decide
theorem zero_norm : Norm zero := by decide
theorem sat_zero : Sat AVal.zero zero := ⟨zero_magLe, fun _ => zero_norm⟩

theorem Sat.join_left {x y : AVal} {v : FV} (h : Sat x v) : Sat (x.join y) v :=
  ⟨h.1.mono (Nat.le_max_left _ _), fun hc => h.2 (by
    simp only [AVal.join, Bool.and_eq_true] at hc; exact hc.1)⟩

theorem Sat.join_right {x y : AVal} {v : FV} (h : Sat y v) : Sat (x.join y) v :=
  ⟨h.1.mono (Nat.le_max_right _ _), fun hc => h.2 (by
    simp only [AVal.join, Bool.and_eq_true] at hc; exact hc.2)⟩

theorem Sat.of_le {a b : AVal} {v : FV} (hle : a.le b = true) (h : Sat a v) : Sat b v := by
  simp only [AVal.le, Bool.and_eq_true, decide_eq_true_eq, Bool.or_eq_true, Bool.not_eq_true'] at hle
  refine ⟨h.1.mono hle.1, fun hc => h.2 ?_⟩
  rcases hle.2 with h' | h'
  · rw [h'] at hc; cases hc
  · exact h'

theorem getElem?_zipWith_some {f : AVal → AVal → AVal} :
    ∀ {l₁ l₂ : List AVal} {a : Nat} {v : AVal}, (List.zipWith f l₁ l₂)[a]? = some v →
      ∃ x y, l₁[a]? = some x ∧ l₂[a]? = some y ∧ v = f x y
  | [], _, a, v, h => by simp at h
  | _ :: _, [], a, v, h => by simp at h
  | x :: xs, y :: ys, 0, v, h => by
    simp only [List.zipWith_cons_cons, List.getElem?_cons_zero, Option.some.injEq] at h
    exact ⟨x, y, rfl, rfl, h.symm⟩
  | x :: xs, y :: ys, a + 1, v, h => by
    simp only [List.zipWith_cons_cons, List.getElem?_cons_succ] at h
    simpa using getElem?_zipWith_some h

theorem γ_join_left {p o : AMem} {m : Mem} (h : γ p m) (hl : p.length = o.length) :
    γ (joinMem p o) m := by
  refine ⟨?_, ?_⟩
  · rw [joinMem, List.length_zipWith, ← hl, Nat.min_self]; exact h.1
  · intro a v hv
    obtain ⟨x, y, hx, _, rfl⟩ := getElem?_zipWith_some hv
    exact (h.2 a x hx).join_left

theorem γ_join_right {p o : AMem} {m : Mem} (h : γ o m) (hl : p.length = o.length) :
    γ (joinMem p o) m := by
  refine ⟨?_, ?_⟩
  · rw [joinMem, List.length_zipWith, hl, Nat.min_self]; exact h.1
  · intro a v hv
    obtain ⟨x, y, _, hy, rfl⟩ := getElem?_zipWith_some hv
    exact (h.2 a y hy).join_right

theorem γ_set {ρ : AMem} {m : Mem} {a : Nat} {v : AVal} {x : FV}
    (h : γ ρ m) (hs : Sat v x) : γ (ρ.set a v) (m.set a x) := by
  refine ⟨?_, ?_⟩
  · rw [List.length_set]; exact h.1
  · intro a' v' hv'
    rw [List.getElem?_set] at hv'
    show Sat v' (if a' = a then x else m.vals a')
    split at hv'
    · rename_i heq
      split at hv'
      · cases hv'; rw [if_pos heq.symm]; exact hs
      · cases hv'
    · rename_i hne
      rw [if_neg (fun h => hne h.symm)]
      exact h.2 a' v' hv'

/-- allocation of `n` zeroed locals, as in `execStmt` for calls -/
theorem γ_alloc {ρ : AMem} {m : Mem} (h : γ ρ m) (n : Nat) :
    γ (ρ ++ List.replicate n AVal.zero)
      { vals := fun a => if m.next ≤ a ∧ a < m.next + n then zero else m.vals a,
        next := m.next + n } := by
  refine ⟨?_, ?_⟩
  · simp only [List.length_append, List.length_replicate, h.1]
  · intro a v hv
    show Sat v (if m.next ≤ a ∧ a < m.next + n then zero else m.vals a)
    by_cases ha : a < ρ.length
    · rw [List.getElem?_append_left ha] at hv
      rw [if_neg (by rw [← h.1]; omega)]
      exact h.2 a v hv
    · rw [List.getElem?_append_right (by omega)] at hv
      rw [List.getElem?_replicate] at hv
      split at hv
      · cases hv
        rw [if_pos (by rw [← h.1]; omega)]
        exact sat_zero
      · cases hv

/-! ## one operation: exact twin, algebraic meaning -/

/-- the `_exact` (unbounded Nat) twin of `applyOp`, over a memory of word vectors -/
def applyOpExact (mn : Nat → FN) (fr : Frame) (dst : Cell) : Op → FN
  | .set src => setVal_exact (mn (fr.addr src))
  | .setInt k => setInt_exact k
  | .add src => add_exact (mn (fr.addr dst)) (mn (fr.addr src))
  | .add2 a b => add2_exact (mn (fr.addr a)) (mn (fr.addr b))
  | .addInt k => addInt_exact (mn (fr.addr dst)) k
  | .negate k => negate_exact (mn (fr.addr dst)) k
  | .negateVal src k => negateVal_exact (mn (fr.addr src)) k
  | .mulInt k => mulInt_exact (mn (fr.addr dst)) k
  | .mul src => mul_exact (mn (fr.addr dst)) (mn (fr.addr src))
  | .mul2 a b => mul2_exact (mn (fr.addr a)) (mn (fr.addr b))
  | .square => square_exact (mn (fr.addr dst))
  | .squareVal src => squareVal_exact (mn (fr.addr src))
  | .normalise => normalise_exact (mn (fr.addr dst))
  | .inverse => inverse_exact (mn (fr.addr dst))
  | .sqrtVal src => sqrtVal_exact (mn (fr.addr src))

/-- the algebraic meaning of an operation in the prime field, on values already reduced mod P
(`vm a` = value of the cell at address `a`, mod P) -/
def opVal (vm : Nat → Nat) (fr : Frame) (dst : Cell) : Op → Nat
  | .set src => vm (fr.addr src)
  | .setInt k => k % P
  | .add src => (vm (fr.addr dst) + vm (fr.addr src)) % P
  | .add2 a b => (vm (fr.addr a) + vm (fr.addr b)) % P
  | .addInt k => (vm (fr.addr dst) + k) % P
  | .negate _ => (P - vm (fr.addr dst)) % P
  | .negateVal src _ => (P - vm (fr.addr src)) % P
  | .mulInt k => (k * vm (fr.addr dst)) % P
  | .mul src => (vm (fr.addr dst) * vm (fr.addr src)) % P
  | .mul2 a b => (vm (fr.addr a) * vm (fr.addr b)) % P
  | .square => (vm (fr.addr dst) * vm (fr.addr dst)) % P
  | .squareVal src => (vm (fr.addr src) * vm (fr.addr src)) % P
  | .normalise => vm (fr.addr dst)
  | .inverse => vm (fr.addr dst) ^ (P - 2) % P
  | .sqrtVal src => vm (fr.addr src) ^ ((P + 1) / 4) % P

/-- the word vectors of a memory -/
def memN (m : Mem) : Nat → FN := fun a => (m.get a).toN
/-- the field values (mod P) of a memory -/
def memV (m : Mem) : Nat → Nat := fun a => (m.get a).val % P

/-- no word of this operation instance wraps -/
def OpNoWrap (m : Mem) (fr : Frame) (dst : Cell) (o : Op) : Prop :=
  (applyOp m fr dst o).toN = applyOpExact (memN m) fr dst o

/-- this operation instance computes its algebraic meaning modulo P -/
def OpValOk (m : Mem) (fr : Frame) (dst : Cell) (o : Op) : Prop :=
  (applyOp m fr dst o).val % P = opVal (memV m) fr dst o

/-- a SAFE operation instance -/
structure OpSafe (m : Mem) (fr : Frame) (dst : Cell) (o : Op) : Prop where
  nowrap : OpNoWrap m fr dst o
  val : OpValOk m fr dst o
  norm : o = .normalise → Norm (applyOp m fr dst o)

/-- every `Equals`/`IsOdd` that is evaluated (Go's short-circuit evaluation) has fully normalised
operands -/
def CondSafe (m : Mem) (fr : Frame) : Cond → Prop
  | .isZero _ => True
  | .equals a b => Norm (m.get (fr.addr a)) ∧ Norm (m.get (fr.addr b))
  | .isOdd c => Norm (m.get (fr.addr c))
  | .flag _ => True
  | .not c => CondSafe m fr c
  | .and a b => CondSafe m fr a ∧ (evalCond m fr a = true → CondSafe m fr b)
  | .or a b => CondSafe m fr a ∧ (evalCond m fr a = false → CondSafe m fr b)

/-! ### small facts used by `transfer_sound` -/

theorem setInt_sound (k : Nat) (hk : k ≤ 68157440) :
    (setInt k).toN = setInt_exact k ∧ (setInt k).val = k ∧ MagLe 1 (setInt k) ∧
      (k < 67108864 → Norm (setInt k)) := by
  have h32 : k % 4294967296 = k := Nat.mod_eq_of_lt (by omega)
  refine ⟨?_, ?_, ?_, ?_⟩
  · simp only [setInt, setInt_exact, zero, zero_exact, FV.toN, UInt32.toNat_ofNat', h32]
    rfl
  · simp only [setInt, zero, FV.val, UInt32.toNat_ofNat', h32]
    rfl
  · simp only [setInt, zero, MagLe, UInt32.toNat_ofNat', h32]
    refine ⟨by omega, ?_⟩
    decide
  · intro hk'
    refine ⟨?_, ?_⟩
    · simp only [setInt, zero, Canon, UInt32.toNat_ofNat', h32]
      refine ⟨hk', ?_⟩
      decide
    · have : (setInt k).val = k := by
        simp only [setInt, zero, FV.val, UInt32.toNat_ofNat', h32]
        rfl
      rw [this, P_eq]; omega

theorem neg_mod {r v k : Nat} (h : r + v = (k + 1) * P) : r % P = (P - v % P) % P := by
  rw [P_eq] at *
  omega

theorem ofNat_toNat_of_le {k : Nat} (hk : k ≤ 63) : (UInt32.ofNat k).toNat = k := by
  rw [UInt32.toNat_ofNat']
  exact Nat.mod_eq_of_lt (by omega)

theorem pow_mod_helper {r x e : Nat} (h : r % P = x ^ e % P) : r % P = (x % P) ^ e % P :=
  h.trans (Nat.pow_mod _ _ _)

theorem P_pos : 0 < P := by rw [P_eq]; decide

/-! ### soundness of the transfer functions -/

theorem transfer_sound {fr : Frame} {ρ : AMem} {m : Mem} {dst : Cell} {o : Op} {v : AVal}
    (h : transfer fr.toA ρ dst o = some v) (hγ : γ ρ m) :
    OpSafe m fr dst o ∧ Sat v (applyOp m fr dst o) := by
  cases o with
  | set src =>
    simp only [transfer, toA_addr] at h
    exact ⟨⟨rfl, rfl, fun h => by cases h⟩, hγ.2 _ _ h⟩
  | setInt k =>
    simp only [transfer] at h
    split at h
    · rename_i hk
      cases h
      obtain ⟨h1, h2, h3, h4⟩ := setInt_sound k hk
      refine ⟨⟨h1, ?_, fun h => by cases h⟩, h3, fun hc => h4 ?_⟩
      · show (setInt k).val % P = k % P
        rw [h2]
      · simpa using hc
    · cases h
  | add src =>
    simp only [transfer, toA_addr] at h
    split at h
    · rename_i a b ha hb
      split at h
      · rename_i hm
        cases h
        obtain ⟨h1, h2, h3⟩ := add_sound _ _ _ _ (hγ.2 _ _ ha).1 (hγ.2 _ _ hb).1 hm
        refine ⟨⟨h1, ?_, fun h => by cases h⟩, h3, fun hc => by cases hc⟩
        show (add _ _).val % P = _
        rw [h2, Nat.add_mod]; rfl
      · cases h
    · cases h
  | add2 x y =>
    simp only [transfer, toA_addr] at h
    split at h
    · rename_i a b ha hb
      split at h
      · rename_i hm
        cases h
        obtain ⟨h1, h2, h3⟩ := add2_sound _ _ _ _ (hγ.2 _ _ ha).1 (hγ.2 _ _ hb).1 hm
        refine ⟨⟨h1, ?_, fun h => by cases h⟩, h3, fun hc => by cases hc⟩
        show (add2 _ _).val % P = _
        rw [h2, Nat.add_mod]; rfl
      · cases h
    · cases h
  | addInt k =>
    simp only [transfer, toA_addr] at h
    split at h
    · rename_i a ha
      split at h
      · rename_i hm
        cases h
        obtain ⟨h1, h2, h3⟩ := addInt_sound _ k _ (hγ.2 _ _ ha).1 hm.2 hm.1
        refine ⟨⟨h1, ?_, fun h => by cases h⟩, h3, fun hc => by cases hc⟩
        show (addInt _ _).val % P = ((m.get (fr.addr dst)).val % P + k) % P
        rw [h2, Nat.mod_add_mod]
      · cases h
    · cases h
  | negate k =>
    simp only [transfer, toA_addr] at h
    split at h
    · rename_i a ha
      split at h
      · rename_i hm
        cases h
        have hk := ofNat_toNat_of_le hm.2
        obtain ⟨h1, h2, h3⟩ := negateVal_sound (m.get (fr.addr dst)) (UInt32.ofNat k)
          (by rw [hk]; exact hm.2) (by rw [hk]; exact (hγ.2 _ _ ha).1.mono hm.1)
        rw [hk] at h1 h2 h3
        refine ⟨⟨h1, neg_mod h2, fun h => by cases h⟩, h3, fun hc => by cases hc⟩
      · cases h
    · cases h
  | negateVal src k =>
    simp only [transfer, toA_addr] at h
    split at h
    · rename_i a ha
      split at h
      · rename_i hm
        cases h
        have hk := ofNat_toNat_of_le hm.2
        obtain ⟨h1, h2, h3⟩ := negateVal_sound (m.get (fr.addr src)) (UInt32.ofNat k)
          (by rw [hk]; exact hm.2) (by rw [hk]; exact (hγ.2 _ _ ha).1.mono hm.1)
        rw [hk] at h1 h2 h3
        refine ⟨⟨h1, neg_mod h2, fun h => by cases h⟩, h3, fun hc => by cases hc⟩
      · cases h
    · cases h
  | mulInt k =>
    simp only [transfer, toA_addr] at h
    split at h
    · rename_i a ha
      split at h
      · rename_i hm
        cases h
        obtain ⟨h1, h2, h3⟩ := mulInt_sound _ k _ (hγ.2 _ _ ha).1 hm
        refine ⟨⟨h1, ?_, fun h => by cases h⟩, h3, fun hc => by cases hc⟩
        show (mulInt _ _).val % P = (k * ((m.get (fr.addr dst)).val % P)) % P
        rw [h2, Nat.mul_mod, Nat.mul_mod k ((m.get (fr.addr dst)).val % P), Nat.mod_mod]
      · cases h
    · cases h
  | mul src =>
    simp only [transfer, toA_addr] at h
    split at h
    · rename_i a b ha hb
      split at h
      · rename_i hm
        cases h
        obtain ⟨h1, h2, h3⟩ := mul2_sound _ _ ((hγ.2 _ _ ha).1.mono hm.1) ((hγ.2 _ _ hb).1.mono hm.2)
        refine ⟨⟨h1, ?_, fun h => by cases h⟩, h3, fun hc => by cases hc⟩
        show (mul2 _ _).val % P = _
        rw [h2, Nat.mul_mod]; rfl
      · cases h
    · cases h
  | mul2 x y =>
    simp only [transfer, toA_addr] at h
    split at h
    · rename_i a b ha hb
      split at h
      · rename_i hm
        cases h
        obtain ⟨h1, h2, h3⟩ := mul2_sound _ _ ((hγ.2 _ _ ha).1.mono hm.1) ((hγ.2 _ _ hb).1.mono hm.2)
        refine ⟨⟨h1, ?_, fun h => by cases h⟩, h3, fun hc => by cases hc⟩
        show (mul2 _ _).val % P = _
        rw [h2, Nat.mul_mod]; rfl
      · cases h
    · cases h
  | square =>
    simp only [transfer, toA_addr] at h
    split at h
    · rename_i a ha
      split at h
      · rename_i hm
        cases h
        obtain ⟨h1, h2, h3⟩ := squareVal_sound _ ((hγ.2 _ _ ha).1.mono hm)
        refine ⟨⟨h1, ?_, fun h => by cases h⟩, h3, fun hc => by cases hc⟩
        show (squareVal _).val % P = _
        rw [h2, Nat.mul_mod]; rfl
      · cases h
    · cases h
  | squareVal src =>
    simp only [transfer, toA_addr] at h
    split at h
    · rename_i a ha
      split at h
      · rename_i hm
        cases h
        obtain ⟨h1, h2, h3⟩ := squareVal_sound _ ((hγ.2 _ _ ha).1.mono hm)
        refine ⟨⟨h1, ?_, fun h => by cases h⟩, h3, fun hc => by cases hc⟩
        show (squareVal _).val % P = _
        rw [h2, Nat.mul_mod]; rfl
      · cases h
    · cases h
  | normalise =>
    simp only [transfer, toA_addr] at h
    split at h
    · rename_i a ha
      split at h
      · rename_i hm
        cases h
        have hp := ((hγ.2 _ _ ha).1.mono hm).normPre
        have h1 := normalise_nowrap _ hp
        obtain ⟨h2, h3⟩ := normalise_canonical _ hp
        have h4 := normalise_val_lt _ hp
        refine ⟨⟨h1, ?_, fun _ => ⟨h3, h4⟩⟩, h3.magLe, fun _ => ⟨h3, h4⟩⟩
        show (normalise _).val % P = (m.get (fr.addr dst)).val % P
        rw [h2, Nat.mod_mod]
      · cases h
    · cases h
  | inverse =>
    simp only [transfer, toA_addr] at h
    split at h
    · rename_i a ha
      split at h
      · rename_i hm
        cases h
        obtain ⟨h1, h2, h3⟩ := inverse_sound _ ((hγ.2 _ _ ha).1.mono hm)
        exact ⟨⟨h1, pow_mod_helper h2, fun h => by cases h⟩, h3, fun hc => by cases hc⟩
      · cases h
    · cases h
  | sqrtVal src =>
    simp only [transfer, toA_addr] at h
    split at h
    · rename_i a ha
      split at h
      · rename_i hm
        cases h
        obtain ⟨h1, h2, h3⟩ := sqrtVal_sound _ ((hγ.2 _ _ ha).1.mono hm)
        exact ⟨⟨h1, pow_mod_helper h2, fun h => by cases h⟩, h3, fun hc => by cases hc⟩
      · cases h
    · cases h

/-- the task's per-operation value lemma: under the abstract precondition of the operation its
result is, modulo P, the algebraic expression `opVal` of the operands' values modulo P -/
theorem applyOp_val {fr : Frame} {ρ : AMem} {m : Mem} {dst : Cell} {o : Op} {v : AVal}
    (h : transfer fr.toA ρ dst o = some v) (hγ : γ ρ m) :
    (applyOp m fr dst o).val % P = opVal (memV m) fr dst o :=
  (transfer_sound h hγ).1.val

/-- … and `Normalise` returns the canonical representative: value < P, canonical words -/
theorem applyOp_normalise {fr : Frame} {ρ : AMem} {m : Mem} {dst : Cell} {v : AVal}
    (h : transfer fr.toA ρ dst .normalise = some v) (hγ : γ ρ m) :
    (applyOp m fr dst .normalise).val = (m.get (fr.addr dst)).val % P ∧
      Canon (applyOp m fr dst .normalise) ∧ (applyOp m fr dst .normalise).val < P := by
  have hs := (transfer_sound h hγ).1
  have hn := hs.norm rfl
  refine ⟨?_, hn.1, hn.2⟩
  have := hs.val
  simp only [OpValOk, opVal, memV] at this
  rw [Nat.mod_eq_of_lt hn.2] at this
  exact this

theorem canonAt_sound {fr : Frame} {ρ : AMem} {m : Mem} {c : Cell}
    (h : canonAt fr.toA ρ c = true) (hγ : γ ρ m) : Norm (m.get (fr.addr c)) := by
  simp only [canonAt, toA_addr] at h
  split at h
  · rename_i v hv
    exact (hγ.2 _ _ hv).2 h
  · cases h

theorem condOk_sound {fr : Frame} {ρ : AMem} {m : Mem} :
    ∀ {c : Cond}, condOk fr.toA ρ c = true → γ ρ m → CondSafe m fr c
  | .isZero _, _, _ => trivial
  | .equals a b, h, hγ => by
    simp only [condOk, Bool.and_eq_true] at h
    exact ⟨canonAt_sound h.1 hγ, canonAt_sound h.2 hγ⟩
  | .isOdd c, h, hγ => by
    simp only [condOk] at h
    exact canonAt_sound h hγ
  | .flag _, _, _ => trivial
  | .not c, h, hγ => by
    simp only [condOk] at h
    exact condOk_sound (c := c) h hγ
  | .and a b, h, hγ => by
    simp only [condOk, Bool.and_eq_true] at h
    exact ⟨condOk_sound h.1 hγ, fun _ => condOk_sound h.2 hγ⟩
  | .or a b, h, hγ => by
    simp only [condOk, Bool.and_eq_true] at h
    exact ⟨condOk_sound h.1 hγ, fun _ => condOk_sound h.2 hγ⟩

/-! ### the meaning of the tests on a safe run (for value-level reasoning) -/

/-- `Equals` on normalised operands is equality of the field values -/
theorem evalCond_equals {m : Mem} {fr : Frame} {a b : Cell} (h : CondSafe m fr (.equals a b)) :
    evalCond m fr (.equals a b) = decide (memV m (fr.addr a) = memV m (fr.addr b)) := by
  obtain ⟨ha, hb⟩ := h
  rw [Bool.eq_iff_iff, decide_eq_true_iff]
  simp only [evalCond, memV, Nat.mod_eq_of_lt ha.2, Nat.mod_eq_of_lt hb.2]
  exact equals_iff ha.1 hb.1

/-- `IsOdd` on a normalised operand is the parity of the field value's representative in [0,P) -/
theorem evalCond_isOdd {m : Mem} {fr : Frame} {c : Cell} (h : CondSafe m fr (.isOdd c)) :
    evalCond m fr (.isOdd c) = decide (memV m (fr.addr c) % 2 = 1) := by
  rw [Bool.eq_iff_iff, decide_eq_true_iff]
  simp only [evalCond, memV, Nat.mod_eq_of_lt (show (m.get (fr.addr c)).val < P from h.2)]
  exact isOdd_iff _

/-- `IsZero` tests the INTEGER value of the representation (no normalisation needed to be safe,
but it is the field zero test only on a normalised value) -/
theorem evalCond_isZero (m : Mem) (fr : Frame) (c : Cell) :
    evalCond m fr (.isZero c) = decide ((m.get (fr.addr c)).val = 0) := by
  rw [Bool.eq_iff_iff, decide_eq_true_iff]
  exact isZero_iff _

theorem evalCond_isZero_norm {m : Mem} {fr : Frame} {c : Cell} (h : Norm (m.get (fr.addr c))) :
    evalCond m fr (.isZero c) = decide (memV m (fr.addr c) = 0) := by
  rw [evalCond_isZero]
  simp only [memV, Nat.mod_eq_of_lt h.2]

/-! ## safe runs -/

mutual
/-- every operation / condition executed by `execStmt prog fuel m fr s` is safe -/
def SafeStmt (prog : Array Fn) (fuel : Nat) (m : Mem) (fr : Frame) : Stmt → Prop
  | .op dst o => OpSafe m fr dst o
  | .setFlag _ c => CondSafe m fr c
  | .ite c t e =>
    CondSafe m fr c ∧
      (if evalCond m fr c then SafeBlock prog fuel m fr t else SafeBlock prog fuel m fr e)
  | .ret => True
  | .call f args =>
    match fuel with
    | 0 => True
    | fuel' + 1 =>
      match prog[f]? with
      | none => True
      | some fn =>
        let callee : Frame := { params := args.map fr.addr, locBase := m.next }
        let m0 : Mem := { vals := fun a => if m.next ≤ a ∧ a < m.next + fn.nlocals then zero else m.vals a,
                          next := m.next + fn.nlocals }
        SafeBlock prog fuel' m0 callee fn.body
/-- every operation / condition executed by `execBlock prog fuel m fr b` is safe -/
def SafeBlock (prog : Array Fn) (fuel : Nat) (m : Mem) (fr : Frame) : Block → Prop
  | .nil => True
  | .cons s rest =>
    SafeStmt prog fuel m fr s ∧
      (if (execStmt prog fuel m fr s).returned then True
       else SafeBlock prog fuel (execStmt prog fuel m fr s).mem (execStmt prog fuel m fr s).fr rest)
end

/-- **safe run**: every field operation executed by `execBlock prog fuel m fr blk` (callees
included) is `OpSafe` — no word wraps, and it has its algebraic meaning mod P — and every
`Equals`/`IsOdd` evaluated has fully normalised operands. -/
abbrev RunSafe (prog : Array Fn) (fuel : Nat) (m : Mem) (fr : Frame) (blk : Block) : Prop :=
  SafeBlock prog fuel m fr blk

/-! ## exit states: covering -/

/-- `y` describes every memory `x` describes, with the same `returned` tag -/
def AOut.Le (x y : AOut) : Prop := x.returned = y.returned ∧ ∀ m, γ x.mem m → γ y.mem m

theorem AOut.Le.refl (x : AOut) : x.Le x := ⟨rfl, fun _ h => h⟩
theorem AOut.Le.trans {x y z : AOut} (h₁ : x.Le y) (h₂ : y.Le z) : x.Le z :=
  ⟨h₁.1.trans h₂.1, fun m h => h₂.2 m (h₁.2 m h)⟩

/-- every state of `l` is covered by a state of `l'` -/
def Covers (l l' : List AOut) : Prop := ∀ x ∈ l, ∃ y ∈ l', x.Le y

theorem insertOut_covers (o : AOut) : ∀ l : List AOut, Covers (o :: l) (insertOut o l)
  | [] => by
    intro x hx
    exact ⟨x, by simpa [insertOut] using hx, AOut.Le.refl x⟩
  | p :: ps => by
    intro x hx
    simp only [insertOut]
    split
    · rename_i hc
      rcases List.mem_cons.1 hx with rfl | hx
      · exact ⟨_, List.mem_cons_self, hc.1.symm, fun m h => γ_join_right h hc.2⟩
      · rcases List.mem_cons.1 hx with rfl | hx
        · exact ⟨_, List.mem_cons_self, rfl, fun m h => γ_join_left h hc.2⟩
        · exact ⟨x, List.mem_cons_of_mem _ hx, AOut.Le.refl x⟩
    · rcases List.mem_cons.1 hx with rfl | hx
      · obtain ⟨y, hy, hle⟩ := insertOut_covers x ps x List.mem_cons_self
        exact ⟨y, List.mem_cons_of_mem _ hy, hle⟩
      · rcases List.mem_cons.1 hx with rfl | hx
        · exact ⟨x, List.mem_cons_self, AOut.Le.refl x⟩
        · obtain ⟨y, hy, hle⟩ := insertOut_covers o ps x (List.mem_cons_of_mem _ hx)
          exact ⟨y, List.mem_cons_of_mem _ hy, hle⟩

theorem mergeOuts_covers : ∀ a b : List AOut, Covers (a ++ b) (mergeOuts a b)
  | [], b => fun x hx => ⟨x, by simpa [mergeOuts] using hx, AOut.Le.refl x⟩
  | o :: a, b => by
    intro x hx
    have ih := mergeOuts_covers a b
    have hc := insertOut_covers o (mergeOuts a b)
    show ∃ y ∈ insertOut o (mergeOuts a b), x.Le y
    rcases List.mem_cons.1 (by simpa using hx : x ∈ o :: (a ++ b)) with rfl | hx
    · exact hc x List.mem_cons_self
    · obtain ⟨y, hy, hle⟩ := ih x hx
      obtain ⟨z, hz, hle'⟩ := hc y (List.mem_cons_of_mem _ hy)
      exact ⟨z, hz, hle.trans hle'⟩

theorem foldr_insert_covers : ∀ ms : List AMem,
    Covers (ms.map fun m => ⟨m, false⟩) (ms.foldr (fun m acc => insertOut ⟨m, false⟩ acc) [])
  | [] => fun x hx => by simp at hx
  | m :: ms => by
    intro x hx
    have ih := foldr_insert_covers ms
    have hc := insertOut_covers ⟨m, false⟩ (ms.foldr (fun m acc => insertOut ⟨m, false⟩ acc) [])
    show ∃ y ∈ insertOut ⟨m, false⟩ (ms.foldr (fun m acc => insertOut ⟨m, false⟩ acc) []), x.Le y
    rcases List.mem_cons.1 (by simpa using hx :
        x ∈ (⟨m, false⟩ : AOut) :: (ms.map fun m => ⟨m, false⟩)) with rfl | hx
    · exact hc _ List.mem_cons_self
    · obtain ⟨y, hy, hle⟩ := ih x hx
      obtain ⟨z, hz, hle'⟩ := hc y (List.mem_cons_of_mem _ hy)
      exact ⟨z, hz, hle.trans hle'⟩

/-- what `contOuts k outs₁ = some outs` means for one state of `outs₁` -/
theorem contOuts_spec {k : AMem → Option (List AOut)} :
    ∀ {outs₁ outs : List AOut}, contOuts k outs₁ = some outs → ∀ a ∈ outs₁,
      (a.returned = true → ∃ y ∈ outs, a.Le y) ∧
      (a.returned = false → ∃ r, k a.mem = some r ∧ Covers r outs)
  | [], _, _, a, ha => by cases ha
  | o :: os, outs, h, a, ha => by
    simp only [contOuts] at h
    split at h
    · -- o returned
      rename_i hret
      split at h
      · rename_i b hb
        cases h
        have hc := insertOut_covers o b
        rcases List.mem_cons.1 ha with rfl | ha
        · exact ⟨fun _ => hc _ List.mem_cons_self, fun hf => by rw [hret] at hf; cases hf⟩
        · obtain ⟨h1, h2⟩ := contOuts_spec hb a ha
          refine ⟨fun ht => ?_, fun hf => ?_⟩
          · obtain ⟨y, hy, hle⟩ := h1 ht
            obtain ⟨z, hz, hle'⟩ := hc y (List.mem_cons_of_mem _ hy)
            exact ⟨z, hz, hle.trans hle'⟩
          · obtain ⟨r, hr, hcov⟩ := h2 hf
            refine ⟨r, hr, fun x hx => ?_⟩
            obtain ⟨y, hy, hle⟩ := hcov x hx
            obtain ⟨z, hz, hle'⟩ := hc y (List.mem_cons_of_mem _ hy)
            exact ⟨z, hz, hle.trans hle'⟩
      · cases h
    · rename_i hret
      split at h
      · rename_i r b hr hb
        cases h
        have hc := mergeOuts_covers r b
        rcases List.mem_cons.1 ha with rfl | ha
        · refine ⟨fun ht => absurd ht hret, fun _ => ⟨r, hr, fun x hx => ?_⟩⟩
          exact hc x (List.mem_append_left _ hx)
        · obtain ⟨h1, h2⟩ := contOuts_spec hb a ha
          refine ⟨fun ht => ?_, fun hf => ?_⟩
          · obtain ⟨y, hy, hle⟩ := h1 ht
            obtain ⟨z, hz, hle'⟩ := hc y (List.mem_append_right _ hy)
            exact ⟨z, hz, hle.trans hle'⟩
          · obtain ⟨r', hr', hcov⟩ := h2 hf
            refine ⟨r', hr', fun x hx => ?_⟩
            obtain ⟨y, hy, hle⟩ := hcov x hx
            obtain ⟨z, hz, hle'⟩ := hc y (List.mem_append_right _ hy)
            exact ⟨z, hz, hle.trans hle'⟩
      · cases h

/-! ## soundness of the analysis -/

/-- some abstract exit state describes the concrete result -/
def OutIn (outs : List AOut) (o : Out) : Prop :=
  ∃ a ∈ outs, a.returned = o.returned ∧ γ a.mem o.mem

theorem OutIn.covers {l l' : List AOut} {o : Out} (h : OutIn l o) (hc : Covers l l') : OutIn l' o := by
  obtain ⟨a, ha, hr, hγ⟩ := h
  obtain ⟨y, hy, hle⟩ := hc a ha
  exact ⟨y, hy, hle.1.symm.trans hr, hle.2 _ hγ⟩

/-- the call handler `K` is sound for calls executed with call fuel `fuel` -/
def CallSound (K : CallK) (prog : Array Fn) (fuel : Nat) : Prop :=
  ∀ (f : Nat) (args : List Cell) (fr : Frame) (ρ : AMem) (ms : List AMem) (m : Mem),
    K f (args.map fr.toA.addr) ρ = some ms → γ ρ m →
    SafeStmt prog fuel m fr (.call f args) ∧
      ∃ ρ' ∈ ms, γ ρ' (execStmt prog fuel m fr (.call f args)).mem

theorem execStmt_call_shape (prog : Array Fn) (fuel : Nat) (m : Mem) (fr : Frame) (f : Nat)
    (args : List Cell) :
    (execStmt prog fuel m fr (.call f args)).returned = false ∧
      (execStmt prog fuel m fr (.call f args)).fr = fr := by
  cases fuel with
  | zero => simp only [execStmt, and_self]
  | succ n =>
    simp only [execStmt]
    split <;> simp only [and_self]

mutual
theorem checkStmt_sound {K : CallK} {prog : Array Fn} {fuel : Nat} (hK : CallSound K prog fuel) :
    ∀ (s : Stmt) (fr : Frame) (ρ : AMem) (outs : List AOut) (m : Mem),
      checkStmt K fr.toA s ρ = some outs → γ ρ m →
      SafeStmt prog fuel m fr s ∧ OutIn outs (execStmt prog fuel m fr s) ∧
        (execStmt prog fuel m fr s).fr.toA = fr.toA
  | .op dst o, fr, ρ, outs, m, h, hγ => by
    simp only [checkStmt] at h
    split at h
    · cases h
    · rename_i v hv
      split at h
      · cases h
        obtain ⟨hs, hsat⟩ := transfer_sound hv hγ
        simp only [SafeStmt, execStmt]
        refine ⟨hs, ⟨_, List.mem_singleton.2 rfl, rfl, ?_⟩, trivial⟩
        rw [toA_addr]
        exact γ_set hγ hsat
      · cases h
  | .setFlag i c, fr, ρ, outs, m, h, hγ => by
    simp only [checkStmt] at h
    split at h
    · rename_i hc
      cases h
      simp only [SafeStmt, execStmt]
      exact ⟨condOk_sound hc hγ, ⟨_, List.mem_singleton.2 rfl, rfl, hγ⟩, rfl⟩
    · cases h
  | .ite c t e, fr, ρ, outs, m, h, hγ => by
    simp only [checkStmt] at h
    split at h
    · rename_i hc
      split at h
      · rename_i a b ha hb
        cases h
        have hcov := mergeOuts_covers a b
        simp only [SafeStmt, execStmt]
        by_cases hev : evalCond m fr c = true
        · obtain ⟨h1, h2, h3⟩ := checkBlock_sound hK t fr ρ a m ha hγ
          simp only [hev, if_true]
          exact ⟨⟨condOk_sound hc hγ, h1⟩,
            h2.covers (fun x hx => hcov x (List.mem_append_left _ hx)), h3⟩
        · obtain ⟨h1, h2, h3⟩ := checkBlock_sound hK e fr ρ b m hb hγ
          simp only [hev]
          exact ⟨⟨condOk_sound hc hγ, h1⟩,
            h2.covers (fun x hx => hcov x (List.mem_append_right _ hx)), h3⟩
      · cases h
    · cases h
  | .ret, fr, ρ, outs, m, h, hγ => by
    simp only [checkStmt] at h
    cases h
    simp only [SafeStmt, execStmt]
    exact ⟨trivial, ⟨_, List.mem_singleton.2 rfl, rfl, hγ⟩, trivial⟩
  | .call f args, fr, ρ, outs, m, h, hγ => by
    simp only [checkStmt] at h
    split at h
    · rename_i ms hms
      cases h
      obtain ⟨h1, ρ', hρ', hγ'⟩ := hK f args fr ρ ms m hms hγ
      obtain ⟨hret, hfr⟩ := execStmt_call_shape prog fuel m fr f args
      refine ⟨h1, ?_, by rw [hfr]⟩
      have : OutIn (ms.map fun m => (⟨m, false⟩ : AOut)) (execStmt prog fuel m fr (.call f args)) :=
        ⟨⟨ρ', false⟩, List.mem_map.2 ⟨ρ', hρ', rfl⟩, hret.symm, hγ'⟩
      exact this.covers (foldr_insert_covers ms)
    · cases h
theorem checkBlock_sound {K : CallK} {prog : Array Fn} {fuel : Nat} (hK : CallSound K prog fuel) :
    ∀ (b : Block) (fr : Frame) (ρ : AMem) (outs : List AOut) (m : Mem),
      checkBlock K fr.toA b ρ = some outs → γ ρ m →
      SafeBlock prog fuel m fr b ∧ OutIn outs (execBlock prog fuel m fr b) ∧
        (execBlock prog fuel m fr b).fr.toA = fr.toA
  | .nil, fr, ρ, outs, m, h, hγ => by
    simp only [checkBlock] at h
    cases h
    simp only [SafeBlock, execBlock]
    exact ⟨trivial, ⟨_, List.mem_singleton.2 rfl, rfl, hγ⟩, trivial⟩
  | .cons s rest, fr, ρ, outs, m, h, hγ => by
    simp only [checkBlock] at h
    split at h
    · cases h
    · rename_i outs₁ hs
      obtain ⟨h1, ⟨a, ha, hret, hγa⟩, hfr⟩ := checkStmt_sound hK s fr ρ outs₁ m hs hγ
      obtain ⟨hA, hB⟩ := contOuts_spec h a ha
      simp only [SafeBlock, execBlock]
      by_cases hr : (execStmt prog fuel m fr s).returned = true
      · simp only [hr, if_true]
        obtain ⟨y, hy, hle⟩ := hA (hret.trans hr)
        exact ⟨⟨h1, trivial⟩, ⟨y, hy, hle.1.symm.trans hret, hle.2 _ hγa⟩, hfr⟩
      · simp only [hr]
        have hr' : (execStmt prog fuel m fr s).returned = false := by
          cases hh : (execStmt prog fuel m fr s).returned
          · rfl
          · exact absurd hh hr
        obtain ⟨r, hk, hcov⟩ := hB (hret.trans hr')
        rw [← hfr] at hk
        obtain ⟨h2, h3, h4⟩ := checkBlock_sound hK rest (execStmt prog fuel m fr s).fr a.mem r
          (execStmt prog fuel m fr s).mem hk hγa
        exact ⟨⟨h1, h2⟩, h3.covers hcov, h4.trans hfr⟩
end

/-- the recursive call handler of the analysis is sound, for every call fuel -/
theorem checkCall_sound (prog : Array Fn) : ∀ fuel : Nat, CallSound (checkCall prog fuel) prog fuel
  | 0 => by
    intro f args fr ρ ms m h _
    simp only [checkCall] at h
    cases h
  | fuel + 1 => by
    intro f args fr ρ ms m h hγ
    simp only [checkCall] at h
    split at h
    · cases h
    · rename_i fn hfn
      split at h
      · rename_i outs houts
        cases h
        -- the callee's frame, abstractly and concretely
        have hfr : (⟨args.map fr.toA.addr, ρ.length⟩ : AFrame) =
            Frame.toA { params := args.map fr.addr, locBase := m.next } := by
          rw [toA_addr_fun, hγ.1]; rfl
        rw [hfr] at houts
        obtain ⟨h1, ⟨a, ha, _, hγa⟩, _⟩ :=
          checkBlock_sound (checkCall_sound prog fuel) fn.body _ _ outs _ houts (γ_alloc hγ fn.nlocals)
        simp only [SafeStmt, execStmt, hfn]
        exact ⟨h1, a.mem, List.mem_map.2 ⟨a, ha, rfl⟩, hγa⟩
      · cases h

/-- **Soundness of the analysis.**  If the checker accepts block `blk` in frame `fr` from abstract
memory `ρ` and the concrete memory `m` is described by `ρ`, then the run of `execBlock` is SAFE
(no operation wraps, every operation has its algebraic meaning, `Equals`/`IsOdd` only on normalised
values — including everything executed in callees) and its final memory is described by one of
the abstract exit states, which also predicts whether a `return` was executed. -/
theorem magCheck_sound {prog : Array Fn} {fuel : Nat} {fr : Frame} {blk : Block} {ρ : AMem}
    {outs : List AOut} {m : Mem}
    (h : magCheck prog fuel fr.toA blk ρ = some outs) (hγ : γ ρ m) :
    RunSafe prog fuel m fr blk ∧
      ∃ o ∈ outs, o.returned = (execBlock prog fuel m fr blk).returned ∧
        γ o.mem (execBlock prog fuel m fr blk).mem :=
  let h' := checkBlock_sound (checkCall_sound prog fuel) blk fr ρ outs m h hγ
  ⟨h'.1, h'.2.1⟩

/-! ## whole functions, in the memory layout of `runFn` / `runFnFull` -/

/-- the initial memory of `runFn` / `runFnFull` -/
def initMem (consts : FV × FV × FV) (args : List FV) (nlocals : Nat) : Mem :=
  { vals := fun a =>
      if a = 0 then consts.1 else if a = 1 then consts.2.1 else if a = 2 then consts.2.2
      else if a < 3 + args.length then args.getD (a - 3) zero
      else zero,
    next := 3 + args.length + nlocals }

/-- the outermost frame of `runFn` / `runFnFull` -/
def initFrame (nargs : Nat) (al : List Nat) (flags0 : Nat → Bool) : Frame :=
  { params := (List.range nargs).map fun i => 3 + al.getD i i, locBase := 3 + nargs,
    flags := flags0 }

/-- the run `runFnFull` performs -/
def runOut (prog : Array Fn) (consts : FV × FV × FV) (fn : Fn) (args : List FV) (al : List Nat)
    (flags0 : Nat → Bool) : Out :=
  execBlock prog 8 (initMem consts args fn.nlocals) (initFrame args.length al flags0) fn.body

theorem runFnFull_eq {prog : Array Fn} {f : Nat} {fn : Fn} (hfn : prog[f]? = some fn)
    (consts : FV × FV × FV) (args : List FV) (al : List Nat) (flags0 : Nat → Bool) :
    runFnFull prog consts f args al flags0 =
      ⟨(initFrame args.length al flags0).params.map (runOut prog consts fn args al flags0).mem.get,
       (List.range fn.nlocals).map fun i => (runOut prog consts fn args al flags0).mem.get (3 + args.length + i),
       (runOut prog consts fn args al flags0).fr.flags⟩ := by
  unfold runFnFull
  rw [hfn]
  rfl

/-- pointwise `Sat` of an argument list -/
def SatAll : List AVal → List FV → Prop
  | [], [] => True
  | v :: vs, x :: xs => Sat v x ∧ SatAll vs xs
  | [], _ :: _ => False
  | _ :: _, [] => False

instance : ∀ (vs : List AVal) (xs : List FV), Decidable (SatAll vs xs)
  | [], [] => isTrue trivial
  | v :: vs, x :: xs =>
    have := instDecidableSatAll vs xs
    by unfold SatAll; infer_instance
  | [], _ :: _ => isFalse (fun h => h)
  | _ :: _, [] => isFalse (fun h => h)

theorem SatAll.length_eq : ∀ {vs : List AVal} {xs : List FV}, SatAll vs xs → vs.length = xs.length
  | [], [], _ => rfl
  | _ :: _, _ :: _, h => by
    simp only [List.length_cons, SatAll.length_eq h.2]
  | [], _ :: _, h => h.elim
  | _ :: _, [], h => h.elim

theorem SatAll.get : ∀ {vs : List AVal} {xs : List FV}, SatAll vs xs → ∀ {j v},
    vs[j]? = some v → Sat v (xs.getD j zero)
  | [], [], _, j, v, hv => by simp at hv
  | w :: vs, x :: xs, h, 0, v, hv => by
    simp only [List.getElem?_cons_zero, Option.some.injEq] at hv
    subst hv
    simpa using h.1
  | w :: vs, x :: xs, h, j + 1, v, hv => by
    simp only [List.getElem?_cons_succ] at hv
    simpa using SatAll.get h.2 hv
  | [], _ :: _, h, _, _, _ => h.elim
  | _ :: _, [], h, _, _, _ => h.elim

theorem sat_norm {x : FV} (h : Norm x) : Sat AVal.norm x := ⟨h.magLe, fun _ => h⟩

/-- the initial abstract memory describes the initial memory of `runFn` -/
theorem γ_init {consts : FV × FV × FV} {pre : List AVal} {args : List FV} (nlocals : Nat)
    (hc : Norm consts.1 ∧ Norm consts.2.1 ∧ Norm consts.2.2) (hargs : SatAll pre args) :
    γ (initAMem pre nlocals) (initMem consts args nlocals) := by
  have hlen := hargs.length_eq
  refine ⟨?_, ?_⟩
  · simp only [initAMem, initMem, List.length_append, List.length_cons, List.length_nil,
      List.length_replicate, hlen]
  · intro a v hv
    show Sat v (if a = 0 then consts.1 else if a = 1 then consts.2.1 else if a = 2 then consts.2.2
      else if a < 3 + args.length then args.getD (a - 3) zero else zero)
    simp only [initAMem, List.append_assoc] at hv
    match a, hv with
    | 0, hv =>
      simp only [List.cons_append, List.getElem?_cons_zero, Option.some.injEq] at hv
      subst hv; exact sat_norm hc.1
    | 1, hv =>
      simp only [List.cons_append, List.getElem?_cons_succ, List.getElem?_cons_zero,
        Option.some.injEq] at hv
      subst hv; exact sat_norm hc.2.1
    | 2, hv =>
      simp only [List.cons_append, List.getElem?_cons_succ, List.getElem?_cons_zero,
        Option.some.injEq] at hv
      subst hv; exact sat_norm hc.2.2
    | a + 3, hv =>
      simp only [List.cons_append, List.nil_append, List.getElem?_cons_succ] at hv
      have e0 : (a + 3 = 0) = False := by simp
      have e1 : (a + 3 = 1) = False := by simp
      have e2 : (a + 3 = 2) = False := by simp
      simp only [e0, e1, e2, if_false, Nat.add_sub_cancel]
      by_cases ha : a < pre.length
      · rw [List.getElem?_append_left ha] at hv
        rw [if_pos (by omega)]
        exact hargs.get hv
      · rw [List.getElem?_append_right (by omega), List.getElem?_replicate] at hv
        rw [if_neg (by omega)]
        split at hv
        · cases hv; exact sat_zero
        · cases hv

theorem initFrame_toA (nargs : Nat) (al : List Nat) (flags0 : Nat → Bool) :
    (initFrame nargs al flags0).toA = initAFrame nargs al := rfl

/-- **Soundness for whole functions.**  If `magCheckFn` accepts function `f` for abstract
arguments `pre` under the aliasing pattern `al`, then for all concrete arguments described by
`pre` (and normalised constants) the run performed by `runFn`/`runFnFull` is safe and its final
memory is described by one of the exit states. -/
theorem magCheckFn_sound {prog : Array Fn} {f : Nat} {fn : Fn} (hfn : prog[f]? = some fn)
    {pre : List AVal} {al : List Nat} {outs : List AOut}
    (h : magCheckFn prog f pre al = some outs)
    {consts : FV × FV × FV} (hc : Norm consts.1 ∧ Norm consts.2.1 ∧ Norm consts.2.2)
    {args : List FV} (hargs : SatAll pre args) (flags0 : Nat → Bool) :
    RunSafe prog 8 (initMem consts args fn.nlocals) (initFrame args.length al flags0) fn.body ∧
      ∃ o ∈ outs, o.returned = (runOut prog consts fn args al flags0).returned ∧
        γ o.mem (runOut prog consts fn args al flags0).mem := by
  simp only [magCheckFn, hfn] at h
  rw [hargs.length_eq, ← initFrame_toA _ _ flags0] at h
  exact magCheck_sound h (γ_init fn.nlocals hc hargs)

theorem outLe_sound {post : List AVal} {o : AOut} {m : Mem} (h : outLe post o = true) (hγ : γ o.mem m) :
    ∀ j p, post[j]? = some p → Sat p (m.get (3 + j)) := by
  intro j p hp
  simp only [outLe, List.all_eq_true, List.mem_range] at h
  have hj : j < post.length := by
    rcases Nat.lt_or_ge j post.length with h' | h'
    · exact h'
    · rw [List.getElem?_eq_none h'] at hp; cases hp
  have := h j hj
  split at this
  · rename_i v p' hv hp'
    rw [hp] at hp'; cases hp'
    exact Sat.of_le this (hγ.2 _ _ hv)
  · cases this

/-- **Soundness of the Boolean check** evaluated in `Props/C09b.lean`: a safe run, and EVERY
parameter slot `3 + j` finally satisfies `post[j]`. -/
theorem magCheckFnOk_sound {prog : Array Fn} {f : Nat} {fn : Fn} (hfn : prog[f]? = some fn)
    {pre post : List AVal} {al : List Nat}
    (h : magCheckFnOk prog f pre post al = true)
    {consts : FV × FV × FV} (hc : Norm consts.1 ∧ Norm consts.2.1 ∧ Norm consts.2.2)
    {args : List FV} (hargs : SatAll pre args) (flags0 : Nat → Bool) :
    RunSafe prog 8 (initMem consts args fn.nlocals) (initFrame args.length al flags0) fn.body ∧
      ∀ j p, post[j]? = some p →
        Sat p ((runOut prog consts fn args al flags0).mem.get (3 + j)) := by
  simp only [magCheckFnOk] at h
  split at h
  · rename_i outs houts
    obtain ⟨h1, o, ho, _, hγo⟩ := magCheckFn_sound hfn houts hc hargs flags0
    refine ⟨h1, outLe_sound ?_ hγo⟩
    exact List.all_eq_true.1 h o ho
  · cases h

end GoBk.IRA
