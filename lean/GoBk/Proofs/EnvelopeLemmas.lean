import GoBk.Model.Envelope
import GoBk.Proofs.BytesLemmas
import GoBk.Proofs.DerLemmas
import GoBk.Proofs.EcdsaLemmas
import GoBk.Proofs.EciesLemmas
import GoBk.Props.C05
/-
  Lemmas for C20 (JSON envelope) and the envelope part of C19:
  * hex: `hexDecode ∘ hexEncode = some`, injectivity and length of `hexEncode`;
  * `IsValid` re-expressed as "decode five things, then verify" (`decodeAll`, `isValid_eq`);
  * `NewJSONEnvelope` in terms of its tape read (`newEnvelope_some`);
  * `own_valid_aux`: the envelope just produced is valid.
-/
namespace GoBk.Proofs.EnvelopeL
open GoBk Bytes Spec Envelope GoBk.Proofs GoBk.Proofs.KeyBytes GoBk.Proofs.EciesL

theorem ByteArray_size_eq (bs : ByteArray) : bs.size = bs.data.toList.length := by
  cases bs; rfl

theorem ByteArray_toList_loop (bs : ByteArray) (i : Nat) (r : List UInt8) :
    ByteArray.toList.loop bs i r = r.reverse ++ bs.data.toList.drop i := by
  induction h : bs.size - i generalizing i r with
  | zero =>
    rw [ByteArray.toList.loop.eq_1, if_neg (by omega)]
    have : bs.data.toList.length ≤ i := by rw [← ByteArray_size_eq]; omega
    rw [List.drop_of_length_le this, List.append_nil]
  | succ k ih =>
    have hi : i < bs.size := by omega
    rw [ByteArray.toList.loop.eq_1, if_pos hi, ih _ _ (by omega)]
    have hi' : i < bs.data.toList.length := by rw [← ByteArray_size_eq]; exact hi
    rw [List.drop_eq_getElem_cons hi']
    simp [ByteArray.get!, hi]

theorem toByteArray_toList (l : List UInt8) : l.toByteArray.toList = l := by
  simp [ByteArray.toList, ByteArray_toList_loop, List.data_toByteArray]

/-- the ASCII code of the lower-case hex digit `n` -/
def hexByte (n : Nat) : UInt8 := if n < 10 then UInt8.ofNat (48 + n) else UInt8.ofNat (87 + n)

theorem utf8_hexDigit : ∀ n, n < 16 → String.utf8EncodeChar (hexDigit n) = [hexByte n] := by
  decide

theorem hexVal_hexByte : ∀ n, n < 16 → hexVal (Char.ofNat (hexByte n).toNat) = some n := by
  decide

theorem hexEncode_eq (b : Bytes) :
    hexEncode b = b.flatMap fun x => [hexByte (x.toNat / 16), hexByte (x.toNat % 16)] := by
  unfold hexEncode toHex
  simp only [String.toUTF8, String.toByteArray_ofList, List.utf8Encode, toByteArray_toList]
  induction b with
  | nil => rfl
  | cons x b ih =>
    have h1 : x.toNat / 16 < 16 := by have := x.toNat_lt; omega
    have h2 : x.toNat % 16 < 16 := Nat.mod_lt _ (by decide)
    simp only [List.flatMap_cons, ih, utf8_hexDigit _ h1, utf8_hexDigit _ h2, List.cons_append,
      List.nil_append]

theorem hexDecode_hexEncode (b : Bytes) : hexDecode (hexEncode b) = some b := by
  rw [hexEncode_eq]
  unfold hexDecode
  induction b with
  | nil => rfl
  | cons x b ih =>
    have h1 : x.toNat / 16 < 16 := by have := x.toNat_lt; omega
    have h2 : x.toNat % 16 < 16 := Nat.mod_lt _ (by decide)
    have hx : UInt8.ofNat (x.toNat / 16) * 16 + UInt8.ofNat (x.toNat % 16) = x := by
      have : UInt8.ofNat (x.toNat / 16 * 16 + x.toNat % 16) = x := by
        rw [Nat.div_add_mod']; simp
      simpa using this
    simp only [List.flatMap_cons, List.cons_append, List.nil_append, List.map_cons, ofHexChars,
      hexVal_hexByte _ h1, hexVal_hexByte _ h2, ih]
    simp [hx]

theorem hexEncode_length (b : Bytes) : (hexEncode b).length = 2 * b.length := by
  rw [hexEncode_eq]
  induction b with
  | nil => rfl
  | cons x b ih => simp only [List.flatMap_cons, List.length_append, ih, List.length_cons, List.length_nil]; omega

theorem hexEncode_inj {a b : Bytes} (h : hexEncode a = hexEncode b) : a = b := by
  have := hexDecode_hexEncode a
  rw [h, hexDecode_hexEncode] at this
  exact (Option.some.inj this).symm

/-! ### `IsValid` in stages -/

/-- the hash `IsValid` verifies against, as written in the model -/
def hashOf (pr : Prims) (mime payload : Bytes) : Option Bytes :=
  if mime == mimeJSON then some (pr.sha256 (stripBackslashes payload))
  else if mime == mimeB64 then (pr.b64dec payload).map pr.sha256
  else some (pr.sha256 payload)

/-- everything `IsValid` decodes before calling `Verify` -/
def decodeAll (pr : Prims) (payload sg pkh mime : Bytes) : Option (Pt × Nat × Nat × Bytes) :=
  match hexDecode pkh with
  | none => none
  | some pub =>
  match Ecdsa.parsePubKey pub with
  | none => none
  | some q =>
  match hexDecode sg with
  | none => none
  | some sigBytes =>
  match Der.parseLax sigBytes with
  | none => none
  | some (r, s) =>
  match hashOf pr mime payload with
  | none => none
  | some h => some (q, r, s, h)

theorem isValid_eq (pr : Prims) (payload sg pkh mime : Bytes) :
    isValid pr payload (some sg) (some pkh) mime =
      match decodeAll pr payload sg pkh mime with
      | none => .error
      | some (q, r, s, h) => if Ecdsa.verify q h r s then .valid else .invalid := by
  unfold isValid decodeAll
  simp only
  cases hexDecode pkh with
  | none => rfl
  | some pub =>
    simp only
    cases Ecdsa.parsePubKey pub with
    | none => rfl
    | some q =>
      simp only
      cases hexDecode sg with
      | none => rfl
      | some sb =>
        simp only
        cases Der.parseLax sb with
        | none => rfl
        | some rs =>
          obtain ⟨r, s⟩ := rs
          simp only
          show (match hashOf pr mime payload with
            | none => Res.error
            | some h => if Ecdsa.verify q h r s then Res.valid else Res.invalid) = _
          cases hashOf pr mime payload with
          | none => rfl
          | some h => rfl

theorem decodeAll_eq_some (pr : Prims) (payload sg pkh mime : Bytes) (q : Pt) (r s : Nat) (h : Bytes) :
    decodeAll pr payload sg pkh mime = some (q, r, s, h) ↔
      ∃ pub sigBytes, hexDecode pkh = some pub ∧ Ecdsa.parsePubKey pub = some q ∧
        hexDecode sg = some sigBytes ∧ Der.parseLax sigBytes = some (r, s) ∧
        hashOf pr mime payload = some h := by
  unfold decodeAll
  cases h1 : hexDecode pkh with
  | none => simp
  | some pub =>
    simp only
    cases h2 : Ecdsa.parsePubKey pub with
    | none => simp [h2]
    | some q' =>
      simp only
      cases h3 : hexDecode sg with
      | none => simp
      | some sb =>
        simp only
        cases h4 : Der.parseLax sb with
        | none => simp [h4]
        | some rs =>
          obtain ⟨r', s'⟩ := rs
          simp only
          cases h5 : hashOf pr mime payload with
          | none => simp
          | some h' =>
            simp only [Option.some.injEq, Prod.mk.injEq]
            constructor
            · rintro ⟨rfl, rfl, rfl, rfl⟩
              exact ⟨pub, sb, rfl, h2, rfl, h4, rfl⟩
            · rintro ⟨pub', sb', e1, e2, e3, e4, e5⟩
              cases e1; cases e3
              rw [h2] at e2; rw [h4] at e4
              cases e2; cases e4; cases e5
              exact ⟨rfl, rfl, rfl, rfl⟩

theorem isValid_valid_iff (pr : Prims) (payload sg pkh mime : Bytes) :
    isValid pr payload (some sg) (some pkh) mime = .valid ↔
      ∃ q r s h, decodeAll pr payload sg pkh mime = some (q, r, s, h) ∧
        Ecdsa.verify q h (r : Int) (s : Int) = true := by
  rw [isValid_eq]
  cases hd : decodeAll pr payload sg pkh mime with
  | none => simp
  | some x =>
    obtain ⟨q, r, s, h⟩ := x
    simp only [Option.some.injEq, Prod.mk.injEq]
    constructor
    · intro hv
      refine ⟨q, r, s, h, ⟨rfl, rfl, rfl, rfl⟩, ?_⟩
      by_cases hc : Ecdsa.verify q h (r : Int) (s : Int) = true
      · exact hc
      · rw [if_neg hc] at hv; cases hv
    · rintro ⟨q', r', s', h', ⟨rfl, rfl, rfl, rfl⟩, hv⟩
      rw [if_pos hv]

theorem isValid_invalid_iff (pr : Prims) (payload sg pkh mime : Bytes) :
    isValid pr payload (some sg) (some pkh) mime = .invalid ↔
      ∃ q r s h, decodeAll pr payload sg pkh mime = some (q, r, s, h) ∧
        Ecdsa.verify q h (r : Int) (s : Int) = false := by
  rw [isValid_eq]
  cases hd : decodeAll pr payload sg pkh mime with
  | none => simp
  | some x =>
    obtain ⟨q, r, s, h⟩ := x
    simp only [Option.some.injEq, Prod.mk.injEq]
    constructor
    · intro hv
      refine ⟨q, r, s, h, ⟨rfl, rfl, rfl, rfl⟩, ?_⟩
      by_cases hc : Ecdsa.verify q h (r : Int) (s : Int) = true
      · rw [if_pos hc] at hv; cases hv
      · simpa using hc
    · rintro ⟨q', r', s', h', ⟨rfl, rfl, rfl, rfl⟩, hv⟩
      rw [if_neg (by simp [hv])]

theorem isValid_error_iff (pr : Prims) (payload sg pkh mime : Bytes) :
    isValid pr payload (some sg) (some pkh) mime = .error ↔
      decodeAll pr payload sg pkh mime = none := by
  rw [isValid_eq]
  cases hd : decodeAll pr payload sg pkh mime with
  | none => simp
  | some x =>
    obtain ⟨q, r, s, h⟩ := x
    by_cases hc : Ecdsa.verify q h (r : Int) (s : Int) = true <;> simp [hc]

/-! ### `NewJSONEnvelope` -/

theorem newEnvelope_some {pr : Prims} {fuel : Nat} {pl sg pk : Bytes} {t : Rng.Tape}
    (h : newEnvelope pr fuel pl t = some (sg, pk)) :
    ∃ d t' r s, Rng.generateKey t = some (d, smul d G, t') ∧
      Ecdsa.sign pr fuel d (pr.sha256 (stripBackslashes pl)) = some (r, s) ∧
      sg = hexEncode (Der.serialise r s) ∧ pk = hexEncode (Ecdsa.serCompressed (smul d G)) := by
  unfold newEnvelope at h
  split at h
  · cases h
  · rename_i d pub t' hg
    have hp : pub = smul d G := (generateKey_some hg).2.2.1
    subst hp
    dsimp only at h
    split at h
    · cases h
    · rename_i r s hs
      simp only [Option.some.injEq, Prod.mk.injEq] at h
      exact ⟨d, t', r, s, hg, hs, h.1.symm, h.2.symm⟩

theorem newEnvelope_of {pr : Prims} {fuel : Nat} {pl : Bytes} {t t' : Rng.Tape} {d r s : Nat} {q : Pt}
    (hg : Rng.generateKey t = some (d, q, t'))
    (hs : Ecdsa.sign pr fuel d (pr.sha256 (stripBackslashes pl)) = some (r, s)) :
    newEnvelope pr fuel pl t =
      some (hexEncode (Der.serialise r s), hexEncode (Ecdsa.serCompressed q)) := by
  unfold newEnvelope
  rw [hg]; dsimp only; rw [hs]

/-- the signature `Sign` returns re-parses (lax parser) to itself after `Serialise` -/
theorem parseLax_serialise_sign {pr : Prims} {fuel d : Nat} {h : Bytes} {r s : Nat}
    (hs : Ecdsa.sign pr fuel d h = some (r, s)) : Der.parseLax (Der.serialise r s) = some (r, s) := by
  obtain ⟨hr1, hrN, hs1, hs2⟩ := sign_range_aux hs
  have hN : Der.N = N := cN
  have hsN : s < N := by have := N_pos; omega
  have hmin : min s (Der.N - s) = s := by rw [hN]; omega
  have := Der.parseDER_serialise r s (by rw [hN]; exact ⟨hr1, hrN⟩) (by rw [hN]; exact ⟨hs1, hsN⟩)
  rw [hmin] at this
  exact Der.parseDER_imp_parseLax _ _ this

theorem hashOf_json (pr : Prims) (pl : Bytes) :
    hashOf pr mimeJSON pl = some (pr.sha256 (stripBackslashes pl)) := by
  unfold hashOf; simp

theorem own_valid_aux (pr : Prims) (fuel : Nat) (pl : Bytes) (t : Rng.Tape) (sg pk : Bytes)
    (h : newEnvelope pr fuel pl t = some (sg, pk)) :
    isValid pr pl (some sg) (some pk) mimeJSON = .valid := by
  obtain ⟨d, t', r, s, hg, hs, rfl, rfl⟩ := newEnvelope_some h
  obtain ⟨h1, h2, _⟩ := generateKey_some hg
  rw [isValid_valid_iff]
  refine ⟨smul d G, r, s, pr.sha256 (stripBackslashes pl), ?_, sign_verifies_aux hs⟩
  rw [decodeAll_eq_some]
  exact ⟨_, _, hexDecode_hexEncode _,
    GoBk.Props.C05.parse_serCompressed _ (valid_smulG d) (smulG_ne_inf h1 h2),
    hexDecode_hexEncode _, parseLax_serialise_sign hs, hashOf_json pr pl⟩

end GoBk.Proofs.EnvelopeL
