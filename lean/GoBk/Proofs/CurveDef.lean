import GoBk.Model.Curve
import GoBk.Proofs.FastCurve
/-
  The API-level curve model `GoBk.Curve.*` expressed with the reference group law.
  Every proof about a model that calls `Curve.add/double/scalarMult/scalarBaseMult/isOnCurve`
  must go through these lemmas (never unfold the `Curve.*` definitions): the executable
  definitions take a fast, proved-equal route (Jacobian ladder `GoBk.Fast`) on valid points.
-/
namespace GoBk.Curve
open GoBk Bytes Spec

theorem add_def (a b : Pt) : Curve.add a b = padd a b := rfl
theorem double_def (a : Pt) : Curve.double a = pdouble a := rfl
theorem isOnCurve_def (a : Pt) : Curve.isOnCurve a = onCurve a := rfl

theorem scalarMult_def (a : Pt) (k : Bytes) :
    Curve.scalarMult a k = smul (beNat (moduloReduce k)) a := by
  unfold Curve.scalarMult
  split
  · rename_i h; exact Fast.smul_eq _ h
  · rfl

theorem scalarBaseMult_def (k : Bytes) :
    Curve.scalarBaseMult k = smul (beNat (moduloReduce k)) G := by
  unfold Curve.scalarBaseMult
  exact Fast.smulG_eq _

end GoBk.Curve
