/-
  GoBk.Proofs.FieldMul — C09 for `Mul2`/`Mul` and `SquareVal`/`Square`
  (generated definitions `GoBk.Gen.Field.mul2`, `squareVal`).

  For operands of magnitude ≤ 8 (`MagLe 8`):
    (i)   no uint64 intermediate (column sums, carries, folds) wraps and the final `uint32(…)`
          conversions do not truncate: the machine result is, word by word, the exact twin
          (`mul2_nowrap`, `squareVal_nowrap`; lock-step simulation with `sim_lets`);
    (ii)  the value is congruent to the product mod P (`…_exact_spec`: columns by `ring`, carry
          chain and the 2^260 ≡ 16·(2^32+977) fold by `omega`, with the explicit quotient
          `16·Σ t_{10+j}·2^(26j) + m`);
    (iii) the result has magnitude 1 in the sense of `MagLe` (word 2 may exceed 2^26 - 1 by up to
          2^20 - 1: the last carry is folded into it without renormalising).
  Mathlib is used only for `ring`.
-/
import GoBk.Proofs.FieldDefs
import GoBk.Proofs.FieldTactics
import Mathlib.Tactic.Ring

set_option linter.unusedSimpArgs false
set_option linter.unusedVariables false

namespace GoBk.Proofs.Field
open GoBk.Gen.Field

/-! ### pure `Nat` lemmas shared by Mul2 and SquareVal -/

/-- the column carry chain: t₀…t₁₉ are the base-2^26 digits of Σ c_k·2^(26k) (t₁₉ unreduced). -/
theorem carry_chain {c0 c1 c2 c3 c4 c5 c6 c7 c8 c9 c10 c11 c12 c13 c14 c15 c16 c17 c18 m0 m1 m2 m3 m4 m5 m6 m7 m8 m9 m10 m11 m12 m13 m14 m15 m16 m17 m18 t0 t1 t2 t3 t4 t5 t6 t7 t8 t9 t10 t11 t12 t13 t14 t15 t16 t17 t18 t19 : Nat}
    (k0 : m0 = c0) (s0 : t0 = m0 % 67108864)
    (k1 : m1 = m0 / 67108864 + c1) (s1 : t1 = m1 % 67108864)
    (k2 : m2 = m1 / 67108864 + c2) (s2 : t2 = m2 % 67108864)
    (k3 : m3 = m2 / 67108864 + c3) (s3 : t3 = m3 % 67108864)
    (k4 : m4 = m3 / 67108864 + c4) (s4 : t4 = m4 % 67108864)
    (k5 : m5 = m4 / 67108864 + c5) (s5 : t5 = m5 % 67108864)
    (k6 : m6 = m5 / 67108864 + c6) (s6 : t6 = m6 % 67108864)
    (k7 : m7 = m6 / 67108864 + c7) (s7 : t7 = m7 % 67108864)
    (k8 : m8 = m7 / 67108864 + c8) (s8 : t8 = m8 % 67108864)
    (k9 : m9 = m8 / 67108864 + c9) (s9 : t9 = m9 % 67108864)
    (k10 : m10 = m9 / 67108864 + c10) (s10 : t10 = m10 % 67108864)
    (k11 : m11 = m10 / 67108864 + c11) (s11 : t11 = m11 % 67108864)
    (k12 : m12 = m11 / 67108864 + c12) (s12 : t12 = m12 % 67108864)
    (k13 : m13 = m12 / 67108864 + c13) (s13 : t13 = m13 % 67108864)
    (k14 : m14 = m13 / 67108864 + c14) (s14 : t14 = m14 % 67108864)
    (k15 : m15 = m14 / 67108864 + c15) (s15 : t15 = m15 % 67108864)
    (k16 : m16 = m15 / 67108864 + c16) (s16 : t16 = m16 % 67108864)
    (k17 : m17 = m16 / 67108864 + c17) (s17 : t17 = m17 % 67108864)
    (k18 : m18 = m17 / 67108864 + c18) (s18 : t18 = m18 % 67108864)
    (s19 : t19 = m18 / 67108864) :
    t0 + t1 * 67108864 + t2 * 4503599627370496 + t3 * 302231454903657293676544 + t4 * 20282409603651670423947251286016 + t5 * 1361129467683753853853498429727072845824 + t6 * 91343852333181432387730302044767688728495783936 + t7 * 6129982163463555433433388108601236734474956488734408704 + t8 * 411376139330301510538742295639337626245683966408394965837152256 + t9 * 27606985387162255149739023449108101809804435888681546220650096895197184 + t10 * 1852673427797059126777135760139006525652319754650249024631321344126610074238976 + t11 * 124330809102446660538845562036705210025114037699336929360115994223289874253133343883264 + t12 * 8343699359066055009355553539724812947666814540455674882605631280555545803830627148527195652096 + t13 * 559936185544451052639360570142111069530411374308662383724997275240947967795040236345219373317901778944 + t14 * 37576681324381331646231689548629392438010920782533117931316655544515344401833735095419183974156299248510959616 + t15 * 2521728396569246669585858566409191283525103313309788586748690777871726193375821479130513040312634601011624191379636224 + t16 * 169230328010303641331690318856389386196071598838855992136870091590247882556495704531248437872567112920983350278405979725889536 + t17 * 11356855067118857664833184498250070849275646260739344691898284362197488876771842551971735167402555711886914400097909030211478150447104 + t18 * 762145642166990290864647761179972242614403843424065222377723867096038022172794340849684107193235344521442121855812163792833978437326241529856 + t19 * 51146728248377216718956089012931236753385031969422887335676427626502090568823039920051095192592252455482604439493126109519019633529459266458258243584
      = c0 + c1 * 67108864 + c2 * 4503599627370496 + c3 * 302231454903657293676544 + c4 * 20282409603651670423947251286016 + c5 * 1361129467683753853853498429727072845824 + c6 * 91343852333181432387730302044767688728495783936 + c7 * 6129982163463555433433388108601236734474956488734408704 + c8 * 411376139330301510538742295639337626245683966408394965837152256 + c9 * 27606985387162255149739023449108101809804435888681546220650096895197184 + c10 * 1852673427797059126777135760139006525652319754650249024631321344126610074238976 + c11 * 124330809102446660538845562036705210025114037699336929360115994223289874253133343883264 + c12 * 8343699359066055009355553539724812947666814540455674882605631280555545803830627148527195652096 + c13 * 559936185544451052639360570142111069530411374308662383724997275240947967795040236345219373317901778944 + c14 * 37576681324381331646231689548629392438010920782533117931316655544515344401833735095419183974156299248510959616 + c15 * 2521728396569246669585858566409191283525103313309788586748690777871726193375821479130513040312634601011624191379636224 + c16 * 169230328010303641331690318856389386196071598838855992136870091590247882556495704531248437872567112920983350278405979725889536 + c17 * 11356855067118857664833184498250070849275646260739344691898284362197488876771842551971735167402555711886914400097909030211478150447104 + c18 * 762145642166990290864647761179972242614403843424065222377723867096038022172794340849684107193235344521442121855812163792833978437326241529856 := by
  omega

/-- digits are < 2^26 and, for operands of magnitude ≤ 8, the top digit t₁₉ is < 2^24 + 2^5. -/
theorem carry_bounds {c0 c1 c2 c3 c4 c5 c6 c7 c8 c9 c10 c11 c12 c13 c14 c15 c16 c17 c18 m0 m1 m2 m3 m4 m5 m6 m7 m8 m9 m10 m11 m12 m13 m14 m15 m16 m17 m18 t0 t1 t2 t3 t4 t5 t6 t7 t8 t9 t10 t11 t12 t13 t14 t15 t16 t17 t18 t19 : Nat}
    (k0 : m0 = c0) (s0 : t0 = m0 % 67108864)
    (k1 : m1 = m0 / 67108864 + c1) (s1 : t1 = m1 % 67108864)
    (k2 : m2 = m1 / 67108864 + c2) (s2 : t2 = m2 % 67108864)
    (k3 : m3 = m2 / 67108864 + c3) (s3 : t3 = m3 % 67108864)
    (k4 : m4 = m3 / 67108864 + c4) (s4 : t4 = m4 % 67108864)
    (k5 : m5 = m4 / 67108864 + c5) (s5 : t5 = m5 % 67108864)
    (k6 : m6 = m5 / 67108864 + c6) (s6 : t6 = m6 % 67108864)
    (k7 : m7 = m6 / 67108864 + c7) (s7 : t7 = m7 % 67108864)
    (k8 : m8 = m7 / 67108864 + c8) (s8 : t8 = m8 % 67108864)
    (k9 : m9 = m8 / 67108864 + c9) (s9 : t9 = m9 % 67108864)
    (k10 : m10 = m9 / 67108864 + c10) (s10 : t10 = m10 % 67108864)
    (k11 : m11 = m10 / 67108864 + c11) (s11 : t11 = m11 % 67108864)
    (k12 : m12 = m11 / 67108864 + c12) (s12 : t12 = m12 % 67108864)
    (k13 : m13 = m12 / 67108864 + c13) (s13 : t13 = m13 % 67108864)
    (k14 : m14 = m13 / 67108864 + c14) (s14 : t14 = m14 % 67108864)
    (k15 : m15 = m14 / 67108864 + c15) (s15 : t15 = m15 % 67108864)
    (k16 : m16 = m15 / 67108864 + c16) (s16 : t16 = m16 % 67108864)
    (k17 : m17 = m16 / 67108864 + c17) (s17 : t17 = m17 % 67108864)
    (k18 : m18 = m17 / 67108864 + c18) (s18 : t18 = m18 % 67108864)
    (s19 : t19 = m18 / 67108864)
    (h0 : c0 ≤ 2973079441506304000) (h1 : c1 ≤ 2973079441506304000) (h2 : c2 ≤ 2973079441506304000) (h3 : c3 ≤ 2973079441506304000) (h4 : c4 ≤ 2973079441506304000) (h5 : c5 ≤ 2973079441506304000) (h6 : c6 ≤ 2973079441506304000) (h7 : c7 ≤ 2973079441506304000) (h8 : c8 ≤ 2973079441506304000) (h9 : c9 ≤ 2973079441506304000) (h10 : c10 ≤ 2973079441506304000) (h11 : c11 ≤ 2973079441506304000) (h12 : c12 ≤ 2973079441506304000) (h13 : c13 ≤ 2973079441506304000) (h14 : c14 ≤ 2973079441506304000) (h15 : c15 ≤ 2973079441506304000) (h16 : c16 ≤ 2973079441506304000)
    (h17 : c17 ≤ 36591746972385280) (h18 : c18 ≤ 1125899906842624) :
    t0 ≤ 67108863 ∧ t1 ≤ 67108863 ∧ t2 ≤ 67108863 ∧ t3 ≤ 67108863 ∧ t4 ≤ 67108863 ∧ t5 ≤ 67108863 ∧ t6 ≤ 67108863 ∧ t7 ≤ 67108863 ∧ t8 ≤ 67108863 ∧ t9 ≤ 67108863 ∧ t10 ≤ 67108863 ∧ t11 ≤ 67108863 ∧ t12 ≤ 67108863 ∧ t13 ≤ 67108863 ∧ t14 ≤ 67108863 ∧ t15 ≤ 67108863 ∧ t16 ≤ 67108863 ∧ t17 ≤ 67108863 ∧ t18 ≤ 67108863 ∧ t19 ≤ 16777248 := by
  omega

/-- the reduction phase: fold digits 10..19 (weight 2^260 ≡ 16·(2^32+977)), renormalise to 256 bits,
fold the overflow `mm` once more.  Value: out + (16·Σ t_{10+j}·2^(26j) + mm)·P = Σ t_k·2^(26k). -/
theorem mul_reduce {t0 t1 t2 t3 t4 t5 t6 t7 t8 t9 t10 t11 t12 t13 t14 t15 t16 t17 t18 t19 : Nat}
    (b0 : t0 ≤ 67108863) (b1 : t1 ≤ 67108863) (b2 : t2 ≤ 67108863) (b3 : t3 ≤ 67108863) (b4 : t4 ≤ 67108863) (b5 : t5 ≤ 67108863) (b6 : t6 ≤ 67108863) (b7 : t7 ≤ 67108863) (b8 : t8 ≤ 67108863) (b9 : t9 ≤ 67108863) (b10 : t10 ≤ 67108863) (b11 : t11 ≤ 67108863) (b12 : t12 ≤ 67108863) (b13 : t13 ≤ 67108863) (b14 : t14 ≤ 67108863) (b15 : t15 ≤ 67108863) (b16 : t16 ≤ 67108863) (b17 : t17 ≤ 67108863) (b18 : t18 ≤ 67108863) (b19 : t19 ≤ 16777248)
    {u0 v0 u1 v1 u2 v2 u3 v3 u4 v4 u5 v5 u6 v6 u7 v7 u8 v8 u9 v9 mm x0 o0 x1 o1 o2 o3 o4 o5 o6 o7 o8 o9 : Nat}
    (r0 : u0 = t0 + (t10 * 15632))
    (q0 : v0 = u0 % 67108864)
    (r1 : u1 = (((u0 / 67108864) + t1) + (t10 * 1024)) + (t11 * 15632))
    (q1 : v1 = u1 % 67108864)
    (r2 : u2 = (((u1 / 67108864) + t2) + (t11 * 1024)) + (t12 * 15632))
    (q2 : v2 = u2 % 67108864)
    (r3 : u3 = (((u2 / 67108864) + t3) + (t12 * 1024)) + (t13 * 15632))
    (q3 : v3 = u3 % 67108864)
    (r4 : u4 = (((u3 / 67108864) + t4) + (t13 * 1024)) + (t14 * 15632))
    (q4 : v4 = u4 % 67108864)
    (r5 : u5 = (((u4 / 67108864) + t5) + (t14 * 1024)) + (t15 * 15632))
    (q5 : v5 = u5 % 67108864)
    (r6 : u6 = (((u5 / 67108864) + t6) + (t15 * 1024)) + (t16 * 15632))
    (q6 : v6 = u6 % 67108864)
    (r7 : u7 = (((u6 / 67108864) + t7) + (t16 * 1024)) + (t17 * 15632))
    (q7 : v7 = u7 % 67108864)
    (r8 : u8 = (((u7 / 67108864) + t8) + (t17 * 1024)) + (t18 * 15632))
    (q8 : v8 = u8 % 67108864)
    (r9 : u9 = (((u8 / 67108864) + t9) + (t18 * 1024)) + (t19 * 68719492368))
    (q9 : v9 = u9 % 4194304)
    (rm : mm = u9 / 4194304)
    (d0 : x0 = v0 + (mm * 977))
    (p0 : o0 = x0 % 67108864)
    (d1 : x1 = ((x0 / 67108864) + v1) + (mm * 64))
    (p1 : o1 = x1 % 67108864)
    (p2 : o2 = (x1 / 67108864) + v2)
    (p3 : o3 = v3)
    (p4 : o4 = v4)
    (p5 : o5 = v5)
    (p6 : o6 = v6)
    (p7 : o7 = v7)
    (p8 : o8 = v8)
    (p9 : o9 = v9)
    :
    o0 ≤ 67108863 ∧ o1 ≤ 67108863 ∧ o2 ≤ 68157439 ∧ o3 ≤ 67108863 ∧ o4 ≤ 67108863 ∧ o5 ≤ 67108863 ∧ o6 ≤ 67108863 ∧ o7 ≤ 67108863 ∧ o8 ≤ 67108863 ∧ o9 ≤ 4194303 ∧
    (o0 + o1 * 67108864 + o2 * 4503599627370496 + o3 * 302231454903657293676544 + o4 * 20282409603651670423947251286016 + o5 * 1361129467683753853853498429727072845824 + o6 * 91343852333181432387730302044767688728495783936 + o7 * 6129982163463555433433388108601236734474956488734408704 + o8 * 411376139330301510538742295639337626245683966408394965837152256 + o9 * 27606985387162255149739023449108101809804435888681546220650096895197184)
      + (16 * (t10 + t11 * 67108864 + t12 * 4503599627370496 + t13 * 302231454903657293676544 + t14 * 20282409603651670423947251286016 + t15 * 1361129467683753853853498429727072845824 + t16 * 91343852333181432387730302044767688728495783936 + t17 * 6129982163463555433433388108601236734474956488734408704 + t18 * 411376139330301510538742295639337626245683966408394965837152256 + t19 * 27606985387162255149739023449108101809804435888681546220650096895197184) + mm) * 115792089237316195423570985008687907853269984665640564039457584007908834671663
      = t0 + t1 * 67108864 + t2 * 4503599627370496 + t3 * 302231454903657293676544 + t4 * 20282409603651670423947251286016 + t5 * 1361129467683753853853498429727072845824 + t6 * 91343852333181432387730302044767688728495783936 + t7 * 6129982163463555433433388108601236734474956488734408704 + t8 * 411376139330301510538742295639337626245683966408394965837152256 + t9 * 27606985387162255149739023449108101809804435888681546220650096895197184 + t10 * 1852673427797059126777135760139006525652319754650249024631321344126610074238976 + t11 * 124330809102446660538845562036705210025114037699336929360115994223289874253133343883264 + t12 * 8343699359066055009355553539724812947666814540455674882605631280555545803830627148527195652096 + t13 * 559936185544451052639360570142111069530411374308662383724997275240947967795040236345219373317901778944 + t14 * 37576681324381331646231689548629392438010920782533117931316655544515344401833735095419183974156299248510959616 + t15 * 2521728396569246669585858566409191283525103313309788586748690777871726193375821479130513040312634601011624191379636224 + t16 * 169230328010303641331690318856389386196071598838855992136870091590247882556495704531248437872567112920983350278405979725889536 + t17 * 11356855067118857664833184498250070849275646260739344691898284362197488876771842551971735167402555711886914400097909030211478150447104 + t18 * 762145642166990290864647761179972242614403843424065222377723867096038022172794340849684107193235344521442121855812163792833978437326241529856 + t19 * 51146728248377216718956089012931236753385031969422887335676427626502090568823039920051095192592252455482604439493126109519019633529459266458258243584 := by
  omega

/-! ### Mul2 -/

set_option maxHeartbeats 4000000 in
/-- the exact twin of Mul2 computes the product mod P and returns magnitude 1. -/
theorem mul2_exact_spec (a b : FN)
    (ha0 : a.n0 ≤ 545259520) (ha1 : a.n1 ≤ 545259520) (ha2 : a.n2 ≤ 545259520) (ha3 : a.n3 ≤ 545259520) (ha4 : a.n4 ≤ 545259520) (ha5 : a.n5 ≤ 545259520) (ha6 : a.n6 ≤ 545259520) (ha7 : a.n7 ≤ 545259520) (ha8 : a.n8 ≤ 545259520) (ha9 : a.n9 ≤ 33554432)
    (hb0 : b.n0 ≤ 545259520) (hb1 : b.n1 ≤ 545259520) (hb2 : b.n2 ≤ 545259520) (hb3 : b.n3 ≤ 545259520) (hb4 : b.n4 ≤ 545259520) (hb5 : b.n5 ≤ 545259520) (hb6 : b.n6 ≤ 545259520) (hb7 : b.n7 ≤ 545259520) (hb8 : b.n8 ≤ 545259520) (hb9 : b.n9 ≤ 33554432)
    :
    (mul2_exact a b).n0 ≤ 67108863 ∧ (mul2_exact a b).n1 ≤ 67108863 ∧ (mul2_exact a b).n2 ≤ 68157439 ∧
    (mul2_exact a b).n3 ≤ 67108863 ∧ (mul2_exact a b).n4 ≤ 67108863 ∧ (mul2_exact a b).n5 ≤ 67108863 ∧ (mul2_exact a b).n6 ≤ 67108863 ∧ (mul2_exact a b).n7 ≤ 67108863 ∧ (mul2_exact a b).n8 ≤ 67108863 ∧
    (mul2_exact a b).n9 ≤ 4194303 ∧ ∃ q, (mul2_exact a b).val + q * P = a.val * b.val := by
  rcases a with ⟨a0,a1,a2,a3,a4,a5,a6,a7,a8,a9⟩
  rcases b with ⟨b0,b1,b2,b3,b4,b5,b6,b7,b8,b9⟩
  simp only at ha0 ha1 ha2 ha3 ha4 ha5 ha6 ha7 ha8 ha9 hb0 hb1 hb2 hb3 hb4 hb5 hb6 hb7 hb8 hb9
  have p_0_0 : a0 * b0 ≤ 297307944150630400 := Nat.mul_le_mul ha0 hb0
  have p_0_1 : a0 * b1 ≤ 297307944150630400 := Nat.mul_le_mul ha0 hb1
  have p_1_0 : a1 * b0 ≤ 297307944150630400 := Nat.mul_le_mul ha1 hb0
  have p_0_2 : a0 * b2 ≤ 297307944150630400 := Nat.mul_le_mul ha0 hb2
  have p_1_1 : a1 * b1 ≤ 297307944150630400 := Nat.mul_le_mul ha1 hb1
  have p_2_0 : a2 * b0 ≤ 297307944150630400 := Nat.mul_le_mul ha2 hb0
  have p_0_3 : a0 * b3 ≤ 297307944150630400 := Nat.mul_le_mul ha0 hb3
  have p_1_2 : a1 * b2 ≤ 297307944150630400 := Nat.mul_le_mul ha1 hb2
  have p_2_1 : a2 * b1 ≤ 297307944150630400 := Nat.mul_le_mul ha2 hb1
  have p_3_0 : a3 * b0 ≤ 297307944150630400 := Nat.mul_le_mul ha3 hb0
  have p_0_4 : a0 * b4 ≤ 297307944150630400 := Nat.mul_le_mul ha0 hb4
  have p_1_3 : a1 * b3 ≤ 297307944150630400 := Nat.mul_le_mul ha1 hb3
  have p_2_2 : a2 * b2 ≤ 297307944150630400 := Nat.mul_le_mul ha2 hb2
  have p_3_1 : a3 * b1 ≤ 297307944150630400 := Nat.mul_le_mul ha3 hb1
  have p_4_0 : a4 * b0 ≤ 297307944150630400 := Nat.mul_le_mul ha4 hb0
  have p_0_5 : a0 * b5 ≤ 297307944150630400 := Nat.mul_le_mul ha0 hb5
  have p_1_4 : a1 * b4 ≤ 297307944150630400 := Nat.mul_le_mul ha1 hb4
  have p_2_3 : a2 * b3 ≤ 297307944150630400 := Nat.mul_le_mul ha2 hb3
  have p_3_2 : a3 * b2 ≤ 297307944150630400 := Nat.mul_le_mul ha3 hb2
  have p_4_1 : a4 * b1 ≤ 297307944150630400 := Nat.mul_le_mul ha4 hb1
  have p_5_0 : a5 * b0 ≤ 297307944150630400 := Nat.mul_le_mul ha5 hb0
  have p_0_6 : a0 * b6 ≤ 297307944150630400 := Nat.mul_le_mul ha0 hb6
  have p_1_5 : a1 * b5 ≤ 297307944150630400 := Nat.mul_le_mul ha1 hb5
  have p_2_4 : a2 * b4 ≤ 297307944150630400 := Nat.mul_le_mul ha2 hb4
  have p_3_3 : a3 * b3 ≤ 297307944150630400 := Nat.mul_le_mul ha3 hb3
  have p_4_2 : a4 * b2 ≤ 297307944150630400 := Nat.mul_le_mul ha4 hb2
  have p_5_1 : a5 * b1 ≤ 297307944150630400 := Nat.mul_le_mul ha5 hb1
  have p_6_0 : a6 * b0 ≤ 297307944150630400 := Nat.mul_le_mul ha6 hb0
  have p_0_7 : a0 * b7 ≤ 297307944150630400 := Nat.mul_le_mul ha0 hb7
  have p_1_6 : a1 * b6 ≤ 297307944150630400 := Nat.mul_le_mul ha1 hb6
  have p_2_5 : a2 * b5 ≤ 297307944150630400 := Nat.mul_le_mul ha2 hb5
  have p_3_4 : a3 * b4 ≤ 297307944150630400 := Nat.mul_le_mul ha3 hb4
  have p_4_3 : a4 * b3 ≤ 297307944150630400 := Nat.mul_le_mul ha4 hb3
  have p_5_2 : a5 * b2 ≤ 297307944150630400 := Nat.mul_le_mul ha5 hb2
  have p_6_1 : a6 * b1 ≤ 297307944150630400 := Nat.mul_le_mul ha6 hb1
  have p_7_0 : a7 * b0 ≤ 297307944150630400 := Nat.mul_le_mul ha7 hb0
  have p_0_8 : a0 * b8 ≤ 297307944150630400 := Nat.mul_le_mul ha0 hb8
  have p_1_7 : a1 * b7 ≤ 297307944150630400 := Nat.mul_le_mul ha1 hb7
  have p_2_6 : a2 * b6 ≤ 297307944150630400 := Nat.mul_le_mul ha2 hb6
  have p_3_5 : a3 * b5 ≤ 297307944150630400 := Nat.mul_le_mul ha3 hb5
  have p_4_4 : a4 * b4 ≤ 297307944150630400 := Nat.mul_le_mul ha4 hb4
  have p_5_3 : a5 * b3 ≤ 297307944150630400 := Nat.mul_le_mul ha5 hb3
  have p_6_2 : a6 * b2 ≤ 297307944150630400 := Nat.mul_le_mul ha6 hb2
  have p_7_1 : a7 * b1 ≤ 297307944150630400 := Nat.mul_le_mul ha7 hb1
  have p_8_0 : a8 * b0 ≤ 297307944150630400 := Nat.mul_le_mul ha8 hb0
  have p_0_9 : a0 * b9 ≤ 18295873486192640 := Nat.mul_le_mul ha0 hb9
  have p_1_8 : a1 * b8 ≤ 297307944150630400 := Nat.mul_le_mul ha1 hb8
  have p_2_7 : a2 * b7 ≤ 297307944150630400 := Nat.mul_le_mul ha2 hb7
  have p_3_6 : a3 * b6 ≤ 297307944150630400 := Nat.mul_le_mul ha3 hb6
  have p_4_5 : a4 * b5 ≤ 297307944150630400 := Nat.mul_le_mul ha4 hb5
  have p_5_4 : a5 * b4 ≤ 297307944150630400 := Nat.mul_le_mul ha5 hb4
  have p_6_3 : a6 * b3 ≤ 297307944150630400 := Nat.mul_le_mul ha6 hb3
  have p_7_2 : a7 * b2 ≤ 297307944150630400 := Nat.mul_le_mul ha7 hb2
  have p_8_1 : a8 * b1 ≤ 297307944150630400 := Nat.mul_le_mul ha8 hb1
  have p_9_0 : a9 * b0 ≤ 18295873486192640 := Nat.mul_le_mul ha9 hb0
  have p_1_9 : a1 * b9 ≤ 18295873486192640 := Nat.mul_le_mul ha1 hb9
  have p_2_8 : a2 * b8 ≤ 297307944150630400 := Nat.mul_le_mul ha2 hb8
  have p_3_7 : a3 * b7 ≤ 297307944150630400 := Nat.mul_le_mul ha3 hb7
  have p_4_6 : a4 * b6 ≤ 297307944150630400 := Nat.mul_le_mul ha4 hb6
  have p_5_5 : a5 * b5 ≤ 297307944150630400 := Nat.mul_le_mul ha5 hb5
  have p_6_4 : a6 * b4 ≤ 297307944150630400 := Nat.mul_le_mul ha6 hb4
  have p_7_3 : a7 * b3 ≤ 297307944150630400 := Nat.mul_le_mul ha7 hb3
  have p_8_2 : a8 * b2 ≤ 297307944150630400 := Nat.mul_le_mul ha8 hb2
  have p_9_1 : a9 * b1 ≤ 18295873486192640 := Nat.mul_le_mul ha9 hb1
  have p_2_9 : a2 * b9 ≤ 18295873486192640 := Nat.mul_le_mul ha2 hb9
  have p_3_8 : a3 * b8 ≤ 297307944150630400 := Nat.mul_le_mul ha3 hb8
  have p_4_7 : a4 * b7 ≤ 297307944150630400 := Nat.mul_le_mul ha4 hb7
  have p_5_6 : a5 * b6 ≤ 297307944150630400 := Nat.mul_le_mul ha5 hb6
  have p_6_5 : a6 * b5 ≤ 297307944150630400 := Nat.mul_le_mul ha6 hb5
  have p_7_4 : a7 * b4 ≤ 297307944150630400 := Nat.mul_le_mul ha7 hb4
  have p_8_3 : a8 * b3 ≤ 297307944150630400 := Nat.mul_le_mul ha8 hb3
  have p_9_2 : a9 * b2 ≤ 18295873486192640 := Nat.mul_le_mul ha9 hb2
  have p_3_9 : a3 * b9 ≤ 18295873486192640 := Nat.mul_le_mul ha3 hb9
  have p_4_8 : a4 * b8 ≤ 297307944150630400 := Nat.mul_le_mul ha4 hb8
  have p_5_7 : a5 * b7 ≤ 297307944150630400 := Nat.mul_le_mul ha5 hb7
  have p_6_6 : a6 * b6 ≤ 297307944150630400 := Nat.mul_le_mul ha6 hb6
  have p_7_5 : a7 * b5 ≤ 297307944150630400 := Nat.mul_le_mul ha7 hb5
  have p_8_4 : a8 * b4 ≤ 297307944150630400 := Nat.mul_le_mul ha8 hb4
  have p_9_3 : a9 * b3 ≤ 18295873486192640 := Nat.mul_le_mul ha9 hb3
  have p_4_9 : a4 * b9 ≤ 18295873486192640 := Nat.mul_le_mul ha4 hb9
  have p_5_8 : a5 * b8 ≤ 297307944150630400 := Nat.mul_le_mul ha5 hb8
  have p_6_7 : a6 * b7 ≤ 297307944150630400 := Nat.mul_le_mul ha6 hb7
  have p_7_6 : a7 * b6 ≤ 297307944150630400 := Nat.mul_le_mul ha7 hb6
  have p_8_5 : a8 * b5 ≤ 297307944150630400 := Nat.mul_le_mul ha8 hb5
  have p_9_4 : a9 * b4 ≤ 18295873486192640 := Nat.mul_le_mul ha9 hb4
  have p_5_9 : a5 * b9 ≤ 18295873486192640 := Nat.mul_le_mul ha5 hb9
  have p_6_8 : a6 * b8 ≤ 297307944150630400 := Nat.mul_le_mul ha6 hb8
  have p_7_7 : a7 * b7 ≤ 297307944150630400 := Nat.mul_le_mul ha7 hb7
  have p_8_6 : a8 * b6 ≤ 297307944150630400 := Nat.mul_le_mul ha8 hb6
  have p_9_5 : a9 * b5 ≤ 18295873486192640 := Nat.mul_le_mul ha9 hb5
  have p_6_9 : a6 * b9 ≤ 18295873486192640 := Nat.mul_le_mul ha6 hb9
  have p_7_8 : a7 * b8 ≤ 297307944150630400 := Nat.mul_le_mul ha7 hb8
  have p_8_7 : a8 * b7 ≤ 297307944150630400 := Nat.mul_le_mul ha8 hb7
  have p_9_6 : a9 * b6 ≤ 18295873486192640 := Nat.mul_le_mul ha9 hb6
  have p_7_9 : a7 * b9 ≤ 18295873486192640 := Nat.mul_le_mul ha7 hb9
  have p_8_8 : a8 * b8 ≤ 297307944150630400 := Nat.mul_le_mul ha8 hb8
  have p_9_7 : a9 * b7 ≤ 18295873486192640 := Nat.mul_le_mul ha9 hb7
  have p_8_9 : a8 * b9 ≤ 18295873486192640 := Nat.mul_le_mul ha8 hb9
  have p_9_8 : a9 * b8 ≤ 18295873486192640 := Nat.mul_le_mul ha9 hb8
  have p_9_9 : a9 * b9 ≤ 1125899906842624 := Nat.mul_le_mul ha9 hb9
  have hc0 : a0 * b0 ≤ 2973079441506304000 := by omega
  have hc1 : a0 * b1 + a1 * b0 ≤ 2973079441506304000 := by omega
  have hc2 : a0 * b2 + a1 * b1 + a2 * b0 ≤ 2973079441506304000 := by omega
  have hc3 : a0 * b3 + a1 * b2 + a2 * b1 + a3 * b0 ≤ 2973079441506304000 := by omega
  have hc4 : a0 * b4 + a1 * b3 + a2 * b2 + a3 * b1 + a4 * b0 ≤ 2973079441506304000 := by omega
  have hc5 : a0 * b5 + a1 * b4 + a2 * b3 + a3 * b2 + a4 * b1 + a5 * b0 ≤ 2973079441506304000 := by omega
  have hc6 : a0 * b6 + a1 * b5 + a2 * b4 + a3 * b3 + a4 * b2 + a5 * b1 + a6 * b0 ≤ 2973079441506304000 := by omega
  have hc7 : a0 * b7 + a1 * b6 + a2 * b5 + a3 * b4 + a4 * b3 + a5 * b2 + a6 * b1 + a7 * b0 ≤ 2973079441506304000 := by omega
  have hc8 : a0 * b8 + a1 * b7 + a2 * b6 + a3 * b5 + a4 * b4 + a5 * b3 + a6 * b2 + a7 * b1 + a8 * b0 ≤ 2973079441506304000 := by omega
  have hc9 : a0 * b9 + a1 * b8 + a2 * b7 + a3 * b6 + a4 * b5 + a5 * b4 + a6 * b3 + a7 * b2 + a8 * b1 + a9 * b0 ≤ 2973079441506304000 := by omega
  have hc10 : a1 * b9 + a2 * b8 + a3 * b7 + a4 * b6 + a5 * b5 + a6 * b4 + a7 * b3 + a8 * b2 + a9 * b1 ≤ 2973079441506304000 := by omega
  have hc11 : a2 * b9 + a3 * b8 + a4 * b7 + a5 * b6 + a6 * b5 + a7 * b4 + a8 * b3 + a9 * b2 ≤ 2973079441506304000 := by omega
  have hc12 : a3 * b9 + a4 * b8 + a5 * b7 + a6 * b6 + a7 * b5 + a8 * b4 + a9 * b3 ≤ 2973079441506304000 := by omega
  have hc13 : a4 * b9 + a5 * b8 + a6 * b7 + a7 * b6 + a8 * b5 + a9 * b4 ≤ 2973079441506304000 := by omega
  have hc14 : a5 * b9 + a6 * b8 + a7 * b7 + a8 * b6 + a9 * b5 ≤ 2973079441506304000 := by omega
  have hc15 : a6 * b9 + a7 * b8 + a8 * b7 + a9 * b6 ≤ 2973079441506304000 := by omega
  have hc16 : a7 * b9 + a8 * b8 + a9 * b7 ≤ 2973079441506304000 := by omega
  have hc17 : a8 * b9 + a9 * b8 ≤ 36591746972385280 := by omega
  have hc18 : a9 * b9 ≤ 1125899906842624 := by omega
  clear p_0_0 p_0_1 p_0_2 p_0_3 p_0_4 p_0_5 p_0_6 p_0_7 p_0_8 p_0_9 p_1_0 p_1_1 p_1_2 p_1_3 p_1_4 p_1_5 p_1_6 p_1_7 p_1_8 p_1_9 p_2_0 p_2_1 p_2_2 p_2_3 p_2_4 p_2_5 p_2_6 p_2_7 p_2_8 p_2_9 p_3_0 p_3_1 p_3_2 p_3_3 p_3_4 p_3_5 p_3_6 p_3_7 p_3_8 p_3_9 p_4_0 p_4_1 p_4_2 p_4_3 p_4_4 p_4_5 p_4_6 p_4_7 p_4_8 p_4_9 p_5_0 p_5_1 p_5_2 p_5_3 p_5_4 p_5_5 p_5_6 p_5_7 p_5_8 p_5_9 p_6_0 p_6_1 p_6_2 p_6_3 p_6_4 p_6_5 p_6_6 p_6_7 p_6_8 p_6_9 p_7_0 p_7_1 p_7_2 p_7_3 p_7_4 p_7_5 p_7_6 p_7_7 p_7_8 p_7_9 p_8_0 p_8_1 p_8_2 p_8_3 p_8_4 p_8_5 p_8_6 p_8_7 p_8_8 p_8_9 p_9_0 p_9_1 p_9_2 p_9_3 p_9_4 p_9_5 p_9_6 p_9_7 p_9_8 p_9_9
  unfold mul2_exact
  dsimp -zeta only []
  extract_lets -merge m_0 t0_0 m_1 t1_0 m_2 t2_0 m_3 t3_0 m_4 t4_0 m_5 t5_0 m_6 t6_0 m_7 t7_0 m_8 t8_0 m_9 t9_0 m_10 t10_0 m_11 t11_0 m_12 t12_0 m_13 t13_0 m_14 t14_0 m_15 t15_0 m_16 t16_0 m_17 t17_0 m_18 t18_0 t19_0 m_19 t0_1 m_20 t1_1 m_21 t2_1 m_22 t3_1 m_23 t4_1 m_24 t5_1 m_25 t6_1 m_26 t7_1 m_27 t8_1 m_28 t9_1 m_29 d_0 o0 d_1 o1 o2 o3 o4 o5 o6 o7 o8 o9
  lets_to_eqs
  have k1 : m_1 = m_0 / 67108864 + (a0 * b1 + a1 * b0) := by rw [hlet_2]; try simp only [Nat.add_assoc]
  have k2 : m_2 = m_1 / 67108864 + (a0 * b2 + a1 * b1 + a2 * b0) := by rw [hlet_4]; try simp only [Nat.add_assoc]
  have k3 : m_3 = m_2 / 67108864 + (a0 * b3 + a1 * b2 + a2 * b1 + a3 * b0) := by rw [hlet_6]; try simp only [Nat.add_assoc]
  have k4 : m_4 = m_3 / 67108864 + (a0 * b4 + a1 * b3 + a2 * b2 + a3 * b1 + a4 * b0) := by rw [hlet_8]; try simp only [Nat.add_assoc]
  have k5 : m_5 = m_4 / 67108864 + (a0 * b5 + a1 * b4 + a2 * b3 + a3 * b2 + a4 * b1 + a5 * b0) := by rw [hlet_10]; try simp only [Nat.add_assoc]
  have k6 : m_6 = m_5 / 67108864 + (a0 * b6 + a1 * b5 + a2 * b4 + a3 * b3 + a4 * b2 + a5 * b1 + a6 * b0) := by rw [hlet_12]; try simp only [Nat.add_assoc]
  have k7 : m_7 = m_6 / 67108864 + (a0 * b7 + a1 * b6 + a2 * b5 + a3 * b4 + a4 * b3 + a5 * b2 + a6 * b1 + a7 * b0) := by rw [hlet_14]; try simp only [Nat.add_assoc]
  have k8 : m_8 = m_7 / 67108864 + (a0 * b8 + a1 * b7 + a2 * b6 + a3 * b5 + a4 * b4 + a5 * b3 + a6 * b2 + a7 * b1 + a8 * b0) := by rw [hlet_16]; try simp only [Nat.add_assoc]
  have k9 : m_9 = m_8 / 67108864 + (a0 * b9 + a1 * b8 + a2 * b7 + a3 * b6 + a4 * b5 + a5 * b4 + a6 * b3 + a7 * b2 + a8 * b1 + a9 * b0) := by rw [hlet_18]; try simp only [Nat.add_assoc]
  have k10 : m_10 = m_9 / 67108864 + (a1 * b9 + a2 * b8 + a3 * b7 + a4 * b6 + a5 * b5 + a6 * b4 + a7 * b3 + a8 * b2 + a9 * b1) := by rw [hlet_20]; try simp only [Nat.add_assoc]
  have k11 : m_11 = m_10 / 67108864 + (a2 * b9 + a3 * b8 + a4 * b7 + a5 * b6 + a6 * b5 + a7 * b4 + a8 * b3 + a9 * b2) := by rw [hlet_22]; try simp only [Nat.add_assoc]
  have k12 : m_12 = m_11 / 67108864 + (a3 * b9 + a4 * b8 + a5 * b7 + a6 * b6 + a7 * b5 + a8 * b4 + a9 * b3) := by rw [hlet_24]; try simp only [Nat.add_assoc]
  have k13 : m_13 = m_12 / 67108864 + (a4 * b9 + a5 * b8 + a6 * b7 + a7 * b6 + a8 * b5 + a9 * b4) := by rw [hlet_26]; try simp only [Nat.add_assoc]
  have k14 : m_14 = m_13 / 67108864 + (a5 * b9 + a6 * b8 + a7 * b7 + a8 * b6 + a9 * b5) := by rw [hlet_28]; try simp only [Nat.add_assoc]
  have k15 : m_15 = m_14 / 67108864 + (a6 * b9 + a7 * b8 + a8 * b7 + a9 * b6) := by rw [hlet_30]; try simp only [Nat.add_assoc]
  have k16 : m_16 = m_15 / 67108864 + (a7 * b9 + a8 * b8 + a9 * b7) := by rw [hlet_32]; try simp only [Nat.add_assoc]
  have k17 : m_17 = m_16 / 67108864 + (a8 * b9 + a9 * b8) := by rw [hlet_34]; try simp only [Nat.add_assoc]
  have cv := carry_chain hlet_0 hlet_1 k1 hlet_3 k2 hlet_5 k3 hlet_7 k4 hlet_9 k5 hlet_11 k6 hlet_13 k7 hlet_15 k8 hlet_17 k9 hlet_19 k10 hlet_21 k11 hlet_23 k12 hlet_25 k13 hlet_27 k14 hlet_29 k15 hlet_31 k16 hlet_33 k17 hlet_35 hlet_36 hlet_37 hlet_38
  obtain ⟨tb0,tb1,tb2,tb3,tb4,tb5,tb6,tb7,tb8,tb9,tb10,tb11,tb12,tb13,tb14,tb15,tb16,tb17,tb18,tb19⟩ := carry_bounds hlet_0 hlet_1 k1 hlet_3 k2 hlet_5 k3 hlet_7 k4 hlet_9 k5 hlet_11 k6 hlet_13 k7 hlet_15 k8 hlet_17 k9 hlet_19 k10 hlet_21 k11 hlet_23 k12 hlet_25 k13 hlet_27 k14 hlet_29 k15 hlet_31 k16 hlet_33 k17 hlet_35 hlet_36 hlet_37 hlet_38 hc0 hc1 hc2 hc3 hc4 hc5 hc6 hc7 hc8 hc9 hc10 hc11 hc12 hc13 hc14 hc15 hc16 hc17 hc18
  obtain ⟨g0,g1,g2,g3,g4,g5,g6,g7,g8,g9,hv⟩ := mul_reduce tb0 tb1 tb2 tb3 tb4 tb5 tb6 tb7 tb8 tb9 tb10 tb11 tb12 tb13 tb14 tb15 tb16 tb17 tb18 tb19 hlet_39 hlet_40 hlet_41 hlet_42 hlet_43 hlet_44 hlet_45 hlet_46 hlet_47 hlet_48 hlet_49 hlet_50 hlet_51 hlet_52 hlet_53 hlet_54 hlet_55 hlet_56 hlet_57 hlet_58 hlet_59 hlet_60 hlet_61 hlet_62 hlet_63 hlet_64 hlet_65 hlet_66 hlet_67 hlet_68 hlet_69 hlet_70 hlet_71
  refine ⟨g0, g1, g2, g3, g4, g5, g6, g7, g8, g9, 16 * (t10_0 + t11_0 * 67108864 + t12_0 * 4503599627370496 + t13_0 * 302231454903657293676544 + t14_0 * 20282409603651670423947251286016 + t15_0 * 1361129467683753853853498429727072845824 + t16_0 * 91343852333181432387730302044767688728495783936 + t17_0 * 6129982163463555433433388108601236734474956488734408704 + t18_0 * 411376139330301510538742295639337626245683966408394965837152256 + t19_0 * 27606985387162255149739023449108101809804435888681546220650096895197184) + m_29, ?_⟩
  simp only [FN.val, Nat.reducePow, P_eq]
  rw [hv, cv]
  ring

set_option maxHeartbeats 4000000 in
/-- No `uint64` intermediate of `Mul2` wraps and no final `uint32(…)` conversion truncates, for
operands of magnitude ≤ 8: lock-step simulation of the machine version by the exact version. -/
theorem mul2_nowrap (a b : FV) (ha : MagLe 8 a) (hb : MagLe 8 b) :
    (mul2 a b).toN = mul2_exact a.toN b.toN := by
  rcases a with ⟨a0,a1,a2,a3,a4,a5,a6,a7,a8,a9⟩
  rcases b with ⟨b0,b1,b2,b3,b4,b5,b6,b7,b8,b9⟩
  obtain ⟨ha0,ha1,ha2,ha3,ha4,ha5,ha6,ha7,ha8,ha9⟩ := ha
  obtain ⟨hb0,hb1,hb2,hb3,hb4,hb5,hb6,hb7,hb8,hb9⟩ := hb
  simp only [Nat.reduceMul] at ha0 ha1 ha2 ha3 ha4 ha5 ha6 ha7 ha8 ha9 hb0 hb1 hb2 hb3 hb4 hb5 hb6 hb7 hb8 hb9
  unfold mul2 mul2_exact
  simp -zeta only [FV.toN]
  extract_lets -merge
  lets_to_eqs
  sim_lets using omega

/-- **C09, Mul2.** -/
theorem mul2_sound (a b : FV) (ha : MagLe 8 a) (hb : MagLe 8 b) :
    (mul2 a b).toN = mul2_exact a.toN b.toN ∧
    (mul2 a b).val % P = (a.val * b.val) % P ∧
    MagLe 1 (mul2 a b) := by
  have hw := mul2_nowrap a b ha hb
  have ha' := ha
  obtain ⟨ha0,ha1,ha2,ha3,ha4,ha5,ha6,ha7,ha8,ha9⟩ := ha'
  have hb' := hb
  obtain ⟨hb0,hb1,hb2,hb3,hb4,hb5,hb6,hb7,hb8,hb9⟩ := hb'
  simp only [Nat.reduceMul] at ha0 ha1 ha2 ha3 ha4 ha5 ha6 ha7 ha8 ha9 hb0 hb1 hb2 hb3 hb4 hb5 hb6 hb7 hb8 hb9
  have hs := mul2_exact_spec a.toN b.toN ha0 ha1 ha2 ha3 ha4 ha5 ha6 ha7 ha8 ha9 hb0 hb1 hb2 hb3 hb4 hb5 hb6 hb7 hb8 hb9
  rw [← hw] at hs
  obtain ⟨g0,g1,g2,g3,g4,g5,g6,g7,g8,g9,q,hq⟩ := hs
  refine ⟨hw, ?_, ?_⟩
  · rw [val_toN, val_toN, val_toN] at hq
    rw [← hq, Nat.add_mul_mod_self_right]
  · simp only [FV.toN] at g0 g1 g2 g3 g4 g5 g6 g7 g8 g9
    unfold MagLe
    omega

/-! ### SquareVal -/

set_option maxHeartbeats 4000000 in
/-- the exact twin of SquareVal computes the product mod P and returns magnitude 1. -/
theorem squareVal_exact_spec (a : FN)
    (ha0 : a.n0 ≤ 545259520) (ha1 : a.n1 ≤ 545259520) (ha2 : a.n2 ≤ 545259520) (ha3 : a.n3 ≤ 545259520) (ha4 : a.n4 ≤ 545259520) (ha5 : a.n5 ≤ 545259520) (ha6 : a.n6 ≤ 545259520) (ha7 : a.n7 ≤ 545259520) (ha8 : a.n8 ≤ 545259520) (ha9 : a.n9 ≤ 33554432)
    :
    (squareVal_exact a).n0 ≤ 67108863 ∧ (squareVal_exact a).n1 ≤ 67108863 ∧ (squareVal_exact a).n2 ≤ 68157439 ∧
    (squareVal_exact a).n3 ≤ 67108863 ∧ (squareVal_exact a).n4 ≤ 67108863 ∧ (squareVal_exact a).n5 ≤ 67108863 ∧ (squareVal_exact a).n6 ≤ 67108863 ∧ (squareVal_exact a).n7 ≤ 67108863 ∧ (squareVal_exact a).n8 ≤ 67108863 ∧
    (squareVal_exact a).n9 ≤ 4194303 ∧ ∃ q, (squareVal_exact a).val + q * P = a.val * a.val := by
  rcases a with ⟨a0,a1,a2,a3,a4,a5,a6,a7,a8,a9⟩
  simp only at ha0 ha1 ha2 ha3 ha4 ha5 ha6 ha7 ha8 ha9
  have p_0_0 : a0 * a0 ≤ 297307944150630400 := Nat.mul_le_mul ha0 ha0
  have p_0_1 : 2 * a0 * a1 ≤ 594615888301260800 := Nat.mul_le_mul (Nat.mul_le_mul_left 2 ha0) ha1
  have p_0_2 : 2 * a0 * a2 ≤ 594615888301260800 := Nat.mul_le_mul (Nat.mul_le_mul_left 2 ha0) ha2
  have p_1_1 : a1 * a1 ≤ 297307944150630400 := Nat.mul_le_mul ha1 ha1
  have p_0_3 : 2 * a0 * a3 ≤ 594615888301260800 := Nat.mul_le_mul (Nat.mul_le_mul_left 2 ha0) ha3
  have p_1_2 : 2 * a1 * a2 ≤ 594615888301260800 := Nat.mul_le_mul (Nat.mul_le_mul_left 2 ha1) ha2
  have p_0_4 : 2 * a0 * a4 ≤ 594615888301260800 := Nat.mul_le_mul (Nat.mul_le_mul_left 2 ha0) ha4
  have p_1_3 : 2 * a1 * a3 ≤ 594615888301260800 := Nat.mul_le_mul (Nat.mul_le_mul_left 2 ha1) ha3
  have p_2_2 : a2 * a2 ≤ 297307944150630400 := Nat.mul_le_mul ha2 ha2
  have p_0_5 : 2 * a0 * a5 ≤ 594615888301260800 := Nat.mul_le_mul (Nat.mul_le_mul_left 2 ha0) ha5
  have p_1_4 : 2 * a1 * a4 ≤ 594615888301260800 := Nat.mul_le_mul (Nat.mul_le_mul_left 2 ha1) ha4
  have p_2_3 : 2 * a2 * a3 ≤ 594615888301260800 := Nat.mul_le_mul (Nat.mul_le_mul_left 2 ha2) ha3
  have p_0_6 : 2 * a0 * a6 ≤ 594615888301260800 := Nat.mul_le_mul (Nat.mul_le_mul_left 2 ha0) ha6
  have p_1_5 : 2 * a1 * a5 ≤ 594615888301260800 := Nat.mul_le_mul (Nat.mul_le_mul_left 2 ha1) ha5
  have p_2_4 : 2 * a2 * a4 ≤ 594615888301260800 := Nat.mul_le_mul (Nat.mul_le_mul_left 2 ha2) ha4
  have p_3_3 : a3 * a3 ≤ 297307944150630400 := Nat.mul_le_mul ha3 ha3
  have p_0_7 : 2 * a0 * a7 ≤ 594615888301260800 := Nat.mul_le_mul (Nat.mul_le_mul_left 2 ha0) ha7
  have p_1_6 : 2 * a1 * a6 ≤ 594615888301260800 := Nat.mul_le_mul (Nat.mul_le_mul_left 2 ha1) ha6
  have p_2_5 : 2 * a2 * a5 ≤ 594615888301260800 := Nat.mul_le_mul (Nat.mul_le_mul_left 2 ha2) ha5
  have p_3_4 : 2 * a3 * a4 ≤ 594615888301260800 := Nat.mul_le_mul (Nat.mul_le_mul_left 2 ha3) ha4
  have p_0_8 : 2 * a0 * a8 ≤ 594615888301260800 := Nat.mul_le_mul (Nat.mul_le_mul_left 2 ha0) ha8
  have p_1_7 : 2 * a1 * a7 ≤ 594615888301260800 := Nat.mul_le_mul (Nat.mul_le_mul_left 2 ha1) ha7
  have p_2_6 : 2 * a2 * a6 ≤ 594615888301260800 := Nat.mul_le_mul (Nat.mul_le_mul_left 2 ha2) ha6
  have p_3_5 : 2 * a3 * a5 ≤ 594615888301260800 := Nat.mul_le_mul (Nat.mul_le_mul_left 2 ha3) ha5
  have p_4_4 : a4 * a4 ≤ 297307944150630400 := Nat.mul_le_mul ha4 ha4
  have p_0_9 : 2 * a0 * a9 ≤ 36591746972385280 := Nat.mul_le_mul (Nat.mul_le_mul_left 2 ha0) ha9
  have p_1_8 : 2 * a1 * a8 ≤ 594615888301260800 := Nat.mul_le_mul (Nat.mul_le_mul_left 2 ha1) ha8
  have p_2_7 : 2 * a2 * a7 ≤ 594615888301260800 := Nat.mul_le_mul (Nat.mul_le_mul_left 2 ha2) ha7
  have p_3_6 : 2 * a3 * a6 ≤ 594615888301260800 := Nat.mul_le_mul (Nat.mul_le_mul_left 2 ha3) ha6
  have p_4_5 : 2 * a4 * a5 ≤ 594615888301260800 := Nat.mul_le_mul (Nat.mul_le_mul_left 2 ha4) ha5
  have p_1_9 : 2 * a1 * a9 ≤ 36591746972385280 := Nat.mul_le_mul (Nat.mul_le_mul_left 2 ha1) ha9
  have p_2_8 : 2 * a2 * a8 ≤ 594615888301260800 := Nat.mul_le_mul (Nat.mul_le_mul_left 2 ha2) ha8
  have p_3_7 : 2 * a3 * a7 ≤ 594615888301260800 := Nat.mul_le_mul (Nat.mul_le_mul_left 2 ha3) ha7
  have p_4_6 : 2 * a4 * a6 ≤ 594615888301260800 := Nat.mul_le_mul (Nat.mul_le_mul_left 2 ha4) ha6
  have p_5_5 : a5 * a5 ≤ 297307944150630400 := Nat.mul_le_mul ha5 ha5
  have p_2_9 : 2 * a2 * a9 ≤ 36591746972385280 := Nat.mul_le_mul (Nat.mul_le_mul_left 2 ha2) ha9
  have p_3_8 : 2 * a3 * a8 ≤ 594615888301260800 := Nat.mul_le_mul (Nat.mul_le_mul_left 2 ha3) ha8
  have p_4_7 : 2 * a4 * a7 ≤ 594615888301260800 := Nat.mul_le_mul (Nat.mul_le_mul_left 2 ha4) ha7
  have p_5_6 : 2 * a5 * a6 ≤ 594615888301260800 := Nat.mul_le_mul (Nat.mul_le_mul_left 2 ha5) ha6
  have p_3_9 : 2 * a3 * a9 ≤ 36591746972385280 := Nat.mul_le_mul (Nat.mul_le_mul_left 2 ha3) ha9
  have p_4_8 : 2 * a4 * a8 ≤ 594615888301260800 := Nat.mul_le_mul (Nat.mul_le_mul_left 2 ha4) ha8
  have p_5_7 : 2 * a5 * a7 ≤ 594615888301260800 := Nat.mul_le_mul (Nat.mul_le_mul_left 2 ha5) ha7
  have p_6_6 : a6 * a6 ≤ 297307944150630400 := Nat.mul_le_mul ha6 ha6
  have p_4_9 : 2 * a4 * a9 ≤ 36591746972385280 := Nat.mul_le_mul (Nat.mul_le_mul_left 2 ha4) ha9
  have p_5_8 : 2 * a5 * a8 ≤ 594615888301260800 := Nat.mul_le_mul (Nat.mul_le_mul_left 2 ha5) ha8
  have p_6_7 : 2 * a6 * a7 ≤ 594615888301260800 := Nat.mul_le_mul (Nat.mul_le_mul_left 2 ha6) ha7
  have p_5_9 : 2 * a5 * a9 ≤ 36591746972385280 := Nat.mul_le_mul (Nat.mul_le_mul_left 2 ha5) ha9
  have p_6_8 : 2 * a6 * a8 ≤ 594615888301260800 := Nat.mul_le_mul (Nat.mul_le_mul_left 2 ha6) ha8
  have p_7_7 : a7 * a7 ≤ 297307944150630400 := Nat.mul_le_mul ha7 ha7
  have p_6_9 : 2 * a6 * a9 ≤ 36591746972385280 := Nat.mul_le_mul (Nat.mul_le_mul_left 2 ha6) ha9
  have p_7_8 : 2 * a7 * a8 ≤ 594615888301260800 := Nat.mul_le_mul (Nat.mul_le_mul_left 2 ha7) ha8
  have p_7_9 : 2 * a7 * a9 ≤ 36591746972385280 := Nat.mul_le_mul (Nat.mul_le_mul_left 2 ha7) ha9
  have p_8_8 : a8 * a8 ≤ 297307944150630400 := Nat.mul_le_mul ha8 ha8
  have p_8_9 : 2 * a8 * a9 ≤ 36591746972385280 := Nat.mul_le_mul (Nat.mul_le_mul_left 2 ha8) ha9
  have p_9_9 : a9 * a9 ≤ 1125899906842624 := Nat.mul_le_mul ha9 ha9
  have hc0 : a0 * a0 ≤ 2973079441506304000 := by omega
  have hc1 : 2 * a0 * a1 ≤ 2973079441506304000 := by omega
  have hc2 : 2 * a0 * a2 + a1 * a1 ≤ 2973079441506304000 := by omega
  have hc3 : 2 * a0 * a3 + 2 * a1 * a2 ≤ 2973079441506304000 := by omega
  have hc4 : 2 * a0 * a4 + 2 * a1 * a3 + a2 * a2 ≤ 2973079441506304000 := by omega
  have hc5 : 2 * a0 * a5 + 2 * a1 * a4 + 2 * a2 * a3 ≤ 2973079441506304000 := by omega
  have hc6 : 2 * a0 * a6 + 2 * a1 * a5 + 2 * a2 * a4 + a3 * a3 ≤ 2973079441506304000 := by omega
  have hc7 : 2 * a0 * a7 + 2 * a1 * a6 + 2 * a2 * a5 + 2 * a3 * a4 ≤ 2973079441506304000 := by omega
  have hc8 : 2 * a0 * a8 + 2 * a1 * a7 + 2 * a2 * a6 + 2 * a3 * a5 + a4 * a4 ≤ 2973079441506304000 := by omega
  have hc9 : 2 * a0 * a9 + 2 * a1 * a8 + 2 * a2 * a7 + 2 * a3 * a6 + 2 * a4 * a5 ≤ 2973079441506304000 := by omega
  have hc10 : 2 * a1 * a9 + 2 * a2 * a8 + 2 * a3 * a7 + 2 * a4 * a6 + a5 * a5 ≤ 2973079441506304000 := by omega
  have hc11 : 2 * a2 * a9 + 2 * a3 * a8 + 2 * a4 * a7 + 2 * a5 * a6 ≤ 2973079441506304000 := by omega
  have hc12 : 2 * a3 * a9 + 2 * a4 * a8 + 2 * a5 * a7 + a6 * a6 ≤ 2973079441506304000 := by omega
  have hc13 : 2 * a4 * a9 + 2 * a5 * a8 + 2 * a6 * a7 ≤ 2973079441506304000 := by omega
  have hc14 : 2 * a5 * a9 + 2 * a6 * a8 + a7 * a7 ≤ 2973079441506304000 := by omega
  have hc15 : 2 * a6 * a9 + 2 * a7 * a8 ≤ 2973079441506304000 := by omega
  have hc16 : 2 * a7 * a9 + a8 * a8 ≤ 2973079441506304000 := by omega
  have hc17 : 2 * a8 * a9 ≤ 36591746972385280 := by omega
  have hc18 : a9 * a9 ≤ 1125899906842624 := by omega
  clear p_0_0 p_0_1 p_0_2 p_0_3 p_0_4 p_0_5 p_0_6 p_0_7 p_0_8 p_0_9 p_1_1 p_1_2 p_1_3 p_1_4 p_1_5 p_1_6 p_1_7 p_1_8 p_1_9 p_2_2 p_2_3 p_2_4 p_2_5 p_2_6 p_2_7 p_2_8 p_2_9 p_3_3 p_3_4 p_3_5 p_3_6 p_3_7 p_3_8 p_3_9 p_4_4 p_4_5 p_4_6 p_4_7 p_4_8 p_4_9 p_5_5 p_5_6 p_5_7 p_5_8 p_5_9 p_6_6 p_6_7 p_6_8 p_6_9 p_7_7 p_7_8 p_7_9 p_8_8 p_8_9 p_9_9
  unfold squareVal_exact
  dsimp -zeta only []
  extract_lets -merge m_0 t0_0 m_1 t1_0 m_2 t2_0 m_3 t3_0 m_4 t4_0 m_5 t5_0 m_6 t6_0 m_7 t7_0 m_8 t8_0 m_9 t9_0 m_10 t10_0 m_11 t11_0 m_12 t12_0 m_13 t13_0 m_14 t14_0 m_15 t15_0 m_16 t16_0 m_17 t17_0 m_18 t18_0 t19_0 m_19 t0_1 m_20 t1_1 m_21 t2_1 m_22 t3_1 m_23 t4_1 m_24 t5_1 m_25 t6_1 m_26 t7_1 m_27 t8_1 m_28 t9_1 m_29 n_0 o0 n_1 o1 o2 o3 o4 o5 o6 o7 o8 o9
  lets_to_eqs
  have k1 : m_1 = m_0 / 67108864 + (2 * a0 * a1) := by rw [hlet_2]; try simp only [Nat.add_assoc]
  have k2 : m_2 = m_1 / 67108864 + (2 * a0 * a2 + a1 * a1) := by rw [hlet_4]; try simp only [Nat.add_assoc]
  have k3 : m_3 = m_2 / 67108864 + (2 * a0 * a3 + 2 * a1 * a2) := by rw [hlet_6]; try simp only [Nat.add_assoc]
  have k4 : m_4 = m_3 / 67108864 + (2 * a0 * a4 + 2 * a1 * a3 + a2 * a2) := by rw [hlet_8]; try simp only [Nat.add_assoc]
  have k5 : m_5 = m_4 / 67108864 + (2 * a0 * a5 + 2 * a1 * a4 + 2 * a2 * a3) := by rw [hlet_10]; try simp only [Nat.add_assoc]
  have k6 : m_6 = m_5 / 67108864 + (2 * a0 * a6 + 2 * a1 * a5 + 2 * a2 * a4 + a3 * a3) := by rw [hlet_12]; try simp only [Nat.add_assoc]
  have k7 : m_7 = m_6 / 67108864 + (2 * a0 * a7 + 2 * a1 * a6 + 2 * a2 * a5 + 2 * a3 * a4) := by rw [hlet_14]; try simp only [Nat.add_assoc]
  have k8 : m_8 = m_7 / 67108864 + (2 * a0 * a8 + 2 * a1 * a7 + 2 * a2 * a6 + 2 * a3 * a5 + a4 * a4) := by rw [hlet_16]; try simp only [Nat.add_assoc]
  have k9 : m_9 = m_8 / 67108864 + (2 * a0 * a9 + 2 * a1 * a8 + 2 * a2 * a7 + 2 * a3 * a6 + 2 * a4 * a5) := by rw [hlet_18]; try simp only [Nat.add_assoc]
  have k10 : m_10 = m_9 / 67108864 + (2 * a1 * a9 + 2 * a2 * a8 + 2 * a3 * a7 + 2 * a4 * a6 + a5 * a5) := by rw [hlet_20]; try simp only [Nat.add_assoc]
  have k11 : m_11 = m_10 / 67108864 + (2 * a2 * a9 + 2 * a3 * a8 + 2 * a4 * a7 + 2 * a5 * a6) := by rw [hlet_22]; try simp only [Nat.add_assoc]
  have k12 : m_12 = m_11 / 67108864 + (2 * a3 * a9 + 2 * a4 * a8 + 2 * a5 * a7 + a6 * a6) := by rw [hlet_24]; try simp only [Nat.add_assoc]
  have k13 : m_13 = m_12 / 67108864 + (2 * a4 * a9 + 2 * a5 * a8 + 2 * a6 * a7) := by rw [hlet_26]; try simp only [Nat.add_assoc]
  have k14 : m_14 = m_13 / 67108864 + (2 * a5 * a9 + 2 * a6 * a8 + a7 * a7) := by rw [hlet_28]; try simp only [Nat.add_assoc]
  have k15 : m_15 = m_14 / 67108864 + (2 * a6 * a9 + 2 * a7 * a8) := by rw [hlet_30]; try simp only [Nat.add_assoc]
  have k16 : m_16 = m_15 / 67108864 + (2 * a7 * a9 + a8 * a8) := by rw [hlet_32]; try simp only [Nat.add_assoc]
  have k17 : m_17 = m_16 / 67108864 + (2 * a8 * a9) := by rw [hlet_34]; try simp only [Nat.add_assoc]
  have cv := carry_chain hlet_0 hlet_1 k1 hlet_3 k2 hlet_5 k3 hlet_7 k4 hlet_9 k5 hlet_11 k6 hlet_13 k7 hlet_15 k8 hlet_17 k9 hlet_19 k10 hlet_21 k11 hlet_23 k12 hlet_25 k13 hlet_27 k14 hlet_29 k15 hlet_31 k16 hlet_33 k17 hlet_35 hlet_36 hlet_37 hlet_38
  obtain ⟨tb0,tb1,tb2,tb3,tb4,tb5,tb6,tb7,tb8,tb9,tb10,tb11,tb12,tb13,tb14,tb15,tb16,tb17,tb18,tb19⟩ := carry_bounds hlet_0 hlet_1 k1 hlet_3 k2 hlet_5 k3 hlet_7 k4 hlet_9 k5 hlet_11 k6 hlet_13 k7 hlet_15 k8 hlet_17 k9 hlet_19 k10 hlet_21 k11 hlet_23 k12 hlet_25 k13 hlet_27 k14 hlet_29 k15 hlet_31 k16 hlet_33 k17 hlet_35 hlet_36 hlet_37 hlet_38 hc0 hc1 hc2 hc3 hc4 hc5 hc6 hc7 hc8 hc9 hc10 hc11 hc12 hc13 hc14 hc15 hc16 hc17 hc18
  obtain ⟨g0,g1,g2,g3,g4,g5,g6,g7,g8,g9,hv⟩ := mul_reduce tb0 tb1 tb2 tb3 tb4 tb5 tb6 tb7 tb8 tb9 tb10 tb11 tb12 tb13 tb14 tb15 tb16 tb17 tb18 tb19 hlet_39 hlet_40 hlet_41 hlet_42 hlet_43 hlet_44 hlet_45 hlet_46 hlet_47 hlet_48 hlet_49 hlet_50 hlet_51 hlet_52 hlet_53 hlet_54 hlet_55 hlet_56 hlet_57 hlet_58 hlet_59 hlet_60 hlet_61 hlet_62 hlet_63 hlet_64 hlet_65 hlet_66 hlet_67 hlet_68 hlet_69 hlet_70 hlet_71
  refine ⟨g0, g1, g2, g3, g4, g5, g6, g7, g8, g9, 16 * (t10_0 + t11_0 * 67108864 + t12_0 * 4503599627370496 + t13_0 * 302231454903657293676544 + t14_0 * 20282409603651670423947251286016 + t15_0 * 1361129467683753853853498429727072845824 + t16_0 * 91343852333181432387730302044767688728495783936 + t17_0 * 6129982163463555433433388108601236734474956488734408704 + t18_0 * 411376139330301510538742295639337626245683966408394965837152256 + t19_0 * 27606985387162255149739023449108101809804435888681546220650096895197184) + m_29, ?_⟩
  simp only [FN.val, Nat.reducePow, P_eq]
  rw [hv, cv]
  ring

set_option maxHeartbeats 4000000 in
/-- No `uint64` intermediate of `SquareVal` wraps and no final `uint32(…)` conversion truncates, for
operands of magnitude ≤ 8: lock-step simulation of the machine version by the exact version. -/
theorem squareVal_nowrap (a : FV) (ha : MagLe 8 a) :
    (squareVal a).toN = squareVal_exact a.toN := by
  rcases a with ⟨a0,a1,a2,a3,a4,a5,a6,a7,a8,a9⟩
  obtain ⟨ha0,ha1,ha2,ha3,ha4,ha5,ha6,ha7,ha8,ha9⟩ := ha
  simp only [Nat.reduceMul] at ha0 ha1 ha2 ha3 ha4 ha5 ha6 ha7 ha8 ha9
  unfold squareVal squareVal_exact
  simp -zeta only [FV.toN]
  extract_lets -merge
  lets_to_eqs
  sim_lets using omega

/-- **C09, SquareVal.** -/
theorem squareVal_sound (a : FV) (ha : MagLe 8 a) :
    (squareVal a).toN = squareVal_exact a.toN ∧
    (squareVal a).val % P = (a.val * a.val) % P ∧
    MagLe 1 (squareVal a) := by
  have hw := squareVal_nowrap a ha
  have ha' := ha
  obtain ⟨ha0,ha1,ha2,ha3,ha4,ha5,ha6,ha7,ha8,ha9⟩ := ha'
  simp only [Nat.reduceMul] at ha0 ha1 ha2 ha3 ha4 ha5 ha6 ha7 ha8 ha9
  have hs := squareVal_exact_spec a.toN ha0 ha1 ha2 ha3 ha4 ha5 ha6 ha7 ha8 ha9
  rw [← hw] at hs
  obtain ⟨g0,g1,g2,g3,g4,g5,g6,g7,g8,g9,q,hq⟩ := hs
  refine ⟨hw, ?_, ?_⟩
  · rw [val_toN, val_toN] at hq
    rw [← hq, Nat.add_mul_mod_self_right]
  · simp only [FV.toN] at g0 g1 g2 g3 g4 g5 g6 g7 g8 g9
    unfold MagLe
    omega

/-! ### the aliasing wrappers and non-vacuity -/

/-- `f.Mul(val)` is `f.Mul2(f, val)`; the translator checked that Mul2 reads every operand word
before it writes the first result word, so this is also what Go computes under aliasing. -/
theorem mul_eq (f v : FV) : mul f v = mul2 f v := rfl
/-- `f.Square()` is `f.SquareVal(f)`. -/
theorem square_eq (f : FV) : square f = squareVal f := rfl

example : (mul2 exA exB).val % P = (exA.val * exB.val) % P ∧ MagLe 1 (mul2 exA exB) :=
  (mul2_sound exA exB (by decide) (by decide)).2
example : (squareVal exB).val % P = (exB.val * exB.val) % P ∧ MagLe 1 (squareVal exB) :=
  (squareVal_sound exB (by decide)).2
/-- the slack in `MagLe` is needed: for these magnitude-8 operands word 2 of the product exceeds
2^26 - 1 (found by random search with the Go code; `mul2` is the generated definition). -/
def exM8a : FV := ⟨545259520, 545259023, 343573247, 545258893, 170720980, 545259520, 545258624,
  545258698, 545258546, 33554432⟩
def exM8b : FV := ⟨545259341, 384773759, 309653204, 369377851, 44009460, 545258852, 408077144,
  231209070, 181639989, 33553618⟩
example : MagLe 8 exM8a ∧ MagLe 8 exM8b ∧ (mul2 exM8a exM8b).n2.toNat = 67370928 ∧
    (67370928 : Nat) > 67108863 := by decide +kernel

#print axioms mul2_sound
#print axioms squareVal_sound

end GoBk.Proofs.Field
